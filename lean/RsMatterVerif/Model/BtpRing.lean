/-!
# Model of `rs-matter/src/utils/storage/ringbuf.rs` — the real index arithmetic, CHECKED

`RingBuf<N>`: `buf: Vec<u8, N>` (length 0 until the first `push` resizes it to `N`), `start`, `end`,
`non_empty`. The storage is the byte list `buf` (`buf.length` = `self.buf.len()`).
Transliterated statement by statement: `push` (chunked copy, dropping the oldest bytes on overflow),
`pop` (chunked copy out), `wrap`, `len`, `free`, `is_full`, `is_empty`, `clear`, `push_byte`,
`pop_byte` — the BTP session (`RecvWindow`) uses `clear`, `free`, `push`, `pop`, `pop_byte`, `len`.

**Every place where the Rust can panic is an explicit outcome** (`RingFail.panic`, debug build =
overflow checks on):

* `a - b` on `usize` → `usub`: panic if `b > a` ("attempt to subtract with overflow");
* `a + b`, `a += b` on `usize` → `uadd`: panic if the sum is `≥ 2^64` (`USIZE`);
* `buf[i]` → `setIdx`: panic if `i ≥ buf.len()`;
* `buf[a..b]` → `slice` / `checkRange`: panic if `a > b` or `b > len`;
* `dst.copy_from_slice(src)` → `copyInto`: panic if the two lengths differ.

There is no `%` or `/` in `ringbuf.rs` (wrap-around is the comparison `== buf.len()` in `wrap`).

The Rust `while` loops become recursion on a fuel argument (`data.len() + 1` / `out_buf.len() + 1`)
that cannot run out when `N > 0` (every iteration moves at least one byte — proved, see
`Lemmas/BtpRing.lean`). For `N = 0` the Rust `push` of a non-empty slice does not terminate
(`len = min(0 - 0, …) = 0`, nothing moves, no panic): the model answers `RingFail.hang`
when the fuel is used up.

At the end: the buffer calls that `RecvWindow` (btp/session.rs) makes on its
`RingBuf<MAX_MESSAGE_SIZE>` — `accept_incoming` (`free()` test, `push` of the length prefix, `push` of
the payload), `fetch_message` (`pop_byte` ×2, `pop`, `pop_byte` for the truncated rest), `reset`
(`clear`) — transliterated on the checked ring (`Ring.acceptBuf`, `Ring.fetchBuf`, `Ring.bufRun`) and on
the byte list the session model keeps (`qBufStep`, `qBufRun`).

Import-free (the driver executable links this file).
-/
namespace Btp

/-- `usize::MAX + 1` on the 64-bit targets the harness runs on. The theorems only use
`2 * N ≤ USIZE` and "lengths of slices are `< USIZE`", never the number itself. -/
def USIZE : Nat := 18446744073709551616

inductive RingFail where
  /-- a Rust panic (arithmetic overflow, index / slice range out of bounds, `copy_from_slice`
  length mismatch) -/
  | panic (why : String)
  /-- the fuel of a loop ran out (the Rust loop does not terminate: only `push` with `N = 0`) -/
  | hang
deriving Repr, DecidableEq, Inhabited

def RingFail.isPanic : RingFail → Bool
  | .panic _ => true
  | .hang => false

abbrev RingM := Except RingFail

/-- checked `a - b` on `usize` -/
def usub (a b : Nat) (why : String) : RingM Nat :=
  if b ≤ a then .ok (a - b) else .error (.panic why)

/-- checked `a + b` on `usize` -/
def uadd (a b : Nat) (why : String) : RingM Nat :=
  if a + b < USIZE then .ok (a + b) else .error (.panic why)

/-- the range check of `s[a..b]` on a slice of length `len` -/
def checkRange (a b len : Nat) (why : String) : RingM Unit :=
  if a ≤ b ∧ b ≤ len then .ok () else .error (.panic why)

/-- `&s[a..b]` -/
def slice (s : List Nat) (a b : Nat) (why : String) : RingM (List Nat) :=
  if a ≤ b ∧ b ≤ s.length then .ok ((s.drop a).take (b - a)) else .error (.panic why)

/-- `dst[a..b].copy_from_slice(src)`: the range check of the destination, then the length check of
`copy_from_slice` -/
def copyInto (dst : List Nat) (a b : Nat) (src : List Nat) (why : String) : RingM (List Nat) :=
  if ¬ (a ≤ b ∧ b ≤ dst.length) then .error (.panic why)
  else if src.length ≠ b - a then .error (.panic (why ++ ": copy_from_slice length mismatch"))
  else .ok (dst.take a ++ src ++ dst.drop b)

/-- `buf[i] = v` -/
def setIdx (buf : List Nat) (i v : Nat) (why : String) : RingM (List Nat) :=
  if i < buf.length then .ok (buf.set i v) else .error (.panic why)

structure Ring where
  /-- the const generic `N` -/
  n : Nat
  /-- `buf: Vec<u8, N>`; `buf.length` is `self.buf.len()`: `0` until the first push, then `N` -/
  buf : List Nat := []
  start : Nat := 0
  end_ : Nat := 0
  nonEmpty : Bool := false
deriving Repr, DecidableEq

namespace Ring

/-- `RingBuf::new()` -/
def new (n : Nat) : Ring := { n := n }

/-- `unwrap!(self.buf.resize_default(N))`: extend with zeroes up to `N` (or truncate to `N`); the
`unwrap!` cannot fail because `new_len = N` is the capacity of the `Vec<u8, N>` -/
def resize (r : Ring) : Ring :=
  { r with buf := if r.buf.length < r.n then r.buf ++ List.replicate (r.n - r.buf.length) 0
                  else r.buf.take r.n }

/-- `RingBuf::wrap` -/
def wrap (r : Ring) : Ring :=
  { r with start := if r.start = r.buf.length then 0 else r.start,
           end_ := if r.end_ = r.buf.length then 0 else r.end_ }

/-- `RingBuf::len`: `0` / `self.end - self.start` / `self.buf.len() + self.end - self.start` -/
def len (r : Ring) : RingM Nat :=
  if !r.nonEmpty then .ok 0
  else if r.start < r.end_ then usub r.end_ r.start "len: end - start"
  else do
    let t ← uadd r.buf.length r.end_ "len: buf.len() + end"
    usub t r.start "len: buf.len() + end - start"

/-- `RingBuf::free` (`N - self.len()`) -/
def free (r : Ring) : RingM Nat := do
  let l ← r.len
  usub r.n l "free: N - len()"

/-- `RingBuf::is_full` -/
def isFull (r : Ring) : Bool := r.start == r.end_ && r.nonEmpty

/-- `RingBuf::is_empty` -/
def isEmpty (r : Ring) : Bool := !r.nonEmpty

/-- `RingBuf::clear` -/
def clear (r : Ring) : Ring := { r with start := 0, end_ := 0, nonEmpty := false }

/-- one iteration of the `while offset < data.len()` loop of `push`; returns the ring and the new
`offset`. (`self.end + len` is evaluated three times in the Rust — slice bound, overflow test,
`+=` — with the same operands: checked once here.) -/
def pushIter (r : Ring) (data : List Nat) (offset : Nat) : RingM (Ring × Nat) := do
  -- let len = min(self.buf.len() - self.end, data.len() - offset);
  let a ← usub r.buf.length r.end_ "push: buf.len() - end"
  let b ← usub data.length offset "push: data.len() - offset"
  let len := min a b
  -- self.buf[self.end..self.end + len].copy_from_slice(&data[offset..offset + len]);
  let e2 ← uadd r.end_ len "push: end + len"
  let o2 ← uadd offset len "push: offset + len"
  let src ← slice data offset o2 "push: data[offset..offset + len]"
  let buf2 ← copyInto r.buf r.end_ e2 src "push: buf[end..end + len]"
  -- offset += len;   (= o2)
  -- if self.non_empty && self.start >= self.end && self.start < self.end + len { self.start = self.end + len; }
  let start2 := if r.nonEmpty && decide (r.start ≥ r.end_) && decide (r.start < e2) then e2 else r.start
  -- self.end += len; self.wrap(); self.non_empty = true;
  .ok ({ (wrap { r with buf := buf2, start := start2, end_ := e2 }) with nonEmpty := true }, o2)

/-- the loop of `push` -/
def pushLoop : Nat → Ring → List Nat → Nat → RingM Ring
  | 0, r, data, offset => if offset < data.length then .error .hang else .ok r
  | fuel + 1, r, data, offset =>
    if offset < data.length then
      match r.pushIter data offset with
      | .error e => .error e
      | .ok (r2, o2) => pushLoop fuel r2 data o2
    else .ok r

/-- `RingBuf::push`: the new ring and the returned `self.len()` -/
def push (r : Ring) (d : List Nat) : RingM (Ring × Nat) :=
  match pushLoop (d.length + 1) r.resize d 0 with
  | .error e => .error e
  | .ok r2 =>
    match r2.len with
    | .error e => .error e
    | .ok l => .ok (r2, l)

/-- `RingBuf::push_byte`: the new ring and the returned `self.len()` -/
def pushByte (r : Ring) (b : Nat) : RingM (Ring × Nat) :=
  let r0 := r.resize
  -- self.buf[self.end] = data;
  match setIdx r0.buf r0.end_ b "push_byte: buf[end]" with
  | .error e => .error e
  | .ok buf2 =>
    -- if self.non_empty && self.start == self.end { self.start = self.end + 1; }
    match (if r0.nonEmpty && r0.start == r0.end_ then uadd r0.end_ 1 "push_byte: end + 1" else .ok r0.start) with
    | .error e => .error e
    | .ok start2 =>
      -- self.end += 1;
      match uadd r0.end_ 1 "push_byte: end += 1" with
      | .error e => .error e
      | .ok e2 =>
        let r2 : Ring := { (wrap { r0 with buf := buf2, start := start2, end_ := e2 }) with nonEmpty := true }
        match r2.len with
        | .error e => .error e
        | .ok l => .ok (r2, l)

/-- one iteration of the `while offset < out_buf.len() && self.non_empty` loop of `pop` with
`out_buf.len() = k`: the new ring, the bytes copied to `out_buf[offset..offset + len]`, the new
`offset` -/
def popIter (r : Ring) (k offset : Nat) : RingM (Ring × List Nat × Nat) := do
  -- let len = min(if self.start < self.end { self.end } else { self.buf.len() } - self.start, out_buf.len() - offset);
  let a ← usub (if r.start < r.end_ then r.end_ else r.buf.length) r.start "pop: (end | buf.len()) - start"
  let b ← usub k offset "pop: out_buf.len() - offset"
  let len := min a b
  -- out_buf[offset..offset + len].copy_from_slice(&self.buf[self.start..self.start + len]);
  let o2 ← uadd offset len "pop: offset + len"
  checkRange offset o2 k "pop: out_buf[offset..offset + len]"
  let s2 ← uadd r.start len "pop: start + len"
  let src ← slice r.buf r.start s2 "pop: buf[start..start + len]"
  if src.length ≠ o2 - offset then .error (.panic "pop: copy_from_slice length mismatch")
  else
    -- self.start += len; self.wrap(); if self.start == self.end { self.non_empty = false }
    let r1 := wrap { r with start := s2 }
    -- offset += len;   (= o2)
    .ok ({ r1 with nonEmpty := if r1.start = r1.end_ then false else r1.nonEmpty }, src, o2)

/-- the loop of `pop`: `acc` = `out_buf[..offset]` -/
def popLoop : Nat → Ring → Nat → Nat → List Nat → RingM (Ring × List Nat)
  | 0, r, k, offset, acc => if offset < k && r.nonEmpty then .error .hang else .ok (r, acc)
  | fuel + 1, r, k, offset, acc =>
    if offset < k && r.nonEmpty then
      match r.popIter k offset with
      | .error e => .error e
      | .ok (r2, out, o2) => popLoop fuel r2 k o2 (acc ++ out)
    else .ok (r, acc)

/-- `RingBuf::pop(out_buf)` with `out_buf.len() = k`: the new ring and the bytes copied
(the Rust returns their number) -/
def pop (r : Ring) (k : Nat) : RingM (Ring × List Nat) := popLoop (k + 1) r k 0 []

/-- `RingBuf::pop_byte`: `pop` into a one-byte buffer -/
def popByte (r : Ring) : RingM (Ring × Option Nat) :=
  match r.pop 1 with
  | .error e => .error e
  | .ok (r2, [b]) => .ok (r2, some b)
  | .ok (r2, _) => .ok (r2, none)

end Ring

/-! ## The specification: a bounded FIFO of bytes -/

/-- push onto a byte queue of capacity `n`: the oldest bytes beyond the capacity are dropped -/
def qPush (n : Nat) (q d : List Nat) : List Nat := (q ++ d).drop ((q ++ d).length - n)

/-- pop up to `k` bytes: the rest of the queue and the bytes taken -/
def qPop (q : List Nat) (k : Nat) : List Nat × List Nat := (q.drop k, q.take k)

/-- operations of a ring buffer user -/
inductive RingOp where
  | push (d : List Nat)
  | pop (k : Nat)
  | pushByte (b : Nat)
  | popByte
  | clear
deriving Repr, DecidableEq

/-- what the user observes: bytes handed out, then `len`, `free`, `is_full`, `is_empty` -/
structure RingObs where
  out : List Nat
  len : Nat
  free : Nat
  full : Bool
  empty : Bool
deriving DecidableEq, Repr

/-- the observation after an operation: calls `len()` and `free()` (both checked) -/
def Ring.obs (r : Ring) (out : List Nat) : RingM RingObs := do
  let l ← r.len
  let f ← r.free
  .ok { out := out, len := l, free := f, full := r.isFull, empty := r.isEmpty }

def qObs (n : Nat) (q out : List Nat) : RingObs :=
  { out := out, len := q.length, free := n - q.length, full := q.length == n && n > 0, empty := q.isEmpty }

/-- the ring after an operation and the bytes it handed out -/
def Ring.apply (r : Ring) : RingOp → RingM (Ring × List Nat)
  | .push d => do let (r2, _) ← r.push d; .ok (r2, [])
  | .pop k => r.pop k
  | .pushByte b => do let (r2, _) ← r.pushByte b; .ok (r2, [])
  | .popByte => do
    let (r2, o) ← r.popByte
    .ok (r2, match o with | some b => [b] | none => [])
  | .clear => .ok (r.clear, [])

/-- one operation and what the user then observes; `error` = the operation (or the following
`len()` / `free()`) panicked or hangs -/
def Ring.step (r : Ring) (op : RingOp) : RingM (Ring × RingObs) := do
  let (r2, out) ← r.apply op
  let o ← r2.obs out
  .ok (r2, o)

def qStep (n : Nat) (q : List Nat) : RingOp → List Nat × RingObs
  | .push d => let q' := qPush n q d; (q', qObs n q' [])
  | .pop k => let (q', o) := qPop q k; (q', qObs n q' o)
  | .pushByte b => let q' := qPush n q [b]; (q', qObs n q' [])
  | .popByte => let (q', o) := qPop q 1; (q', qObs n q' o)
  | .clear => ([], qObs n [] [])

/-- run a list of operations, collecting what the user observes; stops with the failure at the
first operation that panics / hangs -/
def Ring.run (r : Ring) : List RingOp → RingM (List RingObs)
  | [] => .ok []
  | op :: ops =>
    match r.step op with
    | .error e => .error e
    | .ok (r2, o) =>
      match Ring.run r2 ops with
      | .error e => .error e
      | .ok os => .ok (o :: os)

def Ring.qRun (n : Nat) (q : List Nat) : List RingOp → List RingObs
  | [] => []
  | op :: ops => (qStep n q op).2 :: Ring.qRun n (qStep n q op).1 ops

/-! ## The buffer calls of the BTP receive window, run on the checked ring -/

/-- what `RecvWindow` (session.rs) does with its `buf: RingBuf<MAX_MESSAGE_SIZE>` -/
inductive BufOp where
  /-- `accept_incoming`, session.rs:300-310: `if self.buf.free() < prefix_len + payload.len() { Err }`,
  `if let Some(msg_len) = sdu_len_prefix { self.buf.push(&u16::to_le_bytes(msg_len)) }`,
  `self.buf.push(payload)` -/
  | accept (pfx : Option (List Nat)) (payload : List Nat)
  /-- `fetch_message(buf)` with `buf.len() = cap`, session.rs:417-436: two `pop_byte()` (the length
  prefix), `pop(&mut buf[..min(len, cap)])`, then `pop_byte()` for the truncated rest -/
  | fetch (cap : Nat)
  /-- `reset`: `self.buf.clear()` -/
  | reset
deriving Repr, DecidableEq

inductive BufOut where
  | refused
  | accepted
  | fetched (bytes : List Nat)
  | cleared
deriving Repr, DecidableEq

namespace Ring

/-- `for _ in pop_len..len { if self.buf.pop_byte().is_none() { Err(Invalid)? } }`: `m` iterations;
`none` = the `Err(Invalid)` return -/
def drain : Nat → Ring → RingM (Option Ring)
  | 0, r => .ok (some r)
  | m + 1, r =>
    match r.popByte with
    | .error e => .error e
    | .ok (_, none) => .ok none
    | .ok (r2, some _) => drain m r2

/-- `if let Some(msg_len) = sdu_len_prefix { self.buf.push(&u16::to_le_bytes(msg_len)); }` -/
def pushPfx (r : Ring) : Option (List Nat) → RingM Ring
  | none => .ok r
  | some p =>
    match r.push p with
    | .error e => .error e
    | .ok (r1, _) => .ok r1

/-- the buffer calls of `RecvWindow::accept_incoming`; `none` = refused (ring untouched).
The Rust's `prefix_len + payload.len()` (`usize +`) is the plain `Nat` `+` here, not `uadd`: the
prefix is 0 or 2 bytes and a Rust slice is at most `isize::MAX = 2^63 - 1` bytes long, so the sum
cannot reach `USIZE = 2^64` (`BufOp.Wf` only says `payload.length < USIZE`; for lengths between
`2^64 - 2` and `2^64`, which no slice has, the model answers "refused" where the arithmetic would
overflow). `USIZE` is fixed at `2^64`: 32-bit targets (`usize = u32`) are not covered by the
no-panic theorems of the ring (the BTP capacities, `2 * 3166`, are far below `2^32` too, but the
theorems are not stated for that limit). -/
def acceptBuf (r : Ring) (pfx : Option (List Nat)) (payload : List Nat) : RingM (Option Ring) :=
  match r.free with
  | .error e => .error e
  | .ok f =>
    if f < (pfx.getD []).length + payload.length then .ok none
    else
      match r.pushPfx pfx with
      | .error e => .error e
      | .ok r1 =>
        match r1.push payload with
        | .error e => .error e
        | .ok (r2, _) => .ok (some r2)

/-- the buffer calls of `RecvWindow::fetch_message`; `none` = an `Err(Invalid)` return (the bytes
popped so far are then gone: the Rust mutates before it fails) -/
def fetchBuf (r : Ring) (cap : Nat) : RingM (Option (Ring × List Nat)) :=
  match r.popByte with
  | .error e => .error e
  | .ok (_, none) => .ok none
  | .ok (r1, some lo) =>
    match r1.popByte with
    | .error e => .error e
    | .ok (_, none) => .ok none
    | .ok (r2, some hi) =>
      match r2.pop (min (lo + 256 * hi) cap) with
      | .error e => .error e
      | .ok (r3, out) =>
        if out.length ≠ min (lo + 256 * hi) cap then .ok none
        else
          match drain (lo + 256 * hi - min (lo + 256 * hi) cap) r3 with
          | .error e => .error e
          | .ok none => .ok none
          | .ok (some r4) => .ok (some (r4, out))

def bufStep (r : Ring) : BufOp → RingM (Option (Ring × BufOut))
  | .accept pfx payload =>
    match r.acceptBuf pfx payload with
    | .error e => .error e
    | .ok none => .ok (some (r, .refused))
    | .ok (some r2) => .ok (some (r2, .accepted))
  | .fetch cap =>
    match r.fetchBuf cap with
    | .error e => .error e
    | .ok none => .ok none
    | .ok (some (r2, out)) => .ok (some (r2, .fetched out))
  | .reset => .ok (some (r.clear, .cleared))

/-- run the receive window's buffer calls on the ring; `.ok none` = a `fetch_message` returned
`Err(Invalid)` (run stopped); `.error` = panic / hang -/
def bufRun (r : Ring) : List BufOp → RingM (Option (List BufOut))
  | [] => .ok (some [])
  | op :: ops =>
    match r.bufStep op with
    | .error e => .error e
    | .ok none => .ok none
    | .ok (some (r2, o)) =>
      match bufRun r2 ops with
      | .error e => .error e
      | .ok none => .ok none
      | .ok (some os) => .ok (some (o :: os))

end Ring

/-- the same on the byte list of the session model (`Model/Btp.lean`: `ringFree`, `ringPush`,
`RecvWindow.fetchMessage`'s `lo :: hi :: rest` / `rest.take` / `rest.drop`), capacity `n`;
`none` = `fetch` on a list that does not start with a complete length-prefixed message
(`.error .invalid` in `Model/Btp.lean`) -/
def qBufStep (n : Nat) (q : List Nat) : BufOp → Option (List Nat × BufOut)
  | .accept pfx payload =>
    if n - q.length < (pfx.getD []).length + payload.length then some (q, .refused)
    else some (qPush n (qPush n q (pfx.getD [])) payload, .accepted)
  | .fetch cap =>
    match q with
    | lo :: hi :: rest =>
      if lo + 256 * hi ≤ rest.length then
        some (rest.drop (lo + 256 * hi), .fetched (rest.take (min (lo + 256 * hi) cap)))
      else none
    | _ => none
  | .reset => some ([], .cleared)

def qBufRun (n : Nat) (q : List Nat) : List BufOp → Option (List BufOut)
  | [] => some []
  | op :: ops =>
    match qBufStep n q op with
    | none => none
    | some (q2, o) =>
      match qBufRun n q2 ops with
      | none => none
      | some os => some (o :: os)

end Btp
