import RsMatterVerif.Model.Codec.CmsCd
/-!
# Model of `cert/x509/cert.rs` (`X509Cert::new` for DAC / PAI / PAA and its accessors), `cert/x509.rs`
# (`KeyUsage::from`, `parse_hex_u16`, `time_to_unix_secs`) and `cert/x509/csr.rs` (`CsrRef::new`, `pubkey`, signature)

rs-matter's own code, transliterated branch by branch: `MatterDnAttrs::parse`, `Name::decode_value`,
`ParsedExtensionFields::parse`, `Dac/Pai/PaaExtensions::decode_value`, the three `validate_issuer_subject`,
`TbsCertificate::decode_value`, `X509Cert::new` and the accessors; `SubjectPublicKeyInfo::decode_value`,
`CertificationRequest::decode_value`, `CsrRef::new` (both passes), `pubkey`, `signature`.

Dependency code (`der` 0.7.10, `der_derive` 0.7.3, `const-oid` 0.9.6) that these sit on, transliterated as far as
it decides *acceptance* and the *values* returned (every `der::Error` ends as `ErrorCode::InvalidData`, so the
error kind carried by the model is informative only): `Decode for T: DecodeValue + FixedTag` (`dHeaderOf`),
`ObjectIdentifier::decode_value` + `const_oid::ObjectIdentifier::from_bytes` (`oidValid`: 3..=39 octets, first
octet ≤ 119, base-128 arcs of at most 5 octets whose 5th octet is < 16, no arc cut short), `UintRef` /
`u8` / `bool` / `BitStringRef` / `OctetStringRef` decoding, `Option<T>::decode` (peek), `ContextSpecific::
decode_with` / `decode_explicit` / `decode_implicit`, `#[derive(Sequence)]` (`read_nested` + fields in order, the
`default` attribute), `#[derive(Choice)]` for `Time`, `UtcTime` / `GeneralizedTime::decode_value`,
`DateTime::new` and `DateTime::from_unix_duration`.

The decoders are actions of the state monad `Dec = StateT Rdr (Except E)` over the reader of `DerRead.lean`.
Borrowed slices are returned with the offset at which they start in the certificate (what
`slice.as_ptr() - data.as_ptr()` is), as in `CmsCd.lean`.
-/
namespace Codec.DerRd

abbrev Dec := StateT Rdr (Except E)

namespace Dec
variable {α : Type}
/-- `return Err(kind.into())` -/
def fail (e : E) : Dec α := fun _ => .error e
/-- `expr?` for an expression that does not touch the reader -/
def lift (x : Except E α) : Dec α := fun r =>
  match x with
  | .ok a => .ok (a, r)
  | .error e => .error e
end Dec

def dHeader : Dec (Nat × Nat) := headerDecode
def dAny : Dec (Nat × List Nat) := anyDecode
def dSlice (n : Nat) : Dec (List Nat) := fun r => r.readSlice n
def dSliceAt (n : Nat) : Dec (List Nat × Nat) := fun r => readSliceAt r n
def dByte : Dec Nat := fun r => r.readByte
def dFinished : Dec Bool := fun r =>
  match r.isFinished with
  | .ok b => .ok (b, r)
  | .error e => .error e
def dPeek : Dec (Option Nat) := fun r =>
  match r.peekByte with
  | .ok b => .ok (b, r)
  | .error e => .error e
def dPosition : Dec Nat := fun r => .ok (r.position, r)
/-- `reader.read_nested(len, p)` -/
def dNested {α : Type} (len : Nat) (p : Dec α) : Dec α := fun r => readNested r len p

/-- `reader.read_into(&mut buf[..n])`: `read_slice(n)`, then `buf.copy_from_slice(input)` (panics on a length
mismatch) -/
def dReadInto (n : Nat) : Dec (List Nat) := do
  let s ← dSlice n
  if s.length = n then pure s else Dec.fail .panic

/-- `let mut rd = SliceReader::new(bytes)?; p(&mut rd)?` — the reader is dropped afterwards, nothing checks that
it was read to its end -/
def runNew {α : Type} (bytes : List Nat) (p : Dec α) : Except E α :=
  match Rdr.new bytes with
  | .error e => .error e
  | .ok r =>
    match p r with
    | .ok (a, _) => .ok a
    | .error e => .error e

/-- `T::from_der(bytes)`: `SliceReader::new`, `T::decode`, `reader.finish` -/
def fromDer {α : Type} (bytes : List Nat) (p : Dec α) : Except E α :=
  match Rdr.new bytes with
  | .error e => .error e
  | .ok r =>
    match p r with
    | .error e => .error e
    | .ok (a, r') =>
      match r'.finish with
      | .ok _ => .ok a
      | .error e => .error e

def TAG_BOOLEAN : Nat := 0x01
def TAG_BIT_STRING : Nat := 0x03
def TAG_UTC_TIME : Nat := 0x17
def TAG_GENERALIZED_TIME : Nat := 0x18

/-- `impl Decode for T: DecodeValue + FixedTag`: `Header::decode`, `header.tag.assert_eq(T::TAG)`; the length -/
def dHeaderOf (tag : Nat) : Dec Nat := do
  let (t, len) ← dHeader
  if t ≠ tag then Dec.fail .tagUnexpected else pure len

/-- `BytesRef::decode_value`: `read_slice(len).and_then(BytesRef::new)`, with the offset of the slice -/
def dBytesAt (len : Nat) : Dec (List Nat × Nat) := do
  let (v, off) ← dSliceAt len
  let _ ← Dec.lift (lenNew v.length)
  pure (v, off)

/-- `AnyRef::decode` with the offset of the value -/
def dAnyAt : Dec (Nat × (List Nat × Nat)) := do
  let (tag, len) ← dHeader
  let v ← dBytesAt len
  pure (tag, v)

/-! ## `ObjectIdentifier` (`const-oid`) -/

/-- the arc walk of `Arcs::try_next` from offset 1 on: `n` = octets of the current arc read so far -/
def arcsOk : List Nat → Nat → Bool
  | [], n => n == 0                                   -- `None` in the middle of an arc: `Error::Base128`
  | b :: rest, n =>
    if n + 1 > 4 && b / 16 % 16 != 0 then false      -- `ArcTooBig`: `byte & 0b11110000 != 0` from the 5th octet on
    else if b / 128 % 2 == 0 then arcsOk rest 0       -- last octet of the arc
    else arcsOk rest (n + 1)

/-- `ObjectIdentifier::from_bytes(..).is_ok()` -/
def oidValid (bs : List Nat) : Bool :=
  match bs with
  | [] => false                                       -- `Error::Empty`
  | b :: rest => 3 ≤ bs.length && bs.length ≤ OID_MAX_SIZE && b / 40 ≤ 2 && arcsOk rest 0

/-- `ObjectIdentifier::decode`: the content octets of a well-formed OID -/
def dOid : Dec (List Nat) := do
  let len ← dHeaderOf TAG_OID
  if len > OID_MAX_SIZE then Dec.fail .length else do
    let v ← dReadInto len
    if oidValid v then pure v else Dec.fail .value

/-- `impl TryFrom<AnyRef> for ObjectIdentifier` -/
def oidOfAny (a : Nat × List Nat) : Except E (List Nat) :=
  if a.1 ≠ TAG_OID then .error .tagUnexpected
  else if oidValid a.2 then .ok a.2 else .error .value

/-! ## INTEGER, BOOLEAN, BIT STRING -/

/-- `uint::decode_to_slice` -/
def decodeToSlice : List Nat → Except E (List Nat)
  | [] => .error .noncanonical
  | [b] => if b ≥ 0x80 then .error .value else .ok [b]
  | a :: b :: rest =>
    if a = 0 then (if b < 0x80 then .error .noncanonical else .ok (b :: rest))
    else if a ≥ 0x80 then .error .value else .ok (a :: b :: rest)

/-- `uint::strip_leading_zeroes` -/
def stripLeadingZeroes : List Nat → List Nat
  | a :: b :: rest => if a = 0 then stripLeadingZeroes (b :: rest) else a :: b :: rest
  | l => l

def needsLeadingZero (l : List Nat) : Bool :=
  match l with
  | b :: _ => decide (b ≥ 0x80)
  | [] => false

/-- `uint::encoded_len` -/
def uintEncodedLen (l : List Nat) : Nat :=
  (stripLeadingZeroes l).length + (if needsLeadingZero (stripLeadingZeroes l) then 1 else 0)

/-- `UintRef::decode`: the magnitude octets (`as_bytes()`) -/
def dUintRef : Dec (List Nat) := do
  let len ← dHeaderOf TAG_INTEGER
  let (bytes, _) ← dBytesAt len
  let s ← Dec.lift (decodeToSlice bytes)
  let inner := stripLeadingZeroes s
  if uintEncodedLen inner ≠ len then Dec.fail .noncanonical else pure inner

/-- `u8::decode` -/
def dU8 : Dec Nat := do
  let len ← dHeaderOf TAG_INTEGER
  if len > 2 then Dec.fail .noncanonical else do
    let bytes ← dReadInto len
    let input ← Dec.lift (decodeToSlice bytes)
    if input.length > 1 then Dec.fail .length else
      let v := input.headD 0
      if uintEncodedLen [v] ≠ len then Dec.fail .noncanonical else pure v

/-- `bool::decode` -/
def dBool : Dec Bool := do
  let len ← dHeaderOf TAG_BOOLEAN
  if len ≠ 1 then Dec.fail .length else do
    let b ← dByte
    if b = 0 then pure false else if b = 0xFF then pure true else Dec.fail .noncanonical

structure BitStr where
  unused : Nat
  bytes : List Nat
  off : Nat
deriving Repr, DecidableEq

/-- `BitStringRef::decode` (`decode_value` + `BitStringRef::new`) -/
def dBitString : Dec BitStr := do
  let len ← dHeaderOf TAG_BIT_STRING
  if len < 1 then Dec.fail .overflow else do     -- `(header.length - Length::ONE)?`
    let unused ← dByte
    let (bytes, off) ← dBytesAt (len - 1)
    if unused > 7 ∨ (unused ≠ 0 ∧ bytes.isEmpty) then Dec.fail .value
    else pure { unused := unused, bytes := bytes, off := off }

/-- `Option<T>::decode` for a type with the fixed tag `tag`: `peek_byte`, `Tag::try_from`, `T::can_decode` -/
def dOpt {α : Type} (tag : Nat) (p : Dec α) : Dec (Option α) := do
  match ← dPeek with
  | none => pure none
  | some b => do
    let t ← Dec.lift (tagOfByte b)
    if t = tag then do
      let a ← p
      pure (some a)
    else pure none

/-- `Option<AnyRef>::decode` (`AnyRef::can_decode` is always true) -/
def dOptAny : Dec (Option (Nat × List Nat)) := do
  match ← dPeek with
  | none => pure none
  | some b => do
    let _ ← Dec.lift (tagOfByte b)
    let a ← dAny
    pure (some a)

/-- `AlgorithmIdentifier::decode` (`#[derive(Sequence)]`): algorithm OID and optional parameters -/
def dAlgId : Dec (List Nat × Option (Nat × List Nat)) := do
  let len ← dHeaderOf TAG_SEQUENCE
  dNested len (do
    let oid ← dOid
    let params ← dOptAny
    pure (oid, params))

/-! ## context-specific fields -/

/-- `tag.is_context_specific()` / `tag.number()` / `tag.is_constructed()` on the tag octet -/
def isCtx (t : Nat) : Bool := t / 64 == 2
def tagNumber (t : Nat) : Nat := t % 32
def isConstructed (t : Nat) : Bool := t / 32 % 2 == 1

/-- `ContextSpecific::decode_with`: fields with a lower number are skipped, a higher number or another class
ends the search -/
def ctxWith {α : Type} (n : Nat) (f : Dec α) : Nat → Dec (Option α)
  | 0 => Dec.fail .endless
  | fuel + 1 => do
    match ← dPeek with
    | none => pure none
    | some b => do
      let t ← Dec.lift (tagOfByte b)
      if !isCtx t || tagNumber t > n then pure none
      else if tagNumber t = n then do
        let a ← f
        pure (some a)
      else do
        let _ ← dAny
        ctxWith n f fuel

/-- `impl Decode for ContextSpecific<T>` (the `EXPLICIT` form): a constructed context-specific header, then `T`
in a nested reader -/
def ctxExplicit {α : Type} (inner : Dec α) : Dec α := do
  let (t, len) ← dHeader
  if isCtx t && isConstructed t then dNested len inner else Dec.fail .tagUnexpected

/-- the closure of `decode_implicit` for a type whose value is the raw octets (`OctetStringRef`: primitive) -/
def ctxImplicitOctets : Dec (List Nat × Nat) := do
  let (t, len) ← dHeader
  let v ← dBytesAt len
  if isConstructed t then Dec.fail .noncanonical else pure v

/-- the closure of `decode_implicit` for `AnyRef` (`value.tag()` is the header's tag: no constructed mismatch) -/
def ctxImplicitAny : Dec (Nat × (List Nat × Nat)) := do
  let (t, len) ← dHeader
  let v ← dBytesAt len
  pure (t, v)

/-! ## `DateTime`, `UTCTime`, `GeneralizedTime`, `Time`, `Validity` -/

structure DateTime where
  year : Nat
  month : Nat
  day : Nat
  hour : Nat
  minutes : Nat
  seconds : Nat
  secs : Nat            -- `unix_duration.as_secs()`
deriving Repr, DecidableEq

/-- `MAX_UNIX_DURATION` = 9999-12-31T23:59:59Z -/
def MAX_UNIX_SECS : Nat := 253402300799

def DateTime.INFINITY : DateTime :=
  { year := 9999, month := 12, day := 31, hour := 23, minutes := 59, seconds := 59, secs := MAX_UNIX_SECS }

def isLeapYear (year : Nat) : Bool := year % 4 == 0 && (year % 100 != 0 || year % 400 == 0)

/-- the `match month` of `DateTime::new`: days before the month in a common year, days of the month -/
def monthTable (leap : Bool) (month : Nat) : Option (Nat × Nat) :=
  match month with
  | 1 => some (0, 31)
  | 2 => if leap then some (31, 29) else some (31, 28)
  | 3 => some (59, 31)
  | 4 => some (90, 30)
  | 5 => some (120, 31)
  | 6 => some (151, 30)
  | 7 => some (181, 31)
  | 8 => some (212, 31)
  | 9 => some (243, 30)
  | 10 => some (273, 31)
  | 11 => some (304, 30)
  | 12 => some (334, 31)
  | _ => none

/-- `if is_leap_year && month > 2 { ydays += 1 }` -/
def leapAdj (leap : Bool) (month : Nat) : Nat := if leap && month > 2 then 1 else 0

/-- the arithmetic of `DateTime::new`: seconds since 1970 of a date whose month starts `ydays0` days into a common year -/
def dateTimeSecs (year month day hour minutes seconds ydays0 : Nat) : Nat :=
  let leapYears := ((year - 1) - 1968) / 4 - ((year - 1) - 1900) / 100 + ((year - 1) - 1600) / 400
  let ydays := ydays0 + (day - 1) + leapAdj (isLeapYear year) month
  let days := (year - 1970) * 365 + leapYears + ydays
  let time := seconds + minutes * 60 + hour * 3600
  time + days * 86400

/-- `DateTime::new` (every failure is `ErrorKind::DateTime`, here `.value`) -/
def dateTimeNew (year month day hour minutes seconds : Nat) : Except E DateTime :=
  if year < 1970 ∨ month < 1 ∨ month > 12 ∨ day < 1 ∨ day > 31 ∨ hour > 23 ∨ minutes > 59 ∨ seconds > 59 then
    .error .value
  else
    match monthTable (isLeapYear year) month with
    | none => .error .value
    | some t =>
      if day > t.2 ∨ day = 0 then .error .value
      else if dateTimeSecs year month day hour minutes seconds t.1 > MAX_UNIX_SECS then .error .value
      else .ok { year := year, month := month, day := day, hour := hour, minutes := minutes, seconds := seconds,
                 secs := dateTimeSecs year month day hour minutes seconds t.1 }

/-- the `for mon_len in months.iter()` loop of `from_unix_duration`: `(mon, remdays)` when it ends -/
def monthLoop : List Nat → Nat → Nat → Nat × Nat
  | [], mon, rem => (mon, rem)
  | ml :: rest, mon, rem => if rem < ml then (mon + 1, rem) else monthLoop rest (mon + 1) (rem - ml)

def MONTHS_FROM_MARCH : List Nat := [31, 30, 31, 30, 31, 31, 30, 31, 30, 31, 31, 29]

/-- broken-down time -/
structure Tm where
  year : Int
  mon : Nat
  mday : Nat
  hour : Nat
  minute : Nat
  second : Nat
deriving Repr, DecidableEq

/-- `a / b` on `i64` for a positive constant `b`: the quotient is rounded towards zero -/
def tdivI (a : Int) (b : Nat) : Int := if a ≥ 0 then a / (b : Int) else -((-a) / (b : Int))
/-- `a % b` on `i64` for a positive constant `b`: the remainder has the sign of `a` -/
def tmodI (a : Int) (b : Nat) : Int := if a ≥ 0 then a % (b : Int) else -((-a) % (b : Int))

/-- 400-year, 100-year, 4-year cycles, remaining years and remaining days counted from 2000-03-01 -/
structure DayParts where
  qc : Int
  c : Nat
  q : Nat
  r : Nat
  rem : Nat
deriving Repr, DecidableEq

/-- the cycle arithmetic of `DateTime::from_unix_duration` (musl's `__secs_to_tm`) on `days` = days since
2000-03-01. `i64` arithmetic; `days` may be negative (dates before 2000-03-01), which the `remdays < 0` branch
repairs — after it every quantity is non-negative. -/
def dayParts (days : Int) : DayParts :=
  let qc0 : Int := tdivI days 146097
  let rem0 : Int := tmodI days 146097
  let qc : Int := if rem0 < 0 then qc0 - 1 else qc0
  let remdays : Nat := (if rem0 < 0 then rem0 + 146097 else rem0).toNat
  let c0 := remdays / 36524
  let c := if c0 = 4 then 3 else c0
  let remdays := remdays - c * 36524
  let q0 := remdays / 1461
  let q := if q0 = 25 then 24 else q0
  let remdays := remdays - q * 1461
  let y0 := remdays / 365
  let remyears := if y0 = 4 then 3 else y0
  { qc := qc, c := c, q := q, r := remyears, rem := remdays - remyears * 365 }

/-- the rest of `DateTime::from_unix_duration`: year, month (loop over the month lengths from March), day, time -/
def secsToTm (secs : Nat) : Tm :=
  let p := dayParts ((secs / 86400 : Nat) - 11017)
  let secsOfDay := secs % 86400
  let year : Int := 2000 + (p.r : Int) + 4 * (p.q : Int) + 100 * (p.c : Int) + 400 * p.qc
  let ml := monthLoop MONTHS_FROM_MARCH 0 p.rem
  let minsOfDay := secsOfDay / 60
  { year := if ml.1 + 2 > 12 then year + 1 else year,
    mon := if ml.1 + 2 > 12 then ml.1 - 10 else ml.1 + 2,
    mday := ml.2 + 1, hour := minsOfDay / 60, minute := minsOfDay % 60, second := secsOfDay % 60 }

/-- `DateTime::from_unix_duration` -/
def dateTimeFromUnix (secs : Nat) : Except E DateTime :=
  if secs > MAX_UNIX_SECS then .error .value
  else
    -- `year.try_into()?` (u16), `mday.try_into()?` (u8), …
    if (secsToTm secs).year < 0 ∨ (secsToTm secs).year > 65535 ∨ (secsToTm secs).mday > 255 then .error .overflow
    else dateTimeNew (secsToTm secs).year.toNat (secsToTm secs).mon (secsToTm secs).mday (secsToTm secs).hour
      (secsToTm secs).minute (secsToTm secs).second

/-- `datetime::decode_decimal` -/
def decodeDecimal (hi lo : Nat) : Except E Nat :=
  if 48 ≤ hi ∧ hi ≤ 57 ∧ 48 ≤ lo ∧ lo ≤ 57 then .ok ((hi - 48) * 10 + (lo - 48)) else .error .value

/-- the tail shared by both time decoders:
`DateTime::new(..).map_err(value_error).and_then(|dt| Self::from_unix_duration(dt.unix_duration()))` -/
def timeOfFields (year month day hour minute second : Nat) : Except E DateTime :=
  match dateTimeNew year month day hour minute second with
  | .error _ => .error .value
  | .ok dt => dateTimeFromUnix dt.secs

/-- the array pattern of `UtcTime::decode_value` on the 13 octets read: `[y1, y2, …, s2, b'Z']`, anything else is
a value error -/
def utcOfBytes : List Nat → Except E DateTime
  | [y1, y2, mo1, mo2, d1, d2, h1, h2, mi1, mi2, s1, s2, z] =>
    if z ≠ 90 then .error .value else do
      let yy ← decodeDecimal y1 y2
      let month ← decodeDecimal mo1 mo2
      let day ← decodeDecimal d1 d2
      let hour ← decodeDecimal h1 h2
      let minute ← decodeDecimal mi1 mi2
      let second ← decodeDecimal s1 s2
      let dt ← timeOfFields (if yy ≥ 50 then yy + 1900 else yy + 2000) month day hour minute second
      -- `UtcTime::try_from(DateTime)`: `year <= UtcTime::MAX_YEAR`
      if dt.year ≤ 2049 then pure dt else .error .value
  | _ => .error .value

/-- `UtcTime::decode` -/
def dUtcTime : Dec DateTime := do
  let len ← dHeaderOf TAG_UTC_TIME
  if len ≠ 13 then Dec.fail .value else do
    let bytes ← dReadInto 13
    Dec.lift (utcOfBytes bytes)

/-- the array pattern of `GeneralizedTime::decode_value` on the 15 octets read -/
def generalizedOfBytes : List Nat → Except E DateTime
  | [y1, y2, y3, y4, mo1, mo2, d1, d2, h1, h2, mi1, mi2, s1, s2, z] =>
    if z ≠ 90 then .error .value else do
      let yhi ← decodeDecimal y1 y2
      let ylo ← decodeDecimal y3 y4
      let month ← decodeDecimal mo1 mo2
      let day ← decodeDecimal d1 d2
      let hour ← decodeDecimal h1 h2
      let minute ← decodeDecimal mi1 mi2
      let second ← decodeDecimal s1 s2
      timeOfFields (yhi * 100 + ylo) month day hour minute second
  | _ => .error .value

/-- `GeneralizedTime::decode` -/
def dGeneralizedTime : Dec DateTime := do
  let len ← dHeaderOf TAG_GENERALIZED_TIME
  if len ≠ 15 then Dec.fail .value else do
    let bytes ← dReadInto 15
    Dec.lift (generalizedOfBytes bytes)

/-- `Time::decode` (`#[derive(Choice)]`): `peek_tag`, then the variant's decoder -/
def dTime : Dec DateTime := do
  match ← dPeek with
  | none => Dec.fail .incomplete
  | some b => do
    let t ← Dec.lift (tagOfByte b)
    if t = TAG_UTC_TIME then dUtcTime
    else if t = TAG_GENERALIZED_TIME then dGeneralizedTime
    else Dec.fail .tagUnexpected

/-- `Validity::decode` (`#[derive(Sequence)]`) -/
def dValidity : Dec (DateTime × DateTime) := do
  let len ← dHeaderOf TAG_SEQUENCE
  dNested len (do
    let nb ← dTime
    let na ← dTime
    pure (nb, na))

def U64_MAX : Nat := 18446744073709551615

/-- `time_to_unix_secs` -/
def timeToUnixSecs (dt : DateTime) : Nat := if dt = DateTime.INFINITY then U64_MAX else dt.secs

/-! ## `Name` and the Matter attributes of a distinguished name -/

def OID_MATTER_VENDOR_ID : List Nat := [0x2b, 0x06, 0x01, 0x04, 0x01, 0x82, 0xa2, 0x7c, 0x02, 0x01]
def OID_MATTER_PRODUCT_ID : List Nat := [0x2b, 0x06, 0x01, 0x04, 0x01, 0x82, 0xa2, 0x7c, 0x02, 0x02]
def OID_EC_PUBLIC_KEY : List Nat := [0x2a, 0x86, 0x48, 0xce, 0x3d, 0x02, 0x01]
def OID_PRIME256V1 : List Nat := [0x2a, 0x86, 0x48, 0xce, 0x3d, 0x03, 0x01, 0x07]
def OID_SUBJECT_KEY_ID : List Nat := [0x55, 0x1d, 0x0e]
def OID_AUTHORITY_KEY_ID : List Nat := [0x55, 0x1d, 0x23]
def OID_BASIC_CONSTRAINTS : List Nat := [0x55, 0x1d, 0x13]
def OID_KEY_USAGE : List Nat := [0x55, 0x1d, 0x0f]
def P256_PUBLIC_KEY_LEN : Nat := 65

/-- `hex_digit` -/
def hexDigit (b : Nat) : Option Nat :=
  if 48 ≤ b ∧ b ≤ 57 then some (b - 48)
  else if 65 ≤ b ∧ b ≤ 70 then some (b - 65 + 10)
  else if 97 ≤ b ∧ b ≤ 102 then some (b - 97 + 10)
  else none

/-- the `for &b in s` loop of `parse_hex_u16` (`val << 4` on `u16`) -/
def hexFold : List Nat → Nat → Option Nat
  | [], val => some val
  | b :: rest, val =>
    match hexDigit b with
    | none => none
    | some d => hexFold rest (val * 16 % 65536 + d)

/-- `parse_hex_u16(s).ok()` -/
def parseHexU16 (s : List Nat) : Option Nat := if s.length ≠ 4 then none else hexFold s 0

structure DnAttrs where
  vid : Option Nat
  pid : Option Nat
deriving Repr, DecidableEq

/-- `AttributeTypeAndValue::decode` (`#[derive(Sequence)]`): OID, any value -/
def dAtv : Dec (List Nat × (Nat × List Nat)) := do
  let len ← dHeaderOf TAG_SEQUENCE
  dNested len (do
    let oid ← dOid
    let v ← dAny
    pure (oid, v))

/-- one attribute of `MatterDnAttrs::parse`: the value is read as 4 hex digits whatever its string type -/
def dnApply (acc : DnAttrs) (atv : List Nat × (Nat × List Nat)) : Except E DnAttrs :=
  if atv.1 = OID_MATTER_VENDOR_ID then
    match parseHexU16 atv.2.2 with
    | some v => .ok { acc with vid := some v }
    | none => .error .value
  else if atv.1 = OID_MATTER_PRODUCT_ID then
    match parseHexU16 atv.2.2 with
    | some v => .ok { acc with pid := some v }
    | none => .error .value
  else .ok acc

/-- `while !set_reader.is_finished() { AttributeTypeAndValue::decode(&mut set_reader)? … }` -/
def atvLoop : Nat → DnAttrs → Dec DnAttrs
  | 0, _ => Dec.fail .endless
  | fuel + 1, acc => do
    if ← dFinished then pure acc else do
      let atv ← dAtv
      let acc' ← Dec.lift (dnApply acc atv)
      atvLoop fuel acc'

/-- `while !outer.is_finished() { let rdn_set = AnyRef::decode(&mut outer)?; … }` (the RDN's tag is not looked at) -/
def rdnLoop (fuel : Nat) : Nat → DnAttrs → Dec DnAttrs
  | 0, _ => Dec.fail .endless
  | n + 1, acc => do
    if ← dFinished then pure acc else do
      let (_, v) ← dAny
      let acc' ← Dec.lift (runNew v (atvLoop fuel acc))
      rdnLoop fuel n acc'

/-- `MatterDnAttrs::parse(rdn_bytes)` -/
def dnParse (fuel : Nat) (raw : List Nat) : Except E DnAttrs :=
  runNew raw (rdnLoop fuel fuel { vid := none, pid := none })

/-- `Name::decode`: the raw octets of the RDNSequence and the Matter attributes -/
def dName (fuel : Nat) : Dec (List Nat × DnAttrs) := do
  let len ← dHeaderOf TAG_SEQUENCE
  let raw ← dSlice len
  let attrs ← Dec.lift (dnParse fuel raw)
  pure (raw, attrs)

/-! ## `SubjectPublicKeyInfo` (`csr.rs`, shared with `cert.rs`) -/

/-- the parameter check of `SubjectPublicKeyInfo::decode_value`: the `AnyRef` is re-encoded into a 39-octet
buffer (`encode_to_slice`), read back with `ObjectIdentifier::from_der` and compared with prime256v1 -/
def spkiParamsOk (params : Option (Nat × List Nat)) : Bool :=
  match params with
  | none => false
  | some (tag, v) =>
    (encTlv tag v).length ≤ OID_MAX_SIZE && tag == TAG_OID && oidValid v && v == OID_PRIME256V1

/-- `SubjectPublicKeyInfo::decode`: algorithm parameters (kept for `cert.rs`) and the key BIT STRING -/
def dSpki : Dec (Option (Nat × List Nat) × BitStr) := do
  let len ← dHeaderOf TAG_SEQUENCE
  dNested len (do
    let (alg, params) ← dAlgId
    if alg ≠ OID_EC_PUBLIC_KEY then Dec.fail .value
    else if !spkiParamsOk params then Dec.fail .value
    else do
      let key ← dBitString
      -- `as_bytes()` is `None` when there are unused bits
      if key.unused ≠ 0 then Dec.fail .value
      else if key.bytes.length ≠ P256_PUBLIC_KEY_LEN then Dec.fail .value
      else if key.bytes.head? ≠ some 0x04 then Dec.fail .value
      else pure (params, key))

/-! ## extensions -/

/-- `KeyUsage::from(BitStringRef)`: the `u16` with bit 0 of the BIT STRING as `0x8000` -/
def keyUsageBits (bs : BitStr) : Nat :=
  if bs.bytes.length > 2 then 0
  else
    let b0 := bs.bytes.headD 0
    let b1 := (bs.bytes.drop 1).headD 0
    let bits := b0 * 256 + b1
    if bs.unused > 0 ∧ bs.bytes.length > 0 then
      let shift := if bs.bytes.length = 1 then 8 else 0
      -- `!((1u16 << unused) - 1) << shift` on `u16`
      let mask := (65535 - (2 ^ bs.unused - 1)) * 2 ^ shift % 65536
      Nat.land bits mask
    else bits

def KU_DIGITAL_SIGNATURE : Nat := 0x8000
def KU_KEY_CERT_SIGN : Nat := 0x0400
def KU_CRL_SIGN : Nat := 0x0200

/-- `BasicConstraints::decode` (`#[derive(Sequence)]`, `ca` with `default = "default_false"`) -/
def dBasicConstraints : Dec (Bool × Option Nat) := do
  let len ← dHeaderOf TAG_SEQUENCE
  dNested len (do
    let ca ← dOpt TAG_BOOLEAN dBool
    let pl ← dOpt TAG_INTEGER dU8
    pure (ca.getD false, pl))

/-- `AuthorityKeyIdentifier::decode` (`#[derive(Sequence)]`, one `[0] IMPLICIT OCTET STRING`, not optional) -/
def dAkid (fuel : Nat) : Dec (List Nat × Nat) := do
  let len ← dHeaderOf TAG_SEQUENCE
  dNested len (do
    match ← ctxWith 0 ctxImplicitOctets fuel with
    | none => Dec.fail .value
    | some v => pure v)

/-- `ParsedExtensionFields`; each entry = (critical, value); byte strings with their offset in the certificate -/
structure ExtFields where
  bc : Option (Bool × (Bool × Option Nat))
  ku : Option (Bool × Nat)
  skid : Option (Bool × (List Nat × Nat))
  akid : Option (Bool × (List Nat × Nat))
deriving Repr, DecidableEq

def ExtFields.empty : ExtFields := { bc := none, ku := none, skid := none, akid := none }

/-- the head of one `Extension`, read from a fresh reader over the SEQUENCE's content: extnID, critical,
extnValue (with its offset in that content). What follows the OCTET STRING is not looked at. -/
def dExtHead : Dec (List Nat × Bool × (List Nat × Nat)) := do
  let oid ← dOid
  let fin ← dFinished
  let isBool ← (if fin then pure false else do
    match ← dPeek with
    | none => Dec.fail .incomplete
    | some b => do
      let t ← Dec.lift (tagOfByte b)
      pure (t == TAG_BOOLEAN))
  let critical ← (if isBool then dBool else pure false)
  let v ← octetStringDecode
  pure (oid, critical, v)

/-- the `if extn_id == … else if …` chain; `base` = offset of `value_bytes` in the certificate -/
def extApply (fuel : Nat) (acc : ExtFields) (oid : List Nat) (critical : Bool) (value : List Nat) (base : Nat) :
    Except E ExtFields :=
  if oid = OID_BASIC_CONSTRAINTS then
    match fromDer value dBasicConstraints with
    | .ok bc => .ok { acc with bc := some (critical, bc) }
    | .error e => .error e
  else if oid = OID_KEY_USAGE then
    match fromDer value dBitString with
    | .ok bs => .ok { acc with ku := some (critical, keyUsageBits bs) }
    | .error e => .error e
  else if oid = OID_SUBJECT_KEY_ID then
    match fromDer value octetStringDecode with
    | .ok (k, off) => .ok { acc with skid := some (critical, (k, base + off)) }
    | .error e => .error e
  else if oid = OID_AUTHORITY_KEY_ID then
    match fromDer value (dAkid fuel) with
    | .ok (k, off) => .ok { acc with akid := some (critical, (k, base + off)) }
    | .error e => .error e
  else if critical then .error .failed
  else .ok acc

/-- `ParsedExtensionFields::parse`: `while !reader.is_finished() { … }` -/
def extLoop (fuel : Nat) : Nat → ExtFields → Dec ExtFields
  | 0, _ => Dec.fail .endless
  | n + 1, acc => do
    if ← dFinished then pure acc else do
      let (_, (ev, eoff)) ← dAnyAt
      let (oid, critical, (value, voff)) ← Dec.lift (runNew ev dExtHead)
      let acc' ← Dec.lift (extApply fuel acc oid critical value (eoff + voff))
      extLoop fuel n acc'

inductive CertKind
  | dac | pai | paa
deriving Repr, DecidableEq

structure Exts where
  skid : List Nat × Nat
  akid : Option (List Nat × Nat)
deriving Repr, DecidableEq

/-- `if let Some(path_len) = … { if path_len != 1 { return Err(..) } }` -/
def paaPathLenBad (pl : Option Nat) : Bool :=
  match pl with
  | some p => p != 1
  | none => false

/-- the requirement checks of `DacExtensions` / `PaiExtensions` / `PaaExtensions::decode_value` on the parsed
BasicConstraints and KeyUsage, in the order of the Rust code; every one of them fails with the same
`ErrorKind::Failed`, so the sequence of early returns is the conjunction of the negated conditions -/
def extReqOk (k : CertKind) (bcCrit ca : Bool) (pl : Option Nat) (kuCrit : Bool) (bits : Nat) : Bool :=
  let caSignBits := KU_KEY_CERT_SIGN + KU_CRL_SIGN + KU_DIGITAL_SIGNATURE
  match k with
  | .dac =>
    bcCrit && !ca && kuCrit && Nat.land bits KU_DIGITAL_SIGNATURE != 0 && bits == KU_DIGITAL_SIGNATURE
  | .pai =>
    bcCrit && ca && pl == some 0 && kuCrit && (Nat.land bits KU_KEY_CERT_SIGN != 0 && Nat.land bits KU_CRL_SIGN != 0) &&
      Nat.land bits (65535 - caSignBits) == 0
  | .paa =>
    (bcCrit && ca) && !paaPathLenBad pl && kuCrit &&
      (Nat.land bits KU_KEY_CERT_SIGN != 0 && Nat.land bits KU_CRL_SIGN != 0) && Nat.land bits (65535 - caSignBits) == 0

/-- `Dac/Pai/PaaExtensions::decode_value` after `ParsedExtensionFields::parse`: the `ok_or(Failed)?` of the
mandatory extensions (the authority key identifier is optional for a PAA only), then the requirement checks -/
def extCheck (k : CertKind) (f : ExtFields) : Except E Exts :=
  match f.bc, f.ku, f.skid with
  | some (bcCrit, (ca, pl)), some (kuCrit, bits), some (_, skid) =>
    if (k == .paa || f.akid.isSome) && extReqOk k bcCrit ca pl kuCrit bits then
      .ok { skid := skid, akid := f.akid.map (·.2) }
    else .error .failed
  | _, _, _ => .error .failed

/-- `E::decode` for the three extension types: SEQUENCE, `read_nested`, parse, checks -/
def dExtensions (k : CertKind) (fuel : Nat) : Dec Exts := do
  let len ← dHeaderOf TAG_SEQUENCE
  dNested len (do
    let f ← extLoop fuel fuel ExtFields.empty
    Dec.lift (extCheck k f))

/-- `E::validate_issuer_subject` -/
def validateIssuerSubject (k : CertKind) (issuer subject : DnAttrs) (issuerRaw subjectRaw : List Nat) : Except E Unit :=
  match k with
  | .dac =>
    match issuer.vid, subject.vid, subject.pid with
    | some ivid, some svid, some spid =>
      if ivid ≠ svid then .error .failed
      else match issuer.pid with
        | some ipid => if ipid ≠ spid then .error .failed else .ok ()
        | none => .ok ()
    | _, _, _ => .error .failed
  | .pai =>
    match subject.vid with
    | none => .error .failed
    | some svid =>
      match issuer.vid with
      | some ivid => if ivid ≠ svid then .error .failed else .ok ()
      | none => .ok ()
  | .paa =>
    if issuer.pid.isSome || subject.pid.isSome then .error .failed
    else if issuerRaw ≠ subjectRaw then .error .failed
    else .ok ()

/-! ## `TbsCertificate`, `Certificate`, `X509Cert` -/

/-- what the accessors of `X509Cert` read -/
structure Cert where
  skid : List Nat × Nat
  akid : Option (List Nat × Nat)
  pk : List Nat × Nat
  vid : Option Nat
  pid : Option Nat
  notBefore : DateTime
  notAfter : DateTime
deriving Repr, DecidableEq

/-- `TbsCertificate::decode` -/
def dTbs (k : CertKind) (fuel : Nat) : Dec Cert := do
  let len ← dHeaderOf TAG_SEQUENCE
  dNested len (do
    match ← ctxWith 0 (ctxExplicit dUintRef) fuel with
    | none => Dec.fail .failed
    | some version =>
      if version ≠ [2] then Dec.fail .failed else do
        let _serial ← dAny
        let (sigAlg, _) ← dAlgId
        if sigAlg ≠ OID_ECDSA_WITH_SHA256 then Dec.fail .failed else do
          let (issuerRaw, issuer) ← dName fuel
          let (nb, na) ← dValidity
          let (subjectRaw, subject) ← dName fuel
          let (params, key) ← dSpki
          -- the checks repeated in `cert.rs` after `SubjectPublicKeyInfo::decode`
          if key.bytes.length ≠ P256_PUBLIC_KEY_LEN then Dec.fail .failed else
          match params with
          | none => Dec.fail .failed
          | some p =>
            match oidOfAny p with
            | .error e => Dec.fail e
            | .ok curve =>
              if curve ≠ OID_PRIME256V1 then Dec.fail .failed else do
                match ← ctxWith 3 (ctxExplicit (dExtensions k fuel)) fuel with
                | none => Dec.fail .failed
                | some exts => do
                  let _ ← Dec.lift (validateIssuerSubject k issuer subject issuerRaw subjectRaw)
                  pure { skid := exts.skid, akid := exts.akid, pk := (key.bytes, key.off), vid := subject.vid,
                         pid := subject.pid, notBefore := nb, notAfter := na })

/-- `Certificate::decode` (`#[derive(Sequence)]`): TBS, signature algorithm (any), signature BIT STRING -/
def dCertificate (k : CertKind) (fuel : Nat) : Dec Cert := do
  let len ← dHeaderOf TAG_SEQUENCE
  dNested len (do
    let tbs ← dTbs k fuel
    let _ ← dAlgId
    let _ ← dBitString
    pure tbs)

/-- `.map_err(|_| ErrorCode::InvalidData)` -/
def mapInvalidData {α : Type} (x : Except E α) : Except E α :=
  match x with
  | .ok y => .ok y
  | .error e => if e = .panic then .error .panic else if e = .endless then .error .endless else .error .invalidData

/-- `X509Cert::<E>::new(data)` -/
def x509New (k : CertKind) (data : List Nat) : Except E Cert :=
  mapInvalidData (fromDer data (dCertificate k (data.length + 1)))

/-- `is_valid_at(now)` -/
def Cert.isValidAt (c : Cert) (now : Nat) : Bool :=
  decide (timeToUnixSecs c.notBefore ≤ now ∧ now ≤ timeToUnixSecs c.notAfter)

/-! ## CSR (`cert/x509/csr.rs`) -/

/-- `CertificationRequestInfo::decode` (`#[derive(Sequence)]`): version (any unsigned INTEGER), subject (any
element), SubjectPublicKeyInfo, `[0] IMPLICIT` attributes (any content) -/
def dCsrInfo (fuel : Nat) : Dec BitStr := do
  let len ← dHeaderOf TAG_SEQUENCE
  dNested len (do
    let _version ← dUintRef
    let _subject ← dAny
    let (_, key) ← dSpki
    match ← ctxWith 0 ctxImplicitAny fuel with
    | none => Dec.fail .value
    | some _ => pure key)

/-- `CertificationRequest::decode`: the key and the signature BIT STRING -/
def dCsr (fuel : Nat) : Dec (BitStr × BitStr) := do
  let len ← dHeaderOf TAG_SEQUENCE
  dNested len (do
    let key ← dCsrInfo fuel
    let (alg, _) ← dAlgId
    if alg ≠ OID_ECDSA_WITH_SHA256 then Dec.fail .value else do
      let sig ← dBitString
      pure (key, sig))

/-- the second pass of `CsrRef::new`: outer header, then `CertificationRequestInfo` between two `position()`s -/
def dCsrInfoRange (fuel : Nat) : Dec (Nat × Nat) := do
  let _ ← dHeader
  let start ← dPosition
  let _ ← dCsrInfo fuel
  let stop ← dPosition
  pure (start, stop)

structure Csr where
  pk : List Nat × Nat          -- `pubkey()`: the 65 key octets and where they start
  tbsStart : Nat               -- `cert_req_info = &der[start..end]`
  tbsEnd : Nat
  sig : Except E (List Nat)    -- `signature()`: `ecdsa_der_to_raw(signature.raw_bytes())`

/-- `CsrRef::new(der)` -/
def csrNew (der : List Nat) : Except E Csr :=
  match mapInvalidData (fromDer der (dCsr (der.length + 1))) with
  | .error e => .error e
  | .ok (key, sig) =>
    match mapInvalidData (runNew der (dCsrInfoRange (der.length + 1))) with
    | .error e => .error e
    | .ok (start, stop) =>
      -- `&der[start..end]`
      if start ≤ stop ∧ stop ≤ der.length then
        .ok { pk := (key.bytes, key.off), tbsStart := start, tbsEnd := stop, sig := ecdsaDerToRaw sig.bytes }
      else .error .panic

/-! ## model-side encoder (RFC 5280 / Matter 6.2.2 profile), used by the round-trip theorems -/

def encBool (b : Bool) : List Nat := encTlv TAG_BOOLEAN [if b then 0xFF else 0]
def encBitString (unused : Nat) (bytes : List Nat) : List Nat := encTlv TAG_BIT_STRING (unused :: bytes)
def encOctets (v : List Nat) : List Nat := encTlv TAG_OCTET_STRING v

/-- two ASCII digits -/
def dec2 (n : Nat) : List Nat := [48 + n / 10 % 10, 48 + n % 10]

/-- calendar fields of a time value -/
structure Cal where
  year : Nat
  month : Nat
  day : Nat
  hour : Nat
  minute : Nat
  second : Nat
deriving Repr, DecidableEq

/-- RFC 5280 4.1.2.5: UTCTime through 2049, GeneralizedTime from 2050 -/
def encTime (c : Cal) : List Nat :=
  if c.year ≤ 2049 then
    encTlv TAG_UTC_TIME (dec2 (c.year % 100) ++ dec2 c.month ++ dec2 c.day ++ dec2 c.hour ++ dec2 c.minute ++
      dec2 c.second ++ [90])
  else
    encTlv TAG_GENERALIZED_TIME (dec2 (c.year / 100) ++ dec2 (c.year % 100) ++ dec2 c.month ++ dec2 c.day ++
      dec2 c.hour ++ dec2 c.minute ++ dec2 c.second ++ [90])

/-- one attribute of a distinguished name: OID, string tag, value; each in its own RDN -/
structure Attr where
  oid : List Nat
  tag : Nat
  value : List Nat
deriving Repr, DecidableEq

def encRdn (a : Attr) : List Nat := encTlv TAG_SET (encTlv TAG_SEQUENCE (encOid a.oid ++ encTlv a.tag a.value))
def encRdns (l : List Attr) : List Nat := (l.map encRdn).flatten
def encName (l : List Attr) : List Nat := encTlv TAG_SEQUENCE (encRdns l)

def encSpki (pk : List Nat) : List Nat :=
  encTlv TAG_SEQUENCE (encTlv TAG_SEQUENCE (encOid OID_EC_PUBLIC_KEY ++ encOid OID_PRIME256V1) ++ encBitString 0 pk)

/-- the extensions the parser knows, and others -/
inductive Ext
  | basicConstraints (critical ca : Bool) (pathLen : Option Nat)
  | keyUsage (critical : Bool) (unused : Nat) (bytes : List Nat)
  | subjectKeyId (critical : Bool) (k : List Nat)
  | authorityKeyId (critical : Bool) (k : List Nat)
  | other (oid : List Nat) (value : List Nat)          -- not critical
deriving Repr, DecidableEq

/-- `Extension ::= SEQUENCE { extnID, critical BOOLEAN DEFAULT FALSE, extnValue OCTET STRING }` -/
def encExtension (oid : List Nat) (critical : Bool) (value : List Nat) : List Nat :=
  encTlv TAG_SEQUENCE (encOid oid ++ (if critical then encBool true else []) ++ encOctets value)

/-- INTEGER of a value < 256 -/
def encU8 (v : Nat) : List Nat := if v ≥ 0x80 then encTlv TAG_INTEGER [0, v] else encTlv TAG_INTEGER [v]

/-- `pathLenConstraint INTEGER OPTIONAL` -/
def encPathLen : Option Nat → List Nat
  | some p => encU8 p
  | none => []

/-- `BasicConstraints ::= SEQUENCE { cA BOOLEAN DEFAULT FALSE, pathLenConstraint INTEGER OPTIONAL }` -/
def encBasicConstraints (ca : Bool) (pl : Option Nat) : List Nat :=
  encTlv TAG_SEQUENCE ((if ca then encBool true else []) ++ encPathLen pl)

def encExt : Ext → List Nat
  | .basicConstraints critical ca pl => encExtension OID_BASIC_CONSTRAINTS critical (encBasicConstraints ca pl)
  | .keyUsage critical unused bytes => encExtension OID_KEY_USAGE critical (encBitString unused bytes)
  | .subjectKeyId critical k => encExtension OID_SUBJECT_KEY_ID critical (encOctets k)
  | .authorityKeyId critical k => encExtension OID_AUTHORITY_KEY_ID critical (encTlv TAG_SEQUENCE (encTlv 0x80 k))
  | .other oid value => encExtension oid false value

def encExts (l : List Ext) : List Nat := (l.map encExt).flatten

/-- the fields of a certificate the model encoder writes -/
structure CertSpec where
  serial : List Nat
  issuer : List Attr
  notBefore : Cal
  notAfter : Cal
  subject : List Attr
  pk : List Nat
  exts : List Ext
  signature : List Nat           -- content of the signature BIT STRING (DER ECDSA-Sig-Value)
deriving Repr, DecidableEq

def encTbs (c : CertSpec) : List Nat :=
  encTlv TAG_SEQUENCE (encTlv 0xA0 (encTlv TAG_INTEGER [2]) ++ encTlv TAG_INTEGER c.serial ++
    encAlgId OID_ECDSA_WITH_SHA256 ++ encName c.issuer ++
    encTlv TAG_SEQUENCE (encTime c.notBefore ++ encTime c.notAfter) ++ encName c.subject ++ encSpki c.pk ++
    encTlv 0xA3 (encTlv TAG_SEQUENCE (encExts c.exts)))

def encCert (c : CertSpec) : List Nat :=
  encTlv TAG_SEQUENCE (encTbs c ++ encAlgId OID_ECDSA_WITH_SHA256 ++ encBitString 0 c.signature)

/-- PKCS#10 request as `SigningSecretKey::csr` lays it out -/
def encCsrInfo (subject pk attrs : List Nat) : List Nat :=
  encTlv TAG_SEQUENCE (encTlv TAG_INTEGER [0] ++ encTlv TAG_SEQUENCE subject ++ encSpki pk ++ encTlv 0xA0 attrs)

def encCsr (subject pk attrs r s : List Nat) : List Nat :=
  encTlv TAG_SEQUENCE (encCsrInfo subject pk attrs ++ encAlgId OID_ECDSA_WITH_SHA256 ++ encBitString 0 (encSig r s))

end Codec.DerRd
