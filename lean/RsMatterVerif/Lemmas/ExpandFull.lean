import RsMatterVerif.Lemmas.ExpandBridge
/-!
# Completeness of the path expander (C06_full): every loop returns the *first* remaining element of
the specification's list and leaves a cursor from which the rest of that list remains
-/
namespace C06
open Acl Expand

/-! ## uniqueness of ids on a well-formed node -/

theorem eq_of_nodup_map {α : Type} (f : α → Nat) : ∀ {l : List α}, (l.map f).Nodup →
    ∀ {x y : α}, x ∈ l → y ∈ l → f x = f y → x = y
  | [], _, _, _, hx, _, _ => by cases hx
  | a :: as, hnd, x, y, hx, hy, hxy => by
    simp only [List.map_cons, List.nodup_cons, List.mem_map, not_exists, not_and] at hnd
    rcases List.mem_cons.mp hx with rfl | hx' <;> rcases List.mem_cons.mp hy with rfl | hy'
    · rfl
    · exact absurd hxy.symm (hnd.1 y hy')
    · exact absurd hxy (hnd.1 x hx')
    · exact eq_of_nodup_map f hnd.2 hx' hy' hxy

theorem nodeWF_sorted {node : Node} (h : nodeWF node = true) : (node.map (·.id)).Pairwise (· < ·) := by
  unfold nodeWF at h
  simp only [Bool.and_eq_true, decide_eq_true_iff] at h
  exact h.1

theorem nodup_of_sorted {l : List Nat} (h : l.Pairwise (· < ·)) : l.Nodup :=
  List.Pairwise.imp (fun hab => Nat.ne_of_lt hab) h

theorem nodeWF_clusters {node : Node} (h : nodeWF node = true) {e : Endpoint} (he : e ∈ node) :
    (e.clusters.map (·.id)).Nodup := by
  unfold nodeWF at h
  simp only [Bool.and_eq_true, List.all_eq_true, decide_eq_true_iff] at h
  exact (h.2 e he).1

theorem endpoint_unique {node : Node} (hs : (node.map (·.id)).Pairwise (· < ·)) {e e' : Endpoint}
    (he : e ∈ node) (he' : e' ∈ node) (hid : e.id = e'.id) : e = e' :=
  eq_of_nodup_map (·.id) (nodup_of_sorted hs) he he' hid

/-! ## the last-authorised cache is transparent under a fixed ACL state -/

/-- what is known about the cache: its content was authorised (on this node), or — after the node
has been replaced — names an endpoint id that no longer exists (then it can never hit) -/
def CacheOk (ctx : Ctx) (op : Operation) (node : Node) (la : Option (Nat × Nat × Nat)) : Prop :=
  ∀ t, la = some t → Authorised ctx op node t ∨ ∀ e ∈ node, e.id ≠ t.1

theorem yieldOk_authorised {ctx : Ctx} {op : Operation} {node : Node} {path : Path}
    {la : Option (Nat × Nat × Nat)} {ep cl lf : Nat} (hla : CacheOk ctx op node la)
    (h : YieldOk ctx op node path la ep cl lf) : Authorised ctx op node (ep, cl, lf) := by
  obtain ⟨e, he, hi, c, hc, hci, l, hl, hli, _, _, _, acc, fil, chk⟩ := h
  rcases chk with h | h
  · rcases hla _ h with ha | ha
    · exact ha
    · exact absurd hi (ha e he)
  · exact ⟨e, he, hi, c, hc, hci, l, hl, hli, acc, fil, h⟩

theorem leafCheck_cache {ctx : Ctx} {op : Operation} {node : Node} {e : Endpoint} {c : Cluster}
    {la : Option (Nat × Nat × Nat)} (hn : nodeWF node = true) (he : e ∈ node) (hc : c ∈ e.clusters)
    (hla : CacheOk ctx op node la) (lf : Nat) :
    leafCheck ctx op e c lf la = leafCheck ctx op e c lf none := by
  unfold leafCheck
  by_cases hf : ctx.filter e.id c.id lf = true
  · simp only [hf, if_true]
    by_cases hl : la = some (e.id, c.id, lf)
    · rcases hla _ hl with hauth | habs
      case inr => exact absurd rfl (habs e he)
      obtain ⟨e', he', hi, c', hc', hci, _, _, _, _, _, chk⟩ := hauth
      simp only at hi hci chk
      have : e' = e := endpoint_unique (nodeWF_sorted hn) he' he hi
      subst this
      have : c' = c := eq_of_nodup_map (·.id) (nodeWF_clusters hn he') hc' hc hci
      subst this
      subst hl
      simp [chk, Except.map]
    · have h1 : (la == some (e.id, c.id, lf)) = false := by simpa using hl
      simp [h1]
  · simp [hf]

/-! ## the array flag -/

theorem arrayFlag_spec {node : Node} (hn : nodeWF node = true) {e : Endpoint} (he : e ∈ node)
    {c : Cluster} (hc : c ∈ e.clusters) {op : Operation} {l : Leaf} (hl : l ∈ specLeaves c op) :
    arrayFlag op c l = (op != .invoke && l.array) := by
  obtain ⟨na, _⟩ := nodeWF_tables hn he hc
  unfold arrayFlag
  cases op with
  | invoke => simp
  | read =>
    have : l ∈ c.attrs.filter (·.enabled) := by unfold specLeaves at hl; simpa using hl
    simp [Cluster.leaves, find_unique_filter this na]
    rfl
  | write =>
    have : l ∈ c.attrs.filter (·.enabled) := by unfold specLeaves at hl; simpa using hl
    simp [Cluster.leaves, find_unique_filter this na]
    rfl

/-- on an existing leaf, the expander's `check` expression is the filter followed by `permitted` -/
theorem leafCheck_none_spec {ctx : Ctx} {op : Operation} {node : Node} {e : Endpoint} {c : Cluster} {l : Leaf}
    (hn : nodeWF node = true) (hwf : WF ctx.fabrics) (hcan : CanonicalPrivs ctx.fabrics)
    (he : e ∈ node) (hc : c ∈ e.clusters) (hl : l ∈ specLeaves c op) :
    leafCheck ctx op e c l.id none =
      if ctx.filter e.id c.id l.id then
        (match permitted ctx op e c l with
         | none => .ok true
         | some s => .error s)
      else .ok false := by
  obtain ⟨na, nc⟩ := nodeWF_tables hn he hc
  have hmem : l ∈ (if op = .invoke then c.cmds else c.attrs) := by
    unfold specLeaves at hl
    cases op <;> simp_all
  have hnd : ((if op = .invoke then c.cmds else c.attrs).map (·.id)).Nodup := by
    cases op <;> simp_all
  have hchk := checkAccess_eq_permitted ctx op e c l hwf hcan hmem hnd
  unfold leafCheck
  by_cases hf : ctx.filter e.id c.id l.id = true
  · simp only [hf, if_true]
    have h1 : ((none : Option (Nat × Nat × Nat)) == some (e.id, c.id, l.id)) = false := rfl
    rw [h1, hchk]
    cases permitted ctx op e c l <;> simp [Except.map]
  · simp [hf]

/-! ## wildcard paths: the specification's list, from a cursor position -/

/-- the answer of a wildcard path for one leaf (the innermost function of `expectedWildcard`) -/
def wItem (ctx : Ctx) (op : Operation) (path : Path) (e : Endpoint) (c : Cluster) (l : Leaf) : Option Out :=
  if matchesOpt path.leaf l.id && ctx.filter e.id c.id l.id && (permitted ctx op e c l).isNone then
    some (Out.item e.id c.id l.id true (op != .invoke && l.array))
  else none

def wCluster (ctx : Ctx) (op : Operation) (path : Path) (e : Endpoint) (c : Cluster) : List Out :=
  if matchesOpt path.cluster c.id then (specLeaves c op).filterMap (wItem ctx op path e c) else []

def wEndpoint (ctx : Ctx) (op : Operation) (path : Path) (e : Endpoint) : List Out :=
  if matchesOpt path.endpoint e.id && reachable ctx e then e.clusters.flatMap (wCluster ctx op path e) else []

theorem expectedWildcard_eq (ctx : Ctx) (op : Operation) (node : Node) (path : Path) :
    expectedWildcard ctx op node path = node.flatMap (wEndpoint ctx op path) := rfl

/-- what remains of an endpoint's answer from cluster position `cs` (a suffix of its clusters) and
leaf index `li` inside the first of them -/
def wClustersFrom (ctx : Ctx) (op : Operation) (path : Path) (e : Endpoint) : List Cluster → Nat → List Out
  | [], _ => []
  | c :: rest, li =>
    (if matchesOpt path.cluster c.id then ((specLeaves c op).drop li).filterMap (wItem ctx op path e c) else [])
      ++ rest.flatMap (wCluster ctx op path e)

theorem wClustersFrom_zero (ctx : Ctx) (op : Operation) (path : Path) (e : Endpoint) (cs : List Cluster) :
    wClustersFrom ctx op path e cs 0 = cs.flatMap (wCluster ctx op path e) := by
  cases cs with
  | nil => rfl
  | cons c rest => simp [wClustersFrom, wCluster, List.flatMap_cons]

/-- what remains of a wildcard path's answer from endpoint position `es` (a suffix of the node) and
the cluster / leaf cursor inside the first of them -/
def wEndpointsFrom (ctx : Ctx) (op : Operation) (path : Path) : List Endpoint → Nat → Nat → List Out
  | [], _, _ => []
  | e :: rest, ci, li =>
    (if matchesOpt path.endpoint e.id && reachable ctx e then wClustersFrom ctx op path e (e.clusters.drop ci) li else [])
      ++ rest.flatMap (wEndpoint ctx op path)

theorem wEndpointsFrom_zero (ctx : Ctx) (op : Operation) (path : Path) (es : List Endpoint) :
    wEndpointsFrom ctx op path es 0 0 = es.flatMap (wEndpoint ctx op path) := by
  cases es with
  | nil => rfl
  | cons e rest => simp [wEndpointsFrom, wEndpoint, List.flatMap_cons, wClustersFrom_zero]

/-- the model's per-leaf test (path match, filter, access check through the cache) is the
specification's (`wItem`) on every existing leaf -/
theorem wItem_iff {ctx : Ctx} {op : Operation} {node : Node} {path : Path} {e : Endpoint} {c : Cluster} {l : Leaf}
    {la : Option (Nat × Nat × Nat)}
    (hn : nodeWF node = true) (hwf : WF ctx.fabrics) (hcan : CanonicalPrivs ctx.fabrics)
    (hla : CacheOk ctx op node la) (he : e ∈ node) (hc : c ∈ e.clusters) (hl : l ∈ specLeaves c op) :
    (wItem ctx op path e c l).isSome = true ↔
      (matchesOpt path.leaf l.id = true ∧ leafCheck ctx op e c l.id la = .ok true) := by
  rw [leafCheck_cache hn he hc hla, leafCheck_none_spec hn hwf hcan he hc hl]
  unfold wItem
  cases matchesOpt path.leaf l.id <;> cases ctx.filter e.id c.id l.id <;>
    cases permitted ctx op e c l <;> simp

/-- the per-leaf hypothesis the loop lemmas need -/
def LeafSpec (ctx : Ctx) (op : Operation) (path : Path) (la : Option (Nat × Nat × Nat)) (e : Endpoint)
    (c : Cluster) : Prop :=
  ∀ l ∈ specLeaves c op, (wItem ctx op path e c l).isSome = true ↔
    (matchesOpt path.leaf l.id = true ∧ leafCheck ctx op e c l.id la = .ok true)

theorem leafLoop_wild {ctx : Ctx} {op : Operation} {path : Path} {e : Endpoint} {c : Cluster}
    {la : Option (Nat × Nat × Nat)} (hw : isWildcard path = true) (g : Leaf → Option Out)
    (ls : List Leaf) (li : Nat)
    (hg : ∀ l ∈ ls, (g l).isSome = true ↔
      (matchesOpt path.leaf l.id = true ∧ leafCheck ctx op e c l.id la = .ok true)) :
    (leafLoop ctx op path e c la ls li = .exhausted ∧ ls.filterMap g = []) ∨
    (∃ k leaf o, leafLoop ctx op path e c la ls li = .found (li + k + 1) leaf ∧ g leaf = some o ∧
       leaf ∈ ls ∧ ls.filterMap g = o :: (ls.drop (k + 1)).filterMap g) := by
  induction ls generalizing li with
  | nil => left; simp [leafLoop]
  | cons x xs ih =>
    have hgx := hg x (by simp)
    have ih' := ih (li + 1) (fun l hl => hg l (List.mem_cons_of_mem _ hl))
    -- the leaf is skipped: the loop continues and the specification has nothing for it
    have skip : leafLoop ctx op path e c la (x :: xs) li = leafLoop ctx op path e c la xs (li + 1) →
        g x = none →
        (leafLoop ctx op path e c la (x :: xs) li = .exhausted ∧ (x :: xs).filterMap g = []) ∨
        (∃ k leaf o, leafLoop ctx op path e c la (x :: xs) li = .found (li + k + 1) leaf ∧ g leaf = some o ∧
          leaf ∈ x :: xs ∧ (x :: xs).filterMap g = o :: ((x :: xs).drop (k + 1)).filterMap g) := by
      intro hstep hnone
      rcases ih' with ⟨h1, h2⟩ | ⟨k, leaf, o, h1, h2, h3, h4⟩
      · left; exact ⟨hstep.trans h1, by simp [hnone, h2]⟩
      · right
        refine ⟨k + 1, leaf, o, ?_, h2, List.mem_cons_of_mem _ h3, ?_⟩
        · rw [hstep, h1]; congr 1; omega
        · simp [hnone, h4]
    have gnone : ¬ (matchesOpt path.leaf x.id = true ∧ leafCheck ctx op e c x.id la = .ok true) → g x = none := by
      intro hh
      cases hgo : g x with
      | none => rfl
      | some o => exact absurd (hgx.mp (by simp [hgo])) hh
    by_cases hm : matchesOpt path.leaf x.id = true
    · cases hc : leafCheck ctx op e c x.id la with
      | error s =>
        apply skip
        · rw [leafLoop, matchesOpt_iff, if_pos hm]; simp [hc, hw]
        · exact gnone (by simp [hc])
      | ok b =>
        cases b with
        | false =>
          apply skip
          · rw [leafLoop, matchesOpt_iff, if_pos hm]; simp [hc, hw]
          · exact gnone (by simp [hc])
        | true =>
          right
          obtain ⟨o, ho⟩ := Option.isSome_iff_exists.mp (hgx.mpr ⟨hm, hc⟩)
          refine ⟨0, x, o, ?_, ho, by simp, ?_⟩
          · rw [leafLoop, matchesOpt_iff, if_pos hm]; simp [hc]
          · simp [ho]
    · apply skip
      · rw [leafLoop, matchesOpt_iff, if_neg hm]
      · exact gnone (fun hh => hm hh.1)

theorem clusterLoop_wild {ctx : Ctx} {op : Operation} {path : Path} {e : Endpoint}
    {la : Option (Nat × Nat × Nat)} (hw : isWildcard path = true) (cs : List Cluster) (ci li : Nat)
    (hg : ∀ c ∈ cs, LeafSpec ctx op path la e c)
    (hpre : li = 0 ∨ ∃ c rest, cs = c :: rest ∧ matchesOpt path.cluster c.id = true) :
    (clusterLoop ctx op path e la cs ci li = .exhausted 0 ∧ wClustersFrom ctx op path e cs li = []) ∨
    (∃ j li' c post leaf o, clusterLoop ctx op path e la cs ci li = .found (ci + j) li' c leaf ∧
        cs.drop j = c :: post ∧ matchesOpt path.cluster c.id = true ∧ leaf ∈ specLeaves c op ∧
        wItem ctx op path e c leaf = some o ∧
        wClustersFrom ctx op path e cs li = o :: wClustersFrom ctx op path e (c :: post) li') := by
  induction cs generalizing ci li with
  | nil =>
    left
    have : li = 0 := by
      rcases hpre with h | ⟨c, rest, h, _⟩
      · exact h
      · cases h
    subst this
    simp [clusterLoop, wClustersFrom]
  | cons x xs ih =>
    have ih' := ih (ci + 1) 0 (fun c hc => hg c (List.mem_cons_of_mem _ hc)) (Or.inl rfl)
    -- the cluster contributes nothing more: continue with the next one from leaf index 0
    have skip : clusterLoop ctx op path e la (x :: xs) ci li = clusterLoop ctx op path e la xs (ci + 1) 0 →
        wClustersFrom ctx op path e (x :: xs) li = xs.flatMap (wCluster ctx op path e) →
        (clusterLoop ctx op path e la (x :: xs) ci li = .exhausted 0 ∧ wClustersFrom ctx op path e (x :: xs) li = []) ∨
        (∃ j li' c post leaf o, clusterLoop ctx op path e la (x :: xs) ci li = .found (ci + j) li' c leaf ∧
          (x :: xs).drop j = c :: post ∧ matchesOpt path.cluster c.id = true ∧ leaf ∈ specLeaves c op ∧
          wItem ctx op path e c leaf = some o ∧
          wClustersFrom ctx op path e (x :: xs) li = o :: wClustersFrom ctx op path e (c :: post) li') := by
      intro hstep hrem
      rw [← wClustersFrom_zero] at hrem
      rcases ih' with ⟨h1, h2⟩ | ⟨j, li', c, post, leaf, o, h1, h2, h3, h4, h5, h6⟩
      · left; exact ⟨hstep.trans h1, hrem.trans h2⟩
      · right
        refine ⟨j + 1, li', c, post, leaf, o, ?_, by simpa using h2, h3, h4, h5, hrem.trans h6⟩
        rw [hstep, h1]; congr 1; omega
    by_cases hm : matchesOpt path.cluster x.id = true
    · have hsl : x.leaves (op == .invoke) = specLeaves x op := rfl
      rcases leafLoop_wild (ctx := ctx) (op := op) (e := e) (c := x) (la := la) hw (wItem ctx op path e x)
          ((specLeaves x op).drop li) li
          (fun l hl => hg x (by simp) l (List.mem_of_mem_drop hl)) with
        ⟨hex, hnil⟩ | ⟨k, leaf, o, hf, hgo, hmem, hfm⟩
      · apply skip
        · rw [clusterLoop, matchesOpt_iff, if_pos hm]; simp [hsl, hex, hw]
        · simp [wClustersFrom, hm, hnil]
      · right
        refine ⟨0, li + k + 1, x, xs, leaf, o, ?_, rfl, hm, List.mem_of_mem_drop hmem, hgo, ?_⟩
        · rw [clusterLoop, matchesOpt_iff, if_pos hm]; simp [hsl, hf]
        · simp only [wClustersFrom, hm, if_true, hfm, List.cons_append, List.drop_drop]
          rfl
    · have : li = 0 := by
        rcases hpre with h | ⟨c, rest, h, h'⟩
        · exact h
        · injection h with h1 h2; subst h1; exact absurd h' hm
      subst this
      apply skip
      · rw [clusterLoop, matchesOpt_iff, if_neg hm]
      · simp [wClustersFrom, hm]

/-- the endpoint test of the loop -/
def epOk (ctx : Ctx) (path : Path) (e : Endpoint) : Bool :=
  matchesOpt path.endpoint e.id && isEndpointAccessible ctx.fabrics ctx.accessor e.id

theorem epOk_spec {ctx : Ctx} (hwf : WF ctx.fabrics) (path : Path) (e : Endpoint) :
    (matchesOpt path.endpoint e.id && reachable ctx e) = epOk ctx path e := by
  unfold epOk reachable
  rw [isEndpointAccessible_eq_reachesB _ _ _ hwf]

/-- what the positional cursor `(ci, li)` may be on entry to the endpoint loop at `es`: fresh, or
inside an endpoint that the path matches, at a cluster the path matches (the state the expander
leaves behind after a yield) -/
def CurPre (ctx : Ctx) (path : Path) (es : List Endpoint) (ci li : Nat) : Prop :=
  (ci = 0 ∧ li = 0) ∨ ∃ e rest, es = e :: rest ∧ epOk ctx path e = true ∧
    (li = 0 ∨ ∃ c post, e.clusters.drop ci = c :: post ∧ matchesOpt path.cluster c.id = true)

theorem endpointLoop_wild {ctx : Ctx} {op : Operation} {path : Path}
    {la : Option (Nat × Nat × Nat)} (hw : isWildcard path = true) (hwf : WF ctx.fabrics)
    (es : List Endpoint) (ci li : Nat)
    (hg : ∀ e ∈ es, ∀ c ∈ e.clusters, LeafSpec ctx op path la e c)
    (harr : ∀ e ∈ es, ∀ c ∈ e.clusters, ∀ l ∈ specLeaves c op, arrayFlag op c l = (op != .invoke && l.array))
    (hpre : CurPre ctx path es ci li) :
    (endpointLoop ctx op path la es ci li = .done ∧ wEndpointsFrom ctx op path es ci li = []) ∨
    (∃ j e post ci' li' ep cl lf arr,
        endpointLoop ctx op path la es ci li =
          .yield ep cl lf arr { endpointId := some e.id, clusterIndex := ci', leafIndex := li' } ∧
        es.drop j = e :: post ∧ CurPre ctx path (e :: post) ci' li' ∧ epOk ctx path e = true ∧
        wEndpointsFrom ctx op path es ci li =
          Out.item ep cl lf true arr :: wEndpointsFrom ctx op path (e :: post) ci' li') := by
  induction es generalizing ci li with
  | nil => left; simp [endpointLoop, hw, wEndpointsFrom]
  | cons x xs ih =>
    have ih' := ih 0 0 (fun e he => hg e (List.mem_cons_of_mem _ he))
      (fun e he => harr e (List.mem_cons_of_mem _ he)) (Or.inl ⟨rfl, rfl⟩)
    have skip : endpointLoop ctx op path la (x :: xs) ci li = endpointLoop ctx op path la xs 0 0 →
        wEndpointsFrom ctx op path (x :: xs) ci li = xs.flatMap (wEndpoint ctx op path) →
        (endpointLoop ctx op path la (x :: xs) ci li = .done ∧ wEndpointsFrom ctx op path (x :: xs) ci li = []) ∨
        (∃ j e post ci' li' ep cl lf arr,
          endpointLoop ctx op path la (x :: xs) ci li =
            .yield ep cl lf arr { endpointId := some e.id, clusterIndex := ci', leafIndex := li' } ∧
          (x :: xs).drop j = e :: post ∧ CurPre ctx path (e :: post) ci' li' ∧ epOk ctx path e = true ∧
          wEndpointsFrom ctx op path (x :: xs) ci li =
            Out.item ep cl lf true arr :: wEndpointsFrom ctx op path (e :: post) ci' li') := by
      intro hstep hrem
      rw [← wEndpointsFrom_zero] at hrem
      rcases ih' with ⟨h1, h2⟩ | ⟨j, e, post, ci', li', ep, cl, lf, arr, h1, h2, h3, h3', h4⟩
      · left; exact ⟨hstep.trans h1, hrem.trans h2⟩
      · right
        exact ⟨j + 1, e, post, ci', li', ep, cl, lf, arr, hstep.trans h1, by simpa using h2, h3, h3', hrem.trans h4⟩
    by_cases hm : epOk ctx path x = true
    · have hm' : (matchesOpt path.endpoint x.id && isEndpointAccessible ctx.fabrics ctx.accessor x.id) = true := hm
      have hms : (matchesOpt path.endpoint x.id && reachable ctx x) = true := by rw [epOk_spec hwf]; exact hm
      have hcpre : li = 0 ∨ ∃ c rest, x.clusters.drop ci = c :: rest ∧ matchesOpt path.cluster c.id = true := by
        rcases hpre with ⟨_, h⟩ | ⟨e, rest, h1, _, h3⟩
        · exact Or.inl h
        · injection h1 with h1 _; subst h1; exact h3
      rcases clusterLoop_wild (ctx := ctx) (op := op) (e := x) (la := la) hw (x.clusters.drop ci) ci li
          (fun c hc => hg x (by simp) c (List.mem_of_mem_drop hc)) hcpre with
        ⟨hex, hnil⟩ | ⟨j, li', c, post, leaf, o, hf, hd, hmc, hlm, hgo, hrem⟩
      · apply skip
        · rw [endpointLoop, matchesOpt_iff, if_pos hm']; simp [hex, hw]
        · simp [wEndpointsFrom, hms, hnil]
      · right
        have hcm : c ∈ x.clusters := by
          have : c ∈ (x.clusters.drop ci).drop j := by rw [hd]; simp
          exact List.mem_of_mem_drop (List.mem_of_mem_drop this)
        have hd' : x.clusters.drop (ci + j) = c :: post := by rw [← List.drop_drop]; exact hd
        have ho : o = Out.item x.id c.id leaf.id true (arrayFlag op c leaf) := by
          rw [harr x (by simp) c hcm leaf hlm]
          unfold wItem at hgo
          split at hgo
          · injection hgo with hgo; exact hgo.symm
          · cases hgo
        refine ⟨0, x, xs, ci + j, li', x.id, c.id, leaf.id, arrayFlag op c leaf, ?_, rfl,
          Or.inr ⟨x, xs, rfl, hm, Or.inr ⟨c, post, hd', hmc⟩⟩, hm, ?_⟩
        · rw [endpointLoop, matchesOpt_iff, if_pos hm']; simp [hf, arrayFlag]
        · simp only [wEndpointsFrom, hms, if_true, hrem, List.cons_append, hd', ho]
    · have hms : ¬ (matchesOpt path.endpoint x.id && reachable ctx x) = true := by rw [epOk_spec hwf]; exact hm
      have : ci = 0 ∧ li = 0 := by
        rcases hpre with h | ⟨e, rest, h1, h2, _⟩
        · exact h
        · injection h1 with h1 _; subst h1; exact absurd h2 hm
      obtain ⟨rfl, rfl⟩ := this
      have hm' : ¬ (matchesOpt path.endpoint x.id && isEndpointAccessible ctx.fabrics ctx.accessor x.id) = true := hm
      apply skip
      · rw [endpointLoop, matchesOpt_iff, if_neg hm']
      · simp [wEndpointsFrom, hms]

/-! ## concrete paths -/

/-- the first-match outcome of a concrete path is the specification's answer, whatever the
(authorised) content of the cache -/
theorem concreteOutcome_expected {ctx : Ctx} {op : Operation} {node : Node} (p : Path)
    {la : Option (Nat × Nat × Nat)} (ep cl lf : Nat)
    (hn : nodeWF node = true) (hwf : WF ctx.fabrics) (hc : CanonicalPrivs ctx.fabrics)
    (hla : CacheOk ctx op node la) :
    outs p (concreteOutcome ctx op node la ep cl lf) = expectedConcrete ctx op node p ep cl lf := by
  unfold concreteOutcome expectedConcrete
  have hpred : (fun (e : Endpoint) => ep == e.id && isEndpointAccessible ctx.fabrics ctx.accessor e.id)
      = (fun e => e.id == ep && reachable ctx e) := by
    funext e
    unfold reachable
    rw [isEndpointAccessible_eq_reachesB _ _ _ hwf, Bool.beq_comm]
  rw [hpred]
  cases hfe : node.find? (fun e => e.id == ep && reachable ctx e) with
  | none => simp [outs]
  | some e =>
    have he : e ∈ node := List.mem_of_find?_eq_some hfe
    simp only
    cases hfc : e.clusters.find? (fun c => c.id == cl) with
    | none => simp [outs]
    | some c =>
      have hcm : c ∈ e.clusters := List.mem_of_find?_eq_some hfc
      simp only
      unfold leafOutcome
      have hsl : c.leaves (op == .invoke) = specLeaves c op := rfl
      rw [hsl]
      cases hfl : (specLeaves c op).find? (fun l => l.id == lf) with
      | none => cases op <;> simp [outs]
      | some l =>
        have hlm : l ∈ specLeaves c op := List.mem_of_find?_eq_some hfl
        simp only
        rw [leafCheck_cache hn he hcm hla, leafCheck_none_spec hn hwf hc he hcm hlm]
        by_cases hfil : ctx.filter e.id c.id l.id = true
        · simp only [hfil, if_true, Bool.not_true, Bool.false_eq_true, if_false]
          cases hp : permitted ctx op e c l with
          | none => simp [outs, arrayFlag_spec hn he hcm hlm]
          | some s => simp [outs]
        · simp [hfil, outs]

/-! ## one call of `next_for_path` against the specification -/

theorem findIdx_sorted {pre post : List Endpoint} {e : Endpoint}
    (hs : ((pre ++ e :: post).map (·.id)).Pairwise (· < ·)) :
    (pre ++ e :: post).findIdx? (fun x => x.id == e.id) = some pre.length := by
  induction pre with
  | nil => simp [List.findIdx?_cons]
  | cons a pre ih =>
    simp only [List.cons_append, List.map_cons, List.pairwise_cons] at hs
    have hne : (a.id == e.id) = false := by
      have := hs.1 e.id (by simp)
      simp only [beq_eq_false_iff_ne, ne_eq]
      omega
    simp only [List.cons_append, List.findIdx?_cons, hne, Bool.false_eq_true, if_false, ih hs.2,
      Option.map_some, List.length_cons]

theorem resume_sorted {pre post : List Endpoint} {e : Endpoint} (ci li : Nat)
    (hs : ((pre ++ e :: post).map (·.id)).Pairwise (· < ·)) :
    resumeEndpointIndex (pre ++ e :: post) { endpointId := some e.id, clusterIndex := ci, leafIndex := li } =
      (pre.length, { endpointId := some e.id, clusterIndex := ci, leafIndex := li }) := by
  unfold resumeEndpointIndex
  simp only [findIdx_sorted hs]

/-- what a path still has to produce from the cursor `cur`: a fresh path owes its whole answer; a
wildcard path that has yielded owes the rest of the specification's list from the cursor position -/
def PathPend (ctx : Ctx) (op : Operation) (node : Node) (p : Path) (cur : Cursor) (rem : List Out) : Prop :=
  (cur = {} ∧ rem = expectedItem ctx op node p) ∨
  (SupportedWildcard op p ∧ ∃ pre e post ci li, node = pre ++ e :: post ∧
     cur = { endpointId := some e.id, clusterIndex := ci, leafIndex := li } ∧
     CurPre ctx p (e :: post) ci li ∧ rem = wEndpointsFrom ctx op p (e :: post) ci li)

theorem supportedWildcard_guards {op : Operation} {p : Path} (h : SupportedWildcard op p) :
    (op != .read && p.cluster.isNone) = false ∧ (op != .read && p.leaf.isNone) = false := by
  obtain ⟨_, hop⟩ := h
  constructor
  · rcases hop with rfl | ⟨hc, _⟩
    · simp
    · cases hcc : p.cluster <;> simp_all
  · rcases hop with rfl | ⟨_, hl⟩
    · simp
    · cases hcc : p.leaf <;> simp_all

theorem expectedItem_wild (ctx : Ctx) {op : Operation} (node : Node) {p : Path} (h : SupportedWildcard op p) :
    expectedItem ctx op node p = node.flatMap (wEndpoint ctx op p) := by
  obtain ⟨g1, g2⟩ := supportedWildcard_guards h
  unfold expectedItem
  rw [g1, g2]
  simp only [Bool.false_eq_true, if_false]
  rw [← expectedWildcard_eq]
  obtain ⟨hw, _⟩ := h
  cases p with
  | mk e c l => cases e <;> cases c <;> cases l <;> simp [isWildcard] at hw ⊢

theorem expectedItem_concrete (ctx : Ctx) (op : Operation) (node : Node) {p : Path} {ep cl lf : Nat}
    (hep : p.endpoint = some ep) (hcl : p.cluster = some cl) (hl : p.leaf = some lf) :
    expectedItem ctx op node p = expectedConcrete ctx op node p ep cl lf := by
  unfold expectedItem
  simp [hep, hcl, hl]

theorem wildcard_step {ctx : Ctx} {op : Operation} {node : Node} {p : Path} {la : Option (Nat × Nat × Nat)}
    (hn : nodeWF node = true) (hwf : WF ctx.fabrics) (hcan : CanonicalPrivs ctx.fabrics)
    (hla : CacheOk ctx op node la) (hsw : SupportedWildcard op p)
    (pre es : List Endpoint) (hnode : node = pre ++ es) (ci li : Nat) (hpre : CurPre ctx p es ci li) :
    (endpointLoop ctx op p la es ci li = .done ∧ wEndpointsFrom ctx op p es ci li = []) ∨
    (∃ ep cl lf arr cur' rem', endpointLoop ctx op p la es ci li = .yield ep cl lf arr cur' ∧
      wEndpointsFrom ctx op p es ci li = Out.item ep cl lf true arr :: rem' ∧
      PathPend ctx op node p cur' rem') := by
  have hmem : ∀ e ∈ es, e ∈ node := fun e he => by rw [hnode]; exact List.mem_append_right _ he
  rcases endpointLoop_wild (ctx := ctx) (op := op) (path := p) (la := la) hsw.1 hwf es ci li
      (fun e he c hc l hl => wItem_iff hn hwf hcan hla (hmem e he) hc hl)
      (fun e he c hc l hl => arrayFlag_spec hn (hmem e he) hc hl) hpre with
    h | ⟨j, e, post, ci', li', ep, cl, lf, arr, h1, h2, h3, _, h4⟩
  · exact Or.inl h
  · right
    refine ⟨ep, cl, lf, arr, _, _, h1, h4, Or.inr ⟨hsw, pre ++ es.take j, e, post, ci', li', ?_, rfl, h3, rfl⟩⟩
    rw [hnode, List.append_assoc, ← h2, List.take_append_drop]

theorem nextForPath_spec {ctx : Ctx} {op : Operation} {node : Node} {p : Path} {cur : Cursor}
    {la : Option (Nat × Nat × Nat)} {rem : List Out}
    (hn : nodeWF node = true) (hwf : WF ctx.fabrics) (hcan : CanonicalPrivs ctx.fabrics)
    (hla : CacheOk ctx op node la) (hp : PathPend ctx op node p cur rem) :
    (rem = [] ∧ nextForPath ctx op node p cur la = .done) ∨
    (∃ ep cl lf arr cur' rem', nextForPath ctx op node p cur la = .yield ep cl lf arr cur' ∧
      rem = Out.item ep cl lf (isWildcard p) arr :: rem' ∧
      (isWildcard p = true → PathPend ctx op node p cur' rem') ∧ (isWildcard p = false → rem' = [])) ∨
    (∃ s, nextForPath ctx op node p cur la = .err s ∧ rem = [Out.status p s]) := by
  -- a supported wildcard, from any admissible cursor position
  have wild : ∀ (pre es : List Endpoint) (ci li : Nat) (ei : Nat) (c0 : Cursor),
      SupportedWildcard op p → node = pre ++ es → CurPre ctx p es ci li →
      resumeEndpointIndex node cur = (ei, c0) → node.drop ei = es → c0.clusterIndex = ci → c0.leafIndex = li →
      rem = wEndpointsFrom ctx op p es ci li →
      (rem = [] ∧ nextForPath ctx op node p cur la = .done) ∨
      (∃ ep cl lf arr cur' rem', nextForPath ctx op node p cur la = .yield ep cl lf arr cur' ∧
        rem = Out.item ep cl lf (isWildcard p) arr :: rem' ∧
        (isWildcard p = true → PathPend ctx op node p cur' rem') ∧ (isWildcard p = false → rem' = [])) ∨
      (∃ s, nextForPath ctx op node p cur la = .err s ∧ rem = [Out.status p s]) := by
    intro pre es ci li ei c0 hsw hnode hpre hres hdrop hci hli hrem
    obtain ⟨g1, g2⟩ := supportedWildcard_guards hsw
    have hnf : nextForPath ctx op node p cur la = endpointLoop ctx op p la es ci li := by
      unfold nextForPath
      rw [g1, g2]
      simp only [Bool.false_eq_true, if_false, hres, hdrop, hci, hli]
    rcases wildcard_step hn hwf hcan hla hsw pre es hnode ci li hpre with
      ⟨h1, h2⟩ | ⟨ep, cl, lf, arr, cur', rem', h1, h2, h3⟩
    · exact Or.inl ⟨hrem.trans h2, hnf.trans h1⟩
    · right; left
      refine ⟨ep, cl, lf, arr, cur', rem', hnf.trans h1, ?_, fun _ => h3, fun hf => ?_⟩
      · rw [hrem, h2, hsw.1]
      · rw [hsw.1] at hf; cases hf
  rcases hp with ⟨rfl, hrem⟩ | ⟨hsw, pre, e, post, ci, li, hnode, rfl, hpre, hrem⟩
  · by_cases h1 : (op != .read && p.cluster.isNone) = true
    · right; right
      refine ⟨.unsupportedCluster, ?_, ?_⟩
      · unfold nextForPath; rw [if_pos h1]
      · rw [hrem]; unfold expectedItem; rw [if_pos h1]
    by_cases h2 : (op != .read && p.leaf.isNone) = true
    · right; right
      refine ⟨.unsupportedAttribute, ?_, ?_⟩
      · unfold nextForPath; rw [if_neg h1, if_pos h2]
      · rw [hrem]; unfold expectedItem; rw [if_neg h1, if_pos h2]
    by_cases hw : isWildcard p = true
    · have hsw : SupportedWildcard op p := by
        refine ⟨hw, ?_⟩
        cases op with
        | read => exact Or.inl rfl
        | write =>
          right
          cases hc : p.cluster <;> cases hl : p.leaf <;> simp_all
        | invoke =>
          right
          cases hc : p.cluster <;> cases hl : p.leaf <;> simp_all
      refine wild [] node 0 0 0 {} hsw rfl (Or.inl ⟨rfl, rfl⟩) rfl rfl rfl rfl ?_
      rw [hrem, expectedItem_wild ctx node hsw, wEndpointsFrom_zero]
    · have hw' : isWildcard p = false := by simpa using hw
      obtain ⟨ep, cl, lf, hep, hcl, hl⟩ : ∃ ep cl lf, p.endpoint = some ep ∧ p.cluster = some cl ∧ p.leaf = some lf := by
        cases p with
        | mk e c l => cases e <;> cases c <;> cases l <;> simp [isWildcard] at hw' ⊢
      have hout := nextForPath_concrete ctx op node p la hep hcl hl
      have hexp := concreteOutcome_expected p ep cl lf hn hwf hcan hla
      rw [← hout, ← expectedItem_concrete ctx op node hep hcl hl, ← hrem] at hexp
      cases hnp : nextForPath ctx op node p {} la with
      | yield e c l a cur' =>
        right; left
        rw [hnp] at hexp
        exact ⟨e, c, l, a, cur', [], rfl, (by rw [← hexp, hw']; rfl), (fun h => by rw [hw'] at h; cases h), (fun _ => rfl)⟩
      | done =>
        left
        rw [hnp] at hexp
        exact ⟨hexp.symm, rfl⟩
      | err s =>
        right; right
        rw [hnp] at hexp
        exact ⟨s, rfl, hexp.symm⟩
  · have hs : ((pre ++ e :: post).map (·.id)).Pairwise (· < ·) := by rw [← hnode]; exact nodeWF_sorted hn
    have hres := resume_sorted ci li hs
    rw [← hnode] at hres
    refine wild pre (e :: post) ci li pre.length _ hsw hnode hpre hres ?_ rfl rfl hrem
    rw [hnode]; simp

/-! ## the whole run -/

/-- the list the expander still owes in state `st` -/
def Pend (ctx : Ctx) (op : Operation) (node : Node) (st : St) (L : List Out) : Prop :=
  CacheOk ctx op node st.lastAuthorized ∧
  ((st.item = none ∧ L = expected ctx op node st.items) ∨
   (∃ p rem, st.item = some p ∧ isWildcard p = true ∧ PathPend ctx op node p st.cur rem ∧
      L = rem ++ expected ctx op node st.items))

theorem expected_cons (ctx : Ctx) (op : Operation) (node : Node) (q : Path) (rest : List Path) :
    expected ctx op node (q :: rest) = expectedItem ctx op node q ++ expected ctx op node rest := by
  simp [expected, List.flatMap_cons]

theorem nextFrom_spec {ctx : Ctx} {op : Operation} {node : Node}
    (hn : nodeWF node = true) (hwf : WF ctx.fabrics) (hcan : CanonicalPrivs ctx.fabrics)
    (la : Option (Nat × Nat × Nat)) (hla : CacheOk ctx op node la)
    (items : List Path) (p : Path) (cur : Cursor) (rem : List Out)
    (hp : PathPend ctx op node p cur rem) :
    (rem ++ expected ctx op node items = [] ∧ nextFrom ctx op node p cur la items = none) ∨
    (∃ o L' st', rem ++ expected ctx op node items = o :: L' ∧
      nextFrom ctx op node p cur la items = some (o, st') ∧ Pend ctx op node st' L') := by
  induction items generalizing p cur rem with
  | nil =>
    unfold nextFrom
    rcases nextForPath_spec hn hwf hcan hla hp with
      ⟨h1, h2⟩ | ⟨ep, cl, lf, arr, cur', rem', h1, h2, h3, h4⟩ | ⟨s, h1, h2⟩
    · left; simp [h1, h2, expected]
    · right
      have hauth := yieldOk_authorised hla (nextForPath_yield h1)
      refine ⟨_, rem' ++ expected ctx op node [],
        { items := [], item := if (!isWildcard p) = true then none else some p, cur := cur',
          lastAuthorized := some (ep, cl, lf) }, by rw [h2]; rfl, by simp only [h1], ?_, ?_⟩
      · intro t ht; simp only [Option.some.injEq] at ht; subst ht; exact Or.inl hauth
      · cases hw : isWildcard p with
        | true => exact Or.inr ⟨p, rem', by simp, hw, h3 hw, rfl⟩
        | false => exact Or.inl ⟨by simp, by rw [h4 hw]; rfl⟩
    · right
      exact ⟨_, expected ctx op node [], { items := [], item := none, cur := cur, lastAuthorized := la },
        by rw [h2]; rfl, by simp only [h1], hla, Or.inl ⟨rfl, rfl⟩⟩
  | cons q rest ih =>
    unfold nextFrom
    rcases nextForPath_spec hn hwf hcan hla hp with
      ⟨h1, h2⟩ | ⟨ep, cl, lf, arr, cur', rem', h1, h2, h3, h4⟩ | ⟨s, h1, h2⟩
    · simp only [h2]
      rw [h1, List.nil_append, expected_cons]
      exact ih q {} (expectedItem ctx op node q) (Or.inl ⟨rfl, rfl⟩)
    · right
      have hauth := yieldOk_authorised hla (nextForPath_yield h1)
      refine ⟨_, rem' ++ expected ctx op node (q :: rest),
        { items := q :: rest, item := if (!isWildcard p) = true then none else some p, cur := cur',
          lastAuthorized := some (ep, cl, lf) }, by rw [h2]; rfl, by simp only [h1], ?_, ?_⟩
      · intro t ht; simp only [Option.some.injEq] at ht; subst ht; exact Or.inl hauth
      · cases hw : isWildcard p with
        | true => exact Or.inr ⟨p, rem', by simp, hw, h3 hw, rfl⟩
        | false => exact Or.inl ⟨by simp, by rw [h4 hw]; rfl⟩
    · right
      exact ⟨_, expected ctx op node (q :: rest), { items := q :: rest, item := none, cur := cur, lastAuthorized := la },
        by rw [h2]; rfl, by simp only [h1], hla, Or.inl ⟨rfl, rfl⟩⟩

theorem next_spec {ctx : Ctx} {op : Operation} {node : Node}
    (hn : nodeWF node = true) (hwf : WF ctx.fabrics) (hcan : CanonicalPrivs ctx.fabrics)
    {st : St} {L : List Out} (hp : Pend ctx op node st L) :
    (L = [] ∧ next ctx op node st = none) ∨
    (∃ o L' st', L = o :: L' ∧ next ctx op node st = some (o, st') ∧ Pend ctx op node st' L') := by
  obtain ⟨hla, h⟩ := hp
  unfold next
  rcases h with ⟨hi, hL⟩ | ⟨p, rem, hi, _, hpp, hL⟩
  · simp only [hi]
    cases hs : st.items with
    | nil => left; simp [hL, hs, expected]
    | cons q rest =>
      simp only
      rw [hL, hs, expected_cons]
      exact nextFrom_spec hn hwf hcan _ hla rest q {} _ (Or.inl ⟨rfl, rfl⟩)
  · simp only [hi]
    rw [hL]
    exact nextFrom_spec hn hwf hcan _ hla st.items p st.cur rem hpp

theorem run_spec {ctx : Ctx} {op : Operation} {node : Node}
    (hn : nodeWF node = true) (hwf : WF ctx.fabrics) (hcan : CanonicalPrivs ctx.fabrics)
    (fuel : Nat) (st : St) (L : List Out) (hp : Pend ctx op node st L) (hf : L.length < fuel) :
    run ctx op node fuel st = L := by
  induction fuel generalizing st L with
  | zero => omega
  | succ n ih =>
    unfold run
    rcases next_spec hn hwf hcan hp with ⟨h1, h2⟩ | ⟨o, L', st', h1, h2, h3⟩
    · simp [h1, h2]
    · simp only [h2, h1, List.cons.injEq, true_and]
      apply ih st' L' h3
      rw [h1] at hf
      simp only [List.length_cons] at hf
      omega

theorem pend_init (ctx : Ctx) (op : Operation) (node : Node) (paths : List Path) :
    Pend ctx op node { items := paths } (expected ctx op node paths) :=
  ⟨fun _ h => (by cases h), Or.inl ⟨rfl, rfl⟩⟩

end C06
