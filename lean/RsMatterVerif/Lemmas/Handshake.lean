import RsMatterVerif.Model.Handshake
import RsMatterVerif.Lemmas.TableInv
/-!
# Invariants of the reservation / exchange-handle transition system over all histories (C20)
-/
namespace Handshake
open Transport

/-! ## Table steps seen through membership -/

/-- `t'` arises from `t` by touching / removing sessions without changing any `(uid, reserved)` pair -/
structure FlagSub (t t' : Table) : Prop where
  next : t'.nextUid = t.nextUid
  nodup : UidNodup t'
  len : t'.sessions.length ≤ t.sessions.length
  sub : ∀ y ∈ t'.sessions, ∃ x ∈ t.sessions, x.uid = y.uid ∧ x.reserved = y.reserved

theorem FlagSub.refl (t : Table) (hn : UidNodup t) : FlagSub t t :=
  ⟨rfl, hn, Nat.le_refl _, fun y hy => ⟨y, hy, rfl, rfl⟩⟩

theorem FlagSub.trans {a b c : Table} (h1 : FlagSub a b) (h2 : FlagSub b c) : FlagSub a c := by
  refine ⟨h2.next.trans h1.next, h2.nodup, Nat.le_trans h2.len h1.len, ?_⟩
  intro y hy
  obtain ⟨x, hx, hu, hr⟩ := h2.sub y hy
  obtain ⟨w, hw, hu', hr'⟩ := h1.sub x hx
  exact ⟨w, hw, hu'.trans hu, hr'.trans hr⟩

theorem setSess_length (t : Table) (x : Sess) : (t.setSess x).sessions.length = t.sessions.length := by
  rw [setSess_sessions]
  cases t.find x.uid <;> simp

theorem remove_length_le (t : Table) (uid : Nat) : (t.remove uid).1.sessions.length ≤ t.sessions.length := by
  rw [remove_sessions]
  cases hf : t.find uid with
  | none => exact Nat.le_refl _
  | some i =>
    obtain ⟨s, hs, _⟩ := find_some_index t uid i hf
    have hi : i < t.sessions.length := (List.getElem?_eq_some_iff.1 hs).1
    simp only
    rw [(swapRemove_perm _ _ hi).length_eq, List.length_eraseIdx]
    split <;> omega

theorem remove_length_lt (t : Table) (uid : Nat) (x : Sess) (hx : x ∈ t.sessions) (hu : x.uid = uid) :
    (t.remove uid).1.sessions.length + 1 = t.sessions.length := by
  rw [remove_sessions]
  obtain ⟨i, hf⟩ := find_isSome_of_mem t x hx
  rw [hu] at hf
  rw [hf]
  obtain ⟨s, hs, _⟩ := find_some_index t uid i hf
  have hi : i < t.sessions.length := (List.getElem?_eq_some_iff.1 hs).1
  simp only
  rw [(swapRemove_perm _ _ hi).length_eq, List.length_eraseIdx, if_pos hi]
  omega

theorem flagSub_remove (t : Table) (hn : UidNodup t) (uid : Nat) : FlagSub t (t.remove uid).1 :=
  ⟨remove_nextUid t uid, remove_uidNodup t uid hn, remove_length_le t uid,
    fun y hy => ⟨y, ((mem_remove t hn uid y).1 hy).1, rfl, rfl⟩⟩

/-- writing back a session whose `(uid, reserved)` pair is the one already in the table -/
theorem flagSub_setSess (t : Table) (hn : UidNodup t) (x : Sess)
    (h : ∀ x0 ∈ t.sessions, x0.uid = x.uid → x0.reserved = x.reserved) : FlagSub t (t.setSess x) := by
  refine ⟨setSess_nextUid t x, setSess_uidNodup t x hn, Nat.le_of_eq (setSess_length t x), ?_⟩
  intro y hy
  by_cases hex : ∃ s ∈ t.sessions, s.uid = x.uid
  · rcases (mem_setSess t hn x hex y).1 hy with h1 | ⟨h1, _⟩
    · subst h1
      obtain ⟨s, hs, hu⟩ := hex
      exact ⟨s, hs, hu, h s hs hu⟩
    · exact ⟨y, h1, rfl, rfl⟩
  · have : t.setSess x = t := setSess_absent t x (fun s hs hu => hex ⟨s, hs, hu⟩)
    rw [this] at hy
    exact ⟨y, hy, rfl, rfl⟩

/-- what `Sessions::get(uid)` returns and leaves behind -/
theorem get_spec (t : Table) (hn : UidNodup t) (uid now : Nat) :
    ((t.get uid now).2 = none ∧ (t.get uid now).1 = t ∧ ∀ s ∈ t.sessions, s.uid ≠ uid) ∨
    (∃ s0 ∈ t.sessions, s0.uid = uid ∧ (t.get uid now).2 = some { s0 with lastUse := now } ∧
      (t.get uid now).1 = t.setSess { s0 with lastUse := now }) := by
  rw [get_snd, get_fst]
  cases hs : t.sess uid with
  | none => exact Or.inl ⟨rfl, rfl, (sess_none_iff t uid).1 hs⟩
  | some s0 =>
    obtain ⟨hm, hu⟩ := sess_some_mem t uid s0 hs
    exact Or.inr ⟨s0, hm, hu, rfl, rfl⟩

theorem flagSub_get (t : Table) (hn : UidNodup t) (uid now : Nat) : FlagSub t (t.get uid now).1 := by
  rcases get_spec t hn uid now with ⟨_, h, _⟩ | ⟨s0, hm, hu, _, h⟩
  · rw [h]; exact FlagSub.refl t hn
  · rw [h]
    refine flagSub_setSess t hn _ ?_
    intro x0 hx0 hux
    have : x0 = s0 := nodup_map_inj (fun (x : Sess) => x.uid) t.sessions hn x0 hx0 s0 hm hux
    rw [this]

/-- **look up, change, write back**: the table afterwards, by membership -/
theorem getSet_spec (t : Table) (hn : UidNodup t) (uid now : Nat) (x0 x : Sess)
    (hg : (t.get uid now).2 = some x0) (hx : x.uid = uid) :
    ∃ s0 ∈ t.sessions, s0.uid = uid ∧ x0 = { s0 with lastUse := now } ∧
      ((t.get uid now).1.setSess x).nextUid = t.nextUid ∧
      UidNodup ((t.get uid now).1.setSess x) ∧
      ((t.get uid now).1.setSess x).sessions.length = t.sessions.length ∧
      ∀ y, y ∈ ((t.get uid now).1.setSess x).sessions ↔ y = x ∨ (y ∈ t.sessions ∧ y.uid ≠ uid) := by
  rcases get_spec t hn uid now with ⟨h, _, _⟩ | ⟨s0, hm, hu, h2, h1⟩
  · rw [h] at hg; cases hg
  · rw [h2] at hg
    cases hg
    refine ⟨s0, hm, hu, rfl, ?_, ?_, ?_, ?_⟩
    · rw [setSess_nextUid, h1, setSess_nextUid]
    · rw [h1]; exact setSess_uidNodup _ _ (setSess_uidNodup _ _ hn)
    · rw [setSess_length, h1, setSess_length]
    · intro y
      rw [h1]
      have hn1 := setSess_uidNodup t { s0 with lastUse := now } hn
      have hex0 : ∃ s ∈ t.sessions, s.uid = ({ s0 with lastUse := now } : Sess).uid := ⟨s0, hm, rfl⟩
      have hin : ({ s0 with lastUse := now } : Sess) ∈ (t.setSess { s0 with lastUse := now }).sessions :=
        (mem_setSess t hn _ hex0 _).2 (Or.inl rfl)
      have hex1 : ∃ s ∈ (t.setSess { s0 with lastUse := now }).sessions, s.uid = x.uid :=
        ⟨_, hin, by rw [hx]; exact hu⟩
      rw [mem_setSess _ hn1 x hex1 y, mem_setSess t hn _ hex0 y]
      constructor
      · rintro (h | ⟨h | ⟨h, h'⟩, hne⟩)
        · exact Or.inl h
        · exfalso; apply hne; rw [h, hx]; exact hu
        · right; exact ⟨h, by rw [← hu]; exact h'⟩
      · rintro (h | ⟨h, hne⟩)
        · exact Or.inl h
        · right
          refine ⟨Or.inr ⟨h, by simpa [hu] using hne⟩, by rw [hx]; exact hne⟩

theorem flagSub_getSet (t : Table) (hn : UidNodup t) (uid now : Nat) (x0 x : Sess)
    (hg : (t.get uid now).2 = some x0) (hx : x.uid = uid) (hr : x.reserved = x0.reserved) :
    FlagSub t ((t.get uid now).1.setSess x) := by
  obtain ⟨s0, hm, hu, h0, hnext, hnd, hlen, hmem⟩ := getSet_spec t hn uid now x0 x hg hx
  refine ⟨hnext, hnd, Nat.le_of_eq hlen, ?_⟩
  intro y hy
  rcases (hmem y).1 hy with h | ⟨h, _⟩
  · subst h
    exact ⟨s0, hm, by rw [hu, hx], by rw [hr, h0]⟩
  · exact ⟨y, h, rfl, rfl⟩

/-! ## The table functions used by the ops -/

theorem reservedUpdate_fst (t : Table) (uid l p : Nat) (m : Mode) (now : Nat) :
    (t.reservedUpdate uid l p m now).1 = match (t.get uid now).2 with
      | none => (t.get uid now).1
      | some s => (t.get uid now).1.setSess { s with localSid := l, peerSid := p, mode := m, port := p } := by
  unfold Table.reservedUpdate
  generalize t.get uid now = q
  obtain ⟨t1, so⟩ := q
  cases so <;> rfl

theorem reservedComplete_fst (t : Table) (uid now : Nat) :
    (t.reservedComplete uid now).1 = match (t.get uid now).2 with
      | none => (t.get uid now).1
      | some s => (t.get uid now).1.setSess { s with reserved := false } := by
  unfold Table.reservedComplete
  generalize t.get uid now = q
  obtain ⟨t1, so⟩ := q
  cases so <;> rfl

theorem flagSub_reservedUpdate (t : Table) (hn : UidNodup t) (uid l p : Nat) (m : Mode) (now : Nat) :
    FlagSub t (t.reservedUpdate uid l p m now).1 := by
  rw [reservedUpdate_fst]
  cases hg : (t.get uid now).2 with
  | none => exact flagSub_get t hn uid now
  | some x0 =>
    obtain ⟨s0, _, hu, h0, _⟩ := getSet_spec t hn uid now x0 x0 hg (by
      rcases get_spec t hn uid now with ⟨h, _, _⟩ | ⟨s0, _, hu, h2, _⟩
      · rw [h] at hg; cases hg
      · rw [h2] at hg; cases hg; exact hu)
    exact flagSub_getSet t hn uid now x0 _ hg (by rw [h0]; exact hu) rfl

/-- what `complete()` / the drop of a completed guard does, by membership -/
theorem reservedComplete_spec (t : Table) (hn : UidNodup t) (uid now : Nat) :
    (t.reservedComplete uid now).1.nextUid = t.nextUid ∧ UidNodup (t.reservedComplete uid now).1 ∧
    (t.reservedComplete uid now).1.sessions.length = t.sessions.length ∧
    ∀ y ∈ (t.reservedComplete uid now).1.sessions,
      (y.uid = uid ∧ y.reserved = false) ∨ (y ∈ t.sessions ∧ y.uid ≠ uid) := by
  rw [reservedComplete_fst]
  cases hg : (t.get uid now).2 with
  | none =>
    rcases get_spec t hn uid now with ⟨_, h1, h2⟩ | ⟨s0, _, _, h2, _⟩
    · rw [h1]
      exact ⟨rfl, hn, rfl, fun y hy => Or.inr ⟨hy, h2 y hy⟩⟩
    · rw [h2] at hg; cases hg
  | some x0 =>
    have hxu : x0.uid = uid := by
      rcases get_spec t hn uid now with ⟨h, _, _⟩ | ⟨s0, _, hu, h2, _⟩
      · rw [h] at hg; cases hg
      · rw [h2] at hg; cases hg; exact hu
    obtain ⟨s0, _, _, _, hnext, hnd, hlen, hmem⟩ :=
      getSet_spec t hn uid now x0 { x0 with reserved := false } hg hxu
    refine ⟨hnext, hnd, hlen, ?_⟩
    intro y hy
    rcases (hmem y).1 hy with h | h
    · left; subst h; exact ⟨hxu, rfl⟩
    · exact Or.inr h

/-! ## The invariant -/

structure Inv (s : Sys) : Prop where
  nodup : UidNodup s.t
  below : UidBelow s.t
  gbelow : ∀ g ∈ s.guards, g.uid < s.t.nextUid
  cap : s.t.sessions.length ≤ Consts.maxSessions
  /-- a session is reserved iff a live incomplete guard holds its uid -/
  resv : ∀ x ∈ s.t.sessions, (x.reserved = true ↔ ∃ g ∈ s.guards, g.uid = x.uid ∧ g.complete = false)

theorem inv_init : Inv init :=
  ⟨List.nodup_nil, fun _ h => (by cases h), fun _ h => (by cases h), Nat.zero_le _, fun _ h => (by cases h)⟩

/-- a step that leaves guards alone and all `(uid, reserved)` pairs as they are keeps the invariant -/
theorem inv_of_flagSub (s : Sys) (t' : Table) (hs : Inv s) (h : FlagSub s.t t') :
    Inv { s with t := t' } := by
  refine ⟨h.nodup, ?_, ?_, Nat.le_trans h.len hs.cap, ?_⟩
  · intro y hy
    obtain ⟨x, hx, hu, _⟩ := h.sub y hy
    show y.uid < t'.nextUid
    rw [h.next, ← hu]; exact hs.below x hx
  · intro g hg
    show g.uid < t'.nextUid
    rw [h.next]; exact hs.gbelow g hg
  · intro y hy
    obtain ⟨x, hx, hu, hr⟩ := h.sub y hy
    show y.reserved = true ↔ ∃ g ∈ s.guards, g.uid = y.uid ∧ g.complete = false
    rw [← hr, ← hu]; exact hs.resv x hx

theorem add_next (t : Table) (ctr : Nat) (r : Bool) (now port : Nat) (hw : t.nextUid < 0x0fffffff) :
    (t.add ctr r now port).1.nextUid = t.nextUid + 1 := by
  unfold Table.add
  have : ¬ t.nextUid + 1 > 0x0fffffff := by omega
  by_cases hc : t.sessions.length ≥ Consts.maxSessions <;> simp [hc, this]

theorem inv_add (s : Sys) (ctr port : Nat) (hs : Inv s) (hw : noWrap s) : Inv (opAdd s ctr port) := by
  unfold opAdd
  obtain ⟨hnd, hbl⟩ := add_uid_inv s.t ctr false s.now port hs.nodup hs.below hw
  have hnext := add_next s.t ctr false s.now port hw
  refine ⟨hnd, hbl, ?_, ?_, ?_⟩
  · intro g hg; show g.uid < _; rw [hnext]; exact Nat.lt_succ_of_lt (hs.gbelow g hg)
  · cases hr : (s.t.add ctr false s.now port).2 with
    | error e => show (s.t.add ctr false s.now port).1.sessions.length ≤ _
                 rw [add_err_sessions _ _ _ _ _ e hr]; exact hs.cap
    | ok uid =>
      obtain ⟨_, hlt, hss⟩ := add_ok_sessions _ _ _ _ _ uid hr
      show (s.t.add ctr false s.now port).1.sessions.length ≤ _
      rw [hss]; simp only [List.length_append, List.length_singleton]; omega
  · intro y hy
    show y.reserved = true ↔ ∃ g ∈ s.guards, g.uid = y.uid ∧ g.complete = false
    cases hr : (s.t.add ctr false s.now port).2 with
    | error e =>
      have : y ∈ s.t.sessions := by
        have h := add_err_sessions _ _ _ _ _ e hr
        show y ∈ s.t.sessions
        rw [← h]; exact hy
      exact hs.resv y this
    | ok uid =>
      obtain ⟨hu, _, hss⟩ := add_ok_sessions _ _ _ _ _ uid hr
      have hy' := hy
      change y ∈ (s.t.add ctr false s.now port).1.sessions at hy'
      rw [hss] at hy'
      rcases List.mem_append.1 hy' with h | h
      · exact hs.resv y h
      · simp only [List.mem_singleton] at h
        subst h
        simp only [Bool.false_eq_true, false_iff, not_exists, not_and]
        intro g hg hgu
        have := hs.gbelow g hg
        rw [hu] at hgu
        omega

theorem inv_reserve (s : Sys) (ctr : Nat) (hs : Inv s) (hw : noWrap s) : Inv (opReserve s ctr) := by
  unfold opReserve
  obtain ⟨hnd, hbl⟩ := add_uid_inv s.t ctr true s.now 0 hs.nodup hs.below hw
  have hnext := add_next s.t ctr true s.now 0 hw
  simp only
  cases hr : (s.t.add ctr true s.now).2 with
  | error e =>
    have hss := add_err_sessions _ _ _ _ _ e hr
    simp only
    refine ⟨hnd, hbl, ?_, ?_, ?_⟩
    · intro g hg; show g.uid < _; rw [hnext]; exact Nat.lt_succ_of_lt (hs.gbelow g hg)
    · show (s.t.add ctr true s.now).1.sessions.length ≤ _
      rw [hss]; exact hs.cap
    · intro y hy
      have : y ∈ s.t.sessions := by rw [← hss]; exact hy
      exact hs.resv y this
  | ok uid =>
    obtain ⟨hu, hlt, hss⟩ := add_ok_sessions _ _ _ _ _ uid hr
    simp only
    refine ⟨hnd, hbl, ?_, ?_, ?_⟩
    · intro g hg
      show g.uid < _
      rw [hnext]
      rcases List.mem_cons.1 hg with h | h
      · subst h; simp only; omega
      · exact Nat.lt_succ_of_lt (hs.gbelow g h)
    · show (s.t.add ctr true s.now).1.sessions.length ≤ _
      rw [hss]; simp only [List.length_append, List.length_singleton]; omega
    · intro y hy
      have hy' := hy
      change y ∈ (s.t.add ctr true s.now).1.sessions at hy'
      rw [hss] at hy'
      show y.reserved = true ↔ ∃ g ∈ ({ uid := uid } : Guard) :: s.guards, g.uid = y.uid ∧ g.complete = false
      rcases List.mem_append.1 hy' with h | h
      · rw [hs.resv y h]
        have hlt' := hs.below y h
        constructor
        · rintro ⟨g, hg, h1, h2⟩; exact ⟨g, List.mem_cons_of_mem _ hg, h1, h2⟩
        · rintro ⟨g, hg, h1, h2⟩
          rcases List.mem_cons.1 hg with hg | hg
          · subst hg; simp only at h1; omega
          · exact ⟨g, hg, h1, h2⟩
      · simp only [List.mem_singleton] at h
        subst h
        simp only [true_iff]
        exact ⟨{ uid := uid }, List.mem_cons_self, rfl, rfl⟩

theorem inv_complete (s : Sys) (uid : Nat) (hs : Inv s) : Inv (opComplete s uid) := by
  unfold opComplete
  split
  · obtain ⟨hnext, hnd, hlen, hmem⟩ := reservedComplete_spec s.t hs.nodup uid s.now
    have hmark : ∀ g, (markComplete uid g).uid = g.uid := by
      intro g; unfold markComplete; split <;> rfl
    refine ⟨hnd, ?_, ?_, by show _ ≤ _; rw [hlen]; exact hs.cap, ?_⟩
    · intro y hy
      show y.uid < _
      rw [hnext]
      rcases hmem y hy with ⟨h, _⟩ | ⟨h, _⟩
      · -- the session under `uid` exists before as well
        rcases get_spec s.t hs.nodup uid s.now with ⟨_, h1, h2⟩ | ⟨s0, hm, hu, _, _⟩
        · exfalso
          rw [reservedComplete_fst] at hy
          have hg : (s.t.get uid s.now).2 = none := by
            rw [get_snd, (sess_none_iff s.t uid).2 h2]; rfl
          simp only [hg, h1] at hy
          exact h2 y hy h
        · rw [h, ← hu]; exact hs.below s0 hm
      · exact hs.below y h
    · intro g hg
      show g.uid < _
      rw [hnext]
      obtain ⟨g0, hg0, rfl⟩ := List.mem_map.1 hg
      rw [hmark]; exact hs.gbelow g0 hg0
    · intro y hy
      show y.reserved = true ↔ ∃ g ∈ s.guards.map (markComplete uid), g.uid = y.uid ∧ g.complete = false
      rcases hmem y hy with ⟨hu, hr⟩ | ⟨hm, hne⟩
      · rw [hr]
        simp only [Bool.false_eq_true, false_iff, not_exists, not_and]
        intro g hg hgu
        obtain ⟨g0, _, rfl⟩ := List.mem_map.1 hg
        rw [hmark] at hgu
        unfold markComplete
        have : (g0.uid == uid) = true := by rw [hgu, hu]; simp
        simp [this]
      · rw [hs.resv y hm]
        constructor
        · rintro ⟨g, hg, h1, h2⟩
          refine ⟨markComplete uid g, List.mem_map_of_mem hg, by rw [hmark]; exact h1, ?_⟩
          unfold markComplete
          have : (g.uid == uid) = false := by rw [h1]; simpa using hne
          simp [this, h2]
        · rintro ⟨g, hg, h1, h2⟩
          obtain ⟨g0, hg0, rfl⟩ := List.mem_map.1 hg
          rw [hmark] at h1
          refine ⟨g0, hg0, h1, ?_⟩
          unfold markComplete at h2
          have : (g0.uid == uid) = false := by rw [h1]; simpa using hne
          simpa [this] using h2
  · exact hs

theorem inv_dropGuard (s : Sys) (uid : Nat) (hs : Inv s) : Inv (opDropGuard s uid) := by
  unfold opDropGuard
  split
  · exact hs
  · rename_i g hfind
    have hfilter : ∀ g' : Guard, g' ∈ s.guards.filter (fun g => g.uid != uid) ↔ g' ∈ s.guards ∧ g'.uid ≠ uid := by
      intro g'; simp [List.mem_filter]
    split
    · -- completed guard: the flag is cleared (once more)
      obtain ⟨hnext, hnd, hlen, hmem⟩ := reservedComplete_spec s.t hs.nodup uid s.now
      refine ⟨hnd, ?_, ?_, by show _ ≤ _; rw [hlen]; exact hs.cap, ?_⟩
      · intro y hy
        show y.uid < _
        rw [hnext]
        rcases hmem y hy with ⟨h, _⟩ | ⟨h, _⟩
        · have hgm := List.mem_of_find?_eq_some hfind
          have hgu : g.uid = uid := by simpa using List.find?_some hfind
          rw [h, ← hgu]; exact hs.gbelow g hgm
        · exact hs.below y h
      · intro g' hg'
        show g'.uid < _
        rw [hnext]; exact hs.gbelow g' ((hfilter g').1 hg').1
      · intro y hy
        show y.reserved = true ↔ ∃ g ∈ s.guards.filter (fun g => g.uid != uid), g.uid = y.uid ∧ g.complete = false
        rcases hmem y hy with ⟨hu, hr⟩ | ⟨hm, hne⟩
        · rw [hr]
          simp only [Bool.false_eq_true, false_iff, not_exists, not_and]
          intro g' hg' hgu
          exact absurd (hgu.trans hu) ((hfilter g').1 hg').2
        · rw [hs.resv y hm]
          constructor
          · rintro ⟨g', hg', h1, h2⟩
            exact ⟨g', (hfilter g').2 ⟨hg', by rw [h1]; exact hne⟩, h1, h2⟩
          · rintro ⟨g', hg', h1, h2⟩
            exact ⟨g', ((hfilter g').1 hg').1, h1, h2⟩
    · -- abandoned: the session is removed
      have hfs := flagSub_remove s.t hs.nodup uid
      refine ⟨hfs.nodup, ?_, ?_, Nat.le_trans hfs.len hs.cap, ?_⟩
      · intro y hy
        show y.uid < _
        rw [hfs.next]; exact hs.below y ((mem_remove s.t hs.nodup uid y).1 hy).1
      · intro g' hg'
        show g'.uid < _
        rw [hfs.next]; exact hs.gbelow g' ((hfilter g').1 hg').1
      · intro y hy
        show y.reserved = true ↔ ∃ g ∈ s.guards.filter (fun g => g.uid != uid), g.uid = y.uid ∧ g.complete = false
        obtain ⟨hm, hne⟩ := (mem_remove s.t hs.nodup uid y).1 hy
        rw [hs.resv y hm]
        constructor
        · rintro ⟨g', hg', h1, h2⟩
          exact ⟨g', (hfilter g').2 ⟨hg', by rw [h1]; exact hne⟩, h1, h2⟩
        · rintro ⟨g', hg', h1, h2⟩
          exact ⟨g', ((hfilter g').1 hg').1, h1, h2⟩


/-! ## The exchange-level ops keep every `(uid, reserved)` pair -/

theorem flagSub_congr {t t1 t2 : Table} (h : FlagSub t t1) (hs : t2.sessions = t1.sessions)
    (hn : t2.nextUid = t1.nextUid) : FlagSub t t2 :=
  ⟨hn.trans h.next, by unfold UidNodup; rw [hs]; exact h.nodup, by rw [hs]; exact h.len,
    fun y hy => h.sub y (by rw [← hs]; exact hy)⟩

theorem setSess_nextExch (t : Table) (n : Nat) (x : Sess) :
    (({ t with nextExch := n } : Table).setSess x).sessions = (t.setSess x).sessions ∧
    (({ t with nextExch := n } : Table).setSess x).nextUid = (t.setSess x).nextUid := by
  unfold Table.setSess Table.find
  simp only
  cases List.findIdx? (fun x_1 => x_1.uid == x.uid) t.sessions <;> exact ⟨rfl, rfl⟩

theorem setMrp_flags (s : Sess) (i : Nat) (m : Mrp) :
    (s.setMrp i m).uid = s.uid ∧ (s.setMrp i m).reserved = s.reserved := by
  unfold Sess.setMrp; split <;> exact ⟨rfl, rfl⟩

theorem addExch_flags (s s' : Sess) (id : Nat) (role : RoleSt) (i : Nat) (h : s.addExch id role = some (s', i)) :
    s'.uid = s.uid ∧ s'.reserved = s.reserved := by
  unfold Sess.addExch at h
  simp only at h
  split at h
  · cases h; exact ⟨rfl, rfl⟩
  · split at h
    · cases h; exact ⟨rfl, rfl⟩
    · cases h

theorem removeExch_flags (s : Sess) (i : Nat) :
    (s.removeExch i).1.uid = s.uid ∧ (s.removeExch i).1.reserved = s.reserved := by
  unfold Sess.removeExch
  split
  · exact ⟨rfl, rfl⟩
  · split <;> exact ⟨rfl, rfl⟩

theorem postRecv_flags (s : Sess) (h : RxHdr) (now : Nat) :
    (s.postRecv h now).1.uid = s.uid ∧ (s.postRecv h now).1.reserved = s.reserved := by
  unfold Sess.postRecv
  simp only
  split
  · exact ⟨rfl, rfl⟩
  · split
    · split
      · split
        · exact ⟨(setMrp_flags _ _ _).1, (setMrp_flags _ _ _).2⟩
        · exact ⟨(setMrp_flags _ _ _).1, (setMrp_flags _ _ _).2⟩
      · exact ⟨rfl, rfl⟩
    · split
      · exact ⟨rfl, rfl⟩
      · split
        · exact ⟨rfl, rfl⟩
        · split
          · rename_i s' i hadd
            have ha := addExch_flags _ _ _ _ _ hadd
            split
            · exact ⟨(setMrp_flags _ _ _).1.trans ha.1, (setMrp_flags _ _ _).2.trans ha.2⟩
            · exact ⟨(setMrp_flags _ _ _).1.trans ha.1, (setMrp_flags _ _ _).2.trans ha.2⟩
          · exact ⟨rfl, rfl⟩

theorem get_some_uid (t : Table) (hn : UidNodup t) (uid now : Nat) (x0 : Sess)
    (hg : (t.get uid now).2 = some x0) : x0.uid = uid := by
  rcases get_spec t hn uid now with ⟨h, _, _⟩ | ⟨s0, _, hu, h2, _⟩
  · rw [h] at hg; cases hg
  · rw [h2] at hg; cases hg; exact hu

theorem flagSub_expire (t : Table) (hn : UidNodup t) (uid now : Nat) (x0 : Sess)
    (hg : (t.get uid now).2 = some x0) :
    FlagSub t ((t.get uid now).1.setSess { x0 with expired := true }) :=
  flagSub_getSet t hn uid now x0 _ hg (get_some_uid t hn uid now x0 hg) rfl

theorem flagSub_initiate (t : Table) (hn : UidNodup t) (uid now : Nat) : FlagSub t (t.initiate uid now).1 := by
  unfold Table.initiate
  rcases hq : t.get uid now with ⟨t1, so⟩
  have h1 : (t.get uid now).1 = t1 := by rw [hq]
  have h2 : (t.get uid now).2 = so := by rw [hq]
  have hget : FlagSub t t1 := by rw [← h1]; exact flagSub_get t hn uid now
  cases so with
  | none => exact hget
  | some x0 =>
    simp only
    split
    · exact hget
    · simp only [Table.nextExchId]
      split
      · rename_i s' i hadd
        have hfl := addExch_flags _ _ _ _ _ hadd
        have hx := get_some_uid t hn uid now x0 h2
        have hb := flagSub_getSet t hn uid now x0 s' h2 (hfl.1.trans hx) hfl.2
        rw [h1] at hb
        exact flagSub_congr hb (setSess_nextExch t1 _ s').1 (setSess_nextExch t1 _ s').2
      · exact flagSub_congr hget rfl rfl

theorem flagSub_accept (t : Table) (hn : UidNodup t) (uid i now : Nat) : FlagSub t (t.accept uid i now).1 := by
  unfold Table.accept
  rcases hq : t.get uid now with ⟨t1, so⟩
  have h1 : (t.get uid now).1 = t1 := by rw [hq]
  have h2 : (t.get uid now).2 = so := by rw [hq]
  have hget : FlagSub t t1 := by rw [← h1]; exact flagSub_get t hn uid now
  cases so with
  | none => exact hget
  | some x0 =>
    simp only
    split
    · split
      · have hx := get_some_uid t hn uid now x0 h2
        rw [← h1]
        exact flagSub_getSet t hn uid now x0 _ h2 hx rfl
      · exact hget
    · exact hget

theorem flagSub_dropExchange (t : Table) (hn : UidNodup t) (uid i now : Nat) :
    FlagSub t (t.dropExchange uid i now).1 := by
  unfold Table.dropExchange
  rcases hq : t.get uid now with ⟨t1, so⟩
  have h1 : (t.get uid now).1 = t1 := by rw [hq]
  have h2 : (t.get uid now).2 = so := by rw [hq]
  have hget : FlagSub t t1 := by rw [← h1]; exact flagSub_get t hn uid now
  cases so with
  | none => exact hget
  | some x0 =>
    simp only
    have hx := get_some_uid t hn uid now x0 h2
    have hfl := removeExch_flags x0 i
    have hb := flagSub_getSet t hn uid now x0 (x0.removeExch i).1 h2 (hfl.1.trans hx) hfl.2
    rw [h1] at hb
    exact hb

theorem flagSub_recv (t : Table) (hn : UidNodup t) (uid now : Nat) (h : RxHdr) (x0 : Sess)
    (hg : (t.get uid now).2 = some x0) :
    FlagSub t ((t.get uid now).1.setSess (x0.postRecv h now).1) := by
  have hx := get_some_uid t hn uid now x0 hg
  have hfl := postRecv_flags x0 h now
  exact flagSub_getSet t hn uid now x0 _ hg (hfl.1.trans hx) hfl.2

theorem flagSub_sweepAccept (t : Table) (hn : UidNodup t) (port sid : Nat) (h : RxHdr) (now : Nat) :
    FlagSub t (t.sweepAccept port sid h now).1 := by
  unfold Table.sweepAccept Table.getForRx
  split
  · rename_i t1 so hq
    split at hq
    · rename_i s1 _
      have h1 : (t.get s1.uid now).1 = t1 := by rw [hq]
      have h2 : (t.get s1.uid now).2 = so := by rw [hq]
      have hget : FlagSub t t1 := by rw [← h1]; exact flagSub_get t hn s1.uid now
      cases so with
      | none => exact hget
      | some x0 =>
        simp only
        split
        · exact hget
        · split
          · exact hget
          · split
            · have hx := get_some_uid t hn s1.uid now x0 h2
              rw [← h1]
              exact flagSub_getSet t hn s1.uid now x0 _ h2 hx rfl
            · exact hget
    · cases hq
      exact FlagSub.refl t hn

theorem preSend_flags (s : Sess) (idx : Option Nat) (rel : Bool) (ha sai : Option Nat) :
    (s.preSend idx rel ha sai).1.uid = s.uid ∧ (s.preSend idx rel ha sai).1.reserved = s.reserved := by
  unfold Sess.preSend
  split
  · exact ⟨rfl, rfl⟩
  · split
    · exact ⟨rfl, rfl⟩
    · simp only
      split <;> split <;>
        first
          | exact ⟨(setMrp_flags _ _ _).1, (setMrp_flags _ _ _).2⟩
          | (split <;> exact ⟨(setMrp_flags _ _ _).1, (setMrp_flags _ _ _).2⟩)

theorem flagSub_sweepDropped (t : Table) (hn : UidNodup t) (now : Nat) : FlagSub t (t.sweepDropped now).1 := by
  unfold Table.sweepDropped
  split
  · rename_i uid _ _
    simp only [Table.nextExchId]
    have hget := flagSub_get t hn uid now
    have hg2 : FlagSub t ({ (t.get uid now).1 with nextExch := (allocLoop (t.get uid now).1.liveInitExchIds 65536 (t.get uid now).1.nextExch).2 } : Table) :=
      flagSub_congr hget rfl rfl
    split
    · exact FlagSub.trans hg2 (flagSub_remove _ hg2.nodup uid)
    · exact hg2
  · split
    · rename_i uid i _
      rcases hq : t.get uid now with ⟨t1, so⟩
      have h1 : (t.get uid now).1 = t1 := by rw [hq]
      have h2 : (t.get uid now).2 = so := by rw [hq]
      have hget : FlagSub t t1 := by rw [← h1]; exact flagSub_get t hn uid now
      cases so with
      | none => exact hget
      | some x0 =>
        simp only
        have hx := get_some_uid t hn uid now x0 h2
        split
        · split
          · have hp := preSend_flags x0 (some i) false none none
            split
            · rw [← h1]
              exact flagSub_getSet t hn uid now x0 _ h2 (hp.1.trans hx) hp.2
            · rw [← h1]
              exact flagSub_getSet t hn uid now x0 _ h2 (hp.1.trans hx) hp.2
          · rw [← h1]
            exact flagSub_getSet t hn uid now x0 _ h2 hx rfl
        · exact hget
    · exact FlagSub.refl t hn

/-! ## Every step keeps the invariant -/

theorem inv_step (s : Sys) (o : Op) (hs : Inv s) (hw : noWrap s) : Inv (step s o) := by
  cases o with
  | add ctr port => exact inv_add s ctr port hs hw
  | reserve ctr => exact inv_reserve s ctr hs hw
  | update uid l p m =>
    simp only [step, opUpdate]
    split
    · exact inv_of_flagSub s _ hs (flagSub_reservedUpdate s.t hs.nodup uid l p m s.now)
    · exact hs
  | complete uid => exact inv_complete s uid hs
  | dropGuard uid => exact inv_dropGuard s uid hs
  | remove uid => exact inv_of_flagSub s _ hs (flagSub_remove s.t hs.nodup uid)
  | evict =>
    simp only [step, opEvict]
    split
    · exact inv_of_flagSub s _ hs (flagSub_remove s.t hs.nodup _)
    · exact hs
  | expire uid =>
    simp only [step, opExpire]
    split
    · rename_i x hg
      exact inv_of_flagSub s _ hs (flagSub_expire s.t hs.nodup uid s.now x hg)
    · exact hs
  | initiate uid =>
    simp only [step, opInitiate]
    have h := inv_of_flagSub s _ hs (flagSub_initiate s.t hs.nodup uid s.now)
    split
    · exact ⟨h.nodup, h.below, h.gbelow, h.cap, h.resv⟩
    · exact h
  | recv uid h =>
    simp only [step, opRecv]
    split
    · exact hs
    · split
      · exact hs
      · split
        · rename_i x hg
          exact inv_of_flagSub s _ hs (flagSub_recv s.t hs.nodup uid s.now h x hg)
        · exact hs
  | accept uid i =>
    simp only [step, opAccept]
    have h := inv_of_flagSub s _ hs (flagSub_accept s.t hs.nodup uid i s.now)
    split
    · exact ⟨h.nodup, h.below, h.gbelow, h.cap, h.resv⟩
    · exact h
  | dropHandle uid i =>
    simp only [step, opDropHandle]
    split
    · have h := inv_of_flagSub s _ hs (flagSub_dropExchange s.t hs.nodup uid i s.now)
      exact ⟨h.nodup, h.below, h.gbelow, h.cap, h.resv⟩
    · exact hs
  | sweep => exact inv_of_flagSub s _ hs (flagSub_sweepDropped s.t hs.nodup s.now)
  | sweepAccept port sid h => exact inv_of_flagSub s _ hs (flagSub_sweepAccept s.t hs.nodup port sid h s.now)
  | tick ms => exact ⟨hs.nodup, hs.below, hs.gbelow, hs.cap, hs.resv⟩

/-- the invariant holds in every reachable state -/
theorem inv_reach (s : Sys) (h : Reach s) : Inv s := by
  induction h with
  | init => exact inv_init
  | step s o _ hw ih => exact inv_step s o ih hw

end Handshake
