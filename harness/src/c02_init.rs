//! C02, the INITIATOR's side (`init` cases): the real `PaseInitiator::perform` on the controller against the real
//! responder on the device, while the device's messages - PBKDFParamResponse, Pake2, the final StatusReport - are
//! modified in flight (they travel on an unsecured session: nothing but the SPAKE2+ confirmation protects them).
//!
//! `case <id> init pw=<device passcode>`
//! ops: `open t=<secs>` | `revoke`
//!      `hs ipw=<initiator's passcode> [mut=<resp|pake2|status>:<how>]`   one complete handshake of the real initiator
//!   how (any target): `bit<n>` one payload bit flipped (index modulo the payload length) | `last` one bit of the last
//!        payload byte (the end-of-container marker) flipped | `trail` one byte appended | `status` the message is
//!        replaced by a StatusReport InvalidParameter | `opcode` the opcode is replaced by another one
//!   resp:   `rnd` echoed random changed | `rrand` responder random changed | `ssid` responder session id + 1 |
//!           `iter` iteration count + 1 | `salt` one salt byte changed | `salt15` / `salt33` / `salt0` salt of that length |
//!           `noparams` without the PBKDF parameters          (re-encoded with the real TLV codec)
//!   pake2:  `pb` one byte of pB changed | `cb` one byte of cB changed | `cbzero` | `short` cB of 16 bytes | `pbinf` pB = 65 zero bytes
//!   status: `fail` GeneralCode failure / InvalidParameter | `parse` truncated to 3 bytes
//! answer: `res=<ok|err:Code> sent=<handshake messages the initiator sent: 1-3> notify=<0|1: it sent a StatusReport>
//!          isess=<PASE sessions that appeared on the initiator> dsess=<… on the device> cls=<what the modified message is,
//!          by the real decoders: same|field|parse|rnd|noparams|saltlen|status|opcode|fail>
//!          rx=<what reached the initiator on the handshake's exchange, in order: <opcode hex>:<class>,…>`
use std::cell::RefCell;
use std::rc::Rc;

use embassy_futures::select::{select, select4, Either};
use embassy_time::{Duration, Timer};

use rs_matter::crypto::test_only_crypto;
use rs_matter::dm::devices::test::{TEST_DEV_ATT, TEST_DEV_DET};
use rs_matter::error::{Error, ErrorCode};
use rs_matter::respond::Responder;
use rs_matter::sc::pase::verif_tlv::{dec_pake2, dec_pbkdf_resp, enc_pake2, enc_pbkdf_resp};
use rs_matter::sc::pase::{PaseInitiator, Spake2pVerifierPassword, Spake2pVerifierPasswordRef};
use rs_matter::sc::{GeneralCode, OpCode, SCStatusCodes, SecureChannel, StatusReport};
use rs_matter::transport::exchange::Exchange;
use rs_matter::transport::network::NoNetwork;
use rs_matter::transport::packet::PacketHdr;
use rs_matter::transport::session::SessionMode;
use rs_matter::utils::storage::{ParseBuf, ReadBuf};
use rs_matter::BasicCommData;
use rs_matter::Matter;

use super::{kv, num, payload_start};
use crate::proto::{Case, Out};
use crate::simnet::{addr_of, run_sim, Perfect, SimEnd, SimNet};

/// offset of the protocol header (exchange flags, opcode, …) of a datagram
fn proto_start(bytes: &[u8]) -> Option<usize> {
    let mut c = bytes.to_vec();
    let mut pb = ParseBuf::new(&mut c);
    let mut hdr = PacketHdr::new();
    hdr.plain.decode(&mut pb).ok()?;
    Some(pb.read_off())
}

fn status_payload(general: u16, code: u16) -> Vec<u8> {
    let mut v = Vec::new();
    v.extend_from_slice(&general.to_le_bytes());
    v.extend_from_slice(&0u32.to_le_bytes());
    v.extend_from_slice(&code.to_le_bytes());
    v
}

/// the modified payload (and possibly another opcode) for `how`
fn mutate(opcode: u8, payload: &[u8], how: &str) -> (u8, Vec<u8>) {
    let mut buf = [0u8; 512];
    if let Some(n) = how.strip_prefix("bit").and_then(|n| n.parse::<usize>().ok()) {
        let mut v = payload.to_vec();
        if !v.is_empty() {
            let b = n % (v.len() * 8);
            v[b / 8] ^= 1 << (b % 8);
        }
        return (opcode, v);
    }
    match how {
        // the envelope: the end-of-container marker (last byte) altered / a byte appended
        "last" => {
            let mut v = payload.to_vec();
            if let Some(b) = v.last_mut() {
                *b ^= 0x01;
            }
            return (opcode, v);
        }
        "trail" => {
            let mut v = payload.to_vec();
            v.push(0x18);
            return (opcode, v);
        }
        "status" => return (OpCode::StatusReport as u8, status_payload(1, SCStatusCodes::InvalidParameter as u16)),
        "opcode" => return (if opcode == OpCode::PASEPake3 as u8 { OpCode::PASEPake1 as u8 } else { OpCode::PASEPake3 as u8 }, payload.to_vec()),
        "fail" => return (opcode, status_payload(1, SCStatusCodes::InvalidParameter as u16)),
        "parse" => return (opcode, payload.iter().take(3).copied().collect()),
        _ => {}
    }
    if opcode == OpCode::PBKDFParamResponse as u8 {
        let r = dec_pbkdf_resp(payload, |ir, rr, ssid, params, sp| {
            let mut ir = ir.to_vec();
            let mut rr = rr.to_vec();
            let mut ssid = ssid;
            let mut params: Option<(u32, Vec<u8>)> = params.map(|(i, s)| (i, s.to_vec()));
            match how {
                "rnd" => ir[3] ^= 0x40,
                "rrand" => rr[7] ^= 0x01,
                "ssid" => ssid = ssid.wrapping_add(1),
                "iter" => params = params.map(|(i, s)| (i + 1, s)),
                "salt" => params = params.map(|(i, mut s)| {
                    s[0] ^= 1;
                    (i, s)
                }),
                "salt15" => params = params.map(|(i, s)| (i, s[..15.min(s.len())].to_vec())),
                "salt33" => params = params.map(|(i, mut s)| {
                    s.resize(33, 0x5a);
                    (i, s)
                }),
                "salt0" => params = params.map(|(i, _)| (i, vec![])),
                "noparams" => params = None,
                _ => {}
            }
            let mut out = [0u8; 512];
            enc_pbkdf_resp(&ir, &rr, ssid, params.as_ref().map(|(i, s)| (*i, s.as_slice())), sp, &mut out).ok().map(|n| out[..n].to_vec())
        });
        if let Ok(Some(v)) = r {
            return (opcode, v);
        }
    } else if opcode == OpCode::PASEPake2 as u8 {
        let r = dec_pake2(payload, |pb, cb| {
            let mut pb = pb.to_vec();
            let mut cb = cb.to_vec();
            match how {
                "pb" => pb[10] ^= 0x04,
                "cb" => cb[5] ^= 0x80,
                "cbzero" => cb = vec![0u8; 32],
                "short" => cb.truncate(16),
                "pbinf" => pb = vec![0u8; 65],
                _ => {}
            }
            enc_pake2(&pb, &cb, &mut buf).ok().map(|n| buf[..n].to_vec())
        });
        if let Ok(Some(v)) = r {
            return (opcode, v);
        }
    }
    (opcode, payload.to_vec())
}

/// what the modified message is, by the real decoders (the order of the initiator's own checks)
fn classify(orig_opcode: u8, orig: &[u8], opcode: u8, payload: &[u8]) -> String {
    if opcode != orig_opcode {
        return if opcode == OpCode::StatusReport as u8 { "status".into() } else { "opcode".into() };
    }
    // the root structure must be terminated and span the payload (`get_root_node_struct`, as the initiator demands
    // since the repair of C02-initiator-tlv-envelope)
    if opcode != OpCode::StatusReport as u8 && rs_matter::tlv::get_root_node_struct(payload).is_err() {
        return "parse".into();
    }
    if opcode == OpCode::PBKDFParamResponse as u8 {
        let oir = dec_pbkdf_resp(orig, |ir, _, _, _, _| ir.to_vec()).unwrap_or_default();
        match dec_pbkdf_resp(payload, |ir, _, _, params, _| (ir.to_vec(), params.map(|(_, s)| s.len()))) {
            Err(_) => "parse".into(),
            Ok((ir, params)) => {
                if ir != oir {
                    "rnd".into()
                } else {
                    match params {
                        None => "noparams".into(),
                        Some(l) if !(16..=32).contains(&l) => "saltlen".into(),
                        Some(_) => (if payload == orig { "same" } else { "field" }).into(),
                    }
                }
            }
        }
    } else if opcode == OpCode::PASEPake2 as u8 {
        match dec_pake2(payload, |pb, cb| (pb.len(), cb.len())) {
            Ok((65, 32)) => (if payload == orig { "same" } else { "field" }).into(),
            _ => "parse".into(),
        }
    } else {
        let mut rb = ReadBuf::new(payload);
        match StatusReport::read(&mut rb) {
            Err(_) => "parse".into(),
            Ok(s) => {
                if s.general_code == GeneralCode::Success && s.proto_code == SCStatusCodes::SessionEstablishmentSuccess as u16 {
                    "same".into()
                } else {
                    "fail".into()
                }
            }
        }
    }
}

fn pase_sessions(m: &Matter) -> usize {
    m.with_state(|st| st.verif_sessions().iter().filter(|s| matches!(s.get_session_mode(), SessionMode::Pase { .. })).count())
}

pub fn run_init_case(out: &mut Out, case: &Case) {
    out.case(case.id, &case.kind);
    let m = kv(&case.kind);
    let pw = (num(&m, "pw") as u32).to_le_bytes();
    let comm = BasicCommData { password: Spake2pVerifierPassword::new_from_ref(Spake2pVerifierPasswordRef::new(&pw)), discriminator: 3840 };
    let net = SimNet::new(2, Box::new(Perfect));
    let device = Matter::new(&TEST_DEV_DET, comm.clone(), &TEST_DEV_ATT, 0);
    let ctrl = Matter::new(&TEST_DEV_DET, comm, &TEST_DEV_ATT, 0);
    let crypto = test_only_crypto();
    let ds = net.socket(0);
    let cs = net.socket(1);
    let sc = SecureChannel::new(&crypto, &());
    let responder = Responder::new("device", sc, &device, 0);
    let outs: RefCell<Vec<String>> = RefCell::new(Vec::new());
    // (target opcode, how) of the pending modification; the class of what was done
    let pending: Rc<RefCell<Option<(u8, String)>>> = Rc::new(RefCell::new(None));
    let cls: Rc<RefCell<String>> = Rc::new(RefCell::new(String::new()));
    // what reached the initiator on the handshake's exchange, in order: `<opcode hex>:<class>`
    let rx: Rc<RefCell<Vec<String>>> = Rc::new(RefCell::new(Vec::new()));
    {
        let pending = pending.clone();
        let cls = cls.clone();
        let rx = rx.clone();
        let mut last_rx: Vec<u8> = Vec::new();
        // exchange id of the handshake under way (from its PBKDFParamRequest): other traffic of the device - e.g. the
        // CloseSession status report it sends when it evicts a session - is left alone
        let mut cur_exch: Option<u16> = None;
        net.set_tamper(Box::new(move |_seq, from, _to, bytes| {
            let (start, opcode) = payload_start(bytes)?;
            let ps0 = proto_start(bytes)?;
            let exch = u16::from_le_bytes([*bytes.get(ps0 + 2)?, *bytes.get(ps0 + 3)?]);
            if from == 1 {
                if opcode == OpCode::PBKDFParamRequest as u8 {
                    cur_exch = Some(exch);
                }
                return None;
            }
            if from != 0 || start >= bytes.len() || cur_exch != Some(exch) {
                return None;
            }
            let how = match pending.borrow().as_ref() {
                Some((want, how)) if *want == opcode => how.clone(),
                _ => {
                    // untouched: a retransmission (identical bytes) is not a new message for the initiator
                    if last_rx != bytes {
                        last_rx = bytes.to_vec();
                        rx.borrow_mut().push(format!("{:02x}:{}", opcode, classify(opcode, &bytes[start..], opcode, &bytes[start..])));
                    }
                    return None;
                }
            };
            *pending.borrow_mut() = None;
            let ps = proto_start(bytes)?;
            let (new_opcode, new_payload) = mutate(opcode, &bytes[start..], &how);
            *cls.borrow_mut() = classify(opcode, &bytes[start..], new_opcode, &new_payload);
            rx.borrow_mut().push(format!("{:02x}:{}", new_opcode, cls.borrow()));
            let mut v = bytes[..start].to_vec();
            v[ps + 1] = new_opcode;
            v.extend_from_slice(&new_payload);
            Some(v)
        }));
    }
    let script = async {
        for op in case.ops.iter() {
            let m = kv(op);
            let head = op.split_whitespace().next().unwrap_or("");
            let res: String = match head {
                "open" => match device.open_basic_comm_window(num(&m, "t") as u16, &crypto, &()) {
                    Ok(()) => "ok".into(),
                    Err(e) => format!("err:{:?}", e.code()),
                },
                "revoke" => match device.close_comm_window(&()) {
                    Ok(_) => "ok".into(),
                    Err(e) => format!("err:{:?}", e.code()),
                },
                "hs" => {
                    // the controller is only a tool: idle sessions are dropped silently
                    ctrl.with_state(|st| {
                        let ids: Vec<u32> = st.verif_sessions_mut().iter().filter(|s| s.verif_exchanges().iter().all(|e| e.is_none())).map(|s| s.id()).collect();
                        for id in ids {
                            st.verif_sessions_mut().remove(id);
                        }
                    });
                    let (i0, d0) = (pase_sessions(&ctrl), pase_sessions(&device));
                    let log0 = net.log_len();
                    *cls.borrow_mut() = "-".into();
                    rx.borrow_mut().clear();
                    *pending.borrow_mut() = m.get("mut").and_then(|s| {
                        let (target, how) = s.split_once(':')?;
                        let opcode = match target {
                            "resp" => OpCode::PBKDFParamResponse as u8,
                            "pake2" => OpCode::PASEPake2 as u8,
                            "status" => OpCode::StatusReport as u8,
                            _ => return None,
                        };
                        Some((opcode, how.to_string()))
                    });
                    let r: Result<(), Error> = async {
                        let ex = Exchange::initiate_plaintext(&ctrl, &crypto, addr_of(0)).await?;
                        let hs = core::pin::pin!(PaseInitiator::perform(ex, &crypto, num(&m, "ipw") as u32));
                        let to = core::pin::pin!(Timer::after(Duration::from_millis(90_000)));
                        match select(hs, to).await {
                            Either::First(r) => r,
                            Either::Second(_) => Err(ErrorCode::RxTimeout.into()),
                        }
                    }
                    .await;
                    // let the device finish (its status report may still wait for the acknowledgement)
                    Timer::after(Duration::from_millis(9_000)).await;
                    *pending.borrow_mut() = None;
                    let mut sent: Vec<u8> = Vec::new();
                    let mut notify = 0;
                    for e in net.log().iter().skip(log0) {
                        if e.from != 1 {
                            continue;
                        }
                        if let Some((start, opcode)) = payload_start(&e.bytes) {
                            if start < e.bytes.len() {
                                if opcode == OpCode::StatusReport as u8 {
                                    notify = 1;
                                } else if !sent.contains(&opcode) {
                                    sent.push(opcode);
                                }
                            }
                        }
                    }
                    format!(
                        "res={} sent={} notify={} isess={} dsess={} cls={} rx={}",
                        match r {
                            Ok(()) => "ok".to_string(),
                            Err(e) => format!("err:{:?}", e.code()),
                        },
                        sent.len(),
                        notify,
                        pase_sessions(&ctrl).saturating_sub(i0),
                        pase_sessions(&device).saturating_sub(d0),
                        cls.borrow(),
                        if rx.borrow().is_empty() { "-".to_string() } else { rx.borrow().join(",") }
                    )
                }
                _ => "skip".into(),
            };
            outs.borrow_mut().push(res);
        }
        Ok::<(), Error>(())
    };
    let end = {
        let all = async {
            match select4(device.run(&crypto, &ds, &ds, NoNetwork), responder.run::<4>(), ctrl.run(&crypto, &cs, &cs, NoNetwork), script).await {
                embassy_futures::select::Either4::Fourth(r) => r,
                _ => Err(ErrorCode::Invalid.into()),
            }
        };
        run_sim(&net, all, 4_000_000)
    };
    let outs = outs.into_inner();
    for (i, op) in case.ops.iter().enumerate() {
        match outs.get(i) {
            Some(o) => {
                if op.starts_with("hs") {
                    out.stat(&format!("init_{}", o.split_whitespace().next().unwrap_or("?").split(':').next().unwrap_or("?")), 1);
                    if let Some(c) = o.split_whitespace().find_map(|w| w.strip_prefix("cls=")) {
                        out.stat(&format!("init_cls_{}", c), 1);
                    }
                }
                out.op(op, o)
            }
            None => out.op(
                op,
                match &end {
                    SimEnd::Done(Err(_)) => "script-err",
                    SimEnd::Timeout => "sim-timeout",
                    _ => "missing",
                },
            ),
        }
    }
}
