import Driver.C04

def main (args : List String) : IO UInt32 := do
  match args with
  | ["C04"] => Driver.C04.run
  | _ => do
    IO.eprintln "usage: vdriver <Cxx> < lines"
    return 2
