import RsMatterVerif.Lemmas.AdminGen
/-!
# Lemmas for C11: every element of the store history is the store at an operation boundary

`Node.hist` keeps the store after each effective mutation ("stop at any instant" = restart from an
element of `hist`).  On the committed projections - the fabric records and the networks - every
operation changes the store at most once (`One`), most not at all (`Quiet`); the one exception is
CommissioningComplete, which writes the fabric and then the networks.
-/
namespace Admin

/-- equal on the committed projections: fabric records and networks -/
def KV.Same (a b : KV) : Prop := (∀ i, kvF a i = kvF b i) ∧ a.nets = b.nets

theorem KV.Same.refl (a : KV) : KV.Same a a := ⟨fun _ => rfl, rfl⟩
theorem KV.Same.symm {a b : KV} (h : KV.Same a b) : KV.Same b a := ⟨fun i => (h.1 i).symm, h.2.symm⟩
theorem KV.Same.trans {a b c : KV} (h1 : KV.Same a b) (h2 : KV.Same b c) : KV.Same a c :=
  ⟨fun i => (h1.1 i).trans (h2.1 i), h1.2.trans h2.2⟩

theorem same_of_fabs_nets {a b : KV} (h1 : a.fabs = b.fabs) (h2 : a.nets = b.nets) : KV.Same a b :=
  ⟨fun i => by simp [kvF, h1], h2⟩

theorem same_putFabric {a b : KV} (f : Fabric) (h : KV.Same a b) : KV.Same (a.putFabric f) (b.putFabric f) :=
  ⟨fun i => by rw [kvF_putFabric, kvF_putFabric, h.1 i], by simp [KV.putFabric, h.2]⟩

/-- the store history grows (newest first) by `new`, all of whose elements have a property -/
def Grows (n n' : Node) (new : List KV) : Prop := n'.hist = new ++ n.hist

/-- **positional**: the projection does not change; the history only GROWS, by elements that equal
the old store on the projection -/
def Quiet (n n' : Node) : Prop :=
  KV.Same n'.kv n.kv ∧ ∃ new, n'.hist = new ++ n.hist ∧ ∀ kv ∈ new, KV.Same kv n.kv

/-- **positional**: the history only GROWS (newest first) by at most one element that equals the NEW
store (`a`), then - in the middle of a CommissioningComplete that performs two store mutations -
the elements `mid`, then elements that equal the OLD store (`bs`) -/
def Seg (n n' : Node) (mid : List KV) : Prop :=
  ∃ (a bs : List KV), n'.hist = a ++ (mid ++ (bs ++ n.hist)) ∧ a.length ≤ 1 ∧
    (∀ kv ∈ bs, KV.Same kv n.kv) ∧ (∀ kv ∈ a, KV.Same kv n'.kv) ∧
    (a = [] → mid = [] ∧ KV.Same n'.kv n.kv)

/-- at most one change of the projection, nothing in the middle -/
def One (n n' : Node) : Prop := Seg n n' []

theorem quiet_refl (n : Node) : Quiet n n := ⟨KV.Same.refl _, [], rfl, fun _ h => by cases h⟩

theorem quiet_of_eq {n n' : Node} (h1 : n'.kv = n.kv) (h2 : n'.hist = n.hist) : Quiet n n' :=
  ⟨by rw [h1]; exact KV.Same.refl _, [], by rw [h2]; rfl, fun _ h => by cases h⟩

theorem quiet_trans {a b c : Node} (h1 : Quiet a b) (h2 : Quiet b c) : Quiet a c := by
  obtain ⟨s1, n1, e1, p1⟩ := h1
  obtain ⟨s2, n2, e2, p2⟩ := h2
  refine ⟨s2.trans s1, n2 ++ n1, by rw [e2, e1, List.append_assoc], fun kv hk => ?_⟩
  rcases List.mem_append.mp hk with h | h
  · exact (p2 kv h).trans s1
  · exact p1 kv h

theorem seg_of_quiet {a b : Node} (h : Quiet a b) : One a b := by
  obtain ⟨hs, new, e, p⟩ := h
  exact ⟨[], new, (by rw [e]; rfl), (by simp), p, (fun _ h => by cases h), fun _ => ⟨rfl, hs⟩⟩

theorem one_of_quiet {a b : Node} (h : Quiet a b) : One a b := seg_of_quiet h

theorem quiet_seg {a b c : Node} {mid : List KV} (h1 : Quiet a b) (h2 : Seg b c mid) : Seg a c mid := by
  obtain ⟨s1, n1, e1, p1⟩ := h1
  obtain ⟨x, bs, e2, hx, pb, px, pe⟩ := h2
  refine ⟨x, bs ++ n1, by rw [e2, e1, List.append_assoc], hx, fun kv hk => ?_, px,
    fun ha => ⟨(pe ha).1, (pe ha).2.trans s1⟩⟩
  rcases List.mem_append.mp hk with h | h
  · exact (pb kv h).trans s1
  · exact p1 kv h

theorem quiet_one {a b c : Node} (h1 : Quiet a b) (h2 : One b c) : One a c := quiet_seg h1 h2

/-- the store and its history are left as they are after the change -/
theorem seg_eq {a b c : Node} {mid : List KV} (h1 : Seg a b mid) (hk : c.kv = b.kv) (hh : c.hist = b.hist) :
    Seg a c mid := by
  obtain ⟨x, bs, e, hx, pb, px, pe⟩ := h1
  exact ⟨x, bs, by rw [hh, e], hx, pb, fun kv h => by rw [hk]; exact px kv h,
    fun ha => ⟨(pe ha).1, by rw [hk]; exact (pe ha).2⟩⟩

theorem one_eq {a b c : Node} (h1 : One a b) (hk : c.kv = b.kv) (hh : c.hist = b.hist) : One a c :=
  seg_eq h1 hk hh

/-- the set-level reading: every element of the new history is old, or equals the old / the new
store on the projection, or is one of the elements in the middle -/
theorem seg_mem {n n' : Node} {mid : List KV} (h : Seg n n' mid) :
    ∀ kv ∈ n'.hist, kv ∈ n.hist ∨ KV.Same kv n.kv ∨ KV.Same kv n'.kv ∨ kv ∈ mid := by
  obtain ⟨x, bs, e, _, pb, px, _⟩ := h
  intro kv hk
  rw [e] at hk
  rcases List.mem_append.mp hk with h | h
  · exact Or.inr (Or.inr (Or.inl (px kv h)))
  · rcases List.mem_append.mp h with h | h
    · exact Or.inr (Or.inr (Or.inr h))
    · rcases List.mem_append.mp h with h | h
      · exact Or.inr (Or.inl (pb kv h))
      · exact Or.inl h

theorem one_mem {n n' : Node} (h : One n n') :
    ∀ kv ∈ n'.hist, kv ∈ n.hist ∨ KV.Same kv n.kv ∨ KV.Same kv n'.kv := by
  intro kv hk
  rcases seg_mem h kv hk with h | h | h | h
  · exact Or.inl h
  · exact Or.inr (Or.inl h)
  · exact Or.inr (Or.inr h)
  · cases h

theorem quiet_mem {n n' : Node} (h : Quiet n n') : ∀ kv ∈ n'.hist, kv ∈ n.hist ∨ KV.Same kv n.kv := by
  obtain ⟨_, new, e, p⟩ := h
  intro kv hk
  rw [e] at hk
  rcases List.mem_append.mp hk with h | h
  · exact Or.inr (p kv h)
  · exact Or.inl h

/-- one effective mutation: the new store is pushed on the history -/
theorem one_of_commit {n n' : Node} (hh : n'.hist = n'.kv :: n.hist) : One n n' := by
  refine ⟨[n'.kv], [], (by rw [hh]; rfl), (by simp), (fun _ h => by cases h), (fun kv h => ?_), (fun h => by simp at h)⟩
  rw [List.mem_singleton.mp h]; exact KV.Same.refl _

/-! ### the primitives -/

theorem storeFabric_one (n : Node) (f : Fabric) : One n (storeFabric n f).1 := by
  have ⟨_, hst⟩ := storeFabric_spec n f
  rcases hst with ⟨_, hkv, hh⟩ | ⟨_, hkv, hh⟩
  · exact one_of_commit (by rw [hh, hkv])
  · exact one_of_quiet (quiet_of_eq hkv hh)

theorem removeFabricKey_one (n : Node) (idx : Nat) : One n (removeFabricKey n idx).1 := by
  have ⟨_, _, _, hst⟩ := removeFabricKey_spec n idx
  rcases hst with ⟨_, _, ⟨hkv, hh⟩ | ⟨hkv, hh⟩⟩ | ⟨_, hkv, hh⟩
  · exact one_of_commit (by rw [hh, hkv])
  · exact one_of_quiet (quiet_of_eq hkv hh)
  · exact one_of_quiet (quiet_of_eq hkv hh)

theorem storeNets_one (n : Node) : One n (storeNets n).1 := by
  have ⟨_, hst⟩ := storeNets_spec n
  rcases hst with ⟨_, hkv, hh⟩ | ⟨_, hkv, hh⟩
  · exact one_of_commit (by rw [hh, hkv])
  · exact one_of_quiet (quiet_of_eq hkv hh)

theorem storeResum_quiet (n : Node) : Quiet n (storeResum n).1 := by
  have ⟨_, _, _, hst⟩ := storeResum_spec n
  rcases hst with ⟨_, hkv, hh, _⟩ | ⟨_, hkv, hh, _⟩
  · exact quiet_of_eq hkv hh
  · refine ⟨by rw [hkv]; exact same_of_fabs_nets rfl rfl, [(storeResum n).1.kv], by rw [hh, hkv]; rfl, fun kv hk => ?_⟩
    rw [List.mem_singleton.mp hk, hkv]
    exact same_of_fabs_nets rfl rfl

theorem purgeResum_quiet (n : Node) (idx : Nat) : Quiet n (purgeResum n idx).1 :=
  quiet_trans (quiet_of_eq (n' := { n with resum := n.resum.filter (fun r => r.fab ≠ idx) }) rfl rfl)
    (storeResum_quiet _)

theorem expireArmed_kv (cfg : Cfg) (n : Node) (a : Armed) (exp : Option Nat) :
    (expireArmed cfg n a exp).1.kv = n.kv ∧ (expireArmed cfg n a exp).1.hist = n.hist := by
  unfold expireArmed
  cases rollbackFabrics cfg n a <;> exact ⟨rfl, rfl⟩

theorem expireAndPurge_quiet (cfg : Cfg) (n : Node) (a : Armed) (exp : Option Nat) :
    Quiet n (expireAndPurge cfg n a exp).1 := by
  unfold expireAndPurge
  have ⟨h1, h2⟩ := expireArmed_kv cfg n a exp
  rcases hres : expireArmed cfg n a exp with ⟨n1, e, r⟩
  rw [hres] at h1 h2
  simp only at h1 h2
  cases e with
  | some e => exact quiet_of_eq h1 h2
  | none =>
    cases r with
    | none => exact quiet_of_eq h1 h2
    | some idx =>
      have hq := quiet_trans (quiet_of_eq h1 h2) (purgeResum_quiet n1 idx)
      rcases hp : purgeResum n1 idx with ⟨n2, b⟩
      rw [hp] at hq
      simp only [hp]
      cases b <;> exact hq

theorem expire_quiet (cfg : Cfg) (n : Node) (exp : Option Nat) : Quiet n (expire cfg n exp).1 := by
  unfold expire
  cases n.fs with
  | none => exact quiet_refl n
  | some a => exact expireAndPurge_quiet cfg n a exp

theorem windowTimeout_kv (n : Node) : (windowTimeout n).kv = n.kv ∧ (windowTimeout n).hist = n.hist := by
  unfold windowTimeout; split <;> (try split) <;> exact ⟨rfl, rfl⟩

theorem checkTimeouts_quiet (cfg : Cfg) (n : Node) (sid : Option Nat) : Quiet n (checkTimeouts cfg n sid).1 := by
  unfold checkTimeouts
  cases hfs : n.fs with
  | none => simp only []; exact quiet_of_eq (windowTimeout_kv n).1 (windowTimeout_kv n).2
  | some a =>
    simp only []
    by_cases ht : n.now ≥ a.armedAt + a.timeout
    · simp only [ht, if_true]
      have h1 := expireAndPurge_quiet cfg n a (expSid n sid)
      have heq : (expireAndPurgeLenient cfg n a (expSid n sid)).1 = (expireAndPurge cfg n a (expSid n sid)).1 := rfl
      cases he : (expireAndPurgeLenient cfg n a (expSid n sid)).2 with
      | some e => simp only []; rw [heq]; exact h1
      | none =>
        simp only []; rw [heq]
        exact quiet_trans h1 (quiet_of_eq (windowTimeout_kv _).1 (windowTimeout_kv _).2)
    · simp only [ht, if_false]; exact quiet_of_eq (windowTimeout_kv n).1 (windowTimeout_kv n).2


/-! ### the commands -/

theorem write_one (n : Node) (f f' : Fabric) :
    One n (if armedFor (setFabric n f') f.idx then ok (markDeferred (setFabric n f'))
      else match storeFabric (setFabric n f') f' with
        | (n, true) => ok n
        | (n, false) => (n, .err "NoSpace")).1 := by
  split
  · have ⟨_, _, _, m4, m5⟩ := markDeferred_fields (setFabric n f')
    exact one_of_quiet (quiet_of_eq (n' := markDeferred (setFabric n f')) m4 m5)
  · have h := storeFabric_one (setFabric n f') f'
    have h' : One n (storeFabric (setFabric n f') f').1 := quiet_one (quiet_of_eq rfl rfl) h
    rcases hst : storeFabric (setFabric n f') f' with ⟨n2, b⟩
    rw [hst] at h'
    cases b <;> exact h'

/-- `addNoc` (the command after the retry of a failed resumption-cache store) never touches the store -/
theorem addNoc_store_untouched (cfg : Cfg) (n : Node) (sid : Nat) (mode : Mode) (ca fid node subj ser : Nat) :
    (addNoc cfg n sid mode ca fid node subj ser).1.kv = n.kv ∧
    (addNoc cfg n sid mode ca fid node subj ser).1.hist = n.hist := by
  simp only [addNoc]
  repeat' split
  all_goals exact ⟨rfl, rfl⟩

/-- AddNOC writes no fabric / network key: at most the resumption blob (the retry of a failed store) -/
theorem sessOp_addnoc_quiet (cfg : Cfg) (n : Node) (sid s ca fid node subj ser : Nat) (mode : Mode) :
    Quiet n (sessOp cfg n sid mode (.addnoc s ca fid node subj ser)).1 := by
  simp only [sessOp]
  rcases retryResum_cases n with hr | hr
  · rw [hr]
    have := addNoc_store_untouched cfg n sid mode ca fid node subj ser
    exact quiet_of_eq this.1 this.2
  · rw [hr]
    have h1 := storeResum_quiet n
    rcases hst : storeResum n with ⟨n1, b⟩
    rw [hst] at h1
    cases b with
    | false => exact h1
    | true =>
      have := addNoc_store_untouched cfg n1 sid mode ca fid node subj ser
      exact quiet_trans h1 (quiet_of_eq this.1 this.2)

/-- the commands that never touch the store -/
theorem sessOp_store_untouched (cfg : Cfg) (n : Node) (sid : Nat) (mode : Mode) (op : Op)
    (hop : (∃ s u, op = .csr s u) ∨ (∃ s c, op = .root s c) ∨
           (∃ s nd r, op = .updnoc s nd r) ∨
           (∃ s v, op = .net s v) ∨ (∃ s v, op = .rmnet s v) ∨ (∃ s t, op = .arm s t ∧ t ≠ 0) ∨
           (∃ s v, op = .bcw s v) ∨ (∃ s, op = .openW s)) :
    (sessOp cfg n sid mode op).1.kv = n.kv ∧ (sessOp cfg n sid mode op).1.hist = n.hist := by
  rcases hop with ⟨s, u, rfl⟩ | ⟨s, c, rfl⟩ | ⟨s, nd, r, rfl⟩ | ⟨s, v, rfl⟩ | ⟨s, v, rfl⟩ |
    ⟨s, t, rfl, ht⟩ | ⟨s, v, rfl⟩ | ⟨s, rfl⟩
  all_goals simp only [sessOp]
  all_goals repeat' split
  all_goals first | exact ⟨rfl, rfl⟩ | (exfalso; omega) | exact windowTimeout_kv n | skip

/-- the session-borne commands that change the fabric / network keys of the store: the fabric-scoped
writes, RemoveFabric, CommissioningComplete -/
def storeOp : Op → Bool
  | .acl .. | .grp .. | .label .. | .fwrite _ | .vvs _ | .rmfab .. | .complete _ => true
  | _ => false

/-- every other session-borne command leaves the projection of the store alone -/
theorem sessOp_quiet (cfg : Cfg) (n : Node) (sid : Nat) (mode : Mode) (op : Op) (hq : storeOp op = false) :
    Quiet n (sessOp cfg n sid mode op).1 := by
  cases op with
  | openW s =>
    have := sessOp_store_untouched cfg n sid mode (.openW s) (by simp)
    exact quiet_of_eq this.1 this.2
  | arm s secs =>
    by_cases h0 : secs = 0
    · subst h0
      simp only [sessOp, if_true]
      have := expire_quiet cfg n (some sid)
      rcases hr : expire cfg n (some sid) with ⟨n1, e⟩
      rw [hr] at this
      cases e <;> exact this
    · have := sessOp_store_untouched cfg n sid mode (.arm s secs)
        (Or.inr (Or.inr (Or.inr (Or.inr (Or.inr (Or.inl ⟨s, secs, rfl, h0⟩))))))
      exact quiet_of_eq this.1 this.2
  | csr s upd =>
    have := sessOp_store_untouched cfg n sid mode (.csr s upd) (by simp)
    exact quiet_of_eq this.1 this.2
  | root s ca =>
    have := sessOp_store_untouched cfg n sid mode (.root s ca) (by simp)
    exact quiet_of_eq this.1 this.2
  | addnoc s ca fid node subj ser =>
    exact sessOp_addnoc_quiet cfg n sid s ca fid node subj ser mode
  | updnoc s node ser =>
    have := sessOp_store_untouched cfg n sid mode (.updnoc s node ser) (by simp)
    exact quiet_of_eq this.1 this.2
  | net s v =>
    have := sessOp_store_untouched cfg n sid mode (.net s v) (by simp)
    exact quiet_of_eq this.1 this.2
  | rmnet s v =>
    have := sessOp_store_untouched cfg n sid mode (.rmnet s v) (by simp)
    exact quiet_of_eq this.1 this.2
  | bcw s v =>
    have := sessOp_store_untouched cfg n sid mode (.bcw s v) (by simp)
    exact quiet_of_eq this.1 this.2
  | revoke s =>
    simp only [sessOp]
    have := expire_quiet cfg n (some sid)
    rcases hr : expire cfg n (some sid) with ⟨n1, e⟩
    rw [hr] at this
    cases e with
    | some e => exact this
    | none => exact quiet_trans this (quiet_of_eq rfl rfl)
  | acl s v => simp [storeOp] at hq
  | grp s v => simp [storeOp] at hq
  | label s v => simp [storeOp] at hq
  | fwrite s => simp [storeOp] at hq
  | vvs s => simp [storeOp] at hq
  | rmfab s idx => simp [storeOp] at hq
  | complete s => simp [storeOp] at hq
  | _ => exact quiet_refl n

theorem sessOp_one (cfg : Cfg) (n : Node) (sid : Nat) (mode : Mode) (op : Op) (hnc : ∀ s, op ≠ .complete s) :
    One n (sessOp cfg n sid mode op).1 := by
  by_cases hso : storeOp op = false
  · exact one_of_quiet (sessOp_quiet cfg n sid mode op hso)
  cases op with
  | acl s v =>
    simp only [sessOp]
    split
    · exact one_of_quiet (quiet_refl n)
    · cases hg : getFabric n mode.fab with
      | none => exact one_of_quiet (quiet_refl n)
      | some f =>
        simp only []
        split
        · exact one_of_quiet (quiet_refl n)
        · exact write_one n f { f with acl := f.acl ++ [v] }
  | grp s v =>
    simp only [sessOp]
    split
    · exact one_of_quiet (quiet_refl n)
    · cases hg : getFabric n mode.fab with
      | none => exact one_of_quiet (quiet_refl n)
      | some f =>
        simp only []
        split
        · exact one_of_quiet (quiet_refl n)
        · exact write_one n f (if f.grp.contains v then f else { f with grp := f.grp ++ [v] })
  | label s v =>
    simp only [sessOp]
    split
    · exact one_of_quiet (quiet_refl n)
    · split
      · exact one_of_quiet (quiet_refl n)
      · cases hg : getFabric n mode.fab with
        | none => exact one_of_quiet (quiet_refl n)
        | some f => exact write_one n f { f with label := v }
  | fwrite s =>
    simp only [sessOp]
    split
    · exact one_of_quiet (quiet_refl n)
    · cases hg : getFabric n mode.fab with
      | none => exact one_of_quiet (quiet_refl n)
      | some f => exact write_one n f f
  | vvs s =>
    simp only [sessOp]
    split
    · exact one_of_quiet (quiet_refl n)
    · cases hg : getFabric n mode.fab with
      | none => exact one_of_quiet (quiet_refl n)
      | some f =>
        simp only []
        split
        · exact one_of_quiet (quiet_refl n)
        · have h := storeFabric_one n f
          rcases hst : storeFabric n f with ⟨n2, b⟩
          rw [hst] at h
          cases b <;> exact h
  | complete s => exact absurd rfl (hnc s)
  | rmfab s idx =>
    simp only [sessOp]
    split
    · exact one_of_quiet (quiet_refl n)
    · split
      · have hq := purgeResum_quiet n idx
        rcases hp : purgeResum n idx with ⟨n2, b⟩
        rw [hp] at hq
        simp only at hq
        cases b with
        | false => exact one_of_quiet hq
        | true =>
          simp only []
          have ho := quiet_one hq (removeFabricKey_one n2 idx)
          rcases hrk : removeFabricKey n2 idx with ⟨n3, b3⟩
          rw [hrk] at ho
          simp only at ho
          cases b3 with
          | false => exact ho
          | true => exact one_eq ho rfl rfl
      · exact one_of_quiet (quiet_refl n)
  | _ => simp [storeOp] at hso

/-- the undo of the first write of a failed CommissioningComplete: nothing, or one removal -/
theorem undoAdded_hist (n : Node) (idx : Nat) :
    ((undoAdded n idx).kv = n.kv ∧ (undoAdded n idx).hist = n.hist) ∨
    ((undoAdded n idx).kv = n.kv.delFabric idx ∧ (undoAdded n idx).hist = n.kv.delFabric idx :: n.hist) := by
  unfold undoAdded
  split
  · have ⟨_, _, _, hst⟩ := removeFabricKey_spec n idx
    rcases hst with ⟨_, _, ⟨hkv, hh⟩ | ⟨hkv, hh⟩⟩ | ⟨_, hkv, hh⟩
    · exact Or.inr ⟨hkv, hh⟩
    · exact Or.inl ⟨hkv, hh⟩
    · exact Or.inl ⟨hkv, hh⟩
  · exact Or.inl ⟨rfl, rfl⟩

theorem undoAdded_one (n : Node) (idx : Nat) : One n (undoAdded n idx) := by
  rcases undoAdded_hist n idx with ⟨hkv, hh⟩ | ⟨hkv, hh⟩
  · exact one_of_quiet (quiet_of_eq hkv hh)
  · exact one_of_commit (by rw [hh, hkv])

/-! ### the undo of a half-done CommissioningComplete -/

theorem kvTick_bad_failIn (n : Node) (h : (kvTick n).2 = true) : (kvTick n).1.failIn = 0 := by
  unfold kvTick at h ⊢
  split
  · rename_i h0; simp [h0] at h
  · split
    · rfl
    · rename_i h0 h1; simp [h0, h1] at h

theorem storeNets_fail_failIn (n : Node) (h : (storeNets n).2 = false) : (storeNets n).1.failIn = 0 := by
  have hb := kvTick_bad_failIn n
  unfold storeNets at h ⊢
  rcases ht : kvTick n with ⟨n1, bad⟩
  rw [ht] at hb
  simp only [ht] at h ⊢
  cases bad with
  | true => exact hb rfl
  | false => simp at h

theorem removeFabricKey_calm {n : Node} (idx : Nat) (h : n.failIn = 0) :
    removeFabricKey n idx = (if n.kv.hasFabric idx then kvCommit n (n.kv.delFabric idx) else n, true) := by
  have hk : kvTick n = (n, false) := by simp [kvTick, h]
  simp only [removeFabricKey, hk]
  by_cases hf : n.kv.hasFabric idx = true <;> simp [hf]

/-- **The repaired half of `C08-complete-partial-commit` / `C11-complete-store-failure`**: a
CommissioningComplete for a fabric ADDED under the fail-safe (it has no stored record) that is not
acknowledged - whichever of its two writes fails - leaves the store, on the fabric records and the
networks, exactly as it was: when the networks cannot be stored, the fabric record just written is
removed again. (An injected fault hits one call, so the removal itself does not fail.) -/
theorem failed_complete_of_added_fabric_undone (cfg : Cfg) (n : Node) (sid s : Nat) (mode : Mode) (a : Armed)
    (hfs : n.fs = some a) (hadd : a.flags.addNoc = true) (hnone : kvF n.kv mode.fab = none)
    (hfail : (sessOp cfg n sid mode (.complete s)).2 ≠ .ok) :
    KV.Same (sessOp cfg n sid mode (.complete s)).1.kv n.kv := by
  simp only [sessOp] at hfail ⊢
  cases hca : checkArmed n mode with
  | some e => exact KV.Same.refl _
  | none =>
    have hab : a.fab = mode.fab := by
      unfold checkArmed at hca
      rw [hfs] at hca
      by_cases hh : a.fab = mode.fab
      · exact hh
      · simp [hh] at hca
    rw [hca] at hfail
    simp only [] at hfail ⊢
    split
    · exact KV.Same.refl _
    · rename_i hcase
      simp only [hcase, if_false] at hfail
      cases hg : getFabric n mode.fab with
      | none => exact KV.Same.refl _
      | some f =>
        have hidx := getFabric_idx hg
        rw [hg] at hfail
        simp only [] at hfail ⊢
        have ⟨hfr1, hst1⟩ := storeFabric_spec n f
        rcases hr1 : storeFabric n f with ⟨n1, b1⟩
        rw [hr1] at hfr1 hst1 hfail
        simp only at hfr1 hst1 hfail
        rcases hst1 with ⟨hb1, hkv1, _⟩ | ⟨hb1, hkv1, _⟩
        · subst hb1
          simp only [] at hfail ⊢
          have ⟨hfr2, hst2⟩ := storeNets_spec { n1 with managed := true }
          have hfi := storeNets_fail_failIn { n1 with managed := true }
          rcases hr2 : storeNets { n1 with managed := true } with ⟨n2, b2⟩
          rw [hr2] at hfr2 hst2 hfail hfi
          simp only at hfr2 hst2 hfail hfi
          cases b2 with
          | true => simp [ok] at hfail
          | false =>
            simp only []
            rcases hst2 with ⟨hb, _⟩ | ⟨_, hkv2, _⟩
            · cases hb
            · have hkv2' : n2.kv = n.kv.putFabric f := by rw [hkv2]; exact hkv1
              have hfs2 : n2.fs = some a := by rw [hfr2.fs]; exact hfr1.fs.trans hfs
              have hadding : addingFabric { n2 with managed := n1.managed } f.idx = true := by
                unfold addingFabric
                simp only [hfs2, hab, hidx, hadd, beq_self_eq_true, Bool.and_self]
              unfold undoAdded
              have hfi' : ({ n2 with managed := n1.managed } : Node).failIn = 0 := hfi rfl
              rw [if_pos hadding, removeFabricKey_calm f.idx hfi']
              have hhas : ({ n2 with managed := n1.managed } : Node).kv.hasFabric f.idx = true := by
                show n2.kv.hasFabric f.idx = true
                rw [hkv2']
                simp [KV.hasFabric, KV.putFabric]
              rw [if_pos hhas]
              refine ⟨fun i => ?_, ?_⟩
              · show kvF (n2.kv.delFabric f.idx) i = kvF n.kv i
                rw [kvF_delFabric, hkv2', kvF_putFabric]
                by_cases hi : i = f.idx
                · rw [if_pos hi, hi, hidx, hnone]
                · rw [if_neg hi, if_neg hi]
              · show (n2.kv.delFabric f.idx).nets = n.kv.nets
                rw [hkv2']; rfl
        · subst hb1
          simp only []
          rw [hkv1]; exact KV.Same.refl _

/-- CommissioningComplete: the fabric, then the networks.  Either it changes the projection at most
once (no store mutation, one, or the first write failed), or it performs TWO store mutations - the
fabric record and the networks, or (the networks cannot be stored) the record of a fabric added under
the fail-safe and its removal: the store between them is the store before with the record written -/
theorem sessOp_complete_seg (cfg : Cfg) (n : Node) (sid s : Nat) (mode : Mode) :
    One n (sessOp cfg n sid mode (.complete s)).1 ∨
    ∃ f, getFabric n mode.fab = some f ∧ Seg n (sessOp cfg n sid mode (.complete s)).1 [n.kv.putFabric f] ∧
      n.hist.length + 2 = (sessOp cfg n sid mode (.complete s)).1.hist.length := by
  simp only [sessOp]
  split
  · exact Or.inl (one_of_quiet (quiet_refl n))
  · split
    · exact Or.inl (one_of_quiet (quiet_refl n))
    · cases hg : getFabric n mode.fab with
      | none => exact Or.inl (one_of_quiet (quiet_refl n))
      | some f =>
        simp only []
        have ⟨_, hst1⟩ := storeFabric_spec n f
        rcases hr1 : storeFabric n f with ⟨n1, b1⟩
        rw [hr1] at hst1
        simp only at hst1
        rcases hst1 with ⟨hb1, hkv1, hh1⟩ | ⟨hb1, hkv1, hh1⟩
        · subst hb1
          simp only []
          have ⟨_, hst2⟩ := storeNets_spec { n1 with managed := true }
          rcases hr2 : storeNets { n1 with managed := true } with ⟨n2, b2⟩
          rw [hr2] at hst2
          simp only at hst2
          have hh1' : ({ n1 with managed := true } : Node).hist = n.kv.putFabric f :: n.hist := hh1
          have hkv1' : ({ n1 with managed := true } : Node).kv = n.kv.putFabric f := hkv1
          cases b2 with
          | true =>
            rcases hst2 with ⟨_, hkv2, hh2⟩ | ⟨hb, _⟩
            · refine Or.inr ⟨f, rfl, ⟨[n2.kv], [], ?_, (by simp), (fun _ h => by cases h), (fun kv h => ?_), (fun h => by simp at h)⟩, ?_⟩
              · simp only [ok]; rw [hh2, hh1', hkv2]; rfl
              · simp only [ok]; rw [List.mem_singleton.mp h]; exact KV.Same.refl _
              · simp only [ok]; rw [hh2, hh1']; simp
            · cases hb
          | false =>
            simp only []
            rcases hst2 with ⟨hb, _⟩ | ⟨_, hkv2, hh2⟩
            · cases hb
            · rcases undoAdded_hist { n2 with managed := n1.managed } f.idx with ⟨hk0, hh0⟩ | ⟨hk0, hh0⟩
              · refine Or.inl (one_of_commit ?_)
                rw [hh0, hk0]
                show n2.hist = n2.kv :: n.hist
                rw [hh2, hkv2, hh1', hkv1']
              · refine Or.inr ⟨f, rfl, ⟨[(undoAdded { n2 with managed := n1.managed } f.idx).kv], [], ?_, (by simp),
                  (fun _ h => by cases h), (fun kv h => ?_), (fun h => by simp at h)⟩, ?_⟩
                · rw [hh0, hk0]
                  show n2.kv.delFabric f.idx :: n2.hist = _
                  rw [hh2, hh1']; rfl
                · rw [List.mem_singleton.mp h]; exact KV.Same.refl _
                · rw [hh0]
                  show n.hist.length + 2 = (n2.hist).length + 1
                  rw [hh2, hh1']; simp
        · subst hb1
          simp only []
          exact Or.inl (one_of_quiet (quiet_of_eq hkv1 hh1))

/-! ### the whole step -/

/-- a restart: the projection of the store it starts from, and the history grows by elements equal to it -/
theorem restartFrom_grow (n : Node) (kv : KV) (hist : List KV) :
    KV.Same (restartFrom n kv hist).kv kv ∧
    ∃ new, (restartFrom n kv hist).hist = new ++ hist ∧ ∀ x ∈ new, KV.Same x kv := by
  unfold restartFrom
  cases hr : kv.resum <;> simp only [] <;> (try split) <;>
    first
      | exact ⟨same_of_fabs_nets triv triv, [], rfl, fun _ h => by cases h⟩
      | exact ⟨same_of_fabs_nets triv triv, [_], rfl, fun x hx => by
          rw [List.mem_singleton.mp hx]; exact same_of_fabs_nets triv triv⟩
      | exact ⟨same_of_fabs_nets triv triv, [_, _], rfl, fun x hx => by
          simp only [List.mem_cons, List.not_mem_nil, or_false] at hx
          rcases hx with rfl | rfl <;> exact same_of_fabs_nets triv triv⟩

theorem restartFrom_snaps (n : Node) (kv : KV) (hist : List KV) :
    KV.Same (restartFrom n kv hist).kv kv ∧
    ∀ x ∈ (restartFrom n kv hist).hist, x ∈ hist ∨ KV.Same x kv := by
  have ⟨h1, new, e, p⟩ := restartFrom_grow n kv hist
  refine ⟨h1, fun x hx => ?_⟩
  rw [e] at hx
  rcases List.mem_append.mp hx with h | h
  · exact Or.inr (p x h)
  · exact Or.inl h

/-- the operations after which the store history is not an extension of the one before: a crash
restarts from an earlier store (the later history never happened), the reset-before-start-up and the
recovery from a damaged fabric blob start a new store history -/
def rewinds : Op → Bool
  | .crash _ | .coldreset | .fabrecover _ => true
  | _ => false

/-- the CommissioningComplete `op` issued in state `n` performs two store mutations -/
def twoWriteComplete (cfg : Cfg) (n : Node) (op : Op) : Prop :=
  ∃ s, op = .complete s ∧ (checkTimeouts cfg n (some s)).1.hist.length + 2 ≤ (step cfg n op).1.hist.length

/-- the operations that do not arrive over a session and do not rewind the store history leave the
projection of the store alone -/
theorem step_nosess_quiet (cfg : Cfg) (n : Node) (op : Op) (hso : isSessOp op = none) (hop : op ≠ .freset)
    (hrw : rewinds op = false) : Quiet n (step cfg n op).1 := by
  cases op with
  | boot => simp only [step, isSessOp]; split <;> exact quiet_of_eq rfl rfl
  | pase =>
    simp only [step, isSessOp]
    split
    · exact quiet_refl n
    · have ⟨_, _, hk, hh, _⟩ := addSess_fields cfg n (.pase 0) 0 0
      rcases hr : addSess cfg n (.pase 0) 0 0 with ⟨n1, o⟩
      rw [hr] at hk hh
      cases o <;> exact quiet_of_eq hk hh
  | caseEst fab node rid =>
    simp only [step, isSessOp]
    split
    · exact quiet_refl n
    · rename_i f _
      have ⟨_, _, hk, hh, _⟩ := addSess_fields cfg n (.case fab) node f.gen
      rcases hr : addSess cfg n (.case fab) node f.gen with ⟨n1, o⟩
      rw [hr] at hk hh
      cases o <;> exact quiet_of_eq hk hh
  | hs fab node rid =>
    simp only [step, isSessOp]
    split
    · exact quiet_refl n
    · rename_i f _
      have ⟨_, _, hk, hh, _⟩ := addSess_fields cfg n (.case fab) node f.gen
      rcases hr : addSess cfg n (.case fab) node f.gen with ⟨n1, o⟩
      rw [hr] at hk hh
      cases o <;> exact quiet_of_eq hk hh
  | hsdone sid =>
    simp only [step, isSessOp]
    split <;> exact quiet_of_eq rfl rfl
  | sdrop sid =>
    simp only [step, isSessOp]
    split <;> exact quiet_of_eq rfl rfl
  | resume rid newRid =>
    simp only [step, isSessOp]
    split
    · exact quiet_refl n
    · rename_i r _
      split
      · exact quiet_refl n
      · have ⟨_, _, hk, hh, _⟩ := addSess_fields cfg n (.case r.fab) r.peer r.gen
        rcases hr : addSess cfg n (.case r.fab) r.peer r.gen with ⟨n1, o⟩
        rw [hr] at hk hh
        cases o <;> exact quiet_of_eq hk hh
  | tick secs => exact quiet_of_eq rfl rfl
  | poll =>
    simp only [step, isSessOp]
    have := checkTimeouts_quiet cfg n none
    rcases hr : checkTimeouts cfg n none with ⟨n1, e⟩
    rw [hr] at this
    cases e <;> exact this
  | flush =>
    simp only [step, isSessOp]
    have h1 := storeResum_quiet n
    rcases hst : storeResum n with ⟨n1, b⟩
    rw [hst] at h1
    cases b <;> exact h1
  | restart =>
    simp only [step, isSessOp, ok]
    have ⟨h1, h2⟩ := restartFrom_grow n n.kv n.hist
    exact ⟨h1, h2⟩
  | corrupt =>
    simp only [step, isSessOp, ok]
    have ⟨h1, new, e, p⟩ := restartFrom_grow n { n.kv with resum := .garbage } ({ n.kv with resum := .garbage } :: n.hist)
    refine ⟨h1.trans (same_of_fabs_nets rfl rfl), new ++ [{ n.kv with resum := .garbage }], ?_, fun kv hk => ?_⟩
    · rw [e]; simp
    · rcases List.mem_append.mp hk with h | h
      · exact (p kv h).trans (same_of_fabs_nets rfl rfl)
      · rw [List.mem_singleton.mp h]; exact same_of_fabs_nets rfl rfl
  | kvfail k => exact quiet_of_eq rfl rfl
  | nop => exact quiet_refl n
  | crash k => simp [rewinds] at hrw
  | coldreset => simp [rewinds] at hrw
  | fabrecover i => simp [rewinds] at hrw
  | freset => exact absurd rfl hop
  | _ => simp [isSessOp] at hso


/-- **What one operation adds to the store history, in order** (every operation that does not rewind
it, factory reset excluded): the history GROWS, newest first, by at most one element equal to the new
store, then - only for a CommissioningComplete that performs two store mutations - the store between
them (the store before with one fabric record written), then elements equal to the old store -/
theorem step_seg (cfg : Cfg) (n : Node) (op : Op) (hop : op ≠ .freset) (hrw : rewinds op = false) :
    ∃ mid, Seg n (step cfg n op).1 mid ∧
      (mid = [] ∨ (twoWriteComplete cfg n op ∧
        ∃ s f s1, op = .complete s ∧ getSess (checkTimeouts cfg n (some s)).1 s = some s1 ∧
          getFabric (checkTimeouts cfg n (some s)).1 s1.mode.fab = some f ∧
          mid = [(checkTimeouts cfg n (some s)).1.kv.putFabric f])) := by
  cases hso : isSessOp op with
  | some sid =>
    have hq := checkTimeouts_quiet cfg n (some sid)
    rcases step_sess cfg n op sid hso with e | e | ⟨s1, hg1, e⟩
    · exact ⟨[], by rw [e]; exact one_of_quiet (quiet_refl n), Or.inl rfl⟩
    · exact ⟨[], by rw [e]; exact one_of_quiet hq, Or.inl rfl⟩
    · by_cases hc : ∃ s, op = .complete s
      · obtain ⟨s, rfl⟩ := hc
        have hsid : sid = s := by simpa [isSessOp] using hso.symm
        subst hsid
        rcases sessOp_complete_seg cfg (checkTimeouts cfg n (some sid)).1 sid sid s1.mode with h | ⟨f, hgf, h, hlen⟩
        · exact ⟨[], by rw [e]; exact quiet_one hq h, Or.inl rfl⟩
        · refine ⟨_, by rw [e]; exact quiet_seg hq h, Or.inr ⟨⟨sid, rfl, ?_⟩, sid, f, s1, rfl, hg1, hgf, rfl⟩⟩
          rw [e, ← hlen]; exact Nat.le_refl _
      · refine ⟨[], ?_, Or.inl rfl⟩
        rw [e]
        exact quiet_one hq (sessOp_one cfg _ sid s1.mode op (fun s hs => hc ⟨s, hs⟩))
  | none => exact ⟨[], one_of_quiet (step_nosess_quiet cfg n op hso hop hrw), Or.inl rfl⟩

/-- what one operation adds to the store history (set-level) -/
def StepSnaps (cfg : Cfg) (n : Node) (op : Op) : Prop :=
  ∀ kv ∈ (step cfg n op).1.hist,
    kv ∈ n.hist ∨ KV.Same kv n.kv ∨ KV.Same kv (step cfg n op).1.kv ∨
    (∃ s, op = .complete s ∧
      (∃ f s1, getSess (checkTimeouts cfg n (some s)).1 s = some s1 ∧
        getFabric (checkTimeouts cfg n (some s)).1 s1.mode.fab = some f ∧ KV.Same kv (n.kv.putFabric f)) ∧
      (checkTimeouts cfg n (some s)).1.hist.length + 2 ≤ (step cfg n op).1.hist.length)

theorem step_snaps (cfg : Cfg) (n : Node) (op : Op) (hop : op ≠ .freset) : StepSnaps cfg n op := by
  by_cases hrw : rewinds op = false
  · obtain ⟨mid, hseg, hmid⟩ := step_seg cfg n op hop hrw
    intro kv hk
    rcases seg_mem hseg kv hk with h | h | h | h
    · exact Or.inl h
    · exact Or.inr (Or.inl h)
    · exact Or.inr (Or.inr (Or.inl h))
    · rcases hmid with rfl | ⟨⟨s, rfl, hlen⟩, s', f, s1, hs', hg1, hgf, rfl⟩
      · cases h
      · injection hs' with hs'
        subst hs'
        refine Or.inr (Or.inr (Or.inr ⟨s, rfl, ⟨f, s1, hg1, hgf, ?_⟩, hlen⟩))
        rw [List.mem_singleton.mp h]
        have hq := checkTimeouts_quiet cfg n (some s)
        exact same_putFabric f hq.1
  · intro kv hk
    cases op with
    | crash k =>
      simp only [step, isSessOp, ok] at hk ⊢
      cases hd : List.drop (n.hist.length - min k n.hist.length) n.hist with
      | nil =>
        rw [hd] at hk
        have ⟨h1, h2⟩ := restartFrom_snaps n {} []
        rcases h2 kv hk with h | h
        · cases h
        · exact Or.inr (Or.inr (Or.inl (h.trans h1.symm)))
      | cons kv0 rest =>
        rw [hd] at hk
        have ⟨h1, h2⟩ := restartFrom_snaps n kv0 (kv0 :: rest)
        rcases h2 kv hk with h | h
        · left
          have : kv ∈ List.drop (n.hist.length - min k n.hist.length) n.hist := by rw [hd]; exact h
          exact List.mem_of_mem_drop this
        · exact Or.inr (Or.inr (Or.inl (h.trans h1.symm)))
    | coldreset => simp only [step, isSessOp, ok] at hk; cases hk
    | fabrecover i => simp only [step, isSessOp, ok] at hk; cases hk
    | _ => simp [rewinds] at hrw

end Admin
