import RsMatterVerif.Model.Codec.PlainHdr
import RsMatterVerif.Model.Codec.ProtoHdr
import RsMatterVerif.Model.Codec.StatusReport
import RsMatterVerif.Model.Codec.Bdx
/-!
# Level-0 models of the decoders that run on a `ReadBuf` / `ParseBuf`

`Model/Codec/{PlainHdr,ProtoHdr,StatusReport,Bdx}.lean` are *level-1* models: they read from the list of
remaining bytes (`Rd.*`), which has no failing index at all. This file transliterates the same Rust
functions once more over the *level-0* cursor model `RBuf` of `Model/Codec/Buf.lean`, in which every
slice / index / `usize` subtraction of `parsebuf.rs` is a checked operation answering `Err.panic` when
Rust would panic, **and** in which the direct index expressions of `bdx.rs` that are *not* `ReadBuf`
primitives are checked as well:

* `TransferInit::parse`:   `payload.get(off..end)` (an `Option`: `TruncatedPacket` when out of range) and
  `&payload[end..]` (a panicking index);
* `TransferAccept::parse`: `&payload[rb.read_off()..]`;
* `Block::parse`:          `&payload[rb.read_off()..]`.

`Lemmas/CodecLevel0.lean` proves, for arbitrary input, that each level-0 decoder never answers
`Err.panic` and equals the level-1 decoder on the remaining bytes (the per-primitive refinement of
`Lemmas/CodecBuf.lean` lifted to whole decoders).

The BTP header / handshake decoders (`btp/session/packet.rs`) are not here on purpose: they read from an
`Iterator<Item = u8>` with `next().ok_or(..)?` only and contain no index, slice, subtraction or `unwrap`
at all, so `Model/Codec/BtpHdr.lean` (`next` on a list) already is their level-0 model.
-/
namespace Codec

/-- `usize::MAX + 1` of the 64-bit targets the harness runs on (`checked_add`) -/
def USIZE : Nat := 18446744073709551616

namespace PlainHdr

/-- `PlainHdr::decode(&mut self, msg: &mut ParseBuf)`, statement by statement, on the cursor model -/
def decode0 (h : Hdr) (b : RBuf) : Except Err (Hdr × RBuf) := do
  let (f, b) ← b.leU8
  let flags ← fromBits MSG_FLAGS_ALL f
  let (sid, b) ← b.leU16
  let (sf, b) ← b.leU8
  let secFlags ← fromBits SEC_FLAGS_ALL sf
  let (ctr, b) ← b.leU32
  let h := { h with flags := flags, sessId := sid, secFlags := secFlags, ctr := ctr }
  let (h, b) ← if contains flags SRC_ADDR_PRESENT then do
      let (s, b) ← b.leU64
      pure ({ h with src := s }, b)
    else pure (h, b)
  if !(contains flags DSIZ_MASK) then
    if contains flags DSIZ_UNICAST then do
      let (d, b) ← b.leU64
      pure ({ h with dst := d }, b)
    else if contains flags DSIZ_GROUPCAST then do
      let (d, b) ← b.leU16
      pure ({ h with dst := d }, b)
    else pure (h, b)
  else pure (h, b)

end PlainHdr

namespace ProtoHdr

/-- `ProtoHdr::decrypt_and_decode` without a key (the decoding part), on the cursor model — up to the two `trace!` lines
at its end; the second one, `trace!("[rx payload]: {}", Bytes(parsebuf.as_slice()))`, evaluates the checked slice
`as_slice()` (when trace logging is enabled): that step is `decode0Traced` below -/
def decode0 (h : Hdr) (b : RBuf) : Except Err (Hdr × RBuf) := do
  let (f, b) ← b.leU8
  let flags ← fromBits EXCH_FLAGS_ALL f
  let (op, b) ← b.leU8
  let (eid, b) ← b.leU16
  let (pid, b) ← b.leU16
  let h := { h with flags := flags, opcode := op, exchId := eid, protoId := pid }
  let (h, b) ← if contains flags VENDOR then do
      let (v, b) ← b.leU16
      pure ({ h with vendorId := v }, b)
    else pure (h, b)
  if contains flags ACK then do
    let (a, b) ← b.leU32
    pure ({ h with ackCtr := a }, b)
  else pure (h, b)

/-- `decode0` followed by the `parsebuf.as_slice()` of the final `trace!` (its value is only printed) -/
def decode0Traced (h : Hdr) (b : RBuf) : Except Err (Hdr × RBuf) := do
  let (h', b') ← decode0 h b
  let _ ← b'.asSlice
  pure (h', b')

end ProtoHdr

namespace StatusReport

/-- `StatusReport::read(pb)`: `le_u16`, `from_u16`, `le_u32`, `le_u16`, `pb.as_slice()` (a checked slice) -/
def read0 (b : RBuf) : Except Err Report := do
  let (g, b) ← b.leU16
  if g > GENERAL_CODE_MAX then .error .invalidOpcode else
  let (pid, b) ← b.leU32
  let (pc, b) ← b.leU16
  let data ← b.asSlice
  pure { general := g, protoId := pid, protoCode := pc, data := data }

end StatusReport

namespace Bdx

/-- `if wide { rb.le_u64()? } else { rb.le_u32()? as u64 }` -/
def rdRange0 (wide : Bool) (b : RBuf) : Except Err (Nat × RBuf) :=
  if wide then b.leU64 else b.leU32

/-- `payload.get(a..b)`: `None` when out of range (never a panic) -/
def getRange (d : List Nat) (a b : Nat) : Option (List Nat) :=
  if a ≤ b ∧ b ≤ d.length then some ((d.drop a).take (b - a)) else none

/-- the variable-length tail of `TransferInit::parse`, the three direct accesses to `payload`:
`off.checked_add(fdl)` (→ `TruncatedPacket` on `usize` overflow), `payload.get(off..end)`
(→ `TruncatedPacket` when out of range), `&payload[end..]` (checked: `Err.panic` when `end > payload.len()`).
Returns (file designator, metadata). -/
def TransferInit.tail0 (payload : List Nat) (off fdl : Nat) : Except Err (List Nat × List Nat) :=
  if off + fdl < USIZE then
    match getRange payload off (off + fdl) with
    | none => .error .truncated
    | some fd => do
      let md ← RBuf.slice payload (off + fdl) payload.length
      pure (fd, md)
  else .error .truncated

/-- `TransferInit::parse(payload)` -/
def TransferInit.parse0 (payload : List Nat) : Except Err TransferInit := do
  let b := RBuf.new payload
  let (tcb, b) ← b.leU8
  let (rcb, b) ← b.leU8
  let rc := RangeControl.fromByte rcb
  let (mbs, b) ← b.leU16
  let (so, b) ← if rc.startOffset then rdRange0 rc.wideRange b else pure (0, b)
  let (len, b) ← if rc.defLen then rdRange0 rc.wideRange b else pure (0, b)
  let (fdl, b) ← b.leU16
  let (fd, md) ← TransferInit.tail0 payload b.off fdl
  pure { tc := TransferControl.fromByte tcb, rc := rc, maxBlockSize := mbs, startOffset := so, length := len
         fileDesignator := fd, metadata := md }

/-- `TransferAccept::parse(receive, payload)`; the metadata is `&payload[rb.read_off()..]` (checked) -/
def TransferAccept.parse0 (receive : Bool) (payload : List Nat) : Except Err TransferAccept := do
  let b := RBuf.new payload
  let (tcb, b) ← b.leU8
  let tc := TransferControl.fromByte tcb
  if receive then do
    let (rcb, b) ← b.leU8
    let rc := RangeControl.fromByte rcb
    let (mbs, b) ← b.leU16
    let (len, b) ← if rc.defLen then rdRange0 rc.wideRange b else pure (0, b)
    let md ← RBuf.slice payload b.off payload.length
    pure { receive := receive, tc := tc, rc := rc, maxBlockSize := mbs, length := len, metadata := md }
  else do
    let (mbs, b) ← b.leU16
    let md ← RBuf.slice payload b.off payload.length
    pure { receive := receive, tc := tc, rc := {}, maxBlockSize := mbs, length := 0, metadata := md }

/-- `Block::parse(payload)`; the data is `&payload[rb.read_off()..]` (checked) -/
def Block.parse0 (payload : List Nat) : Except Err Block := do
  let b := RBuf.new payload
  let (c, b) ← b.leU32
  let data ← RBuf.slice payload b.off payload.length
  pure { counter := c, data := data }

/-- `BlockQuery::parse` -/
def blockQueryParse0 (payload : List Nat) : Except Err Nat := do
  let (c, _) ← (RBuf.new payload).leU32
  pure c

/-- `BlockQueryWithSkip::parse` -/
def blockQuerySkipParse0 (payload : List Nat) : Except Err (Nat × Nat) := do
  let (c, b) ← (RBuf.new payload).leU32
  let (s, _) ← b.leU64
  pure (c, s)

end Bdx
end Codec
