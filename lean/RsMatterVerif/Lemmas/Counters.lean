import RsMatterVerif.Model.Counters
/-!
# Lemmas for C12: ghost positions of the three durable counters

Each machine of `Model/Counters.lean` gets a *ghost* record of unbounded positions (`Nat`) that is
advanced next to the real state; the invariant says that every cyclic value of the real state is
the image of its position (`value = val position`) and states the safety facts as plain
inequalities between positions.  The property theorems (`Props/C12.lean`) are read off the
invariant; distinctness of the cyclic *values* then needs only that `val` is injective on every
window shorter than one cycle of the range.
-/
namespace Counters

/-! ## list helpers (core only) -/

theorem eraseIdx_map {α β : Type} (f : α → β) :
    ∀ (l : List α) (i : Nat), (l.map f).eraseIdx i = (l.eraseIdx i).map f
  | [], _ => by simp
  | _ :: _, 0 => by simp
  | a :: l, i + 1 => by simp [eraseIdx_map f l i]

theorem mem_of_mem_eraseIdx_sub {α : Type} {x : α} {l : List α} {i : Nat} (h : x ∈ l.eraseIdx i) : x ∈ l :=
  (List.eraseIdx_sublist l i).subset h

theorem not_mem_eraseIdx_of_nodup {α : Type} {x : α} :
    ∀ (l : List α) (i : Nat), l.Nodup → l[i]? = some x → x ∉ l.eraseIdx i
  | [], _, _, h => by simp at h
  | a :: l, 0, hn, h => by
    simp at h; subst h
    simpa using (List.nodup_cons.mp hn).1
  | a :: l, i + 1, hn, h => by
    have hn' := List.nodup_cons.mp hn
    have hx : x ∈ l := List.mem_of_getElem? (by simpa using h)
    have ih := not_mem_eraseIdx_of_nodup l i hn'.2 (by simpa using h)
    intro hm
    rw [List.eraseIdx_cons_succ] at hm
    rcases List.mem_cons.mp hm with h1 | h1
    · subst h1; exact hn'.1 hx
    · exact ih h1

/-- a list of positions inside a window on which `f` is injective maps to a duplicate-free list -/
theorem nodup_map_of_inj_on {f : Nat → Nat} {P : Nat → Prop}
    (hinj : ∀ p q, P p → P q → f p = f q → p = q) :
    ∀ (l : List Nat), (∀ p ∈ l, P p) → l.Nodup → (l.map f).Nodup
  | [], _, _ => by simp
  | a :: l, hP, hn => by
    have hn' := List.nodup_cons.mp hn
    rw [List.map_cons, List.nodup_cons]
    refine ⟨?_, nodup_map_of_inj_on hinj l (fun p hp => hP p (List.mem_cons_of_mem _ hp)) hn'.2⟩
    intro hm
    rcases List.mem_map.mp hm with ⟨q, hq, hfq⟩
    have := hinj q a (hP q (List.mem_cons_of_mem _ hq)) (hP a (List.mem_cons_self ..)) hfq
    subst this
    exact hn'.1 hq

/-! ## 1. group data counter: cyclic values `1..mask` -/

theorem mask_eq : mask = 268435455 := rfl
theorem gEpoch_eq : gEpoch = 1000 := rfl
theorem U32_eq : U32 = 4294967296 := rfl
theorem U64_eq : U64 = 18446744073709551616 := rfl
theorem eEpoch_eq : eEpoch = 10000 := rfl

/-- the value at unbounded position `p`: the range `1..mask` is a cycle of `mask` values -/
def gval (p : Nat) : Nat := p % mask + 1

theorem land_mask (x : Nat) : x &&& mask = x % 268435456 := by
  show x &&& (2 ^ 28 - 1) = x % 2 ^ 28
  exact Nat.and_two_pow_sub_one_eq_mod x 28

theorem gval_pos (p : Nat) : 1 ≤ gval p ∧ gval p ≤ mask := by
  simp only [gval, mask_eq]; omega

/-- how many single steps `advance(v, EPOCH)` is ahead of `v`: the epoch, or one less when the
addition runs over the top of the range (the skipped 0 is not a value) -/
def gSpan (v : Nat) : Nat := if v + gEpoch ≤ mask + 1 then gEpoch else gEpoch - 1

theorem gSpan_bounds (v : Nat) : gEpoch - 1 ≤ gSpan v ∧ gSpan v ≤ gEpoch := by
  unfold gSpan; split <;> simp only [gEpoch_eq] <;> omega

theorem ite_zero_one (x y : Nat) (h0 : x = 0 → y = 1) (h1 : x ≠ 0 → y = x) :
    (if x = 0 then 1 else x) = y := by
  by_cases h : x = 0
  · rw [if_pos h]; exact (h0 h).symm
  · rw [if_neg h]; exact (h1 h).symm

theorem gAdvance_one (p : Nat) : gAdvance (gval p) 1 = gval (p + 1) := by
  unfold gAdvance
  simp only [land_mask]
  simp only [gval, mask_eq, U32_eq]
  apply ite_zero_one <;> intro h <;> omega

theorem gAdvance_epoch (p : Nat) : gAdvance (gval p) gEpoch = gval (p + gSpan (gval p)) := by
  unfold gAdvance gSpan
  simp only [land_mask]
  simp only [gval, mask_eq, U32_eq, gEpoch_eq]
  apply ite_zero_one <;> intro h <;>
    by_cases h2 : p % 268435455 + 1 + 1000 ≤ 268435455 + 1 <;>
    simp only [h2, if_true, if_false] <;> omega

/-- `val` is injective on every window shorter than one cycle -/
theorem gval_inj {p q : Nat} (h1 : p ≤ q) (h2 : q < p + mask) (h : gval p = gval q) : p = q := by
  simp only [gval, mask_eq] at *; omega

theorem gval_pred {v : Nat} (h1 : 1 ≤ v) (h2 : v ≤ mask) : gval (v - 1) = v := by
  simp only [gval, mask_eq] at *; omega

/-- the seed / resume normalisation `if x == 0 { 1 } else { x }` -/
def gnorm (d : Nat) : Nat := if d = 0 then 1 else d

theorem seed_range (rand : Nat) :
    1 ≤ (if rand &&& mask = 0 then 1 else rand &&& mask) ∧
    (if rand &&& mask = 0 then 1 else rand &&& mask) ≤ mask := by
  rw [land_mask]; simp only [mask_eq]
  split <;> omega

/-! ### ghost positions of the group counter -/

structure GGhost where
  /-- position of `live` (meaningful once the counter is initialised) -/
  lpos : Nat
  /-- position of the in-memory `boundary` -/
  bpos : Nat
  /-- position of the boundary held in storage (meaningful when the key is present) -/
  dpos : Nat
  /-- first position of this lifetime of the storage -/
  base : Nat
  /-- positions consumed since `base` (upper bound) -/
  spent : Nat
  /-- positions of the values held by `initiate_group` calls in progress -/
  hpos : List Nat
  /-- positions of the stashed values -/
  rpos : List Nat
  /-- positions of the values that reached the wire -/
  upos : List Nat

def gGhostStep (s : GSys) (g : GGhost) : GOp → GGhost
  | .reserve rand =>
    match s.inflight with
    | some _ => g
    | none =>
      if s.vol.live = 0 then
        let c := (s.vol.getOrInit rand).live
        { g with base := c - 1, lpos := c - 1 + 1, bpos := c - 1 + gSpan c, spent := 1 }
      else if s.vol.live = s.vol.boundary then
        { g with lpos := g.lpos + 1, bpos := g.lpos + gSpan s.vol.live, spent := g.spent + 1 }
      else { g with lpos := g.lpos + 1, spent := g.spent + 1, hpos := g.lpos :: g.hpos }
  | .store =>
    match s.inflight with
    | some _ => { g with dpos := g.bpos, hpos := (g.lpos - 1) :: g.hpos }
    | none => g
  | .storeFail =>
    match s.inflight with
    | some _ => { g with lpos := g.lpos - 1, bpos := g.lpos - 1 }
    | none => g
  | .stash i =>
    match g.hpos[i]? with
    | some p => { g with hpos := g.hpos.eraseIdx i, rpos := p :: g.rpos }
    | none => g
  | .use i =>
    match g.rpos[i]? with
    | some p => { g with rpos := g.rpos.eraseIdx i, upos := p :: g.upos }
    | none => g
  | .abandon i => { g with hpos := g.hpos.eraseIdx i }
  | .peek rand =>
    if s.vol.live = 0 then
      let c := (s.vol.getOrInit rand).live
      { g with base := c - 1, lpos := c - 1, bpos := c - 1, spent := 0 }
    else g
  | .crash =>
    match s.durable with
    | some _ => { g with lpos := g.dpos, bpos := g.dpos, hpos := [], rpos := [], spent := g.spent + gEpoch }
    | none => { g with hpos := [], rpos := [] }

/-- 1 while an `initiate_group` is inside its critical section, between the reservation that moved
the boundary and the outcome of the store -/
def infl1 (s : GSys) : Nat := match s.inflight with | some _ => 1 | none => 0

/-- The invariant tying the real state to the ghost positions. -/
structure GInv (s : GSys) (g : GGhost) : Prop where
  uninit : s.vol.live = 0 → s.vol.boundary = 0 ∧ s.durable = none ∧ s.inflight = none
  vol : s.vol.live ≠ 0 → s.vol.live = gval g.lpos ∧ s.vol.boundary = gval g.bpos ∧
        g.lpos ≤ g.bpos ∧ g.bpos ≤ g.lpos + gEpoch
  nodur : s.durable = none → g.hpos = [] ∧ g.rpos = [] ∧ g.upos = [] ∧
        (s.inflight = none → s.vol.live ≠ 0 → g.lpos = g.bpos)
  dur : ∀ d, s.durable = some d → s.vol.live ≠ 0 ∧ gnorm d = gval g.dpos ∧ g.dpos ≤ g.bpos ∧
        g.base ≤ g.dpos ∧ (s.inflight = none → g.dpos = g.bpos)
  infl : ∀ v b, s.inflight = some (v, b) → s.vol.live ≠ 0 ∧ g.base + 1 ≤ g.lpos ∧
        v = gval (g.lpos - 1) ∧ b = gval g.bpos ∧ g.lpos ≤ g.bpos ∧ g.bpos + 1 ≤ g.lpos + gEpoch ∧
        (s.durable ≠ none → g.dpos = g.lpos - 1)
  window : g.base ≤ g.lpos ∧ g.lpos ≤ g.base + g.spent
  held_eq : s.held = g.hpos.map gval
  ready_eq : s.ready = g.rpos.map gval
  used_eq : s.used = g.upos.map gval
  hrange : ∀ p ∈ g.hpos, g.base ≤ p ∧ p + infl1 s < g.lpos ∧ p < g.dpos
  rrange : ∀ p ∈ g.rpos, g.base ≤ p ∧ p + infl1 s < g.lpos ∧ p < g.dpos
  urange : ∀ p ∈ g.upos, g.base ≤ p ∧ p + infl1 s < g.lpos ∧ p < g.dpos
  hnodup : g.hpos.Nodup
  rnodup : g.rpos.Nodup
  unodup : g.upos.Nodup
  disjhr : ∀ p ∈ g.hpos, p ∉ g.rpos
  disjhu : ∀ p ∈ g.hpos, p ∉ g.upos
  disj : ∀ p ∈ g.rpos, p ∉ g.upos

/-- ghost of a freshly booted node whose storage holds `d0` -/
def GGhost.boot (d0 : Option Nat) : GGhost :=
  match d0 with
  | some d => { lpos := gnorm d - 1, bpos := gnorm d - 1, dpos := gnorm d - 1, base := gnorm d - 1,
                spent := 0, hpos := [], rpos := [], upos := [] }
  | none => { lpos := 0, bpos := 0, dpos := 0, base := 0, spent := 0, hpos := [], rpos := [], upos := [] }

/-- start boundaries the code can have written itself (or none, or a blank 0) -/
def GStart (d0 : Option Nat) : Prop := ∀ d, d0 = some d → d ≤ mask

theorem ginv_boot (d0 : Option Nat) (h : GStart d0) : GInv (GSys.boot d0) (GGhost.boot d0) := by
  cases d0 with
  | none =>
    constructor <;> simp [GSys.boot, GGhost.boot, GVol.load, GVol.new, infl1]
  | some d =>
    have hd := h d rfl
    have hn : 1 ≤ gnorm d ∧ gnorm d ≤ mask := by
      unfold gnorm; simp only [mask_eq] at *; split <;> omega
    have hv := gval_pred hn.1 hn.2
    constructor <;>
      simp [GSys.boot, GGhost.boot, GVol.load, GVol.resume, GVol.set, infl1, hv]
    all_goals (try (unfold gnorm at *; split <;> omega))

theorem infl1_none {s : GSys} (h : s.inflight = none) : infl1 s = 0 := by simp [infl1, h]
theorem infl1_some {s : GSys} {x : Nat × Nat} (h : s.inflight = some x) : infl1 s = 1 := by simp [infl1, h]

theorem ginv_reserve {s : GSys} {g : GGhost} (h : GInv s g) (rand : Nat) :
    GInv (gStep s (.reserve rand)) (gGhostStep s g (.reserve rand)) := by
  have hE := gEpoch_eq
  have hM := mask_eq
  cases hi : s.inflight with
  | some x =>
    have hS : gStep s (.reserve rand) = s := by simp only [gStep, hi]
    have hG : gGhostStep s g (.reserve rand) = g := by simp only [gGhostStep, hi]
    rw [hS, hG]; exact h
  | none =>
    obtain ⟨huninit, hvol, hnodur, hdur, hinfl, hwin, hhe, hre, hue, hhr, hrr, hur, hhn, hrn, hun, dhr, dhu, hdj⟩ := h
    have hi1 : infl1 s = 0 := infl1_none hi
    by_cases hl : s.vol.live = 0
    · -- first use: seeded now
      obtain ⟨hb0, hd0, _⟩ := huninit hl
      obtain ⟨hh0, hr0, hu0, _⟩ := hnodur hd0
      have hsr := seed_range rand
      generalize hc : (if rand &&& mask = 0 then 1 else rand &&& mask) = c at hsr
      have hgo : s.vol.getOrInit rand = { live := c, boundary := c } := by
        simp [GVol.getOrInit, hl, GVol.set, hc]
      have hcv : gval (c - 1) = c := gval_pred hsr.1 hsr.2
      have h1 : gAdvance c 1 = gval (c - 1 + 1) := by
        have := gAdvance_one (c - 1); rwa [hcv] at this
      have h2 : gAdvance c gEpoch = gval (c - 1 + gSpan c) := by
        have := gAdvance_epoch (c - 1); rwa [hcv] at this
      have hsp := gSpan_bounds c
      have hne : gval (c - 1 + 1) ≠ 0 := by have := gval_pos (c - 1 + 1); omega
      have hS : gStep s (.reserve rand) =
          { s with vol := { live := gval (c - 1 + 1), boundary := gval (c - 1 + gSpan c) },
                   inflight := some (c, gval (c - 1 + gSpan c)) } := by
        simp only [gStep, hi, GVol.reserve, hgo, if_true, h1, h2]
      have hG : gGhostStep s g (.reserve rand) =
          { g with base := c - 1, lpos := c - 1 + 1, bpos := c - 1 + gSpan c, spent := 1 } := by
        simp only [gGhostStep, hi, if_pos hl, hgo]
      rw [hS, hG]
      refine ⟨?_, ?_, ?_, ?_, ?_, ?_, hhe, hre, hue, ?_, ?_, ?_, hhn, hrn, hun, dhr, dhu, hdj⟩
      · intro h0; exact absurd h0 hne
      · intro _; refine ⟨rfl, rfl, ?_, ?_⟩ <;> dsimp only <;> omega
      · intro _; exact ⟨hh0, hr0, hu0, by intro hv; simp at hv⟩
      · intro d hd; simp only [hd0] at hd; exact absurd hd (by simp)
      · intro v b hv
        simp only [Option.some.injEq, Prod.mk.injEq] at hv
        obtain ⟨hv1, hv2⟩ := hv
        subst hv1; subst hv2
        refine ⟨hne, by simp, by simp [hcv], rfl, ?_, ?_, ?_⟩
        · dsimp only; omega
        · dsimp only; omega
        · intro hdn; exact absurd hd0 hdn
      · simp
      · intro p hp; simp only [hh0] at hp; exact absurd hp (by simp)
      · intro p hp; simp only [hr0] at hp; exact absurd hp (by simp)
      · intro p hp; simp only [hu0] at hp; exact absurd hp (by simp)
    · -- initialised
      obtain ⟨hlv, hbv, hlb, hbl⟩ := hvol hl
      have hgo : s.vol.getOrInit rand = s.vol := by simp [GVol.getOrInit, hl]
      have h1 : gAdvance s.vol.live 1 = gval (g.lpos + 1) := by rw [hlv]; exact gAdvance_one _
      have hne : gval (g.lpos + 1) ≠ 0 := by have := gval_pos (g.lpos + 1); omega
      by_cases heq : s.vol.live = s.vol.boundary
      · have hpos : g.lpos = g.bpos := by
          apply gval_inj hlb (by omega)
          rw [← hlv, ← hbv]; exact heq
        have h2 : gAdvance s.vol.live gEpoch = gval (g.lpos + gSpan s.vol.live) := by
          have := gAdvance_epoch g.lpos; rwa [← hlv] at this
        have hsp := gSpan_bounds s.vol.live
        have hS : gStep s (.reserve rand) =
            { s with vol := { live := gval (g.lpos + 1), boundary := gval (g.lpos + gSpan s.vol.live) },
                     inflight := some (s.vol.live, gval (g.lpos + gSpan s.vol.live)) } := by
          simp only [gStep, hi, GVol.reserve, hgo, if_pos heq, h1, h2]
        have hG : gGhostStep s g (.reserve rand) =
            { g with lpos := g.lpos + 1, bpos := g.lpos + gSpan s.vol.live, spent := g.spent + 1 } := by
          simp only [gGhostStep, hi, if_neg hl, if_pos heq]
        rw [hS, hG]
        refine ⟨?_, ?_, ?_, ?_, ?_, ?_, hhe, hre, hue, ?_, ?_, ?_, hhn, hrn, hun, dhr, dhu, hdj⟩
        · intro h0; exact absurd h0 hne
        · intro _; refine ⟨rfl, rfl, ?_, ?_⟩ <;> dsimp only <;> omega
        · intro hd
          obtain ⟨hh0, hr0, hu0, _⟩ := hnodur hd
          exact ⟨hh0, hr0, hu0, by intro hv; simp at hv⟩
        · intro d hd
          obtain ⟨_, hd2, hd3, hd4, _⟩ := hdur d hd
          refine ⟨hne, hd2, ?_, hd4, ?_⟩
          · show g.dpos ≤ g.lpos + gSpan s.vol.live; omega
          · intro hall; simp at hall
        · intro v b hv
          simp only [Option.some.injEq, Prod.mk.injEq] at hv
          obtain ⟨hv1, hv2⟩ := hv
          subst hv1; subst hv2
          refine ⟨hne, ?_, ?_, rfl, ?_, ?_, ?_⟩
          · show g.base + 1 ≤ g.lpos + 1; omega
          · show s.vol.live = gval (g.lpos + 1 - 1); simpa using hlv
          · show g.lpos + 1 ≤ g.lpos + gSpan s.vol.live; omega
          · show g.lpos + gSpan s.vol.live + 1 ≤ g.lpos + 1 + gEpoch; omega
          · intro hdn
            show g.dpos = g.lpos + 1 - 1
            cases hd : s.durable with
            | none => exact absurd hd hdn
            | some d => have := (hdur d hd).2.2.2.2 hi; omega
        · show g.base ≤ g.lpos + 1 ∧ g.lpos + 1 ≤ g.base + (g.spent + 1); omega
        · intro p hp; have := hhr p hp; rw [hi1] at this
          show g.base ≤ p ∧ p + 1 < g.lpos + 1 ∧ p < g.dpos; omega
        · intro p hp; have := hrr p hp; rw [hi1] at this
          show g.base ≤ p ∧ p + 1 < g.lpos + 1 ∧ p < g.dpos; omega
        · intro p hp; have := hur p hp; rw [hi1] at this
          show g.base ≤ p ∧ p + 1 < g.lpos + 1 ∧ p < g.dpos; omega
      · have hpos : g.lpos ≠ g.bpos := by
          intro hp; apply heq; rw [hlv, hbv, hp]
        have hdne : s.durable ≠ none := by
          intro hd; exact hpos ((hnodur hd).2.2.2 hi hl)
        obtain ⟨d, hd⟩ := Option.ne_none_iff_exists'.mp hdne
        obtain ⟨_, hd2, hd3, hd4, hd5⟩ := hdur d hd
        have hdb : g.dpos = g.bpos := hd5 hi
        have hS : gStep s (.reserve rand) =
            { s with vol := { live := gval (g.lpos + 1), boundary := s.vol.boundary },
                     inflight := none, held := s.vol.live :: s.held } := by
          simp only [gStep, hi, GVol.reserve, hgo, if_neg heq, h1]
        have hG : gGhostStep s g (.reserve rand) =
            { g with lpos := g.lpos + 1, spent := g.spent + 1, hpos := g.lpos :: g.hpos } := by
          simp only [gGhostStep, hi, if_neg hl, if_neg heq]
        rw [hS, hG]
        refine ⟨?_, ?_, ?_, ?_, ?_, ?_, ?_, hre, hue, ?_, ?_, ?_, ?_, hrn, hun, ?_, ?_, hdj⟩
        · intro h0; exact absurd h0 hne
        · intro _; refine ⟨rfl, hbv, ?_, ?_⟩
          · show g.lpos + 1 ≤ g.bpos; omega
          · show g.bpos ≤ g.lpos + 1 + gEpoch; omega
        · intro hd'; exact absurd hd' hdne
        · intro d' hd'
          have : d' = d := by rw [hd] at hd'; simpa using hd'.symm
          subst this
          exact ⟨hne, hd2, hd3, hd4, fun _ => hdb⟩
        · intro v b hv; simp [hi] at hv
        · show g.base ≤ g.lpos + 1 ∧ g.lpos + 1 ≤ g.base + (g.spent + 1); omega
        · show s.vol.live :: s.held = List.map gval (g.lpos :: g.hpos)
          rw [List.map_cons, ← hhe, ← hlv]
        · intro p hp
          show g.base ≤ p ∧ p + 0 < g.lpos + 1 ∧ p < g.dpos
          rcases List.mem_cons.mp hp with h1 | h1
          · subst h1; omega
          · have := hhr p h1; rw [hi1] at this; omega
        · intro p hp; have := hrr p hp; rw [hi1] at this
          show g.base ≤ p ∧ p + 0 < g.lpos + 1 ∧ p < g.dpos; omega
        · intro p hp; have := hur p hp; rw [hi1] at this
          show g.base ≤ p ∧ p + 0 < g.lpos + 1 ∧ p < g.dpos; omega
        · show (g.lpos :: g.hpos).Nodup
          rw [List.nodup_cons]; refine ⟨?_, hhn⟩
          intro hm; have := hhr _ hm; omega
        · intro p hp
          rcases List.mem_cons.mp hp with h1 | h1
          · subst h1; intro hm; have := hrr _ hm; omega
          · exact dhr p h1
        · intro p hp
          rcases List.mem_cons.mp hp with h1 | h1
          · subst h1; intro hm; have := hur _ hm; omega
          · exact dhu p h1

theorem ginv_store {s : GSys} {g : GGhost} (h : GInv s g) :
    GInv (gStep s .store) (gGhostStep s g .store) := by
  have hE := gEpoch_eq
  rcases hi : s.inflight with _ | ⟨v, b⟩
  · have hS : gStep s .store = s := by simp only [gStep, hi]
    have hG : gGhostStep s g .store = g := by simp only [gGhostStep, hi]
    rw [hS, hG]; exact h
  · obtain ⟨huninit, hvol, hnodur, hdur, hinfl, hwin, hhe, hre, hue, hhr, hrr, hur, hhn, hrn, hun, dhr, dhu, hdj⟩ := h
    obtain ⟨hl, hb1, hv, hbv, hlb, hbl, _⟩ := hinfl v b hi
    have hi1 : infl1 s = 1 := infl1_some hi
    have hS : gStep s .store = { s with durable := some b, inflight := none, held := v :: s.held } := by
      simp only [gStep, hi]
    have hG : gGhostStep s g .store = { g with dpos := g.bpos, hpos := (g.lpos - 1) :: g.hpos } := by
      simp only [gGhostStep, hi]
    rw [hS, hG]
    refine ⟨?_, hvol, ?_, ?_, ?_, hwin, ?_, hre, hue, ?_, ?_, ?_, ?_, hrn, hun, ?_, ?_, hdj⟩
    · intro h0; exact absurd h0 hl
    · intro hd; exact absurd hd (by simp)
    · intro d hd
      simp only [Option.some.injEq] at hd; subst hd
      have hbp := gval_pos g.bpos
      refine ⟨hl, ?_, Nat.le_refl _, ?_, fun _ => rfl⟩
      · show gnorm b = gval g.bpos; unfold gnorm; rw [if_neg (by omega)]; exact hbv
      · show g.base ≤ g.bpos; omega
    · intro v' b' hv'; exact absurd hv' (by simp)
    · show v :: s.held = List.map gval ((g.lpos - 1) :: g.hpos)
      rw [List.map_cons, ← hhe, ← hv]
    · intro p hp
      show g.base ≤ p ∧ p + 0 < g.lpos ∧ p < g.bpos
      rcases List.mem_cons.mp hp with h1 | h1
      · subst h1; omega
      · have := hhr p h1; rw [hi1] at this; omega
    · intro p hp; have := hrr p hp; rw [hi1] at this
      show g.base ≤ p ∧ p + 0 < g.lpos ∧ p < g.bpos; omega
    · intro p hp; have := hur p hp; rw [hi1] at this
      show g.base ≤ p ∧ p + 0 < g.lpos ∧ p < g.bpos; omega
    · show ((g.lpos - 1) :: g.hpos).Nodup
      rw [List.nodup_cons]; refine ⟨?_, hhn⟩
      intro hm; have := hhr _ hm; rw [hi1] at this; omega
    · intro p hp
      rcases List.mem_cons.mp hp with h1 | h1
      · subst h1; intro hm; have := hrr _ hm; rw [hi1] at this; omega
      · exact dhr p h1
    · intro p hp
      rcases List.mem_cons.mp hp with h1 | h1
      · subst h1; intro hm; have := hur _ hm; rw [hi1] at this; omega
      · exact dhu p h1

/-- A FAILED store undoes the reservation: nothing is lost, and the next reservation demands the
store again. -/
theorem ginv_storeFail {s : GSys} {g : GGhost} (h : GInv s g) :
    GInv (gStep s .storeFail) (gGhostStep s g .storeFail) := by
  have hE := gEpoch_eq
  rcases hi : s.inflight with _ | ⟨v, b⟩
  · have hS : gStep s .storeFail = s := by simp only [gStep, hi]
    have hG : gGhostStep s g .storeFail = g := by simp only [gGhostStep, hi]
    rw [hS, hG]; exact h
  · obtain ⟨huninit, hvol, hnodur, hdur, hinfl, hwin, hhe, hre, hue, hhr, hrr, hur, hhn, hrn, hun, dhr, dhu, hdj⟩ := h
    obtain ⟨hl, hb1, hv, hbv, hlb, hbl, hdl⟩ := hinfl v b hi
    have hi1 : infl1 s = 1 := infl1_some hi
    have hvp := gval_pos (g.lpos - 1)
    have hv0 : v ≠ 0 := by omega
    have hS : gStep s .storeFail = { s with vol := { live := v, boundary := v }, inflight := none } := by
      simp only [gStep, hi, GVol.unreserve, GVol.set]
    have hG : gGhostStep s g .storeFail = { g with lpos := g.lpos - 1, bpos := g.lpos - 1 } := by
      simp only [gGhostStep, hi]
    rw [hS, hG]
    refine ⟨?_, ?_, ?_, ?_, ?_, ?_, hhe, hre, hue, ?_, ?_, ?_, hhn, hrn, hun, dhr, dhu, hdj⟩
    · intro h0; exact absurd h0 hv0
    · intro _; exact ⟨hv, hv, Nat.le_refl _, by show g.lpos - 1 ≤ g.lpos - 1 + gEpoch; omega⟩
    · intro hd
      obtain ⟨hh0, hr0, hu0, _⟩ := hnodur hd
      exact ⟨hh0, hr0, hu0, fun _ _ => rfl⟩
    · intro d hd
      obtain ⟨_, hd2, _, hd4, _⟩ := hdur d hd
      have hdp : g.dpos = g.lpos - 1 := hdl (by rw [hd]; simp)
      refine ⟨hv0, hd2, ?_, hd4, fun _ => hdp⟩
      show g.dpos ≤ g.lpos - 1; omega
    · intro v' b' hv'; exact absurd hv' (by simp)
    · show g.base ≤ g.lpos - 1 ∧ g.lpos - 1 ≤ g.base + g.spent; omega
    · intro p hp; have := hhr p hp; rw [hi1] at this
      show g.base ≤ p ∧ p + 0 < g.lpos - 1 ∧ p < g.dpos; omega
    · intro p hp; have := hrr p hp; rw [hi1] at this
      show g.base ≤ p ∧ p + 0 < g.lpos - 1 ∧ p < g.dpos; omega
    · intro p hp; have := hur p hp; rw [hi1] at this
      show g.base ≤ p ∧ p + 0 < g.lpos - 1 ∧ p < g.dpos; omega

theorem ginv_stash {s : GSys} {g : GGhost} (h : GInv s g) (i : Nat) :
    GInv (gStep s (.stash i)) (gGhostStep s g (.stash i)) := by
  obtain ⟨huninit, hvol, hnodur, hdur, hinfl, hwin, hhe, hre, hue, hhr, hrr, hur, hhn, hrn, hun, dhr, dhu, hdj⟩ := h
  have hget : s.held[i]? = (g.hpos[i]?).map gval := by rw [hhe, List.getElem?_map]
  cases hp : g.hpos[i]? with
  | none =>
    have hS : gStep s (.stash i) = s := by
      have : s.held[i]? = none := by rw [hget, hp]; rfl
      simp only [gStep, this]
    have hG : gGhostStep s g (.stash i) = g := by simp only [gGhostStep, hp]
    rw [hS, hG]
    exact ⟨huninit, hvol, hnodur, hdur, hinfl, hwin, hhe, hre, hue, hhr, hrr, hur, hhn, hrn, hun, dhr, dhu, hdj⟩
  | some p =>
    have hmem : p ∈ g.hpos := List.mem_of_getElem? hp
    have hS : gStep s (.stash i) = { s with held := s.held.eraseIdx i, ready := gval p :: s.ready } := by
      have : s.held[i]? = some (gval p) := by rw [hget, hp]; rfl
      simp only [gStep, this]
    have hG : gGhostStep s g (.stash i) = { g with hpos := g.hpos.eraseIdx i, rpos := p :: g.rpos } := by
      simp only [gGhostStep, hp]
    have hi1 : infl1 { s with held := s.held.eraseIdx i, ready := gval p :: s.ready } = infl1 s := rfl
    rw [hS, hG]
    refine ⟨huninit, hvol, ?_, hdur, hinfl, hwin, ?_, ?_, hue, ?_, ?_, ?_, ?_, ?_, hun, ?_, ?_, ?_⟩
    · intro hd
      have := (hnodur hd).1
      rw [this] at hmem; exact absurd hmem (by simp)
    · show s.held.eraseIdx i = List.map gval (g.hpos.eraseIdx i)
      rw [hhe, eraseIdx_map]
    · show gval p :: s.ready = List.map gval (p :: g.rpos)
      rw [List.map_cons, hre]
    · intro q hq; rw [hi1]; exact hhr q (mem_of_mem_eraseIdx_sub hq)
    · intro q hq; rw [hi1]
      rcases List.mem_cons.mp hq with h1 | h1
      · subst h1; exact hhr q hmem
      · exact hrr q h1
    · intro q hq; rw [hi1]; exact hur q hq
    · exact List.Nodup.sublist (List.eraseIdx_sublist _ _) hhn
    · show (p :: g.rpos).Nodup
      rw [List.nodup_cons]; exact ⟨dhr p hmem, hrn⟩
    · intro q hq hq2
      rcases List.mem_cons.mp hq2 with h1 | h1
      · subst h1; exact not_mem_eraseIdx_of_nodup _ _ hhn hp hq
      · exact dhr q (mem_of_mem_eraseIdx_sub hq) h1
    · intro q hq; exact dhu q (mem_of_mem_eraseIdx_sub hq)
    · intro q hq
      rcases List.mem_cons.mp hq with h1 | h1
      · subst h1; exact dhu q hmem
      · exact hdj q h1

theorem ginv_use {s : GSys} {g : GGhost} (h : GInv s g) (i : Nat) :
    GInv (gStep s (.use i)) (gGhostStep s g (.use i)) := by
  obtain ⟨huninit, hvol, hnodur, hdur, hinfl, hwin, hhe, hre, hue, hhr, hrr, hur, hhn, hrn, hun, dhr, dhu, hdj⟩ := h
  have hget : s.ready[i]? = (g.rpos[i]?).map gval := by rw [hre, List.getElem?_map]
  cases hp : g.rpos[i]? with
  | none =>
    have hS : gStep s (.use i) = s := by
      have : s.ready[i]? = none := by rw [hget, hp]; rfl
      simp only [gStep, this]
    have hG : gGhostStep s g (.use i) = g := by simp only [gGhostStep, hp]
    rw [hS, hG]
    exact ⟨huninit, hvol, hnodur, hdur, hinfl, hwin, hhe, hre, hue, hhr, hrr, hur, hhn, hrn, hun, dhr, dhu, hdj⟩
  | some p =>
    have hmem : p ∈ g.rpos := List.mem_of_getElem? hp
    have hS : gStep s (.use i) = { s with ready := s.ready.eraseIdx i, used := gval p :: s.used } := by
      have : s.ready[i]? = some (gval p) := by rw [hget, hp]; rfl
      simp only [gStep, this]
    have hG : gGhostStep s g (.use i) = { g with rpos := g.rpos.eraseIdx i, upos := p :: g.upos } := by
      simp only [gGhostStep, hp]
    have hi1 : infl1 { s with ready := s.ready.eraseIdx i, used := gval p :: s.used } = infl1 s := rfl
    rw [hS, hG]
    refine ⟨huninit, hvol, ?_, hdur, hinfl, hwin, hhe, ?_, ?_, ?_, ?_, ?_, hhn, ?_, ?_, ?_, ?_, ?_⟩
    · intro hd
      have := (hnodur hd).2.1
      rw [this] at hmem; exact absurd hmem (by simp)
    · show s.ready.eraseIdx i = List.map gval (g.rpos.eraseIdx i)
      rw [hre, eraseIdx_map]
    · show gval p :: s.used = List.map gval (p :: g.upos)
      rw [List.map_cons, hue]
    · intro q hq; rw [hi1]; exact hhr q hq
    · intro q hq; rw [hi1]; exact hrr q (mem_of_mem_eraseIdx_sub hq)
    · intro q hq; rw [hi1]
      rcases List.mem_cons.mp hq with h1 | h1
      · subst h1; exact hrr q hmem
      · exact hur q h1
    · exact List.Nodup.sublist (List.eraseIdx_sublist _ _) hrn
    · show (p :: g.upos).Nodup
      rw [List.nodup_cons]; exact ⟨hdj p hmem, hun⟩
    · intro q hq hq2; exact dhr q hq (mem_of_mem_eraseIdx_sub hq2)
    · intro q hq hq2
      rcases List.mem_cons.mp hq2 with h1 | h1
      · subst h1; exact dhr q hq hmem
      · exact dhu q hq h1
    · intro q hq hq2
      rcases List.mem_cons.mp hq2 with h1 | h1
      · subst h1; exact not_mem_eraseIdx_of_nodup _ _ hrn hp hq
      · exact hdj q (mem_of_mem_eraseIdx_sub hq) h1

theorem ginv_abandon {s : GSys} {g : GGhost} (h : GInv s g) (i : Nat) :
    GInv (gStep s (.abandon i)) (gGhostStep s g (.abandon i)) := by
  obtain ⟨huninit, hvol, hnodur, hdur, hinfl, hwin, hhe, hre, hue, hhr, hrr, hur, hhn, hrn, hun, dhr, dhu, hdj⟩ := h
  have hS : gStep s (.abandon i) = { s with held := s.held.eraseIdx i } := rfl
  have hG : gGhostStep s g (.abandon i) = { g with hpos := g.hpos.eraseIdx i } := rfl
  have hi1 : infl1 { s with held := s.held.eraseIdx i } = infl1 s := rfl
  rw [hS, hG]
  refine ⟨huninit, hvol, ?_, hdur, hinfl, hwin, ?_, hre, hue, ?_, ?_, ?_, ?_, hrn, hun, ?_, ?_, hdj⟩
  · intro hd
    obtain ⟨hh0, hr0, hu0, h4⟩ := hnodur hd
    refine ⟨?_, hr0, hu0, h4⟩
    show g.hpos.eraseIdx i = []
    rw [hh0]; rfl
  · show s.held.eraseIdx i = List.map gval (g.hpos.eraseIdx i)
    rw [hhe, eraseIdx_map]
  · intro q hq; rw [hi1]; exact hhr q (mem_of_mem_eraseIdx_sub hq)
  · intro q hq; rw [hi1]; exact hrr q hq
  · intro q hq; rw [hi1]; exact hur q hq
  · exact List.Nodup.sublist (List.eraseIdx_sublist _ _) hhn
  · intro q hq; exact dhr q (mem_of_mem_eraseIdx_sub hq)
  · intro q hq; exact dhu q (mem_of_mem_eraseIdx_sub hq)

theorem ginv_peek {s : GSys} {g : GGhost} (h : GInv s g) (rand : Nat) :
    GInv (gStep s (.peek rand)) (gGhostStep s g (.peek rand)) := by
  have hE := gEpoch_eq
  by_cases hl : s.vol.live = 0
  · obtain ⟨huninit, hvol, hnodur, hdur, hinfl, hwin, hhe, hre, hue, hhr, hrr, hur, hhn, hrn, hun, dhr, dhu, hdj⟩ := h
    obtain ⟨hb0, hd0, hi0⟩ := huninit hl
    obtain ⟨hh0, hr0, hu0, _⟩ := hnodur hd0
    have hsr := seed_range rand
    generalize hc : (if rand &&& mask = 0 then 1 else rand &&& mask) = c at hsr
    have hgo : s.vol.getOrInit rand = { live := c, boundary := c } := by
      simp [GVol.getOrInit, hl, GVol.set, hc]
    have hcv : gval (c - 1) = c := gval_pred hsr.1 hsr.2
    have hS : gStep s (.peek rand) = { s with vol := { live := c, boundary := c } } := by
      simp only [gStep, hgo]
    have hG : gGhostStep s g (.peek rand) =
        { g with base := c - 1, lpos := c - 1, bpos := c - 1, spent := 0 } := by
      simp only [gGhostStep, if_pos hl, hgo]
    rw [hS, hG]
    refine ⟨?_, ?_, ?_, ?_, ?_, ?_, hhe, hre, hue, ?_, ?_, ?_, hhn, hrn, hun, dhr, dhu, hdj⟩
    · intro h0; have : c = 0 := h0; omega
    · intro _; exact ⟨hcv.symm, hcv.symm, Nat.le_refl _, by show c - 1 ≤ c - 1 + gEpoch; omega⟩
    · intro _; exact ⟨hh0, hr0, hu0, fun _ _ => rfl⟩
    · intro d hd; rw [hd0] at hd; exact absurd hd (by simp)
    · intro v b hv; rw [hi0] at hv; exact absurd hv (by simp)
    · show c - 1 ≤ c - 1 ∧ c - 1 ≤ c - 1 + 0; omega
    · intro p hp; rw [hh0] at hp; exact absurd hp (by simp)
    · intro p hp; rw [hr0] at hp; exact absurd hp (by simp)
    · intro p hp; rw [hu0] at hp; exact absurd hp (by simp)
  · have hgo : s.vol.getOrInit rand = s.vol := by simp [GVol.getOrInit, hl]
    have hS : gStep s (.peek rand) = s := by simp only [gStep, hgo]
    have hG : gGhostStep s g (.peek rand) = g := by simp only [gGhostStep, if_neg hl]
    rw [hS, hG]; exact h

theorem ginv_crash {s : GSys} {g : GGhost} (h : GInv s g) :
    GInv (gStep s .crash) (gGhostStep s g .crash) := by
  have hE := gEpoch_eq
  obtain ⟨huninit, hvol, hnodur, hdur, hinfl, hwin, hhe, hre, hue, hhr, hrr, hur, hhn, hrn, hun, dhr, dhu, hdj⟩ := h
  cases hd : s.durable with
  | none =>
    obtain ⟨hh0, hr0, hu0, _⟩ := hnodur hd
    have hS : gStep s .crash = { s with vol := GVol.new, inflight := none, held := [], ready := [] } := by
      simp only [gStep, hd, GVol.load]
    have hG : gGhostStep s g .crash = { g with hpos := [], rpos := [] } := by simp only [gGhostStep, hd]
    rw [hS, hG]
    refine ⟨?_, ?_, ?_, ?_, ?_, hwin, rfl, rfl, hue, ?_, ?_, ?_, List.nodup_nil, List.nodup_nil, hun, ?_, ?_, ?_⟩
    · intro _; exact ⟨rfl, hd, rfl⟩
    · intro h0; exact absurd rfl h0
    · intro _; exact ⟨rfl, rfl, hu0, fun _ h0 => absurd rfl h0⟩
    · intro d hd'; rw [hd] at hd'; exact absurd hd' (by simp)
    · intro v b hv; exact absurd hv (by simp)
    · intro p hp; exact absurd hp (by simp)
    · intro p hp; exact absurd hp (by simp)
    · intro p hp; rw [hu0] at hp; exact absurd hp (by simp)
    · intro p hp; exact absurd hp (by simp)
    · intro p hp; exact absurd hp (by simp)
    · intro p hp; exact absurd hp (by simp)
  | some d =>
    obtain ⟨hl, hd2, hd3, hd4, _⟩ := hdur d hd
    obtain ⟨_, _, hlb, hbl⟩ := hvol hl
    have hgp := gval_pos g.dpos
    have hnz : gnorm d ≠ 0 := by rw [hd2]; omega
    have hS : gStep s .crash =
        { s with vol := { live := gnorm d, boundary := gnorm d }, inflight := none, held := [], ready := [] } := by
      simp only [gStep, hd, GVol.load, GVol.resume, GVol.set, gnorm]
    have hG : gGhostStep s g .crash =
        { g with lpos := g.dpos, bpos := g.dpos, hpos := [], rpos := [], spent := g.spent + gEpoch } := by
      simp only [gGhostStep, hd]
    rw [hS, hG]
    refine ⟨?_, ?_, ?_, ?_, ?_, ?_, rfl, rfl, hue, ?_, ?_, ?_, List.nodup_nil, List.nodup_nil, hun, ?_, ?_, ?_⟩
    · intro h0; exact absurd h0 hnz
    · intro _; exact ⟨hd2, hd2, Nat.le_refl _, by show g.dpos ≤ g.dpos + gEpoch; omega⟩
    · intro hd'; rw [hd] at hd'; exact absurd hd' (by simp)
    · intro d' hd'
      have : d' = d := by rw [hd] at hd'; simpa using hd'.symm
      subst this
      exact ⟨hnz, hd2, Nat.le_refl _, hd4, fun _ => rfl⟩
    · intro v b hv; exact absurd hv (by simp)
    · show g.base ≤ g.dpos ∧ g.dpos ≤ g.base + (g.spent + gEpoch); omega
    · intro p hp; exact absurd hp (by simp)
    · intro p hp; exact absurd hp (by simp)
    · intro p hp; have := hur p hp
      show g.base ≤ p ∧ p + 0 < g.dpos ∧ p < g.dpos; omega
    · intro p hp; exact absurd hp (by simp)
    · intro p hp; exact absurd hp (by simp)
    · intro p hp; exact absurd hp (by simp)

theorem ginv_step {s : GSys} {g : GGhost} (h : GInv s g) (op : GOp) :
    GInv (gStep s op) (gGhostStep s g op) := by
  cases op with
  | reserve r => exact ginv_reserve h r
  | store => exact ginv_store h
  | storeFail => exact ginv_storeFail h
  | stash i => exact ginv_stash h i
  | use i => exact ginv_use h i
  | abandon i => exact ginv_abandon h i
  | peek r => exact ginv_peek h r
  | crash => exact ginv_crash h


/-! ### whole histories -/

def gGhostRun (s : GSys) (g : GGhost) : List GOp → GGhost
  | [] => g
  | op :: ops => gGhostRun (gStep s op) (gGhostStep s g op) ops

theorem ginv_run (ops : List GOp) : ∀ {s : GSys} {g : GGhost}, GInv s g →
    GInv (gRun s ops) (gGhostRun s g ops) := by
  induction ops with
  | nil => intro s g h; exact h
  | cons op ops ih => intro s g h; exact ih (ginv_step h op)

/-- positions a history can consume at most: one per reservation, one epoch per power loss -/
def gCost : List GOp → Nat
  | [] => 0
  | .reserve _ :: r => 1 + gCost r
  | .crash :: r => gEpoch + gCost r
  | _ :: r => gCost r

theorem gspent_step (s : GSys) (g : GGhost) (op : GOp) :
    (gGhostStep s g op).spent ≤ g.spent + gCost [op] := by
  cases op with
  | reserve r =>
    simp only [gGhostStep, gCost]
    split
    · omega
    · split
      · simp only; omega
      · split <;> simp only <;> omega
  | store => simp only [gGhostStep, gCost]; split <;> (try simp only) <;> omega
  | storeFail => simp only [gGhostStep, gCost]; split <;> (try simp only) <;> omega
  | stash i => simp only [gGhostStep, gCost]; split <;> (try simp only) <;> omega
  | use i => simp only [gGhostStep, gCost]; split <;> (try simp only) <;> omega
  | abandon i => simp only [gGhostStep, gCost]; omega
  | peek r => simp only [gGhostStep, gCost]; split <;> (try simp only) <;> omega
  | crash => simp only [gGhostStep, gCost]; split <;> simp only <;> omega

theorem gCost_cons (op : GOp) (ops : List GOp) : gCost (op :: ops) = gCost [op] + gCost ops := by
  cases op <;> simp [gCost] <;> omega

theorem gspent_run (ops : List GOp) : ∀ (s : GSys) (g : GGhost),
    (gGhostRun s g ops).spent ≤ g.spent + gCost ops := by
  induction ops with
  | nil => intro s g; simp [gGhostRun, gCost]
  | cons op ops ih =>
    intro s g
    have h1 := ih (gStep s op) (gGhostStep s g op)
    have h2 := gspent_step s g op
    rw [gCost_cons]
    simp only [gGhostRun]
    omega

/-- within one cycle of the range, distinct positions are distinct values -/
theorem ginv_values_nodup {s : GSys} {g : GGhost} (h : GInv s g) (hb : g.spent ≤ mask) :
    (s.held ++ s.ready ++ s.used).Nodup := by
  obtain ⟨_, _, _, _, _, hwin, hhe, hre, hue, hhr, hrr, hur, hhn, hrn, hun, dhr, dhu, hdj⟩ := h
  rw [hhe, hre, hue, ← List.map_append, ← List.map_append]
  apply nodup_map_of_inj_on (P := fun p => g.base ≤ p ∧ p < g.base + mask)
  · intro p q hp hq hpq
    rcases Nat.le_total p q with hle | hle
    · exact gval_inj hle (by omega) hpq
    · exact (gval_inj hle (by omega) hpq.symm).symm
  · intro p hp
    rcases List.mem_append.mp hp with h1 | h1
    · rcases List.mem_append.mp h1 with h2 | h2
      · have := hhr p h2; omega
      · have := hrr p h2; omega
    · have := hur p h1; omega
  · rw [List.nodup_append]
    refine ⟨?_, hun, ?_⟩
    · rw [List.nodup_append]
      exact ⟨hhn, hrn, fun a ha b hb hab => dhr a ha (hab ▸ hb)⟩
    · intro a ha b hb hab
      rcases List.mem_append.mp ha with h2 | h2
      · exact dhu a h2 (hab ▸ hb)
      · exact hdj a h2 (hab ▸ hb)



/-! ## 2. event numbers (no ghost needed: below 2^64 the number is its own position) -/

/-- `omega` after replacing the epoch size and 2^64 by their literals (needed under `%`) -/
macro "eomega" : tactic => `(tactic| ((simp only [eEpoch_eq, U64_eq] at *) <;> omega))

structure EInv (s : ESys) : Prop where
  nodur : s.durable = none → s.vol.next = 1 ∧ s.used = []
  dur : ∀ d, s.durable = some d → d % eEpoch = 0 ∧ 0 < d ∧ 2 ≤ s.vol.next ∧ s.vol.next ≤ d ∧
        d ≤ s.vol.next + eEpoch
  below : ∀ u ∈ s.used, u < s.vol.next
  sorted : s.used.Pairwise (· > ·)

/-- stored epochs the code can have written itself: none, or a positive multiple of the epoch size -/
def EStart (d0 : Option Nat) : Prop := ∀ d, d0 = some d → d % eEpoch = 0 ∧ 0 < d

theorem einv_boot (d0 : Option Nat) (h : EStart d0) : EInv (ESys.boot d0) := by
  have hE := eEpoch_eq
  cases d0 with
  | none =>
    refine ⟨fun _ => ⟨rfl, rfl⟩, ?_, ?_, List.Pairwise.nil⟩
    · intro d hd; exact absurd hd (by simp [ESys.boot])
    · intro u hu; exact absurd hu (by simp [ESys.boot])
  | some d =>
    obtain ⟨h1, h2⟩ := h d rfl
    refine ⟨?_, ?_, ?_, List.Pairwise.nil⟩
    · intro hd; exact absurd hd (by simp [ESys.boot])
    · intro d' hd'
      have : d' = d := by simpa [ESys.boot] using hd'.symm
      subst this
      simp only [ESys.boot, EVol.load]
      refine ⟨h1, h2, ?_, Nat.le_refl _, by omega⟩
      eomega
    · intro u hu; exact absurd hu (by simp [ESys.boot])

def eCost1 : EOp → Nat
  | .push => 1
  | .pushCrash => eEpoch
  | .pushFail => 1
  | .crash => eEpoch

def eCost : List EOp → Nat
  | [] => 0
  | op :: r => eCost1 op + eCost r

/-- what `next_event_number` does below the wrap of the u64 -/
theorem nextNumber_eq (v : EVol) (hb : v.next + eEpoch + 1 < U64) (h1 : 1 ≤ v.next) :
    v.nextNumber = ({ next := v.next + 1 },
      (if v.next = 1 ∨ v.next % eEpoch = 0 then
        some (if v.next = 1 then eEpoch else v.next + eEpoch) else none), v.next) := by
  have hE := eEpoch_eq
  have hU := U64_eq
  unfold EVol.nextNumber
  have a1 : max ((v.next + 1) % U64) 1 = v.next + 1 := by
    rw [Nat.mod_eq_of_lt (by omega)]; omega
  have a2 : max ((v.next + eEpoch) % U64) 1 = v.next + eEpoch := by
    rw [Nat.mod_eq_of_lt (by omega)]; omega
  simp only [a1, a2]

theorem einv_step {s : ESys} (h : EInv s) (op : EOp) (hb : s.vol.next + eEpoch + 1 < U64) :
    EInv (eStep s op) ∧ (eStep s op).vol.next ≤ s.vol.next + eCost1 op := by
  have hE := eEpoch_eq
  obtain ⟨hnodur, hdur, hbelow, hsorted⟩ := h
  have h1 : 1 ≤ s.vol.next := by
    cases hd : s.durable with
    | none => have := (hnodur hd).1; omega
    | some d => have := (hdur d hd).2.2.1; omega
  have hnn := nextNumber_eq s.vol hb h1
  cases op with
  | crash =>
    cases hd : s.durable with
    | none =>
      obtain ⟨hn1, hu0⟩ := hnodur hd
      have hS : eStep s .crash = { s with vol := { next := 1 } } := by
        simp only [eStep, hd, EVol.load, EVol.new]
      rw [hS]
      refine ⟨⟨fun _ => ⟨rfl, hu0⟩, ?_, ?_, hsorted⟩, ?_⟩
      · intro d hd'; rw [hd] at hd'; exact absurd hd' (by simp)
      · intro u hu; rw [hu0] at hu; exact absurd hu (by simp)
      · show 1 ≤ s.vol.next + eCost1 .crash; omega
    | some d =>
      obtain ⟨d1, d2, d3, d4, d5⟩ := hdur d hd
      have hS : eStep s .crash = { s with vol := { next := d } } := by
        simp only [eStep, hd, EVol.load]
      rw [hS]
      refine ⟨⟨?_, ?_, ?_, hsorted⟩, ?_⟩
      · intro hd'; rw [hd] at hd'; exact absurd hd' (by simp)
      · intro d' hd'
        have : d' = d := by rw [hd] at hd'; simpa using hd'.symm
        subst this
        exact ⟨d1, d2, by show 2 ≤ d'; omega, Nat.le_refl _, by show d' ≤ d' + eEpoch; omega⟩
      · intro u hu; have := hbelow u hu; show u < d; omega
      · show d ≤ s.vol.next + eCost1 .crash; simp only [eCost1]; omega
  | push =>
    by_cases hc : s.vol.next = 1 ∨ s.vol.next % eEpoch = 0
    · -- an epoch is stored before the number is returned
      have hS : eStep s .push =
          { vol := { next := s.vol.next + 1 },
            durable := some (if s.vol.next = 1 then eEpoch else s.vol.next + eEpoch),
            used := s.vol.next :: s.used } := by
        simp only [eStep, hnn, if_pos hc]
      rw [hS]
      refine ⟨⟨?_, ?_, ?_, ?_⟩, ?_⟩
      · intro hd'; exact absurd hd' (by simp)
      · intro d' hd'
        simp only [Option.some.injEq] at hd'
        subst hd'
        by_cases hn1 : s.vol.next = 1
        · simp only [if_pos hn1]; refine ⟨by eomega, by omega, ?_, ?_, ?_⟩ <;> eomega
        · simp only [if_neg hn1]
          have hm : s.vol.next % eEpoch = 0 := by rcases hc with h | h; exact absurd h hn1; exact h
          refine ⟨by eomega, by omega, ?_, ?_, ?_⟩ <;> eomega
      · intro u hu
        show u < s.vol.next + 1
        rcases List.mem_cons.mp hu with h | h
        · omega
        · have := hbelow u h; omega
      · show (s.vol.next :: s.used).Pairwise (· > ·)
        rw [List.pairwise_cons]; exact ⟨fun u hu => hbelow u hu, hsorted⟩
      · show s.vol.next + 1 ≤ s.vol.next + eCost1 .push; simp only [eCost1]; omega
    · have hn1 : s.vol.next ≠ 1 := fun h => hc (Or.inl h)
      have hm : s.vol.next % eEpoch ≠ 0 := fun h => hc (Or.inr h)
      cases hd : s.durable with
      | none => exact absurd (hnodur hd).1 hn1
      | some d =>
        obtain ⟨d1, d2, d3, d4, d5⟩ := hdur d hd
        have hS : eStep s .push =
            { vol := { next := s.vol.next + 1 }, durable := some d, used := s.vol.next :: s.used } := by
          simp only [eStep, hnn, if_neg hc, hd]
        rw [hS]
        have hlt : s.vol.next ≠ d := by intro he; rw [he] at hm; exact hm d1
        refine ⟨⟨?_, ?_, ?_, ?_⟩, ?_⟩
        · intro hd'; exact absurd hd' (by simp)
        · intro d' hd'
          simp only [Option.some.injEq] at hd'
          subst hd'
          refine ⟨d1, d2, ?_, ?_, ?_⟩ <;> dsimp only <;> omega
        · intro u hu
          show u < s.vol.next + 1
          rcases List.mem_cons.mp hu with h | h
          · omega
          · have := hbelow u h; omega
        · show (s.vol.next :: s.used).Pairwise (· > ·)
          rw [List.pairwise_cons]; exact ⟨fun u hu => hbelow u hu, hsorted⟩
        · show s.vol.next + 1 ≤ s.vol.next + eCost1 .push; simp only [eCost1]; omega
  | pushFail =>
    by_cases hc : s.vol.next = 1 ∨ s.vol.next % eEpoch = 0
    · -- an epoch is due and its store fails: the error is returned before anything changes
      have hS : eStep s .pushFail = s := by simp only [eStep, hnn, if_pos hc]
      rw [hS]
      exact ⟨⟨hnodur, hdur, hbelow, hsorted⟩, by omega⟩
    · have hn1 : s.vol.next ≠ 1 := fun h => hc (Or.inl h)
      have hm : s.vol.next % eEpoch ≠ 0 := fun h => hc (Or.inr h)
      cases hd : s.durable with
      | none => exact absurd (hnodur hd).1 hn1
      | some d =>
        obtain ⟨d1, d2, d3, d4, d5⟩ := hdur d hd
        have hS : eStep s .pushFail =
            { vol := { next := s.vol.next + 1 }, durable := some d, used := s.vol.next :: s.used } := by
          simp only [eStep, hnn, if_neg hc, hd]
        rw [hS]
        have hlt : s.vol.next ≠ d := by intro he; rw [he] at hm; exact hm d1
        refine ⟨⟨?_, ?_, ?_, ?_⟩, ?_⟩
        · intro hd'; exact absurd hd' (by simp)
        · intro d' hd'
          simp only [Option.some.injEq] at hd'
          subst hd'
          refine ⟨d1, d2, ?_, ?_, ?_⟩ <;> dsimp only <;> omega
        · intro u hu
          show u < s.vol.next + 1
          rcases List.mem_cons.mp hu with h | h
          · omega
          · have := hbelow u h; omega
        · show (s.vol.next :: s.used).Pairwise (· > ·)
          rw [List.pairwise_cons]; exact ⟨fun u hu => hbelow u hu, hsorted⟩
        · show s.vol.next + 1 ≤ s.vol.next + eCost1 .pushFail; simp only [eCost1]; omega
  | pushCrash =>
    by_cases hc : s.vol.next = 1 ∨ s.vol.next % eEpoch = 0
    · have hS : eStep s .pushCrash =
          { s with vol := { next := (if s.vol.next = 1 then eEpoch else s.vol.next + eEpoch) },
                   durable := some (if s.vol.next = 1 then eEpoch else s.vol.next + eEpoch) } := by
        simp only [eStep, hnn, if_pos hc, EVol.load]
      rw [hS]
      generalize hD : (if s.vol.next = 1 then eEpoch else s.vol.next + eEpoch) = D
      have hDf : D % eEpoch = 0 ∧ 0 < D ∧ s.vol.next < D ∧ D ≤ s.vol.next + eEpoch := by
        by_cases hn1 : s.vol.next = 1
        · rw [if_pos hn1] at hD; subst hD
          refine ⟨by eomega, by eomega, by eomega, by eomega⟩
        · rw [if_neg hn1] at hD; subst hD
          have hm : s.vol.next % eEpoch = 0 := by rcases hc with h | h; exact absurd h hn1; exact h
          eomega
      refine ⟨⟨?_, ?_, ?_, hsorted⟩, ?_⟩
      · intro hd'; exact absurd hd' (by simp)
      · intro d' hd'
        simp only [Option.some.injEq] at hd'
        subst hd'
        refine ⟨hDf.1, hDf.2.1, ?_, ?_, ?_⟩ <;> dsimp only <;> omega
      · intro u hu; have := hbelow u hu; show u < D; omega
      · show D ≤ s.vol.next + eCost1 .pushCrash; simp only [eCost1]; omega
    · have hn1 : s.vol.next ≠ 1 := fun h => hc (Or.inl h)
      cases hd : s.durable with
      | none => exact absurd (hnodur hd).1 hn1
      | some d =>
        obtain ⟨d1, d2, d3, d4, d5⟩ := hdur d hd
        have hS : eStep s .pushCrash = { s with vol := { next := d }, durable := some d } := by
          simp only [eStep, hnn, if_neg hc, hd, EVol.load]
        rw [hS]
        refine ⟨⟨?_, ?_, ?_, hsorted⟩, ?_⟩
        · intro hd'; exact absurd hd' (by simp)
        · intro d' hd'
          simp only [Option.some.injEq] at hd'
          subst hd'
          refine ⟨d1, d2, ?_, ?_, ?_⟩ <;> dsimp only <;> omega
        · intro u hu; have := hbelow u hu; show u < d; omega
        · show d ≤ s.vol.next + eCost1 .pushCrash; simp only [eCost1]; omega

theorem einv_run (ops : List EOp) : ∀ {s : ESys}, EInv s →
    s.vol.next + eCost ops + eEpoch + 1 < U64 →
    EInv (eRun s ops) ∧ (eRun s ops).vol.next ≤ s.vol.next + eCost ops := by
  induction ops with
  | nil => intro s h _; exact ⟨h, by simp [eRun, eCost]⟩
  | cons op ops ih =>
    intro s h hb
    simp only [eCost] at hb
    obtain ⟨h1, h2⟩ := einv_step h op (by omega)
    obtain ⟨h3, h4⟩ := ih h1 (by omega)
    refine ⟨h3, ?_⟩
    simp only [eRun, eCost]; omega



/-! ## 3. Check-In counter: cyclic values `0..2^32-1` -/

/-- the value at unbounded position `p` -/
def cval (p : Nat) : Nat := p % U32

theorem cval_inj {p q : Nat} (h1 : p ≤ q) (h2 : q < p + U32) (h : cval p = cval q) : p = q := by
  simp only [cval, U32_eq] at *; omega

/-- `omega` after unfolding `cval` and replacing 2^32 by its literal (needed under `%`) -/
macro "comega" : tactic => `(tactic| ((simp only [cval, U32_eq] at *) <;> omega))

structure CGhost where
  /-- position of `value` (the last value consumed) -/
  vpos : Nat
  /-- position of `next_epoch` -/
  npos : Nat
  /-- position of the stored boundary (meaningful when the key is present) -/
  dpos : Nat
  base : Nat
  spent : Nat
  /-- positions of the values that reached the wire, newest first -/
  upos : List Nat

def cGhostStep (s : CSys) (g : CGhost) : COp → CGhost
  | .boot init =>
    match s.durable with
    | some _ => { g with vpos := g.dpos, npos := g.dpos + s.ctr.epoch, spent := g.spent + s.ctr.epoch }
    | none => { g with vpos := init, npos := init + s.ctr.epoch, base := init, spent := 0 }
  | .persist => { g with dpos := g.npos }
  | .persistFail => g
  | .use => { g with upos := (g.vpos + 1) :: g.upos }
  | .advance =>
    if g.vpos + 1 = g.npos then
      { g with vpos := g.vpos + 1, npos := g.npos + s.ctr.epoch, spent := g.spent + 1 }
    else { g with vpos := g.vpos + 1, spent := g.spent + 1 }
  | .advanceStoreFail =>
    if g.vpos + 1 = g.npos then
      { g with vpos := g.vpos + 1, npos := g.npos + s.ctr.epoch, spent := g.spent + 1 }
    else { g with vpos := g.vpos + 1, spent := g.spent + 1 }
  | .advanceStore =>
    if g.vpos + 1 = g.npos then
      { g with vpos := g.vpos + 1, npos := g.npos + s.ctr.epoch, dpos := g.npos + s.ctr.epoch,
               spent := g.spent + 1 }
    else { g with vpos := g.vpos + 1, spent := g.spent + 1 }
  | .jump d =>
    if g.vpos + d ≥ g.npos then
      { g with vpos := g.vpos + d, npos := g.vpos + d + s.ctr.epoch, spent := g.spent + d }
    else { g with vpos := g.vpos + d, spent := g.spent + d }

/-- 1 between a `use` and the `advance` that consumes it -/
def peek1 (s : CSys) : Nat := if s.peeked then 1 else 0

structure CInv (s : CSys) (g : CGhost) : Prop where
  ep : 1 ≤ s.ctr.epoch ∧ s.ctr.epoch < U32
  val : s.ctr.value = cval g.vpos ∧ s.ctr.nextEpoch = cval g.npos ∧ g.vpos < g.npos ∧
        g.npos ≤ g.vpos + s.ctr.epoch
  dur : ∀ d, s.durable = some d → d = cval g.dpos ∧ g.dpos ≤ g.npos ∧ g.base ≤ g.dpos
  npend : s.pending = false → (∃ d, s.durable = some d) ∧ g.dpos = g.npos
  window : g.base ≤ g.vpos ∧ g.vpos ≤ g.base + g.spent
  used_eq : s.used = g.upos.map cval
  wl : s.well = true →
        (∀ p ∈ g.upos, g.base < p ∧ p ≤ g.vpos + peek1 s ∧ (∃ d, s.durable = some d) ∧ p ≤ g.dpos) ∧
        g.upos.Pairwise (· > ·)

def CGhost.boot (d0 : Option Nat) (init epoch : Nat) : CGhost :=
  match d0 with
  | some d => { vpos := d, npos := d + epoch, dpos := d, base := d, spent := 0, upos := [] }
  | none => { vpos := init, npos := init + epoch, dpos := 0, base := init, spent := 0, upos := [] }

/-- start of a storage lifetime: u32 arguments, non-zero epoch (asserted by `CheckInCounter::new`) -/
def CStart (d0 : Option Nat) (init epoch : Nat) : Prop :=
  (∀ d, d0 = some d → d < U32) ∧ init < U32 ∧ 1 ≤ epoch ∧ epoch < U32

theorem cinv_boot (d0 : Option Nat) (init epoch : Nat) (h : CStart d0 init epoch) :
    CInv (CSys.boot d0 init epoch) (CGhost.boot d0 init epoch) := by
  have hU := U32_eq
  obtain ⟨h1, h2, h3, h4⟩ := h
  cases d0 with
  | none =>
    refine ⟨⟨h3, h4⟩, ?_, ?_, ?_, ?_, rfl, ?_⟩
    · simp only [CSys.boot, CGhost.boot, CK.new]
      refine ⟨?_, ?_, ?_, ?_⟩ <;> comega
    · intro d hd; exact absurd hd (by simp [CSys.boot])
    · intro hp; exact absurd hp (by simp [CSys.boot])
    · simp only [CGhost.boot]; omega
    · intro _; exact ⟨fun p hp => absurd hp (by simp [CGhost.boot]), List.Pairwise.nil⟩
  | some d =>
    have hd := h1 d rfl
    refine ⟨⟨h3, h4⟩, ?_, ?_, ?_, ?_, rfl, ?_⟩
    · simp only [CSys.boot, CGhost.boot, CK.new]
      refine ⟨?_, ?_, ?_, ?_⟩ <;> comega
    · intro d' hd'
      have : d' = d := by simpa [CSys.boot] using hd'.symm
      subst this
      simp only [CGhost.boot]
      refine ⟨?_, ?_, ?_⟩ <;> comega
    · intro hp; exact absurd hp (by simp [CSys.boot])
    · simp only [CGhost.boot]; omega
    · intro _; exact ⟨fun p hp => absurd hp (by simp [CGhost.boot]), List.Pairwise.nil⟩

/-- arguments of the operations are `u32` -/
def COpOk : COp → Prop
  | .boot init => init < U32
  | _ => True



/-- `advance()` in positions: the equality test fires exactly when the position reaches the boundary -/
theorem ck_advance_eq {c : CK} {vpos npos : Nat} (hv : c.value = cval vpos) (hn : c.nextEpoch = cval npos)
    (h1 : vpos < npos) (h2 : npos ≤ vpos + c.epoch) (he : c.epoch < U32) :
    c.advance = if vpos + 1 = npos then
        ({ c with value := cval (vpos + 1), nextEpoch := cval (npos + c.epoch) }, some (cval (npos + c.epoch)))
      else ({ c with value := cval (vpos + 1) }, none) := by
  have hU := U32_eq
  unfold CK.advance
  have a1 : (c.value + 1) % U32 = cval (vpos + 1) := by rw [hv]; comega
  have a2 : (c.nextEpoch + c.epoch) % U32 = cval (npos + c.epoch) := by rw [hn]; comega
  have a3 : (cval (vpos + 1) = c.nextEpoch) ↔ vpos + 1 = npos := by
    rw [hn]
    constructor
    · intro h; exact cval_inj (by omega) (by omega) h
    · intro h; rw [h]
  simp only [a1, a2, a3]

/-- `advance_by(delta)` in positions -/
theorem ck_advanceBy_eq {c : CK} {vpos npos : Nat} (delta : Nat) (hv : c.value = cval vpos)
    (hn : c.nextEpoch = cval npos) (h1 : vpos < npos) (h2 : npos ≤ vpos + c.epoch) (he : c.epoch < U32) :
    c.advanceBy delta = if vpos + delta ≥ npos then
        ({ c with value := cval (vpos + delta), nextEpoch := cval (vpos + delta + c.epoch) },
          some (cval (vpos + delta + c.epoch)))
      else ({ c with value := cval (vpos + delta) }, none) := by
  have hU := U32_eq
  unfold CK.advanceBy
  have a0 : (c.nextEpoch + (U32 - c.value)) % U32 = npos - vpos := by rw [hv, hn]; comega
  have a1 : (c.value + delta) % U32 = cval (vpos + delta) := by rw [hv]; comega
  have a2 : (cval (vpos + delta) + c.epoch) % U32 = cval (vpos + delta + c.epoch) := by comega
  have a3 : (delta ≥ npos - vpos) ↔ (vpos + delta ≥ npos) := by omega
  simp only [a0, a1, a2, a3]

theorem cinv_boot_op {s : CSys} {g : CGhost} (h : CInv s g) (init : Nat) (hok : init < U32) :
    CInv (cStep s (.boot init)) (cGhostStep s g (.boot init)) := by
  have hU := U32_eq
  obtain ⟨hep, hval, hdur, hnp, hwin, hue, hwl⟩ := h
  obtain ⟨hv, hn, hvn, hnv⟩ := hval
  have hinit : init < U32 := hok
  cases hd : s.durable with
  | none =>
    have hS : cStep s (.boot init) =
        { s with ctr := CK.new init s.ctr.epoch, pending := true, peeked := false, due := false } := by
      simp only [cStep, hd]
    have hG : cGhostStep s g (.boot init) =
        { g with vpos := init, npos := init + s.ctr.epoch, base := init, spent := 0 } := by
      simp only [cGhostStep, hd]
    rw [hS, hG]
    refine ⟨hep, ?_, ?_, ?_, ?_, hue, ?_⟩
    · simp only [CK.new]; refine ⟨?_, ?_, ?_, ?_⟩ <;> comega
    · intro d hd'; rw [hd] at hd'; exact absurd hd' (by simp)
    · intro hp; exact absurd hp (by simp)
    · show init ≤ init ∧ init ≤ init + 0; omega
    · intro hw
      obtain ⟨hw1, hw2⟩ := hwl hw
      refine ⟨?_, hw2⟩
      intro p hp
      obtain ⟨_, _, ⟨d, hd'⟩, _⟩ := hw1 p hp
      rw [hd] at hd'; exact absurd hd' (by simp)
  | some d =>
    obtain ⟨d1, d2, d3⟩ := hdur d hd
    have hS : cStep s (.boot init) =
        { s with ctr := CK.new d s.ctr.epoch, pending := true, peeked := false, due := false } := by
      simp only [cStep, hd]
    have hG : cGhostStep s g (.boot init) =
        { g with vpos := g.dpos, npos := g.dpos + s.ctr.epoch, spent := g.spent + s.ctr.epoch } := by
      simp only [cGhostStep, hd]
    rw [hS, hG]
    refine ⟨hep, ?_, ?_, ?_, ?_, hue, ?_⟩
    · simp only [CK.new]; refine ⟨d1, ?_, ?_, ?_⟩ <;> comega
    · intro d' hd'
      have : d' = d := by rw [hd] at hd'; simpa using hd'.symm
      subst this
      refine ⟨d1, ?_, d3⟩
      show g.dpos ≤ g.dpos + s.ctr.epoch; omega
    · intro hp; exact absurd hp (by simp)
    · show g.base ≤ g.dpos ∧ g.dpos ≤ g.base + (g.spent + s.ctr.epoch); omega
    · intro hw
      obtain ⟨hw1, hw2⟩ := hwl hw
      refine ⟨?_, hw2⟩
      intro p hp
      obtain ⟨p1, p2, _, p4⟩ := hw1 p hp
      refine ⟨p1, ?_, ⟨d, hd⟩, p4⟩
      show p ≤ g.dpos + 0; omega

theorem cinv_persist {s : CSys} {g : CGhost} (h : CInv s g)  :
    CInv (cStep s .persist) (cGhostStep s g .persist) := by
  have hU := U32_eq
  obtain ⟨hep, hval, hdur, hnp, hwin, hue, hwl⟩ := h
  obtain ⟨hv, hn, hvn, hnv⟩ := hval
  have hS : cStep s .persist = { s with durable := some s.ctr.nextEpoch, pending := false, due := false } := by
    simp only [cStep, CK.persistValue]
  have hG : cGhostStep s g .persist = { g with dpos := g.npos } := by simp only [cGhostStep]
  rw [hS, hG]
  refine ⟨hep, ⟨hv, hn, hvn, hnv⟩, ?_, ?_, hwin, hue, ?_⟩
  · intro d hd
    simp only [Option.some.injEq] at hd; subst hd
    refine ⟨hn, Nat.le_refl _, ?_⟩
    show g.base ≤ g.npos; omega
  · intro _; exact ⟨⟨_, rfl⟩, rfl⟩
  · intro hw
    obtain ⟨hw1, hw2⟩ := hwl hw
    refine ⟨?_, hw2⟩
    intro p hp
    obtain ⟨p1, p2, ⟨d, hd⟩, p4⟩ := hw1 p hp
    have := (hdur d hd).2.1
    refine ⟨p1, p2, ⟨_, rfl⟩, ?_⟩
    show p ≤ g.npos; omega

theorem cinv_use {s : CSys} {g : CGhost} (h : CInv s g)  :
    CInv (cStep s .use) (cGhostStep s g .use) := by
  have hU := U32_eq
  obtain ⟨hep, hval, hdur, hnp, hwin, hue, hwl⟩ := h
  obtain ⟨hv, hn, hvn, hnv⟩ := hval
  have hS : cStep s .use =
      { s with used := s.ctr.next :: s.used, peeked := true, well := (s.well && !s.pending && !s.peeked) } := by
    simp only [cStep]
  have hG : cGhostStep s g .use = { g with upos := (g.vpos + 1) :: g.upos } := by
    simp only [cGhostStep]
  rw [hS, hG]
  refine ⟨hep, ⟨hv, hn, hvn, hnv⟩, hdur, hnp, hwin, ?_, ?_⟩
  · show s.ctr.next :: s.used = List.map cval ((g.vpos + 1) :: g.upos)
    rw [List.map_cons, ← hue]
    congr 1
    unfold CK.next; rw [hv]; comega
  · intro hw
    have hw' : s.well = true ∧ s.pending = false ∧ s.peeked = false := by
      have : (s.well && !s.pending && !s.peeked) = true := hw
      revert this
      cases s.well <;> cases s.pending <;> cases s.peeked <;> simp
    obtain ⟨w1, w2, w3⟩ := hw'
    obtain ⟨hw1, hw2⟩ := hwl w1
    obtain ⟨hds, hdn⟩ := hnp w2
    have hpk : peek1 s = 0 := by simp [peek1, w3]
    refine ⟨?_, ?_⟩
    · intro p hp
      show g.base < p ∧ p ≤ g.vpos + 1 ∧ (∃ d, s.durable = some d) ∧ p ≤ g.dpos
      rcases List.mem_cons.mp hp with h1 | h1
      · subst h1; exact ⟨by omega, by omega, hds, by omega⟩
      · obtain ⟨p1, p2, p3, p4⟩ := hw1 p h1
        rw [hpk] at p2
        exact ⟨p1, by omega, p3, p4⟩
    · show ((g.vpos + 1) :: g.upos).Pairwise (· > ·)
      rw [List.pairwise_cons]
      refine ⟨?_, hw2⟩
      intro p hp
      have := (hw1 p hp).2.1
      rw [hpk] at this
      show g.vpos + 1 > p; omega

theorem cinv_advance {s : CSys} {g : CGhost} (h : CInv s g)  :
    CInv (cStep s .advance) (cGhostStep s g .advance) := by
  have hU := U32_eq
  obtain ⟨hep, hval, hdur, hnp, hwin, hue, hwl⟩ := h
  obtain ⟨hv, hn, hvn, hnv⟩ := hval
  have hadv := ck_advance_eq hv hn hvn hnv hep.2
  by_cases hit : g.vpos + 1 = g.npos
  · rw [if_pos hit] at hadv
    have hS : cStep s .advance =
        { s with ctr := { s.ctr with value := cval (g.vpos + 1), nextEpoch := cval (g.npos + s.ctr.epoch) },
                 peeked := false, pending := s.pending || true } := by
      simp only [cStep, hadv, Option.isSome_some, Option.isSome_none, Bool.or_true, Bool.or_false]
    have hG : cGhostStep s g .advance =
        { g with vpos := g.vpos + 1, npos := g.npos + s.ctr.epoch, spent := g.spent + 1 } := by
      simp only [cGhostStep, if_pos hit]
    rw [hS, hG]
    refine ⟨hep, ⟨rfl, rfl, ?_, ?_⟩, ?_, ?_, ?_, hue, ?_⟩
    · show g.vpos + 1 < g.npos + s.ctr.epoch; omega
    · show g.npos + s.ctr.epoch ≤ g.vpos + 1 + s.ctr.epoch; omega
    · intro d hd
      obtain ⟨d1, d2, d3⟩ := hdur d hd
      refine ⟨d1, ?_, d3⟩
      show g.dpos ≤ g.npos + s.ctr.epoch; omega
    · intro hp
      have : (s.pending || true) = false := hp
      simp at this
    · show g.base ≤ g.vpos + 1 ∧ g.vpos + 1 ≤ g.base + (g.spent + 1); omega
    · intro hw
      obtain ⟨hw1, hw2⟩ := hwl hw
      refine ⟨?_, hw2⟩
      intro p hp
      obtain ⟨p1, p2, p3, p4⟩ := hw1 p hp
      have : peek1 s ≤ 1 := by unfold peek1; split <;> omega
      refine ⟨p1, ?_, p3, p4⟩
      show p ≤ g.vpos + 1 + 0; omega
  · rw [if_neg hit] at hadv
    have hS : cStep s .advance =
        { s with ctr := { s.ctr with value := cval (g.vpos + 1) },
                 peeked := false, pending := s.pending || false } := by
      simp only [cStep, hadv, Option.isSome_some, Option.isSome_none, Bool.or_true, Bool.or_false]
    have hG : cGhostStep s g .advance = { g with vpos := g.vpos + 1, spent := g.spent + 1 } := by
      simp only [cGhostStep, if_neg hit]
    rw [hS, hG]
    refine ⟨hep, ⟨rfl, hn, ?_, ?_⟩, hdur, ?_, ?_, hue, ?_⟩
    · show g.vpos + 1 < g.npos; omega
    · show g.npos ≤ g.vpos + 1 + s.ctr.epoch; omega
    · intro hp
      have : s.pending = false := by
        have : (s.pending || false) = false := hp
        simpa using this
      exact hnp this
    · show g.base ≤ g.vpos + 1 ∧ g.vpos + 1 ≤ g.base + (g.spent + 1); omega
    · intro hw
      obtain ⟨hw1, hw2⟩ := hwl hw
      refine ⟨?_, hw2⟩
      intro p hp
      obtain ⟨p1, p2, p3, p4⟩ := hw1 p hp
      have : peek1 s ≤ 1 := by unfold peek1; split <;> omega
      refine ⟨p1, ?_, p3, p4⟩
      show p ≤ g.vpos + 1 + 0; omega

/-- a FAILED store after `advance()`: the boundary is pending, exactly as if the application had not
stored yet -/
theorem cinv_advanceStoreFail {s : CSys} {g : CGhost} (h : CInv s g)  :
    CInv (cStep s .advanceStoreFail) (cGhostStep s g .advanceStoreFail) := by
  have hU := U32_eq
  obtain ⟨hep, hval, hdur, hnp, hwin, hue, hwl⟩ := h
  obtain ⟨hv, hn, hvn, hnv⟩ := hval
  have hadv := ck_advance_eq hv hn hvn hnv hep.2
  by_cases hit : g.vpos + 1 = g.npos
  · rw [if_pos hit] at hadv
    have hS : cStep s .advanceStoreFail =
        { s with ctr := { s.ctr with value := cval (g.vpos + 1), nextEpoch := cval (g.npos + s.ctr.epoch) },
                 peeked := false, pending := s.pending || true, due := s.due || true } := by
      simp only [cStep, hadv, Option.isSome_some, Option.isSome_none, Bool.or_true, Bool.or_false]
    have hG : cGhostStep s g .advanceStoreFail =
        { g with vpos := g.vpos + 1, npos := g.npos + s.ctr.epoch, spent := g.spent + 1 } := by
      simp only [cGhostStep, if_pos hit]
    rw [hS, hG]
    refine ⟨hep, ⟨rfl, rfl, ?_, ?_⟩, ?_, ?_, ?_, hue, ?_⟩
    · show g.vpos + 1 < g.npos + s.ctr.epoch; omega
    · show g.npos + s.ctr.epoch ≤ g.vpos + 1 + s.ctr.epoch; omega
    · intro d hd
      obtain ⟨d1, d2, d3⟩ := hdur d hd
      refine ⟨d1, ?_, d3⟩
      show g.dpos ≤ g.npos + s.ctr.epoch; omega
    · intro hp
      have : (s.pending || true) = false := hp
      simp at this
    · show g.base ≤ g.vpos + 1 ∧ g.vpos + 1 ≤ g.base + (g.spent + 1); omega
    · intro hw
      obtain ⟨hw1, hw2⟩ := hwl hw
      refine ⟨?_, hw2⟩
      intro p hp
      obtain ⟨p1, p2, p3, p4⟩ := hw1 p hp
      have : peek1 s ≤ 1 := by unfold peek1; split <;> omega
      refine ⟨p1, ?_, p3, p4⟩
      show p ≤ g.vpos + 1 + 0; omega
  · rw [if_neg hit] at hadv
    have hS : cStep s .advanceStoreFail =
        { s with ctr := { s.ctr with value := cval (g.vpos + 1) },
                 peeked := false, pending := s.pending || false, due := s.due || false } := by
      simp only [cStep, hadv, Option.isSome_some, Option.isSome_none, Bool.or_true, Bool.or_false]
    have hG : cGhostStep s g .advanceStoreFail = { g with vpos := g.vpos + 1, spent := g.spent + 1 } := by
      simp only [cGhostStep, if_neg hit]
    rw [hS, hG]
    refine ⟨hep, ⟨rfl, hn, ?_, ?_⟩, hdur, ?_, ?_, hue, ?_⟩
    · show g.vpos + 1 < g.npos; omega
    · show g.npos ≤ g.vpos + 1 + s.ctr.epoch; omega
    · intro hp
      have : s.pending = false := by
        have : (s.pending || false) = false := hp
        simpa using this
      exact hnp this
    · show g.base ≤ g.vpos + 1 ∧ g.vpos + 1 ≤ g.base + (g.spent + 1); omega
    · intro hw
      obtain ⟨hw1, hw2⟩ := hwl hw
      refine ⟨?_, hw2⟩
      intro p hp
      obtain ⟨p1, p2, p3, p4⟩ := hw1 p hp
      have : peek1 s ≤ 1 := by unfold peek1; split <;> omega
      refine ⟨p1, ?_, p3, p4⟩
      show p ≤ g.vpos + 1 + 0; omega

theorem cinv_advanceStore {s : CSys} {g : CGhost} (h : CInv s g)  :
    CInv (cStep s .advanceStore) (cGhostStep s g .advanceStore) := by
  have hU := U32_eq
  obtain ⟨hep, hval, hdur, hnp, hwin, hue, hwl⟩ := h
  obtain ⟨hv, hn, hvn, hnv⟩ := hval
  have hadv := ck_advance_eq hv hn hvn hnv hep.2
  by_cases hit : g.vpos + 1 = g.npos
  · rw [if_pos hit] at hadv
    have hS : cStep s .advanceStore =
        { s with ctr := { s.ctr with value := cval (g.vpos + 1), nextEpoch := cval (g.npos + s.ctr.epoch) },
                 peeked := false, durable := some (cval (g.npos + s.ctr.epoch)), pending := false } := by
      simp only [cStep, hadv]
    have hG : cGhostStep s g .advanceStore =
        { g with vpos := g.vpos + 1, npos := g.npos + s.ctr.epoch, dpos := g.npos + s.ctr.epoch,
                 spent := g.spent + 1 } := by
      simp only [cGhostStep, if_pos hit]
    rw [hS, hG]
    refine ⟨hep, ⟨rfl, rfl, ?_, ?_⟩, ?_, ?_, ?_, hue, ?_⟩
    · show g.vpos + 1 < g.npos + s.ctr.epoch; omega
    · show g.npos + s.ctr.epoch ≤ g.vpos + 1 + s.ctr.epoch; omega
    · intro d hd
      simp only [Option.some.injEq] at hd; subst hd
      refine ⟨rfl, Nat.le_refl _, ?_⟩
      show g.base ≤ g.npos + s.ctr.epoch; omega
    · intro _; exact ⟨⟨_, rfl⟩, rfl⟩
    · show g.base ≤ g.vpos + 1 ∧ g.vpos + 1 ≤ g.base + (g.spent + 1); omega
    · intro hw
      obtain ⟨hw1, hw2⟩ := hwl hw
      refine ⟨?_, hw2⟩
      intro p hp
      obtain ⟨p1, p2, ⟨d, hd⟩, p4⟩ := hw1 p hp
      have := (hdur d hd).2.1
      have : peek1 s ≤ 1 := by unfold peek1; split <;> omega
      refine ⟨p1, ?_, ⟨_, rfl⟩, ?_⟩
      · show p ≤ g.vpos + 1 + 0; omega
      · show p ≤ g.npos + s.ctr.epoch; omega
  · rw [if_neg hit] at hadv
    have hS : cStep s .advanceStore =
        { s with ctr := { s.ctr with value := cval (g.vpos + 1) }, peeked := false } := by
      simp only [cStep, hadv]
    have hG : cGhostStep s g .advanceStore = { g with vpos := g.vpos + 1, spent := g.spent + 1 } := by
      simp only [cGhostStep, if_neg hit]
    rw [hS, hG]
    refine ⟨hep, ⟨rfl, hn, ?_, ?_⟩, hdur, hnp, ?_, hue, ?_⟩
    · show g.vpos + 1 < g.npos; omega
    · show g.npos ≤ g.vpos + 1 + s.ctr.epoch; omega
    · show g.base ≤ g.vpos + 1 ∧ g.vpos + 1 ≤ g.base + (g.spent + 1); omega
    · intro hw
      obtain ⟨hw1, hw2⟩ := hwl hw
      refine ⟨?_, hw2⟩
      intro p hp
      obtain ⟨p1, p2, p3, p4⟩ := hw1 p hp
      have : peek1 s ≤ 1 := by unfold peek1; split <;> omega
      refine ⟨p1, ?_, p3, p4⟩
      show p ≤ g.vpos + 1 + 0; omega

theorem cinv_jump {s : CSys} {g : CGhost} (h : CInv s g) (delta : Nat) :
    CInv (cStep s (.jump delta)) (cGhostStep s g (.jump delta)) := by
  have hU := U32_eq
  obtain ⟨hep, hval, hdur, hnp, hwin, hue, hwl⟩ := h
  obtain ⟨hv, hn, hvn, hnv⟩ := hval
  have hadv := ck_advanceBy_eq delta hv hn hvn hnv hep.2
  by_cases hit : g.vpos + delta ≥ g.npos
  · rw [if_pos hit] at hadv
    have hS : cStep s (.jump delta) =
        { s with ctr := { s.ctr with value := cval (g.vpos + delta),
                                     nextEpoch := cval (g.vpos + delta + s.ctr.epoch) },
                 pending := s.pending || true } := by
      simp only [cStep, hadv, Option.isSome_some, Option.isSome_none, Bool.or_true, Bool.or_false]
    have hG : cGhostStep s g (.jump delta) =
        { g with vpos := g.vpos + delta, npos := g.vpos + delta + s.ctr.epoch, spent := g.spent + delta } := by
      simp only [cGhostStep, if_pos hit]
    have hpk : ∀ (c : CK) (b : Bool), peek1 { s with ctr := c, pending := b } = peek1 s := fun _ _ => rfl
    rw [hS, hG]
    refine ⟨hep, ⟨rfl, rfl, ?_, ?_⟩, ?_, ?_, ?_, hue, ?_⟩
    · show g.vpos + delta < g.vpos + delta + s.ctr.epoch; omega
    · show g.vpos + delta + s.ctr.epoch ≤ g.vpos + delta + s.ctr.epoch; omega
    · intro d hd
      obtain ⟨d1, d2, d3⟩ := hdur d hd
      refine ⟨d1, ?_, d3⟩
      show g.dpos ≤ g.vpos + delta + s.ctr.epoch; omega
    · intro hp
      have : (s.pending || true) = false := hp
      simp at this
    · show g.base ≤ g.vpos + delta ∧ g.vpos + delta ≤ g.base + (g.spent + delta); omega
    · intro hw
      obtain ⟨hw1, hw2⟩ := hwl hw
      refine ⟨?_, hw2⟩
      intro p hp
      obtain ⟨p1, p2, p3, p4⟩ := hw1 p hp
      rw [hpk]
      refine ⟨p1, ?_, p3, p4⟩
      show p ≤ g.vpos + delta + peek1 s; omega
  · rw [if_neg hit] at hadv
    have hS : cStep s (.jump delta) =
        { s with ctr := { s.ctr with value := cval (g.vpos + delta) }, pending := s.pending || false } := by
      simp only [cStep, hadv, Option.isSome_some, Option.isSome_none, Bool.or_true, Bool.or_false]
    have hG : cGhostStep s g (.jump delta) =
        { g with vpos := g.vpos + delta, spent := g.spent + delta } := by
      simp only [cGhostStep, if_neg hit]
    have hpk : ∀ (c : CK) (b : Bool), peek1 { s with ctr := c, pending := b } = peek1 s := fun _ _ => rfl
    rw [hS, hG]
    refine ⟨hep, ⟨rfl, hn, ?_, ?_⟩, hdur, ?_, ?_, hue, ?_⟩
    · show g.vpos + delta < g.npos; omega
    · show g.npos ≤ g.vpos + delta + s.ctr.epoch; omega
    · intro hp
      have : s.pending = false := by
        have : (s.pending || false) = false := hp
        simpa using this
      exact hnp this
    · show g.base ≤ g.vpos + delta ∧ g.vpos + delta ≤ g.base + (g.spent + delta); omega
    · intro hw
      obtain ⟨hw1, hw2⟩ := hwl hw
      refine ⟨?_, hw2⟩
      intro p hp
      obtain ⟨p1, p2, p3, p4⟩ := hw1 p hp
      rw [hpk]
      refine ⟨p1, ?_, p3, p4⟩
      show p ≤ g.vpos + delta + peek1 s; omega

theorem cinv_step {s : CSys} {g : CGhost} (h : CInv s g) (op : COp) (hok : COpOk op) :
    CInv (cStep s op) (cGhostStep s g op) := by
  cases op with
  | boot init => exact cinv_boot_op h init hok
  | persist => exact cinv_persist h
  | use => exact cinv_use h
  | persistFail => exact h
  | advance => exact cinv_advance h
  | advanceStore => exact cinv_advanceStore h
  | advanceStoreFail => exact cinv_advanceStoreFail h
  | jump d => exact cinv_jump h d


theorem ite_fst_epoch (p : Prop) [Decidable p] (a b : CK × Option Nat) (e : Nat)
    (ha : a.1.epoch = e) (hb : b.1.epoch = e) : (if p then a else b).1.epoch = e := by
  split <;> assumption
theorem ck_advance_epoch (c : CK) : c.advance.1.epoch = c.epoch := by
  unfold CK.advance
  exact ite_fst_epoch _ _ _ _ rfl rfl
theorem ck_advanceBy_epoch (c : CK) (d : Nat) : (c.advanceBy d).1.epoch = c.epoch := by
  unfold CK.advanceBy
  exact ite_fst_epoch _ _ _ _ rfl rfl
theorem cstep_jump_eq (s : CSys) (d : Nat) : cStep s (.jump d) =
    { s with ctr := (s.ctr.advanceBy d).1, pending := s.pending || (s.ctr.advanceBy d).2.isSome } := rfl
theorem cstep_epoch (s : CSys) (op : COp) : (cStep s op).ctr.epoch = s.ctr.epoch := by
  cases op with
  | boot i => rfl
  | persist => rfl
  | use => rfl
  | persistFail => rfl
  | advance => simp only [cStep]; exact ck_advance_epoch s.ctr
  | advanceStoreFail => simp only [cStep]; exact ck_advance_epoch s.ctr
  | advanceStore =>
    have := ck_advance_epoch s.ctr
    simp only [cStep]
    split <;> exact this
  | jump d =>
    have h := ck_advanceBy_epoch s.ctr d
    rw [cstep_jump_eq]
    generalize s.ctr.advanceBy d = r at h ⊢
    exact h


/-! ### whole histories of the Check-In counter -/

def cGhostRun (s : CSys) (g : CGhost) : List COp → CGhost
  | [] => g
  | op :: ops => cGhostRun (cStep s op) (cGhostStep s g op) ops

theorem cinv_run (ops : List COp) : ∀ {s : CSys} {g : CGhost}, CInv s g → (∀ op ∈ ops, COpOk op) →
    CInv (cRun s ops) (cGhostRun s g ops) := by
  induction ops with
  | nil => intro s g h _; exact h
  | cons op ops ih =>
    intro s g h hok
    exact ih (cinv_step h op (hok op (List.mem_cons_self ..)))
      (fun o ho => hok o (List.mem_cons_of_mem _ ho))

/-- positions one operation can consume at most -/
def cCost1 (epoch : Nat) : COp → Nat
  | .boot _ => epoch
  | .advance => 1
  | .advanceStore => 1
  | .advanceStoreFail => 1
  | .jump d => d
  | _ => 0

def cCost (epoch : Nat) : List COp → Nat
  | [] => 0
  | op :: r => cCost1 epoch op + cCost epoch r

theorem cspent_step (s : CSys) (g : CGhost) (op : COp) :
    (cGhostStep s g op).spent ≤ g.spent + cCost1 s.ctr.epoch op := by
  cases op <;> simp only [cGhostStep, cCost1] <;> (try split) <;> (try simp only) <;> omega

theorem cspent_run (ops : List COp) : ∀ (s : CSys) (g : CGhost),
    (cGhostRun s g ops).spent ≤ g.spent + cCost s.ctr.epoch ops := by
  induction ops with
  | nil => intro s g; simp [cGhostRun, cCost]
  | cons op ops ih =>
    intro s g
    have h1 := ih (cStep s op) (cGhostStep s g op)
    have h2 := cspent_step s g op
    rw [cstep_epoch] at h1
    simp only [cGhostRun, cCost]
    omega

theorem pairwise_gt_nodup : ∀ (l : List Nat), l.Pairwise (· > ·) → l.Nodup
  | [], _ => List.nodup_nil
  | a :: l, h => by
    rw [List.pairwise_cons] at h
    rw [List.nodup_cons]
    refine ⟨fun hm => ?_, pairwise_gt_nodup l h.2⟩
    have := h.1 a hm
    omega

/-- within one cycle of the range, an obedient application never sends a value twice -/
theorem cinv_values_nodup {s : CSys} {g : CGhost} (h : CInv s g) (hw : s.well = true)
    (hb : g.spent < U32) : s.used.Nodup := by
  obtain ⟨_, _, _, _, hwin, hue, hwl⟩ := h
  obtain ⟨hw1, hw2⟩ := hwl hw
  rw [hue]
  apply nodup_map_of_inj_on (P := fun p => g.base < p ∧ p ≤ g.base + U32)
  · intro p q hp hq hpq
    rcases Nat.le_total p q with hle | hle
    · exact cval_inj hle (by omega) hpq
    · exact (cval_inj hle (by omega) hpq.symm).symm
  · intro p hp
    obtain ⟨p1, p2, _, _⟩ := hw1 p hp
    have : peek1 s ≤ 1 := by unfold peek1; split <;> omega
    omega
  · exact pairwise_gt_nodup _ hw2


end Counters
