import Driver.Util
/-! Driver for C12: not built yet. -/
namespace Driver.C12

def run : IO UInt32 := do
  IO.eprintln "C12: driver not built yet"
  return 2

end Driver.C12
