import RsMatterVerif.Generated.Consts
/-!
# Model of operational certificate chain verification

Transliteration of
* `rs-matter/src/cert.rs`: `CertRef::{get_node_id, get_fabric_id, cert_type, is_authority,
  is_self_signed}`, `CertVerifier::{verify_usage, add_cert, finalise}`;
* `rs-matter/src/sc/case/casep.rs`: `CaseP::validate_certs` (+ the `get_node_id` the CASE
  responder / initiator perform on the validated NOC before binding the session);
* `rs-matter/src/failsafe.rs`: `FailSafe::validate_certs`, and the certificate part of
  `add_noc` / `update_noc` (+ `Fabric::update`'s `get_node_id`).

Cryptography is symbolic: a certificate is the record of the fields the verifier reads, and
"the signature verifies under key `k`" is `sigBy = some k`.  `none` stands for a signature that
verifies under no key at all (flipped bit, to-be-signed bytes altered after signing).
Key identifiers (SKID / AKID) are opaque numbers compared for equality.

Import-free (apart from the generated constants) so that the driver links as an executable.
-/
namespace Cert

/-- One attribute of a distinguished name, in the order it appears in the TLV list.
Only the Matter-specific attributes are interpreted by the verifier. -/
inductive Attr where
  | nodeId (v : Nat)
  | icaId (v : Nat)
  | rootCaId (v : Nat)
  | fabricId (v : Nat)
  | cat (v : Nat)
  | other (tag : Nat) (v : Nat)
deriving DecidableEq, Repr, Inhabited

abbrev DN := List Attr

/-- public-key identity (a key pair); the symbolic counterpart of the 65 key bytes -/
abbrev KeyId := Nat

/-- one DER `Extension` inside a `future-extensions` blob: an OID this verifier does not know and its
`critical` flag (absent = explicit FALSE = `false`) -/
structure FutExt where
  oid : Nat
  critical : Bool
deriving DecidableEq, Repr, Inhabited

structure Cert where
  subject : DN
  issuer : DN
  notBefore : Nat
  notAfter : Nat
  /-- `BasicConstraints` extension: `(is_ca, path_len_constraint)` -/
  bc : Option (Bool × Option Nat)
  /-- `KeyUsage` extension bits (Matter TLV encoding) -/
  keyUsage : Option Nat
  /-- `ExtendedKeyUsage` extension: list of purposes (1 = serverAuth, 2 = clientAuth) -/
  eku : Option (List Nat)
  skid : Option Nat
  akid : Option Nat
  /-- the `future-extensions` TLV elements in order (how several unknown X.509 extensions are carried), each a
  DER blob of sub-extensions `(oid, critical)` -/
  futureExts : List (List FutExt)
  pubKey : KeyId
  /-- symbolic signature: the key under which the signature over this record's TBS verifies -/
  sigBy : Option KeyId
deriving DecidableEq, Repr, Inhabited

/-- `der_blob_has_critical_extension`: walk the sub-extensions of one blob, `true` on the first critical one -/
def blobHasCritical : List FutExt → Bool
  | [] => false
  | e :: r => if e.critical then true else blobHasCritical r

/-- `CertRef::has_critical_future_extension`: loop over ALL `future-extensions` elements of the certificate,
`true` as soon as one of them carries a critical sub-extension -/
def hasCriticalFutureExtension : List (List FutExt) → Bool
  | [] => false
  | el :: r => if blobHasCritical el then true else hasCriticalFutureExtension r

/-- the flag `verify_usage` looks at -/
def Cert.critFuture (c : Cert) : Bool := hasCriticalFutureExtension c.futureExts

/-- small enum of `ErrorCode`s produced on these paths -/
inductive Err where
  | invalidAuthKey | invalidSignature | invalidTime | invalidData | invalid
  | noFabricId | noNodeId
  | nocInvalidNoc | nocInvalidPublicKey | nocFabricConflict
deriving DecidableEq, Repr, Inhabited

def Err.name : Err → String
  | .invalidAuthKey => "InvalidAuthKey"
  | .invalidSignature => "InvalidSignature"
  | .invalidTime => "InvalidTime"
  | .invalidData => "InvalidData"
  | .invalid => "Invalid"
  | .noFabricId => "NoFabricId"
  | .noNodeId => "NoNodeId"
  | .nocInvalidNoc => "NocInvalidNoc"
  | .nocInvalidPublicKey => "NocInvalidPublicKey"
  | .nocFabricConflict => "NocFabricConflict"

/-- `UtcTime` in whole seconds (`any_secs` / `reliable_secs` divide the microseconds by 10⁶) -/
inductive Time where
  | reliable (secs : Nat)
  | lastKnown (secs : Nat)
deriving DecidableEq, Repr, Inhabited

def Time.anySecs : Time → Nat
  | .reliable s => s
  | .lastKnown s => s

def Time.reliableSecs : Time → Option Nat
  | .reliable s => some s
  | .lastKnown _ => none

/-! ## `CertRef` accessors -/

/-- `get_node_id`: value of the first `NodeId` attribute of the subject -/
def nodeIdOf : DN → Option Nat
  | [] => none
  | .nodeId v :: _ => some v
  | _ :: r => nodeIdOf r

/-- `get_fabric_id`: value of the first `FabricId` attribute of the subject -/
def fabricIdOf : DN → Option Nat
  | [] => none
  | .fabricId v :: _ => some v
  | _ :: r => fabricIdOf r

/-- CASE authenticated tags of the subject, in order (`get_cat_ids`) -/
def catsOf : DN → List Nat
  | [] => []
  | .cat v :: r => v :: catsOf r
  | _ :: r => catsOf r

inductive CType where
  | rcac | icac | noc
deriving DecidableEq, Repr, Inhabited

/-- the Matter identity attributes of a name, in order: which kind of certificate it names -/
def idAttrs : DN → List CType
  | [] => []
  | .nodeId _ :: r => .noc :: idAttrs r
  | .icaId _ :: r => .icac :: idAttrs r
  | .rootCaId _ :: r => .rcac :: idAttrs r
  | _ :: r => idAttrs r

/-- loop of `cert_type`: `found` is the kind seen so far; a second `NodeId` / `IcaId` / `RootCaId`
attribute (of any kind) is an error -/
def certTypeLoop (found : Option CType) : DN → Option CType
  | [] => found
  | a :: r =>
    let kind : Option CType :=
      match a with
      | .nodeId _ => some .noc
      | .icaId _ => some .icac
      | .rootCaId _ => some .rcac
      | _ => none
    match kind with
    | none => certTypeLoop found r
    | some k => if found.isSome then none else certTypeLoop (some k) r

/-- `cert_type`: exactly one of `NodeId` / `IcaId` / `RootCaId` must occur in the subject
(`none` = `Err(InvalidData)`) -/
def certType (d : DN) : Option CType := certTypeLoop none d

def kuHas (ku mask : Nat) : Bool := (ku &&& mask) != 0

/-- `ext_key_usage_has_all(required)`: extension present and every required purpose listed -/
def ekuHasAll (eku : Option (List Nat)) (required : List Nat) : Bool :=
  match eku with
  | none => false
  | some l => required.all (fun n => l.contains n)

/-- `is_authority(their)`: `their` must carry a SKID (else `Err(Invalid)`), and one of our
`AuthorityKeyId` extensions must equal it -/
def isAuthority (c their : Cert) : Except Err Bool :=
  match their.skid with
  | none => .error .invalid
  | some s => .ok (c.akid == some s)

/-- `is_self_signed` -/
def isSelfSigned (c : Cert) : Except Err Bool := isAuthority c c

/-! ## `CertVerifier` -/

/-- `verify_usage` for `self.cert = c` at `self.depth = depth` -/
def verifyUsage (c : Cert) (depth : Nat) : Except Err Unit :=
  if c.critFuture then .error .invalidData
  else
    match certType c.subject with
    | none => .error .invalidData
    | some ty =>
      match c.keyUsage with
      | none => .error .invalidData
      | some ku =>
        match ty with
        | .noc =>
          if depth ≠ 0 then .error .invalidData
          else
            match c.bc with
            | none => .error .invalidData
            | some (isCa, _) =>
              if isCa then .error .invalidData
              else if !kuHas ku Consts.kuDigitalSignature then .error .invalidData
              else if !ekuHasAll c.eku [1, 2] then .error .invalidData
              else .ok ()
        | _ =>
          match c.bc with
          | none => .error .invalidData
          | some (isCa, pathLen) =>
            if !isCa then .error .invalidData
            else if !kuHas ku Consts.kuKeyCertSign then .error .invalidData
            else
              match pathLen with
              | some maxIntermediates =>
                if depth > 0 ∧ depth - 1 > maxIntermediates then .error .invalidData else .ok ()
              | none => .ok ()

/-- `not_after > 0 && utc_time.any_secs() > not_after` -/
def expired (t : Time) (c : Cert) : Bool := decide (c.notAfter > 0) && decide (t.anySecs > c.notAfter)

/-- `if let Some(secs) = utc_time.reliable_secs() { secs < not_before }` -/
def notYetValid (t : Time) (c : Cert) : Bool :=
  match t.reliableSecs with
  | some s => decide (s < c.notBefore)
  | none => false

/-- `add_cert(parent)` for the verifier state `(c, depth)`; returns the new depth
(`saturating_add(1)` on `u8`) -/
def addCert (t : Time) (c : Cert) (depth : Nat) (parent : Cert) : Except Err Nat :=
  match isAuthority c parent with
  | .error e => .error e
  | .ok false => .error .invalidAuthKey
  | .ok true =>
    -- `is_issued_by(parent)`: our issuer name must be the parent's subject name
    if c.issuer ≠ parent.subject then .error .invalidAuthKey
    else if c.sigBy ≠ some parent.pubKey then .error .invalidSignature
    else if expired t c then .error .invalidTime
    else if notYetValid t c then .error .invalidTime
    else
      match verifyUsage c depth with
      | .error e => .error e
      | .ok () => .ok (min (depth + 1) 255)

/-- `finalise`: the current certificate must verify against itself -/
def finalise (t : Time) (c : Cert) (depth : Nat) : Except Err Unit := do
  let _ ← addCert t c depth c
  pure ()

/-- the verifier holding `(cur, depth)` is fed the remaining certificates and finalised -/
def verifyFrom (t : Time) (cur : Cert) (depth : Nat) : List Cert → Except Err Unit
  | [] => finalise t cur depth
  | p :: ps => do
    let d ← addCert t cur depth p
    verifyFrom t p d ps

/-- `leaf.verify_chain_start(t).add_cert(c1)…add_cert(cn).finalise()` on `leaf :: [c1,…,cn]` -/
def verifyChain (t : Time) : List Cert → Except Err Unit
  | [] => .error .invalid
  | c :: ps => verifyFrom t c 0 ps

/-! ## CASE: `CaseP::validate_certs` -/

structure FabricView where
  fabricId : Nat
  root : Cert
deriving Repr, Inhabited

/-- `if let Ok(fid) = icac.get_fabric_id() { fid != fabric.fabric_id() }` -/
def icacOtherFabric (ic : Cert) (fab : Nat) : Bool :=
  match fabricIdOf ic.subject with
  | some f => decide (f ≠ fab)
  | none => false

def validateCase (t : Time) (fabric : FabricView) (noc : Cert) (icac : Option Cert) :
    Except Err Unit :=
  -- the leaf must name a node
  if (nodeIdOf noc.subject).isNone then .error .noNodeId else
  match fabricIdOf noc.subject with
  | none => .error .noFabricId
  | some fid =>
    if fabric.fabricId ≠ fid then .error .invalid
    else
      match icac with
      | some ic =>
        if icacOtherFabric ic fabric.fabricId then .error .invalid
        else do
          let d ← addCert t noc 0 ic
          let d' ← addCert t ic d fabric.root
          finalise t fabric.root d'
      | none => do
        let d ← addCert t noc 0 fabric.root
        finalise t fabric.root d

/-- What the CASE responder (Sigma3) and initiator (Sigma2) do with the peer's chain before a
session is bound to it: `validate_certs`, then (after the TBS signature, not part of this
model) `get_node_id` on the NOC.  The node id is returned. -/
def caseAccept (t : Time) (fabric : FabricView) (noc : Cert) (icac : Option Cert) :
    Except Err Nat :=
  match validateCase t fabric noc icac with
  | .error e => .error e
  | .ok () =>
    match nodeIdOf noc.subject with
    | none => .error .noNodeId
    | some n => .ok n

/-! ## Commissioning: `FailSafe::validate_certs`, `add_noc`, `update_noc` -/

def validateInstall (t : Time) (noc : Cert) (icac : Option Cert) (root : Cert) : Except Err Unit :=
  -- the leaf must name a node
  if (nodeIdOf noc.subject).isNone then .error .noNodeId else
  match icac with
  | some ic =>
    match isSelfSigned ic with
    | .error e => .error e
    | .ok true => .error .invalidData
    | .ok false => do
      let d ← addCert t noc 0 ic
      let d' ← addCert t ic d root
      finalise t root d'
  | none => do
    let d ← addCert t noc 0 root
    finalise t root d

/-- an installed fabric as far as `add_noc` / `update_noc` look at it -/
structure FabricEntry where
  fabricId : Nat
  rootPubKey : KeyId
deriving DecidableEq, Repr, Inhabited

/-- certificate part of `FailSafe::add_noc` (fail-safe state and admin subject are checked before
and are not part of this model), followed by `Fabric::update`'s reading of the node id.
`root` is the root staged by `AddTrustedRootCertificate`, `csrKey` the public key of the key pair
generated for the last `CSRRequest`.  Returns `(fabric id, node id)` of the new fabric. -/
def addNoc (t : Time) (root : Cert) (csrKey : KeyId) (fabrics : List FabricEntry)
    (noc : Cert) (icac : Option Cert) : Except Err (Nat × Nat) :=
  match validateInstall t noc icac root with
  | .error _ => .error .nocInvalidNoc
  | .ok () =>
    if csrKey ≠ noc.pubKey then .error .nocInvalidPublicKey
    else
      match fabricIdOf noc.subject with
      | none => .error .noFabricId
      | some fid =>
        if fabrics.any (fun f => fid == f.fabricId && root.pubKey == f.rootPubKey) then
          .error .nocFabricConflict
        else
          match nodeIdOf noc.subject with
          | none => .error .noNodeId
          | some n => .ok (fid, n)

/-- certificate part of `FailSafe::update_noc` for the fabric of the CASE session the command
arrived on (`fabric.root` = that fabric's committed root) -/
def updateNoc (t : Time) (fabric : FabricView) (csrKey : KeyId) (noc : Cert) (icac : Option Cert) :
    Except Err (Nat × Nat) :=
  match validateInstall t noc icac fabric.root with
  | .error _ => .error .nocInvalidNoc
  | .ok () =>
    if csrKey ≠ noc.pubKey then .error .nocInvalidPublicKey
    else
      match fabricIdOf noc.subject with
      | none => .error .noFabricId
      | some fid =>
        if fid ≠ fabric.fabricId then .error .nocFabricConflict
        else
          match nodeIdOf noc.subject with
          | none => .error .noNodeId
          | some n => .ok (fid, n)

/-- `AddTrustedRootCertificate`: the candidate root must verify against itself
(`verify_chain_start().finalise()`), and its path length constraint, if any, must not exceed 1;
every failure is `InvalidCommand` -/
def addTrustedRoot (t : Time) (root : Cert) : Bool :=
  match finalise t root 0 with
  | .error _ => false
  | .ok () =>
    match root.bc with
    | some (_, some p) => decide (p ≤ 1)
    | _ => true

/-! ## Specification: the property sentence, clause by clause

Each clause of the sentence below is one predicate (`Issues`, `Covers`, `LeafProfile`,
`AuthorityProfile`, `NoUnknownCritical`, node / fabric id).  The predicates are small enough that
each coincides with one block of `add_cert` / `verify_usage` (`addCert_ok_iff`); what the `iff`
theorems of `Props/C19.lean` add is that the sequential checker applies every clause to every
certificate at the right position and skips none by an early exit — NOT an independent notion of
what a valid signature or a well-formed Matter certificate is.  Readings the sentence leaves open
are decided, with `example`s, at the end of `Props/C19.lean` (authority kind not tied to position;
the root's own fabric id not compared; key identifiers required to link up; the leaf-profile
disjunct of `RootValid`).  The signature clause is symbolic: `sigBy` is a free field that names a
key and binds no content.

"An operational certificate chain is accepted iff every certificate is signed by the next one up
to a self-signed root that is the trusted root for the purpose at hand, issuer and subject link
up, the validity periods cover the node's time, the leaf is a non-CA certificate with the
prescribed key usages, the authorities are CA certificates within their path-length limit, no
unknown critical extension is present, and the leaf carries a node identifier and the fabric
identifier of the fabric it is used for.  Installing credentials additionally requires the
leaf's public key to be the one the node generated for this request and the fabric not to exist
already." -/

/-- "no unknown critical extension is present": none of the sub-extensions of none of the `future-extensions`
elements is marked critical (this verifier knows none of them) -/
def NoUnknownCritical (c : Cert) : Prop := ∀ el ∈ c.futureExts, ∀ e ∈ el, e.critical = false

instance (c : Cert) : Decidable (NoUnknownCritical c) := by unfold NoUnknownCritical; infer_instance

/-- the certification path, leaf first, trusted root last -/
def pathOf (noc : Cert) (icac : Option Cert) (root : Cert) : List Cert :=
  noc :: (icac.toList ++ [root])

/-- `c` is signed by `issuer`, and issuer and subject link up (names and key identifiers) -/
def Issues (issuer c : Cert) : Prop :=
  c.sigBy = some issuer.pubKey ∧ c.issuer = issuer.subject ∧
  issuer.skid.isSome = true ∧ c.akid = issuer.skid

/-- the validity period covers the node's time; a node that only has a last-known-good time
cannot tell that a certificate is not valid *yet* (Matter: only not-after is checked then);
not-after = 0 means "no expiry" -/
def Covers (t : Time) (c : Cert) : Prop :=
  (c.notAfter = 0 ∨ t.anySecs ≤ c.notAfter) ∧ ∀ s ∈ t.reliableSecs, c.notBefore ≤ s

/-- a non-CA certificate naming a node (and nothing else), with the prescribed usages:
digitalSignature, and serverAuth + clientAuth -/
def LeafProfile (c : Cert) : Prop :=
  idAttrs c.subject = [.noc] ∧ c.bc.map Prod.fst = some false ∧
  c.keyUsage.any (fun ku => kuHas ku Consts.kuDigitalSignature) = true ∧
  c.eku.any (fun l => l.contains 1 && l.contains 2) = true

/-- a CA certificate naming one authority (and nothing else), allowed to sign certificates, with
at most `below` intermediate authorities between it and the leaf within its path-length limit -/
def AuthorityProfile (c : Cert) (below : Nat) : Prop :=
  (idAttrs c.subject = [.icac] ∨ idAttrs c.subject = [.rcac]) ∧ c.bc.map Prod.fst = some true ∧
  c.keyUsage.any (fun ku => kuHas ku Consts.kuKeyCertSign) = true ∧
  ∀ n ∈ c.bc.bind Prod.snd, below ≤ n

/-- The chain `noc ← icac? ← root` is valid at time `t` for the trusted root `root`. -/
def ChainValid (t : Time) (root noc : Cert) (icac : Option Cert) : Prop :=
  -- every certificate is issued by the next one, the root by itself
  (∀ pr ∈ (pathOf noc icac root).zip ((pathOf noc icac root).tail ++ [root]), Issues pr.2 pr.1) ∧
  (∀ c ∈ pathOf noc icac root, Covers t c) ∧
  (∀ c ∈ pathOf noc icac root, NoUnknownCritical c) ∧
  LeafProfile noc ∧
  (∀ pr ∈ (pathOf noc icac root).tail.zipIdx, AuthorityProfile pr.1 pr.2) ∧
  (nodeIdOf noc.subject).isSome = true

/-- valid for a CASE handshake addressed to `fabric`: chains to that fabric's root and carries
that fabric's id (an intermediate that names a fabric must name this one) -/
def CaseValid (t : Time) (fabric : FabricView) (noc : Cert) (icac : Option Cert) : Prop :=
  ChainValid t fabric.root noc icac ∧ fabricIdOf noc.subject = some fabric.fabricId ∧
  ∀ ic ∈ icac, ∀ f ∈ fabricIdOf ic.subject, f = fabric.fabricId

/-- valid for installing as the credentials of a NEW fabric under the staged root: chain valid
with an intermediate that is a separate (not self-issued) certificate, leaf key = the key
generated for this request, the leaf names a fabric, and that fabric (id + root key) does not
exist already -/
def InstallValid (t : Time) (root : Cert) (csrKey : KeyId) (fabrics : List FabricEntry)
    (noc : Cert) (icac : Option Cert) : Prop :=
  ChainValid t root noc icac ∧ (∀ ic ∈ icac, ic.akid ≠ ic.skid) ∧ noc.pubKey = csrKey ∧
  ∃ fid, fabricIdOf noc.subject = some fid ∧
    ∀ f ∈ fabrics, ¬ (f.fabricId = fid ∧ f.rootPubKey = root.pubKey)

/-- valid as replacement credentials of the existing fabric `fabric` -/
def UpdateValid (t : Time) (fabric : FabricView) (csrKey : KeyId) (noc : Cert) (icac : Option Cert) :
    Prop :=
  ChainValid t fabric.root noc icac ∧ (∀ ic ∈ icac, ic.akid ≠ ic.skid) ∧ noc.pubKey = csrKey ∧
  fabricIdOf noc.subject = some fabric.fabricId

/-- what `AddTrustedRootCertificate` stages (the CODE's contract: the `LeafProfile` disjunct is there
because `finalise` at depth 0 runs the leaf branch; the sentence's notion is `C19.RootValidStrict`,
and a leaf-shaped root is inert: `C19.leaf_shaped_root_unusable`) -/
def RootValid (t : Time) (root : Cert) : Prop :=
  Issues root root ∧ Covers t root ∧ NoUnknownCritical root ∧
  (AuthorityProfile root 0 ∨ LeafProfile root) ∧ ∀ n ∈ root.bc.bind Prod.snd, n ≤ 1

/-- contract of the bare `CertVerifier` on an arbitrary list (leaf first): position `i` holds a
leaf profile (only at 0) or an authority profile with `i - 1` intermediates below -/
def PathValid (t : Time) (p : List Cert) : Prop :=
  p ≠ [] ∧
  (∀ pr ∈ p.zip (p.tail ++ p.getLast?.toList), Issues pr.2 pr.1) ∧
  (∀ c ∈ p, Covers t c ∧ NoUnknownCritical c) ∧
  ∀ pr ∈ p.zipIdx, (pr.2 = 0 ∧ LeafProfile pr.1) ∨ AuthorityProfile pr.1 (pr.2 - 1)

instance (issuer c : Cert) : Decidable (Issues issuer c) := by unfold Issues; infer_instance
instance (t : Time) (c : Cert) : Decidable (Covers t c) := by unfold Covers; infer_instance
instance (c : Cert) : Decidable (LeafProfile c) := by unfold LeafProfile; infer_instance
instance (c : Cert) (n : Nat) : Decidable (AuthorityProfile c n) := by
  unfold AuthorityProfile; infer_instance
instance (t : Time) (root noc : Cert) (icac : Option Cert) : Decidable (ChainValid t root noc icac) := by
  unfold ChainValid; infer_instance
instance (t : Time) (f : FabricView) (noc : Cert) (icac : Option Cert) :
    Decidable (CaseValid t f noc icac) := by unfold CaseValid; infer_instance
instance (t : Time) (root : Cert) (k : KeyId) (fs : List FabricEntry) (noc : Cert) (icac : Option Cert) :
    Decidable (InstallValid t root k fs noc icac) := by
  unfold InstallValid
  cases h : fabricIdOf noc.subject with
  | none => exact isFalse (by simp)
  | some fid =>
    refine decidable_of_iff (ChainValid t root noc icac ∧ (∀ ic ∈ icac, ic.akid ≠ ic.skid) ∧
      noc.pubKey = k ∧ ∀ f ∈ fs, ¬ (f.fabricId = fid ∧ f.rootPubKey = root.pubKey)) ?_
    simp
instance (t : Time) (f : FabricView) (k : KeyId) (noc : Cert) (icac : Option Cert) :
    Decidable (UpdateValid t f k noc icac) := by unfold UpdateValid; infer_instance
instance (t : Time) (root : Cert) : Decidable (RootValid t root) := by unfold RootValid; infer_instance
instance (t : Time) (p : List Cert) : Decidable (PathValid t p) := by unfold PathValid; infer_instance

end Cert
