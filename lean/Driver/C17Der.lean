import RsMatterVerif.Model.Codec.Der
import RsMatterVerif.Model.Codec.CertAsn1
import Driver.C17U
/-!
C17 driver, case kind `derw`: the DER writer `ASN1Writer` and `CertRef::as_asn1`
(see `harness/src/c17_der.rs` for the op formats).

* `w <cap> <fill> <ops…>`: the model writer (`Der.W`) runs the same operations (`DIS` on any difference in the
  answer, the failing operation's index or the bytes). Oracle: no panic for arguments within the declared bounds
  (epoch ≤ 9999-12-31T23:59:59); when the operations are balanced and every `raw` content is itself DER, the
  implementation's bytes must parse as DER (`parseAll`: definite minimal lengths) into exactly the tree the
  operations describe, and every time leaf must read back (independent inverse `parseTime`) as the epoch written.
* `cert` / `gcert`: the model `asAsn1` runs on the fields the real accessors returned (`DIS`). Oracle: no panic /
  hang; the DER is well-formed whenever the spliced `future-extensions` blobs are; the fields read back from the
  DER by `certFieldsOfDer` equal the certificate's fields (`gcert`: the record the generator built the TLV from).
-/
namespace Driver.C17Der
open Codec Codec.Der Codec.CertAsn1 Driver.C17U

def dropS (s : String) (n : Nat) : String := String.ofList (s.toList.drop n)
def takeS (s : String) (n : Nat) : String := String.ofList (s.toList.take n)

/-- content descriptor: hex, `-`, `@len,a,b`, `~len,a,b` -/
def content (s : String) : Option (List Nat) :=
  let pat := fun (rest : String) =>
    match (rest.splitOn ",").map String.toNat? with
    | [some n, some a, some b] => some (min n 70000, a, b)
    | _ => none
  if s.startsWith "@" then
    (pat (dropS s 1)).map fun (n, a, b) => (List.range n).map fun i => (a + i * b) % 256
  else if s.startsWith "~" then
    (pat (dropS s 1)).map fun (n, a, b) => (List.range n).map fun i => 32 + (a + i * b) % 95
  else unhex s

def parseOp (tok : String) : Option Op :=
  match tok.splitOn ":" with
  | ["ss"] => some .startSeq
  | ["es"] => some .endSeq
  | ["sset"] => some .startSet
  | ["eset"] => some .endSet
  | ["so"] => some .startOstr
  | ["eo"] => some .endOstr
  | ["sctx", id] => id.toNat?.map fun i => .startCtx (i % 256)
  | ["ectx"] => some .endCtx
  | ["int", c] => (content c).map .integer
  | ["ps", c] => (content c).map .printstr
  | ["u8s", c] => (content c).map .utf8str
  | ["bs", t, c] => (content c).map (.bitstr (t ≠ "0"))
  | ["os", c] => (content c).map .ostr
  | ["bool", b] => some (.bool (b ≠ "0"))
  | ["ctx", id, c] => do
    let i ← id.toNat?
    let v ← content c
    pure (.ctx (i % 256) v)
  | ["oid", c] => (content c).map .oid
  | ["time", e] => e.toNat?.map .utctime
  | ["raw", c] => (content c).map .raw
  | _ => none

def sliceHex (w : W) : String :=
  match w.asSlice with
  | .ok s => hex s
  | .error e => e.name

/-- the model's answer in the harness's format -/
def runW (w : W) : Nat → List Op → String
  | _, [] => s!"ok {sliceHex w}"
  | i, o :: r =>
    match w.step o with
    | .ok w' => runW w' (i + 1) r
    | .error .panic => s!"at {i} panic"
    | .error e => s!"err {e.name} at {i}"

/-! ### oracle for writer operations: the tree the operations describe -/

/-- every time leaf of the parsed output, in order -/
partial def timeLeaves : Der → List Der
  | .prim t c => if t = 0x17 ∨ t = 0x18 then [.prim t c] else []
  | .cons _ cs => cs.flatMap timeLeaves

def derEq : Der → Der → Bool
  | .prim t c, .prim t' c' => t == t' && c == c'
  | .cons t cs, .cons t' cs' => t == t' && go cs cs'
  | _, _ => false
where
  go : List Der → List Der → Bool
    | [], [] => true
    | a :: r, b :: r' => derEq a b && go r r'
    | _, _ => false

def dersEq (a b : List Der) : Bool := derEq.go a b

def tagsFine (ops : List Op) : Bool :=
  ops.all fun o => match o with
    | .ctx id _ => id < 31
    | .startCtx id => id < 31
    | _ => true

def oracleW (ops : List Op) (out : String) : Option String :=
  let inBounds := ops.all fun o => match o with | .utctime e => e ≤ DOESNT_EXPIRE | _ => true
  if isPanic out then
    if inBounds then some "writer panicked (arguments within the declared bounds)" else none
  else
    match words out with
    | ["ok", h] =>
      match unhex h, forest ops with
      | some bytes, some ns =>
        if !tagsFine ops then none else
        match Node.toDerL ns with
        | none => none      -- a `raw` content that is not DER: nothing is demanded of the output
        | some want =>
          match parseAll bytes with
          | none => some "output of a balanced operation sequence is not well-formed DER"
          | some got =>
            if !dersEq got want then some "DER output does not carry the operations' content"
            else
              let epochs := ops.filterMap fun o => match o with | .utctime e => some e | _ => none
              let rawTimes := ops.any fun o => match o with | .raw _ => true | _ => false
              -- (time leaves inside `raw` or compound OCTET STRINGs are not visited / not produced by `utctime`)
              let leaves := got.flatMap timeLeaves
              if !rawTimes ∧ leaves.length = epochs.length ∧ leaves.map parseTime ≠ epochs.map some then
                some "a UTCTime / GeneralizedTime does not read back as the instant written"
              else none
      | _, _ => none
    | _ => none

def stepW (ws : List String) (out : String) : String :=
  match ws with
  | cap :: fill :: toks =>
    match cap.toNat?, fill.toNat?, toks.mapM parseOp with
    | some cap, some fill, some ops =>
      let w := W.new (List.replicate (min cap 70000) (fill % 256))
      verdict (runW w 0 ops) out (oracleW ops out)
    | _, _, _ => "BAD w args"
  | _ => "BAD w"

/-! ### certificates: the field tokens -/

def errTok (s : String) : Option String := if s.startsWith "!" then some (dropS s 1) else none

def fBytes (v : String) : Option (Except String (List Nat)) :=
  match errTok v with
  | some e => some (.error e)
  | none => (unhex v).map .ok

def fNum (v : String) : Option (Except String Nat) :=
  match errTok v with
  | some e => some (.error e)
  | none => v.toNat?.map .ok

def items (v : String) : Option (List String) :=
  if v.startsWith "[" ∧ v.endsWith "]" then
    let inner := String.ofList ((v.toList.drop 1).dropLast)
    if inner = "" then some [] else some (inner.splitOn ";")
  else none

def fDnVal (s : String) : Option (Except String DnVal) :=
  match errTok s with
  | some e => some (.error e)
  | none =>
    if s.startsWith "u" then (dropS s 1).toNat?.map fun v => .ok (.uint v)
    else if s.startsWith "s" then (unhex (dropS s 1)).map fun b => .ok (.utf8 b)
    else if s.startsWith "p" then (unhex (dropS s 1)).map fun b => .ok (.printable b)
    else none

def fDnItem (s : String) : Option (Except String DnItem) :=
  match errTok s with
  | some e => some (.error e)
  | none =>
    match s.splitOn ":" with
    | [t, v] => do
      let value ← fDnVal v
      let tag ← if t = "?" then some none else t.toNat?.map some
      pure (.ok { tag := tag, value := value })
    | _ => none

def fDn (v : String) : Option (Except String (List (Except String DnItem))) :=
  match errTok v with
  | some e => some (.error e)
  | none => do
    let its ← items v
    let l ← its.mapM fDnItem
    pure (.ok l)

def fExt (s : String) : Option (Except String Ext) :=
  match errTok s with
  | some e => some (.error e)
  | none =>
    if s.startsWith "bc" then
      match (dropS s 2).splitOn ":" with
      | [ca, p] => do
        let path ← if p = "-" then some none else p.toNat?.map some
        pure (.ok (.basic (ca ≠ "0") path))
      | _ => none
    else if s.startsWith "eku" then
      let rest := dropS s 3
      if rest = "" then some (.ok (.extKeyUsage []))
      else do
        let l ← (rest.splitOn ",").mapM fNum
        pure (.ok (.extKeyUsage l))
    else if s.startsWith "ku" then (dropS s 2).toNat?.map fun v => .ok (.keyUsage v)
    else if s.startsWith "skid" then (unhex (dropS s 4)).map fun b => .ok (.subjKeyId b)
    else if s.startsWith "akid" then (unhex (dropS s 4)).map fun b => .ok (.authKeyId b)
    else if s.startsWith "fut" then (unhex (dropS s 3)).map fun b => .ok (.future b)
    else none

def fExts (v : String) : Option (Except String (List (Except String Ext))) :=
  match errTok v with
  | some e => some (.error e)
  | none => do
    let its ← items v
    let l ← its.mapM fExt
    pure (.ok l)

def kv (tok key : String) : Option String :=
  if tok.startsWith (key ++ "=") then some (dropS tok (key.length + 1)) else none

def parseFields (toks : List String) : Option Cert :=
  match toks with
  | [a, b, c, d, e, f, g, h, i, j] => do
    let serial ← (kv a "serial").bind fBytes
    let sa ← (kv b "sa").bind fNum
    let issuer ← (kv c "issuer").bind fDn
    let nb ← (kv d "nb").bind fNum
    let na ← (kv e "na").bind fNum
    let subject ← (kv f "subject").bind fDn
    let pa ← (kv g "pa").bind fNum
    let curve ← (kv h "curve").bind fNum
    let pk ← (kv i "pk").bind fBytes
    let exts ← (kv j "ext").bind fExts
    pure { serial := serial, signAlgo := sa, issuer := issuer, notBefore := nb, notAfter := na, subject := subject
           pubkeyAlgo := pa, ecCurveId := curve, pubkey := pk, extensions := exts }
  | _ => none

def cerrStr : CErr → String
  | .w .panic => "panic"
  | .w e => s!"err {e.name}"
  | .read n => s!"err {n}"

/-! ### oracle for certificates -/

def okAll {α : Type} (l : List (Except String α)) : Option (List α) :=
  l.mapM fun x => match x with | .ok a => some a | .error _ => none

/-- the readable certificate behind the accessor view, with what `encode` skips left out (attributes whose tag
it does not know, extended-key-usage values outside 1..6); `none`: some field cannot be read -/
def strict (c : Cert) : Option Fields := do
  let dn := fun (r : Except String (List (Except String DnItem))) => do
    let l ← r.toOption
    let l ← okAll l
    l.filterMapM fun (it : DnItem) =>
      match it.tag with
      | none => some none
      | some t => match it.value with
        | .ok v => some (some ({ tag := t, val := v } : Attr))
        | .error _ => none
  let ext := fun (e : Ext) => match e with
    | .basic ca p => some (XExt.basic ca p)
    | .keyUsage v => some (.keyUsage v)
    | .extKeyUsage l => (okAll l).map fun l => .extKeyUsage (l.filter fun t => 0 < t ∧ t < 7)
    | .subjKeyId b => some (.subjKeyId b)
    | .authKeyId b => some (.authKeyId b)
    | .future b => some (.future b)
  let exts ← c.extensions.toOption
  let exts ← okAll exts
  let exts ← exts.mapM ext
  pure { serial := ← c.serial.toOption, signAlgo := ← c.signAlgo.toOption, issuer := ← dn c.issuer
         notBefore := ← c.notBefore.toOption, notAfter := ← c.notAfter.toOption, subject := ← dn c.subject
         pubkeyAlgo := ← c.pubkeyAlgo.toOption, ecCurveId := ← c.ecCurveId.toOption
         pubkey := ← c.pubkey.toOption, exts := exts }

/-- is every spliced blob DER / exactly one extension with an OID the converter does not know? -/
def futureDer (f : Fields) : Bool :=
  f.exts.all fun e => match e with | .future b => (parseAll b).isSome | _ => true
def futureSingle (f : Fields) : Bool :=
  f.exts.all fun e => match e with
    | .future b =>
      match parseDer b with
      | some d => match parseExt d with
        | some { ext := .future _, .. } => true
        | _ => false
      | none => false
    | _ => true

/-- tokens equal up to the names of error codes -/
def tokEq (a b : String) : Bool :=
  let norm := fun (s : String) =>
    String.intercalate "!" ((s.splitOn "!").mapIdx fun i p =>
      if i = 0 then p else String.ofList (p.toList.dropWhile fun ch => ch.isAlphanum))
  norm a == norm b

def oracleCert (claim : Option (List String)) (fieldToks : List String) (c : Cert) (res : String) : Option String :=
  if isPanic res then some "converter panicked or did not terminate" else
  let claimOk : Bool := match claim with
    | some cl => cl.length == fieldToks.length && (cl.zip fieldToks).all fun p => tokEq p.1 p.2
    | none => true
  match claimOk with
  | false => some s!"fields read from the TLV differ from the record it was written from: {" ".intercalate fieldToks}"
  | _ =>
    match words res with
    | ["ok", h] =>
      match unhex h, strict c with
      | some der, some f =>
        if !futureDer f then none
        else match parseDer der with
          | none => some "DER output is not well-formed (definite minimal lengths, one value)"
          | some d =>
            if !futureSingle f then none
            else match f.view with
              | none => some "conversion succeeded on an attribute that has no DER form"
              | some want =>
                if certFieldsOfDer d = some want then none
                else some "fields read back from the DER differ from the certificate's fields"
      | _, _ => none
    | _ => none

def stepCert (isGen : Bool) (ws : List String) (out : String) : String :=
  match ws with
  | cap :: _tlv :: claim =>
    match cap.toNat?, out.splitOn " R " with
    | some cap, [fields, res] =>
      let toks := words fields
      match parseFields toks with
      | none => if isPanic out then "ORA field accessors panicked" else s!"BAD fields {fields}"
      | some c =>
        let model := match asAsn1 c (List.replicate (min cap 70000) 0x5a) with
          | .ok der => s!"ok {hex der}"
          | .error e => cerrStr e
        let o := oracleCert (if isGen then some claim else none) toks c res
        match o with
        | some why => s!"ORA {why}"
        | none => if model = res then "ok" else s!"DIS {model}"
    | _, _ => if isPanic out then "ORA converter or field accessors panicked or did not terminate" else "BAD cert output"
  | _ => "BAD cert"

def step (ws : List String) (out : String) : String :=
  match ws with
  | "w" :: r => stepW r out
  | "cert" :: r => stepCert false r out
  | "gcert" :: r => stepCert true r out
  | _ => "BAD op"

end Driver.C17Der
