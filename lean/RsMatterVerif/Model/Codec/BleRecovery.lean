import RsMatterVerif.Model.Codec.Buf
import RsMatterVerif.Model.Codec.BleAdv
/-!
# Model of the BLE advertisement payload of a node in Network-Recovery mode:
`transport/network/btp/gatt.rs` `RecoveryAdvData::iter` / `service_payload_iter` (encoder) and
`RecoveryAdvData::parse_adv` / `parse_service_data` (parser).

`parse_adv` shares `matter_service_data` (the `AdStructures` walk) with `AdvData`; the model reuses
`BleAdv.matterServiceData`. Every slice / index / `try_into().unwrap()` of the Rust parser is a checked
operation here (`Err.panic` when it would panic); `Lemmas/CodecBleRecovery.lean` shows it never fires.
-/
namespace Codec.BleRecovery
open Codec

/-- `MATTER_ADV_OPCODE_NETWORK_RECOVERY` -/
def OPCODE_NETWORK_RECOVERY : Nat := 1
/-- `RECOVERY_ID_LEN` -/
def RECOVERY_ID_LEN : Nat := 8
/-- `MATTER_RECOVERY_SERVICE_DATA_PAYLOAD_LEN` = opcode + version byte + id + additional-data byte -/
def PAYLOAD_LEN : Nat := 11

/-- `RecoveryAdvData { recovery_id: [u8; 8], additional_data }` -/
structure Rec where
  id : List Nat
  additional : Bool
deriving DecidableEq, Repr

/-- `service_payload_iter`: opcode 1, version/reserved byte 0, the id verbatim, the flag byte -/
def servicePayload (a : Rec) : List Nat :=
  [OPCODE_NETWORK_RECOVERY, 0] ++ a.id ++ [if a.additional then 1 else 0]

/-- `flags_iter`: `count() as u8 + 1`, type 0x01, payload 0x05 (limited discoverable, no BR/EDR) -/
def flagsRecord : List Nat := [1 + 1, 0x01, 0x05]

/-- `service_iter`: `count() as u8 + 3`, type 0x16, UUID16 0xFFF6 little endian, payload -/
def serviceRecord (a : Rec) : List Nat :=
  [(servicePayload a).length % 256 + 3, BleAdv.AD_TYPE_SERVICE_DATA_UUID16, BleAdv.MATTER_UUID16_LO, BleAdv.MATTER_UUID16_HI]
  ++ servicePayload a

/-- `iter` = flags record followed by the service-data record -/
def encode (a : Rec) : List Nat := flagsRecord ++ serviceRecord a

/-- `parse_service_data`: length test, `payload[0]`, `payload[2..2 + 8].try_into().unwrap()`,
`payload[2 + 8] & 1` -/
def parseServiceData (p : List Nat) : Except Err (Option Rec) :=
  if p.length < PAYLOAD_LEN then .ok none
  else do
    let op ← RBuf.index p 0
    if op ≠ OPCODE_NETWORK_RECOVERY then pure none
    else do
      let id ← RBuf.slice p 2 (2 + RECOVERY_ID_LEN)
      -- `try_into::<[u8; 8]>().unwrap()`
      if id.length ≠ RECOVERY_ID_LEN then throw .panic
      let ad ← RBuf.index p (2 + RECOVERY_ID_LEN)
      pure (some { id := id, additional := ad % 2 = 1 })

/-- `parse_adv` = `matter_service_data(adv).and_then(parse_service_data)` -/
def parseAdv (adv : List Nat) : Except Err (Option Rec) :=
  match BleAdv.matterServiceData (adv.length + 1) adv with
  | .error _ => .error .panic   -- failed checked split / fuel exhausted: shown impossible (`BleAdv.matterServiceData_ok`)
  | .ok none => .ok none
  | .ok (some d) => parseServiceData d

/-- the Rust type: eight bytes -/
def WF (a : Rec) : Prop := a.id.length = RECOVERY_ID_LEN

instance (a : Rec) : Decidable (WF a) := inferInstanceAs (Decidable (_ = _))

end Codec.BleRecovery
