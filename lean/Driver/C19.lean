import RsMatterVerif.Model.Cert
import Driver.Util
/-! Driver for C19: parses the certificate records the harness minted real certificates from, runs
`Model/Cert` on them (correspondence) and evaluates the declarative specification
(`CaseValid` / `InstallValid` / `PathValid`) against the *implementation's* decision (oracle). -/
namespace Driver.C19
open Cert

def parseAttr (s : String) : Option Attr :=
  match s.toList with
  | [] => none
  | k :: rest =>
    match (String.ofList rest).toNat? with
    | none => none
    | some v =>
      some (match k with
        | 'n' => Attr.nodeId v
        | 'c' => Attr.icaId v
        | 'r' => Attr.rootCaId v
        | 'f' => Attr.fabricId v
        | 't' => Attr.cat v
        | _ => Attr.other 1 v)

def parseDN (s : String) : Option DN :=
  if s = "-" ∨ s = "" then some [] else (s.splitOn ".").mapM parseAttr

def optNat (s : String) : Option (Option Nat) :=
  if s = "-" then some none else s.toNat?.map some

structure Raw where
  c : Cert
  sg : Option Nat := none
  fl : Bool := false
  tb : Bool := false

def emptyCert : Cert :=
  { subject := [], issuer := [], notBefore := 1, notAfter := 0, bc := none, keyUsage := none,
    eku := none, skid := none, akid := none, futureExts := [], pubKey := 0, sigBy := none }

def parseField (r : Raw) (f : String) : Option Raw :=
  match f.splitOn "=" with
  | [k, v] =>
    match k with
    | "s" => (parseDN v).map fun d => { r with c := { r.c with subject := d } }
    | "i" => (parseDN v).map fun d => { r with c := { r.c with issuer := d } }
    | "nb" => v.toNat?.map fun n => { r with c := { r.c with notBefore := n } }
    | "na" => v.toNat?.map fun n => { r with c := { r.c with notAfter := n } }
    | "bc" =>
      if v = "-" then some { r with c := { r.c with bc := none } }
      else
        match v.splitOn "/" with
        | [a, b] => (optNat b).map fun p => { r with c := { r.c with bc := some (a = "T", p) } }
        | _ => none
    | "ku" => (optNat v).map fun n => { r with c := { r.c with keyUsage := n } }
    | "eku" =>
      if v = "-" then some { r with c := { r.c with eku := none } }
      else if v = "e" then some { r with c := { r.c with eku := some [] } }
      else ((v.splitOn ".").mapM String.toNat?).map fun l => { r with c := { r.c with eku := some l } }
    | "sk" => (optNat v).map fun n => { r with c := { r.c with skid := n } }
    | "ak" => (optNat v).map fun n => { r with c := { r.c with akid := n } }
    -- legacy single element: 1 = one critical sub-extension, 2 = one non-critical one (it comes FIRST)
    | "cr" => v.toNat?.map fun n =>
        { r with c := { r.c with futureExts :=
            (if n == 1 then [[⟨3, true⟩]] else if n == 2 then [[⟨3, false⟩]] else []) ++ r.c.futureExts } }
    -- `fx=<el>/<el>/…`, element = `<sub>.<sub>…`, sub = `c<oid>` critical, `n<oid>` / `f<oid>` not critical
    | "fx" =>
      if v = "-" then some r else
      ((v.splitOn "/").mapM fun (el : String) => (el.splitOn ".").mapM fun (sb : String) =>
        match sb.toList with
        | k :: rest => (String.ofList rest).toNat?.map fun o => (⟨o, k == 'c'⟩ : FutExt)
        | [] => none).map fun l => { r with c := { r.c with futureExts := r.c.futureExts ++ l } }
    | "pk" => v.toNat?.map fun n => { r with c := { r.c with pubKey := n } }
    | "sg" => (optNat v).map fun n => { r with sg := n }
    | "fl" => some { r with fl := true }
    | "tb" => some { r with tb := v = "1" }
    | _ => none
  | _ => none

/-- a record token; the symbolic signer: a flipped signature bit or a TBS altered after signing
verifies under no key, `sg=-` is a signature by the reserved key 5 -/
def parseRec (s : String) : Option Cert :=
  match (s.splitOn ",").foldlM parseField ({ c := emptyCert } : Raw) with
  | none => none
  | some r =>
    let sig : Option Nat := if r.fl ∨ r.tb then none else some (r.sg.getD 5)
    some { r.c with sigBy := sig }

def parseTime (s : String) : Option Time :=
  match s.toList with
  | 'r' :: rest => (String.ofList rest).toNat?.map Time.reliable
  | 'l' :: rest => (String.ofList rest).toNat?.map Time.lastKnown
  | _ => none

def kv (key : String) (toks : List String) : Option String :=
  toks.findSome? fun t => if t.startsWith (key ++ "=") then some (t.drop (key.length + 1)).toString else none

def optRec (s : String) : Option (Option Cert) :=
  if s = "-" then some none else (parseRec s).map some

def fmtCase : Except Err Nat → String
  | .ok n => s!"ok node={n}"
  | .error e => e.name

def fmtUnit : Except Err Unit → String
  | .ok () => "ok"
  | .error e => e.name

def fmtInstall : Except Err (Nat × Nat) → String
  | .ok (f, n) => s!"ok fab={f} node={n}"
  | .error e => e.name

def parseFabs (s : String) : Option (List FabricEntry) :=
  if s = "-" then some []
  else (s.splitOn "/").mapM fun e =>
    match e.splitOn ":" with
    | [a, b] => match a.toNat?, b.toNat? with
      | some f, some k => some { fabricId := f, rootPubKey := k }
      | _, _ => none
    | _ => none

/-- the records `cert/gen.rs` produces for these parameters (what its `write_tbs_certificate` /
`write_extensions` emit per certificate type) -/
def genRoot (fab rca kr nb na : Nat) : Cert :=
  { subject := [.rootCaId rca, .fabricId fab], issuer := [.rootCaId rca, .fabricId fab],
    notBefore := nb, notAfter := na, bc := some (true, none), keyUsage := some 0x60, eku := none,
    skid := some kr, akid := some kr, futureExts := [], pubKey := kr, sigBy := some kr }

def genIcac (fab rca ica kr ki nb na : Nat) : Cert :=
  { subject := [.icaId ica, .fabricId fab], issuer := [.rootCaId rca, .fabricId fab],
    notBefore := nb, notAfter := na, bc := some (true, some 0), keyUsage := some 0x60, eku := none,
    skid := some ki, akid := some kr, futureExts := [], pubKey := ki, sigBy := some kr }

def genNoc (fab node : Nat) (cats : List Nat) (issuer : DN) (ik kn nb na : Nat) : Cert :=
  { subject := [.nodeId node, .fabricId fab] ++ cats.map Attr.cat, issuer := issuer,
    notBefore := nb, notAfter := na, bc := some (false, none), keyUsage := some 1, eku := some [1, 2],
    skid := some kn, akid := some ik, futureExts := [], pubKey := kn, sigBy := some ik }

def accepted (out : String) : Bool := out.startsWith "ok"

def verdict (model out : String) (ora : Option String) : String :=
  match ora with
  | some why => s!"ORA {why}"
  | none => if model = out then "ok" else s!"DIS {model}"

def step (st : Unit) (line : String) : Unit × String :=
  let (op, out) := splitArrow line
  let toks := words op
  match toks with
  | "verify" :: ts :: recs :: _ =>
    match parseTime ts, (recs.splitOn ";").mapM parseRec with
    | some t, some p =>
      let model := fmtUnit (verifyChain t p)
      let want := decide (PathValid t p)
      let ora := if want = accepted out then none
        else some s!"spec={if want then "valid" else "invalid"} impl={out}"
      (st, verdict model out ora)
    | _, _ => (st, "BAD verify")
  | _ =>
    match toks with
    | kind :: ts :: rest =>
      match parseTime ts with
      | none => (st, "BAD time")
      | some t =>
        if kind = "addnoc" then
          match (kv "root" rest).bind parseRec, (kv "noc" rest).bind parseRec,
                (kv "icac" rest).bind optRec, (kv "fabs" rest).bind parseFabs with
          | some root, some noc, some icac, some fabs =>
            if addTrustedRoot t root = false then
              (st, verdict "root:InvalidCommand" out none)
            else
              let model := fmtInstall (addNoc t root 9 fabs noc icac)
              let want := decide (InstallValid t root 9 fabs noc icac)
              let ora :=
                if out.startsWith "root:" then none
                else if want ≠ accepted out then
                  some s!"spec={if want then "valid" else "invalid"} impl={out}"
                else if accepted out ∧
                    out ≠ s!"ok fab={(fabricIdOf noc.subject).getD 0} node={(nodeIdOf noc.subject).getD 0}" then
                  some s!"installed identity differs from the certificate's: {out}"
                else none
              (st, verdict model out ora)
          | _, _, _, _ => (st, "BAD addnoc")
        else if kind = "genrs" then
          let num (k : String) (d : Nat) : Nat := ((kv k rest).bind String.toNat?).getD d
          let fab := num "fab" 1
          let node := num "node" 1
          let rca := num "rca" 1
          let nb := num "nb" 1
          let na := num "na" 0
          let ica : Option Nat := (kv "ica" rest).bind String.toNat?
          let cats : List Nat := match kv "cats" rest with
            | some c => if c = "-" then [] else (c.splitOn ".").filterMap String.toNat?
            | none => []
          let keys : List Nat := match kv "keys" rest with
            | some k => (k.splitOn "/").filterMap String.toNat?
            | none => [0, 1, 2]
          match keys with
          | [kr, ki, kn] =>
            let root := genRoot fab rca kr nb na
            let icac := ica.map fun id => genIcac fab rca id kr ki nb na
            let noc := match ica with
              | some id => genNoc fab node cats [.icaId id, .fabricId fab] ki kn nb na
              | none => genNoc fab node cats [.rootCaId rca, .fabricId fab] kr kn nb na
            let fv : FabricView := { fabricId := fab, root := root }
            let model := "same " ++ fmtCase (caseAccept t fv noc icac)
            let want := decide (CaseValid t fv noc icac)
            let ora :=
              if ¬ out.startsWith "same " then some s!"record-minted bytes differ from cert/gen.rs: {out}"
              else if want ≠ accepted (out.drop 5).toString then
                some s!"spec={if want then "valid" else "invalid"} impl={out}"
              else none
            (st, verdict model out ora)
          | _ => (st, "BAD keys")
        else (st, "BAD op")
    | _ => (st, "BAD op")

/-- replace the `i`-th element -/
def setAt {α} (l : List α) (i : Nat) (x : α) : List α := l.set i x

def step' (st : Unit) (line : String) : Unit × String :=
  let (op, out) := splitArrow line
  let toks := words op
  match toks with
  | "case" :: _ => (st, "case")
  | "updnoc" :: ts :: rest =>
    match parseTime ts, (kv "fab" rest).bind String.toNat?, (kv "root" rest).bind parseRec,
          (kv "noc" rest).bind parseRec, (kv "icac" rest).bind optRec with
    | some t, some fab, some root, some noc, some icac =>
      if out.startsWith "fabric:" then (st, "ok") else
      let fv : FabricView := { fabricId := fab, root := root }
      let model := match updateNoc t fv 9 noc icac with
        | .ok (f, n) => s!"ok fab={f} node={n} idx=same"
        | .error e => e.name
      let want := decide (UpdateValid t fv 9 noc icac)
      let ora :=
        if want ≠ accepted out then some s!"spec={if want then "valid" else "invalid"} impl={out}"
        else if accepted out ∧
            out ≠ s!"ok fab={(fabricIdOf noc.subject).getD 0} node={(nodeIdOf noc.subject).getD 0} idx=same" then
          some s!"updated identity differs from the certificate's / another fabric was touched: {out}"
        else if out.contains "table=" then some s!"fabric table changed in an unexpected way: {out}"
        else none
      (st, verdict model out ora)
    | _, _, _, _, _ => (st, "BAD updnoc")
  | "addroot" :: ts :: rest =>
    match parseTime ts, (kv "root" rest).bind parseRec with
    | some t, some root =>
      let model := if addTrustedRoot t root then "ok" else "InvalidCommand"
      let want := decide (RootValid t root)
      let ora := if want ≠ accepted out then some s!"spec={if want then "valid" else "invalid"} impl={out}" else none
      (st, verdict model out ora)
    | _, _ => (st, "BAD addroot")
  | "tlvm" :: ts :: rest =>
    if out.startsWith "skip:" then (st, "ok") else
    match parseTime ts, (kv "fab" rest).bind String.toNat?, (kv "root" rest).bind parseRec,
          (kv "noc" rest).bind parseRec, (kv "icac" rest).bind optRec,
          (kv "who" rest).bind String.toNat?, (kv "rec" (words out)).bind parseRec with
    | some t, some fab, some root, some noc, some icac, some who, some changed =>
      let res := ((kv "res" (words out)).getD "").replace "_" " "
      if res.startsWith "fabric:" then (st, "ok") else
      -- the chain with the changed certificate in place
      let noc' := if who = 0 then changed else noc
      let icac' := if who = 1 then some changed else icac
      let root' := if who = 2 then changed else root
      if (kv "via" rest) = some "verify" then
        let p := noc' :: (icac'.toList ++ [root'])
        let modelOk : Bool := match verifyChain t p with | .ok _ => true | .error _ => false
        let want := decide (PathValid t p)
        if want ≠ accepted res then (st, s!"ORA spec={if want then "valid" else "invalid"} impl={res}")
        else if modelOk ≠ accepted res then (st, s!"DIS {fmtUnit (verifyChain t p)}")
        else (st, "ok")
      else
        let fv : FabricView := { fabricId := fab, root := root' }
        let model := caseAccept t fv noc' icac'
        let want := decide (CaseValid t fv noc' icac')
        if want ≠ accepted res then (st, s!"ORA spec={if want then "valid" else "invalid"} impl={res}")
        else if accepted res ∧ res ≠ s!"ok node={(nodeIdOf noc'.subject).getD 0}" then
          (st, s!"ORA admitted node id differs from the certificate's: {res}")
        else if (match model with | .ok _ => true | .error _ => false) ≠ accepted res then
          (st, s!"DIS {fmtCase model}")
        else (st, "ok")
    | _, _, _, _, _, _, _ => (st, "BAD tlvm")
  | "cval" :: ts :: rest =>
    match parseTime ts, (kv "fab" rest).bind String.toNat?, (kv "root" rest).bind parseRec,
          (kv "noc" rest).bind parseRec, (kv "icac" rest).bind optRec with
    | some t, some fab, some root, some noc, some icac =>
      let fv : FabricView := { fabricId := fab, root := root }
      let model := fmtCase (caseAccept t fv noc icac)
      let want := decide (CaseValid t fv noc icac)
      let ora :=
        if want ≠ accepted out then some s!"spec={if want then "valid" else "invalid"} impl={out}"
        else if accepted out ∧ out ≠ s!"ok node={(nodeIdOf noc.subject).getD 0}" then
          some s!"admitted node id differs from the certificate's: {out}"
        else none
      (st, verdict model out ora)
    | _, _, _, _, _ => (st, "BAD cval")
  | _ => step st line

/-! ## install sequences on one node -/

/-- one installed fabric as the IMPLEMENTATION's answers define it -/
structure Row where
  idx : Nat
  fid : Nat
  root : Cert
  node : Nat
deriving Inhabited

structure St where
  tbl : List Row := []
deriving Inhabited

def fmtTbl (t : List Row) : String :=
  if t.isEmpty then "-"
  else "+".intercalate (t.map fun r => s!"{r.idx}:{r.fid}:{r.root.pubKey}:{r.node}")

def entriesOf (t : List Row) : List FabricEntry :=
  t.map fun r => { fabricId := r.fid, rootPubKey := r.root.pubKey }

def stepS (st : St) (line : String) : St × String :=
  let (op, out) := splitArrow line
  let toks := words op
  match toks with
  | "case" :: _ => ({}, "case")
  | "inst" :: ts :: rest =>
    match parseTime ts, (kv "root" rest).bind parseRec, (kv "noc" rest).bind parseRec,
          (kv "icac" rest).bind optRec with
    | some t, some root, some noc, some icac =>
      let ows := words out
      let res := " ".intercalate (ows.filter fun w => !(w.startsWith "tbl="))
      let tblImpl := (kv "tbl" ows).getD "?"
      let fabs := entriesOf st.tbl
      let rootOk := addTrustedRoot t root
      let model :=
        if !rootOk then "root:InvalidCommand"
        else match addNoc t root 9 fabs noc icac with
          | .ok (f, n) => s!"ok fab={f} node={n}"
          | .error e => e.name
      -- specification on the whole installed set
      let want := decide (RootValid t root) && decide (InstallValid t root 9 fabs noc icac)
      let acc := accepted res
      let idx? := (kv "idx" ows).bind String.toNat?
      let st' : St :=
        if acc then
          { tbl := st.tbl ++ [{ idx := idx?.getD 0, fid := (fabricIdOf noc.subject).getD 0, root := root,
                                node := (nodeIdOf noc.subject).getD 0 }] }
        else st
      -- a full fabric table is a resource limit outside the property's sentence: a refusal for that reason is
      -- never wrong (the table must stay as it is)
      if res = "NocFabricTableFull" then
        (if tblImpl = fmtTbl st.tbl then (st, "ok") else (st, s!"ORA a refused AddNOC changed the fabric table: {tblImpl}")) else
      let ora : Option String :=
        if want ≠ acc then
          some s!"spec={if want then "valid" else "invalid"} impl={res} installed={fmtTbl st.tbl}"
        else if acc ∧ ¬ res.startsWith
            s!"ok fab={(fabricIdOf noc.subject).getD 0} node={(nodeIdOf noc.subject).getD 0} idx=" then
          some s!"installed identity differs from the certificate's: {res}"
        else if acc ∧ (idx? = none ∨ idx? = some 0 ∨ st.tbl.any (fun r => some r.idx == idx?)) then
          some s!"the new fabric got the index of an installed one: {res}"
        else if tblImpl ≠ fmtTbl st'.tbl then
          some s!"fabric table is {tblImpl}, the accepted commands give {fmtTbl st'.tbl}"
        else none
      match ora with
      | some w => (st', s!"ORA {w}")
      | none =>
        let resNoIdx := " ".intercalate ((words res).filter fun w => !(w.startsWith "idx="))
        if model = resNoIdx then (st', "ok") else (st', s!"DIS {model}")
    | _, _, _, _ => (st, "BAD inst")
  | "upd" :: ts :: rest =>
    match parseTime ts, (kv "idx" rest).bind String.toNat?, (kv "noc" rest).bind parseRec,
          (kv "icac" rest).bind optRec with
    | some t, some idx, some noc, some icac =>
      let ows := words out
      let res := " ".intercalate (ows.filter fun w => !(w.startsWith "tbl="))
      let tblImpl := (kv "tbl" ows).getD "?"
      let acc := accepted res
      match st.tbl.find? (fun r => r.idx == idx) with
      | none =>
        if acc then (st, s!"ORA UpdateNOC accepted on a fabric index that is not installed: {res}") else (st, "ok")
      | some row =>
        let fv : FabricView := { fabricId := row.fid, root := row.root }
        let model := match updateNoc t fv 9 noc icac with
          | .ok (f, n) => s!"ok fab={f} node={n} idx={idx}"
          | .error e => e.name
        let want := decide (UpdateValid t fv 9 noc icac)
        let st' : St :=
          if acc then
            { tbl := st.tbl.map fun r => if r.idx == idx then { r with node := (nodeIdOf noc.subject).getD 0 } else r }
          else st
        let ora : Option String :=
          if want ≠ acc then some s!"spec={if want then "valid" else "invalid"} impl={res} fabric={row.idx}:{row.fid}:{row.root.pubKey}"
          else if acc ∧ res ≠ s!"ok fab={row.fid} node={(nodeIdOf noc.subject).getD 0} idx={idx}" then
            some s!"UpdateNOC changed another fabric / another identity than the certificate's: {res}"
          else if tblImpl ≠ fmtTbl st'.tbl then
            some s!"fabric table is {tblImpl}, the accepted commands give {fmtTbl st'.tbl}"
          else none
        match ora with
        | some w => (st', s!"ORA {w}")
        | none => if model = res then (st', "ok") else (st', s!"DIS {model}")
    | _, _, _, _ => (st, "BAD upd")
  | _ => (st, (step' () line).2)

def run : IO UInt32 := Driver.runLoop ({} : St) stepS

end Driver.C19
