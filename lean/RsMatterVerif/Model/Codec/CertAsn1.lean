import RsMatterVerif.Model.Codec.Der
/-!
# Model of `CertRef::as_asn1` (`rs-matter/src/cert.rs`): Matter certificate → X.509 DER (TBSCertificate)

**Input of the model** = the certificate's fields as the accessors of `CertRef` return them
(`serial_no()`, `sign_algo()`, `issuer()`, …, the items of the DN / extension lists, `DN::tag()`,
`DN::value()`, the derived `FromTLV` of `Extension`): the *lazy* record `Cert`, every field an
`Except Err _` because `encode` reads the TLV while it writes (a field that cannot be read aborts the
conversion at that point, after the operations before it). The TLV reading itself is property C16's
subject and is not modelled here; the harness obtains the record from the real accessors
(`CertRef::verif_fields`, add-only hook) for every certificate it converts.

`encode` transliterates `CertRef::encode` / `DN::encode_all` / `DN::encode` / `Extension::encode_all` /
`Extension::encode` / `BasicConstraints::encode` line by line over the writer model of `Der.lean`
(`M` = "writer state + `?`"). As in the Rust code the signature is *not* part of the output.

`Fields` is the fully decoded certificate (every field readable); `certNode` the tree of writer
operations `encode` performs for it; `certFieldsOfDer` reads the fields back from a parsed DER value
(the oracle of the harness stream and the inverse in the round-trip theorem).
-/
namespace Codec.CertAsn1
open Codec Codec.Der

def DOESNT_EXPIRE : Nat := Consts.c17CertDoesntExpire

/-- `mapM` in `Option`, as a plain recursion -/
def mapO {α β : Type} (f : α → Option β) : List α → Option (List β)
  | [] => some []
  | a :: r =>
    match f a, mapO f r with
    | some b, some bs => some (b :: bs)
    | _, _ => none

def OID_PUB_KEY_ECPUBKEY : List Nat := [0x2A, 0x86, 0x48, 0xCE, 0x3D, 0x02, 0x01]
def OID_EC_TYPE_PRIME256V1 : List Nat := [0x2A, 0x86, 0x48, 0xCE, 0x3D, 0x03, 0x01, 0x07]
def OID_ECDSA_WITH_SHA256 : List Nat := [0x2A, 0x86, 0x48, 0xCE, 0x3D, 0x04, 0x03, 0x02]

def OID_BASIC_CONSTRAINTS : List Nat := [0x55, 0x1D, 0x13]
def OID_KEY_USAGE : List Nat := [0x55, 0x1D, 0x0F]
def OID_EXT_KEY_USAGE : List Nat := [0x55, 0x1D, 0x25]
def OID_SUBJ_KEY_IDENTIFIER : List Nat := [0x55, 0x1D, 0x0E]
def OID_AUTH_KEY_ID : List Nat := [0x55, 0x1D, 0x23]

/-- `IntToStringLen` -/
inductive IntLen | len16 | len8
deriving DecidableEq, Repr

def matterOid (k : Nat) : List Nat := [0x2B, 0x06, 0x01, 0x04, 0x01, 0x82, 0xA2, 0x7C, 0x01, k]

/-- `DN_ENCODING` (OID, expected length of an integer value), index = `DNTag as usize - 1` -/
def DN_ENCODING : List (List Nat × Option IntLen) :=
  [ ([0x55, 0x04, 0x03], none), ([0x55, 0x04, 0x04], none), ([0x55, 0x04, 0x05], none),
    ([0x55, 0x04, 0x06], none), ([0x55, 0x04, 0x07], none), ([0x55, 0x04, 0x08], none),
    ([0x55, 0x04, 0x0A], none), ([0x55, 0x04, 0x0B], none), ([0x55, 0x04, 0x0C], none),
    ([0x55, 0x04, 0x29], none), ([0x55, 0x04, 0x2A], none), ([0x55, 0x04, 0x2B], none),
    ([0x55, 0x04, 0x2C], none), ([0x55, 0x04, 0x2E], none), ([0x55, 0x04, 0x41], none),
    ([0x09, 0x92, 0x26, 0x89, 0x93, 0xF2, 0x2C, 0x64, 0x01, 0x19], none),
    (matterOid 1, some .len16), (matterOid 2, some .len16), (matterOid 3, some .len16),
    (matterOid 4, some .len16), (matterOid 5, some .len16), (matterOid 6, some .len8) ]

/-- the `encoding` table of `encode_extended_key_usage` (entry 0 is a placeholder) -/
def EKU_ENCODING : List (List Nat) :=
  [ [0, 0, 0, 0, 0, 0, 0, 0],
    [0x2B, 0x06, 0x01, 0x05, 0x05, 0x07, 0x03, 0x01], [0x2B, 0x06, 0x01, 0x05, 0x05, 0x07, 0x03, 0x02],
    [0x2B, 0x06, 0x01, 0x05, 0x05, 0x07, 0x03, 0x03], [0x2B, 0x06, 0x01, 0x05, 0x05, 0x07, 0x03, 0x04],
    [0x2B, 0x06, 0x01, 0x05, 0x05, 0x07, 0x03, 0x08], [0x2B, 0x06, 0x01, 0x05, 0x05, 0x07, 0x03, 0x09] ]

/-! ## the certificate as the accessors return it -/

/-- `DNValue` -/
inductive DnVal
  | uint (v : Nat)
  | utf8 (s : List Nat)
  | printable (s : List Nat)
deriving DecidableEq, Repr

/-- one item of the issuer / subject list: `DN::tag()` (`none` = `Err`: the attribute is skipped with a
log line) and `DN::value()` (evaluated only for a known tag) -/
structure DnItem where
  tag : Option Nat
  value : Except String DnVal

/-- `Extension` as `FromTLV` returns it; the `TLVArray<u8>` of the extended key usage is iterated lazily -/
inductive Ext
  | basic (isCa : Bool) (path : Option Nat)
  | keyUsage (v : Nat)
  | extKeyUsage (l : List (Except String Nat))
  | subjKeyId (b : List Nat)
  | authKeyId (b : List Nat)
  | future (b : List Nat)

/-- the accessor results; a failing accessor is represented by the *name* of its `ErrorCode` (the TLV
reader's codes are not enumerated here: they are passed through to the caller unchanged) -/
structure Cert where
  serial : Except String (List Nat)
  signAlgo : Except String Nat
  issuer : Except String (List (Except String DnItem))
  notBefore : Except String Nat
  notAfter : Except String Nat
  subject : Except String (List (Except String DnItem))
  pubkeyAlgo : Except String Nat
  ecCurveId : Except String Nat
  pubkey : Except String (List Nat)
  extensions : Except String (List (Except String Ext))

/-! ## `encode` -/

/-- what `as_asn1` can fail with: an error (or panic) of the writer / of `encode` itself, or the error of
a field accessor -/
inductive CErr
  | w (e : Err)
  | read (name : String)
deriving DecidableEq, Repr

/-- writer state + error propagation (`?`) -/
abbrev M := StateT W (Except CErr)

/-- one `CertConsumer` call on the writer, `?` -/
def op (o : Op) : M Unit := fun w =>
  match w.step o with
  | .ok w' => .ok ((), w')
  | .error e => .error (.w e)

/-- an accessor result, `?` -/
def get {α : Type} (r : Except String α) : M α := fun w =>
  match r with
  | .ok a => .ok (a, w)
  | .error n => .error (.read n)

/-- `Err(code)?` / a panic inside `encode` -/
def fail {α : Type} (e : Err) : M α := fun _ => .error (.w e)

def hexDigitUp (n : Nat) : Nat := if n % 16 < 10 then 48 + n % 16 else 55 + n % 16

/-- exactly `n` upper-case hex digits of `v`, most significant first -/
def hexFix : Nat → Nat → List Nat
  | 0, _ => []
  | n + 1, v => hexFix n (v / 16) ++ [hexDigitUp v]

/-- `{:0<width>X}`: at least `width` upper-case hex digits (all digits of a wider number) -/
def hexUp (width v : Nat) : List Nat :=
  if v < 16 ^ width then hexFix width v else hexFix (Nat.log2 v / 4 + 1) v

/-- the `match self.value()?` of `DN::encode` -/
def dnValue (v : DnVal) (expected : Option IntLen) : M Unit :=
  match v with
  | .uint x =>
    match expected with
    | some .len16 => op (.utf8str (hexUp 16 x))
    | some .len8 => op (.utf8str (hexUp 8 x))
    | none => fail .invalid
  | .utf8 s => op (.utf8str s)
  | .printable s => op (.printstr s)

/-- `DN::encode(name, oid, w, expected_len)` -/
def dnEncode (v : Except String DnVal) (oid : List Nat) (expected : Option IntLen) : M Unit := do
  op .startSet
  op .startSeq
  op (.oid oid)
  let v ← get v
  dnValue v expected
  op .endSeq
  op .endSet

/-- the body of the `for dn in values` loop of `DN::encode_all` (after `let dn = dn?`) -/
def dnItem (dn : DnItem) : M Unit :=
  match dn.tag with
  | some tag =>
    let index := tag - 1
    if index ≤ DN_ENCODING.length then
      match DN_ENCODING[index]? with
      | some (oid, expected) => dnEncode dn.value oid expected
      | none => fail .panic
    else pure ()
  | none => pure ()

/-- the `for dn in values` loop of `DN::encode_all` -/
def dnLoop : List (Except String DnItem) → M Unit
  | [] => pure ()
  | it :: r => do
    let dn ← get it
    dnItem dn
    dnLoop r

/-- `DN::encode_all` -/
def dnEncodeAll (l : List (Except String DnItem)) : M Unit := do
  op .startSeq
  dnLoop l
  op .endSeq

/-- `reverse_byte` (nibble lookup) -/
def REVERSE_LOOKUP : List Nat :=
  [0x00, 0x08, 0x04, 0x0c, 0x02, 0x0a, 0x06, 0x0e, 0x01, 0x09, 0x05, 0x0d, 0x03, 0x0b, 0x07, 0x0f]
def reverseByte (b : Nat) : Nat :=
  -- `(LOOKUP[b & 0x0f] << 4) | LOOKUP[b >> 4]`; the table entries are `< 16`, so `|` adds
  REVERSE_LOOKUP.getD (b % 16) 0 * 16 + REVERSE_LOOKUP.getD (b / 16 % 16) 0

/-- `int_to_bitstring` into `[0u8; 2]` -/
def keyUsageBytes (a : Nat) : List Nat := [reverseByte (a % 256), reverseByte (a / 256 % 256)]

/-- the body of the `for t in list` loop of `encode_extended_key_usage` (after `let t = t? as usize`) -/
def ekuItem (t : Nat) : M Unit :=
  -- (after fix C17-cert-eku-index: `t < encoding.len()`; it used to be `<=` and index 7 panicked)
  if t > 0 ∧ t < EKU_ENCODING.length then
    match EKU_ENCODING[t]? with
    | some oid => op (.oid oid)
    | none => fail .panic
  else pure ()

/-- the `for t in list` loop of `encode_extended_key_usage` -/
def ekuLoop : List (Except String Nat) → M Unit
  | [] => pure ()
  | it :: r => do
    let t ← get it
    ekuItem t
    ekuLoop r

/-- `if cond { w.<op>(..)? }` -/
def opIf (c : Bool) (o : Op) : M Unit := if c then op o else pure ()

/-- the content octets of the path length INTEGER (after fix C17-cert-pathlen-negative: a leading zero octet when the
top bit is set; it used to be `[len]` for every `u8`, i.e. a negative INTEGER for 128..=255) -/
def pathInt (len : Nat) : List Nat := if len ≥ 0x80 then [0, len] else [len]

/-- `if let Some(len) = self.path { if len >= 0x80 { w.integer("", &[0, len])? } else { w.integer("", &[len])? } }` -/
def opPath (path : Option Nat) : M Unit :=
  match path with
  | some len => op (.integer (pathInt len))
  | none => pure ()

/-- `encode_extension_start` -/
def extStart (critical : Bool) (oid : List Nat) : M Unit := do
  op .startSeq
  op (.oid oid)
  opIf critical (.bool true)
  op .startOstr

/-- `encode_extension_end` -/
def extEnd : M Unit := do
  op .endOstr
  op .endSeq

/-- `Extension::encode` -/
def extEncode : Ext → M Unit
  | .basic isCa path => do
    extStart true OID_BASIC_CONSTRAINTS
    op .startSeq
    opIf isCa (.bool true)
    opPath path
    op .endSeq
    extEnd
  | .keyUsage v => do
    extStart true OID_KEY_USAGE
    op (.bitstr true (keyUsageBytes v))
    extEnd
  | .extKeyUsage l => do
    extStart true OID_EXT_KEY_USAGE
    op .startSeq
    ekuLoop l
    op .endSeq
    extEnd
  | .subjKeyId b => do
    extStart false OID_SUBJ_KEY_IDENTIFIER
    op (.ostr b)
    extEnd
  | .authKeyId b => do
    extStart false OID_AUTH_KEY_ID
    op .startSeq
    op (.ctx 0 b)
    op .endSeq
    extEnd
  | .future b => op (.raw b)

def extLoop : List (Except String Ext) → M Unit
  | [] => pure ()
  | it :: r => do
    let e ← get it
    extEncode e
    extLoop r

/-- `Extension::encode_all` -/
def extEncodeAll (l : List (Except String Ext)) : M Unit := do
  op (.startCtx 3)
  op .startSeq
  extLoop l
  op .endSeq
  op .endCtx

/-- `get_sign_algo(..).ok_or(Invalid)` etc.: the only defined value is 1 -/
def enumOid (v : Nat) (oid : List Nat) : M (List Nat) := if v = 1 then pure oid else fail .invalid

/-- `if self.not_after()? == 0 { w.utctime(.., MATTER_CERT_DOESNT_EXPIRE)? } else { w.utctime(.., self.not_after()?.into())? }` -/
def notAfterOps (c : Cert) (na : Nat) : M Unit :=
  if na = 0 then op (.utctime DOESNT_EXPIRE)
  else do
    let na ← get c.notAfter
    op (.utctime na)

/-- `CertRef::encode` -/
def encode (c : Cert) : M Unit := do
  op .startSeq
  op (.startCtx 0)
  op (.integer [2])
  op .endCtx
  let serial ← get c.serial
  op (.integer serial)
  op .startSeq
  let a ← get c.signAlgo
  let oid ← enumOid a OID_ECDSA_WITH_SHA256
  op (.oid oid)
  op .endSeq
  let issuer ← get c.issuer
  dnEncodeAll issuer
  op .startSeq
  let nb ← get c.notBefore
  op (.utctime nb)
  let na ← get c.notAfter
  notAfterOps c na
  op .endSeq
  let subject ← get c.subject
  dnEncodeAll subject
  op .startSeq
  op .startSeq
  let pa ← get c.pubkeyAlgo
  let oid ← enumOid pa OID_PUB_KEY_ECPUBKEY
  op (.oid oid)
  let cid ← get c.ecCurveId
  let oid ← enumOid cid OID_EC_TYPE_PRIME256V1
  op (.oid oid)
  op .endSeq
  let pk ← get c.pubkey
  op (.bitstr false pk)
  op .endSeq
  let exts ← get c.extensions
  extEncodeAll exts
  op .endSeq

/-- `CertRef::as_asn1(buf)`: the DER bytes (`buf[..len]`) -/
def asAsn1 (c : Cert) (buf : List Nat) : Except CErr (List Nat) :=
  match encode c (W.new buf) with
  | .error e => .error e
  | .ok (_, w) =>
    match w.asSlice with
    | .ok s => .ok s
    | .error e => .error (.w e)

/-! ## the fully decoded certificate and its tree of operations -/

structure Attr where
  tag : Nat
  val : DnVal
deriving DecidableEq, Repr

inductive XExt
  | basic (isCa : Bool) (path : Option Nat)
  | keyUsage (v : Nat)
  | extKeyUsage (l : List Nat)
  | subjKeyId (b : List Nat)
  | authKeyId (b : List Nat)
  | future (b : List Nat)
deriving DecidableEq, Repr

structure Fields where
  serial : List Nat
  signAlgo : Nat
  issuer : List Attr
  notBefore : Nat
  notAfter : Nat
  subject : List Attr
  pubkeyAlgo : Nat
  ecCurveId : Nat
  pubkey : List Nat
  exts : List XExt
deriving DecidableEq, Repr

def XExt.lazy : XExt → Ext
  | .basic c p => .basic c p
  | .keyUsage v => .keyUsage v
  | .extKeyUsage l => .extKeyUsage (l.map .ok)
  | .subjKeyId b => .subjKeyId b
  | .authKeyId b => .authKeyId b
  | .future b => .future b

/-- the accessor view of a readable certificate -/
def Fields.lazy (f : Fields) : Cert :=
  { serial := .ok f.serial, signAlgo := .ok f.signAlgo
    issuer := .ok (f.issuer.map fun a => .ok { tag := some a.tag, value := .ok a.val })
    notBefore := .ok f.notBefore, notAfter := .ok f.notAfter
    subject := .ok (f.subject.map fun a => .ok { tag := some a.tag, value := .ok a.val })
    pubkeyAlgo := .ok f.pubkeyAlgo, ecCurveId := .ok f.ecCurveId, pubkey := .ok f.pubkey
    extensions := .ok (f.exts.map fun e => .ok e.lazy) }

def seq (cs : List Node) : Node := .cons 0x30 cs

/-- the string an attribute value is written as: (`true` = PrintableString, bytes) -/
def attrString (expected : Option IntLen) : DnVal → Option (Bool × List Nat)
  | .uint x =>
    match expected with
    | some .len16 => some (false, hexUp 16 x)
    | some .len8 => some (false, hexUp 8 x)
    | none => none
  | .utf8 s => some (false, s)
  | .printable s => some (true, s)

def strNode (p : Bool × List Nat) : Node := .prim (if p.1 then 0x13 else 0x0c) p.2

def attrNode (a : Attr) : Option Node :=
  match DN_ENCODING[a.tag - 1]? with
  | some (oid, expected) =>
    match attrString expected a.val with
    | some p => some (.cons 0x31 [seq [.prim 0x06 oid, strNode p]])
    | none => none
  | none => none

def dnNode (l : List Attr) : Option Node := (mapO attrNode l).map seq

def timeNode (epoch : Nat) : Option Node := (timeStr epoch).map fun p => .prim p.1 p.2

def extNodeKnown (critical : Bool) (oid : List Nat) (value : List Node) : Node :=
  seq ([.prim 0x06 oid] ++ (if critical then [.prim 0x01 [0xFF]] else []) ++ [.cons 0x04 value])

def ekuNode (t : Nat) : List Node :=
  if t > 0 ∧ t < EKU_ENCODING.length then
    match EKU_ENCODING[t]? with
    | some oid => [.prim 0x06 oid]
    | none => []
  else []

def extNode : XExt → Node
  | .basic isCa path =>
    extNodeKnown true OID_BASIC_CONSTRAINTS
      [seq ((if isCa then [.prim 0x01 [0xFF]] else []) ++
            (match path with | some len => [.prim 0x02 (pathInt len)] | none => []))]
  | .keyUsage v => extNodeKnown true OID_KEY_USAGE [.prim 0x03 (bitstrContent true (keyUsageBytes v))]
  | .extKeyUsage l => extNodeKnown true OID_EXT_KEY_USAGE [seq (l.flatMap ekuNode)]
  | .subjKeyId b => extNodeKnown false OID_SUBJ_KEY_IDENTIFIER [.prim 0x04 b]
  | .authKeyId b => extNodeKnown false OID_AUTH_KEY_ID [seq [.prim 0x80 b]]
  | .future b => .raw b

def enumOidO (v : Nat) (oid : List Nat) : Option (List Nat) := if v = 1 then some oid else none

/-- the tree of writer operations `encode` performs for a readable certificate (`none`: the conversion
fails or panics: undefined algorithm value, integer value under a non-Matter attribute, date beyond 9999) -/
def certNode (f : Fields) : Option Node := do
  let sigOid ← enumOidO f.signAlgo OID_ECDSA_WITH_SHA256
  let issuer ← dnNode f.issuer
  let nb ← timeNode f.notBefore
  let na ← timeNode (if f.notAfter = 0 then DOESNT_EXPIRE else f.notAfter)
  let subject ← dnNode f.subject
  let pkOid ← enumOidO f.pubkeyAlgo OID_PUB_KEY_ECPUBKEY
  let curveOid ← enumOidO f.ecCurveId OID_EC_TYPE_PRIME256V1
  pure (seq [
    .cons 0xA0 [.prim 0x02 [2]],
    .prim 0x02 f.serial,
    seq [.prim 0x06 sigOid],
    issuer,
    seq [nb, na],
    subject,
    seq [seq [.prim 0x06 pkOid, .prim 0x06 curveOid], .prim 0x03 (bitstrContent false f.pubkey)],
    .cons 0xA3 [seq (f.exts.map extNode)] ])

/-! ## reading the fields back from DER (specification side) -/

/-- days since 1970-01-01 of a calendar date (inverse of `civilFromDays`) -/
def daysFromCivil (y m d : Nat) : Nat :=
  let y' := if m ≤ 2 then y - 1 else y
  let era := y' / 400
  let yoe := y' % 400
  let mp := if m > 2 then m - 3 else m + 9
  let doy := (153 * mp + 2) / 5 + d - 1
  let doe := yoe * 365 + yoe / 4 - yoe / 100 + doy
  era * 146097 + doe - 719468

def unixOfCivil (c : Civil) : Nat :=
  daysFromCivil c.year c.month c.day * 86400 + c.hour * 3600 + c.minute * 60 + c.second

def isDigit (c : Nat) : Bool := 48 ≤ c && c ≤ 57

/-- decimal value of a digit string -/
def decVal (l : List Nat) : Option Nat :=
  if l.all isDigit then some (l.foldl (fun a c => 10 * a + (c - 48)) 0) else none

/-- `YYMMDDHHMMSSZ` (UTCTime, 20YY for YY < 50 — RFC 5280) / `YYYYMMDDHHMMSSZ` (GeneralizedTime) → Matter epoch -/
def parseTime : Der → Option Nat
  | .prim tag s =>
    let go := fun (year : Nat) (rest : List Nat) =>
      match rest with
      | [m1, m2, d1, d2, h1, h2, i1, i2, s1, s2, 90] => do
        let m ← decVal [m1, m2]; let d ← decVal [d1, d2]; let h ← decVal [h1, h2]
        let i ← decVal [i1, i2]; let s ← decVal [s1, s2]
        if m < 1 ∨ m > 12 ∨ d < 1 ∨ d > 31 ∨ h > 23 ∨ i > 59 ∨ s > 59 then none
        else
          let t := unixOfCivil { year := year, month := m, day := d, hour := h, minute := i, second := s }
          if t < MATTER_EPOCH_SECS then none else some (t - MATTER_EPOCH_SECS)
      | _ => none
    if tag = 0x17 then
      match s with
      | y1 :: y2 :: rest => do
        let y ← decVal [y1, y2]
        go (if y < 50 then 2000 + y else 1900 + y) rest
      | _ => none
    else if tag = 0x18 then
      match s with
      | y1 :: y2 :: y3 :: y4 :: rest => do
        let y ← decVal [y1, y2, y3, y4]
        -- RFC 5280: dates before 2050 must be UTCTime
        if y < 2050 then none else go y rest
      | _ => none
    else none
  | _ => none

/-- an attribute as it can be read from the DER: Matter tag number, PrintableString?, the string -/
structure AttrView where
  tag : Nat
  printable : Bool
  str : List Nat
deriving DecidableEq, Repr

def oidIndex (oid : List Nat) : Option Nat :=
  let i := DN_ENCODING.findIdx (fun p => p.1 == oid)
  if i < DN_ENCODING.length then some i else none

def parseAttr : Der → Option AttrView
  | .cons 0x31 [.cons 0x30 [.prim 0x06 oid, .prim st s]] => do
    let i ← oidIndex oid
    if st = 0x13 then some { tag := i + 1, printable := true, str := s }
    else if st = 0x0c then some { tag := i + 1, printable := false, str := s }
    else none
  | _ => none

def parseDn : Der → Option (List AttrView)
  | .cons 0x30 l => mapO parseAttr l
  | _ => none

/-- a BIT STRING of named bits → the bytes with the stripped zero bytes restored (2 bytes for key usage) -/
def parseKeyUsage : Der → Option Nat
  | .prim 0x03 (unused :: bytes) =>
    -- DER named bit list: no trailing zero byte, `unused` = the trailing zero bits of the last byte
    if bytes.length > 2 ∨ unused ≠ (match bytes.getLast? with | some b => if b = 0 then 8 else tz 8 b | none => 0) then none
    else
      let b0 := bytes.getD 0 0
      let b1 := bytes.getD 1 0
      -- named bit i of the bit string = bit i of the Matter value
      some (reverseByte b0 + 256 * reverseByte b1)
  | _ => none

def ekuIndex (oid : List Nat) : Option Nat :=
  let i := EKU_ENCODING.findIdx (fun p => p == oid)
  if 0 < i ∧ i < EKU_ENCODING.length then some i else none

def parseEku : Der → Option Nat
  | .prim 0x06 oid => ekuIndex oid
  | _ => none

/-- an extension as it can be read from the DER -/
structure ExtView where
  critical : Bool
  ext : XExt
deriving DecidableEq, Repr

/-- the content of a DER INTEGER holding a `u8`: non-negative and minimal (X.690 8.3) — one octet below 0x80, or a zero
octet followed by an octet from 0x80 on -/
def parsePathLen : List Nat → Option Nat
  | [p] => if p < 0x80 then some p else none
  | [z, p] => if z = 0 ∧ 0x80 ≤ p then some p else none
  | _ => none

/-- the value of a known extension (the DER value inside the wrapping OCTET STRING) -/
def extOfDer (oid : List Nat) (d : Der) : Option XExt :=
  if oid = OID_BASIC_CONSTRAINTS then
    match d with
    | .cons 0x30 [] => some (.basic false none)
    | .cons 0x30 [.prim 0x01 [0xFF]] => some (.basic true none)
    | .cons 0x30 [.prim 0x02 c] => (parsePathLen c).map fun p => .basic false (some p)
    | .cons 0x30 [.prim 0x01 [0xFF], .prim 0x02 c] => (parsePathLen c).map fun p => .basic true (some p)
    | _ => none
  else if oid = OID_KEY_USAGE then (parseKeyUsage d).map .keyUsage
  else if oid = OID_EXT_KEY_USAGE then
    match d with
    | .cons 0x30 l => (mapO parseEku l).map .extKeyUsage
    | _ => none
  else if oid = OID_SUBJ_KEY_IDENTIFIER then
    match d with
    | .prim 0x04 b => some (.subjKeyId b)
    | _ => none
  else if oid = OID_AUTH_KEY_ID then
    match d with
    | .cons 0x30 [.prim 0x80 b] => some (.authKeyId b)
    | _ => none
  else none

def parseExtValue (oid value : List Nat) : Option XExt := (parseDer value).bind (extOfDer oid)

def knownExtOid (oid : List Nat) : Bool :=
  oid == OID_BASIC_CONSTRAINTS || oid == OID_KEY_USAGE || oid == OID_EXT_KEY_USAGE ||
  oid == OID_SUBJ_KEY_IDENTIFIER || oid == OID_AUTH_KEY_ID

/-- `Extension ::= SEQUENCE { extnID, critical BOOLEAN DEFAULT FALSE, extnValue OCTET STRING }`; an extension
with another OID is returned as `future` with its complete DER encoding -/
def parseExt (d : Der) : Option ExtView :=
  match d with
  | .cons 0x30 [.prim 0x06 oid, .prim 0x01 [0xFF], .prim 0x04 v] =>
    if knownExtOid oid then (parseExtValue oid v).map fun e => { critical := true, ext := e }
    else some { critical := true, ext := .future d.enc }
  | .cons 0x30 [.prim 0x06 oid, .prim 0x04 v] =>
    if knownExtOid oid then (parseExtValue oid v).map fun e => { critical := false, ext := e }
    else some { critical := false, ext := .future d.enc }
  | _ => none

/-- what can be read back from the DER of a certificate -/
structure View where
  serial : List Nat
  signAlgo : Nat
  issuer : List AttrView
  notBefore : Nat
  notAfter : Nat
  subject : List AttrView
  pubkeyAlgo : Nat
  ecCurveId : Nat
  pubkey : List Nat
  exts : List ExtView
deriving DecidableEq, Repr

/-- `TBSCertificate` → fields. Version must be v3, the algorithm OIDs the ones Matter defines (value 1);
a `notAfter` of `99991231235959Z` is "no well-defined expiry" = Matter value 0. -/
def certFieldsOfDer : Der → Option View
  | .cons 0x30 [.cons 0xA0 [.prim 0x02 [2]], .prim 0x02 serial, .cons 0x30 [.prim 0x06 sigOid], issuer,
      .cons 0x30 [nb, na], subject,
      .cons 0x30 [.cons 0x30 [.prim 0x06 pkOid, .prim 0x06 curveOid], .prim 0x03 (0 :: pk)],
      .cons 0xA3 [.cons 0x30 exts]] =>
    if sigOid ≠ OID_ECDSA_WITH_SHA256 ∨ pkOid ≠ OID_PUB_KEY_ECPUBKEY ∨ curveOid ≠ OID_EC_TYPE_PRIME256V1 then none
    else do
    let issuer ← parseDn issuer
    let subject ← parseDn subject
    let nb ← parseTime nb
    let na ← parseTime na
    let exts ← mapO parseExt exts
    pure { serial := serial, signAlgo := 1, issuer := issuer, notBefore := nb
           notAfter := if na = DOESNT_EXPIRE then 0 else na
           subject := subject, pubkeyAlgo := 1, ecCurveId := 1, pubkey := pk, exts := exts }
  | _ => none

/-- the view of a decoded certificate: what the round trip must return -/
def Attr.view (a : Attr) : Option AttrView :=
  match DN_ENCODING[a.tag - 1]? with
  | some (_, expected) =>
    (attrString expected a.val).map fun p => { tag := a.tag, printable := p.1, str := p.2 }
  | none => none

def XExt.critical : XExt → Bool
  | .basic _ _ | .keyUsage _ | .extKeyUsage _ => true
  | _ => false

/-- a spliced `future-extensions` blob is seen as the extension it contains (its criticality is the blob's) -/
def XExt.view : XExt → Option ExtView
  | .future b => (parseDer b).bind parseExt
  | e => some { critical := e.critical, ext := e }

def Fields.view (f : Fields) : Option View := do
  let issuer ← mapO Attr.view f.issuer
  let subject ← mapO Attr.view f.subject
  let exts ← mapO XExt.view f.exts
  pure { serial := f.serial, signAlgo := f.signAlgo, issuer := issuer, notBefore := f.notBefore
         notAfter := f.notAfter, subject := subject, pubkeyAlgo := f.pubkeyAlgo, ecCurveId := f.ecCurveId
         pubkey := f.pubkey, exts := exts }

end Codec.CertAsn1
