import RsMatterVerif.Model.Codec.DerRead
/-!
# Model of `attest/cd.rs` `CmsSignedData::parse` (the CMS envelope of a certification declaration)

rs-matter code modelled here: the `DecodeValue` impls of `ContentInfo`, `SignedData`, `SignerInfo`, the
`#[derive(Sequence)]` structs `EncapsulatedContentInfo` and `AlgorithmIdentifier` (`cert/x509.rs`), and
`CmsSignedData::parse` itself, on top of the reading layer of `DerRead.lean`.

Dependency code represented *by its acceptance condition only* (all `der` errors collapse into
`ErrorCode::CdInvalidFormat`, so the error kinds need not be distinguished; whatever these routines do
internally is outside the model and is covered by the harness streams only):

* `ObjectIdentifier::decode(reader)?` followed by `oid != CONST → Err(Failed)`: accepted iff the element is
  `06 len content` with `len ≤ 39` and `content` = the constant's bytes (`expectOid`; const-oid's arc
  validation cannot reject the constant's own bytes and `ObjectIdentifier` equality is equality of bytes);
* `u8::decode(reader)?` followed by `version != 3 → Err(Failed)`: accepted iff the element is `02 01 03`
  (`expectU8`; `der` refuses non-canonical INTEGERs such as `02 02 00 03`);
* `Option<AnyRef>::decode`: `peek_byte`, `Tag::try_from`, `AnyRef::decode`.

The offsets that the result carries (`kidOff`, `cdOff`: where the returned slices start in the message)
do not exist in the Rust structure; they are what `slice.as_ptr() - message.as_ptr()` is, and let the
driver compare positions, not only contents.
-/
namespace Codec.DerRd

def OID_PKCS7_SIGNED_DATA : List Nat := [0x2a, 0x86, 0x48, 0x86, 0xf7, 0x0d, 0x01, 0x07, 0x02]
def OID_PKCS7_DATA : List Nat := [0x2a, 0x86, 0x48, 0x86, 0xf7, 0x0d, 0x01, 0x07, 0x01]
def OID_SHA256 : List Nat := [0x60, 0x86, 0x48, 0x01, 0x65, 0x03, 0x04, 0x02, 0x01]
def OID_ECDSA_WITH_SHA256 : List Nat := [0x2a, 0x86, 0x48, 0xce, 0x3d, 0x04, 0x03, 0x02]
def TAG_OID : Nat := 0x06
def TAG_OCTET_STRING : Nat := 0x04
def TAG_SET : Nat := 0x31
def KEY_IDENTIFIER_LEN : Nat := 20
def OID_MAX_SIZE : Nat := 39

namespace Rdr

/-- `peek_byte()`: `SliceReader`: first remaining byte; `NestedReader`: `None` when finished, else the inner reader's -/
def peekByte : Rdr → Except E (Option Nat)
  | .slice b p => .ok (if p ≤ b.length then b[p]? else none)
  | .nested i n p => do
    let fin ← (Rdr.nested i n p).isFinished
    if fin then pure none else i.peekByte

end Rdr

/-- `read_nested(len, f)`: `NestedReader::new`, `f`, `NestedReader::finish` -/
def readNested {α : Type} (r : Rdr) (len : Nat) (f : Rdr → Except E (α × Rdr)) : Except E (α × Rdr) := do
  let n ← nestedNew r len
  let (a, n') ← f n
  n'.finish
  match n' with
  | .nested inner _ _ => pure (a, inner)
  | .slice _ _ => .error .panic      -- not reachable: reads keep the reader's shape

/-- `T::from_der(bytes)` for a `FixedTag = SEQUENCE` type with `decode_value = dv` -/
def fromDerSeq {α : Type} (bytes : List Nat) (dv : Rdr → Nat → Except E (α × Rdr)) : Except E α := do
  let r ← Rdr.new bytes
  let ((tag, len), r1) ← headerDecode r
  if tag ≠ TAG_SEQUENCE then .error .tagUnexpected else do
    let (a, r2) ← dv r1 len
    r2.finish
    pure a

/-- `ObjectIdentifier::decode` + comparison with a constant (see the header comment) -/
def expectOid (c : List Nat) (r : Rdr) : Except E Rdr := do
  let ((tag, len), r1) ← headerDecode r
  if tag ≠ TAG_OID then .error .tagUnexpected
  else if len > OID_MAX_SIZE then .error .length
  else do
    let (v, r2) ← r1.readSlice len
    if v = c then pure r2 else .error .failed

/-- `u8::decode` + comparison with a constant `0 < val < 128` -/
def expectU8 (val : Nat) (r : Rdr) : Except E Rdr := do
  let ((tag, len), r1) ← headerDecode r
  if tag ≠ TAG_INTEGER then .error .tagUnexpected
  else if len > 2 then .error .noncanonical
  else do
    let (v, r2) ← r1.readSlice len
    if v = [val] then pure r2 else .error .failed

/-- a value together with the offset (in the reader's input) where it starts -/
def readSliceAt (r : Rdr) (len : Nat) : Except E ((List Nat × Nat) × Rdr) := do
  let (v, r') ← r.readSlice len
  pure ((v, r.offset), r')

/-- `OctetStringRef::decode` -/
def octetStringDecode (r : Rdr) : Except E ((List Nat × Nat) × Rdr) := do
  let ((tag, len), r1) ← headerDecode r
  if tag ≠ TAG_OCTET_STRING then .error .tagUnexpected else readSliceAt r1 len

/-- `AlgorithmIdentifier::decode` (`#[derive(Sequence)]`: OID, `Option<AnyRef>`) + comparison of the OID -/
def algIdDecode (c : List Nat) (r : Rdr) : Except E Rdr := do
  let ((tag, len), r1) ← headerDecode r
  if tag ≠ TAG_SEQUENCE then .error .tagUnexpected else do
    let (_, r2) ← readNested r1 len fun n => do
      let n1 ← expectOid c n
      match ← n1.peekByte with
      | none => pure ((), n1)
      | some b => do
        let _ ← tagOfByte b
        let (_, n2) ← anyDecode n1
        pure ((), n2)
    pure r2

/-- `ContentInfo::decode_value`: the bytes of the SignedData element and where they start -/
def contentInfoValue (r : Rdr) (len : Nat) : Except E ((List Nat × Nat) × Rdr) :=
  readNested r len fun n => do
    let n1 ← expectOid OID_PKCS7_SIGNED_DATA n
    let ((tag, clen), n2) ← headerDecode n1
    -- `tag.number() != TagNumber::new(0) || !tag.is_constructed()` (class is not looked at)
    if tag % 32 ≠ 0 ∨ tag / 32 % 2 = 0 then .error .failed else readSliceAt n2 clen

/-- `EncapsulatedContentInfo::decode` (`#[derive(Sequence)]`): eContentType, `[0] EXPLICIT OCTET STRING` -/
def encapDecode (r : Rdr) : Except E ((List Nat × Nat) × Rdr) := do
  let ((tag, len), r1) ← headerDecode r
  if tag ≠ TAG_SEQUENCE then .error .tagUnexpected else
    readNested r1 len fun n => do
      let n1 ← expectOid OID_PKCS7_DATA n
      -- `ContextSpecific::<OctetStringRef>::decode`: context-specific, constructed, number 0 = octet 0xA0
      let ((ctag, clen), n2) ← headerDecode n1
      if ctag ≠ 0xA0 then .error .tagUnexpected else
        readNested n2 clen octetStringDecode

/-- `SignedData::decode_value`: (eContent, signerInfos value), each with its offset -/
def signedDataValue (r : Rdr) (len : Nat) : Except E (((List Nat × Nat) × (List Nat × Nat)) × Rdr) :=
  readNested r len fun n => do
    let n1 ← expectU8 3 n
    let ((dtag, _), n2) ← anyDecode n1
    if dtag ≠ TAG_SET then .error .failed else do
      let (econtent, n3) ← encapDecode n2
      let ((stag, slen), n4) ← headerDecode n3
      let (sv, n5) ← readSliceAt n4 slen
      let _ ← lenNew sv.1.length
      if stag ≠ TAG_SET then .error .failed else pure ((econtent, sv), n5)

/-- `SignerInfo::decode_value`: (subjectKeyIdentifier, signature octets), each with its offset -/
def signerInfoValue (r : Rdr) (len : Nat) : Except E (((List Nat × Nat) × (List Nat × Nat)) × Rdr) :=
  readNested r len fun n => do
    let n1 ← expectU8 3 n
    let ((ktag, klen), n2) ← headerDecode n1
    -- `tag.number() != TagNumber::new(0) || tag.is_constructed()`
    if ktag % 32 ≠ 0 ∨ ktag / 32 % 2 = 1 then .error .failed else do
      let (ski, n3) ← readSliceAt n2 klen
      if ski.1.length ≠ KEY_IDENTIFIER_LEN then .error .failed else do
        let n4 ← algIdDecode OID_SHA256 n3
        let n5 ← algIdDecode OID_ECDSA_WITH_SHA256 n4
        let (sig, n6) ← octetStringDecode n5
        pure ((ski, sig), n6)

/-- `.map_err(|_| Error::from(ErrorCode::CdInvalidFormat))` -/
def mapCdInvalid {α : Type} (x : Except E α) : Except E α :=
  match x with
  | .ok y => .ok y
  | .error e => if e = .panic then .error .panic else if e = .endless then .error .endless else .error .cdInvalidFormat

structure Cms where
  kid : List Nat
  kidOff : Nat
  cd : List Nat
  cdOff : Nat
  sig : List Nat
deriving Repr, DecidableEq

/-- `CmsSignedData::parse(cms_message)` -/
def cmsParse (msg : List Nat) : Except E Cms := do
  let (sd, sdOff) ← mapCdInvalid (fromDerSeq msg contentInfoValue)
  let ((cd, cdOff), (si, siOff)) ← mapCdInvalid (fromDerSeq sd signedDataValue)
  let ((kid, kidOff), (sig, _)) ← mapCdInvalid (fromDerSeq si signerInfoValue)
  let raw ← ecdsaDerToRaw sig
  pure { kid := kid, kidOff := sdOff + siOff + kidOff, cd := cd, cdOff := sdOff + cdOff, sig := raw }

/-! ## model-side encoder of the Matter CD profile of CMS (RFC 5652) -/

def encOid (c : List Nat) : List Nat := encTlv TAG_OID c
def encAlgId (c : List Nat) : List Nat := encTlv TAG_SEQUENCE (encOid c)

def encSignerInfo (kid r s : List Nat) : List Nat :=
  encTlv TAG_SEQUENCE ([0x02, 0x01, 0x03] ++ encTlv 0x80 kid ++ encAlgId OID_SHA256 ++ encAlgId OID_ECDSA_WITH_SHA256 ++
    encTlv TAG_OCTET_STRING (encSig r s))

def encSignedData (content kid r s : List Nat) : List Nat :=
  encTlv TAG_SEQUENCE ([0x02, 0x01, 0x03] ++ encTlv TAG_SET (encAlgId OID_SHA256) ++
    encTlv TAG_SEQUENCE (encOid OID_PKCS7_DATA ++ encTlv 0xA0 (encTlv TAG_OCTET_STRING content)) ++
    encTlv TAG_SET (encSignerInfo kid r s))

def encCms (content kid r s : List Nat) : List Nat :=
  encTlv TAG_SEQUENCE (encOid OID_PKCS7_SIGNED_DATA ++ encTlv 0xA0 (encSignedData content kid r s))

end Codec.DerRd
