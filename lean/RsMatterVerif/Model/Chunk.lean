import RsMatterVerif.Generated.Consts
/-!
# Model of the chunking of a `ReportData` answer (`rs-matter/src/im.rs`, `ReportDataResponder`)

`respond` → `start_reply` (reset, `shrink(RESERVE + STRUCT_RESERVE)`, struct start [+ subscription id]) →
`report_attributes` (array start; per expanded item the write / `NoSpace` / rewind / `send` chunk /
retry loop; `send_array_items` for a whole-list read that does not fit; an item that does not even
fit an empty message is answered with an error status; array end from the structural reserve) →
`report_events` (array start from the structural reserve; status reports for concrete paths that do
not validate; the fetch loop over the event buffer with the reader's cursor: write / `NoSpace` /
rewind / `send` chunk / rescan from the start of the buffer skipping everything up to the cursor;
array end from the structural reserve) → `send(Done)` with `end_reply` (`expand(RESERVE)`, trailer)
unless the report is empty and empty reports are not to be sent.

Items are abstracted to their encoded sizes: an attribute report is written atomically by
`HandlerInvoker::process_read` / `send_array_items`, an event report by `EventReader::process_read`
(on any error the buffer is rewound to the position before the report), so a report is either
completely in a chunk or not at all.  A report is thereby identified with its kind, the id of its
attribute (a list element: + its list index; an event: its number) and its encoded size — not with
its bytes; there is no write position inside a report, no rewind position, no list-index variable
here.  For the attribute section that level — bytes of the `WriteBuf`, writes that fail half way,
the rewind positions, the list index carried across chunks, the loops as loops — is
`Model/ChunkCursor.lean`, proved to refine this model (`Lemmas/ChunkCursor.lean`: `cputAttrs_sim`).
At the end of this file: the token view of a message (`msgToks`, `wellFormed`).
Import-free (apart from the generated constants).
-/
namespace Chunk

/-- sizes of the fixed parts of a message -/
structure Cfg where
  /-- length of the transmit buffer (`MAX_EXCHANGE_TX_BUF_SIZE`, or what the buffer was cut to) -/
  cap : Nat
  /-- `LONG_READS_TLV_RESERVE_SIZE` -/
  reserve : Nat
  /-- `LONG_READS_STRUCT_RESERVE_SIZE`: extra bytes that only the structural writes (array end /
  start) may use, each after an `expand` by its own size -/
  structReserve : Nat
  /-- what `start_reply` writes: struct start (+ subscription id) -/
  hdr : Nat
  /-- `start_array(AttributeReports)` -/
  arrOpen : Nat
  /-- `end_container` -/
  close : Nat
  /-- `end_reply` of a non-final chunk: array end + MoreChunkedMsgs + revision + struct end -/
  trailerMore : Nat
  /-- `end_reply(Done)`: [SuppressResponse] + revision + struct end -/
  trailerDone : Nat
  /-- `start_array(EventReports)` -/
  evOpen : Nat := 2
deriving Repr, DecidableEq, Inhabited

/-- the space the reports may use (`buf_size` after `start_reply`) -/
def Cfg.limit (c : Cfg) : Nat := c.cap - c.reserve - c.structReserve

/-- an expanded item of the request, by encoded sizes; `st` = size of the error status report that
stands for the item when its report fits no message (`stE`: for a list element — the path carries
a list index) -/
inductive Item
  /-- a non-list attribute (or a status): one report of `size` bytes -/
  | scalar (id : Nat) (size : Nat) (st : Nat)
  /-- a list attribute read as a whole: `whole` = size of the single report carrying the complete
  list, `empty` = size of the report carrying the empty list (start of the chunked form),
  `elems` = sizes of the per-element (append) reports, `probe` = the bytes the read of the index
  one past the end writes (report header) before the handler answers "no such element" -/
  | list (id : Nat) (whole : Nat) (empty : Nat) (elems : List Nat) (probe : Nat) (st : Nat) (stE : Nat)
deriving Repr, DecidableEq, Inhabited

/-- one attribute report of the answer -/
inductive Piece
  | scalar (id : Nat) (size : Nat)
  | wholeList (id : Nat) (size : Nat) (elems : List Nat)
  | listStart (id : Nat) (size : Nat)
  | listElem (id : Nat) (idx : Nat) (size : Nat)
  /-- error status for attribute `id` (its report fits no message) -/
  | status (id : Nat) (size : Nat)
deriving Repr, DecidableEq, Inhabited

def Piece.size : Piece → Nat
  | .scalar _ s => s
  | .wholeList _ s _ => s
  | .listStart _ s => s
  | .listElem _ _ s => s
  | .status _ s => s

/-- one event report of the answer -/
inductive EvPiece
  /-- the data of event number `num` -/
  | data (num : Nat) (size : Nat)
  /-- status for the `k`-th concrete event path of the request that does not validate -/
  | status (k : Nat) (size : Nat)
deriving Repr, DecidableEq, Inhabited

def EvPiece.size : EvPiece → Nat
  | .data _ s => s
  | .status _ s => s

/-- one message of the answer -/
structure ChunkOut where
  /-- attribute reports -/
  pieces : List Piece
  /-- total encoded size of the message -/
  size : Nat
  /-- MoreChunkedMessages -/
  more : Bool
  /-- event reports -/
  events : List EvPiece := []
deriving Repr, DecidableEq, Inhabited

inductive Err
  /-- a write outside the retry loops found no space: the interaction fails with `NoSpace` -/
  | noSpace
  /-- the retry loop never ends (it keeps sending empty chunks) -/
  | loops
  /-- an event report does not fit an empty message: the interaction fails with `ResourceExhausted` -/
  | tooBig
  /-- cursor level only (`Model/ChunkCursor.lean`): `list_index + 1` on the `u16` list index of
  `send_array_items` overflows — a panic in a build with overflow checks (dev profile, the harness); the
  release profile of the workspace has `overflow-checks = false`: there the index wraps to 0 and the
  list is streamed again, without end -/
  | overflow
deriving Repr, DecidableEq, Inhabited

/-! ## attribute section -/

/-- the responder between two attribute reports: finished chunks (newest first), the reports of the
open chunk (newest first) and the write position in it -/
structure St where
  done : List ChunkOut
  cur : List Piece
  used : Nat
deriving Repr, DecidableEq, Inhabited

def St.init (c : Cfg) : St := { done := [], cur := [], used := c.hdr + c.arrOpen }

/-- `send(ChunkingAttributes)`: close the open chunk with the trailer, start the next one -/
def St.flush (c : Cfg) (s : St) : St :=
  { done := { pieces := s.cur.reverse, size := s.used + c.trailerMore, more := true } :: s.done,
    cur := [], used := c.hdr + c.arrOpen }

/-- the open chunk holds no report (`wb.get_tail() == reports_start`) -/
def St.fresh (c : Cfg) (s : St) : Bool := s.used == c.hdr + c.arrOpen

def St.write (s : St) (p : Piece) : St := { s with cur := p :: s.cur, used := s.used + p.size }

/-- what the `NoSpace` arm does before the retry: a chunk that holds reports is sent, an empty one
is not (sending it would not make room) -/
def St.next (c : Cfg) (s : St) : St := if s.fresh c then s else s.flush c

/-- find room for `n` bytes: in the open chunk, or — `NoSpace`, rewind — in the next one;
`none`: not even an empty message has room -/
def room (c : Cfg) (s : St) (n : Nat) : Option St :=
  if s.used + n ≤ c.limit then some s
  else if (s.next c).used + n ≤ c.limit then some (s.next c) else none

/-- the report fits no message: an error status stands for it (written into the empty message;
if even that finds no space the interaction fails) -/
def fallback (c : Cfg) (s : St) (st : Piece) : Except Err St :=
  if (s.next c).used + st.size ≤ c.limit then .ok ((s.next c).write st) else .error .noSpace

/-- write one report: `Ok` / `NoSpace` → rewind → send the chunk → retry; the flag tells that the
error status `st` was written instead -/
def put (c : Cfg) (s : St) (p : Piece) (st : Piece) : Except Err (St × Bool) :=
  match room c s p.size with
  | some s' => .ok (s'.write p, false)
  | none =>
    match fallback c s st with
    | .ok s' => .ok (s', true)
    | .error e => .error e

/-- the per-element reports of `send_array_items`, from index `k` on; the flag tells that the list
was cut short by an error status -/
def putElems (c : Cfg) (id st : Nat) : Nat → List Nat → St → Except Err (St × Bool)
  | _, [], s => .ok (s, false)
  | k, e :: es, s =>
    match put c s (.listElem id k e) (.status id st) with
    | .ok (s', false) => putElems c id st (k + 1) es s'
    | .ok (s', true) => .ok (s', true)
    | .error err => .error err

/-- end of `send_array_items`: the read of the index past the end writes the report header before
the handler answers `ConstraintError`; if that header does not fit, the `NoSpace` arm sends the
chunk first and the retry then ends the list -/
def endProbe (c : Cfg) (s : St) (id probe st : Nat) : Except Err St :=
  match room c s probe with
  | some s' => .ok s'
  | none => fallback c s (.status id st)

def putItem (c : Cfg) (s : St) : Item → Except Err St
  | .scalar id sz st =>
    match put c s (.scalar id sz) (.status id st) with
    | .ok (s', _) => .ok s'
    | .error e => .error e
  | .list id whole empty elems probe st stE =>
    -- first attempt: the whole list as one report; on `NoSpace` no chunk is sent, the list is
    -- streamed instead: empty list, then one report per element
    if s.used + whole ≤ c.limit then .ok (s.write (.wholeList id whole elems))
    else
      match put c s (.listStart id empty) (.status id st) with
      | .ok (s', true) => .ok s'
      | .ok (s', false) =>
        match putElems c id stE 0 elems s' with
        | .ok (s'', true) => .ok s''
        | .ok (s'', false) => endProbe c s'' id probe stE
        | .error err => .error err
      | .error err => .error err

def putItems (c : Cfg) : List Item → St → Except Err St
  | [], s => .ok s
  | it :: its, s =>
    match putItem c s it with
    | .ok s' => putItems c its s'
    | .error err => .error err

/-- an attribute path of the request as the expander and the handler see it -/
structure AttrReq where
  item : Item
  /-- verdict of the responder's `filter` closure (a subscription report selects only changed attributes) -/
  wanted : Bool := true
  /-- the data version of the attribute's cluster -/
  dataver : Nat := 0
  /-- the data version filter of the request for this cluster (none in a subscription report) -/
  filter : Option Nat := none
deriving Repr, DecidableEq, Inhabited

/-- `ReadReply::with_dataver`: nothing is written when the cluster's data version is the filter's -/
def AttrReq.unchanged (a : AttrReq) : Bool := a.filter == some a.dataver

/-- the items the expander yields -/
def yielded (as : List AttrReq) : List AttrReq := as.filter (·.wanted)

/-- `process_read` of a yielded item -/
def putAttr (c : Cfg) (s : St) (a : AttrReq) : Except Err St :=
  if a.unchanged then .ok s else putItem c s a.item

def putAttrs (c : Cfg) : List AttrReq → St → Except Err St
  | [], s => .ok s
  | a :: as, s =>
    match putAttr c s a with
    | .ok s' => putAttrs c as s'
    | .error err => .error err

/-! ## event section -/

/-- an event in the buffer: its number, the size of its report, whether it matches the request's
paths, the accessor's fabric and access rights -/
structure Ev where
  num : Nat
  size : Nat
  sel : Bool := true
deriving Repr, DecidableEq, Inhabited

structure EvReq where
  /-- the event buffer in iteration order (critical ring, info ring, debug ring) -/
  buf : List Ev
  /-- `event_min` of the request's event filters -/
  mins : List Nat := []
  /-- the reader's cursor at the start (`max_seen_event_number`: 0 for a read) -/
  maxSeen : Nat := 0
  /-- `next_max_seen_event_number` (`u64::MAX` for a read) -/
  nextMax : Nat
  /-- sizes of the status reports for the concrete paths of the request that do not validate -/
  statuses : List Nat := []
deriving Repr, DecidableEq, Inhabited

/-- `matches_paths && matches_filters && matches_access` (and the fabric filter) -/
def EvReq.passes (r : EvReq) (e : Ev) : Bool := e.sel && r.mins.all fun m => decide (m ≤ e.num)

/-- `event_number > max_seen && event_number <= next_max_seen` -/
def EvReq.inRange (r : EvReq) (cursor : Nat) (e : Ev) : Bool :=
  decide (cursor < e.num) && decide (e.num ≤ r.nextMax)

/-- the responder in the event section -/
structure ESt where
  done : List ChunkOut
  /-- attribute reports of the open chunk (only the chunk in which the attribute array ends has any) -/
  attrs : List Piece
  /-- event reports of the open chunk, newest first -/
  evs : List EvPiece
  /-- write position after `start_array(EventReports)` in the open chunk -/
  base : Nat
  used : Nat
  /-- `buf_size` of the `WriteBuf` -/
  lim : Nat
  /-- nothing precedes the event array in the open chunk -/
  fresh : Bool
  /-- `max_seen_event_number` of the reader -/
  cursor : Nat
  /-- nothing was reported so far -/
  empty : Bool
deriving Repr, DecidableEq, Inhabited

/-- `send(ChunkingEvents)` -/
def ESt.flushEv (c : Cfg) (s : ESt) : ESt :=
  { s with
    done := { pieces := s.attrs.reverse, events := s.evs.reverse, size := s.used + c.trailerMore, more := true } :: s.done,
    attrs := [], evs := [], base := c.hdr + c.evOpen, used := c.hdr + c.evOpen, lim := c.limit, fresh := true }

def ESt.writeEv (s : ESt) (p : EvPiece) : ESt :=
  { s with evs := p :: s.evs, used := s.used + p.size, empty := false }

/-- the status report of a concrete path that does not validate: one retry after sending the chunk -/
def putEvStatus (c : Cfg) (s : ESt) (k sz : Nat) : Except Err ESt :=
  if s.used + sz ≤ s.lim then .ok (s.writeEv (.status k sz))
  else if (s.flushEv c).used + sz ≤ (s.flushEv c).lim then .ok ((s.flushEv c).writeEv (.status k sz))
  else .error .noSpace

def putEvStatuses (c : Cfg) : Nat → List Nat → ESt → Except Err ESt
  | _, [], s => .ok s
  | k, sz :: rest, s =>
    match putEvStatus c s k sz with
    | .ok s' => putEvStatuses c (k + 1) rest s'
    | .error e => .error e

/-- one `events.fetch`: iterate the buffer from its start; `false` = stopped at `NoSpace` -/
def pass (r : EvReq) : List Ev → ESt → ESt × Bool
  | [], s => (s, true)
  | e :: es, s =>
    if r.inRange s.cursor e then
      if r.passes e then
        if s.used + e.size ≤ s.lim then pass r es { s.writeEv (.data e.num e.size) with cursor := e.num }
        else (s, false)              -- `NoSpace`: rewound, the cursor stays
      else pass r es { s with cursor := e.num }   -- considered, not reported
    else pass r es s                 -- outside the range of interest

/-- the fetch loop: after `NoSpace` the chunk is sent and the buffer iterated again from its start
(an empty message that still has no room ends the interaction) -/
def evLoop (c : Cfg) (r : EvReq) : Nat → ESt → Except Err ESt
  | 0, _ => .error .loops
  | fuel + 1, s =>
    match pass r r.buf s with
    | (s', true) => .ok s'
    | (s', false) =>
      if s'.fresh && s'.used == s'.base then .error .tooBig
      else evLoop c r fuel (s'.flushEv c)

/-- `WriteBuf::expand` -/
def expand (c : Cfg) (lim n : Nat) : Except Err Nat :=
  if n ≤ c.cap - lim then .ok (lim + n) else .error .noSpace

/-- `start_reply` + `report_attributes` -/
def attrSection (c : Cfg) : Option (List AttrReq) → Except Err ESt
  | none =>
    .ok { done := [], attrs := [], evs := [], base := c.hdr, used := c.hdr, lim := c.limit,
          fresh := true, cursor := 0, empty := true }
  | some as =>
    match putAttrs c (yielded as) (St.init c) with
    | .error e => .error e
    | .ok s =>
      -- structural write: `expand(1)`, `end_container`
      match expand c c.limit c.close with
      | .error e => .error e
      | .ok lim =>
        if s.used + c.close ≤ lim then
          .ok { done := s.done, attrs := s.cur, evs := [], base := s.used + c.close, used := s.used + c.close,
                lim := lim, fresh := false, cursor := 0, empty := (yielded as).isEmpty }
        else .error .noSpace

/-- `report_events` -/
def eventSection (c : Cfg) (s : ESt) : Option EvReq → Except Err ESt
  | none => .ok s
  | some r =>
    match expand c s.lim c.evOpen with
    | .error e => .error e
    | .ok lim =>
      if s.used + c.evOpen ≤ lim then
        let s1 : ESt := { s with lim := lim, used := s.used + c.evOpen, base := s.used + c.evOpen, cursor := r.maxSeen }
        match putEvStatuses c 0 r.statuses s1 with
        | .error e => .error e
        | .ok s2 =>
          match evLoop c r (r.buf.length + 1) s2 with
          | .error e => .error e
          | .ok s3 =>
            match expand c s3.lim c.close with
            | .error e => .error e
            | .ok lim' =>
              if s3.used + c.close ≤ lim' then .ok { s3 with lim := lim', used := s3.used + c.close }
              else .error .noSpace
      else .error .noSpace

/-- `send(Done)`: `end_reply` = `expand(RESERVE)` + trailer -/
def sendDone (c : Cfg) (s : ESt) : Except Err (List ChunkOut) :=
  match expand c s.lim c.reserve with
  | .error e => .error e
  | .ok lim =>
    if s.used + c.trailerDone ≤ lim then
      .ok (({ pieces := s.attrs.reverse, events := s.evs.reverse, size := s.used + c.trailerDone, more := false } :: s.done).reverse)
    else .error .noSpace

structure Req where
  /-- the attribute paths (`attr_requests`), expanded -/
  attrs : Option (List AttrReq)
  /-- `event_requests` -/
  events : Option EvReq := none
  /-- `send_if_empty` (reads and primings: true) -/
  sendIfEmpty : Bool := true
deriving Repr, DecidableEq, Inhabited

/-- **the responder**: the messages it sends -/
def respond (c : Cfg) (r : Req) : Except Err (List ChunkOut) :=
  match attrSection c r.attrs with
  | .error e => .error e
  | .ok s1 =>
    match eventSection c s1 r.events with
    | .error e => .error e
    | .ok s2 =>
      if r.sendIfEmpty || !s2.empty then sendDone c s2
      else .ok s2.done.reverse     -- "No data to report, skipping sending ReportData response"

/-- a read of attributes only, without filters -/
def chunks (c : Cfg) (items : List Item) : Except Err (List ChunkOut) :=
  respond c { attrs := some (items.map fun it => { item := it }) }

/-! ## Specification side -/

/-- how an item came out -/
inductive Out
  /-- one report -/
  | whole
  /-- a list as "empty list + one append per element" -/
  | split
  /-- an error status instead of the (first) report -/
  | failed
  /-- a streamed list cut after `k` elements by an error status -/
  | cut (k : Nat)
deriving Repr, DecidableEq, Inhabited

def elemPieces (id : Nat) (k : Nat) (es : List Nat) : List Piece :=
  (es.zipIdx k).map fun (e, i) => .listElem id i e

/-- the reports of an item -/
def Item.pieces : Item → Out → List Piece
  | .scalar id sz _, .whole => [.scalar id sz]
  | .scalar id sz _, .split => [.scalar id sz]
  | .scalar id _ st, _ => [.status id st]
  | .list id whole _ elems _ _ _, .whole => [.wholeList id whole elems]
  | .list id _ empty elems _ _ _, .split => .listStart id empty :: elemPieces id 0 elems
  | .list id _ _ _ _ st _, .failed => [.status id st]
  | .list id _ empty elems _ _ stE, .cut k => .listStart id empty :: (elemPieces id 0 (elems.take k) ++ [.status id stE])

/-- the value is delivered completely -/
def Out.complete : Out → Bool
  | .whole => true
  | .split => true
  | _ => false

/-- every report that the algorithm may have to place in an empty chunk fits one -/
def Item.fits (c : Cfg) : Item → Bool
  | .scalar _ sz _ => decide (c.hdr + c.arrOpen + sz ≤ c.limit)
  | .list _ _ empty elems probe _ _ =>
    decide (c.hdr + c.arrOpen + empty ≤ c.limit) && decide (c.hdr + c.arrOpen + probe ≤ c.limit) &&
      elems.all fun e => decide (c.hdr + c.arrOpen + e ≤ c.limit)

def Fits (c : Cfg) (items : List Item) : Prop := ∀ it ∈ items, it.fits c = true

/-- the attributes a correct answer carries: yielded by the expander and not held back by a data
version filter -/
def selected (as : List AttrReq) : List Item :=
  ((yielded as).filter fun a => !a.unchanged).map (·.item)

/-- the events a correct answer carries -/
def EvReq.selected (r : EvReq) : List Ev :=
  r.buf.filter fun e => r.inRange r.maxSeen e && r.passes e

/-- the event reports a correct answer carries -/
def EvReq.reports (r : EvReq) : List EvPiece :=
  (r.statuses.zipIdx.map fun (sz, k) => EvPiece.status k sz) ++ r.selected.map fun e => .data e.num e.size

/-- the configuration is sane: the trailers fit the reserve, the structural writes fit the
structural reserve, an empty chunk has room -/
structure Cfg.WF (c : Cfg) : Prop where
  room : c.reserve + c.structReserve ≤ c.cap
  trailerMore : c.trailerMore ≤ c.reserve
  trailerDone : c.trailerDone ≤ c.reserve
  struct : c.close + c.evOpen + c.close ≤ c.structReserve
  start : c.hdr + c.arrOpen ≤ c.limit
  startEv : c.hdr + c.evOpen ≤ c.limit

/-! ## the TLV container structure of a message (token view)

What a message opens and closes, derived from its reports and the flags that `Accounts`
(`Lemmas/ChunkAcc.lean`) uses for its length: `a` — the message contains the attribute array (or its
continuation), `e` — it contains the event array.  `start_reply`: the ReportData struct
[+ subscription id]; `start_array(AttributeReports)`; one struct per attribute report; the array end
— by a structural `end_container` when the array ends inside the message (`a && (e || !more)`), else
by the trailer; the same for EventReports; `end_reply`: for a non-final message the end of the array
that is still open, MoreChunkedMessages, the revision, the struct end; for the final one
[SuppressResponse], the revision, the struct end. -/

inductive Tok
  /-- start of a struct / array -/
  | op
  /-- `end_container` -/
  | cl
  /-- a scalar element -/
  | leaf
deriving Repr, DecidableEq, Inhabited

/-- a report: a struct with content -/
def reportToks : List Tok := [.op, .leaf, .cl]

def msgToks (subId suppress a e : Bool) (ch : ChunkOut) : List Tok :=
  [.op] ++ (if subId then [.leaf] else []) ++
  (if a then .op :: ch.pieces.flatMap (fun _ => reportToks) else []) ++
  (if a && (e || !ch.more) then [.cl] else []) ++
  (if e then .op :: ch.events.flatMap (fun _ => reportToks) else []) ++
  (if e && !ch.more then [.cl] else []) ++
  (if ch.more then [.cl, .leaf, .leaf, .cl] else (if suppress then [.leaf] else []) ++ [.leaf, .cl])

/-- walk over the tokens inside the top-level container from nesting depth `d ≥ 1`; the result is the
depth at the end.  `none`: a container is closed that was not opened, or the top-level container is
closed before the last token (something follows it) -/
def walk : List Tok → Nat → Option Nat
  | [], d => some d
  | .op :: ts, d => walk ts (d + 1)
  | .leaf :: ts, d => walk ts d
  | .cl :: _, 0 => none
  | .cl :: ts, 1 => if ts.isEmpty then some 0 else none
  | .cl :: ts, d + 2 => walk ts (d + 1)

/-- a well-formed message: ONE top-level container, every container closed by its own `end_container`,
the top-level one by the very last token -/
def wellFormed : List Tok → Bool
  | .op :: ts => walk ts 1 == some 0
  | _ => false

end Chunk
