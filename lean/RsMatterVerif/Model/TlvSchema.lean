import RsMatterVerif.Model.Tlv
/-!
# Schema-directed model of the derived (`#[derive(FromTLV, ToTLV)]`) structure codecs

What `rs-matter-macros/src/tlv.rs` generates for a struct with named fields:
`to_tlv` = `start_<datatype>(tag)`, every field in declaration order with the context tag
`start + index` (or its `#[tagval]`), `end_container`; `Option::None` writes nothing, `Nullable`
null writes a TLV null, integers use the shortest width (`TLVWrite::u16/u32/u64`).
`from_tlv` = `element.<datatype>()?`, then per field `T::from_tlv(&seq.find_ctx(tag)?)`.
A `Schema` is that layout as data; which schema a given `derive` expands to is **not** proved —
it is checked by correspondence on the fixed list of real structures in `named`.
-/
namespace TlvSchema
open Tlv

inductive FTy | u8 | u16 | u32 | u64 | bool
deriving DecidableEq, Repr, Inhabited

def FTy.max : FTy → Nat
  | .u8 => 0xff | .u16 => 0xffff | .u32 => 0xffffffff | .u64 => 0xffffffffffffffff | .bool => 1

structure Field where
  tag : Nat
  ty : FTy
  opt : Bool
  nullable : Bool
deriving DecidableEq, Repr, Inhabited

/-- a field value: `Option::None`, `Nullable` null, an integer, a boolean -/
inductive Slot | absent | null | num (n : Nat) | bool (b : Bool)
deriving DecidableEq, Repr, Inhabited

/-- a field, or one nested derived structure (its fields flattened into the slot list) -/
inductive Item
  | field (f : Field)
  | group (tag : Nat) (kind : Kind) (fs : List Field)
deriving Repr, Inhabited

structure Schema where
  kind : Kind
  items : List Item
deriving Repr, Inhabited

/-- does the slot fit the field (the generator's / caller's precondition) -/
def Field.admits (f : Field) : Slot → Bool
  | .absent => f.opt
  | .null => f.nullable
  | .num n => f.ty != .bool && n ≤ f.ty.max && (!f.nullable || n != f.ty.max)
  | .bool _ => f.ty == .bool

/-- derived `to_tlv` of one field: zero or one element -/
def encodeField (f : Field) : Slot → Option (List Value)
  | .absent => if f.opt then some [] else none
  | .null => if f.nullable then some [.leaf (.ctx f.tag) .null] else none
  | .num n =>
    if f.ty != .bool && n ≤ f.ty.max && (!f.nullable || n != f.ty.max) then
      some [.leaf (.ctx f.tag) (if f.ty == .u8 then .uint .w1 n else Prim.mkUint n)]
    else none
  | .bool b => if f.ty == .bool then some [.leaf (.ctx f.tag) (.bool b)] else none

def encodeFields : List Field → List Slot → Option (List Value × List Slot)
  | [], ss => some ([], ss)
  | _ :: _, [] => none
  | f :: fs, s :: ss => do
    let v ← encodeField f s
    let (vs, rest) ← encodeFields fs ss
    pure (v ++ vs, rest)

def encodeItems : List Item → List Slot → Option (List Value × List Slot)
  | [], ss => some ([], ss)
  | .field f :: is, ss => do
    let (v, r1) ← encodeFields [f] ss
    let (vs, r2) ← encodeItems is r1
    pure (v ++ vs, r2)
  | .group tag kind fs :: is, ss => do
    let (inner, r1) ← encodeFields fs ss
    let (vs, r2) ← encodeItems is r1
    pure (.cont (.ctx tag) kind (Values.ofList inner) :: vs, r2)

/-- the value tree the derived `to_tlv(&TLVTag::Anonymous, ..)` writes -/
def toValue (s : Schema) (slots : List Slot) : Option Value :=
  match encodeItems s.items slots with
  | some (vs, []) => some (.cont .anon s.kind (Values.ofList vs))
  | _ => none

def encodeStruct (s : Schema) (slots : List Slot) : Option Bytes := (toValue s slots).map encode

/-- `element.struct()/array()/list()` as the derive calls it -/
def enter (k : Kind) (bs : Bytes) : Res Bytes :=
  match k with
  | .struct => structOf bs
  | .array => arrayOf bs
  | .list => listOf bs

/-- `uN::from_tlv` -/
def numOf (ty : FTy) (e : Bytes) : Res Slot :=
  match ty with
  | .u8 => do let n ← u8 e; pure (.num n)
  | .u16 => do let n ← u16 e; pure (.num n)
  | .u32 => do let n ← u32 e; pure (.num n)
  | .u64 => do let n ← u64 e; pure (.num n)
  | .bool => do let b ← boolOf e; pure (.bool b)

/-- `T::from_tlv(&seq.find_ctx(tag)?)` for `T` = `uN`/`bool`, `Option<T>`, `Nullable<T>`, `Option<Nullable<T>>` -/
def decodeField (seq : Bytes) (f : Field) : Res Slot := do
  let e ← findCtx seq f.tag
  if f.opt && e.isEmpty then pure .absent
  else if f.nullable then do
    let c ← control e
    if c.vt = .null then pure .null else do
      let s ← numOf f.ty e
      -- `nullable_from_tlv`: the top value of the type is reserved (ConstraintError)
      match s with
      | .num n => if n = f.ty.max then .err .invalid else pure s
      | _ => pure s
  else numOf f.ty e

def decodeFields (seq : Bytes) : List Field → Res (List Slot)
  | [] => pure []
  | f :: fs => do
    let s ← decodeField seq f
    let r ← decodeFields seq fs
    pure (s :: r)

def decodeItems (seq : Bytes) : List Item → Res (List Slot)
  | [] => pure []
  | .field f :: is => do
    let s ← decodeField seq f
    let r ← decodeItems seq is
    pure (s :: r)
  | .group tag kind fs :: is => do
    let e ← findCtx seq tag
    let inner ← enter kind e
    let s ← decodeFields inner fs
    let r ← decodeItems seq is
    pure (s ++ r)

/-- the derived `from_tlv` -/
def decodeStruct (s : Schema) (bs : Bytes) : Res (List Slot) := do
  let seq ← enter s.kind bs
  decodeItems seq s.items

/-! ### the real structures of stream `s` (hand-read from the Rust declarations) -/
def o (tag : Nat) (ty : FTy) : Item := .field ⟨tag, ty, true, false⟩
def r (tag : Nat) (ty : FTy) : Item := .field ⟨tag, ty, false, false⟩

def named : String → Option Schema
  | "AttrPath" => some ⟨.list, [o 0 .bool, o 1 .u64, o 2 .u16, o 3 .u32, o 4 .u32, .field ⟨5, .u16, true, true⟩]⟩
  | "CmdPath" => some ⟨.list, [o 0 .u16, o 1 .u32, o 2 .u32]⟩
  | "EventPath" => some ⟨.list, [o 0 .u64, o 1 .u16, o 2 .u32, o 3 .u32, o 4 .bool]⟩
  | "ClusterPath" => some ⟨.list, [o 0 .u64, r 1 .u16, r 2 .u32]⟩
  | "EventFilter" => some ⟨.struct, [o 0 .u64, o 1 .u64]⟩
  | "TimedReq" => some ⟨.struct, [r 0 .u16, o Consts.imRevisionTag .u8]⟩
  | "Target" => some ⟨.struct, [o 0 .u32, o 1 .u16, o 2 .u32]⟩
  | "DataVersionFilter" => some ⟨.struct, [.group 0 .list [⟨0, .u64, true, false⟩, ⟨1, .u16, false, false⟩, ⟨2, .u32, false, false⟩], r 1 .u32]⟩
  | _ => none

def parseSlot (s : String) : Option Slot :=
  if s = "-" then some .absent else if s = "n" then some .null
  else if s = "T" then some (.bool true) else if s = "F" then some (.bool false)
  else s.toNat?.map .num

def slotStr : Slot → String
  | .absent => "-" | .null => "n" | .num n => toString n | .bool true => "T" | .bool false => "F"

def encodeNamed (name : String) (args : List String) : Option Bytes := do
  let s ← named name
  let slots ← args.mapM parseSlot
  encodeStruct s slots

/-- `none`: unknown structure; `some none`: the model rejects; `some (some slots)` -/
def decodeNamed (name : String) (bs : Bytes) : Option (Option (List String)) :=
  match named name with
  | none => none
  | some s =>
    match decodeStruct s bs with
    | .ok slots => some (some (slots.map slotStr))
    | _ => some none

end TlvSchema
