import RsMatterVerif.Lemmas.SubsDeliver
/-!
# Events (C13): the event watermark tied to the numbers of the pushed events

`evq k` is the numbering state of the event queue at step `k` of a history (events are pushed by the
application between the table operations; a restart may move the numbering forward to the next
persisted epoch). `EvTied`: every table operation that takes an event watermark is handed the queue's
watermark of that moment — what `im.rs` does (`self.state.events.watermark()` at the `add`, `report`
and `load_persist` call sites).
-/
namespace Subs

/-- `push` assigns the number after the watermark, and the new watermark is the number just assigned:
the watermark **is** the largest event number pushed so far -/
theorem push_number (q : EvQ) (h1 : 1 ≤ q.next) (h2 : q.next + 1 < U64) :
    q.push.1 = q.watermark + 1 ∧ q.push.2.watermark = q.push.1 ∧ q.push.2.next = q.next + 1 := by
  unfold EvQ.push EvQ.watermark
  have h3 := imax_succ
  simp only
  have e1 : (q.next + 1) % U64 = q.next + 1 := Nat.mod_eq_of_lt h2
  have e2 : max (q.next + 1) 1 = q.next + 1 := by omega
  have e3 : (q.next + IMAX) % U64 = q.next - 1 := by
    have : q.next + IMAX = (q.next - 1) + U64 := by omega
    rw [this, Nat.add_mod_right, Nat.mod_eq_of_lt (by omega)]
  have e4 : (q.next + 1 + IMAX) % U64 = q.next := by
    have : q.next + 1 + IMAX = q.next + U64 := by omega
    rw [this, Nat.add_mod_right, Nat.mod_eq_of_lt (by omega)]
  rw [e1, e2, e3, e4]
  omega

theorem evq_watermark (q : EvQ) (h1 : 1 ≤ q.next) (h2 : q.next < U64) : q.watermark + 1 = q.next := by
  unfold EvQ.watermark
  have h3 := imax_succ
  have : q.next + IMAX = (q.next - 1) + U64 := by omega
  rw [this, Nat.add_mod_right, Nat.mod_eq_of_lt (by omega)]
  omega

/-- the event numbering along a history: it only moves forward and does not wrap -/
structure EvMono (evq : Nat → EvQ) : Prop where
  pos : ∀ k, 1 ≤ (evq k).next
  lt : ∀ k, (evq k).next < U64
  mono : ∀ k, (evq k).next ≤ (evq (k + 1)).next

theorem EvMono.wm_mono {evq : Nat → EvQ} (h : EvMono evq) {a b : Nat} (hab : a ≤ b) :
    (evq a).watermark ≤ (evq b).watermark := by
  have hn : ∀ d, (evq a).next ≤ (evq (a + d)).next := by
    intro d
    induction d with
    | zero => exact Nat.le_refl _
    | succ d ih => exact Nat.le_trans ih (h.mono (a + d))
  have := hn (b - a)
  rw [show a + (b - a) = b by omega] at this
  have h1 := evq_watermark (evq a) (h.pos a) (h.lt a)
  have h2 := evq_watermark (evq b) (h.pos b) (h.lt b)
  omega

/-- every operation that takes an event watermark is handed the queue's watermark of that moment -/
def EvTied (sched : Nat → Op) (evq : Nat → EvQ) : Prop :=
  ∀ k ev, (sched k).evParam = some ev → ev = (evq k).watermark

/-- event number `e` has been assigned (the event has been pushed) by step `k` -/
def Pushed (evq : Nat → EvQ) (k e : Nat) : Prop := 1 ≤ e ∧ e ≤ (evq k).watermark

/-- **event invariant**: no live subscription claims to have seen an event number that has not been
assigned yet; the snapshot of a context lies between what its subscription has seen and the watermark -/
structure EvInv (s : State) (W : Nat) : Prop where
  subs : ∀ x ∈ s.subs, x.seenEv ≤ W
  ctxs : ∀ c ∈ s.ctxs, c.sub.seenEv ≤ c.nextEv ∧ c.nextEv ≤ W

theorem evInv_mono {s : State} {W W' : Nat} (h : EvInv s W) (hw : W ≤ W') : EvInv s W' :=
  ⟨fun x hx => Nat.le_trans (h.subs x hx) hw, fun c hc => ⟨(h.ctxs c hc).1, Nat.le_trans (h.ctxs c hc).2 hw⟩⟩

theorem resumeAll_evInv (now ev : Nat) : ∀ (rs : List Rec) (s : State), s.ctxs = [] →
    (∀ x ∈ s.subs, x.seenEv ≤ ev) →
    (rs.foldl (fun st r => st.resumeOne r now ev) s).ctxs = [] ∧
    ∀ x ∈ (rs.foldl (fun st r => st.resumeOne r now ev) s).subs, x.seenEv ≤ ev := by
  intro rs
  induction rs with
  | nil => intro s hc h; exact ⟨hc, h⟩
  | cons r rs ih =>
    intro s hc h
    simp only [List.foldl_cons]
    apply ih
    · rw [resumeOne_ctxs]; exact hc
    · unfold State.resumeOne
      split
      · exact h
      · intro x hx
        simp only [List.mem_append, List.mem_singleton] at hx
        rcases hx with hx | rfl
        · exact h x hx
        · exact Nat.le_refl _

/-- one operation preserves the event invariant when it is handed the current watermark -/
theorem evInv_step {s : State} (op : Op) {W : Nat} (h : EvInv s W)
    (ht : ∀ ev, op.evParam = some ev → ev = W) : EvInv (s.step op) W := by
  cases op with
  | change p => exact ⟨h.subs, h.ctxs⟩
  | add now fab peer mn mx ev =>
    have hev : ev = W := ht ev rfl
    simp only [State.step, State.add]
    split
    · exact h
    · refine ⟨h.subs, ?_⟩
      intro c hc
      simp only [List.mem_append, List.mem_singleton] at hc
      rcases hc with hc | rfl
      · exact h.ctxs c hc
      · simp only; omega
  | report now ev =>
    have hev : ev = W := ht ev rfl
    simp only [State.step]
    rcases report_shape (s := s) (now := now) (ev := ev) with h1 | ⟨i, sub, hs, h1⟩
    · rw [h1]; exact h
    · rw [h1]
      have hsub : sub ∈ s.subs := List.mem_of_getElem? hs
      refine ⟨fun x hx => h.subs x (mem_swapRemove hx), ?_⟩
      intro c hc
      simp only [reportTo, List.mem_append, List.mem_singleton] at hc
      rcases hc with hc | rfl
      · exact h.ctxs c hc
      · simp only
        have := h.subs sub hsub
        omega
  | fin id f =>
    simp only [State.step]
    cases hf : s.ctxs.find? (fun c => c.sub.id == id) with
    | none => rw [fin_none hf]; exact h
    | some c =>
      have hcm : c ∈ s.ctxs := List.mem_of_find?_eq_some hf
      obtain ⟨a1, a2⟩ := h.ctxs c hcm
      rw [fin_eq hf]
      obtain ⟨f1, _, _, _, _, f6⟩ := reportComplete_fields
        ({ s with ctxs := s.ctxs.eraseP (fun c => c.sub.id == id) }) (finSub s.hz c f) (finKeep f)
      constructor
      · intro x hx
        have hfs : (finSub s.hz c f).seenEv ≤ W := by
          cases f <;> simp [finSub, Ctx.commit, Ctx.setKeepRetry, Ctx.setKeepUnsent] <;> omega
        rcases f6 with f6 | f6 <;> rw [f6] at hx
        · exact h.subs x hx
        · rcases List.mem_append.mp hx with hx | hx
          · exact h.subs x hx
          · rw [List.mem_singleton.mp hx]; exact hfs
      · intro c' hc'
        rw [f1] at hc'
        exact h.ctxs c' (List.mem_of_mem_eraseP hc')
  | remove p =>
    simp only [State.step]
    obtain ⟨cx, h1⟩ := remove_shape s p
    rw [h1]
    obtain ⟨rem, hr⟩ := removeLoop_perm p (s.subs.length + 1) s.subs s.count
    exact ⟨fun x hx => h.subs x (hr.mem_iff.mp (List.mem_append_right _ hx)), h.ctxs⟩
  | purge =>
    simp only [State.step, State.purge]
    repeat' split
    all_goals exact ⟨h.subs, h.ctxs⟩
  | persist => exact ⟨h.subs, h.ctxs⟩
  | restart now ev =>
    have hev : ev = W := ht ev rfl
    simp only [State.step]
    rw [restart_eq]
    obtain ⟨r1, r2⟩ := resumeAll_evInv now ev (s.kv.take s.n) s.fresh rfl
      (by intro x hx; simp [State.fresh, State.new] at hx)
    refine ⟨fun x hx => by rw [← hev]; exact r2 x hx, ?_⟩
    intro c hc
    rw [r1] at hc; cases hc

/-- the event invariant holds along every history whose operations are handed the queue's watermark -/
theorem evInv_stateAt {hz n : Nat} {sched : Nat → Op} {evq : Nat → EvQ} (hm : EvMono evq)
    (ht : EvTied sched evq) : ∀ k, EvInv (stateAt hz n sched k) (evq k).watermark
  | 0 => ⟨fun x hx => by simp [stateAt, State.new] at hx, fun c hc => by simp [stateAt, State.new] at hc⟩
  | k + 1 => by
    have ih := evInv_stateAt (hz := hz) (n := n) hm ht k
    exact evInv_mono (evInv_step (sched k) ih (fun ev hev => ht k ev hev)) (hm.wm_mono (Nat.le_succ k))

/-- **No event is skipped.** An event that is pushed after step `k` gets a number above everything
any subscription that is live at step `k` has seen or is about to commit: it is pending for all of them. -/
theorem later_event_is_unseen {hz n : Nat} {sched : Nat → Op} {evq : Nat → EvQ} (hm : EvMono evq)
    (ht : EvTied sched evq) (k e : Nat) (he : (evq k).watermark < e) :
    (∀ x ∈ (stateAt hz n sched k).subs, x.seenEv < e) ∧
    (∀ c ∈ (stateAt hz n sched k).ctxs, c.sub.seenEv < e ∧ c.nextEv < e) := by
  have h := evInv_stateAt (hz := hz) (n := n) hm ht k
  exact ⟨fun x hx => Nat.lt_of_le_of_lt (h.subs x hx) he,
    fun c hc => ⟨Nat.lt_of_le_of_lt (Nat.le_trans (h.ctxs c hc).1 (h.ctxs c hc).2) he,
      Nat.lt_of_le_of_lt (h.ctxs c hc).2 he⟩⟩

/-- **Every pushed event above the subscription's watermark is in the report that begins**: if the
event with number `e` has been pushed by the step `j` at which a report begins for a subscription that
has not seen it, the report's event reader considers it (`max_seen < e ≤ next_max_seen`) -/
theorem pushed_event_in_report {hz n : Nat} {sched : Nat → Op} {evq : Nat → EvQ}
    (ht : EvTied sched evq) {j e : Nat} {c : Ctx} (hb : BeginsAt hz n sched j c)
    (hp : Pushed evq j e) (hlt : c.sub.seenEv < e) : c.eventInRange e = true := by
  obtain ⟨now, ev, hs, _, _, _, hev, _, _⟩ := begins_fields hb
  have := ht j ev (by rw [hs]; rfl)
  unfold Ctx.eventInRange
  simp only [Bool.and_eq_true, decide_eq_true_eq]
  refine ⟨hlt, ?_⟩
  rw [hev, this]
  exact hp.2

/-- an acknowledged report consumes exactly its range; a failed one nothing -/
theorem event_range_commit (hz : Nat) (c : Ctx) :
    (finSub hz c .keep).seenEv = c.nextEv ∧ (finSub hz c .retry).seenEv = c.sub.seenEv ∧
    (finSub hz c .unsent).seenEv = c.nextEv := by
  simp [finSub, Ctx.commit, Ctx.setKeepRetry, Ctx.setKeepUnsent]

/-- a pending event makes the subscription pending -/
theorem event_makes_pending (x : Sub) (es : List Entry) (ev : Nat) (h : x.seenEv < ev) :
    x.pending es ev = true := by
  simp [Sub.pending, h]

/-- every live subscription with identifier `id` has the event watermark `v` -/
def SeenEvIs (s : State) (id v : Nat) : Prop := ∀ x ∈ s.live, x.id = id → x.seenEv = v

/-- the event watermark of subscription `id` moves only when a context of it ends with `keep` or
`unsent` -/
theorem seenEvIs_step {s : State} (hu : UID s) (op : Op) {id v : Nat}
    (hnr : ∀ now ev, op ≠ .restart now ev) (hnk : op ≠ .fin id .keep) (hnu : op ≠ .fin id .unsent)
    (hid : id < s.nextSubId) (h : SeenEvIs s id v) : SeenEvIs (s.step op) id v := by
  intro y hy hyid
  cases op with
  | change p => exact h y hy hyid
  | add now fab peer mn' mx' ev =>
    simp only [State.step, State.add] at hy
    split at hy
    · exact h y hy hyid
    · simp only [State.live, List.map_append, List.map_cons, List.map_nil, List.mem_append,
        List.mem_singleton] at hy
      rcases hy with hy | hy | hy
      · exact h y (by simp [State.live, hy]) hyid
      · exact h y (by simp only [State.live, List.mem_append]; right; exact hy) hyid
      · subst hy; simp only at hyid; omega
  | report now ev =>
    simp only [State.step] at hy
    rcases report_shape (s := s) (now := now) (ev := ev) with h1 | ⟨i, sub, hs, h1⟩
    · rw [h1] at hy; exact h y hy hyid
    · rw [h1] at hy; exact h y ((live_reportTo now ev hs).mem_iff.mp hy) hyid
  | fin id' f =>
    simp only [State.step] at hy
    rcases fin_live_origin hu hy with ⟨h1, _⟩ | ⟨c, hc, hcid, hk, rfl⟩
    · exact h y h1 hyid
    · have hidc : c.sub.id = id := by rw [← finSub_id s.hz c f]; exact hyid
      have hcl : c.sub ∈ s.live := mem_live.mpr (Or.inr ⟨c, hc, rfl⟩)
      have a1 := h c.sub hcl hidc
      have hff : id' = id := hcid.symm.trans hidc
      subst hff
      cases f with
      | keep => exact absurd rfl hnk
      | unsent => exact absurd rfl hnu
      | drop => cases hk
      | retry => simp [finSub, Ctx.commit, Ctx.setKeepRetry, a1]
  | remove p =>
    simp only [State.step] at hy
    obtain ⟨cx, h1⟩ := remove_shape s p
    rw [h1] at hy
    obtain ⟨rem, hr⟩ := removeLoop_perm p (s.subs.length + 1) s.subs s.count
    have : y ∈ s.live := by
      simp only [rmTo, State.live, List.mem_append] at hy ⊢
      rcases hy with hy | hy
      · left; exact hr.mem_iff.mp (List.mem_append_right _ hy)
      · right; exact hy
    exact h y this hyid
  | purge =>
    simp only [State.step, State.purge] at hy
    have : y ∈ s.live := by
      repeat' split at hy
      all_goals exact hy
    exact h y this hyid
  | persist => exact h y hy hyid
  | restart now ev => exact absurd rfl (hnr now ev)

theorem seenEvIs_run {hz n : Nat} {sched : Nat → Op}
    (hw : ∀ k, (stateAt hz n sched k).changed.nextId + 1 < U64) {a : Nat} {id v : Nat}
    (hid : id < (stateAt hz n sched a).nextSubId) (h : SeenEvIs (stateAt hz n sched a) id v) :
    ∀ (d : Nat), NoRestart sched a (a + d) →
      (∀ t, a ≤ t → t < a + d → sched t ≠ .fin id .keep ∧ sched t ≠ .fin id .unsent) →
      SeenEvIs (stateAt hz n sched (a + d)) id v ∧ id < (stateAt hz n sched (a + d)).nextSubId
  | 0, _, _ => ⟨h, hid⟩
  | d + 1, hnr, hnk => by
    obtain ⟨ih1, ih2⟩ := seenEvIs_run hw hid h d (hnr.mono (Nat.le_refl _) (by omega))
      (fun t h1 h2 => hnk t h1 (by omega))
    have hr := hnr (a + d) (by omega) (by omega)
    obtain ⟨k1, k2⟩ := hnk (a + d) (by omega) (by omega)
    refine ⟨seenEvIs_step (inv_stateAt hz n sched hw (a + d)).2.2 (sched (a + d)) hr k1 k2 ih2 ih1, ?_⟩
    exact Nat.lt_of_lt_of_le ih2 (nextSubId_step_le _ _ hr)

/-- **Every subscribed event that occurs is in the next report that begins — on runs.** For every
history whose operations are handed the queue's watermark: let subscription `x` (live at step `k`) not
have seen event number `e`, pushed by step `k`. If the next report of that subscription begins at a
step `j ≥ k` — no acknowledged or unsent report of it and no restart in between; failed attempts may lie
in between — then that report's event reader considers `e`, and if the report is acknowledged the
subscription's event watermark is `≥ e` afterwards. -/
theorem event_in_next_report {hz n : Nat} {sched : Nat → Op} {evq : Nat → EvQ}
    (hw : ∀ k, (stateAt hz n sched k).changed.nextId + 1 < U64) (hm : EvMono evq) (ht : EvTied sched evq)
    {k j e : Nat} {x : Sub} (hx : x ∈ (stateAt hz n sched k).live) (hp : Pushed evq k e)
    (hlt : x.seenEv < e) (hkj : k ≤ j) (hnr : NoRestart sched k j)
    (hnk : ∀ t, k ≤ t → t < j → sched t ≠ .fin x.id .keep ∧ sched t ≠ .fin x.id .unsent)
    {c : Ctx} (hb : BeginsAt hz n sched j c) (hid : c.sub.id = x.id) :
    c.eventInRange e = true ∧ e ≤ (finSub hz c .keep).seenEv := by
  obtain ⟨_, _, hu⟩ := inv_stateAt hz n sched hw k
  have h0 : SeenEvIs (stateAt hz n sched k) x.id x.seenEv := by
    intro y hy hyid
    rw [uid_eq hu hy hx hyid]
  have hrun := seenEvIs_run hw (hu.below x hx) h0 (j - k) (by rwa [show k + (j - k) = j by omega])
    (fun t h1 h2 => hnk t h1 (by omega))
  rw [show k + (j - k) = j by omega] at hrun
  obtain ⟨now, ev, _, hsub, _, _, _, _, _⟩ := begins_fields hb
  have hse := hrun.1 c.sub (mem_live.mpr (Or.inl hsub)) hid
  have hpj : Pushed evq j e := ⟨hp.1, Nat.le_trans hp.2 (hm.wm_mono hkj)⟩
  have hin := pushed_event_in_report ht hb hpj (by rw [hse]; exact hlt)
  refine ⟨hin, ?_⟩
  unfold Ctx.eventInRange at hin
  simp only [Bool.and_eq_true, decide_eq_true_eq] at hin
  simp only [finSub, Ctx.commit]
  exact hin.2

end Subs
