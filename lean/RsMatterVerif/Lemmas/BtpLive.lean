import RsMatterVerif.Lemmas.BtpHandshake
/-!
# Absence of deadlock between two well-behaved BTP ends

`Dead` (both send windows exhausted, no acknowledgement travelling) is excluded by the invariant
`Sync.nodead`; `sync_enabled` turns this into: whenever a message is waiting to be sent, some
scheduler operation is productive.
-/
namespace Btp

theorem pendingAck_some {r : RecvWindow} (h1 : 0 < r.ackLevel) (h2 : r.msgCt = 0) :
    r.pendingAck = some r.ackSeq := by
  unfold RecvWindow.pendingAck; simp [h1, h2]

theorem full_cases {s : Session} (h : s.send.isFull s.recv = true) :
    s.send.level = 0 ∨ (s.send.level = 1 ∧ s.recv.pendingAck = none) := by
  unfold SendWindow.isFull at h
  simp only [Bool.or_eq_true, beq_iff_eq, Bool.and_eq_true, Option.isNone_iff_eq_none] at h
  exact h

/-- **No deadlock**: in a synchronised state with a window of at least 3 (every window two
rs-matter ends negotiate is at least 6) in which end `x` has a message waiting to be sent, at
least one of the following is possible: a segment can be delivered (`Deliver` never fails,
`sync_step`), a complete message can be fetched, or a pump — polled now or, at the latest, once the
acknowledgement timer of the peer has fired (`n` seconds from now) — emits a segment. -/
theorem sync_enabled {W M : Nat} {l : LMon} (hl : LInv l) (hs : Sync W M l) (hw : 3 ≤ W) (x : Side)
    (hx : (l.get x).e.sdu ≠ []) :
    (∃ y, l.inq y ≠ []) ∨ (∃ y, 0 < (l.get y).e.s.recv.msgCt) ∨
    (∃ y n e' seg, (l.get y).e.processOutgoing (l.now + n) = .ok (e', seg) ∧ seg ≠ []) := by
  by_cases hq : ∃ y, l.inq y ≠ []
  · exact .inl hq
  by_cases hm : ∃ y, 0 < (l.get y).e.s.recv.msgCt
  · exact .inr (.inl hm)
  right; right
  have hq0 : ∀ y, l.inq y = [] := fun y => by
    cases h : l.inq y with
    | nil => rfl
    | cons a b => exact absurd ⟨y, by rw [h]; simp⟩ hq
  have hm0 : ∀ y, (l.get y).e.s.recv.msgCt = 0 := fun y => by
    have : ¬ 0 < (l.get y).e.s.recv.msgCt := fun h => hm ⟨y, h⟩
    omega
  obtain ⟨hmx, _⟩ := hl.get x
  obtain ⟨hmy, _⟩ := hl.get x.other
  have dx := hs.st x
  have dy := hs.st x.other
  obtain ⟨hestx, _, hmtx⟩ := hs.ses x
  obtain ⟨hesty, _, hmty⟩ := hs.ses x.other
  have emits : ∀ {mtu seq rem : Nat} {h : Hdr} {p : List Nat}, SegOk mtu seq rem h p → h.encode ++ p ≠ [] := by
    intro mtu seq rem h p _ h0
    have := (encode_length_le h).2
    have h1 : (h.encode ++ p).length = 0 := by rw [h0]; rfl
    simp only [List.length_append] at h1; omega
  -- the pump of `x`, now
  rcases endOutgoing_sync hmx.e dx.pend hestx dx.tx (l.now + 0) with ⟨_, hfull⟩ | ⟨h, p, e', h1, _, hok, _⟩
  rotate_left
  · exact ⟨x, 0, e', _, h1, emits hok⟩
  have hfx : (l.get x).e.s.send.isFull (l.get x).e.s.recv = true := by
    rcases hfull with h | ⟨h, _⟩
    · exact h
    · exact absurd h hx
  -- `x` counts at least `W − 1` unacknowledged segments; nothing is in flight, so `y` holds them
  have d1 := hs.dir x
  have d2 := hs.dir x.other
  simp only [other_other] at d2
  have t1 := d1.tight
  have t2 := d2.tight
  rw [hq0 x, hq0 x.other] at t1
  rw [hq0 x, hq0 x.other] at t2
  simp only [Tight, lastAck, List.length_nil] at t1 t2
  have hlx : (l.get x).e.s.send.level ≤ 1 := by
    rcases full_cases hfx with h | ⟨h, _⟩ <;> omega
  have hry : 0 < (l.get x.other).e.s.recv.ackLevel := by omega
  have hpy := pendingAck_some hry (hm0 x.other)
  obtain ⟨t, ht⟩ : ∃ t, (l.get x.other).e.s.recv.receivedAt = some t := by
    have := d1.stamp hry
    cases h : (l.get x.other).e.s.recv.receivedAt with
    | none => rw [h] at this; cases this
    | some t => exact ⟨t, rfl⟩
  have hdue : (l.get x.other).e.s.isAckDue (l.now + (t + ackTimeoutSecs)) ackTimeoutSecs = true := by
    unfold Session.isAckDue
    simp only [hpy, Option.isSome_some, ht, Bool.true_and, Bool.or_eq_true, decide_eq_true_eq]
    right; omega
  -- the pump of `y`, once its acknowledgement timer has fired
  rcases endOutgoing_sync hmy.e dy.pend hesty dy.tx (l.now + (t + ackTimeoutSecs)) with
    ⟨_, hfull2⟩ | ⟨h, p, e', h1, _, hok, _⟩
  rotate_left
  · exact ⟨x.other, t + ackTimeoutSecs, e', _, h1, emits hok⟩
  exfalso
  have hfy : (l.get x.other).e.s.send.isFull (l.get x.other).e.s.recv = true := by
    rcases hfull2 with h | ⟨_, h⟩
    · exact h
    · rw [hdue] at h; cases h
  have hly : (l.get x.other).e.s.send.level = 0 := by
    rcases full_cases hfy with h | ⟨_, h⟩
    · exact h
    · rw [hpy] at h; cases h
  have hrx : 2 ≤ (l.get x).e.s.recv.ackLevel := by omega
  rcases full_cases hfx with h | ⟨_, h⟩
  · -- both send windows exhausted, nothing in flight: excluded by the invariant
    apply hs.nodead
    rw [dead_iff l x]
    refine ⟨h, hly, ?_, ?_⟩
    · rw [hq0 x]; intro s hs; exact absurd hs List.not_mem_nil
    · rw [hq0 x.other]; intro s hs; exact absurd hs List.not_mem_nil
  · rw [pendingAck_some (by omega) (hm0 x)] at h; cases h

end Btp
