import RsMatterVerif.Generated.Consts
import RsMatterVerif.Model.Dedup
/-!
# Model of the secured-message path (C03)

Transliteration of
* `transport/plain_hdr.rs`  `PlainHdr::{encode, decode}` (byte exact),
* `transport/proto_hdr.rs`  `ProtoHdr::{encode, decrypt_and_decode}`, `get_iv` (nonce), AAD = parsed header bytes,
* `transport/packet.rs`     `PacketHdr::{encode, decode_remaining}`,
* `transport/session.rs`    `Session::{is_for_rx, pre_send (no exchange), decode_remaining, encode, post_recv, add_exch}`,
  `Sessions::{get_for_rx, add}`, the no-key-material branch of `get_or_create_for_group_rx`,
* `transport/mrp.rs`        `ReliableMessage::post_recv`,
* `transport.rs`            `decode_packet` (plain header → session lookup → decrypt → protocol header → `post_recv`).

Bytes are `Nat`s below 256, integers are `Nat`s with the ranges of the Rust types.

**AEAD is ideal.** A ciphertext is not computed: the table `Aead` lists the encryptions that were
performed, `EncRec = Enc key nonce aad plaintext` together with the byte string that stands for it
on the wire, and `Aead.dec k n a c` succeeds exactly when `c` is the wire form of an `Enc k n a _`
of the table — nothing else decrypts. The wire bytes are chosen by the environment (in the
correspondence run: by the real AES-CCM).

Only UDP peers are modelled (`adjust_reliability` is the identity on them); freed exchange slots
(`None` entries) are not modelled; the receiver has no group key material (fabric table empty).
Import-free apart from the generated constants and `Model/Dedup` so that the driver links.
-/
namespace SecureMsg

abbrev Bytes := List Nat

/-- `n` little-endian bytes of `v` -/
def le : Nat → Nat → Bytes
  | 0, _ => []
  | n + 1, v => (v % 256) :: le n (v / 256)

/-- value of little-endian bytes -/
def leVal : Bytes → Nat
  | [] => 0
  | b :: bs => b + 256 * leVal bs

/-- `ErrorCode`s that can leave `decode_packet` -/
inductive Err
  | Invalid | TruncatedPacket | InvalidData | NoSession | Duplicate | NoExchange | NoSpaceExchanges
  | NoSpaceSessions | BufferTooSmall | InvalidState
deriving Repr, DecidableEq, Inhabited

def Err.name : Err → String
  | .Invalid => "Invalid" | .TruncatedPacket => "TruncatedPacket" | .InvalidData => "InvalidData"
  | .NoSession => "NoSession" | .Duplicate => "Duplicate" | .NoExchange => "NoExchange"
  | .NoSpaceExchanges => "NoSpaceExchanges" | .NoSpaceSessions => "NoSpaceSessions"
  | .BufferTooSmall => "BufferTooSmall" | .InvalidState => "InvalidState"

/-- `ParseBuf::le_uN`: `n` bytes from the front or `TruncatedPacket` -/
def takeLe (n : Nat) (bs : Bytes) : Except Err (Nat × Bytes) :=
  if n ≤ bs.length then .ok (leVal (bs.take n), bs.drop n) else .error .TruncatedPacket

/-! ## Plain (unencrypted) header -/

-- `MsgFlags`
def F_DSIZ_UNICAST : Nat := Consts.msgFlagDsizUnicast
def F_DSIZ_GROUP : Nat := Consts.msgFlagDsizGroup
def F_SRC : Nat := Consts.msgFlagSrc
def MSGFLAGS_ALL : Nat := F_DSIZ_UNICAST ||| F_DSIZ_GROUP ||| F_SRC
-- `SecFlags`
def S_GROUP : Nat := Consts.secFlagGroup
def S_MSGEXT : Nat := Consts.secFlagMsgExt
def S_CONTROL : Nat := Consts.secFlagControl
def S_PRIVACY : Nat := Consts.secFlagPrivacy
def SECFLAGS_ALL : Nat := S_GROUP ||| S_MSGEXT ||| S_CONTROL ||| S_PRIVACY
-- `ExchFlags`
def X_INITIATOR : Nat := Consts.exchFlagInitiator
def X_ACK : Nat := Consts.exchFlagAck
def X_RELIABLE : Nat := Consts.exchFlagReliable
def X_SECEX : Nat := Consts.exchFlagSecex
def X_VENDOR : Nat := Consts.exchFlagVendor
def EXCHFLAGS_ALL : Nat := X_INITIATOR ||| X_ACK ||| X_RELIABLE ||| X_SECEX ||| X_VENDOR

/-- `flags.contains(f)` -/
def has (flags f : Nat) : Bool := flags &&& f == f

/-- `bitflags::from_bits`: every set bit must be a declared flag -/
def fromBits (all b : Nat) : Bool := b &&& all == b

structure PlainHdr where
  flags : Nat := 0
  sessId : Nat := 0
  secFlags : Nat := 0
  ctr : Nat := 0
  src : Nat := 0
  dst : Nat := 0
deriving Repr, DecidableEq, Inhabited

def PlainHdr.srcNode (h : PlainHdr) : Option Nat := if has h.flags F_SRC then some h.src else none
def PlainHdr.dsiz (h : PlainHdr) : Nat := h.flags &&& (F_DSIZ_UNICAST ||| F_DSIZ_GROUP)
def PlainHdr.dstUnicast (h : PlainHdr) : Option Nat := if h.dsiz = F_DSIZ_UNICAST then some h.dst else none
def PlainHdr.dstGroup (h : PlainHdr) : Option Nat := if h.dsiz = F_DSIZ_GROUP then some (h.dst % 65536) else none
def PlainHdr.isGroup (h : PlainHdr) : Bool := has h.secFlags S_GROUP
def PlainHdr.isControl (h : PlainHdr) : Bool := has h.secFlags S_CONTROL
def PlainHdr.isEncrypted (h : PlainHdr) : Bool := h.sessId != 0 || h.isGroup

/-- number of source-node-id bytes on the wire (`SRC_ADDR_PRESENT` ⇒ a u64) -/
def srcLen (flags : Nat) : Nat := if has flags F_SRC then 8 else 0
/-- number of destination bytes: unicast node id (u64), group id (u16), or nothing — also when
*both* DSIZ bits are set (`!flags.contains(DSIZ_MASK)` guards both the encoder and the decoder) -/
def dstLen (flags : Nat) : Nat :=
  let dsiz := flags &&& (F_DSIZ_UNICAST ||| F_DSIZ_GROUP)
  if dsiz = F_DSIZ_UNICAST then 8 else if dsiz = F_DSIZ_GROUP then 2 else 0

/-- `PlainHdr::encode` (an optional field is written as "`len` bytes" with `len = 0` when absent) -/
def PlainHdr.encode (h : PlainHdr) : Bytes :=
  le 1 h.flags ++ le 2 h.sessId ++ le 1 h.secFlags ++ le 4 h.ctr
  ++ le (srcLen h.flags) h.src ++ le (dstLen h.flags) h.dst

/-- `PlainHdr::decode`; returns the header and the unparsed rest. A field that is absent stays at
its reset value 0 (`takeLe 0` reads nothing and yields 0). -/
def PlainHdr.decode (bs : Bytes) : Except Err (PlainHdr × Bytes) := do
  let (flags, bs) ← takeLe 1 bs
  if !fromBits MSGFLAGS_ALL flags then throw .Invalid
  let (sessId, bs) ← takeLe 2 bs
  let (secFlags, bs) ← takeLe 1 bs
  if !fromBits SECFLAGS_ALL secFlags then throw .Invalid
  let (ctr, bs) ← takeLe 4 bs
  let (src, bs) ← takeLe (srcLen flags) bs
  let (dst, bs) ← takeLe (dstLen flags) bs
  pure ({ flags, sessId, secFlags, ctr, src, dst }, bs)

/-! ## Protocol header -/

structure ProtoHdr where
  exchFlags : Nat := 0
  opcode : Nat := 0
  exchId : Nat := 0
  protoId : Nat := 0
  vendor : Nat := 0
  ack : Nat := 0
deriving Repr, DecidableEq, Inhabited

def ProtoHdr.isInitiator (p : ProtoHdr) : Bool := has p.exchFlags X_INITIATOR
def ProtoHdr.isReliable (p : ProtoHdr) : Bool := has p.exchFlags X_RELIABLE
def ProtoHdr.getAck (p : ProtoHdr) : Option Nat := if has p.exchFlags X_ACK then some p.ack else none

def vendorLen (exchFlags : Nat) : Nat := if has exchFlags X_VENDOR then 2 else 0
def ackLen (exchFlags : Nat) : Nat := if has exchFlags X_ACK then 4 else 0

/-- `ProtoHdr::encode` -/
def ProtoHdr.encode (p : ProtoHdr) : Bytes :=
  le 1 p.exchFlags ++ le 1 p.opcode ++ le 2 p.exchId ++ le 2 p.protoId
  ++ le (vendorLen p.exchFlags) p.vendor ++ le (ackLen p.exchFlags) p.ack

/-- the parsing half of `ProtoHdr::decrypt_and_decode`; the rest is the application payload -/
def ProtoHdr.decode (bs : Bytes) : Except Err (ProtoHdr × Bytes) := do
  let (exchFlags, bs) ← takeLe 1 bs
  if !fromBits EXCHFLAGS_ALL exchFlags then throw .Invalid
  let (opcode, bs) ← takeLe 1 bs
  let (exchId, bs) ← takeLe 2 bs
  let (protoId, bs) ← takeLe 2 bs
  let (vendor, bs) ← takeLe (vendorLen exchFlags) bs
  let (ack, bs) ← takeLe (ackLen exchFlags) bs
  pure ({ exchFlags, opcode, exchId, protoId, vendor, ack }, bs)

/-- `MessageMeta` predicates (`transport/exchange.rs`) -/
def ProtoHdr.isStandaloneAck (p : ProtoHdr) : Bool :=
  p.protoId == Consts.protoIdSecureChannel && p.opcode == Consts.opMrpStandaloneAck
def ProtoHdr.isScStatus (p : ProtoHdr) : Bool :=
  p.protoId == Consts.protoIdSecureChannel && p.opcode == Consts.opStatusReport
def ProtoHdr.isNewExchange (p : ProtoHdr) : Bool := !p.isStandaloneAck && !p.isScStatus
def ProtoHdr.isNewSession (p : ProtoHdr) : Bool :=
  p.protoId == Consts.protoIdSecureChannel
    && (p.opcode == Consts.opPbkdfParamRequest || p.opcode == Consts.opCaseSigma1)
def ProtoHdr.isControlMsg (p : ProtoHdr) : Bool :=
  p.protoId == Consts.protoIdSecureChannel
    && (p.opcode == Consts.opMsgCounterSyncReq || p.opcode == Consts.opMsgCounterSyncResp)

structure PacketHdr where
  plain : PlainHdr := {}
  proto : ProtoHdr := {}
deriving Repr, DecidableEq, Inhabited

/-! ## Ideal AEAD -/

/-- `Enc key nonce aad pt`, and the wire bytes `ct` (cipher text ‖ tag) standing for it -/
structure EncRec where
  key : Nat
  nonce : Bytes
  aad : Bytes
  pt : Bytes
  ct : Bytes
deriving Repr, DecidableEq, Inhabited

abbrev Aead := List EncRec

def EncRec.opens (r : EncRec) (k : Nat) (n a c : Bytes) : Bool :=
  r.key == k && r.nonce == n && r.aad == a && r.ct == c

/-- `dec k n a c = some p` iff `c` is the wire form of an `Enc k n a p` that was produced -/
def Aead.dec (t : Aead) (k : Nat) (n a c : Bytes) : Option Bytes :=
  (t.find? (fun r => r.opens k n a c)).map (·.pt)

/-- `get_iv`: security flags ‖ counter ‖ node id -/
def nonce (secFlags ctr node : Nat) : Bytes := le 1 secFlags ++ le 4 ctr ++ le 8 node

def TAG_LEN : Nat := Consts.aeadTagLen

/-! ## Sessions -/

inductive Mode
  | plain | pase | case | group (gid : Nat)
deriving Repr, DecidableEq, Inhabited

structure Exch where
  id : Nat
  /-- `Role::Responder(_)` (else initiator) -/
  responder : Bool
  /-- `mrp.retrans`: counter waiting to be acknowledged -/
  retrans : Option Nat := none
  /-- `mrp.ack`: counter we owe an acknowledgement for -/
  ack : Option Nat := none
deriving Repr, DecidableEq, Inhabited

structure Session where
  addr : Nat
  localNode : Nat := 0
  peerNode : Option Nat := none
  decKey : Nat := 0
  encKey : Nat := 0
  localSid : Nat := 0
  peerSid : Nat := 0
  txCtr : Nat := 0
  rx : Dedup.RxState := Dedup.RxState.unsynced
  mode : Mode := .plain
  exchs : List Exch := []
  expired : Bool := false
  reserved : Bool := false
deriving Repr, DecidableEq, Inhabited

def Session.isEncrypted (s : Session) : Bool := s.mode != .plain
def Session.isGroup (s : Session) : Bool := match s.mode with | .group _ => true | _ => false
def Session.getDecKey (s : Session) : Option Nat := if s.isEncrypted then some s.decKey else none
def Session.getEncKey (s : Session) : Option Nat := if s.isEncrypted then some s.encKey else none

/-- `Session::is_for_rx` -/
def Session.isForRx (s : Session) (from_ : Nat) (h : PlainHdr) : Bool :=
  let nodeidMatches := s.peerNode.isNone || h.srcNode.isNone || s.peerNode == h.srcNode
  let destMatches := s.isEncrypted || s.localNode == 0 || h.dstUnicast.isNone
      || h.dstUnicast == some s.localNode
  nodeidMatches && destMatches && s.localSid == h.sessId && s.addr == from_
    && s.isEncrypted == h.isEncrypted && !s.reserved

/-! ## Sender side -/

/-- `Session::pre_send` without an exchange: what the session stamps into the header.
Group *data* messages take their counter from the exchange, so without one they fail. -/
def Session.preSend (s : Session) (h : PacketHdr) : Except Err (PacketHdr × Session) :=
  let isGroup := s.isGroup
  let isControl := isGroup && h.proto.isControlMsg
  if isGroup && !isControl then .error .InvalidState else
  let pl := { h.plain with sessId := s.peerSid, ctr := s.txCtr }
  -- set_src_nodeid
  let pl :=
    if (!s.isEncrypted || isGroup) && s.localNode != 0
    then { pl with flags := pl.flags ||| F_SRC, src := s.localNode }
    else { pl with flags := pl.flags &&& (F_DSIZ_UNICAST ||| F_DSIZ_GROUP), src := 0 }
  -- destination
  let clearDst (p : PlainHdr) : PlainHdr := { p with flags := p.flags &&& F_SRC, dst := 0 }
  let pl :=
    if s.mode = .plain || isControl then
      match s.peerNode with
      | some n => { pl with flags := (pl.flags &&& F_SRC) ||| F_DSIZ_UNICAST, dst := n }
      | none => clearDst pl
    else clearDst pl
  let pl :=
    if isGroup then
      { pl with secFlags := (pl.secFlags ||| S_GROUP ||| S_CONTROL) }   -- is_control holds here
    else pl
  .ok ({ h with plain := pl }, { s with txCtr := s.txCtr + 1 })

/-- `Session::encode` = `PacketHdr::encode(enc_key, local_nodeid)`: the wire datagram and, when the
session has a key, the `Enc` term. `ct` = the wire bytes of cipher text ‖ tag. -/
def Session.encode (s : Session) (h : PacketHdr) (payload ct : Bytes) : Bytes × Option EncRec :=
  let plainBytes := h.plain.encode
  let pt := h.proto.encode ++ payload
  match s.getEncKey with
  | some k =>
    (plainBytes ++ ct,
      some { key := k, nonce := nonce h.plain.secFlags h.plain.ctr s.localNode, aad := plainBytes, pt, ct })
  | none => (plainBytes ++ pt, none)

/-! ## Receiver side -/

abbrev Node := List Session

/-- `Sessions::get_for_rx`: first session that `is_for_rx` -/
def findRx (n : Node) (from_ : Nat) (h : PlainHdr) : Option Nat :=
  n.findIdx? (fun s => s.isForRx from_ h)

/-- what `decode_packet` establishes before any state is touched -/
inductive Stage
  | rej (e : Err)
  /-- decoded for the existing session `idx` -/
  | decoded (idx : Nat) (h : PacketHdr) (payload : Bytes)
  /-- unencrypted, no session: a new unsecured session is to be created -/
  | newPlain (h : PacketHdr) (payload : Bytes)
deriving Repr, DecidableEq, Inhabited

/-- `Session::decode_remaining` (UDP peer): decrypt under the session's receive key with nonce
`sec flags ‖ counter ‖ peer node id (or 0)` and AAD = the parsed plain-header bytes, then parse the
protocol header. `aad` are the parsed bytes, `rest` everything behind them. -/
def Session.decodeRemaining (t : Aead) (s : Session) (h : PlainHdr) (aad rest : Bytes) :
    Except Err (ProtoHdr × Bytes) :=
  match s.getDecKey with
  | some k =>
    match t.dec k (nonce h.secFlags h.ctr (s.peerNode.getD 0)) aad rest with
    | some pt => ProtoHdr.decode pt
    | none => .error .InvalidData
  | none => ProtoHdr.decode rest

def MAX_GROUP_SAVE : Nat := 1280

/-- the part of `decode_packet` that runs before `post_recv` -/
def decodeStage (t : Aead) (n : Node) (from_ : Nat) (dg : Bytes) : Stage :=
  match PlainHdr.decode dg with
  | .error e => .rej e
  | .ok (h, rest) =>
    let aad := dg.take (dg.length - rest.length)
    match findRx n from_ h with
    | some idx =>
      match n[idx]? with
      | none => .rej .NoSession   -- unreachable
      | some s =>
        match s.decodeRemaining t h aad rest with
        | .error e => .rej e
        | .ok (p, payload) => .decoded idx { plain := h, proto := p } payload
    | none =>
      if !h.isEncrypted then
        match ProtoHdr.decode rest with
        | .error e => .rej e
        | .ok (p, payload) =>
          if p.isNewSession then .newPlain { plain := h, proto := p } payload
          else .rej .NoSession
      else if h.isGroup then
        -- `get_or_create_for_group_rx` on a node without group keys
        if h.srcNode.isNone then .rej .InvalidData
        else if h.dstGroup.isNone && h.dstUnicast.isNone then .rej .InvalidData
        else if rest.length > MAX_GROUP_SAVE then .rej .BufferTooSmall
        else .rej .NoSession
      else .rej .NoSession

/-- `ReliableMessage::post_recv` on one exchange -/
def Exch.postRecv (e : Exch) (ctr : Nat) (p : ProtoHdr) : Except Err Exch :=
  let step1 : Except Err Exch :=
    match p.getAck, e.retrans with
    | some a, some r => if r != a then .error .Duplicate else .ok { e with retrans := none, ack := none }
    | _, _ => .ok e
  match step1 with
  | .error x => .error x
  | .ok e => .ok (if p.isReliable then { e with ack := some ctr } else e)

def MAX_EXCHANGES : Nat := Consts.maxExchanges

/-- `Session::post_recv`: counter window, then exchange lookup / creation.
Returns the answer and the session as it is left behind (also on the error paths). -/
def Session.postRecv (s : Session) (h : PacketHdr) : Except Err Bool × Session :=
  let (rx', fresh) := Dedup.postRecvPlain s.rx h.plain.ctr s.isEncrypted
  if !fresh then (.error .Duplicate, s) else
  let s := { s with rx := rx' }
  match s.exchs.findIdx? (fun e => e.id == h.proto.exchId && h.proto.isInitiator == e.responder) with
  | some i =>
    match s.exchs[i]? with
    | none => (.error .NoExchange, s)   -- unreachable
    | some e =>
      match e.postRecv h.plain.ctr h.proto with
      | .error x => (.error x, s)
      | .ok e' => (.ok false, { s with exchs := s.exchs.set i e' })
  | none =>
    if !h.proto.isInitiator || !h.proto.isNewExchange then (.error .NoExchange, s)
    else if s.expired then (.error .NoSession, s)
    else if s.exchs.length < MAX_EXCHANGES then
      let e : Exch := { id := h.proto.exchId, responder := true }
      match e.postRecv h.plain.ctr h.proto with
      | .error x => (.error x, { s with exchs := s.exchs ++ [e] })
      | .ok e' => (.ok true, { s with exchs := s.exchs ++ [e'] })
    else (.error .NoSpaceExchanges, s)

def MAX_SESSIONS : Nat := Consts.maxSessions

/-- what is handed on -/
inductive Outcome
  | err (e : Err)
  /-- handed to an exchange of session `idx` (`newExch`: the exchange was created by this message) -/
  | ok (idx : Nat) (newExch : Bool) (h : PacketHdr) (payload : Bytes)
deriving Repr, DecidableEq, Inhabited

/-- `decode_packet` -/
def receive (t : Aead) (n : Node) (from_ : Nat) (dg : Bytes) : Outcome × Node :=
  match decodeStage t n from_ dg with
  | .rej e => (.err e, n)
  | .decoded idx h payload =>
    match n[idx]? with
    | none => (.err .NoSession, n)
    | some s =>
      let (r, s') := s.postRecv h
      let n' := n.set idx s'
      match r with
      | .error e => (.err e, n')
      | .ok nw => (.ok idx nw h payload, n')
  | .newPlain h payload =>
    if n.length < MAX_SESSIONS then
      let s : Session := { addr := from_, peerNode := h.plain.srcNode }
      let (r, s') := s.postRecv h
      let n' := n ++ [s']
      match r with
      | .error e => (.err e, n')
      | .ok nw => (.ok n.length nw h payload, n')
    else (.err .NoSpaceSessions, n)

/-! ## Specification vocabulary (written from the property text) -/

/-- `dg` is authentic for the receiving session `r`: it is, bit for bit, the wire form of an
encryption made under `r`'s receive key, for the nonce built from the header's security flags and
counter and the peer node id `r` was established with, with the complete header as associated data. -/
def AuthenticFor (t : Aead) (r : Session) (dg : Bytes) : Prop :=
  ∃ rec ∈ t, ∃ h : PlainHdr,
    rec.key = r.decKey ∧ rec.aad = h.encode ∧ dg = rec.aad ++ rec.ct ∧
    rec.nonce = nonce h.secFlags h.ctr (r.peerNode.getD 0)

/-- executable form of `AuthenticFor` used by the driver's oracle -/
def authenticForB (t : Aead) (r : Session) (dg : Bytes) : Bool :=
  t.any fun rec =>
    rec.key == r.decKey && dg == rec.aad ++ rec.ct &&
    match PlainHdr.decode rec.aad with
    | .ok (h, []) => h.encode == rec.aad && rec.nonce == nonce h.secFlags h.ctr (r.peerNode.getD 0)
    | _ => false

end SecureMsg
