import RsMatterVerif.Lemmas.TlvRound
/-!
# `reencodeIter` (`elem.tlv_iter(tag)` + `TLV::bytes_iter`) versus `reencode` (`elem.to_tlv(tag, tw)`)

For ARBITRARY input bytes (no hypothesis that they were produced by the writer):

* `reencodeIter_of_reencode_err` : `reencode bs = .err e → reencodeIter bs = .err e`
* `reencodeIter_of_reencode`     : `reencode bs = .ok out`, head element not an end-of-container ⇒
    `reencodeIter bs = if utf8Clean bs then .ok out else .err .mismatch`
* `reencodeIter_of_reencode_end` : `reencode bs = .ok out`, head element an end-of-container ⇒
    `reencodeIter bs = .ok (bs.take (hdrLen c))`, a *proper* prefix of `out`
* `reencode_of_reencodeIter`, `reencodeIter_take` : the converse direction.

and for the writer's output (`reencodeIter_encode`, `reencode_encode`, `tlvElements_encodes`).
-/
namespace Tlv

/-! ## definitions used in the statements -/

/-- the element at the head of `e` is a UTF-8 string whose payload `utf8()` rejects as invalid UTF-8 -/
def badUtf8 (e : Bytes) : Bool := decide (utf8Of e = .err .invalidData)

/-- the suffixes of `seq` at which the TLV tokens of a container's content start (children,
grandchildren, … and the end markers of *nested* containers), up to — not including — the end marker
that closes the container `seq` is the content of.  Only lengths are looked at (`next_enter`). -/
def tokensF : Nat → Bytes → Nat → List Bytes
  | 0, _, _ => []
  | f + 1, seq, nesting =>
    match control seq, nextEnter seq with
    | .ok c, .ok seq' =>
      if c.vt.isContainerEnd then
        (match nesting with
         | 0 => []
         | n + 1 => seq :: tokensF f seq' n)
      else seq :: tokensF f seq' (if c.vt.isContainerStart then nesting + 1 else nesting)
    | _, _ => []

/-- the element itself and, for a container, all tokens inside it -/
def tokens (bs : Bytes) : List Bytes :=
  bs :: (match containerOf bs with
         | .ok seq => tokensF (seq.length + 1) seq 0
         | _ => [])

/-- no token of the element is a UTF-8 string with invalid UTF-8 payload -/
def utf8Clean (bs : Bytes) : Bool := (tokens bs).all fun e => !badUtf8 e

/-- the head element is an end-of-container marker (with any tag) -/
def headIsEnd (bs : Bytes) : Bool :=
  match control bs with
  | .ok c => c.vt.isContainerEnd
  | _ => false

/-! ## small inversions -/

theorem checkedAdd_eq_ok {a b r : Nat} (h : checkedAdd a b = .ok r) : r = a + b ∧ a + b < USIZE := by
  unfold checkedAdd at h
  split at h
  · simp at h; exact ⟨h.symm, by assumption⟩
  · simp at h

theorem cvlStep_inv {f : Nat} {P : Bytes} {len l total : Nat} (h : cvlStep f P len l = .ok total) :
    ∃ e c lv, elemLen P = .ok e ∧ len + e < USIZE ∧ control P = .ok c ∧ levelStep c (l + 1) = .ok lv ∧
      cvlLoop f P (len + e) lv = .ok total := by
  unfold cvlStep at h
  rcases Res.bind_eq_ok.mp h with ⟨e, he, h2⟩
  rcases Res.bind_eq_ok.mp h2 with ⟨len', hl, h3⟩
  rcases Res.bind_eq_ok.mp h3 with ⟨c, hc, h4⟩
  rcases Res.bind_eq_ok.mp h4 with ⟨lv, hlv, h5⟩
  obtain ⟨rfl, hlt⟩ := checkedAdd_eq_ok hl
  exact ⟨e, c, lv, he, hlt, hc, hlv, h5⟩

theorem cvlLoop_pos_inv {f : Nat} {next : Bytes} {len l total : Nat}
    (h : cvlLoop f next len (l + 1) = .ok total) :
    ∃ f' P, f = f' + 1 ∧ nextEnter next = .ok P ∧ cvlStep f' P len l = .ok total := by
  cases f with
  | zero => simp [cvlLoop] at h
  | succ f' =>
    rw [cvlLoop_succ] at h
    rcases Res.bind_eq_ok.mp h with ⟨P, hP, h2⟩
    exact ⟨f', P, rfl, hP, h2⟩

theorem cvlLoop_zero (f : Nat) (next : Bytes) (len : Nat) : cvlLoop f next len 0 = .ok len := by
  cases f <;> rfl

theorem isContainerEnd_eq {vt : ValueType} (h : vt.isContainerEnd = true) : vt = .endCnt := by
  cases vt <;> simp [ValueType.isContainerEnd] at h <;> rfl

theorem isContainerStart_eq {vt : ValueType} (h : vt.isContainerStart = true) : ∃ k, vt = .cont k := by
  cases vt <;> simp [ValueType.isContainerStart] at h
  exact ⟨_, rfl⟩

/-- the three ways the level moves -/
theorem levelStep_inv {c : Control} {l lv : Nat} (h : levelStep c (l + 1) = .ok lv) :
    (c.vt.isContainerEnd = true ∧ c.tag = .anon ∧ lv = l) ∨
    (c.vt.isContainerEnd = false ∧ c.vt.isContainerStart = true ∧ lv = l + 2 ∧ l + 2 < I32LIM) ∨
    (c.vt.isContainerEnd = false ∧ c.vt.isContainerStart = false ∧ lv = l + 1) := by
  unfold levelStep at h
  cases hend : c.vt.isContainerEnd with
  | true =>
    left
    simp only [hend, if_true] at h
    rcases Res.bind_eq_ok.mp h with ⟨_, h1, h2⟩
    unfold Control.confirmContainerEnd Control.isContainerEnd at h1
    have hanon : c.tag = .anon := by
      cases ht : c.tag <;> simp [ht, hend] at h1 ⊢
    simp [subI32] at h2
    exact ⟨rfl, hanon, by omega⟩
  | false =>
    right
    simp only [hend, Bool.false_eq_true, if_false, ValueType.isContainer, Bool.or_false] at h
    cases hs : c.vt.isContainerStart with
    | true =>
      left
      simp only [hs, if_true, addI32] at h
      split at h
      · simp at h; exact ⟨rfl, rfl, by omega, by omega⟩
      · simp at h
    | false =>
      right
      simp only [hs, Bool.false_eq_true, if_false] at h
      simp at h
      exact ⟨rfl, rfl, by omega⟩

/-! ## the `container_value_len` walk: result grows, fuel does not matter, sub-walks succeed -/

theorem cvlLoop_ge : ∀ (f : Nat) (next : Bytes) (len lvl total : Nat),
    cvlLoop f next len lvl = .ok total → len ≤ total := by
  intro f
  induction f with
  | zero =>
    intro next len lvl total h
    cases lvl with
    | zero => simp [cvlLoop] at h; omega
    | succ l => simp [cvlLoop] at h
  | succ f ih =>
    intro next len lvl total h
    cases lvl with
    | zero => simp [cvlLoop] at h; omega
    | succ l =>
      obtain ⟨f', P, hf, _, hstep⟩ := cvlLoop_pos_inv h
      cases hf
      obtain ⟨e, c, lv, _, _, _, _, h5⟩ := cvlStep_inv hstep
      have := ih _ _ _ _ h5
      omega

/-- a successful walk does not depend on the fuel (each step consumes at least one byte) -/
theorem cvlLoop_fuel : ∀ (f : Nat) (next : Bytes) (len lvl total f' : Nat),
    cvlLoop f next len lvl = .ok total → next.length < f' → cvlLoop f' next len lvl = .ok total := by
  intro f
  induction f with
  | zero =>
    intro next len lvl total f' h _
    cases lvl with
    | zero => rw [cvlLoop_zero] at h ⊢; exact h
    | succ l => simp [cvlLoop] at h
  | succ f ih =>
    intro next len lvl total f' h hf'
    cases lvl with
    | zero => rw [cvlLoop_zero] at h ⊢; exact h
    | succ l =>
      obtain ⟨f0, P, hf, hP, hstep⟩ := cvlLoop_pos_inv h
      cases hf
      obtain ⟨e, c, lv, he, hlt, hc, hlv, h5⟩ := cvlStep_inv hstep
      have hneP := control_ok_ne_nil hc
      have hne : next ≠ [] := by
        intro h0; subst h0; simp [nextEnter] at hP; exact hneP hP
      have hlt' := nextEnter_lt hne hP
      obtain ⟨g, rfl⟩ : ∃ g, f' = g + 1 := ⟨f' - 1, by omega⟩
      rw [cvlLoop_succ, hP, Res.ok_bind]
      unfold cvlStep
      simp only [he, Res.ok_bind, checkedAdd_ok hlt, hc, hlv]
      exact ih _ _ _ _ g h5 (by omega)

theorem levelStep_shift {c : Control} {l d lv : Nat} (h : levelStep c (l + 1 + d) = .ok lv) :
    d ≤ lv ∧ levelStep c (l + 1) = .ok (lv - d) := by
  have e : l + 1 + d = (l + d) + 1 := by omega
  rw [e] at h
  rcases levelStep_inv h with ⟨h1, h2, h3⟩ | ⟨h1, h2, h3, h4⟩ | ⟨h1, h2, h3⟩
  · refine ⟨by omega, ?_⟩
    have hc : c = ⟨.anon, c.vt⟩ := by cases c; simp_all
    have hv := isContainerEnd_eq h1
    rw [hc, hv, levelStep_end]; congr 1; omega
  · refine ⟨by omega, ?_⟩
    obtain ⟨k, hk⟩ := isContainerStart_eq h2
    have hc : c = ⟨c.tag, .cont k⟩ := by cases c; simp_all
    rw [hc, levelStep_open _ _ _ (by omega)]; congr 1; omega
  · refine ⟨by omega, ?_⟩
    unfold levelStep
    simp only [h1, Bool.false_eq_true, if_false, ValueType.isContainer, h2, Bool.or_false]
    congr 1; omega

/-- a walk started at a lower level (and a smaller accumulator) over the same bytes succeeds too,
and adds at most as much -/
theorem cvlLoop_sub : ∀ (f : Nat) (next : Bytes) (len len0 lvl d total : Nat),
    cvlLoop f next len (lvl + d) = .ok total → len0 ≤ len →
    ∃ total', cvlLoop f next len0 lvl = .ok total' ∧ total' + (len - len0) ≤ total := by
  intro f
  induction f with
  | zero =>
    intro next len len0 lvl d total h hle
    cases lvl with
    | zero =>
      have := cvlLoop_ge _ _ _ _ _ h
      exact ⟨len0, cvlLoop_zero _ _ _, by omega⟩
    | succ l =>
      have e : l + 1 + d = (l + d) + 1 := by omega
      rw [e] at h; simp [cvlLoop] at h
  | succ f ih =>
    intro next len len0 lvl d total h hle
    cases lvl with
    | zero =>
      have := cvlLoop_ge _ _ _ _ _ h
      exact ⟨len0, cvlLoop_zero _ _ _, by omega⟩
    | succ l =>
      have e : l + 1 + d = (l + d) + 1 := by omega
      rw [e] at h
      obtain ⟨f0, P, hf, hP, hstep⟩ := cvlLoop_pos_inv h
      obtain rfl : f0 = f := by omega
      obtain ⟨e', c, lv, he, hlt, hc, hlv, h5⟩ := cvlStep_inv hstep
      rw [← e] at hlv
      obtain ⟨hd, hlv'⟩ := levelStep_shift hlv
      have h5' : cvlLoop f0 P (len + e') ((lv - d) + d) = .ok total := by
        have : lv - d + d = lv := by omega
        rw [this]; exact h5
      obtain ⟨total', h6, h7⟩ := ih P (len + e') (len0 + e') (lv - d) d total h5' (by omega)
      refine ⟨total', ?_, by omega⟩
      rw [cvlLoop_succ, hP, Res.ok_bind]
      unfold cvlStep
      simp only [he, Res.ok_bind, checkedAdd_ok (show len0 + e' < USIZE by omega), hc, hlv']
      exact h6

/-! ## one element: what `next_enter`, `len`, `tag`, `value` compute on it -/

theorem nextEnter_elemLen {b : UInt8} {tl P' : Bytes} {c : Control} {e : Nat}
    (hc : control (b :: tl) = .ok c) (hn : nextEnter (b :: tl) = .ok P') (he : elemLen (b :: tl) = .ok e) :
    ∃ n s, valueLen (b :: tl) c = .ok n ∧ valueStart (b :: tl) c = .ok s ∧ n ≤ s.length ∧
      e = hdrLen c + n ∧ P' = (b :: tl).drop e ∧ e ≤ (b :: tl).length ∧ P' = s.drop n := by
  simp only [nextEnter, List.isEmpty_cons, Bool.false_eq_true, if_false, hc, Res.ok_bind, nextStart] at hn
  rcases Res.bind_eq_ok.mp hn with ⟨n, hvl, h2⟩
  rcases Res.bind_eq_ok.mp h2 with ⟨s, hvs, h3⟩
  rcases getFrom_some (okOr_eq_ok.mp h3) with ⟨hle, rfl⟩
  simp only [elemLen, hc, Res.ok_bind, hvl] at he
  obtain ⟨rfl, _⟩ := checkedAdd_eq_ok he
  obtain ⟨hslen, hseq⟩ := valueStart_len hvs
  refine ⟨n, s, hvl, hvs, hle, rfl, ?_, ?_, rfl⟩
  · rw [hseq]; simp only [hdrLen, List.drop_drop]
    have : 1 + c.tag.size + c.vt.varSizeLen + n = (c.tag.size + c.vt.varSizeLen + n) + 1 := by omega
    rw [this, List.drop_succ_cons]
  · simp only [hdrLen, List.length_cons]; omega

theorem tagOf_ok_of_valueStart {b : UInt8} {tl s : Bytes} {c : Control}
    (hc : control (b :: tl) = .ok c) (hs : valueStart (b :: tl) c = .ok s) : ∃ t, tagOf (b :: tl) = .ok t := by
  have hsz : c.tag.size ≤ tl.length := by have := (valueStart_len hs).1; omega
  have hg : okOr (getTo tl c.tag.size) Err.mismatch = .ok (tl.take c.tag.size) := by simp [getTo, hsz, okOr]
  have hl : (tl.take c.tag.size).length = c.tag.size := by rw [List.length_take]; omega
  unfold tagOf
  simp only [hc, Res.ok_bind, tagStart_cons, hg]
  generalize tl.take c.tag.size = x at hl
  cases htag : c.tag <;> simp only [htag, TagType.size] at hl ⊢
  · exact ⟨_, rfl⟩
  · cases x with
    | nil => simp at hl
    | cons x r => exact ⟨_, rfl⟩
  all_goals first
    | (simp only [arr_np_of_len hl, Res.ok_bind]; exact ⟨_, rfl⟩)
    | (rw [if_pos (by omega)]; exact ⟨_, rfl⟩)

theorem containerValue_eq_value {e : Bytes} {c : Control} (h : c.vt.isContainer = false) :
    containerValue e c = value e c := by
  unfold containerValue containerValueLen value
  simp only [h, Bool.false_eq_true, if_false]

theorem ofSigned_toSigned (w : Width) (n : Nat) (h : n < 256 ^ w.bytes) :
    ofSigned w.bytes (toSigned w.bytes n) = n := by
  have hc := toSigned_cases w.bytes n
  cases w <;> simp only [Width.bytes, ofSigned] at h hc ⊢ <;>
    simp only [Nat.reduceMul, Nat.reduceSub, Nat.reducePow] at h hc ⊢ <;> omega

theorem badUtf8_of_not_utf8 {e : Bytes} {c : Control} (hc : control e = .ok c) (h : c.vt.isUtf8 = false) :
    badUtf8 e = false := by
  simp [badUtf8, utf8Of, hc, h]

theorem badUtf8_utf8 {e s : Bytes} {c : Control} (hc : control e = .ok c) (h : c.vt.isUtf8 = true)
    (hs : value e c = .ok s) : badUtf8 e = !validUtf8 s := by
  cases hv : validUtf8 s <;> simp [badUtf8, utf8Of, hc, h, hs, hv]

/-- `value()` of a non-container element and the bytes `TLV::bytes_iter` produces for it: exactly
what `to_tlv` writes (header, truncated 8-byte length, raw value) — unless the element is a UTF-8
string with an invalid payload, which `value()` refuses -/
theorem valueOf_leaf_any {e s : Bytes} {c : Control} {t : Tag}
    (hc : control e = .ok c) (hnc : c.vt.isContainer = false) (hs : containerValue e c = .ok s) :
    (badUtf8 e = true ∧ valueOf e = .err .mismatch) ∨
    (badUtf8 e = false ∧ ∃ v, valueOf e = .ok v ∧
      tlvBytes (t, v) = header t c.vt ++ ((leBytes 8 s.length).take c.vt.varSizeLen ++ s)) := by
  have hv : value e c = .ok s := by rw [← containerValue_eq_value hnc]; exact hs
  unfold valueOf
  simp only [hc, Res.ok_bind, hs]
  cases hvt : c.vt with
  | sint w =>
    have hl := containerValue_len_fixed (n := w.bytes) hnc (by simp [hvt, ValueType.fixedSize]) hs
    have hlt : leVal s < 256 ^ w.bytes := by have := leVal_lt s; rwa [hl] at this
    right
    simp only [arr_np_of_len hl, Res.ok_bind, Res.pure_eq]
    refine ⟨badUtf8_of_not_utf8 hc (by simp [hvt, ValueType.isUtf8]), _, rfl, ?_⟩
    · simp only [tlvBytes, TVal.vt, TVal.payload, Prim.vt, Prim.payload, ValueType.varSizeLen, List.take_zero,
        List.nil_append, ofSigned_toSigned w _ hlt, leBytes_leVal_len hl]
  | uint w =>
    have hl := containerValue_len_fixed (n := w.bytes) hnc (by simp [hvt, ValueType.fixedSize]) hs
    right
    simp only [arr_np_of_len hl, Res.ok_bind, Res.pure_eq]
    refine ⟨badUtf8_of_not_utf8 hc (by simp [hvt, ValueType.isUtf8]), _, rfl, ?_⟩
    · simp only [tlvBytes, TVal.vt, TVal.payload, Prim.vt, Prim.payload, ValueType.varSizeLen, List.take_zero,
        List.nil_append, leBytes_leVal_len hl]
  | f32 =>
    have hl := containerValue_len_fixed (n := 4) hnc (by simp [hvt, ValueType.fixedSize]) hs
    right
    simp only [arr_np_of_len hl, Res.ok_bind, Res.pure_eq]
    refine ⟨badUtf8_of_not_utf8 hc (by simp [hvt, ValueType.isUtf8]), _, rfl, ?_⟩
    · simp only [tlvBytes, TVal.vt, TVal.payload, Prim.vt, Prim.payload, ValueType.varSizeLen, List.take_zero,
        List.nil_append, leBytes_leVal_len hl]
  | f64 =>
    have hl := containerValue_len_fixed (n := 8) hnc (by simp [hvt, ValueType.fixedSize]) hs
    right
    simp only [arr_np_of_len hl, Res.ok_bind, Res.pure_eq]
    refine ⟨badUtf8_of_not_utf8 hc (by simp [hvt, ValueType.isUtf8]), _, rfl, ?_⟩
    · simp only [tlvBytes, TVal.vt, TVal.payload, Prim.vt, Prim.payload, ValueType.varSizeLen, List.take_zero,
        List.nil_append, leBytes_leVal_len hl]
  | bfalse =>
    have hl := containerValue_len_fixed (n := 0) hnc (by simp [hvt, ValueType.fixedSize]) hs
    have : s = [] := List.eq_nil_of_length_eq_zero hl
    subst this
    right
    exact ⟨badUtf8_of_not_utf8 hc (by simp [hvt, ValueType.isUtf8]), _, rfl, by
      simp [tlvBytes, TVal.vt, TVal.payload, Prim.vt, Prim.payload, ValueType.varSizeLen]⟩
  | btrue =>
    have hl := containerValue_len_fixed (n := 0) hnc (by simp [hvt, ValueType.fixedSize]) hs
    have : s = [] := List.eq_nil_of_length_eq_zero hl
    subst this
    right
    exact ⟨badUtf8_of_not_utf8 hc (by simp [hvt, ValueType.isUtf8]), _, rfl, by
      simp [tlvBytes, TVal.vt, TVal.payload, Prim.vt, Prim.payload, ValueType.varSizeLen]⟩
  | null =>
    have hl := containerValue_len_fixed (n := 0) hnc (by simp [hvt, ValueType.fixedSize]) hs
    have : s = [] := List.eq_nil_of_length_eq_zero hl
    subst this
    right
    exact ⟨badUtf8_of_not_utf8 hc (by simp [hvt, ValueType.isUtf8]), _, rfl, by
      simp [tlvBytes, TVal.vt, TVal.payload, Prim.vt, Prim.payload, ValueType.varSizeLen]⟩
  | str w =>
    right
    refine ⟨badUtf8_of_not_utf8 hc (by simp [hvt, ValueType.isUtf8]), _, rfl, ?_⟩
    obtain ⟨m, hm⟩ : ∃ m, 8 = w.bytes + m := ⟨8 - w.bytes, by cases w <;> simp [Width.bytes]⟩
    simp only [tlvBytes, TVal.vt, TVal.payload, Prim.vt, Prim.payload, ValueType.varSizeLen]
    rw [hm, leBytes_append_take]
  | utf8 w =>
    have hb := badUtf8_utf8 hc (by simp [hvt, ValueType.isUtf8]) hv
    cases hval : validUtf8 s with
    | false =>
      left
      simp only [hval, Bool.not_false] at hb
      exact ⟨hb, by simp⟩
    | true =>
      right
      simp only [hval, Bool.not_true] at hb
      simp only [if_true, Res.pure_eq]
      refine ⟨hb, _, rfl, ?_⟩
      obtain ⟨m, hm⟩ : ∃ m, 8 = w.bytes + m := ⟨8 - w.bytes, by cases w <;> simp [Width.bytes]⟩
      simp only [tlvBytes, TVal.vt, TVal.payload, Prim.vt, Prim.payload, ValueType.varSizeLen]
      rw [hm, leBytes_append_take]
  | cont k => simp [hvt, ValueType.isContainer, ValueType.isContainerStart] at hnc
  | endCnt => simp [hvt, ValueType.isContainer, ValueType.isContainerEnd] at hnc

/-- `to_tlv` once tag and value slice are known (`take 0 = []` covers the types without length field) -/
theorem reencode_known {b : UInt8} {tl s : Bytes} {c : Control} {t : Tag}
    (hc : control (b :: tl) = .ok c) (ht : tagOf (b :: tl) = .ok t) (hs : containerValue (b :: tl) c = .ok s) :
    reencode (b :: tl) = .ok (header t c.vt ++ ((leBytes 8 s.length).take c.vt.varSizeLen ++ s)) := by
  unfold reencode rawValue
  simp only [List.isEmpty_cons, Bool.false_eq_true, if_false, ht, hc, hs, Res.ok_bind]
  by_cases hv : c.vt.varSizeLen > 0
  · simp only [hv, if_true, Res.pure_eq, List.append_assoc]
  · have hv0 : c.vt.varSizeLen = 0 := by omega
    simp only [hv0, gt_iff_lt, Nat.lt_irrefl, if_false, Res.pure_eq, List.take_zero, List.nil_append]

/-- a non-container token inside a walk: `tag()` succeeds, `value()` succeeds unless it is a bad
UTF-8 string, and the TLV bytes are the token's own bytes -/
theorem token_leaf {P P' : Bytes} {c : Control} {e : Nat} (hu : P.length < I32LIM)
    (hc : control P = .ok c) (hnc : c.vt.isContainer = false) (hn : nextEnter P = .ok P')
    (he : elemLen P = .ok e) :
    P' = P.drop e ∧ e ≤ P.length ∧ ∃ t, tagOf P = .ok t ∧
      ((badUtf8 P = true ∧ valueOf P = .err .mismatch) ∨
       (badUtf8 P = false ∧ ∃ v, valueOf P = .ok v ∧ tlvBytes (t, v) = P.take e)) := by
  cases P with
  | nil => exact absurd rfl (control_ok_ne_nil hc)
  | cons b tl =>
    obtain ⟨n, s, hvl, hvs, hle, he', hP', hel, _⟩ := nextEnter_elemLen hc hn he
    obtain ⟨t, ht⟩ := tagOf_ok_of_valueStart hc hvs
    have hcv : containerValue (b :: tl) c = .ok (s.take n) := by
      rw [containerValue_eq_value hnc]; unfold value
      simp only [hvl, hvs, Res.ok_bind]
      simp [getTo, hle, okOr]
    have hre := reencode_known hc ht hcv
    obtain ⟨m, hcl, hout⟩ := reencode_take _ _ (by simp) hu hre
    have hm : m = e := by
      unfold containerLen containerValueLen at hcl
      simp only [hc, Res.ok_bind, hnc, Bool.false_eq_true, if_false, hvl] at hcl
      rcases Res.bind_eq_ok.mp hcl with ⟨len, h1, h2⟩
      obtain ⟨rfl, _⟩ := checkedAdd_eq_ok h1
      split at h2
      · simp at h2; omega
      · simp at h2
    rw [hm] at hout
    refine ⟨hP', hel, t, ht, ?_⟩
    rcases valueOf_leaf_any (t := t) hc hnc hcv with h | ⟨h1, v, h2, h3⟩
    · left; exact h
    · right; exact ⟨h1, v, h2, by rw [h3, ← hout]⟩

/-- a container-start token: its TLV is its header; `next_enter` goes to its content -/
theorem token_open {P P' : Bytes} {c : Control} {e : Nat}
    (hc : control P = .ok c) (hst : c.vt.isContainerStart = true) (hn : nextEnter P = .ok P')
    (he : elemLen P = .ok e) :
    P' = P.drop e ∧ e ≤ P.length ∧ badUtf8 P = false ∧ valueStart P c = .ok P' ∧
      ∃ t k, tagOf P = .ok t ∧ c.vt = .cont k ∧ tlvBytes (t, .cont k) = P.take e := by
  cases P with
  | nil => exact absurd rfl (control_ok_ne_nil hc)
  | cons b tl =>
    obtain ⟨k, hk⟩ := isContainerStart_eq hst
    obtain ⟨n, s, hvl, hvs, hle, he', hP', hel, hP's⟩ := nextEnter_elemLen hc hn he
    obtain ⟨t, ht⟩ := tagOf_ok_of_valueStart hc hvs
    have hn0 : n = 0 := by
      unfold valueLen at hvl; simp [hk, ValueType.fixedSize] at hvl; exact hvl.symm
    subst hn0
    simp only [List.drop_zero] at hP's
    subst hP's
    obtain ⟨htt, hsz, htb⟩ := tagOf_bytes hc ht
    have hraw : Control.raw ⟨t.type, .cont k⟩ = b := by
      have : (⟨t.type, .cont k⟩ : Control) = c := by rw [htt, ← hk]
      rw [this]; simp only [control] at hc; exact Control.raw_parse hc
    refine ⟨hP', hel, badUtf8_of_not_utf8 hc (by simp [hk, ValueType.isUtf8]), hvs, t, k, ht, hk, ?_⟩
    have hv0 : c.vt.varSizeLen = 0 := by simp [hk, ValueType.varSizeLen]
    have e1 : e = c.tag.size + 1 := by rw [he', hdrLen, hv0]; omega
    rw [e1, List.take_succ_cons]
    simp only [tlvBytes, TVal.vt, TVal.payload, header, hraw, htb, List.append_nil]

theorem valueOf_open {P s : Bytes} {c : Control} {k : Kind} {n' : Nat}
    (hc : control P = .ok c) (hk : c.vt = .cont k) (hvs : valueStart P c = .ok s)
    (hcv : cvlLoop (P.length + 1) P 0 1 = .ok n') (hle : n' ≤ s.length) : valueOf P = .ok (.cont k) := by
  have hcv' : containerValue P c = .ok (s.take n') := by
    unfold containerValue containerValueLen
    simp only [hk, ValueType.isContainer, ValueType.isContainerStart, Bool.true_or, if_true, hcv, Res.ok_bind, hvs]
    simp [getTo, hle, okOr]
  unfold valueOf
  simp only [hc, Res.ok_bind, hcv', hk, Res.pure_eq]

/-- a confirmed end marker is the byte `0x18` -/
theorem token_end {P : Bytes} {c : Control} (hc : control P = .ok c) (hend : c.vt.isContainerEnd = true)
    (hanon : c.tag = .anon) : ∃ tl, P = endByte :: tl := by
  cases P with
  | nil => exact absurd rfl (control_ok_ne_nil hc)
  | cons b tl =>
    simp only [control] at hc
    have hr := Control.raw_parse hc
    have hcc : c = ⟨.anon, .endCnt⟩ := by
      have := isContainerEnd_eq hend
      cases c; simp_all
    subst hcc
    exact ⟨tl, by rw [← hr]; rfl⟩

/-! ## one `next()` of the TLV iterator, case by case -/

theorem tlvIterNext_end0 (tl : Bytes) : tlvIterNext (endByte :: tl) 0 = (none, endByte :: tl, 0) := by
  simp [tlvIterNext, control_end, ValueType.isContainerEnd, Control.confirmContainerEnd, Control.isContainerEnd]

theorem tlvIterNext_endS (tl : Bytes) (n : Nat) :
    tlvIterNext (endByte :: tl) (n + 1) = (some (.ok (.anon, .endCnt)), tl, n) := by
  simp [tlvIterNext, control_end, ValueType.isContainerEnd, Control.confirmContainerEnd, Control.isContainerEnd,
    subUsize, nextEnter_end]

theorem tlvIterNext_tok {seq seq' : Bytes} {c : Control} {t : Tag} {v : TVal} {n n' : Nat}
    (hc : control seq = .ok c) (hend : c.vt.isContainerEnd = false) (ht : tagOf seq = .ok t)
    (hv : valueOf seq = .ok v) (hn : nextEnter seq = .ok seq')
    (hn' : (if c.vt.isContainerStart then addUsize n 1 else pure n) = .ok n') :
    tlvIterNext seq n = (some (.ok (t, v)), seq', n') := by
  have hne : seq.isEmpty = false := by
    cases seq with
    | nil => exact absurd rfl (control_ok_ne_nil hc)
    | cons _ _ => rfl
  unfold tlvIterNext
  simp only [hne, Bool.false_eq_true, if_false, hc, Res.ok_bind, hend, ht, hv, hn, Res.pure_eq]
  cases hst : c.vt.isContainerStart with
  | true =>
    simp only [hst, if_true] at hn' ⊢
    simp only [hn', Res.ok_bind]
  | false =>
    simp only [hst, Bool.false_eq_true, if_false, Res.pure_eq, Res.ok.injEq] at hn' ⊢
    subst hn'; rfl

theorem tlvIterNext_verr {seq : Bytes} {c : Control} {t : Tag} {e : Err} {n : Nat}
    (hc : control seq = .ok c) (hend : c.vt.isContainerEnd = false) (ht : tagOf seq = .ok t)
    (hv : valueOf seq = .err e) : tlvIterNext seq n = (some (.err e), [], 0) := by
  have hne : seq.isEmpty = false := by
    cases seq with
    | nil => exact absurd rfl (control_ok_ne_nil hc)
    | cons _ _ => rfl
  unfold tlvIterNext
  simp only [hne, Bool.false_eq_true, if_false, hc, Res.ok_bind, hend, ht, hv, Res.err_bind]

/-! ## the token walk: `tlv_iter` and `container_value_len` pass over the same bytes -/

theorem tlvConcat_cons_ok (x : Tag × TVal) (rest : List (Res (Tag × TVal))) :
    tlvConcat (.ok x :: rest) = (tlvConcat rest >>= fun tl => .ok (tlvBytes x ++ tl)) := rfl
theorem tlvConcat_cons_err (e : Err) (rest : List (Res (Tag × TVal))) :
    tlvConcat (.err e :: rest) = .err e := rfl

theorem tlvElementsF_succ (f : Nat) (seq : Bytes) (n : Nat) :
    tlvElementsF (f + 1) seq n = match tlvIterNext seq n with
      | (none, _, _) => []
      | (some r, seq', n') => r :: tlvElementsF f seq' n' := rfl

theorem tlvBytes_end : tlvBytes (.anon, .endCnt) = [endByte] := by decide

theorem badUtf8_end (tl : Bytes) : badUtf8 (endByte :: tl) = false :=
  badUtf8_of_not_utf8 (control_end tl) rfl

theorem tokensF_end0 (f : Nat) (tl : Bytes) : tokensF (f + 1) (endByte :: tl) 0 = [] := by
  simp only [tokensF, control_end, nextEnter_end, ValueType.isContainerEnd, if_true]

theorem tokensF_endS (f : Nat) (tl : Bytes) (n : Nat) :
    tokensF (f + 1) (endByte :: tl) (n + 1) = (endByte :: tl) :: tokensF f tl n := by
  simp only [tokensF, control_end, nextEnter_end, ValueType.isContainerEnd, if_true]

theorem tokensF_tok {f : Nat} {seq seq' : Bytes} {c : Control} {n : Nat}
    (hc : control seq = .ok c) (hend : c.vt.isContainerEnd = false) (hn : nextEnter seq = .ok seq') :
    tokensF (f + 1) seq n = seq :: tokensF f seq' (if c.vt.isContainerStart then n + 1 else n) := by
  simp only [tokensF, hc, hn, hend, Bool.false_eq_true, if_false]

/-- the induction step of `walk_main` for a token that is not an end marker -/
theorem walk_glue {f2 : Nat} {seq P : Bytes} {c : Control} {t : Tag} {e k' len total nesting n1 : Nat}
    (hc : control seq = .ok c) (hend : c.vt.isContainerEnd = false) (ht : tagOf seq = .ok t)
    (hP : nextEnter seq = .ok P) (hPd : P = seq.drop e) (hel : e ≤ seq.length)
    (hn1 : (if c.vt.isContainerStart then addUsize nesting 1 else pure nesting) = .ok n1)
    (hn1' : n1 = if c.vt.isContainerStart then nesting + 1 else nesting)
    (hval : (badUtf8 seq = true ∧ valueOf seq = .err .mismatch) ∨
            (badUtf8 seq = false ∧ ∃ v, valueOf seq = .ok v ∧ tlvBytes (t, v) = seq.take e))
    (ih : total = len + e + k' + 1 ∧ k' + 1 ≤ P.length ∧ P.take (k' + 1) = P.take k' ++ [endByte] ∧
      tlvConcat (tlvElementsF f2 P n1) =
        if (tokensF f2 P n1).all (fun e => !badUtf8 e) then .ok (P.take k') else .err .mismatch) :
    total = len + (e + k') + 1 ∧ (e + k') + 1 ≤ seq.length ∧
      seq.take ((e + k') + 1) = seq.take (e + k') ++ [endByte] ∧
      tlvConcat (tlvElementsF (f2 + 1) seq nesting) =
        if (tokensF (f2 + 1) seq nesting).all (fun e => !badUtf8 e) then .ok (seq.take (e + k'))
        else .err .mismatch := by
  obtain ⟨i1, i2, i3, i4⟩ := ih
  have hlen : P.length = seq.length - e := by rw [hPd, List.length_drop]
  refine ⟨by omega, by omega, ?_, ?_⟩
  · rw [Nat.add_assoc, List.take_add, List.take_add (i := e) (j := k'), ← hPd, i3, List.append_assoc]
  · rw [tokensF_tok hc hend hP, ← hn1', List.all_cons]
    rcases hval with ⟨hb, hv⟩ | ⟨hb, v, hv, hbytes⟩
    · rw [tlvElementsF_succ, tlvIterNext_verr hc hend ht hv]
      simp only [tlvConcat_cons_err, hb, Bool.not_true, Bool.false_and, Bool.false_eq_true, if_false]
    · rw [tlvElementsF_succ, tlvIterNext_tok hc hend ht hv hP hn1]
      simp only [tlvConcat_cons_ok, i4, hb, Bool.not_false, Bool.true_and]
      split
      · simp only [Res.ok_bind, hbytes, List.take_add, ← hPd]
      · rfl

theorem walk_main : ∀ (f2 f : Nat) (seq : Bytes) (len nesting total : Nat),
    seq.length < f2 → seq.length < I32LIM → cvlStep f seq len nesting = .ok total →
    ∃ k, total = len + k + 1 ∧ k + 1 ≤ seq.length ∧ seq.take (k + 1) = seq.take k ++ [endByte] ∧
      tlvConcat (tlvElementsF f2 seq nesting) =
        if (tokensF f2 seq nesting).all (fun e => !badUtf8 e) then .ok (seq.take k) else .err .mismatch := by
  intro f2
  induction f2 with
  | zero => intro f seq len nesting total h; omega
  | succ f2 ih =>
    intro f seq len nesting total hf2 hu h
    obtain ⟨e, c, lv, he, hlt, hc, hlv, h5⟩ := cvlStep_inv h
    have hne := control_ok_ne_nil hc
    rcases levelStep_inv hlv with ⟨hend, hanon, hlveq⟩ | ⟨hend, hst, hlveq, hn2⟩ | ⟨hend, hst, hlveq⟩ <;>
      rw [hlveq] at h5
    · -- an end marker
      obtain ⟨tl, rfl⟩ := token_end hc hend hanon
      have he1 : e = 1 := by rw [elemLen_end] at he; cases he; rfl
      subst he1
      cases nesting with
      | zero =>
        rw [cvlLoop_zero] at h5; cases h5
        refine ⟨0, by omega, by simp, by simp, ?_⟩
        rw [tlvElementsF_succ, tlvIterNext_end0, tokensF_end0]
        rfl
      | succ n =>
        obtain ⟨f', P, rfl, hP, hstep⟩ := cvlLoop_pos_inv h5
        rw [nextEnter_end] at hP; cases hP
        simp only [List.length_cons] at hf2 hu
        obtain ⟨k, hk1, hk2, hk3, hk4⟩ := ih f' tl (len + 1) n total (by omega) (by omega) hstep
        refine ⟨k + 1, by omega, by simp only [List.length_cons]; omega, ?_, ?_⟩
        · simp only [List.take_succ_cons, hk3, List.cons_append]
        · rw [tlvElementsF_succ, tlvIterNext_endS, tokensF_endS]
          simp only [tlvConcat_cons_ok, hk4, List.all_cons, badUtf8_end, Bool.not_false, Bool.true_and,
            tlvBytes_end, List.take_succ_cons]
          split
          · rfl
          · rfl
    · -- a container start
      obtain ⟨f', P, rfl, hP, hstep⟩ := cvlLoop_pos_inv h5
      obtain ⟨hPd, hel, hbad, hvs, t, k, ht, hk, hbytes⟩ := token_open hc hst hP he
      have hPlt := nextEnter_lt hne hP
      obtain ⟨k', hk1, hk2, hk3, hk4⟩ := ih f' P (len + e) (nesting + 1) total (by omega) (by omega) hstep
      -- `value()` of the nested container: its own walk is a sub-walk of ours
      have h5' : cvlLoop (f' + 1) seq (len + e) (1 + (nesting + 1)) = .ok total := by
        rw [show 1 + (nesting + 1) = nesting + 2 by omega]; exact h5
      obtain ⟨n', hn1, hn2'⟩ := cvlLoop_sub _ _ _ 0 _ _ _ h5' (Nat.zero_le _)
      have hfu := cvlLoop_fuel _ _ _ _ _ (seq.length + 1) hn1 (Nat.lt_succ_self _)
      have hv := valueOf_open hc hk hvs hfu (by omega)
      have hadd : (if c.vt.isContainerStart then addUsize nesting 1 else pure nesting) = Res.ok (nesting + 1) := by
        simp only [hst, if_true, addUsize]; rw [if_pos (by have hLU := i32lim_lt_usize; omega)]
      obtain ⟨g1, g2, g3, g4⟩ := walk_glue (f2 := f2) (len := len) hc hend ht hP hPd hel hadd
        (by simp only [hst, if_true]) (Or.inr ⟨hbad, _, hv, hbytes⟩) ⟨hk1, hk2, hk3, hk4⟩
      exact ⟨e + k', g1, g2, g3, g4⟩
    · -- a non-container token
      obtain ⟨f', P, rfl, hP, hstep⟩ := cvlLoop_pos_inv h5
      have hnc : c.vt.isContainer = false := by simp only [ValueType.isContainer, hst, hend, Bool.or_self]
      obtain ⟨hPd, hel, t, ht, hval⟩ := token_leaf hu hc hnc hP he
      have hPlt := nextEnter_lt hne hP
      obtain ⟨k', hk1, hk2, hk3, hk4⟩ := ih f' P (len + e) nesting total (by omega) (by omega) hstep
      have hadd : (if c.vt.isContainerStart then addUsize nesting 1 else pure nesting) = Res.ok nesting := by
        simp only [hst, Bool.false_eq_true, if_false, Res.pure_eq]
      obtain ⟨g1, g2, g3, g4⟩ := walk_glue (f2 := f2) (len := len) hc hend ht hP hPd hel hadd
        (by simp only [hst, Bool.false_eq_true, if_false]) hval ⟨hk1, hk2, hk3, hk4⟩
      exact ⟨e + k', g1, g2, g3, g4⟩

/-! ## the two re-encoders on arbitrary input -/

theorem reencode_inv {b : UInt8} {tl out : Bytes} (h : reencode (b :: tl) = .ok out) :
    ∃ t c s, tagOf (b :: tl) = .ok t ∧ control (b :: tl) = .ok c ∧ containerValue (b :: tl) c = .ok s ∧
      out = header t c.vt ++ ((leBytes 8 s.length).take c.vt.varSizeLen ++ s) := by
  have h0 := h
  unfold reencode at h
  simp only [List.isEmpty_cons, Bool.false_eq_true, if_false] at h
  rcases Res.bind_eq_ok.mp h with ⟨t, ht, h2⟩
  rcases Res.bind_eq_ok.mp h2 with ⟨c, hc, h3⟩
  rcases Res.bind_eq_ok.mp h3 with ⟨s, hp, _⟩
  unfold rawValue at hp
  simp only [hc, Res.ok_bind] at hp
  have := reencode_known hc ht hp
  rw [h0] at this
  exact ⟨t, c, s, ht, hc, hp, by injection this⟩

theorem elemLen_pos {P : Bytes} {e : Nat} (h : elemLen P = .ok e) : 1 ≤ e := by
  unfold elemLen at h
  rcases Res.bind_eq_ok.mp h with ⟨c, _, h2⟩
  rcases Res.bind_eq_ok.mp h2 with ⟨n, _, h3⟩
  obtain ⟨rfl, _⟩ := checkedAdd_eq_ok h3
  simp only [hdrLen]; omega

/-- the value slice of a container (start or end) element: `container_value_len` walked at least
one element, up to the end marker closing level 1 -/
theorem containerValue_container_inv {b : UInt8} {tl s : Bytes} {c : Control}
    (hic : c.vt.isContainer = true) (hp : containerValue (b :: tl) c = .ok s) :
    ∃ n s0 P, nextEnter (b :: tl) = .ok P ∧ cvlStep (b :: tl).length P 0 0 = .ok n ∧
      cvlLoop ((b :: tl).length + 1) (b :: tl) 0 1 = .ok n ∧
      valueStart (b :: tl) c = .ok s0 ∧ n ≤ s0.length ∧ s = s0.take n ∧ 1 ≤ n := by
  unfold containerValue containerValueLen at hp
  simp only [hic, if_true] at hp
  rcases Res.bind_eq_ok.mp hp with ⟨n, hn, hp2⟩
  rcases Res.bind_eq_ok.mp hp2 with ⟨s0, hs0, hp3⟩
  rcases getTo_some (okOr_eq_ok.mp hp3) with ⟨hle, rfl⟩
  obtain ⟨f', P, hf, hP, hstep⟩ := cvlLoop_pos_inv hn
  obtain rfl : f' = (b :: tl).length := by omega
  obtain ⟨e, c', lv, he, _, _, _, h5⟩ := cvlStep_inv hstep
  have := cvlLoop_ge _ _ _ _ _ h5
  have := elemLen_pos he
  exact ⟨n, s0, P, hP, hstep, hn, hs0, hle, rfl, by omega⟩

theorem nextEnter_cont {b : UInt8} {tl P : Bytes} {c : Control} {k : Kind}
    (hc : control (b :: tl) = .ok c) (hk : c.vt = .cont k) (hP : nextEnter (b :: tl) = .ok P) :
    valueStart (b :: tl) c = .ok P := by
  simp only [nextEnter, List.isEmpty_cons, Bool.false_eq_true, if_false, hc, Res.ok_bind, nextStart] at hP
  rcases Res.bind_eq_ok.mp hP with ⟨n, hvl, h2⟩
  rcases Res.bind_eq_ok.mp h2 with ⟨s, hvs, h3⟩
  rcases getFrom_some (okOr_eq_ok.mp h3) with ⟨_, rfl⟩
  have hn0 : n = 0 := by
    unfold valueLen at hvl; simp [hk, ValueType.fixedSize] at hvl; exact hvl.symm
  subst hn0
  simpa using hvs

theorem headIsEnd_eq {bs : Bytes} {c : Control} (hc : control bs = .ok c) :
    headIsEnd bs = c.vt.isContainerEnd := by
  simp only [headIsEnd, hc]

theorem containerOf_not_start {bs : Bytes} {c : Control} (hc : control bs = .ok c)
    (h : c.vt.isContainerStart = false) : containerOf bs = .err .mismatch := by
  simp only [containerOf, hc, Res.ok_bind, h, Bool.false_eq_true, if_false]

/-- **errors agree**: an error of `to_tlv` (from `tag()` or `raw_value()`) is the error of the
iterator-based re-encoding, which starts with the same two calls -/
theorem reencodeIter_of_reencode_err (bs : Bytes) (e : Err) (h : reencode bs = .err e) :
    reencodeIter bs = .err e := by
  cases bs with
  | nil => simp [reencode] at h
  | cons b tl =>
    unfold reencode at h
    unfold reencodeIter valueOf
    simp only [List.isEmpty_cons, Bool.false_eq_true, if_false, rawValue] at h ⊢
    cases ht : tagOf (b :: tl) with
    | err e' => simp only [ht, Res.err_bind] at h ⊢; exact h
    | panic p => simp [ht] at h
    | ok t =>
      simp only [ht, Res.ok_bind] at h ⊢
      cases hc : control (b :: tl) with
      | err e' => simp only [hc, Res.err_bind] at h ⊢; exact h
      | panic p => simp [hc] at h
      | ok c =>
        simp only [hc, Res.ok_bind] at h ⊢
        cases hs : containerValue (b :: tl) c with
        | err e' => simp only [hs, Res.err_bind] at h ⊢; exact h
        | panic p => simp [hs] at h
        | ok s =>
          simp only [hs, Res.ok_bind] at h
          split at h <;> simp at h

/-- **(T1)** the exact relation on arbitrary input whose head is not an end-of-container element:
whenever `to_tlv` succeeds, the iterator-based re-encoding gives the *same bytes* if no UTF-8 string
token inside has an invalid payload, and fails with `TLVTypeMismatch` otherwise -/
theorem reencodeIter_of_reencode (bs out : Bytes) (hu : bs.length < I32LIM)
    (h : reencode bs = .ok out) (hend : headIsEnd bs = false) :
    reencodeIter bs = if utf8Clean bs then .ok out else .err .mismatch := by
  cases bs with
  | nil =>
    have : out = [] := by simp [reencode] at h; exact h
    subst this; decide
  | cons b tl =>
    obtain ⟨t, c, s, ht, hc, hp, rfl⟩ := reencode_inv h
    rw [headIsEnd_eq hc] at hend
    cases hst : c.vt.isContainerStart with
    | true =>
      obtain ⟨k, hk⟩ := isContainerStart_eq hst
      have hic : c.vt.isContainer = true := by simp only [ValueType.isContainer, hst, Bool.true_or]
      obtain ⟨n, s0, P, hP, hstep, hcvl, hs0, hle, rfl, _⟩ := containerValue_container_inv hic hp
      have hvs := nextEnter_cont hc hk hP
      rw [hs0] at hvs; cases hvs
      have hPle := nextEnter_le hP
      obtain ⟨k', hk1, hk2, hk3, hk4⟩ := walk_main (s0.length + 1) _ s0 0 0 n (Nat.lt_succ_self _) (by omega) hstep
      have hv := valueOf_open hc hk hs0 hcvl hle
      have hcont : containerOf (b :: tl) = .ok s0 := by
        simp only [containerOf, hc, Res.ok_bind, hst, if_true, hP]
      have hn : n = k' + 1 := by omega
      subst hn
      have hclean : utf8Clean (b :: tl) = (tokensF (s0.length + 1) s0 0).all (fun e => !badUtf8 e) := by
        simp only [utf8Clean, tokens, hcont, List.all_cons,
          badUtf8_of_not_utf8 hc (show c.vt.isUtf8 = false by simp [hk, ValueType.isUtf8]), Bool.not_false,
          Bool.true_and]
      unfold reencodeIter
      simp only [List.isEmpty_cons, Bool.false_eq_true, if_false, ht, hv, Res.ok_bind, hcont, tlvElements, hk4,
        hclean]
      split
      · simp only [Res.ok_bind, Res.pure_eq, tlvBytes, TVal.vt, TVal.payload, hk, ValueType.varSizeLen,
          List.take_zero, List.nil_append, List.append_nil, hk3, List.append_assoc]
      · rfl
    | false =>
      have hnc : c.vt.isContainer = false := by simp only [ValueType.isContainer, hst, hend, Bool.or_self]
      have hcont := containerOf_not_start hc hst
      have hclean : utf8Clean (b :: tl) = !badUtf8 (b :: tl) := by
        simp only [utf8Clean, tokens, hcont, List.all_cons, List.all_nil, Bool.and_true]
      unfold reencodeIter
      simp only [List.isEmpty_cons, Bool.false_eq_true, if_false, ht, Res.ok_bind, hcont, hclean]
      rcases valueOf_leaf_any (t := t) hc hnc hp with ⟨hb, hv⟩ | ⟨hb, v, hv, hbytes⟩
      · simp only [hv, Res.err_bind, hb, Bool.not_true, Bool.false_eq_true, if_false]
      · simp only [hv, Res.ok_bind, hb, Bool.not_false, if_true, Res.pure_eq, hbytes]

/-- **end-of-container head**: here the two differ whenever `to_tlv` succeeds — the iterator-based
re-encoding emits only control byte and tag (`value()` is `EndCnt`, there is no `container()`), while
`to_tlv` appends the non-empty `raw_value()` (the bytes up to the next closing end marker) -/
theorem reencodeIter_of_reencode_end (bs out : Bytes) (h : reencode bs = .ok out) (hend : headIsEnd bs = true) :
    ∃ c payload, control bs = .ok c ∧ rawValue bs = .ok payload ∧ payload ≠ [] ∧
      reencodeIter bs = .ok (bs.take (hdrLen c)) ∧ out = bs.take (hdrLen c) ++ payload := by
  cases bs with
  | nil => simp [headIsEnd, control] at hend
  | cons b tl =>
    obtain ⟨t, c, s, ht, hc, hp, rfl⟩ := reencode_inv h
    rw [headIsEnd_eq hc] at hend
    have hvt := isContainerEnd_eq hend
    have hic : c.vt.isContainer = true := by simp only [ValueType.isContainer, hend, Bool.or_true]
    obtain ⟨n, s0, P, _, _, _, _, hle, rfl, hn1⟩ := containerValue_container_inv hic hp
    have hst : c.vt.isContainerStart = false := by rw [hvt]; rfl
    have hv : valueOf (b :: tl) = .ok .endCnt := by
      unfold valueOf; simp only [hc, Res.ok_bind, hp, hvt, Res.pure_eq]
    obtain ⟨htt, hsz, htb⟩ := tagOf_bytes hc ht
    have hraw : Control.raw ⟨t.type, .endCnt⟩ = b := by
      have : (⟨t.type, .endCnt⟩ : Control) = c := by rw [htt, ← hvt]
      rw [this]; simp only [control] at hc; exact Control.raw_parse hc
    have hhd : header t .endCnt = (b :: tl).take (hdrLen c) := by
      have e1 : hdrLen c = c.tag.size + 1 := by simp only [hdrLen, hvt, ValueType.varSizeLen]; omega
      rw [e1, List.take_succ_cons]; simp only [header, hraw, htb]
    refine ⟨c, s0.take n, hc, ?_, ?_, ?_, ?_⟩
    · unfold rawValue; simp only [hc, Res.ok_bind, hp]
    · intro h0
      have : (s0.take n).length = n := by rw [List.length_take]; omega
      rw [h0] at this; simp at this; omega
    · unfold reencodeIter
      simp only [List.isEmpty_cons, Bool.false_eq_true, if_false, ht, hv, Res.ok_bind,
        containerOf_not_start hc hst, Res.pure_eq, tlvBytes, TVal.vt, TVal.payload, List.append_nil, hhd]
    · simp only [hvt, ValueType.varSizeLen, List.take_zero, List.nil_append, hhd]

/-- **(T2a)** if the iterator-based re-encoding succeeds, `to_tlv` succeeds too (its `tag()` and
`raw_value()` are the first things `tlv_iter` evaluates) — no hypothesis at all -/
theorem reencode_of_reencodeIter (bs out : Bytes) (h : reencodeIter bs = .ok out) :
    ∃ out', reencode bs = .ok out' := by
  cases bs with
  | nil => exact ⟨[], rfl⟩
  | cons b tl =>
    unfold reencodeIter at h
    simp only [List.isEmpty_cons, Bool.false_eq_true, if_false] at h
    rcases Res.bind_eq_ok.mp h with ⟨t, ht, h2⟩
    rcases Res.bind_eq_ok.mp h2 with ⟨v, hv, _⟩
    unfold valueOf at hv
    rcases Res.bind_eq_ok.mp hv with ⟨c, hc, h3⟩
    rcases Res.bind_eq_ok.mp h3 with ⟨s, hs, _⟩
    exact ⟨_, reencode_known hc ht hs⟩

/-- **(T2)** the converse on arbitrary non-empty input whose head is not an end-of-container element:
a successful iterator-based re-encoding is exactly the first `container_len()` bytes of the input,
equals what `to_tlv` produces, and every UTF-8 token inside is valid -/
theorem reencodeIter_take (bs out : Bytes) (hne : bs ≠ []) (hu : bs.length < I32LIM)
    (h : reencodeIter bs = .ok out) (hend : headIsEnd bs = false) :
    utf8Clean bs = true ∧ reencode bs = .ok out ∧ ∃ n, containerLen bs = .ok n ∧ out = bs.take n := by
  obtain ⟨out', h'⟩ := reencode_of_reencodeIter bs out h
  have := reencodeIter_of_reencode bs out' hu h' hend
  rw [h] at this
  cases hcl : utf8Clean bs with
  | false => rw [hcl] at this; simp at this
  | true =>
    rw [hcl] at this
    simp only [if_true, Res.ok.injEq] at this
    subst this
    exact ⟨rfl, h', reencode_take bs out hne hu h'⟩

/-- both directions in one statement (head not an end-of-container element) -/
theorem reencodeIter_ok_iff (bs out : Bytes) (hu : bs.length < I32LIM) (hend : headIsEnd bs = false) :
    reencodeIter bs = .ok out ↔ (reencode bs = .ok out ∧ utf8Clean bs = true) := by
  constructor
  · intro h
    cases bs with
    | nil =>
      have : out = [] := by simp [reencodeIter] at h; exact h
      subst this; exact ⟨rfl, by decide⟩
    | cons b tl =>
      obtain ⟨h1, h2, _⟩ := reencodeIter_take _ out (by simp) hu h hend
      exact ⟨h2, h1⟩
  · rintro ⟨h1, h2⟩
    rw [reencodeIter_of_reencode bs out hu h1 hend, h2]; rfl

/-- **(T1, plain form)** -/
theorem reencodeIter_eq_reencode (bs out : Bytes) (hu : bs.length < I32LIM) (hend : headIsEnd bs = false)
    (hclean : utf8Clean bs = true) (h : reencode bs = .ok out) : reencodeIter bs = .ok out :=
  (reencodeIter_ok_iff bs out hu hend).mpr ⟨h, hclean⟩

/-- whenever both succeed on an element that is not an end marker they produce the same bytes -/
theorem reencode_reencodeIter_agree (bs out out' : Bytes) (hu : bs.length < I32LIM)
    (hend : headIsEnd bs = false) (h : reencode bs = .ok out) (h' : reencodeIter bs = .ok out') : out' = out := by
  have := ((reencodeIter_ok_iff bs out' hu hend).mp h').1
  rw [h] at this; injection this with e; exact e.symm

/-! ## the writer's output: `tlv_iter` yields exactly the flattened tokens of the written tree -/

mutual
/-- the TLV tokens of a written tree in document order: a leaf is one token, a container is its
start token, the tokens of its children and an anonymous `EndCnt` -/
def Value.toks : Value → List (Tag × TVal)
  | .leaf t p => [(t, .prim p)]
  | .cont t k cs => (t, .cont k) :: (cs.toks ++ [(.anon, .endCnt)])
def Values.toks : Values → List (Tag × TVal)
  | .nil => []
  | .cons v vs => v.toks ++ vs.toks
end

mutual
/-- `TLV::bytes_iter` over the tokens of a tree gives the writer's bytes -/
theorem Value.toks_bytes : ∀ v : Value, v.toks.flatMap tlvBytes = encode v
  | .leaf t p => by simp [Value.toks, tlvBytes, encode, TVal.vt, TVal.payload]
  | .cont t k cs => by
    simp only [Value.toks, List.flatMap_cons, List.flatMap_append, List.flatMap_nil, tlvBytes_end,
      Values.toks_bytes cs, encode, List.append_nil]
    simp only [tlvBytes, TVal.vt, TVal.payload, List.append_nil]
theorem Values.toks_bytes : ∀ vs : Values, vs.toks.flatMap tlvBytes = encodes vs
  | .nil => by simp [Values.toks, encodes]
  | .cons v vs => by simp [Values.toks, encodes, List.flatMap_append, Value.toks_bytes v, Values.toks_bytes vs]
end

theorem tlvConcat_oks (l : List (Tag × TVal)) (r : List (Res (Tag × TVal))) :
    tlvConcat (l.map .ok ++ r) = (tlvConcat r >>= fun tl => .ok (l.flatMap tlvBytes ++ tl)) := by
  induction l with
  | nil =>
    simp only [List.map_nil, List.nil_append, List.flatMap_nil]
    cases tlvConcat r <;> rfl
  | cons x l ih =>
    simp only [List.map_cons, List.cons_append, tlvConcat_cons_ok, ih, List.flatMap_cons]
    cases h : tlvConcat r <;> simp

theorem tlvIterNext_leaf (t : Tag) (p : Prim) (more : Bytes) (n : Nat) (ht : t.wf) (hp : p.wf) :
    tlvIterNext (encode (.leaf t p) ++ more) n = (some (.ok (t, .prim p)), more, n) := by
  have h := Prim.not_container p
  simp only [ValueType.isContainer, Bool.or_eq_false_iff] at h
  apply tlvIterNext_tok (c := ⟨t.type, p.vt⟩) (control_leafE t p more) h.2
  · rw [encode_leaf_append]; exact tagOf_header t _ _ ht
  · rw [encode_leaf_append]; exact valueOf_leaf t p more hp
  · rw [encode_leaf_append]; exact nextEnter_leaf t p more hp
  · simp only [h.1, Bool.false_eq_true, if_false, Res.pure_eq]

theorem tlvIterNext_open (t : Tag) (k : Kind) (cs : Values) (more : Bytes) (n : Nat) (ht : t.wf) (hw : cs.wf)
    (hl : (encodes cs).length + 1 < I32LIM) (hn : n + 1 < USIZE) :
    tlvIterNext (encode (.cont t k cs) ++ more) n =
      (some (.ok (t, .cont k)), encodes cs ++ endByte :: more, n + 1) := by
  have hd : cs.depth + 1 < I32LIM := by
    have := Values.depth_le_ntoks cs; have := Values.ntoks_le cs; omega
  apply tlvIterNext_tok (c := ⟨t.type, .cont k⟩)
  · rw [encode_cont_append, control_header]
  · rfl
  · rw [encode_cont_append]; exact tagOf_header t _ _ ht
  · exact valueOf_cont t k cs more hw hl hd
  · rw [encode_cont_append]; exact nextEnter_open t k _
  · simp only [ValueType.isContainerStart, if_true, addUsize]; rw [if_pos hn]

mutual
theorem tlvElementsF_value (v : Value) (f : Nat) (more : Bytes) (n : Nat) (hw : v.wf)
    (hl : (encode v).length + 1 < I32LIM) (hn : n + v.depth < USIZE) :
    tlvElementsF (f + v.ntoks) (encode v ++ more) n = v.toks.map .ok ++ tlvElementsF f more n := by
  cases v with
  | leaf t p =>
    simp only [Value.ntoks, tlvElementsF_succ, tlvIterNext_leaf t p more n hw.1 hw.2, Value.toks, List.map_cons,
      List.map_nil, List.cons_append, List.nil_append]
  | cont t k cs =>
    simp only [Value.depth] at hn
    simp only [Value.wf] at hw
    have hlen : (encode (.cont t k cs)).length = (header t (.cont k)).length + (encodes cs).length + 1 := by
      simp [encode]; omega
    have e : f + (Value.cont t k cs).ntoks = (f + 1 + cs.ntoks) + 1 := by simp [Value.ntoks]; omega
    rw [e, tlvElementsF_succ, tlvIterNext_open t k cs more n hw.1 hw.2 (by omega) (by omega)]
    simp only
    rw [tlvElementsF_values cs (f + 1) (endByte :: more) (n + 1) hw.2 (by omega) (by omega)]
    rw [tlvElementsF_succ, tlvIterNext_endS]
    simp only [Value.toks, List.map_cons, List.map_append, List.map_nil, List.cons_append, List.append_assoc,
      List.nil_append]
theorem tlvElementsF_values (vs : Values) (f : Nat) (more : Bytes) (n : Nat) (hw : vs.wf)
    (hl : (encodes vs).length + 1 < I32LIM) (hn : n + vs.depth < USIZE) :
    tlvElementsF (f + vs.ntoks) (encodes vs ++ more) n = vs.toks.map .ok ++ tlvElementsF f more n := by
  cases vs with
  | nil => simp [Values.ntoks, encodes, Values.toks]
  | cons v vs =>
    simp only [Values.depth] at hn
    simp only [Values.wf] at hw
    have hlen : (encodes (.cons v vs)).length = (encode v).length + (encodes vs).length := by simp [encodes]
    rw [encodes_cons_append]
    have e : f + (Values.cons v vs).ntoks = (f + vs.ntoks) + v.ntoks := by simp [Values.ntoks]; omega
    rw [e, tlvElementsF_value v _ _ n hw.1 (by omega) (by omega)]
    rw [tlvElementsF_values vs f more n hw.2 (by omega) (by omega)]
    simp only [Values.toks, List.map_append, List.append_assoc]
end

/-- `seq.tlv_iter()` over the content of a written container yields exactly the flattened TLV tokens
of its children — nested end markers included — and stops at the closing end marker -/
theorem tlvElements_encodes (cs : Values) (rest : Bytes) (hw : cs.wf) (hl : (encodes cs).length + 1 < I32LIM) :
    tlvElements (encodes cs ++ endByte :: rest) = cs.toks.map .ok := by
  unfold tlvElements
  have h2 := Values.ntoks_le cs
  have h3 := Values.depth_le_ntoks cs
  obtain ⟨f, hf⟩ : ∃ f, (encodes cs ++ endByte :: rest).length + 1 = (f + 1) + cs.ntoks :=
    ⟨(encodes cs ++ endByte :: rest).length - cs.ntoks, by simp; omega⟩
  rw [hf, tlvElementsF_values cs (f + 1) (endByte :: rest) 0 hw hl (by have hLU := i32lim_lt_usize; omega)]
  rw [tlvElementsF_succ, tlvIterNext_end0]
  simp

theorem reencode_known2 {bs s : Bytes} {c : Control} {t : Tag}
    (hc : control bs = .ok c) (ht : tagOf bs = .ok t) (hs : containerValue bs c = .ok s) :
    reencode bs = .ok (header t c.vt ++ ((leBytes 8 s.length).take c.vt.varSizeLen ++ s)) := by
  cases bs with
  | nil => exact absurd rfl (control_ok_ne_nil hc)
  | cons b tl => exact reencode_known hc ht hs

theorem Prim.lenField_eq (p : Prim) : (leBytes 8 p.data.length).take p.vt.varSizeLen = p.lenField := by
  cases p with
  | utf8 w b =>
    obtain ⟨m, hm⟩ : ∃ m, 8 = w.bytes + m := ⟨8 - w.bytes, by cases w <;> simp [Width.bytes]⟩
    simp only [Prim.vt, ValueType.varSizeLen, Prim.lenField, Prim.data]
    rw [hm, leBytes_append_take]
  | str w b =>
    obtain ⟨m, hm⟩ : ∃ m, 8 = w.bytes + m := ⟨8 - w.bytes, by cases w <;> simp [Width.bytes]⟩
    simp only [Prim.vt, ValueType.varSizeLen, Prim.lenField, Prim.data]
    rw [hm, leBytes_append_take]
  | bool b => cases b <;> rfl
  | _ => simp [Prim.vt, ValueType.varSizeLen, Prim.lenField]

theorem containerValue_cont (t : Tag) (k : Kind) (cs : Values) (more : Bytes) (hw : cs.wf)
    (hl : (encodes cs).length + 1 < I32LIM) :
    containerValue (encode (.cont t k cs) ++ more) ⟨t.type, .cont k⟩ = .ok (encodes cs ++ [endByte]) := by
  have hd : cs.depth + 1 < I32LIM := by
    have := Values.depth_le_ntoks cs; have := Values.ntoks_le cs; omega
  have h1 := containerValueLen_cont t k cs more hw hl hd
  unfold containerValue
  rw [encode_cont_append] at h1 ⊢
  simp only [Res.ok_bind, h1, valueStart, valueLenStart_header, ValueType.varSizeLen]
  have : getFrom (encodes cs ++ endByte :: more) 0 = some (encodes cs ++ endByte :: more) := by simp [getFrom]
  simp only [this, okOr, Res.ok_bind]
  have : getTo (encodes cs ++ endByte :: more) ((encodes cs).length + 1) = some (encodes cs ++ [endByte]) := by
    have := getTo_append_left (encodes cs ++ [endByte]) more
    simpa using this
  simp only [this]

/-- **(T3)** on the writer's output, followed by anything, `to_tlv` reproduces the written bytes … -/
theorem reencode_encode (v : Value) (rest : Bytes) (hw : v.wf) (hl : (encode v).length + 1 < I32LIM) :
    reencode (encode v ++ rest) = .ok (encode v) := by
  cases v with
  | leaf t p =>
    have hc := control_leafE t p rest
    have ht : tagOf (encode (.leaf t p) ++ rest) = .ok t := by
      rw [encode_leaf_append]; exact tagOf_header t _ _ hw.1
    have hs : containerValue (encode (.leaf t p) ++ rest) ⟨t.type, p.vt⟩ = .ok p.data := by
      rw [encode_leaf_append]; exact containerValue_leaf t p rest hw.2
    rw [reencode_known2 hc ht hs]
    simp only [Prim.lenField_eq, encode, Prim.payload_eq]
  | cont t k cs =>
    simp only [Value.wf] at hw
    have hlen : (encode (.cont t k cs)).length = (header t (.cont k)).length + (encodes cs).length + 1 := by
      simp [encode]; omega
    have hc : control (encode (.cont t k cs) ++ rest) = .ok ⟨t.type, .cont k⟩ := by
      rw [encode_cont_append, control_header]
    have ht : tagOf (encode (.cont t k cs) ++ rest) = .ok t := by
      rw [encode_cont_append]; exact tagOf_header t _ _ hw.1
    rw [reencode_known2 hc ht (containerValue_cont t k cs rest hw.2 (by omega))]
    simp only [ValueType.varSizeLen, List.take_zero, List.nil_append, encode]

/-- … and so does the iterator-based re-encoding -/
theorem reencodeIter_encode (v : Value) (rest : Bytes) (hw : v.wf) (hl : (encode v).length + 1 < I32LIM) :
    reencodeIter (encode v ++ rest) = .ok (encode v) := by
  unfold reencodeIter
  simp only [encode_ne_nil, Bool.false_eq_true, if_false]
  cases v with
  | leaf t p =>
    have ht : tagOf (encode (.leaf t p) ++ rest) = .ok t := by
      rw [encode_leaf_append]; exact tagOf_header t _ _ hw.1
    have hv : valueOf (encode (.leaf t p) ++ rest) = .ok (.prim p) := by
      rw [encode_leaf_append]; exact valueOf_leaf t p rest hw.2
    have h := Prim.not_container p
    simp only [ValueType.isContainer, Bool.or_eq_false_iff] at h
    simp only [ht, hv, Res.ok_bind, containerOf_not_start (control_leafE t p rest) h.1, Res.pure_eq, tlvBytes,
      TVal.vt, TVal.payload]
    simp only [encode]
  | cont t k cs =>
    simp only [Value.wf] at hw
    have hlen : (encode (.cont t k cs)).length = (header t (.cont k)).length + (encodes cs).length + 1 := by
      simp [encode]; omega
    have hd : cs.depth + 1 < I32LIM := by
      have := Values.depth_le_ntoks cs; have := Values.ntoks_le cs; omega
    have ht : tagOf (encode (.cont t k cs) ++ rest) = .ok t := by
      rw [encode_cont_append]; exact tagOf_header t _ _ hw.1
    have hcat : tlvConcat (cs.toks.map .ok) = .ok (encodes cs) := by
      have := tlvConcat_oks cs.toks []
      simpa [tlvConcat, Values.toks_bytes] using this
    simp only [ht, valueOf_cont t k cs rest hw.2 (by omega) hd, Res.ok_bind, containerOf_cont,
      tlvElements_encodes cs rest hw.2 (by omega), hcat, Res.pure_eq, tlvBytes, TVal.vt, TVal.payload,
      List.append_nil]
    simp only [encode, List.append_assoc]

theorem headIsEnd_encode (v : Value) (rest : Bytes) : headIsEnd (encode v ++ rest) = false := by
  obtain ⟨c, hc, hend⟩ := control_encode v rest
  rw [headIsEnd_eq hc, hend]

/-- every UTF-8 token of a written tree is valid (`Prim.wf` demands it of the writer's caller) -/
theorem utf8Clean_encode (v : Value) (rest : Bytes) (hw : v.wf) (hl : (encode v).length + 1 < I32LIM)
    (hu : (encode v ++ rest).length < I32LIM) : utf8Clean (encode v ++ rest) = true :=
  (reencodeIter_take _ _ (by have := encode_ne_nil v rest; intro h; rw [h] at this; simp at this) hu
    (reencodeIter_encode v rest hw hl) (headIsEnd_encode v rest)).1

/-! ## the complete relation in one equation -/

/-- what `reencodeIter` returns, as a function of what `reencode` returns -/
def reencodeIterSpec (bs : Bytes) : Res Bytes :=
  match reencode bs with
  | .ok out =>
    if headIsEnd bs then
      .ok (bs.take (match control bs with
                    | .ok c => hdrLen c
                    | _ => 0))
    else if utf8Clean bs then .ok out else .err .mismatch
  | .err e => .err e
  | .panic p => .panic p

theorem reencodeIter_eq_spec (bs : Bytes) (hu : bs.length < I32LIM) : reencodeIter bs = reencodeIterSpec bs := by
  cases h : reencode bs with
  | panic p => exact absurd h (reencode_np bs hu p)
  | err e => simp only [reencodeIterSpec, h]; exact reencodeIter_of_reencode_err bs e h
  | ok out =>
    cases hend : headIsEnd bs with
    | true =>
      obtain ⟨c, payload, hc, _, _, hit, _⟩ := reencodeIter_of_reencode_end bs out h hend
      simp only [reencodeIterSpec, h, hend, if_true, hc, hit]
    | false =>
      simp only [reencodeIterSpec, h, hend, Bool.false_eq_true, if_false]
      exact reencodeIter_of_reencode bs out hu h hend

/-! ## each side condition is necessary (tests by evaluation) -/

/-- the unconditional statement "whenever `to_tlv` succeeds the iterator-based re-encoding succeeds
with the same bytes" is false … -/
theorem reencodeIter_eq_reencode_unconditional_false :
    ¬ ∀ bs out : Bytes, bs.length < I32LIM → reencode bs = .ok out → reencodeIter bs = .ok out := by
  intro h
  have := h [0x0c, 0x01, 0x80] [0x0c, 0x01, 0x80] (by decide) (by decide)
  revert this; decide

-- … because of an invalid UTF-8 string at the head (`Utf8l`, length 1, payload `0x80`) …
example : reencode [0x0c, 0x01, 0x80] = .ok [0x0c, 0x01, 0x80] ∧ reencodeIter [0x0c, 0x01, 0x80] = .err .mismatch ∧
    headIsEnd [0x0c, 0x01, 0x80] = false ∧ utf8Clean [0x0c, 0x01, 0x80] = false := by decide
-- … or anywhere inside (here two levels down: struct { list(ctx 1) { utf8 } }) …
example : reencode [0x15, 0x37, 0x01, 0x0c, 0x01, 0x80, 0x18, 0x18] = .ok [0x15, 0x37, 0x01, 0x0c, 0x01, 0x80, 0x18, 0x18] ∧
    reencodeIter [0x15, 0x37, 0x01, 0x0c, 0x01, 0x80, 0x18, 0x18] = .err .mismatch ∧
    headIsEnd [0x15, 0x37, 0x01, 0x0c, 0x01, 0x80, 0x18, 0x18] = false ∧
    utf8Clean [0x15, 0x37, 0x01, 0x0c, 0x01, 0x80, 0x18, 0x18] = false := by decide
-- … but not behind the end marker that closes the element: `utf8Clean` looks at the element only
example : reencode [0x15, 0x18, 0x0c, 0x01, 0x80] = .ok [0x15, 0x18] ∧
    reencodeIter [0x15, 0x18, 0x0c, 0x01, 0x80] = .ok [0x15, 0x18] ∧
    utf8Clean [0x15, 0x18, 0x0c, 0x01, 0x80] = true := by decide
-- … and because of an end-of-container element at the head: both succeed, with different bytes
-- (`utf8Clean` holds, so `headIsEnd = false` cannot be dropped from T1, T2 or the agreement lemma)
example : reencode [0x18, 0x18] = .ok [0x18, 0x18] ∧ reencodeIter [0x18, 0x18] = .ok [0x18] ∧
    headIsEnd [0x18, 0x18] = true ∧ utf8Clean [0x18, 0x18] = true ∧ containerLen [0x18, 0x18] = .ok 2 := by decide
example : reencode [0x38, 0x01, 0x18] = .ok [0x38, 0x01, 0x18] ∧ reencodeIter [0x38, 0x01, 0x18] = .ok [0x38, 0x01] := by
  decide
-- a nested end marker with a tag is refused by both with the same error
example : reencode [0x15, 0x38, 0x01, 0x18] = .err .invalidData ∧
    reencodeIter [0x15, 0x38, 0x01, 0x18] = .err .invalidData := by decide
-- a container that is not closed is refused by both (`value()` of the head walks it, too)
example : reencode [0x15, 0x24, 0x01, 0x05] = .err .mismatch ∧ reencodeIter [0x15, 0x24, 0x01, 0x05] = .err .mismatch := by
  decide
-- nested end markers are yielded as anonymous `EndCnt` tokens
example : tlvElements [0x36, 0x01, 0x24, 0x02, 0x05, 0x18, 0x18, 0xff] =
    [.ok (.ctx 1, .cont .array), .ok (.ctx 2, .prim (.uint .w1 5)), .ok (.anon, .endCnt)] ∧
    tokensF 9 [0x36, 0x01, 0x24, 0x02, 0x05, 0x18, 0x18, 0xff] 0 =
      [[0x36, 0x01, 0x24, 0x02, 0x05, 0x18, 0x18, 0xff], [0x24, 0x02, 0x05, 0x18, 0x18, 0xff], [0x18, 0x18, 0xff]] := by
  decide


/-! ## `container_value_len` of a container lies within the input by itself -/

/-- for a container element the value length computed by the `container_value_len` walk lies within
the input on its own — the final bounds check of `container_len` is what catches over-long *strings* -/
theorem containerValueLen_within (bs : Bytes) (c : Control) (n : Nat) (hu : bs.length < I32LIM)
    (hc : control bs = .ok c) (hic : c.vt.isContainer = true) (h : containerValueLen bs c = .ok n) :
    hdrLen c + n ≤ bs.length := by
  cases bs with
  | nil => simp [control] at hc
  | cons b tl =>
    unfold containerValueLen at h
    simp only [hic, if_true] at h
    obtain ⟨f', P, _, hP, hstep⟩ := cvlLoop_pos_inv h
    have hPle := nextEnter_le hP
    obtain ⟨k, hk1, hk2, _, _⟩ := walk_main (P.length + 1) f' P 0 0 n (Nat.lt_succ_self _) (by omega) hstep
    have hvl : valueLen (b :: tl) c = .ok 0 := by
      unfold valueLen
      cases hv : c.vt <;> simp [hv, ValueType.isContainer, ValueType.isContainerStart, ValueType.isContainerEnd,
        ValueType.fixedSize] at hic ⊢
    have he : elemLen (b :: tl) = .ok (hdrLen c) := by
      simp only [elemLen, hc, Res.ok_bind, hvl]
      have h1 : c.tag.size ≤ 8 := by cases c.tag <;> simp [TagType.size]
      have h2 : c.vt.varSizeLen ≤ 8 := by
        cases c.vt <;> simp only [ValueType.varSizeLen, Nat.zero_le] <;> rename_i w <;> cases w <;> simp [Width.bytes]
      exact checkedAdd_ok (by simp only [hdrLen, USIZE]; omega)
    obtain ⟨n', s, _, _, _, he', hPd, hle, _⟩ := nextEnter_elemLen hc hP he
    have : P.length = (b :: tl).length - hdrLen c := by rw [hPd]; simp
    omega

end Tlv
