#!/usr/bin/env python3
"""Rewrites the region between the markers <!-- STATUS:BEGIN --> and <!-- STATUS:END --> of DESIGN.md
from props/*.json, evidence/*.json and known_findings.jsonl, so that the per-property status in the
design document cannot go stale."""
import json, os, re
ROOT = os.path.dirname(os.path.dirname(os.path.abspath(__file__)))
props = {fn[:-5]: json.load(open(os.path.join(ROOT, "props", fn))) for fn in sorted(os.listdir(os.path.join(ROOT, "props"))) if fn.endswith(".json")}
titles = {json.loads(l)["id"]: json.loads(l)["title"] for l in open(os.path.join(ROOT, "properties.jsonl")) if l.strip()}
kf = [json.loads(l) for l in open(os.path.join(ROOT, "known_findings.jsonl")) if l.strip()]
out = []
for pid in sorted(props):
    p = props[pid]
    ev = {}
    try:
        ev = json.load(open(os.path.join(ROOT, "evidence", pid + ".json")))
    except Exception:
        pass
    cov = ev.get("coverage", {})
    out.append(f"#### {pid} — {titles.get(pid, '')}")
    out.append("")
    out.append(f"*Lean modules:* {', '.join('`'+m+'`' for m in p.get('lean_modules', []))}; "
               f"*theorems audited in the last committed run:* {cov.get('discharged', '?')}/{cov.get('obligations', '?')}; "
               f"*cases:* {cov.get('evaluations', '?')} ({cov.get('distinct_nontrivial', '?')} distinct non-trivial); write-up: `docs/{pid}.md`.")
    out.append("")
    out.append("*Claim.* " + p.get("level_text", "").strip())
    out.append("")
    if p.get("assumptions"):
        out.append("*Assumptions / partial.*")
        for a in p["assumptions"]:
            out.append(f"- {a}")
        out.append("")
    out.append("*Trusted.* " + p.get("level_note", "").strip())
    out.append("")
    mine = [k for k in kf if k.get("property") == pid]
    if mine:
        fixed = [k for k in mine if k.get("status") == "fixed"]
        opened = [k for k in mine if k.get("status") == "open"]
        if fixed:
            out.append("*Defects found and repaired:* " + "; ".join(f"`{k['id']}` ({k.get('commit','')})" for k in fixed) + ".")
        if opened:
            out.append("")
            out.append("*Open findings:* " + "; ".join(f"`{k['id']}`" for k in opened) + " (details in `known_findings.jsonl` and the write-up).")
        out.append("")
text = "\n".join(out)
p = os.path.join(ROOT, "DESIGN.md")
s = open(p).read()
b, e = "<!-- STATUS:BEGIN -->", "<!-- STATUS:END -->"
if b in s and e in s:
    s = s[: s.index(b) + len(b)] + "\n" + text + "\n" + s[s.index(e):]
else:
    s += "\n\n### 9.7 Per-property status (generated from props/*.json, evidence/*.json, known_findings.jsonl by tools/gen_design_status.py)\n\n" + b + "\n" + text + "\n" + e + "\n"
open(p, "w").write(s)
print("status section written:", len(out), "lines")
