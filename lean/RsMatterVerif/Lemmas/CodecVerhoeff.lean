import RsMatterVerif.Model.Codec.Verhoeff
/-! # Lemmas about the Verhoeff check digit (`Model/Codec/Verhoeff.lean`)
Finite facts about the complete `D` / `P` / `INV` tables are checked by `decide +kernel`
(all 10×10, 8×10, 10×10×10 entries) and lifted to strings of every length by induction. -/
namespace Codec.Verhoeff

def R10 : List Nat := List.range 10
def R8 : List Nat := List.range 8

theorem tab_closed : R10.all (fun c => R10.all fun x => d c x < 10) = true := by decide +kernel
theorem tab_p_closed : R8.all (fun i => R10.all fun x => p i x < 10) = true := by decide +kernel
theorem tab_left_cancel : R10.all (fun c => R10.all fun u => R10.all fun u' => d c u != d c u' || u == u') = true := by
  decide +kernel
theorem tab_right_cancel : R10.all (fun c => R10.all fun c' => R10.all fun u => d c u != d c' u || c == c') = true := by
  decide +kernel
theorem tab_p_inj : R8.all (fun i => R10.all fun x => R10.all fun x' => p i x != p i x' || x == x') = true := by
  decide +kernel
theorem tab_assoc : R10.all (fun a => R10.all fun b => R10.all fun c => d (d a b) c == d a (d b c)) = true := by
  decide +kernel
theorem tab_ident : R10.all (fun x => d 0 x == x && p 0 x == x && d x 0 == x) = true := by decide +kernel
theorem tab_inv : R10.all (fun c => inv c < 10 && d (inv c) c == 0) = true := by decide +kernel
/-- all adjacent transpositions are detected: σ_{i+1}(a)·σ_i(b) ≠ σ_{i+1}(b)·σ_i(a) inside any product -/
theorem tab_transpose : R8.all (fun i => R10.all fun c => R10.all fun a => R10.all fun b =>
    a == b || d (d c (p i a)) (p (i + 1) b) != d (d c (p i b)) (p (i + 1) a)) = true := by decide +kernel

private theorem r10 {x : Nat} (h : x < 10) : x ∈ R10 := List.mem_range.mpr h
private theorem r8 {x : Nat} (h : x < 8) : x ∈ R8 := List.mem_range.mpr h

theorem d_lt {c x : Nat} (hc : c < 10) (hx : x < 10) : d c x < 10 := by
  have := List.all_eq_true.mp (List.all_eq_true.mp tab_closed c (r10 hc)) x (r10 hx)
  simpa using this

theorem p_lt (i : Nat) {x : Nat} (hx : x < 10) : p i x < 10 := by
  have h8 : i % 8 < 8 := Nat.mod_lt _ (by omega)
  have := List.all_eq_true.mp (List.all_eq_true.mp tab_p_closed (i % 8) (r8 h8)) x (r10 hx)
  have e : p (i % 8) x = p i x := by simp [p]
  rw [e] at this; simpa using this

theorem d_left_cancel {c u u' : Nat} (hc : c < 10) (hu : u < 10) (hu' : u' < 10) (h : d c u = d c u') : u = u' := by
  have := List.all_eq_true.mp (List.all_eq_true.mp (List.all_eq_true.mp tab_left_cancel c (r10 hc)) u (r10 hu)) u' (r10 hu')
  simp [h] at this; exact this

theorem d_right_cancel {c c' u : Nat} (hc : c < 10) (hc' : c' < 10) (hu : u < 10) (h : d c u = d c' u) : c = c' := by
  have := List.all_eq_true.mp (List.all_eq_true.mp (List.all_eq_true.mp tab_right_cancel c (r10 hc)) c' (r10 hc')) u (r10 hu)
  simp [h] at this; exact this

theorem p_inj (i : Nat) {x x' : Nat} (hx : x < 10) (hx' : x' < 10) (h : p i x = p i x') : x = x' := by
  have h8 : i % 8 < 8 := Nat.mod_lt _ (by omega)
  have := List.all_eq_true.mp (List.all_eq_true.mp (List.all_eq_true.mp tab_p_inj (i % 8) (r8 h8)) x (r10 hx)) x' (r10 hx')
  have e : ∀ y, p (i % 8) y = p i y := by intro y; simp [p]
  rw [e, e] at this; simp [h] at this; exact this

theorem d_assoc {a b c : Nat} (ha : a < 10) (hb : b < 10) (hc : c < 10) : d (d a b) c = d a (d b c) := by
  have := List.all_eq_true.mp (List.all_eq_true.mp (List.all_eq_true.mp tab_assoc a (r10 ha)) b (r10 hb)) c (r10 hc)
  simpa using this

theorem d_zero {x : Nat} (hx : x < 10) : d 0 x = x := by
  have := List.all_eq_true.mp tab_ident x (r10 hx); simp at this; exact this.1.1

theorem p_zero {x : Nat} (hx : x < 10) : p 0 x = x := by
  have := List.all_eq_true.mp tab_ident x (r10 hx); simp at this; exact this.1.2

theorem d_zero_right {x : Nat} (hx : x < 10) : d x 0 = x := by
  have := List.all_eq_true.mp tab_ident x (r10 hx); simp at this; exact this.2

theorem inv_spec {c : Nat} (hc : c < 10) : inv c < 10 ∧ d (inv c) c = 0 := by
  have := List.all_eq_true.mp tab_inv c (r10 hc); simpa using this

theorem isDigit_iff (b : Nat) : isDigit b = true ↔ 48 ≤ b ∧ b ≤ 57 := by simp [isDigit]

/-- the fold over a string of digits is defined and stays inside the group -/
theorem fold_digits : ∀ (l : List Nat) (i c : Nat), (∀ b ∈ l, isDigit b = true) → c < 10 →
    ∃ r, fold l i c = some r ∧ r < 10
  | [], _, c, _, hc => ⟨c, rfl, hc⟩
  | b :: l, i, c, h, hc => by
    have hb := h b (by simp)
    have hb' := (isDigit_iff b).mp hb
    simp only [fold, hb, if_true]
    exact fold_digits l (i + 1) _ (fun x hx => h x (by simp [hx])) (d_lt hc (p_lt i (by omega)))

theorem fold_lt : ∀ (l : List Nat) (i c r : Nat), fold l i c = some r → c < 10 → r < 10
  | [], _, c, r, h, hc => by simp [fold] at h; omega
  | b :: l, i, c, r, h, hc => by
    simp only [fold] at h
    split at h
    · rename_i hb
      have hb' := (isDigit_iff b).mp hb
      exact fold_lt l (i + 1) _ r h (d_lt hc (p_lt i (by omega)))
    · simp at h

/-- different running checksums stay different (right cancellation, step by step) -/
theorem fold_inj : ∀ (l : List Nat) (i c c' r r' : Nat), c < 10 → c' < 10 → c ≠ c' →
    fold l i c = some r → fold l i c' = some r' → r ≠ r'
  | [], _, c, c', r, r', _, _, hne, h, h' => by simp [fold] at h h'; omega
  | b :: l, i, c, c', r, r', hc, hc', hne, h, h' => by
    simp only [fold] at h h'
    split at h
    · rename_i hb
      have hb' := (isDigit_iff b).mp hb
      have hp : p i (b - 48) < 10 := p_lt i (by omega)
      rw [if_pos hb] at h'
      refine fold_inj l (i + 1) _ _ r r' (d_lt hc hp) (d_lt hc' hp) ?_ h h'
      intro e; exact hne (d_right_cancel hc hc' hp e)
    · simp at h

/-- **Verhoeff: substituting one digit changes the checksum** (reversed-string form, any position) -/
theorem fold_subst : ∀ (u w : List Nat) (a b i c r r' : Nat), c < 10 → isDigit a = true → isDigit b = true → a ≠ b →
    fold (u ++ a :: w) i c = some r → fold (u ++ b :: w) i c = some r' → r ≠ r'
  | [], w, a, b, i, c, r, r', hc, ha, hb, hne, h, h' => by
    simp only [List.nil_append, fold, ha, hb, if_true] at h h'
    have ha' := (isDigit_iff a).mp ha
    have hb' := (isDigit_iff b).mp hb
    have hpa : p i (a - 48) < 10 := p_lt i (by omega)
    have hpb : p i (b - 48) < 10 := p_lt i (by omega)
    refine fold_inj w (i + 1) _ _ r r' (d_lt hc hpa) (d_lt hc hpb) ?_ h h'
    intro e
    have := p_inj i (by omega) (by omega) (d_left_cancel hc hpa hpb e)
    omega
  | x :: u, w, a, b, i, c, r, r', hc, ha, hb, hne, h, h' => by
    simp only [List.cons_append, fold] at h h'
    split at h
    · rename_i hx
      have hx' := (isDigit_iff x).mp hx
      rw [if_pos hx] at h'
      exact fold_subst u w a b (i + 1) _ r r' (d_lt hc (p_lt i (by omega))) ha hb hne h h'
    · simp at h

/-- **Verhoeff: a code that validates stops validating when any single digit is replaced by another digit** -/
theorem validate_subst (pre post : List Nat) (a b : Nat) (ha : isDigit a = true) (hb : isDigit b = true) (hne : a ≠ b)
    (h : validate (pre ++ a :: post) = true) : validate (pre ++ b :: post) = false := by
  unfold validate at h ⊢
  simp only [List.reverse_append, List.reverse_cons, List.append_assoc, List.singleton_append] at h ⊢
  cases h1 : fold (post.reverse ++ a :: pre.reverse) 0 0 with
  | none => rw [h1] at h; simp at h
  | some r =>
    rw [h1] at h
    cases h2 : fold (post.reverse ++ b :: pre.reverse) 0 0 with
    | none => rfl
    | some r' =>
      have := fold_subst _ _ a b 0 0 r r' (by omega) ha hb hne h1 h2
      simp at h ⊢; omega

theorem d_transpose (i : Nat) {c a b : Nat} (hc : c < 10) (ha : a < 10) (hb : b < 10) (hne : a ≠ b) :
    d (d c (p i a)) (p (i + 1) b) ≠ d (d c (p i b)) (p (i + 1) a) := by
  have h8 : i % 8 < 8 := Nat.mod_lt _ (by omega)
  have := List.all_eq_true.mp (List.all_eq_true.mp (List.all_eq_true.mp (List.all_eq_true.mp tab_transpose (i % 8) (r8 h8))
    c (r10 hc)) a (r10 ha)) b (r10 hb)
  have e : ∀ y, p (i % 8) y = p i y := by intro y; simp [p]
  have e' : ∀ y, p (i % 8 + 1) y = p (i + 1) y := by intro y; simp [p]
  rw [e, e, e', e'] at this
  simp [hne] at this; exact this

/-- **Verhoeff: swapping two different adjacent digits changes the checksum** -/
theorem fold_transpose : ∀ (u w : List Nat) (a b i c r r' : Nat), c < 10 → isDigit a = true → isDigit b = true → a ≠ b →
    fold (u ++ a :: b :: w) i c = some r → fold (u ++ b :: a :: w) i c = some r' → r ≠ r'
  | [], w, a, b, i, c, r, r', hc, ha, hb, hne, h, h' => by
    simp only [List.nil_append, fold, ha, hb, if_true] at h h'
    have ha' := (isDigit_iff a).mp ha
    have hb' := (isDigit_iff b).mp hb
    have hpa : ∀ j, p j (a - 48) < 10 := fun j => p_lt j (by omega)
    have hpb : ∀ j, p j (b - 48) < 10 := fun j => p_lt j (by omega)
    exact fold_inj w (i + 1 + 1) _ _ r r' (d_lt (d_lt hc (hpa i)) (hpb _)) (d_lt (d_lt hc (hpb i)) (hpa _))
      (d_transpose i hc (by omega) (by omega) (by omega)) h h'
  | x :: u, w, a, b, i, c, r, r', hc, ha, hb, hne, h, h' => by
    simp only [List.cons_append, fold] at h h'
    split at h
    · rename_i hx
      have hx' := (isDigit_iff x).mp hx
      rw [if_pos hx] at h'
      exact fold_transpose u w a b (i + 1) _ r r' (d_lt hc (p_lt i (by omega))) ha hb hne h h'
    · simp at h

theorem validate_transpose (pre post : List Nat) (a b : Nat) (ha : isDigit a = true) (hb : isDigit b = true) (hne : a ≠ b)
    (h : validate (pre ++ a :: b :: post) = true) : validate (pre ++ b :: a :: post) = false := by
  unfold validate at h ⊢
  simp only [List.reverse_append, List.reverse_cons, List.append_assoc, List.singleton_append, List.cons_append, List.nil_append] at h ⊢
  cases h1 : fold (post.reverse ++ b :: a :: pre.reverse) 0 0 with
  | none => rw [h1] at h; simp at h
  | some r =>
    rw [h1] at h
    cases h2 : fold (post.reverse ++ a :: b :: pre.reverse) 0 0 with
    | none => rfl
    | some r' =>
      have := fold_transpose _ _ b a 0 0 r r' (by omega) hb ha (Ne.symm hne) h1 h2
      simp at h ⊢; omega

/-- a non-digit anywhere makes validation fail -/
theorem fold_nondigit : ∀ (u w : List Nat) (x i c : Nat), isDigit x = false → fold (u ++ x :: w) i c = none
  | [], w, x, i, c, hx => by simp [fold, hx]
  | y :: u, w, x, i, c, hx => by
    simp only [List.cons_append, fold]
    split
    · exact fold_nondigit u w x _ _ hx
    · rfl

/-- product form: the fold started at `c` is `c · (fold started at 0)` -/
theorem fold_mul : ∀ (l : List Nat) (i c : Nat), (∀ b ∈ l, isDigit b = true) → c < 10 →
    ∃ y, fold l i 0 = some y ∧ y < 10 ∧ fold l i c = some (d c y)
  | [], _, c, _, hc => ⟨0, rfl, by omega, by simp [fold, d_zero_right hc]⟩
  | b :: l, i, c, h, hc => by
    have hb := h b (by simp)
    have hb' := (isDigit_iff b).mp hb
    have hp : p i (b - 48) < 10 := p_lt i (by omega)
    obtain ⟨y, hy, hylt, _⟩ := fold_mul l (i + 1) 0 (fun x hx => h x (by simp [hx])) (by omega)
    obtain ⟨_, hy1, _, hy1'⟩ := fold_mul l (i + 1) (p i (b - 48)) (fun x hx => h x (by simp [hx])) hp
    obtain ⟨_, hy2, _, hy2'⟩ := fold_mul l (i + 1) (d c (p i (b - 48))) (fun x hx => h x (by simp [hx])) (d_lt hc hp)
    rw [hy] at hy1 hy2; simp at hy1 hy2; subst hy1; subst hy2
    refine ⟨d (p i (b - 48)) y, ?_, d_lt hp hylt, ?_⟩
    · simp only [fold, hb, if_true, d_zero hp]; exact hy1'
    · simp only [fold, hb, if_true]; rw [hy2', d_assoc hc hp hylt]

/-- **Verhoeff: the computed check digit validates** -/
theorem validate_calculate (s : List Nat) (h : ∀ b ∈ s, isDigit b = true) :
    ∃ k, calculate s = .ok k ∧ k < 10 ∧ validate (s ++ [48 + k]) = true := by
  have hr : ∀ b ∈ s.reverse, isDigit b = true := fun b hb => h b (List.mem_reverse.mp hb)
  obtain ⟨y, hy, hylt, _⟩ := fold_mul s.reverse 1 0 hr (by omega)
  have hi := inv_spec hylt
  refine ⟨inv y, by simp [calculate, hy], hi.1, ?_⟩
  obtain ⟨_, hy', _, hm⟩ := fold_mul s.reverse 1 (inv y) hr hi.1
  rw [hy] at hy'; simp at hy'; subst hy'
  have hd : isDigit (48 + inv y) = true := by simp [isDigit]; omega
  simp only [validate, List.reverse_append, List.reverse_cons, List.reverse_nil, List.nil_append,
    List.singleton_append, fold, hd, if_true]
  have e : 48 + inv y - 48 = inv y := by omega
  rw [e, p_zero hi.1, d_zero hi.1, hm, hi.2]; rfl

end Codec.Verhoeff
