import RsMatterVerif.Model.Subs
import RsMatterVerif.Model.SubsRings
import Driver.Util
import Driver.C13Sys
/-! Driver for C13: replays subscription-table histories on `Model/Subs` (output compared with the
real `Subscriptions` table, field by field) and evaluates the property's specification on the
*implementation's* outputs: a set-based account of what every live subscriber is still owed.

Ops (`now` in ticks, `hz` ticks per second in the case header `case <id> subs <N> <hz>`):
  `chg e c a` | `chgw e|* c|*` | `add now fab peer min max evwm` | `rep now evwm` | `q id` |
  `fin id keep|retry|drop|unsent` | `purge` | `rm fab peer` | `rmexp now` | `nra evwm` | `persist` |
  `restart now evwm`
Output of every op: `<result> | <nextSubId> <count> <nextChangeId> <cancelled> | <reporting> |
<table> | <entries> | <contexts> | <persisted records>`.
-/
namespace Driver.C13
open Subs

/-! ## rendering of the model state (must equal the harness' dump of the real state) -/

def rSub (s : Sub) : String :=
  s!"{s.id},{s.fab},{s.peer},{s.minInt},{s.maxInt},{s.reportedAt},{s.retryAt},{s.fail},{s.seenAttr},{s.seenEv},{s.resumedAt}"

def rEntry (e : Entry) : String := s!"{e.ep}.{e.cl}.{e.attr}@{e.id}"

def rCtx (c : Ctx) : String :=
  s!"{c.sub.id},{c.nextAttr},{c.nextEv},{c.nextReportedAt},{c.nextRetryAt},{c.nextFail}"

def joinOr (xs : List String) : String := if xs.isEmpty then "-" else ";".intercalate xs

def insertSorted (c : Ctx) : List Ctx → List Ctx
  | [] => [c]
  | x :: xs => if c.sub.id ≤ x.sub.id then c :: x :: xs else x :: insertSorted c xs

def sortCtxs (cs : List Ctx) : List Ctx := cs.foldl (fun acc c => insertSorted c acc) []

def rRec (r : Rec) : String :=
  s!"{r.fab},{r.peer},{r.minInt},{r.maxInt},{match r.id with | some j => toString j | none => "?"}"

def rState (s : State) : String :=
  let rep := match s.reporting with | some x => rSub x | none => "-"
  s!"{s.nextSubId} {s.count} {s.changed.nextId} {if s.cancelled then 1 else 0} | {rep} | " ++
  s!"{joinOr (s.subs.map rSub)} | {joinOr (s.changed.entries.map rEntry)} | {joinOr ((sortCtxs s.ctxs).map rCtx)} | " ++
  s!"{joinOr (s.kv.map rRec)}"

/-- the probed probes of concrete attribute paths, endpoint-major -/
def probes : List (Nat × Nat × Nat) :=
  [0, 1, 2].flatMap fun e => [1, 2, 3].flatMap fun c => [0, 1, 2, 3].map fun a => (e, c, a)

def bits (f : Nat × Nat × Nat → Bool) : String :=
  String.ofList (probes.map (fun u => if f u then '1' else '0'))

/-! ## the specification side: what each live subscriber is owed (independent of the model) -/

structure Flight where
  now : Nat
  evwm : Nat
  priming : Bool

structure OSub where
  id : Nat
  fab : Nat
  peer : Nat
  minInt : Nat
  maxInt : Nat
  /-- changes recorded since the data of the last delivered report (or of the priming) was read -/
  owed : List Entry := []
  /-- changes recorded after the begin of the report that is in flight -/
  afterBegin : List Entry := []
  /-- begin instant of the last delivered report -/
  lastSuccess : Option Nat := none
  /-- resumed from a persisted record at this instant (its last success is not later than that) -/
  resumedAt : Option Nat := none
  ackedEv : Nat := 0
  flight : Option Flight := none
  /-- a removal matched it while it was being reported on: it ends when the report ends -/
  mustEnd : Bool := false
  /-- a removal request named it while it was priming (invisible to the table): nothing is demanded -/
  unknown : Bool := false

structure ISub where
  id : Nat
  fab : Nat := 0
  peer : Nat := 0
  minInt : Nat := 0
  maxInt : Nat := 0
  reportedAt : Nat
  retryAt : Nat

/-- the number of boots the harness provides tables for -/
def maxBoots : Nat := 4

structure St where
  m : State := State.new 1000000 1
  o : List OSub := []
  /-- the records the implementation showed in its store after the last op (`fab,peer,min,max,id`) -/
  okv : List String := []
  boots : Nat := 1
  dead : Bool := false
  /-- `some` while a system-level case (header kind `sys`) is being judged by `Driver.C13Sys` -/
  sys : Option Driver.C13Sys.St := none
  /-- `some` in an `evq` case: the numbering of the event queue (`Subs.EvQ`) -/
  evq : Option EvQ := none
  /-- `some` in an `evs` case: the event rings (`Chunk.Queue`), the length of an event with an empty payload,
  the event id of every number pushed (model side) -/
  evs : Option (Chunk.Queue × Nat × List (Nat × Nat)) := none

def pathEntry (u : Nat × Nat × Nat) : Entry := { ep := u.1, cl := u.2.1, attr := u.2.2, id := 0 }

/-- parse the table section of the implementation's dump -/
def parseISubs (sec : String) : List ISub :=
  if sec = "-" then [] else
  (sec.splitOn ";").filterMap fun item =>
    match (item.splitOn ",").map String.toNat? with
    | [some id, some fab, some peer, some mn, some mx, some ra, some rt, _, _, _, _] =>
      some { id := id, fab := fab, peer := peer, minInt := mn, maxInt := mx, reportedAt := ra, retryAt := rt }
    | _ => none

def sections (out : String) : List String := (out.splitOn " | ").map (fun s => s.trimAscii.toString)

def updateO (os : List OSub) (id : Nat) (f : OSub → OSub) : List OSub :=
  os.map (fun o => if o.id = id then f o else o)

/-- the earliest instant the property lets a report go out (minimum interval after the last
delivered report; the implementation's own retry gate is accepted as given) -/
def allowedAt (hz : Nat) (o : OSub) (i : ISub) : Nat :=
  let gate := match o.lastSuccess with | some t => t + o.minInt * hz | none => 0
  max gate i.retryAt

def pendingO (o : OSub) (evwm : Nat) : Bool := !o.owed.isEmpty || decide (evwm > o.ackedEv)

/-- every live, settled subscription of the specification must be in the implementation's table -/
def checkPresent (os : List OSub) (itab : List ISub) : Option String :=
  match os.find? (fun o => o.flight.isNone && !o.unknown && !(itab.any (fun i => i.id = o.id))) with
  | some o => some s!"live subscription {o.id} is no longer in the table"
  | none => none

def firstSome : List (Option String) → Option String
  | [] => none
  | some x :: _ => some x
  | none :: r => firstSome r

/-- Oracle for one op given the implementation's output. Returns the new oracle state and a violation. -/
def oracle (hz n : Nat) (okv : List String) (os : List OSub) (ws : List String) (out : String) :
    List OSub × Option String :=
  let secs := sections out
  let res := words (secs.getD 0 "")
  let itab := parseISubs (secs.getD 3 "-")
  let ikv := let k := secs.getD 6 "-"; if k = "-" then [] else k.splitOn ";"
  let find (id : Nat) := os.find? (fun o => o.id = id)
  match ws with
  | ["persist"] =>
    -- what persistence is for: every settled live subscription has a record in the store (a
    -- subscription that is being primed / reported on is not demanded)
    let missing := os.find? fun o =>
      o.flight.isNone && !o.unknown && !(ikv.contains s!"{o.fab},{o.peer},{o.minInt},{o.maxInt},{o.id}")
    match res, missing with
    | ["ok"], some o => (os, some s!"live subscription {o.id} has no persisted record")
    | _, _ => (os, checkPresent os itab)
  | ["restart", now, ev] =>
    match res with
    | ["ok"] =>
      -- every subscription of the old boot has ended; the records that were in the store (the first
      -- N, in slot order) are resumed, not primed: each is owed everything
      let want := okv.take n
      -- … under the ids their subscribers know them by
      let got := itab.map fun i => s!"{i.fab},{i.peer},{i.minInt},{i.maxInt},{i.id}"
      let everything : Entry := { ep := WEP, cl := WCL, attr := WAT, id := 0 }
      let os' : List OSub := itab.map fun i =>
        { id := i.id, fab := i.fab, peer := i.peer, minInt := i.minInt, maxInt := i.maxInt,
          owed := [everything], ackedEv := (ev.toNat?).getD 0, resumedAt := now.toNat? }
      if got ≠ want then (os', some s!"the persisted subscriptions {want} are not the resumed ones {got}")
      else match itab.find? (fun i => i.reportedAt ≠ IMAX) with
        | some i => (os', some s!"resumed subscription {i.id} counts as primed: its next report will not carry everything")
        | none => (os', none)
    | _ => (os, none)
  | ["chg", e, c, a] =>
    match e.toNat?, c.toNat?, a.toNat? with
    | some e, some c, some a =>
      let p : Entry := { ep := e, cl := c, attr := a, id := 0 }
      let os' := os.map fun o => { o with owed := p :: o.owed, afterBegin := if o.flight.isSome then p :: o.afterBegin else o.afterBegin }
      (os', checkPresent os' itab)
    | _, _, _ => (os, none)
  | ["chgw", e, c] =>
    let p : Entry := { ep := (e.toNat?).getD WEP, cl := if e = "*" then WCL else (c.toNat?).getD WCL, attr := WAT, id := 0 }
    let os' := os.map fun o => { o with owed := p :: o.owed, afterBegin := if o.flight.isSome then p :: o.afterBegin else o.afterBegin }
    (os', checkPresent os' itab)
  | ["add", now, fab, peer, mn, mx, ev] =>
    match res, now.toNat?, fab.toNat?, peer.toNat?, mn.toNat?, mx.toNat?, ev.toNat? with
    | ["some", ids], some now, some fab, some peer, some mn, some mx, some ev =>
      match ids.toNat? with
      | some id =>
        let o : OSub := { id := id, fab := fab, peer := peer, minInt := mn, maxInt := mx,
                          flight := some { now := now, evwm := ev, priming := true } }
        (os ++ [o], checkPresent os itab)
      | none => (os, none)
    | _, _, _, _, _, _, _ => (os, checkPresent os itab)
  | ["rep", now, ev] =>
    match now.toNat?, ev.toNat? with
    | some now, some ev =>
      match res with
      | ["some", ids] =>
        match ids.toNat? with
        | none => (os, none)
        | some id =>
          match find id with
          | none => (os, some s!"report begun for subscription {id} which is not live")
          | some o =>
            let early := match o.lastSuccess with
              | some t => decide (t + o.minInt * hz ≤ IMAX) && decide (now < t + o.minInt * hz)
              | none => false
            let os' := updateO os id fun o => { o with flight := some { now := now, evwm := ev, priming := false }, afterBegin := [] }
            if o.flight.isSome then (os', some s!"report begun for subscription {id} which is already in flight")
            else if early then (os', some s!"report to {id} at {now} before the minimum interval after {o.lastSuccess.getD 0}")
            else (os', none)
      | ["none"] =>
        -- nothing reportable: no settled live subscriber may be owed something it is allowed to get
        let bad := os.filterMap fun o =>
          if o.flight.isSome || o.unknown then none else
          match itab.find? (fun i => i.id = o.id) with
          | none => some s!"live subscription {o.id} is no longer in the table"
          | some i =>
            if decide (allowedAt hz o i ≤ now) then
              if pendingO o ev then some s!"subscription {o.id} is owed a change/event and the minimum interval allows a report at {now}, none is started"
              else match o.lastSuccess with
                | some t => if decide (t + o.maxInt * hz ≤ now) then some s!"no liveness report for {o.id} although the maximum interval has elapsed at {now}" else none
                | none => some s!"unprimed subscription {o.id} is not reported"
            else none
        (os, bad.head?)
      | _ => (os, none)
    | _, _ => (os, none)
  | ["q", ids] =>
    match ids.toNat?, res with
    | some id, [b, _, sev] =>
      match find id with
      | none => (os, none)
      | some o =>
        let bl := b.toList
        let lost := (probes.zip bl).find? fun (u, ch) =>
          ch = '0' && o.owed.any (fun p => covers p (pathEntry u))
        let evBad := match sev.toNat? with
          | some v => decide (v > o.ackedEv)
          | none => false
        match lost with
        | some (u, _) => (os, some s!"change of {u.1}.{u.2.1}.{u.2.2} owed to subscription {id} is not in its report (lost)")
        | none => if evBad then (os, some s!"events up to {sev} are skipped for subscription {id}, only {o.ackedEv} were delivered") else (os, none)
    | _, _ => (os, none)
  | ["fin", ids, mode] =>
    match ids.toNat? with
    | none => (os, none)
    | some id =>
      match find id, res with
      | some o, ["done"] =>
        match o.flight with
        | none => (os, none)
        | some fl =>
          let os' :=
            if mode = "drop" || o.mustEnd then os.filter (fun x => x.id ≠ id)
            else if mode = "keep" then
              updateO os id fun o => { o with owed := o.afterBegin, afterBegin := [], lastSuccess := some fl.now, ackedEv := fl.evwm, flight := none }
            else if mode = "unsent" then
              -- the report was empty and not sent: nothing of what was pending concerns the subscriber
              -- (asserted by the caller); this is not a delivered report
              updateO os id fun o => { o with owed := if fl.priming || o.lastSuccess.isNone then o.owed else o.afterBegin,
                                              afterBegin := [], ackedEv := fl.evwm, flight := none }
            else updateO os id fun o => { o with afterBegin := [], flight := none }
          let gone := if (mode = "drop" || o.mustEnd) && itab.any (fun i => i.id = id) then some s!"ended subscription {id} is back in the table" else none
          -- `unsent` = nothing was sent, yet the watermarks captured when the report began are
          -- committed: legitimate only if nothing the subscriber selects (at table level: the probed
          -- universe) and no event was owed at that moment and the subscription is primed
          let owedAtBegin := o.owed.drop o.afterBegin.length
          let unsentBad :=
            if mode = "unsent" && !o.mustEnd then
              if o.lastSuccess.isNone then
                some s!"the first report of subscription {id} was not sent but is considered delivered (lost)"
              else match owedAtBegin.find? (fun p => probes.any (fun u => covers p (pathEntry u))) with
                | some p => some s!"the report to subscription {id} was not sent but is considered delivered: its watermark moves past the change of {p.ep}.{p.cl}.{p.attr} it was owed when the report began (lost)"
                | none =>
                  if decide (fl.evwm > o.ackedEv) then
                    some s!"the report to subscription {id} was not sent but is considered delivered: events up to {fl.evwm} are skipped, only {o.ackedEv} were delivered (lost)"
                  else none
            else none
          (os', firstSome [gone, unsentBad, checkPresent os' itab])
      | _, _ => (os, none)
  | ["purge"] => (os, checkPresent os itab)
  | ["rm", fab, peer] =>
    match fab.toNat?, peer.toNat? with
    | some fab, some peer =>
      let hit (o : OSub) : Bool := o.fab = fab && o.peer = peer
      let os1 := os.filter fun o => !(hit o && o.flight.isNone)
      let os2 := os1.map fun o =>
        if hit o then
          match o.flight with
          | some fl => if fl.priming then { o with unknown := true } else { o with mustEnd := true }
          | none => o
        else o
      let still := os.find? fun o => hit o && o.flight.isNone && !o.unknown && itab.any (fun i => i.id = o.id)
      match still with
      | some o => (os2, some s!"removed subscription {o.id} is still in the table")
      | none => (os2, checkPresent os2 itab)
    | _, _ => (os, none)
  | ["rmexp", now] =>
    match now.toNat? with
    | none => (os, none)
    | some now =>
      -- the last success of a resumed subscription is not later than the restart
      let expired (o : OSub) : Bool := match o.lastSuccess, o.resumedAt with
        | some t, _ => decide (t + o.maxInt * hz ≤ IMAX) && decide (t + o.maxInt * hz ≤ now)
        | none, some t => decide (t + o.maxInt * hz ≤ IMAX) && decide (t + o.maxInt * hz ≤ now)
        | none, none => false
      let os1 := os.filter fun o => !(expired o && o.flight.isNone)
      let os2 := os1.map fun o =>
        if expired o then
          match o.flight with
          | some fl => if fl.priming then o else { o with mustEnd := true }
          | none => o
        else o
      let still := os.find? fun o => expired o && o.flight.isNone && !o.unknown && itab.any (fun i => i.id = o.id)
      match still with
      | some o =>
        if o.lastSuccess.isNone then
          (os2, some s!"resumed subscription {o.id} is still alive at {now}, more than one maximum interval after the restart at {o.resumedAt.getD 0} without a delivered report")
        else
          (os2, some s!"subscription {o.id} is still alive at {now}, more than one maximum interval after its last delivered report")
      | none => (os2, checkPresent os2 itab)
  | ["nra", ev] =>
    match ev.toNat?, res with
    | some ev, [ts] =>
      match ts.toNat? with
      | none => (os, none)
      | some t =>
        let bad := os.filterMap fun o =>
          if o.flight.isSome || o.unknown then none else
          match itab.find? (fun i => i.id = o.id) with
          | none => none
          | some i =>
            let al := allowedAt hz o i
            if pendingO o ev then
              if decide (t > al) then some s!"the reporter sleeps until {t} although subscription {o.id} is owed a report at {al}" else none
            else match o.lastSuccess with
              | some ls => if decide (t > max al (ls + o.maxInt * hz)) then some s!"the reporter sleeps until {t}, past the maximum interval of subscription {o.id}" else none
              | none => if decide (t > al) then some s!"the reporter sleeps until {t} although subscription {o.id} is unprimed" else none
        (os, firstSome [bad.head?, checkPresent os itab])
    | _, _ => (os, none)
  | _ => (os, none)

/-! ## the model side -/

def modelStep (m : State) (ws : List String) : Option (State × String) :=
  match ws with
  | ["chg", e, c, a] =>
    match e.toNat?, c.toNat?, a.toNat? with
    | some e, some c, some a => some (m.change { ep := e, cl := c, attr := a, id := 0 }, "-")
    | _, _, _ => none
  | ["chgw", e, c] =>
    let p : Entry := { ep := (e.toNat?).getD WEP, cl := if e = "*" then WCL else (c.toNat?).getD WCL, attr := WAT, id := 0 }
    some (m.change p, "-")
  | ["add", now, fab, peer, mn, mx, ev] =>
    match now.toNat?, fab.toNat?, peer.toNat?, mn.toNat?, mx.toNat?, ev.toNat? with
    | some now, some fab, some peer, some mn, some mx, some ev =>
      -- the `u32` arithmetic of `next_subscription_id` (equal to `State.add` below 2^32: `C13.add_u32_agrees`)
      let r := m.addU32 now fab peer mn mx ev
      some (r.1, match r.2 with | some id => s!"some {id}" | none => "none")
    | _, _, _, _, _, _ => none
  | ["rep", now, ev] =>
    match now.toNat?, ev.toNat? with
    | some now, some ev =>
      if m.reporting.isSome then some (m, "busy") else
      let r := m.report now ev
      some (r.1, match r.2 with | some id => s!"some {id}" | none => "none")
    | _, _ => none
  | ["q", ids] =>
    match ids.toNat? with
    | none => none
    | some id =>
      match m.ctxs.find? (fun c => c.sub.id == id) with
      | none => some (m, "noctx")
      | some c =>
        let b := bits (fun u => m.shouldReportAttr c u.1 u.2.1 u.2.2)
        some (m, s!"{b} {if c.shouldSendIfEmpty m.hz then 1 else 0} {c.sub.seenEv}")
  | ["fin", ids, mode] =>
    match ids.toNat? with
    | none => none
    | some id =>
      let f := if mode = "keep" then Fin.keep else if mode = "retry" then Fin.retry
               else if mode = "unsent" then Fin.unsent else Fin.drop
      let r := m.fin id f
      some (r.1, if r.2 then "done" else "noctx")
  | ["purge"] => some (m.purge, "-")
  | ["rm", fab, peer] =>
    match fab.toNat?, peer.toNat? with
    | some fab, some peer =>
      let r := m.remove (fun s => s.fab == fab && s.peer == peer)
      some (r.1, toString r.2)
    | _, _ => none
  | ["rmexp", now] =>
    match now.toNat? with
    | some now =>
      let r := m.remove (fun s => s.isExpired m.hz now)
      some (r.1, toString r.2)
    | none => none
  | ["nra", ev] =>
    match ev.toNat? with
    | some ev => some (m, toString (m.nextReportAt ev))
    | none => none
  | ["persist"] => some (m.persist, "ok")
  | ["restart", now, ev] =>
    match now.toNat?, ev.toNat? with
    | some now, some ev => some (m.restart now ev, "ok")
    | _, _ => none
  | _ => none

/-! ## `evs` cases: the event rings, the table and the reader together -/

/-- extra bytes of the TLV of an event whose number needs more than one byte -/
def numExtra (n : Nat) : Nat := if n < 256 then 0 else if n < 65536 then 1 else if n < 4294967296 then 3 else 7

def rNums (l : List Nat) : String := if l.isEmpty then "-" else ",".intercalate (l.map toString)

def rQueue (q : Chunk.Queue) (ids : List (Nat × Nat)) : String :=
  let eid (n : Nat) : Nat := ((ids.find? (fun p => p.1 == n)).map (·.2)).getD 65535
  let it := q.iter.map fun e => s!"{e.num}:{e.prio}:{eid e.num}"
  s!"Q {q.next} {Chunk.qLen q.debug},{Chunk.qLen q.info},{Chunk.qLen q.crit} " ++
  s!"{if it.isEmpty then "-" else ";".intercalate it} " ++
  s!"{rNums (q.crit.map (·.num))}/{rNums (q.info.map (·.num))}/{rNums (q.debug.map (·.num))}"

/-- does a subscription that asked for `sel` (`w` = every event of the cluster, `e0` / `e1` = one event) select
the event id `eid`? -/
def selects (sel : String) (eid : Nat) : Bool :=
  if sel = "e0" then eid == 0 else if sel = "e1" then eid == 1 else true

/-- the implementation's queue dump: the number the next push assigns and the retained events
`(number, event id)` in the implementation's iteration order -/
def parseQ (sec : String) : Nat × List (Nat × Nat) :=
  match words sec with
  | "Q" :: nx :: _ :: it :: _ =>
    let evs := if it = "-" then [] else (it.splitOn ";").filterMap fun item =>
      match (item.splitOn ":").map String.toNat? with
      | [some n, _, some e] => some (n, e)
      | _ => none
    ((nx.toNat?).getD 0, evs)
  | _ => (0, [])

def parseNums (s : String) : List Nat := if s = "-" then [] else (s.splitOn ",").filterMap String.toNat?

/-- `Events::watermark` = `next_event_number.wrapping_sub(1)` -/
def wmOf (next : Nat) : Nat := (next + IMAX) % U64

/-- **the oracle of a `read`** (the specification `Subs.OwedReport` in its executable form `Subs.owedNumbers`,
evaluated on the implementation's own outputs): the events a report to the live subscription `o` carries are
EXACTLY the subscribed events still in the queue whose number is above the event watermark the subscriber has
acknowledged and not above the snapshot the report will commit, in increasing order. Events that were evicted from
the last ring are not in the queue: lost legitimately. -/
def oracleRead (os : List OSub) (id : Nat) (sel : String) (retained : List (Nat × Nat)) (got : List Nat) : Option String :=
  match os.find? (fun o => o.id = id) with
  | none => none
  | some o =>
    match o.flight with
    | none => none
    | some fl =>
      let selected := (retained.filter fun p => selects sel p.2).map (·.1)
      let want := owedNumbers o.ackedEv fl.evwm selected
      if got = want then none else
      let missing := want.filter fun n => !(got.contains n)
      let extra := got.filter fun n => !(want.contains n)
      some (s!"the report to subscription {id} (acknowledged event watermark {o.ackedEv}, snapshot {fl.evwm}) carries the events {got}; " ++
        s!"the subscribed events still in the queue above its watermark are {want}" ++
        (if !missing.isEmpty then s!": {missing} skipped although retained (lost once the report is acknowledged)"
         else if !extra.isEmpty then s!": {extra} are not owed"
         else ": not in increasing order"))

def evsStep (st : St) (q : Chunk.Queue) (k : Nat) (ids : List (Nat × Nat)) (ws : List String) (out : String) : St × String :=
  if st.dead then (st, "ok") else
  if (words out).head? = some "panic" then ({ st with dead := true }, "ORA the implementation panicked") else
  let secs := sections out
  let qsec := secs.getLast?.getD ""
  let outT := " | ".intercalate secs.dropLast
  let (inext, iret) := parseQ qsec
  let res := words (secs.getD 0 "")
  match ws with
  | ["push", ps, es, ls, ks] =>
    match ps.toNat?, es.toNat?, ls.toNat?, ks.toNat? with
    | some prio, some eid, some plen, some cnt =>
      let cnt := max 1 (min cnt 64)
      let plen := min plen 200
      let r := (List.range cnt).foldl (fun (acc : Chunk.Queue × List (Nat × Nat) × List Nat × Bool) _ =>
        let (q, ids, nums, bad) := acc
        if bad then acc else
        let num := q.next
        match q.push prio (k + plen + numExtra num) none with
        | (q', .ok n) => (q', ids ++ [(n, eid % 2)], nums ++ [n], false)
        | (q', .error _) => (q', ids, nums ++ [num], true)) (q, ids, [], false)
      let (q', ids', nums, bad) := r
      let mres := if bad then "err ResourceExhausted" else s!"{nums.head?.getD 0}-{nums.getLast?.getD 0}"
      let mout := s!"{mres} | {rState st.m} | {rQueue q' ids'}"
      let st' := { st with evs := some (q', k, ids') }
      -- oracle: the numbers handed out continue the queue's numbering, the watermark is the last one
      let wmBefore := wmOf q.next
      let viol : Option String :=
        match res with
        | [rng] =>
          match (rng.splitOn "-").map String.toNat? with
          | [some a, some b] =>
            if a ≠ wmBefore + 1 ∨ b + 1 ≠ a + cnt ∨ wmOf inext ≠ b then
              some s!"{cnt} events pushed after watermark {wmBefore} got the numbers {a}-{b}, the watermark is then {wmOf inext}"
            else none
          | _ => none
        | _ => none
      match viol with
      | some why => (st', s!"ORA {why}")
      | none => if mout = out then (st', "ok") else (st', s!"DIS {mout}")
    | _, _, _, _ => (st, "BAD push")
  | ["read", ids_, sel] =>
    match ids_.toNat? with
    | none => (st, "BAD read")
    | some id =>
      let selF : Chunk.QEv → Bool := fun e => selects sel (((ids.find? (fun p => p.1 == e.num)).map (·.2)).getD 65535)
      let mres := match st.m.ctxs.find? (fun c => c.sub.id == id) with
        | none => "noctx"
        | some c => s!"{c.sub.seenEv} {c.nextEv} {rNums (c.reportEvents selF q)}"
      let mout := s!"{mres} | {rState st.m} | {rQueue q ids}"
      let viol := match res with
        | [_, _, nums] => oracleRead st.o id sel iret (parseNums nums)
        | _ => none
      match viol with
      | some why => (st, s!"ORA {why}")
      | none => if mout = out then (st, "ok") else (st, s!"DIS {mout}")
  | _ =>
    -- a table op: `q` = the queue's watermark of the moment (model: of the model queue; oracle: of the real one)
    let subst (wm : Nat) := ws.zipIdx.map fun (t, i) => if i > 0 && t = "q" then toString wm else t
    match modelStep st.m (subst (wmOf q.next)) with
    | none => (st, "BAD op")
    | some (m', mres) =>
      let mout := s!"{mres} | {rState m'} | {rQueue q ids}"
      let (o', viol) := oracle st.m.hz st.m.n st.okv st.o (subst (wmOf inext)) outT
      let st' := { st with m := m', o := o' }
      match viol with
      | some why => (st', s!"ORA {why}")
      | none => if mout = out then (st', "ok") else (st', s!"DIS {mout}")

def step (st : St) (line : String) : St × String :=
  let (op, out) := splitArrow line
  match words op with
  | "case" :: _ :: "sys" :: hdr => ({ sys := some (Driver.C13Sys.initSt hdr) }, "case")
  | "case" :: _ :: "evq" :: _ => ({ evq := some EvQ.new }, "case")
  | "case" :: _ :: "evs" :: ns :: hzs :: rings :: ks :: _ =>
    match ns.toNat?, hzs.toNat?, rings.toNat?, (ks.drop 2).toNat? with
    | some n, some hz, some ring, some k => ({ m := State.new hz n, evs := some (Chunk.Queue.new ring, k, []) }, "case")
    | _, _, _, _ => ({}, "BAD case header")
  | "case" :: _ :: _ :: ns :: hzs :: _ =>
    match ns.toNat?, hzs.toNat? with
    | some n, some hz => ({ m := State.new hz n }, "case")
    | _, _ => ({}, "BAD case header")
  | ws =>
    if let some s := st.sys then
      let (s', v) := Driver.C13Sys.step s ws out
      ({ st with sys := some s' }, v)
    else
    if let some (q, k, ids) := st.evs then evsStep st q k ids ws out
    else
    if let some q := st.evq then
      -- the event queue's numbering: model = `EvQ.push` / `EvQ.watermark`; oracle: the numbers `push`
      -- hands out are consecutive and the watermark is the last one handed out
      match ws with
      | ["push", ks] =>
        let k := (ks.toNat?).getD 1
        let (q', nums) := (List.range k).foldl (fun (acc : EvQ × List Nat) _ =>
          let r := acc.1.push
          (r.2, acc.2 ++ [r.1])) (q, [])
        let m := s!"{nums.head?.getD 0}-{nums.getLast?.getD 0} {q'.next}"
        if m = out then ({ st with evq := some q' }, "ok") else ({ st with evq := some q' }, s!"DIS {m}")
      | ["wm"] =>
        let m := toString q.watermark
        if m = out then (st, "ok") else (st, s!"DIS {m}")
      | _ => (st, "BAD evq op")
    else
    if st.dead then (st, "ok") else
    if (words out).head? = some "panic" then ({ st with dead := true }, "ORA the implementation panicked") else
    -- the harness has tables for `maxBoots` boots only
    let refused := ws.head? = some "restart" && decide (st.boots ≥ maxBoots)
    match (if refused then some (st.m, "norestart") else modelStep st.m ws) with
    | none => (st, "BAD op")
    | some (m', mres) =>
      let mout := s!"{mres} | {rState m'}"
      let (o', viol) := if refused then (st.o, none) else oracle st.m.hz st.m.n st.okv st.o ws out
      let kvSec := (sections out).getD 6 "-"
      let st' := { st with m := m', o := o', okv := if kvSec = "-" then [] else kvSec.splitOn ";",
                           boots := if ws.head? = some "restart" && !refused then st.boots + 1 else st.boots }
      match viol with
      | some why => (st', s!"ORA {why}")
      | none => if mout = out then (st', "ok") else (st', s!"DIS {mout}")

def run : IO UInt32 := Driver.runLoop ({} : St) step

end Driver.C13
