import RsMatterVerif.Lemmas.Cert
/-!
# C19 — a certificate chain is accepted exactly when it is valid under the Matter rules
-/
namespace C19
open Cert

theorem validateCase_none_iff (t : Time) (fabric : FabricView) (noc : Cert) :
    validateCase t fabric noc none = .ok () ↔ CaseValid t fabric noc none := by
  unfold validateCase CaseValid ChainValid pathOf
  cases hn : nodeIdOf noc.subject with
  | none => simp
  | some n =>
    cases hf : fabricIdOf noc.subject with
    | none => simp
    | some fid =>
      by_cases hfe : fabric.fabricId = fid
      · simp only [hfe, ne_eq, not_true_eq_false, ↓reduceIte, Option.isNone_some, Bool.false_eq_true]
        rw [step_ok]
        simp only [finalise_ok_iff]
        simp [List.zipIdx, PositionOk, not_authority_of_node hn]
        grind
      · simp [hfe]; intros; omega

theorem validateCase_some_iff (t : Time) (fabric : FabricView) (noc ic : Cert) :
    validateCase t fabric noc (some ic) = .ok () ↔ CaseValid t fabric noc (some ic) := by
  unfold validateCase CaseValid ChainValid pathOf
  cases hn : nodeIdOf noc.subject with
  | none => simp
  | some n =>
    cases hf : fabricIdOf noc.subject with
    | none => simp
    | some fid =>
      by_cases hfe : fabric.fabricId = fid
      · cases hif : icacOtherFabric ic fid with
        | true =>
          have : ¬ ∀ f ∈ fabricIdOf ic.subject, f = fid := by
            rw [← icacOtherFabric_false_iff, hif]; simp
          simp [hfe, hif]
          intros; simpa using this
        | false =>
          have h3 : ∀ f, fabricIdOf ic.subject = some f → f = fid := by
            simpa using (icacOtherFabric_false_iff ic fid).1 hif
          simp only [hfe, hif, ne_eq, not_true_eq_false, ↓reduceIte, Option.isNone_some, Bool.false_eq_true]
          rw [step_ok, step_ok]
          simp only [finalise_ok_iff]
          simp [List.zipIdx, PositionOk, not_authority_of_node hn]
          grind
      · simp [hfe]; intros; omega

/-- **CASE, both shapes**: `CaseP::validate_certs` accepts exactly the chains that are valid for
the addressed fabric. -/
theorem validateCase_iff (t : Time) (fabric : FabricView) (noc : Cert) (icac : Option Cert) :
    validateCase t fabric noc icac = .ok () ↔ CaseValid t fabric noc icac := by
  cases icac with
  | none => exact validateCase_none_iff t fabric noc
  | some ic => exact validateCase_some_iff t fabric noc ic

/-- **verify_iff_valid (CASE)**: the peer's chain is admitted (and a node id extracted for the
session) if and only if it is valid under the Matter rules for the addressed fabric. -/
theorem verify_iff_valid (t : Time) (fabric : FabricView) (noc : Cert) (icac : Option Cert) :
    (∃ n, caseAccept t fabric noc icac = .ok n) ↔ CaseValid t fabric noc icac := by
  unfold caseAccept
  cases hv : validateCase t fabric noc icac with
  | error e =>
    have : ¬ CaseValid t fabric noc icac := by rw [← validateCase_iff, hv]; simp
    simp [this]
  | ok u =>
    have hc : CaseValid t fabric noc icac := (validateCase_iff t fabric noc icac).1 hv
    have hn := hc.1.2.2.2.2.2
    cases h : nodeIdOf noc.subject with
    | none => simp [h] at hn
    | some n => simp [hc]

/-- the session is bound to the node id the certificate carries -/
theorem caseAccept_node (t : Time) (fabric : FabricView) (noc : Cert) (icac : Option Cert) (n : Nat)
    (h : caseAccept t fabric noc icac = .ok n) : nodeIdOf noc.subject = some n := by
  unfold caseAccept at h
  cases hv : validateCase t fabric noc icac with
  | error e => simp [hv] at h
  | ok u =>
    cases hn : nodeIdOf noc.subject with
    | none => simp [hv, hn] at h
    | some m => simp [hv, hn] at h; rw [h]

/-! ## Installing credentials -/

theorem validateInstall_iff (t : Time) (noc : Cert) (icac : Option Cert) (root : Cert) :
    validateInstall t noc icac root = .ok () ↔
      ChainValid t root noc icac ∧ ∀ ic ∈ icac, ic.akid ≠ ic.skid := by
  unfold validateInstall ChainValid pathOf
  cases hn : nodeIdOf noc.subject with
  | none => simp
  | some n =>
    cases icac with
    | none =>
      simp only [Option.isNone_some, Bool.false_eq_true, ↓reduceIte]
      rw [step_ok]
      simp only [finalise_ok_iff]
      simp [List.zipIdx, PositionOk, not_authority_of_node hn]
      grind
    | some ic =>
      simp only [Option.isNone_some, Bool.false_eq_true, ↓reduceIte, isSelfSigned, isAuthority]
      cases hs : ic.skid with
      | none => simp [Issues, hs]
      | some k =>
        by_cases hak : ic.akid = some k
        · simp [hak]; intros; rw [hs]
        · have hb : (ic.akid == some k) = false := by simpa using hak
          simp only [hb]
          rw [step_ok, step_ok]
          simp only [finalise_ok_iff]
          simp [List.zipIdx, PositionOk, not_authority_of_node hn]
          grind

theorem any_conflict_false_iff (fabrics : List FabricEntry) (fid key : Nat) :
    fabrics.any (fun f => fid == f.fabricId && key == f.rootPubKey) = false ↔
      ∀ f ∈ fabrics, ¬ (f.fabricId = fid ∧ f.rootPubKey = key) := by
  simp only [List.any_eq_false, Bool.and_eq_true, beq_iff_eq, not_and]
  constructor
  · intro h f hf h1 h2; exact h f hf h1.symm h2.symm
  · intro h f hf h1 h2; exact h f hf h1.symm h2.symm

/-- **verify_iff_valid (installing)**: `AddNOC` installs the credentials if and only if the chain
is valid under the staged root, the leaf carries the key generated for this request, and the
fabric does not exist already. -/
theorem install_iff_valid (t : Time) (root : Cert) (csrKey : KeyId) (fabrics : List FabricEntry)
    (noc : Cert) (icac : Option Cert) :
    (∃ r, addNoc t root csrKey fabrics noc icac = .ok r) ↔
      InstallValid t root csrKey fabrics noc icac := by
  unfold addNoc InstallValid
  cases hv : validateInstall t noc icac root with
  | error e =>
    have : ¬ (ChainValid t root noc icac ∧ ∀ ic ∈ icac, ic.akid ≠ ic.skid) := by
      rw [← validateInstall_iff, hv]; simp
    simp only [reduceCtorEq, exists_false, false_iff]
    intro h; exact this ⟨h.1, h.2.1⟩
  | ok u =>
    have hc := (validateInstall_iff t noc icac root).1 hv
    have hn := hc.1.2.2.2.2.2
    by_cases hk : csrKey = noc.pubKey
    · cases hf : fabricIdOf noc.subject with
      | none => simp [hk]
      | some fid =>
        cases ha : fabrics.any (fun f => fid == f.fabricId && root.pubKey == f.rootPubKey) with
        | true =>
          have : ¬ ∀ f ∈ fabrics, ¬ (f.fabricId = fid ∧ f.rootPubKey = root.pubKey) := by
            rw [← any_conflict_false_iff, ha]; simp
          simp only [hk, ha, ne_eq, not_true_eq_false, ↓reduceIte, reduceCtorEq, exists_false, false_iff]
          intro h
          obtain ⟨_, _, _, fid', h1, h2⟩ := h
          simp only [Option.some.injEq] at h1
          subst h1
          exact this h2
        | false =>
          have h2 := (any_conflict_false_iff fabrics fid root.pubKey).1 ha
          cases h : nodeIdOf noc.subject with
          | none => simp [h] at hn
          | some n =>
            simp only [hk, ha, ne_eq, not_true_eq_false, ↓reduceIte, Bool.false_eq_true, Except.ok.injEq, exists_eq', true_iff]
            exact ⟨hc.1, hc.2, trivial, fid, rfl, h2⟩
    · simp only [ne_eq, hk, not_false_eq_true, ↓reduceIte, reduceCtorEq, exists_false, false_iff]
      intro h; exact hk h.2.2.1.symm

/-- the new fabric takes the fabric id and node id of the installed certificate -/
theorem addNoc_identity (t : Time) (root : Cert) (csrKey : KeyId) (fabrics : List FabricEntry)
    (noc : Cert) (icac : Option Cert) (f n : Nat)
    (h : addNoc t root csrKey fabrics noc icac = .ok (f, n)) :
    fabricIdOf noc.subject = some f ∧ nodeIdOf noc.subject = some n := by
  unfold addNoc at h
  cases hv : validateInstall t noc icac root with
  | error e => simp [hv] at h
  | ok u =>
    by_cases hk : csrKey = noc.pubKey
    · cases hf : fabricIdOf noc.subject with
      | none => simp [hv, hk, hf] at h
      | some fid =>
        by_cases ha : fabrics.any (fun f => fid == f.fabricId && root.pubKey == f.rootPubKey) = true
        · simp [hv, hk, hf, ha] at h
        · cases hm : nodeIdOf noc.subject with
          | none => simp [hv, hk, hf, ha, hm] at h
          | some m =>
            simp [hv, hk, hf, ha, hm] at h
            simp [h.1, h.2]
    · simp [hv, hk] at h

/-- `UpdateNOC`: accepted iff the chain is valid under the fabric's own root, carries the fresh
key and the id of the fabric being updated. -/
theorem update_iff_valid (t : Time) (fabric : FabricView) (csrKey : KeyId) (noc : Cert)
    (icac : Option Cert) :
    (∃ r, updateNoc t fabric csrKey noc icac = .ok r) ↔ UpdateValid t fabric csrKey noc icac := by
  unfold updateNoc UpdateValid
  cases hv : validateInstall t noc icac fabric.root with
  | error e =>
    have : ¬ (ChainValid t fabric.root noc icac ∧ ∀ ic ∈ icac, ic.akid ≠ ic.skid) := by
      rw [← validateInstall_iff, hv]; simp
    simp only [reduceCtorEq, exists_false, false_iff]
    intro h; exact this ⟨h.1, h.2.1⟩
  | ok u =>
    have hc := (validateInstall_iff t noc icac fabric.root).1 hv
    have hn := hc.1.2.2.2.2.2
    by_cases hk : csrKey = noc.pubKey
    · cases hf : fabricIdOf noc.subject with
      | none => simp [hk]
      | some fid =>
        by_cases hfe : fid = fabric.fabricId
        · cases h : nodeIdOf noc.subject with
          | none => simp [h] at hn
          | some n =>
            simp [hk, hfe, hc.1]
            exact fun ic hic => hc.2 ic (by simp [hic])
        · simp [hk, hfe]
    · simp only [ne_eq, hk, not_false_eq_true, ↓reduceIte, reduceCtorEq, exists_false, false_iff]
      intro h; exact hk h.2.2.1.symm

/-! ## Independence of the rules

Each lemma: a chain with exactly that defect is rejected — stated without any assumption on the
rest of the chain (so in particular for "valid chain + this one defect"), which is what makes
the rule independent of the others.  Non-vacuity (`example`s at the end): every hypothesis is
met by a one-field mutation of a concrete valid chain. -/

/-- the CASE path does not admit the chain -/
def Rejected (t : Time) (fabric : FabricView) (noc : Cert) (icac : Option Cert) : Prop :=
  ∀ n, caseAccept t fabric noc icac ≠ .ok n

theorem rejected_of_not_valid {t : Time} {fabric : FabricView} {noc : Cert} {icac : Option Cert}
    (h : ¬ CaseValid t fabric noc icac) : Rejected t fabric noc icac :=
  fun n hn => h ((verify_iff_valid t fabric noc icac).1 ⟨n, hn⟩)

/-- the installing path does not accept the credentials -/
def InstallRejected (t : Time) (root : Cert) (csrKey : KeyId) (fabrics : List FabricEntry)
    (noc : Cert) (icac : Option Cert) : Prop :=
  ∀ r, addNoc t root csrKey fabrics noc icac ≠ .ok r

theorem install_rejected_of_not_valid {t : Time} {root : Cert} {k : KeyId} {fs : List FabricEntry}
    {noc : Cert} {icac : Option Cert} (h : ¬ InstallValid t root k fs noc icac) :
    InstallRejected t root k fs noc icac :=
  fun r hr => h ((install_iff_valid t root k fs noc icac).1 ⟨r, hr⟩)

/-- in a valid chain every certificate has an issuer on the path (the next one; the root itself) -/
theorem valid_has_issuer {t : Time} {root noc : Cert} {icac : Option Cert}
    (h : ChainValid t root noc icac) :
    ∀ c ∈ pathOf noc icac root, ∃ i ∈ pathOf noc icac root, Issues i c := by
  cases icac with
  | none =>
    simp [ChainValid, pathOf] at h ⊢
    exact ⟨Or.inr h.1.1, Or.inr h.1.2⟩
  | some ic =>
    simp [ChainValid, pathOf] at h ⊢
    exact ⟨Or.inr (Or.inl h.1.1), Or.inr (Or.inr h.1.2.1), Or.inr (Or.inr h.1.2.2)⟩

/-- **flipped signature** (or any change of signed bytes): a chain containing a certificate
whose signature verifies under no key is rejected, whatever else holds -/
theorem flip_signature_rejects (t : Time) (fabric : FabricView) (noc : Cert) (icac : Option Cert)
    (c : Cert) (hc : c ∈ pathOf noc icac fabric.root) (hs : c.sigBy = none) :
    Rejected t fabric noc icac := by
  apply rejected_of_not_valid
  intro h
  obtain ⟨i, _, hi⟩ := valid_has_issuer h.1 c hc
  rw [hi.1] at hs; cases hs


/-- the certificate that must have issued the leaf: the intermediate if present, else the root -/
def leafIssuer (root : Cert) (icac : Option Cert) : Cert := icac.getD root

theorem valid_leaf_issued {t : Time} {root noc : Cert} {icac : Option Cert}
    (h : ChainValid t root noc icac) : Issues (leafIssuer root icac) noc := by
  cases icac with
  | none => simp [ChainValid, pathOf] at h; exact h.1.1
  | some ic => simp [ChainValid, pathOf] at h; exact h.1.1

/-- **issuer link (name)**: the leaf names an issuer other than the subject of the certificate
above it -/
theorem issuer_link (t : Time) (fabric : FabricView) (noc : Cert) (icac : Option Cert)
    (hd : noc.issuer ≠ (leafIssuer fabric.root icac).subject) : Rejected t fabric noc icac := by
  apply rejected_of_not_valid
  intro h; exact hd (valid_leaf_issued h.1).2.1

/-- **issuer link (key identifier)**: authority key id of the leaf differs from the subject key
id of the certificate above it -/
theorem issuer_link_keyid (t : Time) (fabric : FabricView) (noc : Cert) (icac : Option Cert)
    (hd : noc.akid ≠ (leafIssuer fabric.root icac).skid) : Rejected t fabric noc icac := by
  apply rejected_of_not_valid
  intro h; exact hd (valid_leaf_issued h.1).2.2.2

/-- **issuer link, any position**: some certificate of the path is issued by no certificate of
the path -/
theorem issuer_link_any (t : Time) (fabric : FabricView) (noc : Cert) (icac : Option Cert)
    (c : Cert) (hc : c ∈ pathOf noc icac fabric.root)
    (hd : ∀ i ∈ pathOf noc icac fabric.root, c.issuer ≠ i.subject ∨ c.akid ≠ i.skid) :
    Rejected t fabric noc icac := by
  apply rejected_of_not_valid
  intro h
  obtain ⟨i, hi, his⟩ := valid_has_issuer h.1 c hc
  rcases hd i hi with h1 | h1
  · exact h1 his.2.1
  · exact h1 his.2.2.2

/-- **validity window**: some certificate of the path does not cover the node's time -/
theorem validity (t : Time) (fabric : FabricView) (noc : Cert) (icac : Option Cert)
    (c : Cert) (hc : c ∈ pathOf noc icac fabric.root) (hd : ¬ Covers t c) :
    Rejected t fabric noc icac := by
  apply rejected_of_not_valid
  intro h; exact hd (h.1.2.1 c hc)

/-- expired: not-after lies before the node's time (reliable or last-known-good) -/
theorem validity_expired (t : Time) (fabric : FabricView) (noc : Cert) (icac : Option Cert)
    (c : Cert) (hc : c ∈ pathOf noc icac fabric.root) (h0 : c.notAfter ≠ 0)
    (hd : c.notAfter < t.anySecs) : Rejected t fabric noc icac := by
  apply validity t fabric noc icac c hc
  intro h; rcases h.1 with h1 | h1
  · exact h0 h1
  · omega

/-- not yet valid: not-before lies after the node's reliable time -/
theorem validity_not_yet (s : Nat) (fabric : FabricView) (noc : Cert) (icac : Option Cert)
    (c : Cert) (hc : c ∈ pathOf noc icac fabric.root) (hd : s < c.notBefore) :
    Rejected (.reliable s) fabric noc icac := by
  apply validity _ fabric noc icac c hc
  intro h
  have := h.2 s (by simp [Time.reliableSecs])
  omega

/-- **leaf is a CA certificate** -/
theorem leaf_is_ca_rejects (t : Time) (fabric : FabricView) (noc : Cert) (icac : Option Cert)
    (p : Option Nat) (hd : noc.bc = some (true, p)) : Rejected t fabric noc icac := by
  apply rejected_of_not_valid
  intro h
  have := h.1.2.2.2.1.2.1
  simp [hd] at this

/-- the authorities of the path (everything above the leaf) with the number of intermediates below -/
theorem valid_authority {t : Time} {root noc : Cert} {icac : Option Cert}
    (h : ChainValid t root noc icac) :
    ∀ c ∈ (pathOf noc icac root).tail, ∃ k, AuthorityProfile c k := by
  cases icac with
  | none =>
    simp [ChainValid, pathOf, List.zipIdx] at h ⊢
    exact ⟨0, h.2.2.2.2.1⟩
  | some ic =>
    simp [ChainValid, pathOf, List.zipIdx] at h ⊢
    exact ⟨⟨0, h.2.2.2.2.1.1⟩, ⟨1, h.2.2.2.2.1.2⟩⟩

/-- **CA without keyCertSign** (intermediate or root) -/
theorem ca_without_keycertsign (t : Time) (fabric : FabricView) (noc : Cert) (icac : Option Cert)
    (c : Cert) (hc : c ∈ (pathOf noc icac fabric.root).tail)
    (hd : c.keyUsage.any (fun ku => kuHas ku Consts.kuKeyCertSign) = false) :
    Rejected t fabric noc icac := by
  apply rejected_of_not_valid
  intro h
  obtain ⟨k, hk⟩ := valid_authority h.1 c hc
  rw [hk.2.2.1] at hd; cases hd

/-- **authority that is not a CA** (cA flag false or BasicConstraints absent) -/
theorem authority_not_ca (t : Time) (fabric : FabricView) (noc : Cert) (icac : Option Cert)
    (c : Cert) (hc : c ∈ (pathOf noc icac fabric.root).tail)
    (hd : c.bc.map Prod.fst ≠ some true) : Rejected t fabric noc icac := by
  apply rejected_of_not_valid
  intro h
  obtain ⟨k, hk⟩ := valid_authority h.1 c hc
  exact hd hk.2.1

/-- **path length**: a root limited to 0 intermediates above a chain that has one (the only limit that
can bite in a chain of at most three certificates; `path_len_root_limit` and, for the bare verifier at
any depth and any limit, `path_len_any_depth` are below) -/
theorem path_len (t : Time) (fabric : FabricView) (noc ic : Cert)
    (hd : fabric.root.bc = some (true, some 0)) : Rejected t fabric noc (some ic) := by
  apply rejected_of_not_valid
  intro h
  have h1 := h.1.2.2.2.2.1
  simp [pathOf, List.zipIdx] at h1
  have := h1.2.2.2.2 0 (by simp [hd])
  omega

/-- **unknown critical extension** anywhere on the path, in ANY `future-extensions` element of the
certificate (the first, or one behind non-critical ones) and at ANY position inside that element -/
theorem critical_ext (t : Time) (fabric : FabricView) (noc : Cert) (icac : Option Cert)
    (c : Cert) (hc : c ∈ pathOf noc icac fabric.root)
    (el : List FutExt) (hel : el ∈ c.futureExts) (e : FutExt) (he : e ∈ el) (hd : e.critical = true) :
    Rejected t fabric noc icac := by
  apply rejected_of_not_valid
  intro h
  have := h.1.2.2.1 c hc el hel e he
  rw [hd] at this; cases this

/-- the code's double loop (`has_critical_future_extension` over all elements, `der_blob_has_critical_extension`
over all sub-extensions) answers `true` exactly when some sub-extension of some element is critical -/
theorem hasCriticalFutureExtension_iff (l : List (List FutExt)) :
    hasCriticalFutureExtension l = true ↔ ∃ el ∈ l, ∃ e ∈ el, e.critical = true := by
  have h := hasCritical_false_iff l
  constructor
  · intro ht
    apply Classical.byContradiction
    intro hn
    have : hasCriticalFutureExtension l = false := h.2 (by
      intro el hel e he
      cases hc : e.critical with
      | false => rfl
      | true => exact absurd ⟨el, hel, e, he, hc⟩ hn)
    rw [this] at ht; cases ht
  · rintro ⟨el, hel, e, he, hc⟩
    cases hh : hasCriticalFutureExtension l with
    | true => rfl
    | false => have := h.1 hh el hel e he; rw [hc] at this; cases this

/-- … wherever it sits: appending / prepending non-critical elements and sub-extensions changes nothing -/
theorem critical_behind_noncritical (pre post : List (List FutExt)) (a b : List FutExt) (e : FutExt)
    (hd : e.critical = true) : hasCriticalFutureExtension (pre ++ (a ++ e :: b) :: post) = true :=
  (hasCriticalFutureExtension_iff _).2 ⟨a ++ e :: b, by simp, e, by simp, hd⟩

/-- **missing node id** -/
theorem missing_node_id (t : Time) (fabric : FabricView) (noc : Cert) (icac : Option Cert)
    (hd : nodeIdOf noc.subject = none) : Rejected t fabric noc icac := by
  apply rejected_of_not_valid
  intro h
  have := h.1.2.2.2.2.2
  simp [hd] at this

/-- **fabric id mismatch** (other fabric's id, or none at all) -/
theorem fabric_id_mismatch (t : Time) (fabric : FabricView) (noc : Cert) (icac : Option Cert)
    (hd : fabricIdOf noc.subject ≠ some fabric.fabricId) : Rejected t fabric noc icac := by
  apply rejected_of_not_valid
  intro h; exact hd h.2.1

/-- an intermediate that names another fabric -/
theorem icac_fabric_id_mismatch (t : Time) (fabric : FabricView) (noc ic : Cert) (f : Nat)
    (hf : fabricIdOf ic.subject = some f) (hd : f ≠ fabric.fabricId) :
    Rejected t fabric noc (some ic) := by
  apply rejected_of_not_valid
  intro h; exact hd (h.2.2 ic (by simp) f (by simp [hf]))

/-- **a NOC used as authority**: a certificate naming a node above the leaf -/
theorem noc_as_authority_rejected (t : Time) (fabric : FabricView) (noc : Cert) (icac : Option Cert)
    (c : Cert) (hc : c ∈ (pathOf noc icac fabric.root).tail) (n : Nat)
    (hd : nodeIdOf c.subject = some n) : Rejected t fabric noc icac := by
  apply rejected_of_not_valid
  intro h
  obtain ⟨k, hk⟩ := valid_authority h.1 c hc
  exact not_authority_of_node hd k hk

/-- a CA-shaped certificate (naming an authority, alone or next to a node) as the leaf -/
theorem ca_named_leaf_rejects (t : Time) (fabric : FabricView) (noc : Cert) (icac : Option Cert)
    (hd : CType.icac ∈ idAttrs noc.subject ∨ CType.rcac ∈ idAttrs noc.subject) :
    Rejected t fabric noc icac := by
  apply rejected_of_not_valid
  intro h
  have := h.1.2.2.2.1.1
  rw [this] at hd; simp at hd

/-- **self-signed ICAC** is refused when installing credentials -/
theorem self_signed_icac (t : Time) (root : Cert) (k : KeyId) (fs : List FabricEntry)
    (noc ic : Cert) (hd : ic.akid = ic.skid) : InstallRejected t root k fs noc (some ic) := by
  apply install_rejected_of_not_valid
  intro h; exact h.2.1 ic (by simp) hd

/-- **AddNOC requires the CSR key** -/
theorem addnoc_requires_csr_key (t : Time) (root : Cert) (k : KeyId) (fs : List FabricEntry)
    (noc : Cert) (icac : Option Cert) (hd : noc.pubKey ≠ k) : InstallRejected t root k fs noc icac := by
  apply install_rejected_of_not_valid
  intro h; exact hd h.2.2.1

/-- and says so: with a chain that is otherwise acceptable the answer is `InvalidPublicKey` -/
theorem addnoc_wrong_key_error (t : Time) (root : Cert) (k : KeyId) (fs : List FabricEntry)
    (noc : Cert) (icac : Option Cert) (hv : validateInstall t noc icac root = .ok ())
    (hd : noc.pubKey ≠ k) : addNoc t root k fs noc icac = .error .nocInvalidPublicKey := by
  unfold addNoc
  have : k ≠ noc.pubKey := fun h => hd h.symm
  simp [hv, this]

/-- **AddNOC refuses an existing fabric** (same fabric id under the same root key) -/
theorem addnoc_refuses_existing_fabric (t : Time) (root : Cert) (k : KeyId) (fs : List FabricEntry)
    (noc : Cert) (icac : Option Cert) (fid : Nat) (hf : fabricIdOf noc.subject = some fid)
    (hd : ({ fabricId := fid, rootPubKey := root.pubKey } : FabricEntry) ∈ fs) :
    InstallRejected t root k fs noc icac := by
  apply install_rejected_of_not_valid
  intro h
  obtain ⟨fid', h1, h2⟩ := h.2.2.2
  rw [hf] at h1; cases h1
  exact h2 _ hd ⟨rfl, rfl⟩

/-- … wherever in the table it sits, in particular BEHIND another fabric with the same fabric id under another
root: a fabric is identified by (fabric id, root public key) together, the check runs over the whole table -/
theorem addnoc_refuses_existing_fabric_any_position (t : Time) (root : Cert) (k : KeyId)
    (pre post : List FabricEntry) (noc : Cert) (icac : Option Cert) (fid : Nat)
    (hf : fabricIdOf noc.subject = some fid) :
    InstallRejected t root k (pre ++ { fabricId := fid, rootPubKey := root.pubKey } :: post) noc icac :=
  addnoc_refuses_existing_fabric t root k _ noc icac fid hf (by simp)

/-- and the code says so: an otherwise acceptable AddNOC for an installed (id, root key) pair is answered with
`NocFabricConflict`, whatever else is installed before or after it -/
theorem addnoc_conflict_error (t : Time) (root : Cert) (k : KeyId) (pre post : List FabricEntry)
    (noc : Cert) (icac : Option Cert) (fid : Nat) (hv : validateInstall t noc icac root = .ok ())
    (hk : noc.pubKey = k) (hf : fabricIdOf noc.subject = some fid) :
    addNoc t root k (pre ++ { fabricId := fid, rootPubKey := root.pubKey } :: post) noc icac =
      .error .nocFabricConflict := by
  unfold addNoc
  have : (pre ++ ({ fabricId := fid, rootPubKey := root.pubKey } : FabricEntry) :: post).any
      (fun f => fid == f.fabricId && root.pubKey == f.rootPubKey) = true := by simp
  simp [hv, hk, hf, this]

/-- the table a sequence of commissioning rounds builds: an accepted AddNOC appends its fabric -/
def installStep (t : Time) (k : KeyId) (fabs : List FabricEntry) (req : Cert × Cert × Option Cert) :
    List FabricEntry :=
  match addNoc t req.1 k fabs req.2.1 req.2.2 with
  | .ok (fid, _) => fabs ++ [{ fabricId := fid, rootPubKey := req.1.pubKey }]
  | .error _ => fabs

/-- **no sequence of installs ever yields two fabrics with the same (fabric id, root key)** -/
theorem install_sequence_distinct (t : Time) (k : KeyId) (reqs : List (Cert × Cert × Option Cert)) :
    ∀ fabs : List FabricEntry, fabs.Nodup → (reqs.foldl (installStep t k) fabs).Nodup := by
  induction reqs with
  | nil => intro fabs h; exact h
  | cons r rs ih =>
    intro fabs h
    apply ih
    unfold installStep
    cases hr : addNoc t r.1 k fabs r.2.1 r.2.2 with
    | error e => exact h
    | ok p =>
      obtain ⟨fid, n⟩ := p
      have hv := (install_iff_valid t r.1 k fabs r.2.1 r.2.2).1 ⟨_, hr⟩
      obtain ⟨hfid, _⟩ := addNoc_identity t r.1 k fabs r.2.1 r.2.2 fid n hr
      obtain ⟨fid', h1, h2⟩ := hv.2.2.2
      rw [hfid] at h1; cases h1
      rw [List.nodup_append]
      refine ⟨h, by simp, ?_⟩
      intro a ha b hb
      simp only [List.mem_cons, List.not_mem_nil, or_false] at hb
      rw [hb]
      intro heq
      exact h2 a ha (by rw [heq]; exact ⟨rfl, rfl⟩)

/-- a fabric with the same id under another root, or another id under the same root, is no obstacle -/
theorem addnoc_other_fabrics_ok (t : Time) (root : Cert) (k : KeyId) (fs : List FabricEntry)
    (noc : Cert) (icac : Option Cert) (h : InstallValid t root k [] noc icac) (fid : Nat)
    (hf : fabricIdOf noc.subject = some fid)
    (hd : ∀ f ∈ fs, f.fabricId ≠ fid ∨ f.rootPubKey ≠ root.pubKey) :
    InstallValid t root k fs noc icac := by
  refine ⟨h.1, h.2.1, h.2.2.1, fid, hf, ?_⟩
  intro f hfm hc
  rcases hd f hfm with h1 | h1
  · exact h1 hc.1
  · exact h1 hc.2

/-- error class of the most common attack: on an otherwise valid chain a leaf signature that
verifies under no key is answered with `InvalidSignature` -/
theorem flip_signature_error_class (t : Time) (fabric : FabricView) (noc : Cert) (icac : Option Cert)
    (h : CaseValid t fabric noc icac) :
    caseAccept t fabric { noc with sigBy := none } icac = .error .invalidSignature := by
  have hi := valid_leaf_issued h.1
  have hn := h.1.2.2.2.2.2
  have hf := h.2.1
  unfold caseAccept validateCase
  cases hnn : nodeIdOf noc.subject with
  | none => simp [hnn] at hn
  | some n =>
    obtain ⟨k, hk⟩ := Option.isSome_iff_exists.1 hi.2.2.1
    have hak : noc.akid = some k := by rw [hi.2.2.2, hk]
    cases icac with
    | none =>
      simp [leafIssuer] at hk hi
      simp [hf, addCert, isAuthority, hk, hak, hi.2.1, bind, Except.bind]
    | some ic =>
      simp [leafIssuer] at hk hi
      have h3 : icacOtherFabric ic fabric.fabricId = false :=
        (icacOtherFabric_false_iff ic fabric.fabricId).2 (h.2.2 ic (by simp))
      simp [hf, h3, addCert, isAuthority, hk, hak, hi.2.1, bind, Except.bind]


/-! ## The bare verifier on chains of any length; staging a root -/

/-- `PathValid` from an arbitrary starting depth -/
def PathValidFrom (t : Time) (depth : Nat) (p : List Cert) : Prop :=
  (∀ pr ∈ p.zip (p.tail ++ p.getLast?.toList), Issues pr.2 pr.1) ∧
  (∀ c ∈ p, Covers t c ∧ NoUnknownCritical c) ∧
  ∀ pr ∈ p.zipIdx depth, PositionOk pr.1 pr.2

theorem verifyFrom_iff (t : Time) (ps : List Cert) : ∀ (cur : Cert) (depth : Nat),
    depth + ps.length < 255 →
    (verifyFrom t cur depth ps = .ok () ↔ PathValidFrom t depth (cur :: ps)) := by
  induction ps with
  | nil =>
    intro cur depth _
    simp [verifyFrom, finalise_ok_iff, PathValidFrom, List.zipIdx]
    grind
  | cons p ps ih =>
    intro cur depth hb
    have hm : min (depth + 1) 255 = depth + 1 := by simp at hb; omega
    have := ih p (depth + 1) (by simp at hb ⊢; omega)
    unfold verifyFrom
    rw [step_ok, hm, this]
    simp [PathValidFrom, List.zipIdx_cons, List.getLast?_cons_cons]
    grind


/-- **contract of the bare `CertVerifier`** on a list of any length the `u8` depth can count:
`leaf.verify_chain_start().add_cert(c1)…add_cert(cn).finalise()` succeeds iff `PathValid`. -/
theorem verifyChain_iff_pathValid (t : Time) (p : List Cert) (hl : p.length ≤ 255) :
    verifyChain t p = .ok () ↔ PathValid t p := by
  cases p with
  | nil => simp [verifyChain, PathValid]
  | cons c ps =>
    unfold verifyChain
    rw [verifyFrom_iff t ps c 0 (by simp at hl; omega)]
    simp [PathValidFrom, PathValid, PositionOk]

/-- `AddTrustedRootCertificate` stages exactly the stand-alone certificates satisfying `RootValid` -/
theorem addTrustedRoot_iff (t : Time) (root : Cert) : addTrustedRoot t root = true ↔ RootValid t root := by
  unfold addTrustedRoot RootValid
  cases hf : finalise t root 0 with
  | error e =>
    have : ¬ (Issues root root ∧ Covers t root ∧ root.critFuture = false ∧ PositionOk root 0) := by
      rw [← finalise_ok_iff, hf]; simp
    simp only [Bool.false_eq_true, false_iff]
    intro h; apply this
    refine ⟨h.1, h.2.1, (noUnknownCritical_iff root).1 h.2.2.1, ?_⟩
    rcases h.2.2.2.1 with h1 | h1
    · exact Or.inr h1
    · exact Or.inl ⟨rfl, h1⟩
  | ok u =>
    have h := (finalise_ok_iff t root 0).1 hf
    have hp : AuthorityProfile root 0 ∨ LeafProfile root := by
      rcases h.2.2.2 with h1 | h1
      · exact Or.inr h1.2
      · exact Or.inl h1
    cases hbc : root.bc with
    | none => simp [h.1, h.2.1, h.2.2.1, hp]
    | some b =>
      obtain ⟨ca, pl⟩ := b
      cases pl with
      | none => simp [h.1, h.2.1, h.2.2.1, hp]
      | some n => simp [h.1, h.2.1, h.2.2.1, hp]


/-- **path length, any depth and any limit** (bare verifier): an authority at position `i ≥ 1` of
the path — `i - 1` intermediate authorities lie between it and the leaf — whose BasicConstraints
allow fewer than that -/
theorem path_len_any_depth (t : Time) (p : List Cert) (hl : p.length ≤ 255) (i : Nat) (c : Cert)
    (hi : p[i]? = some c) (ca : Bool) (n : Nat) (hbc : c.bc = some (ca, some n)) (hd : n + 1 < i) :
    verifyChain t p ≠ .ok () := by
  intro h
  have hv := (verifyChain_iff_pathValid t p hl).1 h
  have hm : (c, i) ∈ p.zipIdx := by
    rw [List.mem_zipIdx_iff_getElem?]; simpa using hi
  rcases hv.2.2.2 (c, i) hm with ⟨h0, _⟩ | ha
  · simp at h0; omega
  · have := ha.2.2.2 n (by simp [hbc])
    simp at this; omega

/-- the same in a CASE chain: the only limit that can bite in `noc ← icac ← root` is 0 on the root
(`path_len`); stated for any limit the root may carry -/
theorem path_len_root_limit (t : Time) (fabric : FabricView) (noc ic : Cert) (ca : Bool) (n : Nat)
    (hd : fabric.root.bc = some (ca, some n)) (hn : n < 1) : Rejected t fabric noc (some ic) := by
  apply rejected_of_not_valid
  intro h
  have h1 := h.1.2.2.2.2.1
  simp [pathOf, List.zipIdx] at h1
  have := h1.2.2.2.2 n (by simp [hd])
  omega

/-! ## Staging a root: what the property sentence asks for, and what the code accepts beyond it -/

/-- a stand-alone certificate that IS a root authority: self-issued CA certificate (the sentence's
"self-signed root … the authorities are CA certificates") -/
def RootValidStrict (t : Time) (root : Cert) : Prop :=
  Issues root root ∧ Covers t root ∧ NoUnknownCritical root ∧ AuthorityProfile root 0 ∧
    ∀ n ∈ root.bc.bind Prod.snd, n ≤ 1

/-- what `AddTrustedRootCertificate` stages beyond that: a self-signed certificate with the LEAF
profile (`finalise` at depth 0 runs the leaf branch of `verify_usage`) -/
theorem rootValid_iff (t : Time) (root : Cert) :
    RootValid t root ↔ RootValidStrict t root ∨
      (Issues root root ∧ Covers t root ∧ NoUnknownCritical root ∧ LeafProfile root ∧
        ∀ n ∈ root.bc.bind Prod.snd, n ≤ 1) := by
  unfold RootValid RootValidStrict
  constructor
  · rintro ⟨h1, h2, h3, h4 | h4, h5⟩
    · exact Or.inl ⟨h1, h2, h3, h4, h5⟩
    · exact Or.inr ⟨h1, h2, h3, h4, h5⟩
  · rintro (⟨h1, h2, h3, h4, h5⟩ | ⟨h1, h2, h3, h4, h5⟩)
    · exact ⟨h1, h2, h3, Or.inl h4, h5⟩
    · exact ⟨h1, h2, h3, Or.inr h4, h5⟩

/-- **a leaf-shaped "root" is inert**: no chain whatsoever is valid under it (so staging it has no
consequence other than the AddNOC that follows failing) -/
theorem leaf_shaped_root_unusable (t : Time) (root noc : Cert) (icac : Option Cert)
    (h : LeafProfile root) : ¬ ChainValid t root noc icac := by
  intro hv
  obtain ⟨k, hk⟩ := valid_authority hv root (by cases icac <;> simp [pathOf])
  rcases hk.1 with h1 | h1 <;> rw [h.1] at h1 <;> cases h1

/-- every root the staging command accepts is a root authority in the sentence's sense, or inert -/
theorem staged_root_strict_or_inert (t : Time) (root : Cert) (h : addTrustedRoot t root = true) :
    RootValidStrict t root ∨ ∀ t' noc icac, ¬ ChainValid t' root noc icac := by
  rcases (rootValid_iff t root).1 ((addTrustedRoot_iff t root).1 h) with h1 | h1
  · exact Or.inl h1
  · exact Or.inr fun t' noc icac => leaf_shaped_root_unusable t' root noc icac h1.2.2.2.1

/-! ## Non-vacuity: a concrete valid chain and its single mutations -/

def exRoot : Cert :=
  { subject := [.rootCaId 1, .fabricId 7], issuer := [.rootCaId 1, .fabricId 7], notBefore := 10,
    notAfter := 0, bc := some (true, none), keyUsage := some 0x60, eku := none, skid := some 0,
    akid := some 0, futureExts := [], pubKey := 0, sigBy := some 0 }

def exIcac : Cert :=
  { subject := [.icaId 2, .fabricId 7], issuer := [.rootCaId 1, .fabricId 7], notBefore := 10,
    notAfter := 1000, bc := some (true, some 0), keyUsage := some 0x60, eku := none, skid := some 1,
    akid := some 0, futureExts := [], pubKey := 1, sigBy := some 0 }

def exNoc : Cert :=
  { subject := [.nodeId 5, .fabricId 7, .cat 65537], issuer := [.icaId 2, .fabricId 7],
    notBefore := 10, notAfter := 1000, bc := some (false, none), keyUsage := some 1,
    eku := some [1, 2], skid := some 9, akid := some 1, futureExts := [], pubKey := 9,
    sigBy := some 1 }

/-- the same leaf issued directly by the root -/
def exNocDirect : Cert :=
  { exNoc with issuer := [.rootCaId 1, .fabricId 7], akid := some 0, sigBy := some 0 }

def exFabric : FabricView := { fabricId := 7, root := exRoot }
def exT : Time := .reliable 100

example : CaseValid exT exFabric exNoc (some exIcac) := by decide
example : CaseValid (.lastKnown 1000) exFabric exNocDirect none := by decide
example : caseAccept exT exFabric exNoc (some exIcac) = .ok 5 := by rfl
example : InstallValid exT exRoot 9 [⟨7, 3⟩, ⟨8, 0⟩] exNoc (some exIcac) := by decide
example : addNoc exT exRoot 9 [⟨7, 3⟩, ⟨8, 0⟩] exNoc (some exIcac) = .ok (7, 5) := by rfl
example : UpdateValid exT exFabric 9 exNocDirect none := by decide

-- one mutation each; the stated error class is what the model (and, by the correspondence
-- check, the implementation) answers
example : caseAccept exT exFabric { exNoc with sigBy := none } (some exIcac) = .error .invalidSignature := by rfl
example : caseAccept exT exFabric exNoc (some { exIcac with sigBy := none }) = .error .invalidSignature := by rfl
example : caseAccept exT { exFabric with root := { exRoot with sigBy := none } } exNoc (some exIcac)
    = .error .invalidSignature := by rfl
example : caseAccept exT exFabric { exNoc with issuer := [.icaId 3, .fabricId 7] } (some exIcac)
    = .error .invalidAuthKey := by rfl
example : caseAccept exT exFabric { exNoc with akid := some 4 } (some exIcac) = .error .invalidAuthKey := by rfl
example : caseAccept (.reliable 1001) exFabric exNoc (some exIcac) = .error .invalidTime := by rfl
example : caseAccept (.lastKnown 1001) exFabric exNoc (some exIcac) = .error .invalidTime := by rfl
example : caseAccept (.reliable 9) exFabric exNoc (some exIcac) = .error .invalidTime := by rfl
example : caseAccept (.lastKnown 9) exFabric exNoc (some exIcac) = .ok 5 := by rfl
example : caseAccept exT exFabric { exNoc with bc := some (true, none) } (some exIcac) = .error .invalidData := by rfl
example : caseAccept exT exFabric exNoc (some { exIcac with keyUsage := some 0x40 }) = .error .invalidData := by rfl
example : caseAccept exT { exFabric with root := { exRoot with bc := some (true, some 0) } } exNoc (some exIcac)
    = .error .invalidData := by rfl
example : caseAccept exT { exFabric with root := { exRoot with bc := some (true, some 1) } } exNoc (some exIcac)
    = .ok 5 := by rfl
example : caseAccept exT exFabric { exNoc with futureExts := [[⟨1, true⟩]] } (some exIcac) = .error .invalidData := by rfl
-- the critical sub-extension in the SECOND `future-extensions` element, behind a non-critical one; last of three;
-- second inside one element; on the ICAC; on the root — all refused; only non-critical ones: accepted
example : caseAccept exT exFabric { exNoc with futureExts := [[⟨1, false⟩], [⟨2, true⟩]] } (some exIcac) = .error .invalidData := by rfl
example : caseAccept exT exFabric { exNoc with futureExts := [[⟨1, false⟩], [⟨2, false⟩], [⟨4, true⟩]] } (some exIcac) = .error .invalidData := by rfl
example : caseAccept exT exFabric { exNoc with futureExts := [[⟨1, false⟩, ⟨2, true⟩]] } (some exIcac) = .error .invalidData := by rfl
example : caseAccept exT exFabric exNoc (some { exIcac with futureExts := [[⟨1, false⟩], [⟨2, true⟩]] }) = .error .invalidData := by rfl
example : caseAccept exT { exFabric with root := { exRoot with futureExts := [[⟨1, false⟩], [⟨2, true⟩]] } } exNoc (some exIcac)
    = .error .invalidData := by rfl
example : caseAccept exT exFabric { exNoc with futureExts := [[⟨1, false⟩, ⟨2, false⟩], [⟨4, false⟩]] } (some exIcac) = .ok 5 := by rfl
example : ¬ CaseValid exT exFabric { exNoc with futureExts := [[⟨1, false⟩], [⟨2, true⟩]] } (some exIcac) := by decide
example : caseAccept exT exFabric { exNoc with subject := [.fabricId 7] } (some exIcac) = .error .noNodeId := by rfl
example : caseAccept exT exFabric { exNoc with subject := [.nodeId 5, .fabricId 8] } (some exIcac)
    = .error .invalid := by rfl
example : caseAccept exT exFabric { exNoc with subject := [.nodeId 5] } (some exIcac) = .error .noFabricId := by rfl
def exCaLeaf : Cert :=
  { exNoc with subject := [.icaId 6, .nodeId 5, .fabricId 7], bc := some (true, none), keyUsage := some 0x21 }
example : caseAccept exT exFabric exCaLeaf (some exIcac) = .error .invalidData := by rfl
-- a NOC as authority
def exNocAuthority : Cert :=
  { exIcac with subject := [.nodeId 8, .fabricId 7], bc := some (false, none), keyUsage := some 1, eku := some [1, 2] }
example : caseAccept exT exFabric { exNoc with issuer := [.nodeId 8, .fabricId 7] } (some exNocAuthority)
    = .error .invalidData := by rfl
-- installing
example : addNoc exT exRoot 9 [] exNocDirect (some exRoot) = .error .nocInvalidNoc := by rfl
example : addNoc exT exRoot 4 [] exNoc (some exIcac) = .error .nocInvalidPublicKey := by rfl
example : addNoc exT exRoot 9 [⟨7, 0⟩] exNoc (some exIcac) = .error .nocFabricConflict := by rfl
-- the three-step sequence: the node is on (root key 3, id 7); it joins (root key 0, id 7) — legal; a further fully
-- valid AddNOC for (root key 0, id 7) is refused although the FIRST fabric with id 7 has another root
example : addNoc exT exRoot 9 [⟨7, 3⟩] exNoc (some exIcac) = .ok (7, 5) := by rfl
example : addNoc exT exRoot 9 [⟨7, 3⟩, ⟨7, 0⟩] exNoc (some exIcac) = .error .nocFabricConflict := by rfl
example : ¬ InstallValid exT exRoot 9 [⟨7, 3⟩, ⟨7, 0⟩] exNoc (some exIcac) := by decide
example : [(exRoot, exNoc, some exIcac), (exRoot, exNoc, some exIcac)].foldl (installStep exT 9) [⟨7, 3⟩] =
    [⟨7, 3⟩, ⟨7, 0⟩] := by rfl
-- hypotheses of the lemmas are satisfiable on the mutated chains
example : ({ exNoc with sigBy := none } : Cert) ∈ pathOf { exNoc with sigBy := none } (some exIcac) exFabric.root := by decide
example : exIcac ∈ (pathOf exNoc (some exIcac) exFabric.root).tail := by decide
example : ({ fabricId := 7, rootPubKey := exRoot.pubKey } : FabricEntry) ∈ [⟨7, 0⟩] := by decide
example : exRoot.akid = exRoot.skid := by decide

-- consistent DOUBLE change: one root key serving two fabric ids.  NOC and ICAC both name fabric 8 and agree
-- with each other in every respect (names, key ids, signatures); presented for fabric 7 the chain is refused,
-- by the NOC clause and by the ICAC clause independently (`fabric_id_mismatch` / `icac_fabric_id_mismatch`
-- make no assumption on the other certificate)
def exIcacY : Cert := { exIcac with subject := [.icaId 2, .fabricId 8] }
def exNocY : Cert := { exNoc with subject := [.nodeId 5, .fabricId 8, .cat 65537], issuer := [.icaId 2, .fabricId 8] }
example : verifyChain exT [exNocY, exIcacY, exRoot] = .ok () := by rfl
example : ¬ CaseValid exT exFabric exNocY (some exIcacY) := by decide
example : caseAccept exT exFabric exNocY (some exIcacY) = .error .invalid := by rfl
example : caseAccept exT exFabric exNoc (some exIcacY) = .error .invalid := by rfl
example : caseAccept exT exFabric exNocY (some { exIcac with subject := [.icaId 2] }) = .error .invalid := by rfl
-- the same chain IS valid for fabric 8 under that root
example : caseAccept exT { exFabric with fabricId := 8 } exNocY (some exIcacY) = .ok 5 := by rfl

-- chains of other lengths through the bare verifier
example : verifyChain exT [exNoc, exIcac, exRoot] = .ok () := by rfl
example : verifyChain exT [exRoot] = .ok () := by rfl
example : PathValid exT [exNoc, exIcac, exRoot] := by decide
example : addTrustedRoot exT exRoot = true := by rfl
example : addTrustedRoot exT { exRoot with bc := some (true, some 2) } = false := by rfl

/-! ## What the symbolic signature does NOT say, and the decided readings of the specification

* **Signatures are symbolic**: `sigBy` names the key under which the signature verifies and binds no
  content.  `Issues`' first clause and `addCert`'s signature test are the same expression, so "signed
  by the next one" is definitional in Lean, and a field changed WITHOUT touching `sigBy` stays
  "validly signed" — the quantifier "every mutation of a valid chain in exactly one respect" is, for
  un-re-signed changes, covered by the harness only (`tlvm rs=0`: every TLV field of every
  certificate, one bit, presented with the old signature ⇒ refused by the real ECDSA check); in Lean
  only `sigBy := none` stands for "altered after signing". -/
example : caseAccept exT exFabric { exNoc with subject := [.nodeId 99, .fabricId 7] } (some exIcac) = .ok 99 := by rfl

/-! * **Authority kind is not tied to position** (`AuthorityProfile` accepts a subject naming an ICA or
  a root CA at every authority position): the sentence asks for "CA certificates within their
  path-length limit" and a trusted root "for the purpose at hand" — the root is the certificate the
  fabric was installed with, whatever it calls itself, and an intermediate is anchored by its
  signature, not by its name.  Decided: the code is right under the sentence (the CHIP SDK's chain
  validation does not tie the kind to the position either); kept. -/
def exRootIcaNamed : Cert := { exRoot with subject := [.icaId 1, .fabricId 7], issuer := [.icaId 1, .fabricId 7] }
def exIcacRootNamed : Cert := { exIcac with subject := [.rootCaId 2, .fabricId 7], issuer := [.icaId 1, .fabricId 7] }
example : CaseValid exT { exFabric with root := exRootIcaNamed }
    { exNoc with issuer := [.rootCaId 2, .fabricId 7] } (some exIcacRootNamed) := by decide

/-! * **The root's own fabric id is never compared** (the leaf's is, and the intermediate's if it has
  one): the sentence asks for "the leaf carries … the fabric identifier of the fabric it is used
  for".  A fabric id inside the trusted root is a well-formedness rule of Matter's certificate
  profile about what a commissioner may install, not part of the sentence, and nothing an attacker
  can use (the root is trusted by installation).  Decided: right under the sentence; kept, noted in
  `docs/C19.md` as a difference to the profile. -/
def exRoot8 : Cert := { exRoot with subject := [.rootCaId 1, .fabricId 8], issuer := [.rootCaId 1, .fabricId 8] }
example : CaseValid exT { fabricId := 7, root := exRoot8 }
    { exNocDirect with issuer := [.rootCaId 1, .fabricId 8] } none := by decide

/-! * **`RootValid` has a leaf-profile disjunct** because `AddTrustedRootCertificate` runs `finalise` at
  depth 0, i.e. the LEAF branch of `verify_usage`, on the candidate: a self-signed NOC-shaped
  certificate is staged.  The sentence's notion is `RootValidStrict`; `rootValid_iff` splits the
  code's contract into that and the leaf-shaped rest, `leaf_shaped_root_unusable` /
  `staged_root_strict_or_inert` show the rest is inert (no chain is valid under it).  Decided: no
  chain is accepted that the sentence refuses, so not a violation of the sentence; it IS laxer than
  the CHIP SDK's `ValidateChipRCAC` (which demands the root certificate type) — noted, not changed. -/
def exLeafRoot : Cert :=
  { exNocDirect with issuer := exNocDirect.subject, akid := exNocDirect.skid, sigBy := some exNocDirect.pubKey }
example : addTrustedRoot exT exLeafRoot = true ∧ ¬ RootValidStrict exT exLeafRoot := by
  refine ⟨by rfl, ?_⟩
  intro h
  have := h.2.2.2.1.1
  revert this; decide
-- `path_len_any_depth` applied: a limit of 0 at position 3 of a four-certificate path
def exRoot0 : Cert := { exRoot with bc := some (true, some 0) }
example : verifyChain exT [exNoc, exIcac, exRoot0, exRoot0] ≠ .ok () :=
  path_len_any_depth exT [exNoc, exIcac, exRoot0, exRoot0] (by decide) 3 exRoot0 rfl true 0 rfl (by decide)

end C19
