import RsMatterVerif.Model.Chunk
/-!
# Cursor-level model of the attribute section of a chunked `ReportData` answer

`Model/Chunk.lean` abstracts a report to its size and writes it atomically.  This file refines the
attribute section (`ReportDataResponder::report_attributes`, `send_array_items`,
`HandlerInvoker::process_read`, `WriteBuf`) to the level at which the property's anchors live:

* the **transmit buffer** is a `WriteBuf`: the bytes `[0, end)` that `as_slice()` sends (`live`) and the
  bytes behind `end` that earlier writes left in the array (`dead`; `reset()` and `rewind_to` only move
  `end`, they erase nothing).  Every byte (`Cell`) remembers which write produced it and its offset in
  that write, so "a report lies wholly in one message" and "a rewind leaves no partial report behind"
  are statements about the bytes that are sent;
* a **write can fail half way**: a report of `n` bytes that does not fit leaves `pw n avail ≤ avail`
  of its bytes in the buffer before the writer returns `NoSpace` (`pw` is a parameter: the theorems
  hold for every such function, the driver runs the worst case `avail`);
* the **rewind position** is explicit: `process_read` remembers `tail` and rewinds to it on an error
  (`invoker.rs`), every iteration of the loop of `send_array_items` remembers `pos = wb.get_tail()`
  and rewinds to it when the read fails (`NoSpace`, or `ConstraintError` = end of the list, after the
  report header was written);
* the **list cursor** is explicit: `list_index : Option Nat` (`none` = the read of the empty list that
  starts the streamed form), advanced only after a successful read; the element to read is looked up
  by index (`elems[i]?`, past the end: the handler writes the report header and answers
  `ConstraintError`); after `NoSpace` the chunk is sent and THE SAME index is read again;
* the **loops are loops** (`loop { … }` in the Rust) with fuel: `Err.loops` on exhaustion, proved
  unreachable in `Lemmas/ChunkCursor.lean` (`itemLoop_sim`, `arrLoop_elems`, `sendArrayItems_sim`, `cputItem_sim`) — for lists of at most
  `idxMax` = 65535 elements: the index is a `u16` and `list_index + 1` is modelled as a checked addition
  (`nextIdx`, `Err.overflow`; `arrStep_overflow`: element 65535 of a longer list is the last one read).

`arrStep … (stale := true)` is the seeded change C14-a (`seeded/C14-a/patch.diff`): `pos` is taken once
before the loop and refreshed only after a successful read, so it is stale after a chunk was sent.
`Lemmas/ChunkCursor.lean`: the faithful model (`stale := false`) simulates `Model/Chunk.lean`
(`cputAttrs_sim`); for the stale variant the theorem fails (`stale_rewind_breaks_reassembly`).

Import-free (apart from `Model/Chunk.lean`).
-/
namespace Chunk

/-- which write produced a byte of the transmit buffer -/
inductive Src
  /-- `start_reply`: struct start (+ subscription id) -/
  | hdr
  /-- `start_array(AttributeReports)` -/
  | arrOpen
  /-- an attribute report -/
  | rep (p : Piece)
  /-- the report header that the read of list index `idx` of list `id` writes before the handler
  answers `ConstraintError` (no such element) -/
  | probe (id : Nat) (idx : Nat)
deriving Repr, DecidableEq, Inhabited

/-- a byte of the transmit buffer: its origin and its offset in the write it belongs to -/
structure Cell where
  src : Src
  off : Nat
deriving Repr, DecidableEq, Inhabited

/-- the first `n` bytes of a write -/
def cellsOf (src : Src) (n : Nat) : List Cell := (List.range n).map fun i => ⟨src, i⟩

/-- the bytes of a complete report -/
def Piece.cells (p : Piece) : List Cell := cellsOf (.rep p) p.size

/-- `WriteBuf`: `live` = `buf[0 .. end)`, `dead` = what is in the array behind `end` -/
structure WB where
  live : List Cell
  dead : List Cell
deriving Repr, DecidableEq, Inhabited

/-- `get_tail()` -/
def WB.tail (w : WB) : Nat := w.live.length

/-- `rewind_to(pos)` = `self.end = pos`: nothing is erased, and nothing stops `pos` from lying
behind the current `end` -/
def WB.rewindTo (w : WB) (pos : Nat) : WB :=
  { live := (w.live ++ w.dead).take pos, dead := (w.live ++ w.dead).drop pos }

/-- append bytes at `end` (overwriting what was there) -/
def WB.push (w : WB) (cs : List Cell) : WB := { live := w.live ++ cs, dead := w.dead.drop cs.length }

/-- how many bytes of a write of `n` bytes reach the buffer when only `avail < n` are free -/
abbrev PW := Nat → Nat → Nat

/-- a TLV write of `n` bytes with `buf_size = lim`: all of it, or a part of it and `NoSpace` (`false`) -/
def WB.put (w : WB) (lim : Nat) (pw : PW) (src : Src) (n : Nat) : WB × Bool :=
  if w.tail + n ≤ lim then (w.push (cellsOf src n), true)
  else (w.push (cellsOf src (min (pw n (lim - w.tail)) (lim - w.tail))), false)

/-- what `start_reply` + `start_array(AttributeReports)` write -/
def frame (c : Cfg) : List Cell := cellsOf .hdr c.hdr ++ cellsOf .arrOpen c.arrOpen

/-- the responder in the attribute section: the transmit buffer and the messages sent so far (newest
first; each is `as_slice()` without the trailer that `end_reply` appends from the reserve) -/
structure CSt where
  wb : WB
  sent : List (List Cell)
deriving Repr, DecidableEq, Inhabited

/-- after `start_reply` + `start_array`; `garbage`: what the buffer held before -/
def CSt.init (c : Cfg) (garbage : List Cell) : CSt :=
  { wb := (WB.mk [] garbage).push (frame c), sent := [] }

/-- `send(ChunkingAttributes)`: the message goes out, `start_reply` resets the buffer (`end = 0`) and
writes the header and the array start again -/
def CSt.flush (c : Cfg) (x : CSt) : CSt :=
  { sent := x.wb.live :: x.sent, wb := (x.wb.rewindTo 0).push (frame c) }

/-- `HandlerInvoker::process_read`: remember the tail, write the report, rewind on an error -/
def CSt.processRead (c : Cfg) (pw : PW) (x : CSt) (p : Piece) : CSt × Bool :=
  let tail := x.wb.tail
  let r := x.wb.put c.limit pw (.rep p) p.size
  if r.2 then ({ x with wb := r.1 }, true) else ({ x with wb := r.1.rewindTo tail }, false)

/-- one iteration of the `loop` of `report_attributes` for an item that is not a whole-list read
(`isSt`: the item was already replaced by its error status).  `rs` = `reports_start`.
`inl`: go round again; `inr`: the loop ends (the flag: the status was written) -/
def itemStep (c : Cfg) (pw : PW) (rs : Nat) (p st : Piece) (isSt : Bool) (x : CSt) :
    Sum (Bool × CSt) (Except Err (CSt × Bool)) :=
  let r := x.processRead c pw (if isSt then st else p)
  if r.2 then .inr (.ok (r.1, isSt))
  else if r.1.wb.tail == rs then
    -- the message is empty and the report still does not fit
    if isSt then .inr (.error .noSpace) else .inl (true, r.1)
  else .inl (isSt, r.1.flush c)

def itemLoop (c : Cfg) (pw : PW) (rs : Nat) (p st : Piece) : Nat → Bool → CSt → Except Err (CSt × Bool)
  | 0, _, _ => .error .loops
  | fuel + 1, isSt, x =>
    match itemStep c pw rs p st isSt x with
    | .inl r => itemLoop c pw rs p st fuel r.1 r.2
    | .inr r => r

/-- the `NoSpace` arm of `report_attributes` before `fix: long reads: a report that fits no message …`:
no test for an empty message — the chunk is sent and the read repeated, whatever the chunk holds -/
def itemStepOld (c : Cfg) (pw : PW) (p : Piece) (x : CSt) : Sum CSt (Except Err CSt) :=
  let r := x.processRead c pw p
  if r.2 then .inr (.ok r.1) else .inl (r.1.flush c)

def itemLoopOld (c : Cfg) (pw : PW) (p : Piece) : Nat → CSt → Except Err CSt
  | 0, _ => .error .loops
  | fuel + 1, x =>
    match itemStepOld c pw p x with
    | .inl x1 => itemLoopOld c pw p fuel x1
    | .inr r => r

/-- a list attribute as `send_array_items` sees it (the fields of `Item.list`) -/
structure ListAttr where
  id : Nat
  empty : Nat
  elems : List Nat
  probe : Nat
  st : Nat
  stE : Nat
deriving Repr, DecidableEq, Inhabited

/-- result of `invoker.read(&attr, wb)` -/
inductive Rd
  | ok
  | noSpace
  | constraint
deriving Repr, DecidableEq, Inhabited

/-- the write of a report inside `send_array_items` -/
def putRd (c : Cfg) (pw : PW) (w : WB) (src : Src) (n : Nat) (full : Rd) : WB × Rd :=
  let r := w.put c.limit pw src n
  (r.1, if r.2 then full else .noSpace)

/-- `invoker.read(&attr, wb)` with `attr.list_index = li` (`none`: the empty list that starts the
streamed form).  The element is looked up BY INDEX; past the end the handler answers
`ConstraintError` after the report header (`probe` bytes) was written -/
def readIdx (c : Cfg) (pw : PW) (L : ListAttr) (li : Option Nat) (w : WB) : WB × Rd :=
  match li with
  | none => putRd c pw w (.rep (.listStart L.id L.empty)) L.empty .ok
  | some i =>
    match L.elems[i]? with
    | some e => putRd c pw w (.rep (.listElem L.id i e)) e .ok
    | none => putRd c pw w (.probe L.id i) L.probe .constraint

/-- `u16::MAX`: the list index is a `u16` (`AttrDetails::list_index : Option<Nullable<u16>>`) -/
def idxMax : Nat := 65535

/-- `list_index` after a successful read: `list_index + 1` on a `u16`, CHECKED as in a build with
overflow checks (dev profile — what the harness runs); `none` = "attempt to add with overflow".  (The
release profile of the workspace sets `overflow-checks = false`: the index wraps to 0.) -/
def nextIdx : Option Nat → Option Nat
  | none => some 0
  | some i => if i < idxMax then some (i + 1) else none

/-- the error status that ends the list when the read of `li` fits no message -/
def ListAttr.status (L : ListAttr) (li : Option Nat) : Piece :=
  .status L.id (if li.isNone then L.st else L.stE)

/-- the `NoSpace` arm of `send_array_items` on an empty message: the error status, `break` -/
def arrStatus (c : Cfg) (pw : PW) (L : ListAttr) (li : Option Nat) (x : CSt) : Except Err CSt :=
  let r := x.wb.put c.limit pw (.rep (L.status li)) (L.status li).size
  if r.2 then .ok { x with wb := r.1 } else .error .noSpace

/-- one iteration of the loop of `send_array_items`.  `pos`: the rewind position carried by the
loop — the faithful code (`stale = false`) ignores the carried value and takes `wb.get_tail()` anew;
the seeded variant C14-a (`stale = true`) keeps the carried value, which is refreshed only after a
successful read.  `inl (list_index, pos, state)`: go round again; `inr`: the loop ends -/
def arrStep (c : Cfg) (pw : PW) (rs : Nat) (stale : Bool) (L : ListAttr) (li : Option Nat) (pos : Nat) (x : CSt) :
    Sum (Option Nat × Nat × CSt) (Except Err CSt) :=
  let pos := if stale then pos else x.wb.tail
  let r := readIdx c pw L li x.wb
  match r.2 with
  | .ok =>
    match nextIdx li with
    | some j => .inl (some j, r.1.tail, { x with wb := r.1 })
    | none => .inr (.error .overflow)
  | .noSpace =>
    -- `wb.rewind_to(pos)`
    let w := r.1.rewindTo pos
    if w.tail == rs then arrStatus c pw L li { x with wb := w } |> .inr
    else .inl (li, pos, ({ x with wb := w } : CSt).flush c)
  | .constraint => .inr (.ok { x with wb := r.1.rewindTo pos })

def arrLoop (c : Cfg) (pw : PW) (rs : Nat) (stale : Bool) (L : ListAttr) :
    Nat → Option Nat → Nat → CSt → Except Err CSt
  | 0, _, _, _ => .error .loops
  | fuel + 1, li, pos, x =>
    match arrStep c pw rs stale L li pos x with
    | .inl r => arrLoop c pw rs stale L fuel r.1 r.2.1 r.2.2
    | .inr r => r

/-- `send_array_items` -/
def sendArrayItems (c : Cfg) (pw : PW) (rs : Nat) (stale : Bool) (L : ListAttr) (x : CSt) : Except Err CSt :=
  arrLoop c pw rs stale L (2 * L.elems.length + 6) none x.wb.tail x

def scalarItem (c : Cfg) (pw : PW) (rs : Nat) (p st : Piece) (x : CSt) : Except Err CSt :=
  match itemLoop c pw rs p st 4 false x with
  | .ok r => .ok r.1
  | .error e => .error e

/-- the body of the `for item in expand_read(..)` loop of `report_attributes` -/
def cputItem (c : Cfg) (pw : PW) (rs : Nat) (stale : Bool) (x : CSt) : Item → Except Err CSt
  | .scalar id sz st => scalarItem c pw rs (.scalar id sz) (.status id st) x
  | .list id whole empty elems probe st stE =>
    -- first iteration: the whole list as one report; on `NoSpace` no chunk is sent, the list is
    -- streamed by `send_array_items`, then `break`
    let r := x.processRead c pw (.wholeList id whole elems)
    if r.2 then .ok r.1
    else sendArrayItems c pw rs stale
      { id := id, empty := empty, elems := elems, probe := probe, st := st, stE := stE } r.1

def cputAttr (c : Cfg) (pw : PW) (rs : Nat) (stale : Bool) (x : CSt) (a : AttrReq) : Except Err CSt :=
  if a.unchanged then .ok x else cputItem c pw rs stale x a.item

def cputAttrs (c : Cfg) (pw : PW) (rs : Nat) (stale : Bool) : List AttrReq → CSt → Except Err CSt
  | [], x => .ok x
  | a :: as, x =>
    match cputAttr c pw rs stale x a with
    | .ok x1 => cputAttrs c pw rs stale as x1
    | .error e => .error e

/-- the reports that start in a stretch of bytes, in order (a client's view of the report boundaries) -/
def reportStarts : List Cell → List Piece
  | [] => []
  | ⟨.rep p, 0⟩ :: rest => p :: reportStarts rest
  | _ :: rest => reportStarts rest

/-- the cursor-level run of the attribute section of a request: the messages it sends
(`reports_start` is the tail after the array start) and the buffer it leaves for the message in which
the attribute array ends -/
def cattrs (c : Cfg) (pw : PW) (stale : Bool) (garbage : List Cell) (as : List AttrReq) : Except Err CSt :=
  let x := CSt.init c garbage
  cputAttrs c pw x.wb.tail stale (yielded as) x

/-- worst case of a failing write: every free byte is written -/
def pwAll : PW := fun _ avail => avail

/-- the streamed form of the list never takes the `u16` list index past `u16::MAX` -/
def Item.idxOk : Item → Prop
  | .scalar _ _ _ => True
  | .list _ _ _ elems _ _ _ => elems.length ≤ idxMax

/-- every list of the request has at most 65535 elements -/
def IdxOk (as : List AttrReq) : Prop := ∀ a ∈ as, a.item.idxOk

end Chunk
