import Driver.Util
/-! Driver for C15: not built yet. -/
namespace Driver.C15

def run : IO UInt32 := do
  IO.eprintln "C15: driver not built yet"
  return 2

end Driver.C15
