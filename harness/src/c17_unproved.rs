//! C17, formats exercised on the implementation only (no Lean model): BLE advertisement, mDNS, certificates.
use crate::proto::Out;
use crate::rng::Rng;

pub fn run_op(_kind: &str, _op: &str) -> Option<String> {
    None
}

pub fn gen(_r: &mut Rng, _out: &mut Out, _thorough: bool, _id: &mut u64) {}
