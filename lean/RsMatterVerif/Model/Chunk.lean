import RsMatterVerif.Generated.Consts
/-!
# Model of the chunking of a `ReportData` answer (`rs-matter/src/im.rs`, `ReportDataResponder`)

`respond` → `start_reply` (reset, `shrink(RESERVE)`, struct start [+ subscription id]) →
`report_attributes` (array start; per expanded item the write / `NoSpace` / rewind / `send` chunk /
retry loop; `send_array_items` for a whole-list read that does not fit) → array end →
`send(Done)` with `end_reply` (`expand(RESERVE)`, trailer).

Items are abstracted to their encoded sizes: an attribute report is written atomically by
`HandlerInvoker::process_read` / `send_array_items` (on any error the buffer is rewound to the
position before the report), so a report is either completely in a chunk or not at all.  The
event section is not modelled.  Import-free (apart from the generated constants).
-/
namespace Chunk

/-- sizes of the fixed parts of a message -/
structure Cfg where
  /-- length of the transmit buffer (`MAX_EXCHANGE_TX_BUF_SIZE`) -/
  cap : Nat
  /-- `LONG_READS_TLV_RESERVE_SIZE` -/
  reserve : Nat
  /-- extra bytes of the reserve that only the structural writes (array end) may use -/
  structReserve : Nat
  /-- what `start_reply` writes: struct start (+ subscription id) -/
  hdr : Nat
  /-- `start_array(AttributeReports)` -/
  arrOpen : Nat
  /-- `end_container` -/
  close : Nat
  /-- `end_reply` of a non-final chunk: array end + MoreChunkedMsgs + revision + struct end -/
  trailerMore : Nat
  /-- `end_reply(Done)`: [SuppressResponse] + revision + struct end -/
  trailerDone : Nat
deriving Repr, DecidableEq, Inhabited

/-- the space the attribute reports may use -/
def Cfg.limit (c : Cfg) : Nat := c.cap - c.reserve - c.structReserve

/-- an expanded item of the request, by encoded sizes -/
inductive Item
  /-- a non-list attribute (or a status): one report of `size` bytes -/
  | scalar (id : Nat) (size : Nat)
  /-- a list attribute read as a whole: `whole` = size of the single report carrying the complete
  list, `empty` = size of the report carrying the empty list (start of the chunked form),
  `elems` = sizes of the per-element (append) reports, `probe` = the bytes the read of the index
  one past the end writes (report header) before the handler answers "no such element" -/
  | list (id : Nat) (whole : Nat) (empty : Nat) (elems : List Nat) (probe : Nat)
deriving Repr, DecidableEq, Inhabited

/-- one attribute report of the answer -/
inductive Piece
  | scalar (id : Nat) (size : Nat)
  | wholeList (id : Nat) (size : Nat) (elems : List Nat)
  | listStart (id : Nat) (size : Nat)
  | listElem (id : Nat) (idx : Nat) (size : Nat)
deriving Repr, DecidableEq, Inhabited

def Piece.size : Piece → Nat
  | .scalar _ s => s
  | .wholeList _ s _ => s
  | .listStart _ s => s
  | .listElem _ _ s => s

/-- one message of the answer -/
structure ChunkOut where
  pieces : List Piece
  /-- total encoded size of the message -/
  size : Nat
  /-- MoreChunkedMessages -/
  more : Bool
deriving Repr, DecidableEq, Inhabited

inductive Err
  /-- a structural write (array end) found no space: the interaction fails with `NoSpace` -/
  | noSpace
  /-- a report does not fit an empty chunk: the retry loop never ends (it keeps sending empty chunks) -/
  | loops
deriving Repr, DecidableEq, Inhabited

/-- the responder between two items: finished chunks (newest first), the reports of the open chunk
(newest first) and the write position in it -/
structure St where
  done : List ChunkOut
  cur : List Piece
  used : Nat
deriving Repr, DecidableEq, Inhabited

def St.init (c : Cfg) : St := { done := [], cur := [], used := c.hdr + c.arrOpen }

/-- `send(ChunkingAttributes)`: close the open chunk with the trailer, start the next one -/
def St.flush (c : Cfg) (s : St) : St :=
  { done := { pieces := s.cur.reverse, size := s.used + c.trailerMore, more := true } :: s.done,
    cur := [], used := c.hdr + c.arrOpen }

/-- write one report: `Ok` / `NoSpace` → rewind → send the chunk → retry -/
def put (c : Cfg) (s : St) (p : Piece) : Except Err St :=
  if s.used + p.size ≤ c.limit then .ok { s with cur := p :: s.cur, used := s.used + p.size }
  else
    -- the new chunk starts at `hdr + arrOpen` (see `St.flush`)
    if c.hdr + c.arrOpen + p.size ≤ c.limit then
      .ok { s.flush c with cur := [p], used := c.hdr + c.arrOpen + p.size }
    else .error .loops

/-- the per-element reports of `send_array_items`, from index `k` on -/
def putElems (c : Cfg) (id : Nat) : Nat → List Nat → St → Except Err St
  | _, [], s => .ok s
  | k, e :: es, s =>
    match put c s (.listElem id k e) with
    | .ok s' => putElems c id (k + 1) es s'
    | .error err => .error err

/-- end of `send_array_items`: the read of the index past the end writes the report header before
the handler answers `ConstraintError`; if that header does not fit, the `NoSpace` arm sends the
chunk first and the retry then ends the list -/
def endProbe (c : Cfg) (s : St) (probe : Nat) : St :=
  if s.used + probe ≤ c.limit then s else s.flush c

def putItem (c : Cfg) (s : St) : Item → Except Err St
  | .scalar id sz => put c s (.scalar id sz)
  | .list id whole empty elems probe =>
    -- first attempt: the whole list as one report; on `NoSpace` no chunk is sent, the list is
    -- streamed instead: empty list, then one report per element
    if s.used + whole ≤ c.limit then
      .ok { s with cur := .wholeList id whole elems :: s.cur, used := s.used + whole }
    else
      match put c s (.listStart id empty) with
      | .ok s' =>
        match putElems c id 0 elems s' with
        | .ok s'' => .ok (endProbe c s'' probe)
        | .error err => .error err
      | .error err => .error err

def putItems (c : Cfg) : List Item → St → Except Err St
  | [], s => .ok s
  | it :: its, s =>
    match putItem c s it with
    | .ok s' => putItems c its s'
    | .error err => .error err

/-- end of `report_attributes` + `send(Done)`: the array end is a structural write (it may use the
structural reserve), then the final trailer -/
def finish (c : Cfg) (s : St) : Except Err (List ChunkOut) :=
  if s.used + c.close ≤ c.limit + c.structReserve then
    .ok (({ pieces := s.cur.reverse, size := s.used + c.close + c.trailerDone, more := false } :: s.done).reverse)
  else .error .noSpace

/-- **the chunking algorithm** -/
def chunks (c : Cfg) (items : List Item) : Except Err (List ChunkOut) :=
  match putItems c items (St.init c) with
  | .ok s => finish c s
  | .error err => .error err

/-! ## Specification side -/

/-- the content of an item (sizes stand for the encoded values) -/
def Item.pieces (split : Bool) : Item → List Piece
  | .scalar id sz => [.scalar id sz]
  | .list id whole empty elems _ =>
    if split then .listStart id empty :: (elems.zipIdx.map fun (e, k) => .listElem id k e)
    else [.wholeList id whole elems]

/-- every report that the algorithm may have to place in an empty chunk fits one -/
def Item.fits (c : Cfg) : Item → Bool
  | .scalar _ sz => decide (c.hdr + c.arrOpen + sz ≤ c.limit)
  | .list _ _ empty elems _ =>
    decide (c.hdr + c.arrOpen + empty ≤ c.limit) && elems.all fun e => decide (c.hdr + c.arrOpen + e ≤ c.limit)

def Fits (c : Cfg) (items : List Item) : Prop := ∀ it ∈ items, it.fits c = true

/-- the configuration is sane: the trailers fit the reserve, an empty chunk has room -/
structure Cfg.WF (c : Cfg) : Prop where
  room : c.reserve + c.structReserve ≤ c.cap
  trailerMore : c.trailerMore ≤ c.reserve + c.structReserve
  trailerDone : c.close + c.trailerDone ≤ c.reserve + c.structReserve
  start : c.hdr + c.arrOpen ≤ c.limit

end Chunk
