import RsMatterVerif.Lemmas.CodecMdns
/-!
# mDNS round trips (`Model/Codec/Mdns.lean`): record framing, TXT strings, the `Host::broadcast` message
-/
namespace Codec.Mdns

/-! ## 1. record framing: owner, TYPE, CLASS, TTL, RDLENGTH, RDATA -/

/-- the field ranges of a resource record (`u16`, `u16`, `u32`, `u16` length) and a well-formed owner name -/
structure RecSpec.WF (r : RecSpec) : Prop where
  owner : NameWF r.owner
  rtype : r.rtype < 65536
  cls : r.cls < 65536
  ttl : r.ttl < 4294967296
  rdata : r.rdata.length < 65536

/-- octets in front of the record data -/
def RecSpec.hdrLen (r : RecSpec) : Nat := (encName r.owner).length + 10

theorem RecSpec.bytes_eq (r : RecSpec) :
    r.bytes = encName r.owner ++ (u16be r.rtype ++ (u16be r.cls ++ (u32be r.ttl ++ (u16be r.rdata.length ++ r.rdata)))) := by
  simp [RecSpec.bytes, encRecord]

theorem RecSpec.bytes_length (r : RecSpec) : r.bytes.length = r.hdrLen + r.rdata.length := by
  rw [RecSpec.bytes_eq]; simp [RecSpec.hdrLen, u16be, u32be]; omega

/-- what `ParsedRecord::parse` answers for the record `r` found at `pos` under the limit `len` -/
def RecSpec.parsed (r : RecSpec) (pos len : Nat) : Rec :=
  { owner := { labels := r.owner, nameLen := (encName r.owner).length, compressed := false }
    rtype := r.rtype, cls := r.cls, ttl := r.ttl, rdlen := r.rdata.length, data := ⟨pos + r.hdrLen, len⟩ }

/-- **record framing round trip**: the encoded record at the cursor is parsed back field by field; the
record's data parser points at the record data and the cursor ends behind the record -/
theorem parseRecord_at (d : List Nat) (pos len : Nat) (r : RecSpec) (B : List Nat) (hwf : r.WF)
    (h : d.drop pos = r.bytes ++ B) (hfit : pos + r.bytes.length ≤ len) (hd : len ≤ d.length) :
    parseRecord d ⟨pos, len⟩ = .ok (r.parsed pos len, ⟨pos + r.bytes.length, len⟩) ∧
    d.drop (pos + r.hdrLen) = r.rdata ++ B ∧ d.drop (pos + r.bytes.length) = B := by
  rw [RecSpec.bytes_length] at hfit
  unfold RecSpec.hdrLen at hfit
  rw [RecSpec.bytes_eq] at h
  simp only [List.append_assoc] at h
  have h0 := parseName_flat d ⟨pos, len⟩ r.owner _ hwf.owner h (by simp only; omega) hd
  have hd0 : d.drop (pos + (encName r.owner).length) =
      u16be r.rtype ++ (u16be r.cls ++ (u32be r.ttl ++ (u16be r.rdata.length ++ (r.rdata ++ B)))) := by
    rw [← List.drop_drop, h, List.drop_left' rfl]
  have h1 := parseU16_at d (pos + (encName r.owner).length) len r.rtype _ hwf.rtype hd0 (by omega) hd
  have h2 := parseU16_at d (pos + (encName r.owner).length + 2) len r.cls _ hwf.cls h1.2 (by omega) hd
  have h3 := parseU32_at d (pos + (encName r.owner).length + 2 + 2) len r.ttl _ hwf.ttl h2.2 (by omega) hd
  have h4 := parseU16_at d (pos + (encName r.owner).length + 2 + 2 + 4) len r.rdata.length _ hwf.rdata h3.2 (by omega) hd
  have h5 : advance ⟨pos + (encName r.owner).length + 2 + 2 + 4 + 2, len⟩ r.rdata.length
      = .ok ⟨pos + (encName r.owner).length + 2 + 2 + 4 + 2 + r.rdata.length, len⟩ := by
    unfold advance
    simp only
    rw [if_neg (by omega), if_neg (by omega)]
  refine ⟨?_, ?_, ?_⟩
  · unfold parseRecord
    simp only at h0
    rw [h0]; simp only [bind, Except.bind]
    rw [h1.1]; simp only
    rw [h2.1]; simp only
    rw [h3.1]; simp only
    rw [h4.1]; simp only
    rw [h5]
    simp only [pure, Except.pure, RecSpec.parsed, RecSpec.hdrLen, RecSpec.bytes_length]
    congr 3 <;> omega
  · have := h4.2
    rw [show pos + r.hdrLen = pos + (encName r.owner).length + 2 + 2 + 4 + 2 by unfold RecSpec.hdrLen; omega]
    exact this
  · have := h4.2
    rw [RecSpec.bytes_length, show pos + (r.hdrLen + r.rdata.length) = (pos + (encName r.owner).length + 2 + 2 + 4 + 2) + r.rdata.length by
      unfold RecSpec.hdrLen; omega]
    rw [← List.drop_drop, this, List.drop_left' rfl]

/-! ## 2. a sequence of records -/

def specsBytes (rs : List RecSpec) : List Nat := rs.flatMap RecSpec.bytes

theorem specsBytes_cons (r : RecSpec) (rs : List RecSpec) : specsBytes (r :: rs) = r.bytes ++ specsBytes rs := by
  simp [specsBytes]

theorem specsBytes_append (xs ys : List RecSpec) : specsBytes (xs ++ ys) = specsBytes xs ++ specsBytes ys := by
  simp [specsBytes]

/-- the parsed records of a sequence of records that starts at `pos` -/
def parsedAll : List RecSpec → Nat → Nat → List Rec
  | [], _, _ => []
  | r :: rs, pos, len => r.parsed pos len :: parsedAll rs (pos + r.bytes.length) len

/-- the record data of every record of the sequence sit where its parsed form points, inside the limit -/
def Located (d : List Nat) (len : Nat) : List RecSpec → Nat → Prop
  | [], _ => True
  | r :: rs, pos => (∃ B, d.drop (pos + r.hdrLen) = r.rdata ++ B) ∧ pos + r.bytes.length ≤ len ∧ Located d len rs (pos + r.bytes.length)

theorem parsedAll_append (xs ys : List RecSpec) (pos len : Nat) :
    parsedAll (xs ++ ys) pos len = parsedAll xs pos len ++ parsedAll ys (pos + (specsBytes xs).length) len := by
  induction xs generalizing pos with
  | nil => simp [parsedAll, specsBytes]
  | cons x xs ih =>
    simp only [List.cons_append, parsedAll, ih, specsBytes_cons, List.length_append]
    rw [Nat.add_assoc]

theorem located_append (d : List Nat) (len : Nat) (xs ys : List RecSpec) (pos : Nat) :
    Located d len (xs ++ ys) pos ↔ Located d len xs pos ∧ Located d len ys (pos + (specsBytes xs).length) := by
  induction xs generalizing pos with
  | nil => simp [Located, specsBytes]
  | cons x xs ih =>
    simp only [List.cons_append, Located, ih, specsBytes_cons, List.length_append, Nat.add_assoc]
    constructor
    · rintro ⟨a, b, c, e⟩; exact ⟨⟨a, b, c⟩, e⟩
    · rintro ⟨⟨a, b, c⟩, e⟩; exact ⟨a, b, c, e⟩

/-- **a run of records round-trips through the section iterator** -/
theorem records_at (d : List Nat) (len : Nat) (hd : len ≤ d.length) : ∀ (rs : List RecSpec) (pos : Nat) (B : List Nat),
    (∀ r ∈ rs, r.WF) → d.drop pos = specsBytes rs ++ B → pos + (specsBytes rs).length ≤ len →
    records rs.length d ⟨pos, len⟩ = .ok (parsedAll rs pos len) ∧ Located d len rs pos := by
  intro rs
  induction rs with
  | nil => intro pos B _ _ _; exact ⟨rfl, trivial⟩
  | cons r rs ih =>
    intro pos B hwf h hfit
    rw [specsBytes_cons, List.append_assoc] at h
    rw [specsBytes_cons, List.length_append] at hfit
    obtain ⟨h1, h2, h3⟩ := parseRecord_at d pos len r (specsBytes rs ++ B) (hwf r (by simp)) h (by omega) hd
    obtain ⟨h4, h5⟩ := ih (pos + r.bytes.length) B (fun x hx => hwf x (by simp [hx])) h3 (by omega)
    refine ⟨?_, ⟨_, h2⟩, by omega, h5⟩
    simp only [List.length_cons, records, h1, h4, bind, Except.bind, pure, Except.pure, parsedAll]


/-! ## 3. typed record data of a located record -/

/-- hypotheses shared by the conversions: the record `r` was parsed at `pos`, its data follow its header -/
structure At (d : List Nat) (len : Nat) (r : RecSpec) (pos : Nat) : Prop where
  data : ∃ B, d.drop (pos + r.hdrLen) = r.rdata ++ B
  fit : pos + r.bytes.length ≤ len
  lim : len ≤ d.length

theorem At.sub {d : List Nat} {len : Nat} {r : RecSpec} {pos : Nat} (h : At d len r pos) :
    subParser (r.parsed pos len).data (r.parsed pos len).rdlen = .ok ⟨pos + r.hdrLen, pos + r.hdrLen + r.rdata.length⟩ := by
  have := h.fit; have := h.lim
  rw [RecSpec.bytes_length] at *
  unfold subParser
  have e1 : ¬ ((r.parsed pos len).data.len < (r.parsed pos len).data.pos) := by
    show ¬ (len < pos + r.hdrLen); omega
  have e2 : ¬ ((r.parsed pos len).data.len - (r.parsed pos len).data.pos < (r.parsed pos len).rdlen) := by
    show ¬ (len - (pos + r.hdrLen) < r.rdata.length); omega
  rw [if_neg e1, if_neg e2]; rfl

theorem At.recOk {d : List Nat} {len : Nat} {r : RecSpec} {pos : Nat} (h : At d len r pos) : RecOk d len (r.parsed pos len) := by
  have := h.fit; have := h.lim
  rw [RecSpec.bytes_length] at *
  exact ⟨⟨by show pos + r.hdrLen ≤ len; omega, h.lim⟩, rfl, by show pos + r.hdrLen + r.rdata.length ≤ len; omega⟩

theorem toSrv_other {d : List Nat} {len : Nat} {r : RecSpec} {pos : Nat} (h : At d len r pos) (ht : r.rtype ≠ RT_SRV) :
    toSrv d (r.parsed pos len) = .ok none := by
  unfold toSrv
  rw [h.sub]
  simp only [bind, Except.bind]
  rw [if_pos (by simpa [RecSpec.parsed] using ht)]; rfl

theorem toPtr_other {d : List Nat} {len : Nat} {r : RecSpec} {pos : Nat} (h : At d len r pos) (ht : r.rtype ≠ RT_PTR) :
    toPtr d (r.parsed pos len) = .ok none := by
  unfold toPtr
  rw [h.sub]
  simp only [bind, Except.bind]
  rw [if_pos (by simpa [RecSpec.parsed] using ht)]; rfl

theorem toAddr_other {d : List Nat} {len : Nat} {r : RecSpec} {pos : Nat} (rt n : Nat) (h : At d len r pos) (ht : r.rtype ≠ rt) :
    toAddr rt n d (r.parsed pos len) = .ok none := by
  unfold toAddr
  rw [h.sub]
  simp only [bind, Except.bind]
  rw [if_pos (by simpa [RecSpec.parsed] using ht)]; rfl

theorem finish_exact {α : Type} (pos : Nat) (x : α) : finish ⟨pos, pos⟩ x = .ok (some x) := by
  simp [finish]

/-- **SRV record data round trip**: priority, weight, port, target name -/
theorem toSrv_at {d : List Nat} {len : Nat} {r : RecSpec} {pos : Nat} (h : At d len r pos) (prio weight port : Nat)
    (target : List (List Nat)) (ht : r.rtype = RT_SRV)
    (hdata : r.rdata = u16be prio ++ (u16be weight ++ (u16be port ++ encName target)))
    (h1 : prio < 65536) (h2 : weight < 65536) (h3 : port < 65536) (hwf : NameWF target) :
    toSrv d (r.parsed pos len) = .ok (some (port, { labels := target, nameLen := (encName target).length, compressed := false })) := by
  obtain ⟨B, hB⟩ := h.data
  have hfit := h.fit; have hlim := h.lim
  rw [RecSpec.bytes_length] at hfit
  have hlen : r.rdata.length = 6 + (encName target).length := by rw [hdata]; simp [u16be]; omega
  rw [hdata] at hB
  simp only [List.append_assoc] at hB
  have hL : pos + r.hdrLen + r.rdata.length ≤ d.length := by omega
  have a := parseU16_at d (pos + r.hdrLen) (pos + r.hdrLen + r.rdata.length) prio _ h1 hB (by omega) hL
  have b := parseU16_at d (pos + r.hdrLen + 2) (pos + r.hdrLen + r.rdata.length) weight _ h2 a.2 (by omega) hL
  have c := parseU16_at d (pos + r.hdrLen + 2 + 2) (pos + r.hdrLen + r.rdata.length) port _ h3 b.2 (by omega) hL
  have e := parseName_flat d ⟨pos + r.hdrLen + 2 + 2 + 2, pos + r.hdrLen + r.rdata.length⟩ target B hwf c.2 (by simp only; omega) hL
  unfold toSrv
  rw [h.sub]
  simp only [bind, Except.bind]
  rw [if_neg (by simp [RecSpec.parsed, ht])]
  rw [a.1]; simp only
  rw [b.1]; simp only
  rw [c.1]; simp only
  rw [e]; simp only
  rw [show pos + r.hdrLen + 2 + 2 + 2 + (encName target).length = pos + r.hdrLen + r.rdata.length by omega]
  exact finish_exact _ _

/-- **A / AAAA record data round trip**: exactly 4 / 16 octets -/
theorem toAddr_at {d : List Nat} {len : Nat} {r : RecSpec} {pos : Nat} (rt n : Nat) (h : At d len r pos)
    (ht : r.rtype = rt) (hn : r.rdata.length = n) : toAddr rt n d (r.parsed pos len) = .ok (some r.rdata) := by
  obtain ⟨B, hB⟩ := h.data
  have hfit := h.fit; have hlim := h.lim
  rw [RecSpec.bytes_length] at hfit
  have a := take_at d (pos + r.hdrLen) (pos + r.hdrLen + r.rdata.length) r.rdata B hB (by omega) (by omega)
  unfold toAddr
  rw [h.sub]
  simp only [bind, Except.bind]
  rw [if_neg (by simp [RecSpec.parsed, ht])]
  rw [← hn, a.1]
  exact finish_exact _ _

/-- the raw data of a located record (what the TXT pass keeps) -/
theorem toUnknown_at {d : List Nat} {len : Nat} {r : RecSpec} {pos : Nat} (h : At d len r pos) :
    toUnknown d (r.parsed pos len) = .ok (some r.rdata) := by
  obtain ⟨B, hB⟩ := h.data
  rw [toUnknown_eq d len _ h.recOk]
  simp only [RecSpec.parsed]
  rw [hB, List.take_left' rfl]


/-! ## 4. TXT record data: length-prefixed `key=value` strings -/

/-- one TXT character string -/
def txtEntry (kv : List Nat × List Nat) : List Nat := ((kv.1.length + kv.2.length + 1) % 256) :: (kv.1 ++ [0x3D] ++ kv.2)

theorem encTxt_eq (kvs : List (List Nat × List Nat)) (h : kvs ≠ []) : encTxt kvs = kvs.flatMap txtEntry := by
  unfold encTxt
  cases kvs with
  | nil => exact absurd rfl h
  | cons a as => simp only [List.isEmpty_cons, Bool.false_eq_true, if_false]; rfl

/-- what a TXT pair must satisfy to survive the trip: the string fits its length octet, the key has no `=`,
and the string is UTF-8 (always the case for Rust `&str` keys and values) -/
def TxtWF (kv : List Nat × List Nat) : Prop :=
  kv.1.length + kv.2.length + 1 ≤ 255 ∧ 0x3D ∉ kv.1 ∧ validUtf8 (kv.1 ++ 0x3D :: kv.2) = true

theorem findEq_key (k v : List Nat) (h : 0x3D ∉ k) : findEq (k ++ 0x3D :: v) = some k.length := by
  induction k with
  | nil => simp [findEq]
  | cons b k ih =>
    have hb : b ≠ 0x3D := by intro e; exact h (by simp [e])
    have hk : 0x3D ∉ k := by intro e; exact h (by simp [e])
    simp [findEq, hb, ih hk]

theorem index_at (l : List Nat) (i x : Nat) (B : List Nat) (h : l.drop i = x :: B) : index l i = .ok x := by
  unfold index
  have := congrArg List.head? h
  rw [List.head?_drop] at this
  simp only [List.head?_cons] at this
  rw [this]

theorem slice_at (l : List Nat) (a : Nat) (S B : List Nat) (h : l.drop a = S ++ B) (hfit : a + S.length ≤ l.length) :
    slice l a (a + S.length) = .ok S := by
  unfold slice
  rw [if_pos ⟨by omega, hfit⟩, h, show a + S.length - a = S.length by omega, List.take_left' rfl]

/-- `MdnsTxt::next` positioned at a well-formed string answers its pair at once -/
theorem txtNext_entry (data : List Nat) (pos : Nat) (kv : List Nat × List Nat) (B : List Nat) (hwf : TxtWF kv)
    (h : data.drop pos = txtEntry kv ++ B) (f : Nat) :
    txtNext data (f + 1) pos = .ok (some (kv, pos + (txtEntry kv).length)) ∧ data.drop (pos + (txtEntry kv).length) = B := by
  obtain ⟨k, v⟩ := kv
  obtain ⟨h1, h2, h3⟩ := hwf
  simp only at h1 h2 h3
  have hlen : (txtEntry (k, v)).length = k.length + v.length + 2 := by simp [txtEntry]; omega
  have hdl : (data.drop pos).length = (txtEntry (k, v)).length + B.length := by rw [h]; simp
  rw [List.length_drop, hlen] at hdl
  have hmod : (k.length + v.length + 1) % 256 = k.length + v.length + 1 := by omega
  have h' : data.drop pos = (k.length + v.length + 1) :: ((k ++ 0x3D :: v) ++ B) := by
    rw [h]; simp [txtEntry, hmod]
  have hd1 : data.drop (pos + 1) = (k ++ 0x3D :: v) ++ B := by
    rw [← List.drop_drop, h']; rfl
  have hsl : (k ++ 0x3D :: v).length = k.length + v.length + 1 := by simp; omega
  refine ⟨?_, ?_⟩
  · unfold txtNext
    rw [if_pos (by omega), index_at data pos _ _ h']
    simp only [bind, Except.bind]
    rw [show min (pos + 1 + (k.length + v.length + 1)) data.length = (pos + 1) + (k ++ 0x3D :: v).length by rw [hsl]; omega]
    rw [slice_at data (pos + 1) _ B hd1 (by rw [hsl]; omega)]
    simp only
    rw [if_pos h3, findEq_key k v h2]
    simp only
    have s1 : slice (k ++ 0x3D :: v) 0 k.length = .ok k := by
      have := slice_at (k ++ 0x3D :: v) 0 k (0x3D :: v) rfl (by simp)
      simpa using this
    have s2 : slice (k ++ 0x3D :: v) (k.length + 1) (k ++ 0x3D :: v).length = .ok v := by
      have := slice_at (k ++ 0x3D :: v) (k.length + 1) v [] (by simp) (by simp; omega)
      rw [show k.length + 1 + v.length = (k ++ 0x3D :: v).length by simp; omega] at this
      exact this
    rw [s1, s2]
    simp only [pure, Except.pure, hlen]
    rw [hsl, show pos + 1 + (k.length + v.length + 1) = pos + (k.length + v.length + 2) by omega]
  · rw [hlen, show pos + (k.length + v.length + 2) = (pos + 1) + (k ++ 0x3D :: v).length by rw [hsl]; omega,
      ← List.drop_drop, hd1, List.drop_left' rfl]

theorem txtAll_entries (data : List Nat) : ∀ (kvs : List (List Nat × List Nat)) (g pos : Nat), (∀ kv ∈ kvs, TxtWF kv) →
    data.drop pos = kvs.flatMap txtEntry → pos ≤ data.length → kvs.length < g → txtAll data g pos = .ok kvs := by
  intro kvs
  induction kvs with
  | nil =>
    intro g pos _ h hp hg
    obtain ⟨g, rfl⟩ : ∃ k, g = k + 1 := ⟨g - 1, by omega⟩
    have : data.length ≤ pos := by
      have := congrArg List.length h
      simp [List.length_drop] at this; omega
    unfold txtAll
    have hn : txtNext data (data.length + 1) pos = .ok none := by
      unfold txtNext; rw [if_neg (by omega)]; rfl
    rw [hn]; rfl
  | cons kv kvs ih =>
    intro g pos hwf h hp hg
    obtain ⟨g, rfl⟩ : ∃ k, g = k + 1 := ⟨g - 1, by omega⟩
    rw [List.flatMap_cons] at h
    obtain ⟨h1, h2⟩ := txtNext_entry data pos kv _ (hwf kv (by simp)) h data.length
    have hp' : pos + (txtEntry kv).length ≤ data.length := by
      have := congrArg List.length h
      simp [List.length_drop] at this; omega
    unfold txtAll
    rw [h1]
    simp only [bind, Except.bind]
    rw [ih g _ (fun x hx => hwf x (by simp [hx])) h2 hp' (by simp at hg; omega)]
    rfl

/-- **TXT round trip**: the strings written by `Txt::compose_rdata` are split back into the same
`key=value` pairs, in order (an empty list is written as one empty string and read back as no pair) -/
theorem txtPairs_encTxt (kvs : List (List Nat × List Nat)) (hwf : ∀ kv ∈ kvs, TxtWF kv) :
    txtPairs (encTxt kvs) = .ok kvs := by
  by_cases h : kvs = []
  · subst h; rfl
  · unfold txtPairs
    have hl : kvs.length ≤ (encTxt kvs).length := by
      rw [encTxt_eq kvs h]
      clear hwf h
      induction kvs with
      | nil => simp
      | cons a as ih => simp [txtEntry] at ih ⊢; omega
    exact txtAll_entries (encTxt kvs) kvs _ 0 hwf (by rw [encTxt_eq kvs h]; rfl) (by omega) (by omega)


/-- a valid UTF-8 string followed by anything is valid exactly when the rest is (strings concatenate) -/
theorem validUtf8_append : ∀ (a b : List Nat), validUtf8 a = true → validUtf8 (a ++ b) = validUtf8 b
  | [], b, _ => by simp
  | b0 :: r, b, h => by
    rw [validUtf8.eq_def] at h
    simp only at h
    rw [List.cons_append, validUtf8.eq_def]
    simp only
    by_cases h0 : b0 < 0x80
    · simp only [h0, if_true] at h ⊢
      exact validUtf8_append r b h
    · simp only [h0, if_false] at h ⊢
      by_cases h1 : 0xC2 ≤ b0 ∧ b0 ≤ 0xDF
      · simp only [h1, and_self, if_true] at h ⊢
        match r, h with
        | b1 :: r', h =>
          simp only [Bool.and_eq_true] at h
          simp only [List.cons_append, h.1, Bool.true_and]
          exact validUtf8_append r' b h.2
      · simp only [h1, if_false] at h ⊢
        by_cases h2 : 0xE0 ≤ b0 ∧ b0 ≤ 0xEF
        · simp only [h2, and_self, if_true] at h ⊢
          match r, h with
          | b1 :: b2 :: r', h =>
            simp only [Bool.and_eq_true] at h
            simp only [List.cons_append, h.1.1, h.1.2, Bool.true_and]
            exact validUtf8_append r' b h.2
        · simp only [h2, if_false] at h ⊢
          by_cases h3 : 0xF0 ≤ b0 ∧ b0 ≤ 0xF4
          · simp only [h3, and_self, if_true] at h ⊢
            match r, h with
            | b1 :: b2 :: b3 :: r', h =>
              simp only [Bool.and_eq_true] at h
              simp only [List.cons_append, h.1.1.1, h.1.1.2, h.1.2, Bool.true_and]
              exact validUtf8_append r' b h.2
          · simp only [h3, if_false] at h
            cases h

/-! ## 5. a response message: header + answers, parsed by `parse_into_answer` -/

/-- a response carrying exactly the records `rs` as its answer section -/
def responseBytes (rs : List RecSpec) : List Nat := responseHeader rs.length ++ specsBytes rs

theorem responseHeader_length (n : Nat) : (responseHeader n).length = 12 := rfl

theorem response_hdr (rs : List RecSpec) (hn : rs.length < 65536) :
    12 ≤ (responseBytes rs).length ∧ qr (responseBytes rs) = true ∧ hdrU16 (responseBytes rs) 4 = 0 ∧
    hdrU16 (responseBytes rs) 6 = rs.length ∧ hdrU16 (responseBytes rs) 8 = 0 ∧ hdrU16 (responseBytes rs) 10 = 0 := by
  refine ⟨by rw [responseBytes, List.length_append, responseHeader_length]; omega, ?_, ?_, ?_, ?_, ?_⟩ <;>
    simp [responseBytes, responseHeader, u16be, qr, hdrU16] <;> omega

theorem response_drop (rs : List RecSpec) : (responseBytes rs).drop 12 = specsBytes rs ++ [] := by
  rw [responseBytes, List.drop_left' (responseHeader_length _)]; simp

/-- the section walk over any message whose header announces no question, `rs.length` answers and no
additional record, and whose octets behind the header are the records `rs` -/
theorem allRecords_of (d : List Nat) (rs : List RecSpec) (hwf : ∀ r ∈ rs, r.WF) (h12 : 12 ≤ d.length)
    (hq : hdrU16 d 4 = 0) (ha : hdrU16 d 6 = rs.length) (har : hdrU16 d 10 = 0)
    (hdrop : d.drop 12 = specsBytes rs ++ []) (hlen : d.length = 12 + (specsBytes rs).length) :
    allRecords d = .ok (parsedAll rs 12 d.length) ∧ Located d d.length rs 12 := by
  obtain ⟨h1, h2⟩ := records_at d d.length (Nat.le_refl _) rs 12 [] hwf hdrop (by omega)
  have hadd := additionalStart_good d h12
  refine ⟨?_, h2⟩
  unfold allRecords
  have hs : answerStart d = .ok ⟨12, d.length⟩ := by
    simp [answerStart, hq, skipQuestions, pure, Except.pure]
  rw [hs, ha, har]
  simp only [sectionRecords, h1, bind, Except.bind]
  cases hx : additionalStart d with
  | ok p => simp [records, pure, Except.pure]
  | error e =>
    rw [hx] at hadd
    have : e.fatal = false := by
      have h1 : e ≠ .panic := hadd.1
      have h2 : e ≠ .fuel := hadd.2
      cases e <;> simp_all [PErr.fatal]
    simp [this, pure, Except.pure]

/-- **the section walk over a response returns its records**: `msg.answer()` yields the records of the
message in order, `msg.additional()` nothing -/
theorem allRecords_response (rs : List RecSpec) (hwf : ∀ r ∈ rs, r.WF) (hn : rs.length < 65536) :
    allRecords (responseBytes rs) = .ok (parsedAll rs 12 (responseBytes rs).length) ∧
    Located (responseBytes rs) (responseBytes rs).length rs 12 := by
  obtain ⟨h12, _, hq, ha, _, har⟩ := response_hdr rs hn
  exact allRecords_of _ rs hwf h12 hq ha har (response_drop rs)
    (by rw [responseBytes, List.length_append, responseHeader_length])


/-! ## 6. the passes of `parse_into_answer` over located records -/

theorem Located.head {d : List Nat} {len : Nat} {r : RecSpec} {rs : List RecSpec} {pos : Nat}
    (h : Located d len (r :: rs) pos) (hd : len ≤ d.length) : At d len r pos ∧ Located d len rs (pos + r.bytes.length) :=
  ⟨⟨h.1, h.2.1, hd⟩, h.2.2⟩

theorem pass1_append (d : List Nat) (xs ys : List Rec) (a : Acc) :
    pass1 d (xs ++ ys) a = (pass1 d xs a >>= fun a' => pass1 d ys a') := by
  induction xs generalizing a with
  | nil => rfl
  | cons x xs ih =>
    simp only [List.cons_append, pass1, bind, Except.bind]
    cases pass1Step d a x with
    | error e => rfl
    | ok a' => exact ih a'

/-- records that are neither SRV nor (while no SRV has been seen) PTR leave the pass-1 state alone -/
theorem pass1_skip (d : List Nat) (len : Nat) (hd : len ≤ d.length) (acc : Acc) : ∀ (rs : List RecSpec) (pos : Nat),
    Located d len rs pos → (∀ r ∈ rs, r.rtype ≠ RT_SRV ∧ (acc.haveSrv = true ∨ r.rtype ≠ RT_PTR)) →
    pass1 d (parsedAll rs pos len) acc = .ok acc := by
  intro rs
  induction rs with
  | nil => intro _ _ _; rfl
  | cons r rs ih =>
    intro pos hl hr
    obtain ⟨hat, hl'⟩ := hl.head hd
    obtain ⟨h1, h2⟩ := hr r (by simp)
    have hstep : pass1Step d acc (r.parsed pos len) = .ok acc := by
      unfold pass1Step
      rw [toSrv_other hat h1]
      simp only [okSome, bind, Except.bind]
      rcases h2 with h2 | h2
      · simp [h2, pure, Except.pure]
      · rw [toPtr_other hat h2]
        simp only [pure, Except.pure]
        split <;> rfl
    simp only [parsedAll, pass1, hstep, bind, Except.bind]
    exact ih _ hl' (fun x hx => hr x (by simp [hx]))

/-- records that are not TXT are passed over by the TXT search -/
theorem findTxt_skip (d : List Nat) (len : Nat) (inst : Name) (rest : List Rec) : ∀ (xs : List RecSpec) (pos : Nat),
    (∀ r ∈ xs, r.rtype ≠ RT_TXT) → findTxt d inst (parsedAll xs pos len ++ rest) = findTxt d inst rest := by
  intro xs
  induction xs with
  | nil => intro _ _; rfl
  | cons r rs ih =>
    intro pos h
    have hr := h r (by simp)
    simp only [parsedAll, List.cons_append, findTxt]
    rw [if_pos (by simp [RecSpec.parsed, hr])]
    exact ih _ (fun x hx => h x (by simp [hx]))

theorem nameEq_refl (n : Name) : nameEq n n = true := by simp [nameEq]

theorem nameEq_labels (a b : Name) (h : a.labels = b.labels) : nameEq a b = true := by simp [nameEq, h]

theorem nameEq_length (a b : Name) (h : a.labels.length ≠ b.labels.length) : nameEq a b = false := by
  unfold nameEq
  rw [beq_eq_false_iff_ne]
  intro e
  have := congrArg List.length e
  simp at this
  exact h this

theorem addrsOf_append (t : Name) (g : Rec → Option (List Nat)) (xs ys : List Rec) :
    addrsOf t g (xs ++ ys) = addrsOf t g xs ++ addrsOf t g ys := by
  simp [addrsOf, List.filterMap_append]

/-- records owned by a name with another number of labels contribute no address -/
theorem addrsOf_skip (t : Name) (g : Rec → Option (List Nat)) (len : Nat) : ∀ (xs : List RecSpec) (pos : Nat),
    (∀ r ∈ xs, r.owner.length ≠ t.labels.length) → addrsOf t g (parsedAll xs pos len) = [] := by
  intro xs
  induction xs with
  | nil => intro _ _; rfl
  | cons r rs ih =>
    intro pos h
    have hn : nameEq (r.parsed pos len).owner t = false := nameEq_length _ _ (by simpa [RecSpec.parsed] using h r (by simp))
    simp only [parsedAll, addrsOf, List.filterMap_cons, hn, Bool.false_eq_true, if_false]
    exact ih _ (fun x hx => h x (by simp [hx]))

/-- what the address iterator sees in a record -/
def addrView (d : List Nat) (r : Rec) : Option (List Nat) :=
  match addrOf d r with
  | .ok v => v
  | .error _ => none

theorem addrOf_A {d : List Nat} {len : Nat} {r : RecSpec} {pos : Nat} (h : At d len r pos)
    (ht : (r.rtype = RT_A ∧ r.rdata.length = 4) ∨ (r.rtype = RT_AAAA ∧ r.rdata.length = 16)) :
    addrOf d (r.parsed pos len) = .ok (some r.rdata) := by
  unfold addrOf
  rcases ht with ⟨h1, h2⟩ | ⟨h1, h2⟩
  · rw [toAddr_at RT_A 4 h h1 h2]; rfl
  · rw [toAddr_other RT_A 4 h (by rw [h1]; decide), toAddr_at RT_AAAA 16 h h1 h2]; rfl

/-- address records owned by the target contribute their data, in order -/
theorem addrsOf_addrs (d : List Nat) (len : Nat) (hd : len ≤ d.length) (t : Name) : ∀ (xs : List RecSpec) (pos : Nat),
    Located d len xs pos →
    (∀ r ∈ xs, r.owner = t.labels ∧ ((r.rtype = RT_A ∧ r.rdata.length = 4) ∨ (r.rtype = RT_AAAA ∧ r.rdata.length = 16))) →
    addrsOf t (addrView d) (parsedAll xs pos len) = xs.map (·.rdata) := by
  intro xs
  induction xs with
  | nil => intro _ _ _; rfl
  | cons r rs ih =>
    intro pos hl h
    obtain ⟨hat, hl'⟩ := hl.head hd
    obtain ⟨h1, h2⟩ := h r (by simp)
    have hn : nameEq (r.parsed pos len).owner t = true := nameEq_labels _ _ (by simpa [RecSpec.parsed] using h1)
    have hv : addrView d (r.parsed pos len) = some r.rdata := by
      unfold addrView; rw [addrOf_A hat h2]
    simp only [parsedAll, addrsOf, List.filterMap_cons, hn, if_true, hv, List.map_cons]
    congr 1
    exact ih _ hl' (fun x hx => h x (by simp [hx]))


/-! ## 7. `Host::broadcast` → `parse_into_answer` -/

/-- the legal field values of a host / service description -/
structure BroadcastWF (h : HostCfg) (s : Svc) (hostTtl svcTtl : Nat) : Prop where
  host : NameWF (hostFqdn h)
  inst : NameWF (serviceFqdn s)
  subs : ∀ sub ∈ s.subtypes, NameWF (subtypeFqdn s sub)
  ip : h.ip.length = 4
  ipv6 : ∀ a ∈ h.ipv6, a.length = 16
  port : s.port < 65536
  hostTtlLt : hostTtl < 4294967296
  svcTtlLt : svcTtl < 4294967296
  /-- every pair fits one TXT string, the key has no `=`, key and value are UTF-8 (Rust `&str`) -/
  txt : ∀ kv ∈ s.txt, kv.1.length + kv.2.length + 1 ≤ 255 ∧ 0x3D ∉ kv.1 ∧ validUtf8 kv.1 = true ∧ validUtf8 kv.2 = true
  txtLen : (encTxt s.txt).length < 65536
  count : (broadcastRecords h s hostTtl svcTtl).length < 65536

theorem txtWF_of (kv : List Nat × List Nat)
    (h : kv.1.length + kv.2.length + 1 ≤ 255 ∧ 0x3D ∉ kv.1 ∧ validUtf8 kv.1 = true ∧ validUtf8 kv.2 = true) : TxtWF kv := by
  refine ⟨h.1, h.2.1, ?_⟩
  rw [validUtf8_append _ _ h.2.2.1, validUtf8.eq_def]
  simpa using h.2.2.2

theorem nameWF_tail (l : List Nat) (ls : List (List Nat)) (h : NameWF (l :: ls)) : NameWF ls := by
  refine ⟨fun x hx => h.1 x (by simp [hx]), ?_⟩
  have := h.2
  rw [encName_length_cons] at this
  omega

theorem nameWF_dnssd : NameWF DNS_SD := by
  refine ⟨by decide, by decide⟩

theorem encName_le (ls : List (List Nat)) (h : NameWF ls) : (encName ls).length ≤ 255 := h.2

/-- the records before the SRV record: the host's addresses -/
def addrRecords (h : HostCfg) (hostTtl : Nat) : List RecSpec :=
  (if isUnspecified h.ip then [] else [{ owner := hostFqdn h, rtype := RT_A, cls := CLASS_IN_FLUSH, ttl := hostTtl, rdata := h.ip }])
  ++ (h.ipv6.filter (fun a => !isUnspecified a)).map
      (fun a => { owner := hostFqdn h, rtype := RT_AAAA, cls := CLASS_IN_FLUSH, ttl := hostTtl, rdata := a })

def srvRecord (h : HostCfg) (s : Svc) (svcTtl : Nat) : RecSpec :=
  { owner := serviceFqdn s, rtype := RT_SRV, cls := CLASS_IN_FLUSH, ttl := svcTtl,
    rdata := u16be 0 ++ u16be 0 ++ u16be s.port ++ encName (hostFqdn h), inner := hostFqdn h }

/-- the PTR records behind the SRV record -/
def ptrRecords (s : Svc) (hostTtl svcTtl : Nat) : List RecSpec :=
  [{ owner := serviceTypeFqdn s, rtype := RT_PTR, cls := CLASS_IN, ttl := svcTtl, rdata := encName (serviceFqdn s), inner := serviceFqdn s },
   { owner := DNS_SD, rtype := RT_PTR, cls := CLASS_IN, ttl := hostTtl, rdata := encName (serviceTypeFqdn s), inner := serviceTypeFqdn s }]
  ++ s.subtypes.map (fun sub =>
      { owner := subtypeFqdn s sub, rtype := RT_PTR, cls := CLASS_IN, ttl := svcTtl,
        rdata := encName (serviceFqdn s), inner := serviceFqdn s })

def txtRecord (s : Svc) (svcTtl : Nat) : RecSpec :=
  { owner := serviceFqdn s, rtype := RT_TXT, cls := CLASS_IN_FLUSH, ttl := svcTtl, rdata := encTxt s.txt }

theorem broadcastRecords_split (h : HostCfg) (s : Svc) (hostTtl svcTtl : Nat) :
    broadcastRecords h s hostTtl svcTtl =
      addrRecords h hostTtl ++ (srvRecord h s svcTtl :: (ptrRecords s hostTtl svcTtl ++ [txtRecord s svcTtl])) := by
  simp [broadcastRecords, addrRecords, srvRecord, ptrRecords, txtRecord, List.append_assoc]


theorem located_recOk (d : List Nat) (len : Nat) (hd : len ≤ d.length) : ∀ (rs : List RecSpec) (pos : Nat),
    Located d len rs pos → ∀ r ∈ parsedAll rs pos len, RecOk d len r := by
  intro rs
  induction rs with
  | nil => intro _ _ r hr; cases hr
  | cons x xs ih =>
    intro pos hl r hr
    obtain ⟨hat, hl'⟩ := hl.head hd
    simp only [parsedAll, List.mem_cons] at hr
    rcases hr with rfl | hr
    · exact hat.recOk
    · exact ih _ hl' r hr

theorem addrsAll_view (d : List Nat) (L : Nat) (rs : List Rec) (t : Name) (hok : ∀ r ∈ rs, RecOk d L r) :
    addrsAll d rs (some t) (rs.length + 1) 0 = .ok (addrsOf t (addrView d) rs) := by
  have hg : ∀ r ∈ rs, addrOf d r = .ok (addrView d r) := by
    intro r hr
    obtain ⟨v, hv⟩ := addrOf_ok d L r (hok r hr)
    simp [addrView, hv]
  have := addrsAll_eq d t (addrView d) rs hg (rs.length + 1) 0 (by have := addrsOf_length_le t (addrView d) rs; omega)
  simpa using this

local macro "small" : tactic => `(tactic| simp [srvRecord, txtRecord, RT_A, RT_AAAA, RT_SRV, RT_PTR, RT_TXT, CLASS_IN, CLASS_IN_FLUSH])

theorem records_wf (h : HostCfg) (s : Svc) (hostTtl svcTtl : Nat) (hwf : BroadcastWF h s hostTtl svcTtl) :
    ∀ r ∈ broadcastRecords h s hostTtl svcTtl, r.WF := by
  have htype : NameWF (serviceTypeFqdn s) := nameWF_tail _ _ hwf.inst
  have hhost := encName_le _ hwf.host
  have hinst := encName_le _ hwf.inst
  have htl := encName_le _ htype
  intro r hr
  rw [broadcastRecords_split] at hr
  simp only [List.mem_append, List.mem_cons, addrRecords, ptrRecords, List.mem_map, List.mem_filter,
    List.not_mem_nil, or_false] at hr
  rcases hr with (hr | ⟨a, ⟨ha, _⟩, rfl⟩) | rfl | ((rfl | rfl) | ⟨sub, hsub, rfl⟩) | rfl
  · split at hr
    · cases hr
    · simp only [List.mem_singleton] at hr
      subst hr
      exact ⟨hwf.host, by small, by small, hwf.hostTtlLt, by simp only [hwf.ip]; omega⟩
  · exact ⟨hwf.host, by small, by small, hwf.hostTtlLt, by simp only [hwf.ipv6 a ha]; omega⟩
  · exact ⟨hwf.inst, by small, by small, hwf.svcTtlLt, by simp [srvRecord, u16be]; omega⟩
  · exact ⟨htype, by small, by small, hwf.svcTtlLt, by simp only; omega⟩
  · exact ⟨nameWF_dnssd, by small, by small, hwf.hostTtlLt, by simp only; omega⟩
  · exact ⟨hwf.subs sub hsub, by small, by small, hwf.svcTtlLt, by simp only; omega⟩
  · exact ⟨hwf.inst, by small, by small, hwf.svcTtlLt, hwf.txtLen⟩


/-- the parsed form of a flat name -/
def flatName (labels : List (List Nat)) : Name := { labels := labels, nameLen := (encName labels).length, compressed := false }

/-- the addresses a host advertises: the IPv4 address unless unspecified, then every specified IPv6 address -/
def hostAddrs (h : HostCfg) : List (List Nat) :=
  (if isUnspecified h.ip then [] else [h.ip]) ++ h.ipv6.filter (fun a => !isUnspecified a)

theorem addrRecords_rdata (h : HostCfg) (hostTtl : Nat) : (addrRecords h hostTtl).map (·.rdata) = hostAddrs h := by
  unfold addrRecords hostAddrs
  rw [List.map_append]
  congr 1
  · split <;> rfl
  · rw [List.map_map]; simp [Function.comp_def]

/-- the three passes over the located records of a broadcast -/
theorem passes_broadcast (d : List Nat) (len : Nat) (hd : len ≤ d.length) (h : HostCfg) (s : Svc) (hostTtl svcTtl : Nat)
    (hwf : BroadcastWF h s hostTtl svcTtl) (pos : Nat) (hloc : Located d len (broadcastRecords h s hostTtl svcTtl) pos) :
    pass1 d (parsedAll (broadcastRecords h s hostTtl svcTtl) pos len) {} =
      .ok { inst := some (flatName (serviceFqdn s)), host := some (flatName (hostFqdn h)), port := some s.port, haveSrv := true } ∧
    findTxt d (flatName (serviceFqdn s)) (parsedAll (broadcastRecords h s hostTtl svcTtl) pos len) = .ok (encTxt s.txt) ∧
    addrsOf (flatName (hostFqdn h)) (addrView d) (parsedAll (broadcastRecords h s hostTtl svcTtl) pos len) = hostAddrs h := by
  rw [broadcastRecords_split] at hloc ⊢
  rw [located_append] at hloc
  obtain ⟨hl1, hl2⟩ := hloc
  obtain ⟨hsrv, hl3⟩ := hl2.head hd
  rw [located_append] at hl3
  obtain ⟨hl4, hl5⟩ := hl3
  obtain ⟨htxt, _⟩ := hl5.head hd
  rw [parsedAll_append]
  simp only [parsedAll]
  rw [parsedAll_append]
  simp only [parsedAll]
  -- shapes of the record groups
  have haddr : ∀ r ∈ addrRecords h hostTtl, r.owner = hostFqdn h ∧
      ((r.rtype = RT_A ∧ r.rdata.length = 4) ∨ (r.rtype = RT_AAAA ∧ r.rdata.length = 16)) := by
    intro r hr
    simp only [addrRecords, List.mem_append, List.mem_map, List.mem_filter] at hr
    rcases hr with hr | ⟨a, ⟨ha, _⟩, rfl⟩
    · split at hr
      · cases hr
      · simp only [List.mem_singleton] at hr; subst hr
        exact ⟨rfl, Or.inl ⟨rfl, hwf.ip⟩⟩
    · exact ⟨rfl, Or.inr ⟨rfl, hwf.ipv6 a ha⟩⟩
  have hptr : ∀ r ∈ ptrRecords s hostTtl svcTtl, r.rtype = RT_PTR ∧ r.owner.length ≠ 2 := by
    intro r hr
    simp only [ptrRecords, List.mem_append, List.mem_cons, List.mem_map, List.not_mem_nil, or_false] at hr
    rcases hr with (rfl | rfl) | ⟨sub, _, rfl⟩
    · exact ⟨rfl, by simp [serviceTypeFqdn]⟩
    · exact ⟨rfl, by simp [DNS_SD]⟩
    · exact ⟨rfl, by simp [subtypeFqdn]⟩
  refine ⟨?_, ?_, ?_⟩
  · -- pass 1
    rw [pass1_append, pass1_skip d len hd {} _ pos hl1
      (fun r hr => by
        rcases (haddr r hr).2 with ⟨e, _⟩ | ⟨e, _⟩ <;> rw [e] <;> exact ⟨by decide, Or.inr (by decide)⟩)]
    simp only [bind, Except.bind, pass1]
    have hs : pass1Step d {} ((srvRecord h s svcTtl).parsed (pos + (specsBytes (addrRecords h hostTtl)).length) len) =
        .ok { inst := some (flatName (serviceFqdn s)), host := some (flatName (hostFqdn h)), port := some s.port, haveSrv := true } := by
      unfold pass1Step
      rw [toSrv_at hsrv 0 0 s.port (hostFqdn h) rfl (by simp [srvRecord]) (by omega) (by omega) hwf.port hwf.host]
      rfl
    rw [hs]
    simp only
    have := pass1_skip d len hd
      { inst := some (flatName (serviceFqdn s)), host := some (flatName (hostFqdn h)), port := some s.port, haveSrv := true }
      (ptrRecords s hostTtl svcTtl ++ [txtRecord s svcTtl]) _ (by rw [located_append]; exact ⟨hl4, hl5⟩)
      (fun r hr => by
        rcases List.mem_append.mp hr with hr | hr
        · rw [(hptr r hr).1]; exact ⟨by decide, Or.inl rfl⟩
        · simp only [List.mem_singleton] at hr; subst hr; exact ⟨by simp [txtRecord, RT_TXT, RT_SRV], Or.inl rfl⟩)
    rw [parsedAll_append] at this
    simp only [parsedAll] at this
    exact this
  · -- TXT search
    rw [findTxt_skip d len _ _ _ pos (fun r hr => by
      rcases (haddr r hr).2 with ⟨e, _⟩ | ⟨e, _⟩ <;> rw [e] <;> decide)]
    unfold findTxt
    rw [if_pos (by simp [RecSpec.parsed, srvRecord, RT_SRV, RT_TXT])]
    rw [findTxt_skip d len _ _ _ _ (fun r hr => by rw [(hptr r hr).1]; decide)]
    unfold findTxt
    rw [if_neg (by simp [RecSpec.parsed, txtRecord, flatName, nameEq])]
    rw [toUnknown_at htxt]
    rfl
  · -- addresses
    rw [addrsOf_append, addrsOf_addrs d len hd _ _ pos hl1 haddr, addrRecords_rdata]
    have e1 : nameEq ((srvRecord h s svcTtl).parsed (pos + (specsBytes (addrRecords h hostTtl)).length) len).owner (flatName (hostFqdn h)) = false :=
      nameEq_length _ _ (by simp [RecSpec.parsed, srvRecord, serviceFqdn, flatName, hostFqdn])
    have e2 : ∀ p, nameEq ((txtRecord s svcTtl).parsed p len).owner (flatName (hostFqdn h)) = false :=
      fun p => nameEq_length _ _ (by simp [RecSpec.parsed, txtRecord, serviceFqdn, flatName, hostFqdn])
    rw [show ∀ (x : Rec) (xs : List Rec), x :: xs = [x] ++ xs from fun _ _ => rfl, addrsOf_append, addrsOf_append,
      addrsOf_skip _ _ len _ _ (fun r hr => by rw [show (flatName (hostFqdn h)).labels.length = 2 from rfl]; exact (hptr r hr).2)]
    simp [addrsOf, e1, e2]


theorem broadcastBytes_eq (h : HostCfg) (s : Svc) (hostTtl svcTtl : Nat) :
    broadcastBytes h s hostTtl svcTtl = responseBytes (broadcastRecords h s hostTtl svcTtl) := rfl

/-- the answer of a message whose records were located and walked as above (octets abstract) -/
theorem answer_of (d : List Nat) (scope : Option Nat) (h : HostCfg) (s : Svc) (hostTtl svcTtl : Nat)
    (hwf : BroadcastWF h s hostTtl svcTtl) (h12 : 12 ≤ d.length) (hqr : qr d = true)
    (hall : allRecords d = .ok (parsedAll (broadcastRecords h s hostTtl svcTtl) 12 d.length))
    (hloc : Located d d.length (broadcastRecords h s hostTtl svcTtl) 12) :
    parseIntoAnswer d scope = .ok (some {
      inst := flatName (serviceFqdn s), port := some s.port, addrs := hostAddrs h, txt := s.txt, scope := scope.getD 0 }) := by
  obtain ⟨hp1, hp2, hp3⟩ := passes_broadcast d d.length (Nat.le_refl _) h s hostTtl svcTtl hwf 12 hloc
  have hrec := located_recOk d d.length (Nat.le_refl _) _ 12 hloc
  have htxt := txtPairs_encTxt s.txt (fun kv hkv => txtWF_of kv (hwf.txt kv hkv))
  have haddr := addrsAll_view d d.length _ (flatName (hostFqdn h)) hrec
  unfold parseIntoAnswer
  rw [if_neg (by omega), hqr]
  simp only [Bool.not_true, Bool.false_eq_true, if_false, hall, bind, Except.bind, hp1, hp2, htxt, haddr, hp3]
  rfl

/-- **mDNS message round trip**: the message `Host::broadcast` writes for a legal host / service description
(header + A / AAAA / SRV / PTR… / TXT answers) is parsed by `parse_into_answer` into exactly the instance
name, port, TXT pairs (in order) and addresses (IPv4 first, then IPv6, in order) that were encoded -/
theorem parse_broadcast (h : HostCfg) (s : Svc) (hostTtl svcTtl : Nat) (scope : Option Nat)
    (hwf : BroadcastWF h s hostTtl svcTtl) :
    parseIntoAnswer (broadcastBytes h s hostTtl svcTtl) scope = .ok (some {
      inst := flatName (serviceFqdn s), port := some s.port, addrs := hostAddrs h, txt := s.txt, scope := scope.getD 0 }) := by
  rw [broadcastBytes_eq]
  obtain ⟨h12, hqr, _⟩ := response_hdr (broadcastRecords h s hostTtl svcTtl) hwf.count
  obtain ⟨hall, hloc⟩ := allRecords_response (broadcastRecords h s hostTtl svcTtl) (records_wf h s hostTtl svcTtl hwf) hwf.count
  exact answer_of _ scope h s hostTtl svcTtl hwf h12 hqr hall hloc

/-- the encoder succeeds for a legal description whenever the buffer is large enough, and fails with
`BufferTooSmall` (never a panic) when it is not -/
theorem pushAll_ok (cap : Nat) : ∀ (rs : List RecSpec) (used : Nat), used ≤ cap →
    (∀ r ∈ rs, nameSliceOk r.owner = true ∧ nameSliceOk r.inner = true ∧ r.rdata.length ≤ 65535) →
    (used + (specsBytes rs).length ≤ cap → pushAll cap rs used = .ok ()) ∧
    (¬ used + (specsBytes rs).length ≤ cap → pushAll cap rs used = .error .bufferTooSmall) := by
  intro rs
  induction rs with
  | nil => intro used hu _; exact ⟨fun _ => rfl, fun hn => by simp [specsBytes] at hn; omega⟩
  | cons r rs ih =>
    intro used hu h
    obtain ⟨h1, h2, h3⟩ := h r (by simp)
    unfold pushAll
    simp only [h1, h2, Bool.not_true, Bool.false_eq_true, if_false]
    rw [specsBytes_cons, List.length_append]
    by_cases hfit : used + r.bytes.length > cap
    · rw [if_pos hfit]
      exact ⟨fun hc => by omega, fun _ => rfl⟩
    · rw [if_neg hfit, if_neg (by omega)]
      obtain ⟨i1, i2⟩ := ih (used + r.bytes.length) (by omega) (fun x hx => h x (by simp [hx]))
      exact ⟨fun hc => i1 (by omega), fun hc => i2 (by omega)⟩

theorem nameSliceOk_of_wf (ls : List (List Nat)) (h : NameWF ls) : nameSliceOk ls = true := by
  simp only [nameSliceOk, List.all_eq_true, decide_eq_true_eq]
  exact fun l hl => (h.1 l hl).2

theorem broadcast_spec (h : HostCfg) (s : Svc) (hostTtl svcTtl cap : Nat) (hwf : BroadcastWF h s hostTtl svcTtl) :
    if (broadcastBytes h s hostTtl svcTtl).length ≤ cap then broadcast h s hostTtl svcTtl cap = .ok (broadcastBytes h s hostTtl svcTtl)
    else broadcast h s hostTtl svcTtl cap = .error .bufferTooSmall := by
  have hlen : (broadcastBytes h s hostTtl svcTtl).length = 12 + (specsBytes (broadcastRecords h s hostTtl svcTtl)).length := by
    rw [broadcastBytes_eq, responseBytes, List.length_append, responseHeader_length]
  have htype : NameWF (serviceTypeFqdn s) := nameWF_tail _ _ hwf.inst
  have hok : ∀ r ∈ broadcastRecords h s hostTtl svcTtl,
      nameSliceOk r.owner = true ∧ nameSliceOk r.inner = true ∧ r.rdata.length ≤ 65535 := by
    intro r hr
    have hr' := records_wf h s hostTtl svcTtl hwf r hr
    refine ⟨nameSliceOk_of_wf _ hr'.owner, ?_, by have := hr'.rdata; omega⟩
    rw [broadcastRecords_split] at hr
    simp only [List.mem_append, List.mem_cons, addrRecords, ptrRecords, List.mem_map, List.mem_filter,
      List.not_mem_nil, or_false] at hr
    rcases hr with (hr | ⟨a, _, rfl⟩) | rfl | ((rfl | rfl) | ⟨sub, _, rfl⟩) | rfl
    · split at hr
      · cases hr
      · simp only [List.mem_singleton] at hr; subst hr; rfl
    · rfl
    · exact nameSliceOk_of_wf _ hwf.host
    · exact nameSliceOk_of_wf _ hwf.inst
    · exact nameSliceOk_of_wf _ htype
    · exact nameSliceOk_of_wf _ hwf.inst
    · rfl
  unfold broadcast
  by_cases hc : (broadcastBytes h s hostTtl svcTtl).length ≤ cap
  · rw [if_pos hc, if_neg (by omega)]
    have hp := (pushAll_ok cap (broadcastRecords h s hostTtl svcTtl) 12 (by omega) hok).1 (by omega)
    simp only [hp, bind, Except.bind, pure, Except.pure]
  · rw [if_neg hc]
    by_cases h12 : cap < 12
    · rw [if_pos h12]
    · rw [if_neg h12]
      have hp := (pushAll_ok cap (broadcastRecords h s hostTtl svcTtl) 12 (by omega) hok).2 (by omega)
      simp only [hp, bind, Except.bind]


/-- **PTR record data round trip**: the target name -/
theorem toPtr_at {d : List Nat} {len : Nat} {r : RecSpec} {pos : Nat} (h : At d len r pos)
    (target : List (List Nat)) (ht : r.rtype = RT_PTR) (hdata : r.rdata = encName target) (hwf : NameWF target) :
    toPtr d (r.parsed pos len) = .ok (some (flatName target)) := by
  obtain ⟨B, hB⟩ := h.data
  have hfit := h.fit; have hlim := h.lim
  rw [RecSpec.bytes_length] at hfit
  rw [hdata] at hB
  have hlen : r.rdata.length = (encName target).length := by rw [hdata]
  have hL : pos + r.hdrLen + r.rdata.length ≤ d.length := by omega
  have e := parseName_flat d ⟨pos + r.hdrLen, pos + r.hdrLen + r.rdata.length⟩ target B hwf hB (by simp only; omega) hL
  unfold toPtr
  rw [h.sub]
  simp only [bind, Except.bind]
  rw [if_neg (by simp [RecSpec.parsed, ht])]
  rw [e]; simp only
  rw [show pos + r.hdrLen + (encName target).length = pos + r.hdrLen + r.rdata.length by omega]
  exact finish_exact _ _

/-- **a query is never an answer**: `build_query` clears the QR bit and `parse_into_answer` ignores such messages -/
theorem parse_query (name : List (List Nat)) (rtype : Nat) (scope : Option Nat) :
    parseIntoAnswer (queryBytes name rtype) scope = .ok none := by
  unfold parseIntoAnswer
  have hl : ¬ (queryBytes name rtype).length < 12 := by simp [queryBytes, u16be]
  have hq : qr (queryBytes name rtype) = false := by simp [queryBytes, qr]
  rw [if_neg hl, hq]; rfl

/-- the question section written by `build_query` is walked by `msg.answer()` to the end of the message -/
theorem answerStart_query (name : List (List Nat)) (rtype : Nat) (hwf : NameWF name) (ht : rtype < 65536) :
    answerStart (queryBytes name rtype) = .ok ⟨(queryBytes name rtype).length, (queryBytes name rtype).length⟩ := by
  have hlen : (queryBytes name rtype).length = 12 + (encName name).length + 4 := by simp [queryBytes, u16be]; omega
  have hq : hdrU16 (queryBytes name rtype) 4 = 1 := by simp [queryBytes, hdrU16, u16be]
  have hdrop : (queryBytes name rtype).drop 12 = encName name ++ (u16be rtype ++ (u16be CLASS_IN ++ [])) := by
    have : queryBytes name rtype = ([0, 0, 0, 0] ++ u16be 1 ++ u16be 0 ++ u16be 0 ++ u16be 0) ++ (encName name ++ (u16be rtype ++ (u16be CLASS_IN ++ []))) := by
      simp [queryBytes]
    rw [this]; exact List.drop_left' rfl
  unfold answerStart
  rw [hq]
  have a := parseName_flat (queryBytes name rtype) ⟨12, (queryBytes name rtype).length⟩ name _ hwf hdrop (by simp only; omega) (Nat.le_refl _)
  have hd1 : (queryBytes name rtype).drop (12 + (encName name).length) = u16be rtype ++ (u16be CLASS_IN ++ []) := by
    rw [← List.drop_drop, hdrop, List.drop_left' rfl]
  have b := parseU16_at (queryBytes name rtype) (12 + (encName name).length) (queryBytes name rtype).length rtype _ ht hd1 (by omega) (Nat.le_refl _)
  have c := parseU16_at (queryBytes name rtype) (12 + (encName name).length + 2) (queryBytes name rtype).length CLASS_IN _ (by decide) b.2 (by omega) (Nat.le_refl _)
  simp only [skipQuestions, bind, Except.bind]
  simp only at a
  rw [a]; simp only
  rw [b.1]; simp only
  rw [c.1]; simp only [pure, Except.pure]
  rw [hlen]


/-- a browse response: one PTR record `service type → instance` -/
def browseRecord (stype inst : List (List Nat)) (ttl : Nat) : RecSpec :=
  { owner := stype, rtype := RT_PTR, cls := CLASS_IN, ttl := ttl, rdata := encName inst, inner := inst }

/-- **browse response (PTR only)**: without an SRV record the instance name is the PTR target; no port, no
address, no TXT pair (`parse_into_answer`'s fallback branch) -/
theorem parse_browse_response (stype inst : List (List Nat)) (ttl : Nat) (scope : Option Nat)
    (h1 : NameWF stype) (h2 : NameWF inst) (h3 : ttl < 4294967296) :
    parseIntoAnswer (responseBytes [browseRecord stype inst ttl]) scope =
      .ok (some { inst := flatName inst, port := none, addrs := [], txt := [], scope := scope.getD 0 }) := by
  have hwf : ∀ r ∈ [browseRecord stype inst ttl], r.WF := by
    intro r hr
    simp only [List.mem_singleton] at hr; subst hr
    exact ⟨h1, by simp [browseRecord, RT_PTR], by simp [browseRecord, CLASS_IN], h3, by have := h2.2; simp only [browseRecord]; omega⟩
  obtain ⟨h12, hqr, _⟩ := response_hdr [browseRecord stype inst ttl] (by simp)
  obtain ⟨hall, hloc⟩ := allRecords_response [browseRecord stype inst ttl] hwf (by simp)
  revert hall hloc h12 hqr
  generalize responseBytes [browseRecord stype inst ttl] = d
  intro h12 hqr hall hloc
  obtain ⟨hat, _⟩ := hloc.head (Nat.le_refl _)
  have hs := toSrv_other hat (show (browseRecord stype inst ttl).rtype ≠ RT_SRV by simp [browseRecord, RT_PTR, RT_SRV])
  have hp := toPtr_at hat inst rfl rfl h2
  unfold parseIntoAnswer
  rw [if_neg (by omega), hqr]
  simp only [Bool.not_true, Bool.false_eq_true, if_false, hall, bind, Except.bind, parsedAll, pass1, pass1Step, hs, hp, okSome]
  simp [findTxt, RecSpec.parsed, browseRecord, RT_PTR, RT_TXT, txtPairs, txtAll, txtNext, addrsAll, addrsNext, bind, Except.bind,
    pure, Except.pure]


end Codec.Mdns
