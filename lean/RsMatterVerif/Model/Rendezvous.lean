import RsMatterVerif.Generated.Consts
/-!
# Model of the single-occupancy rendezvous slots of rs-matter (C20)

Transliteration of

* the mDNS **resolve** slot: `Transport::resolve` (`transport.rs`; step 1 places the request if the
  slot is `Idle`, step 2 arms `MdnsResolveGuard`, step 3 waits for `Resolved` or the time-out),
  `Transport::wait_mdns_resolve_request` (responder: `Requested → InFlight`),
  `Transport::try_deposit_mdns_resolve` (`InFlight → Resolved`, `Resolved` stays, else no-op),
  `MdnsResolveGuard::drop` (`if armed { if Idle {} else { Idle } }`);
* the mDNS **browse** slot: `Transport::browse_commissionable`, `wait_mdns_browse_request`,
  `try_deposit_mdns_browse`, `MdnsBrowseGuard::drop` — the same machine with `Found` for `Resolved`;
* the PASE **in-progress marker** `Pase::session_timeout : Option<SessionEstTimeout>`
  (`sc/pase.rs`, `sc/pase/responder.rs`: `update_session_timeout`, `clear_session_timeout`,
  `Pase::record_pake_failure`).

A caller of `resolve` / `browse_commissionable` is a *waiter*. It is **queued** while its first
`Signal::wait` has not yet seen `Idle` (no guard exists yet: dropping it does nothing to the slot) and
**placed** from the moment that closure has run (`Requested` written, guard armed - there is no await
point between the two). The state keeps the waiter ids of both phases as lists (nothing in the model
forces the list of placed waiters to have at most one element: that is a theorem) and, as a ghost
field, the id of the waiter whose request occupies the slot.

Time is `Nat` milliseconds. Import-free (apart from the generated constants).
-/
namespace Rendezvous

/-- `MdnsResolveState` / `MdnsBrowseState` without their payloads
(`resolved` = `Resolved { .. }` / `Found { .. }`) -/
inductive Slot | idle | requested | inFlight | resolved
deriving Repr, DecidableEq, Inhabited

def Slot.name : Slot → String
  | .idle => "i" | .requested => "q" | .inFlight => "f" | .resolved => "r"

structure St where
  slot : Slot := .idle
  /-- ghost: the waiter whose request occupies the slot -/
  owner : Option Nat := none
  /-- callers whose first `wait` closure has not yet seen `Idle` (no guard yet) -/
  queued : List Nat := []
  /-- callers that placed a request and hold an armed guard -/
  placed : List Nat := []
deriving Repr, DecidableEq, Inhabited

inductive Op
  /-- a new caller enters `resolve` / `browse_commissionable` and polls its first `wait` -/
  | arrive (w : Nat)
  /-- the first `wait` closure of waiter `w` runs -/
  | place (w : Nat)
  /-- responder: `wait_mdns_*_request` -/
  | pickup
  /-- responder: `try_deposit_mdns_*` with a matching, complete answer -/
  | deposit
  /-- the second `wait` closure of the placed waiter `w` runs -/
  | consume (w : Nat)
  /-- the future of waiter `w` is dropped by its caller -/
  | cancel (w : Nat)
  /-- the timer of waiter `w` fires: `select` returns, the function returns `NotFound`, locals drop -/
  | timeout (w : Nat)
deriving Repr, DecidableEq, Inhabited

/-- `Mdns*Guard::drop` with `armed == true`: `if Idle { no-op } else { Idle }` -/
def guardDropSlot (s : Slot) : Slot :=
  match s with
  | .idle => .idle
  | _ => .idle

/-- the ghost owner after the guard's drop: the slot is `Idle` afterwards in both arms -/
def guardDropOwner (s : Slot) (o : Option Nat) : Option Nat :=
  match s with
  | .idle => o
  | _ => none

/-- a new caller: its id joins the queue (ids are chosen by the environment; an id in use is refused
so that the two lists describe distinct callers) -/
def arrive (st : St) (w : Nat) : St :=
  if st.queued.contains w || st.placed.contains w then st
  else { st with queued := st.queued ++ [w] }

/-- step 1 of `resolve`: `if Idle { state = Requested; Some(()) } else { None }`, then the guard is armed -/
def place (st : St) (w : Nat) : St :=
  if st.queued.contains w then
    match st.slot with
    | .idle => { slot := .requested, owner := some w, queued := st.queued.erase w, placed := w :: st.placed }
    | _ => st
  else st

/-- `wait_mdns_resolve_request`: `Requested → InFlight`, everything else keeps waiting -/
def pickup (st : St) : St :=
  match st.slot with
  | .requested => { st with slot := .inFlight }
  | _ => st

/-- `try_deposit_mdns_resolve`: `InFlight → Resolved`; `Resolved` merges and stays; else no-op -/
def deposit (st : St) : St :=
  match st.slot with
  | .inFlight => { st with slot := .resolved }
  | _ => st

/-- step 3 of `resolve`, first arm of the `select`: `Resolved → Idle`, `guard.armed = false`, return -/
def consume (st : St) (w : Nat) : St :=
  if st.placed.contains w then
    match st.slot with
    | .resolved => { st with slot := .idle, owner := none, placed := st.placed.erase w }
    | _ => st
  else st

/-- the future of waiter `w` is dropped (cancelled by its caller, or its own time-out fired):
queued ⇒ there is no guard, nothing happens to the slot; placed ⇒ the armed guard's drop runs -/
def dropWaiter (st : St) (w : Nat) : St :=
  if st.placed.contains w then
    { slot := guardDropSlot st.slot, owner := guardDropOwner st.slot st.owner,
      queued := st.queued, placed := st.placed.erase w }
  else if st.queued.contains w then { st with queued := st.queued.erase w }
  else st

/-- only a placed waiter has a timer (`Timer::after` is created after the request is placed) -/
def timeoutWaiter (st : St) (w : Nat) : St :=
  if st.placed.contains w then dropWaiter st w else st

def step (st : St) : Op → St
  | .arrive w => arrive st w
  | .place w => place st w
  | .pickup => pickup st
  | .deposit => deposit st
  | .consume w => consume st w
  | .cancel w => dropWaiter st w
  | .timeout w => timeoutWaiter st w

/-- a history: the ops applied from the left -/
def run (st : St) : List Op → St
  | [] => st
  | o :: os => run (step st o) os

def init : St := {}

/-! ## The PASE in-progress marker -/

/-- `PASE_SESSION_EST_TIMEOUT_SECS` in milliseconds -/
def paseTimeoutMs : Nat := Consts.paseSessionEstTimeoutSecs * 1000

/-- `SessionEstTimeout` -/
structure Marker where
  /-- `exch_id` -/
  owner : Nat
  /-- `session_est_expiry` -/
  expiry : Nat
deriving Repr, DecidableEq, Inhabited

structure PSt where
  marker : Option Marker := none
  now : Nat := 0
deriving Repr, DecidableEq, Inhabited

/-- what `update_session_timeout` decides: go on / `Busy` / `SessionNotFound` -/
inductive Upd | ok | busy | sessionNotFound
deriving Repr, DecidableEq, Inhabited

def Upd.name : Upd → String
  | .ok => "ok" | .busy => "Busy" | .sessionNotFound => "SessionNotFound"

/-- `SessionEstTimeout::is_sess_expired`: `Instant::now() > self.session_est_expiry` -/
def Marker.expired (k : Marker) (now : Nat) : Bool := decide (now > k.expiry)

/-- the first `if` of `update_session_timeout`: an expired marker is dropped, whoever owns it -/
def clearIfExpired (m : Option Marker) (now : Nat) : Option Marker :=
  match m with
  | some k => if k.expired now then none else some k
  | none => none

/-- `SessionEstTimeout::new(exchange)` -/
def Marker.new (ex now : Nat) : Marker := { owner := ex, expiry := now + paseTimeoutMs }

/-- the second `if` of `update_session_timeout` -/
def decide2 (m : Option Marker) (ex : Nat) (new : Bool) (now : Nat) : Option Marker × Upd :=
  match m with
  | some k =>
    if k.owner != ex then (some k, .busy)
    else (some (Marker.new ex now), .ok)
  | none =>
    if new then (some (Marker.new ex now), .ok)
    else (none, .sessionNotFound)

/-- `PaseResponder::update_session_timeout(exchange, new)` (the state part) -/
def update (st : PSt) (ex : Nat) (new : Bool) : PSt × Upd :=
  let r := decide2 (clearIfExpired st.marker st.now) ex new st.now
  ({ st with marker := r.1 }, r.2)

/-- `clear_session_timeout`: unconditional -/
def clear (st : PSt) : PSt := { st with marker := none }

/-- `Pase::record_pake_failure`: `self.session_timeout = None` (the failure counter is C02's) -/
def fail (st : PSt) : PSt := { st with marker := none }

inductive POp
  | update (ex : Nat) (new : Bool)
  | clear
  | fail
  /-- the handler future of exchange `ex` is dropped by the executor at an await point:
  no code of `PaseResponder` runs, the marker stays as it is -/
  | handlerDropped (ex : Nat)
  | tick (ms : Nat)
deriving Repr, DecidableEq, Inhabited

def pstep (st : PSt) : POp → PSt
  | .update ex new => (update st ex new).1
  | .clear => clear st
  | .fail => fail st
  | .handlerDropped _ => st
  | .tick ms => { st with now := st.now + ms }

def prun (st : PSt) : List POp → PSt
  | [] => st
  | o :: os => prun (pstep st o) os

def pinit : PSt := {}

/-- `verif_session_timeout_live`: present and not expired, i.e. it still refuses other initiators -/
def PSt.live (st : PSt) : Bool :=
  match st.marker with
  | some k => !k.expired st.now
  | none => false

/-- virtual time that passes during a list of ops -/
def elapsed : List POp → Nat
  | [] => 0
  | .tick ms :: os => ms + elapsed os
  | _ :: os => elapsed os

/-- `true` iff the op is an `update` performed by exchange `ex` -/
def POp.isUpdateOf (ex : Nat) : POp → Bool
  | .update e _ => e == ex
  | _ => false

def POp.isUpdate : POp → Bool
  | .update _ _ => true
  | _ => false

end Rendezvous
