/-! # C20 — property theorems (not built yet) -/
