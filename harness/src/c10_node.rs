//! C10 `node` cases: the receive path driven step by step on a real `Matter` with its REAL RX packet
//! slot — the tie of the transition system `Model/RxPath.lean` (the driver replays every op with
//! `RxPath.step` and compares result, table snapshot and slot content).
//!
//! Ops (one atomic section of a transport / application task each):
//!   `nsetup <next sess id> <next exch id>`   position the two id allocators (first op of a case)
//!   `arr <port> <sid> <ctr> <exch> <I|R> <a|c|s|n|o> <ack|-> <r|u> <rnd>`
//!        one iteration of `process_rx` for a datagram from peer `port` (node id 0x1000+port):
//!        session id, counter, exchange id, initiator flag, kind (standalone ack / CloseSession /
//!        other status report / PBKDFParamRequest / IM request), ack, reliable flag; `rnd` = the
//!        random initial counter of a session the datagram creates (filled in by the harness)
//!        => `blocked` (a message is waiting) | `kept` (left in the RX slot) | `drop`
//!   `acc`                 `Exchange::accept` polled once   => `acc <uid> <idx>` | `blocked`
//!   `recv <uid> <idx>`    `Exchange::recv` of that handle is called and polled once; if it stays pending the future
//!        stays parked and the next `recv` of the handle polls it again (as the executor would)
//!        => `dlv <port>/<sid>/<ctr>/<exch>` | `blocked` | `gone` (session removed) | `retr`
//!   `send <uid> <idx> <r|u>`  `Session::pre_send` for a message of that exchange  => `ok` | `err X` | `blocked` | `gone`
//!   `drop <uid> <idx>`    the `Exchange` handle is dropped  => `ok` | `blocked`
//!   `init <uid>`          `Exchange::initiate_for_session`  => `ok` | `err X`
//!   `est <port> <p|c> <ctr>`  a secure session enters the table (`get_next_sess_id`, `reserve_now`,
//!        `update`, `complete`, drop of the `ReservedSession`)  => `ok` | `err X`
//!   `rm <uid>`            `Sessions::remove`  => `ok`
//!   `t <ms>`              time passes
//!   `nuid <n>`            position the allocator of the internal session ids (28 bits; it wraps)
//!   `swa` / `swo`         `handle_accept_timeout_rx_packet` / `handle_orphaned_rx_packet` on the real slot => `swept 0|1`
//!   `swd`                 `handle_dropped_exchange`  => as in `tab` cases
//! Every line: `<result> # <table snapshot> @ <waiting message or ->`.
use std::panic::{catch_unwind, AssertUnwindSafe};

use embassy_time::{Duration, MockDriver};
use futures_lite::future::{block_on, poll_once};

use rs_matter::crypto::{test_only_crypto, Crypto};
use rs_matter::dm::devices::test::{TEST_DEV_ATT, TEST_DEV_COMM, TEST_DEV_DET};
use rs_matter::error::{Error, ErrorCode};
use rs_matter::transport::exchange::Exchange;
use rs_matter::transport::network::{Address, Ipv4Addr, NetworkSend, SocketAddr, SocketAddrV4};
use rs_matter::transport::packet::PacketHdr;
use rs_matter::transport::session::{ReservedSession, SessionMode};
use rs_matter::Matter;

use super::tc::{err_name, snapshot};
use crate::proto::{Case, Out};
use crate::rng::Rng;

pub const NODE_RULE: &str = "node cases (unit level, REAL RX slot): one real Matter; every op is one atomic section of the receive path on the real RX packet slot - an iteration of process_rx for an unsecured datagram (2-3 peers that share exchange ids; new-session requests, requests, answers, standalone acks, CloseSession and other status reports, duplicates and stale counters, secure datagrams for absent sessions), Exchange::accept / Exchange::recv polled once, sends, Exchange drops, initiate_for_session, secure sessions established, sessions removed under waiting messages and live handles, the 28-bit internal session id allocator positioned before its wrap and onto ids still in use, time steps around the 1000 ms accept deadline, both RX sweeps and the dropped-exchange closer; the driver replays every op with RxPath.step and compares result, table snapshot and RX-slot content";

struct Sink;
impl NetworkSend for Sink {
    async fn send_to(&mut self, _data: &[u8], _addr: Address) -> Result<(), Error> {
        Ok(())
    }
}

fn addr(port: u16) -> Address {
    Address::Udp(SocketAddr::V4(SocketAddrV4::new(Ipv4Addr::new(10, 0, 0, 1), port)))
}

fn datagram(port: u16, sid: u16, ctr: u32, exch: u16, initiator: bool, kind: &str, ack: Option<u32>, reliable: bool) -> Vec<u8> {
    let mut b: Vec<u8> = Vec::new();
    b.push(0x04); // source node id present, no destination
    b.extend_from_slice(&sid.to_le_bytes());
    b.push(0);
    b.extend_from_slice(&ctr.to_le_bytes());
    b.extend_from_slice(&(0x1000u64 + port as u64).to_le_bytes());
    let mut xf = 0u8;
    if initiator {
        xf |= 1;
    }
    if ack.is_some() {
        xf |= 2;
    }
    if reliable {
        xf |= 4;
    }
    b.push(xf);
    let (proto, opcode): (u16, u8) = match kind {
        "a" => (0, 0x10),
        "c" | "s" => (0, 0x40),
        "n" => (0, 0x20),
        _ => (1, 0x02),
    };
    b.push(opcode);
    b.extend_from_slice(&exch.to_le_bytes());
    b.extend_from_slice(&proto.to_le_bytes());
    if let Some(a) = ack {
        b.extend_from_slice(&a.to_le_bytes());
    }
    match kind {
        // status report: general code, protocol id, protocol code (3 = CloseSession, 2 = InvalidParameter)
        "c" => b.extend_from_slice(&[0, 0, 0, 0, 0, 0, 3, 0]),
        "s" => b.extend_from_slice(&[1, 0, 0, 0, 0, 0, 2, 0]),
        _ => b.extend_from_slice(&[0x15, 0x18]),
    }
    b
}

/// a live `Exchange` object and, if its owner is parked in `recv`, the pending future (which
/// borrows the exchange: it is declared first so that it is dropped first)
struct Handle<'a> {
    key: (u32, usize),
    fut: Option<core::pin::Pin<Box<dyn core::future::Future<Output = Result<(), Error>> + 'a>>>,
    ex: Box<Exchange<'a>>,
}

struct World<'a, C: Crypto> {
    matter: &'a Matter<'a>,
    crypto: &'a C,
    /// live `Exchange` objects by (session uid, slot)
    handles: Vec<Handle<'a>>,
}

impl<'a, C: Crypto> World<'a, C> {
    fn sess_exists(&self, uid: u32) -> bool {
        self.matter.with_state(|st| st.verif_sessions().iter().any(|s| s.id() == uid))
    }

    fn rx_state(&self) -> String {
        match self.matter.transport().verif_rx_waiting() {
            Some((sid, ctr, exch, Address::Udp(a))) => format!("{}/{}/{}/{}", a.port(), sid, ctr, exch),
            Some((sid, ctr, exch, _)) => format!("0/{}/{}/{}", sid, ctr, exch),
            None => "-".into(),
        }
    }

    /// returns (result, op text to print)
    fn op(&mut self, op: &str) -> (String, String) {
        let w: Vec<&str> = op.split_whitespace().collect();
        let num = |i: usize| -> u64 { w.get(i).and_then(|t| t.parse().ok()).unwrap_or(0) };
        let same = |r: &str| (r.to_string(), op.to_string());
        match w.first().copied().unwrap_or("") {
            "nsetup" => {
                self.matter.with_state(|st| {
                    st.verif_sessions_mut().verif_set_next_sess_id((num(1) as u16).max(1));
                    st.verif_sessions_mut().verif_set_next_exch_id((num(2) as u16).max(1));
                });
                same("ok")
            }
            "t" => {
                MockDriver::get().advance(Duration::from_millis(num(1)));
                same("ok")
            }
            // position the allocator of the internal 28-bit session ids (it wraps after 2^28 sessions)
            "nuid" => {
                self.matter.with_state(|st| st.verif_sessions_mut().verif_set_next_unique_id(num(1) as u32));
                same("ok")
            }
            "arr" => {
                let port = num(1) as u16;
                let ack = w.get(7).and_then(|t| if *t == "-" { None } else { t.parse::<u32>().ok() });
                let data = datagram(port, num(2) as u16, num(3) as u32, num(4) as u16, w.get(5).copied() == Some("I"),
                    w.get(6).copied().unwrap_or("o"), ack, w.get(8).copied() == Some("r"));
                let before: Vec<u32> = self.matter.with_state(|st| st.verif_sessions().iter().map(|s| s.id()).collect());
                let runner = self.matter.transport_runner(self.crypto);
                let res = block_on(runner.verif_process_rx_datagram(addr(port), &data, Sink));
                // the random initial counter of a session this datagram created
                let rnd = self.matter.with_state(|st| {
                    st.verif_sessions().iter().find(|s| !before.contains(&s.id())).map(|s| s.verif_msg_ctr())
                });
                let r = match res {
                    None => "blocked",
                    Some(Ok(true)) => "kept",
                    Some(_) => "drop",
                };
                let mut ww: Vec<String> = w.iter().map(|t| t.to_string()).collect();
                while ww.len() < 10 {
                    ww.push("0".into());
                }
                if let Some(c) = rnd {
                    ww[9] = c.to_string();
                }
                (r.to_string(), ww.join(" "))
            }
            "acc" => {
                let m = self.matter;
                let fut = core::pin::pin!(Exchange::accept(m));
                match block_on(poll_once(fut)) {
                    Some(Ok(ex)) => {
                        let (uid, idx) = ex.verif_ids();
                        self.handles.push(Handle { key: (uid, idx), fut: None, ex: Box::new(ex) });
                        same(&format!("acc {} {}", uid, idx))
                    }
                    Some(Err(e)) => same(&format!("err {}", err_name(&e))),
                    None => same("blocked"),
                }
            }
            "recv" => {
                let key = (num(1) as u32, num(2) as usize);
                let exists = self.sess_exists(key.0);
                match self.handles.iter_mut().find(|h| h.key == key) {
                    None => same(if exists { "blocked" } else { "gone" }),
                    Some(h) => {
                        // the owner calls `recv` (or, if it is already parked in it, is polled again)
                        if h.fut.is_none() {
                            let p: *mut Exchange<'a> = &mut *h.ex;
                            // SAFETY: the future is dropped before the boxed exchange (field order, and
                            // every op that uses the exchange otherwise drops the future first)
                            let exref: &'a mut Exchange<'a> = unsafe { &mut *p };
                            h.fut = Some(Box::pin(async move { exref.recv().await.map(drop) }));
                        }
                        let polled = block_on(poll_once(h.fut.as_mut().unwrap().as_mut()));
                        let r = match polled {
                            Some(Ok(())) => {
                                h.fut = None;
                                "dlv".to_string()
                            }
                            Some(Err(e)) => {
                                h.fut = None;
                                match e.code() {
                                    ErrorCode::NoSession => "gone".into(),
                                    ErrorCode::InvalidState => "retr".into(),
                                    // the owner's own receive time-out is outside the model: it just calls again later
                                    ErrorCode::RxTimeout => if exists { "blocked".into() } else { "gone".into() },
                                    _ => format!("err {}", err_name(&e)),
                                }
                            }
                            // parked; an owner whose session vanished learns it when it is notified
                            None => if exists { "blocked".into() } else { "gone".into() },
                        };
                        same(&r)
                    }
                }
            }
            "send" => {
                let key = (num(1) as u32, num(2) as usize);
                let exists = self.sess_exists(key.0);
                match self.handles.iter_mut().find(|h| h.key == key) {
                    None => return same(if exists { "blocked" } else { "gone" }),
                    // an owner that sends is not parked in `recv` any more
                    Some(h) => h.fut = None,
                }
                let mut hdr = PacketHdr::new();
                if w.get(3).copied() == Some("r") {
                    hdr.proto.set_reliable();
                }
                hdr.proto.proto_id = 1;
                hdr.proto.proto_opcode = 5;
                let r = self.matter.with_state(|st| match st.verif_sessions_mut().get(key.0) {
                    None => "gone".to_string(),
                    Some(s) => match catch_unwind(AssertUnwindSafe(|| s.verif_pre_send_t(Some(key.1), &mut hdr, None, None))) {
                        Err(_) => "panic".into(),
                        Ok(Ok(_)) => "ok".into(),
                        Ok(Err(e)) => format!("err {}", err_name(&e)),
                    },
                });
                same(&r)
            }
            "drop" => {
                let key = (num(1) as u32, num(2) as usize);
                let exists = self.sess_exists(key.0);
                match self.handles.iter().position(|h| h.key == key) {
                    None => same("blocked"),
                    Some(i) => {
                        let ex = self.handles.remove(i);
                        match catch_unwind(AssertUnwindSafe(move || drop(ex))) {
                            Ok(()) => same(if exists { "ok" } else { "blocked" }),
                            Err(_) => same("panic"),
                        }
                    }
                }
            }
            "init" => {
                let (m, c) = (self.matter, self.crypto);
                match catch_unwind(AssertUnwindSafe(|| Exchange::initiate_for_session(m, c, num(1) as u32))) {
                    Err(_) => same("panic"),
                    Ok(Err(e)) => same(&format!("err {}", err_name(&e))),
                    Ok(Ok(ex)) => {
                        let k = ex.verif_ids();
                        self.handles.push(Handle { key: k, fut: None, ex: Box::new(ex) });
                        same("ok")
                    }
                }
            }
            "est" => {
                let port = num(1) as u16;
                let mode = match w.get(2).copied().unwrap_or("p") {
                    "c" => SessionMode::Case { fab_idx: core::num::NonZeroU8::new(1).unwrap(), cat_ids: Default::default() },
                    _ => SessionMode::Pase { fab_idx: 0 },
                };
                let sid = self.matter.with_state(|st| st.verif_sessions_mut().get_next_sess_id());
                let mut ww: Vec<String> = w.iter().map(|t| t.to_string()).collect();
                while ww.len() < 4 {
                    ww.push("0".into());
                }
                let r = match ReservedSession::reserve_now(self.matter, self.crypto) {
                    Err(e) => format!("err {}", err_name(&e)),
                    Ok(mut rs) => {
                        let ctr = self.matter.with_state(|st| st.verif_sessions().iter().last().map(|s| s.verif_msg_ctr()).unwrap_or(0));
                        ww[3] = ctr.to_string();
                        match rs.update(0, 1, port, sid, addr(port), mode, None, None, None, None) {
                            Ok(()) => {
                                rs.complete();
                                drop(rs);
                                "ok".into()
                            }
                            Err(e) => format!("err {}", err_name(&e)),
                        }
                    }
                };
                (r, ww.join(" "))
            }
            "rm" => {
                self.matter.with_state(|st| {
                    st.verif_sessions_mut().remove(num(1) as u32);
                });
                same("ok")
            }
            // a parked owner is polled again although nothing it waits for has happened
            // (spurious wake-up; in particular after its session was removed)
            "swa" | "swo" => {
                let runner = self.matter.transport_runner(self.crypto);
                match runner.verif_sweep_real_rx(w[0] == "swo") {
                    Some(true) => same("swept 1"),
                    Some(false) => same("swept 0"),
                    None => same("held"),
                }
            }
            "swd" => {
                let runner = self.matter.transport_runner(self.crypto);
                let r = match runner.verif_handle_dropped_exchange() {
                    (Err(e), _) => format!("err {}", err_name(&e)),
                    (Ok(true), _) => "none".into(),
                    (Ok(false), None) => "exch".into(),
                    (Ok(false), Some((hdr, _))) => {
                        if hdr.proto.proto_id == 0 && hdr.proto.proto_opcode == 0x10 {
                            format!("exch ack {} ctr {} x {}", hdr.proto.get_ack().map(|a| a.to_string()).unwrap_or("-".into()), hdr.plain.ctr, hdr.proto.exch_id)
                        } else {
                            format!("sess x {} ctr {}", hdr.proto.exch_id, hdr.plain.ctr)
                        }
                    }
                };
                same(&r)
            }
            _ => same("bad"),
        }
    }
}

/// run one `node` case: `f` gets `exec(op) -> "<result> # <snapshot> @ <rx>"`
pub fn run_node_with(out: &mut Out, f: &mut dyn FnMut(&mut dyn FnMut(&str) -> String)) {
    MockDriver::get().reset();
    MockDriver::get().advance(Duration::from_millis(1000));
    let matter = Box::new(Matter::new(&TEST_DEV_DET, TEST_DEV_COMM, &TEST_DEV_ATT, 0));
    let crypto = test_only_crypto();
    let mut w = World { matter: &matter, crypto: &crypto, handles: Vec::new() };
    {
        let mut exec = |op: &str| -> String {
            if std::env::var("VH_NODE_TRACE").is_ok() {
                eprintln!("{}", op);
            }
            let (r, shown) = match catch_unwind(AssertUnwindSafe(|| w.op(op))) {
                Ok(r) => r,
                Err(_) => ("panic".to_string(), op.to_string()),
            };
            // the delivered message is identified by what left the slot
            let snap = w.matter.with_state(|st| snapshot(st.verif_sessions()));
            let rx = w.rx_state();
            out.stat(&format!("node_op_{}", op.split_whitespace().next().unwrap_or("?")), 1);
            out.stat(&format!("node_res_{}", r.split_whitespace().next().unwrap_or("?")), 1);
            let full = format!("{} # {} @ {}", r, snap, rx);
            out.op(&shown, &full);
            full
        };
        f(&mut exec);
    }
    let World { handles, .. } = w;
    let _ = catch_unwind(AssertUnwindSafe(move || drop(handles)));
}

pub fn run_node(out: &mut Out, case: &Case) {
    run_node_with(out, &mut |exec| {
        for op in &case.ops {
            exec(op);
        }
    });
}

/// generator: state-aware (it reads the real answers) random histories
pub fn gen_node(r: &mut Rng, out: &mut Out, len: usize) {
    run_node_with(out, &mut |exec| {
        exec(&format!("nsetup {} {}", r.range(1, 900), r.range(1, 65535)));
        // every third case starts just before the wrap of the 28-bit internal session id
        if r.chance(1, 3) {
            exec(&format!("nuid {}", 268435455 - r.below(3)));
        }
        let ports: Vec<u64> = vec![5001, 5002, 5003];
        // per peer: the next message counter; a small pool of exchange ids shared by all peers
        let mut ctrs: Vec<u64> = vec![r.range(100, 1 << 20), r.range(100, 1 << 20), r.range(100, 1 << 20)];
        let xids: Vec<u64> = vec![r.range(1, 65535), r.range(1, 65535), 7];
        let mut handles: Vec<(u64, u64)> = Vec::new();
        let mut last_full = String::new();
        for _ in 0..len {
            // live sessions / slots from the last snapshot
            let snap = super::tc::parse_snap(&last_full.split(" @ ").next().unwrap_or("").to_string());
            let uids: Vec<u64> = snap.sessions.iter().map(|s| s.uid as u64).collect();
            let pick_uid = |r: &mut Rng| -> u64 { if uids.is_empty() || r.chance(1, 15) { r.below(6) } else { *r.pick(&uids) } };
            let waiting = !last_full.ends_with("@ -") && !last_full.is_empty();
            // weights depend on whether a message is waiting: then mostly the steps that can take or
            // discard it, otherwise mostly arrivals
            let roll = if waiting { 30 + r.below(70) } else if r.chance(1, 2) { r.below(30) } else { r.below(100) };
            let op: String = match roll {
                0..=29 => {
                    let pi = r.below(ports.len() as u64) as usize;
                    let port = ports[pi];
                    // secure datagrams only for sessions that do not exist (the harness does not encrypt)
                    let sid = if r.chance(1, 12) { 60000 + r.below(5000) } else { 0 };
                    ctrs[pi] += r.range(1, 2);
                    let ctr = if r.chance(1, 10) { ctrs[pi].saturating_sub(r.range(1, 40)) } else { ctrs[pi] };
                    let exch = if r.chance(5, 6) { *r.pick(&xids) } else { r.range(0, 65535) };
                    let kind = match r.below(12) { 0 => "a", 1 => "c", 2 => "s", 3..=6 => "n", _ => "o" };
                    let flag = if r.chance(4, 5) { "I" } else { "R" };
                    let ack = if r.chance(1, 4) { r.below(1 << 28).to_string() } else { "-".into() };
                    format!("arr {} {} {} {} {} {} {} {} 0", port, sid, ctr, exch, flag, kind, ack, if r.chance(3, 4) { "r" } else { "u" })
                }
                30..=41 => "acc".into(),
                42..=55 => {
                    if handles.is_empty() || r.chance(1, 12) { format!("recv {} {}", pick_uid(r), r.below(5)) } else { let h = *r.pick(&handles); format!("recv {} {}", h.0, h.1) }
                }
                56..=60 => {
                    if handles.is_empty() || r.chance(1, 12) { format!("send {} {} r", pick_uid(r), r.below(5)) } else { let h = *r.pick(&handles); format!("send {} {} {}", h.0, h.1, if r.chance(3, 4) { "r" } else { "u" }) }
                }
                61..=66 => {
                    if handles.is_empty() || r.chance(1, 12) { format!("drop {} {}", pick_uid(r), r.below(5)) } else { let h = *r.pick(&handles); format!("drop {} {}", h.0, h.1) }
                }
                67..=69 => format!("init {}", pick_uid(r)),
                70..=71 => format!("est {} {} 0", 6000 + r.below(4), if r.chance(1, 2) { "p" } else { "c" }),
                72 => format!("rm {}", pick_uid(r)),
                // the id allocator arrives at an id that is still in use (as after a wrap)
                73 => {
                    // the allocator arrives at the id of a live session (as after a wrap). Only where no
                    // `Exchange` handle - live or stale - carries one of the next ids: an id that is reused
                    // while a stale handle still refers to it is the open finding
                    // C10-session-id-reuse-stale-handle (corpus), not generated here
                    let free: Vec<u64> = uids.iter().copied().filter(|u| (0..=200u64).all(|k| !handles.iter().any(|h| h.0 == (*u + k) % (1 << 28)))).collect();
                    if free.is_empty() || r.chance(1, 2) {
                        format!("rm {}", pick_uid(r))
                    } else {
                        exec(&format!("nuid {}", *r.pick(&free)));
                        format!("est {} {} 0", 6000 + r.below(4), if r.chance(1, 2) { "p" } else { "c" })
                    }
                }
                74..=81 => if waiting && r.chance(2, 3) { format!("t {}", *r.pick(&[1u64, 400, 999, 1000, 1001])) } else { format!("t {}", *r.pick(&[1u64, 50, 500])) },
                82..=88 => "swa".into(),
                89..=94 => "swo".into(),
                _ => "swd".into(),
            };
            let full = exec(&op);
            let res = full.split(" # ").next().unwrap_or("").trim().to_string();
            let w: Vec<&str> = op.split_whitespace().collect();
            let n = |i: usize| -> u64 { w.get(i).and_then(|t| t.parse().ok()).unwrap_or(0) };
            match w[0] {
                "acc" if res.starts_with("acc ") => {
                    let p: Vec<u64> = res.split_whitespace().skip(1).filter_map(|t| t.parse().ok()).collect();
                    if p.len() == 2 {
                        handles.push((p[0], p[1]));
                    }
                }
                "init" if res == "ok" => {
                    // the new exchange is the initiator-owned slot that was not there before
                    let s2 = super::tc::parse_snap(&full.split(" @ ").next().unwrap_or("").to_string());
                    for s in &s2.sessions {
                        if s.uid as u64 == n(1) {
                            for (i, sl) in s.slots.iter().enumerate() {
                                if sl.as_ref().map(|x| x.role == "IO").unwrap_or(false) && !handles.contains(&(n(1), i as u64)) {
                                    handles.push((n(1), i as u64));
                                }
                            }
                        }
                    }
                }
                "drop" => handles.retain(|h| *h != (n(1), n(2))),
                _ => {}
            }
            last_full = full;
        }
    });
}
