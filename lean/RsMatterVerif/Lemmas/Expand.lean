import RsMatterVerif.Model.Expand
import RsMatterVerif.Props.C05
/-!
# Lemmas for C06: what each loop of the path expander guarantees about what it returns
-/
namespace Expand
open Acl

theorem matchesOpt_iff (w : Option Nat) (id : Nat) : (w.isNone || w == some id) = matchesOpt w id := by
  cases w <;> simp [matchesOpt]

theorem leafCheck_true {ctx : Ctx} {op : Operation} {e : Endpoint} {c : Cluster} {leafId : Nat}
    {la : Option (Nat × Nat × Nat)} (h : leafCheck ctx op e c leafId la = .ok true) :
    ctx.filter e.id c.id leafId = true ∧
      (la = some (e.id, c.id, leafId) ∨ checkAccess ctx op e c leafId = .ok ()) := by
  unfold leafCheck at h
  by_cases hf : ctx.filter e.id c.id leafId = true
  · refine ⟨hf, ?_⟩
    rw [if_pos hf] at h
    by_cases hl : (la == some (e.id, c.id, leafId)) = true
    · exact Or.inl (by simpa using hl)
    · rw [if_neg hl] at h
      right
      cases hc : checkAccess ctx op e c leafId with
      | error s => rw [hc] at h; cases h
      | ok u => rfl
  · rw [if_neg hf] at h; cases h

/-- what the innermost loop guarantees about a leaf it returns -/
theorem leafLoop_found {ctx : Ctx} {op : Operation} {path : Path} {e : Endpoint} {c : Cluster}
    {la : Option (Nat × Nat × Nat)} {ls : List Leaf} {li li' : Nat} {leaf : Leaf}
    (h : leafLoop ctx op path e c la ls li = .found li' leaf) :
    leaf ∈ ls ∧ matchesOpt path.leaf leaf.id = true ∧ ctx.filter e.id c.id leaf.id = true ∧
      (la = some (e.id, c.id, leaf.id) ∨ checkAccess ctx op e c leaf.id = .ok ()) := by
  induction ls generalizing li with
  | nil => simp [leafLoop] at h
  | cons x xs ih =>
    unfold leafLoop at h
    rw [matchesOpt_iff] at h
    by_cases hm : matchesOpt path.leaf x.id = true
    · rw [if_pos hm] at h
      cases hc : leafCheck ctx op e c x.id la with
      | error s =>
        simp only [hc] at h
        split at h
        · cases h
        · obtain ⟨a, b⟩ := ih h; exact ⟨List.mem_cons_of_mem _ a, b⟩
      | ok b =>
        cases b with
        | true =>
          simp only [hc] at h
          injection h with h1 h2
          subst h2
          obtain ⟨f1, f2⟩ := leafCheck_true hc
          exact ⟨by simp, hm, f1, f2⟩
        | false =>
          simp only [hc] at h
          split at h
          · cases h
          · obtain ⟨a, b⟩ := ih h; exact ⟨List.mem_cons_of_mem _ a, b⟩
    · rw [if_neg hm] at h
      obtain ⟨a, b⟩ := ih h; exact ⟨List.mem_cons_of_mem _ a, b⟩

theorem leafLoop_no_err_wildcard {ctx : Ctx} {op : Operation} {path : Path} {e : Endpoint} {c : Cluster}
    {la : Option (Nat × Nat × Nat)} (hw : isWildcard path = true) (ls : List Leaf) (li : Nat) :
    (∀ s, leafLoop ctx op path e c la ls li ≠ .err s) ∧ leafLoop ctx op path e c la ls li ≠ .filtered := by
  induction ls generalizing li with
  | nil => simp [leafLoop]
  | cons x xs ih =>
    unfold leafLoop
    split
    · cases hc : leafCheck ctx op e c x.id la with
      | error s => simp only [hw, Bool.not_true, Bool.false_eq_true, if_false]; exact ih _
      | ok b =>
        cases b with
        | true => simp
        | false => simp only [hw, Bool.not_true, Bool.false_eq_true, if_false]; exact ih _
    · exact ih _

theorem clusterLoop_found {ctx : Ctx} {op : Operation} {path : Path} {e : Endpoint}
    {la : Option (Nat × Nat × Nat)} {cs : List Cluster} {ci li ci' li' : Nat} {c : Cluster} {leaf : Leaf}
    (h : clusterLoop ctx op path e la cs ci li = .found ci' li' c leaf) :
    c ∈ cs ∧ matchesOpt path.cluster c.id = true ∧ leaf ∈ c.leaves (op == .invoke) ∧
      matchesOpt path.leaf leaf.id = true ∧ ctx.filter e.id c.id leaf.id = true ∧
      (la = some (e.id, c.id, leaf.id) ∨ checkAccess ctx op e c leaf.id = .ok ()) := by
  induction cs generalizing ci li with
  | nil => simp [clusterLoop] at h
  | cons x xs ih =>
    unfold clusterLoop at h
    rw [matchesOpt_iff] at h
    by_cases hm : matchesOpt path.cluster x.id = true
    · rw [if_pos hm] at h
      simp only at h
      cases hl : leafLoop ctx op path e x la ((x.leaves (op == .invoke)).drop li) li with
      | found l2 lf2 =>
        simp only [hl] at h
        injection h with h1 h2 h3 h4
        subst h3; subst h4
        obtain ⟨a, b⟩ := leafLoop_found hl
        exact ⟨by simp, hm, List.mem_of_mem_drop a, b⟩
      | filtered => simp only [hl] at h; cases h
      | err s => simp only [hl] at h; cases h
      | exhausted =>
        simp only [hl] at h
        split at h
        · cases h
        · obtain ⟨a, b⟩ := ih h; exact ⟨List.mem_cons_of_mem _ a, b⟩
    · rw [if_neg hm] at h
      obtain ⟨a, b⟩ := ih h; exact ⟨List.mem_cons_of_mem _ a, b⟩

theorem clusterLoop_no_err_wildcard {ctx : Ctx} {op : Operation} {path : Path} {e : Endpoint}
    {la : Option (Nat × Nat × Nat)} (hw : isWildcard path = true) (cs : List Cluster) (ci li : Nat) :
    (∀ s, clusterLoop ctx op path e la cs ci li ≠ .err s) ∧ clusterLoop ctx op path e la cs ci li ≠ .filtered := by
  induction cs generalizing ci li with
  | nil => simp [clusterLoop]
  | cons x xs ih =>
    unfold clusterLoop
    split
    · simp only
      have hne := leafLoop_no_err_wildcard (ctx := ctx) (op := op) (e := e) (c := x) (la := la) hw
        ((x.leaves (op == .invoke)).drop li) li
      cases hl : leafLoop ctx op path e x la ((x.leaves (op == .invoke)).drop li) li with
      | found l2 lf2 => simp
      | filtered => exact absurd hl hne.2
      | err s => exact absurd hl (hne.1 s)
      | exhausted => simp only [hw, Bool.not_true, Bool.false_eq_true, if_false]; exact ih _ _
    · exact ih _ _

/-- everything `next_for_path` guarantees about a triple it yields -/
def YieldOk (ctx : Ctx) (op : Operation) (es : List Endpoint) (path : Path)
    (la : Option (Nat × Nat × Nat)) (ep cl lf : Nat) : Prop :=
  ∃ e ∈ es, e.id = ep ∧ ∃ c ∈ e.clusters, c.id = cl ∧ ∃ l ∈ c.leaves (op == .invoke), l.id = lf ∧
    matchesOpt path.endpoint ep = true ∧ matchesOpt path.cluster cl = true ∧ matchesOpt path.leaf lf = true ∧
    isEndpointAccessible ctx.fabrics ctx.accessor ep = true ∧ ctx.filter ep cl lf = true ∧
    (la = some (ep, cl, lf) ∨ checkAccess ctx op e c lf = .ok ())

theorem YieldOk.mono {ctx : Ctx} {op : Operation} {es es' : List Endpoint} {path : Path}
    {la : Option (Nat × Nat × Nat)} {ep cl lf : Nat} (hs : ∀ e ∈ es, e ∈ es')
    (h : YieldOk ctx op es path la ep cl lf) : YieldOk ctx op es' path la ep cl lf := by
  obtain ⟨e, he, r⟩ := h
  exact ⟨e, hs e he, r⟩

theorem endpointLoop_yield {ctx : Ctx} {op : Operation} {path : Path}
    {la : Option (Nat × Nat × Nat)} {es : List Endpoint} {ci li ep cl lf : Nat} {arr : Bool} {cur : Cursor}
    (h : endpointLoop ctx op path la es ci li = .yield ep cl lf arr cur) :
    YieldOk ctx op es path la ep cl lf := by
  induction es generalizing ci li with
  | nil => unfold endpointLoop at h; split at h <;> cases h
  | cons x xs ih =>
    unfold endpointLoop at h
    rw [matchesOpt_iff] at h
    by_cases hm : (matchesOpt path.endpoint x.id && isEndpointAccessible ctx.fabrics ctx.accessor x.id) = true
    · rw [if_pos hm] at h
      rw [Bool.and_eq_true] at hm
      cases hc : clusterLoop ctx op path x la (x.clusters.drop ci) ci li with
      | found c2 l2 cc lf2 =>
        simp only [hc] at h
        injection h with h1 h2 h3 h4 h5
        subst h1; subst h2; subst h3
        obtain ⟨a, b, c', d, f, g⟩ := clusterLoop_found hc
        exact ⟨x, by simp, rfl, cc, List.mem_of_mem_drop a, rfl, lf2, c', rfl, hm.1, b, d, hm.2, f, g⟩
      | filtered => simp only [hc] at h; cases h
      | err s => simp only [hc] at h; cases h
      | exhausted l2 =>
        simp only [hc] at h
        split at h
        · cases h
        · exact (ih h).mono (fun e he => List.mem_cons_of_mem _ he)
    · rw [if_neg hm] at h
      exact (ih h).mono (fun e he => List.mem_cons_of_mem _ he)

theorem endpointLoop_no_err_wildcard {ctx : Ctx} {op : Operation} {path : Path}
    {la : Option (Nat × Nat × Nat)} (hw : isWildcard path = true) (es : List Endpoint) (ci li : Nat) (s : Status) :
    endpointLoop ctx op path la es ci li ≠ .err s := by
  induction es generalizing ci li with
  | nil => unfold endpointLoop; simp [hw]
  | cons x xs ih =>
    unfold endpointLoop
    split
    · have hne := clusterLoop_no_err_wildcard (ctx := ctx) (op := op) (e := x) (la := la) hw (x.clusters.drop ci) ci li
      cases hc : clusterLoop ctx op path x la (x.clusters.drop ci) ci li with
      | found c2 l2 cc lf2 => simp
      | filtered => simp
      | err s' => exact absurd hc (hne.1 s')
      | exhausted l2 => simp only [hw, Bool.not_true, Bool.false_eq_true, if_false]; exact ih _ _
    · exact ih _ _

theorem nextForPath_yield {ctx : Ctx} {op : Operation} {node : Node} {path : Path} {cur cur' : Cursor}
    {la : Option (Nat × Nat × Nat)} {ep cl lf : Nat} {arr : Bool}
    (h : nextForPath ctx op node path cur la = .yield ep cl lf arr cur') :
    YieldOk ctx op node path la ep cl lf := by
  unfold nextForPath at h
  split at h
  · cases h
  · split at h
    · cases h
    · exact (endpointLoop_yield h).mono (fun e he => List.mem_of_mem_drop he)

/-- a wildcard the operation supports (reads: any; writes / invokes: the endpoint only) -/
def SupportedWildcard (op : Operation) (path : Path) : Prop :=
  isWildcard path = true ∧ (op = .read ∨ (path.cluster.isSome = true ∧ path.leaf.isSome = true))

theorem nextForPath_wildcard_no_err {ctx : Ctx} {op : Operation} {node : Node} {path : Path} {cur : Cursor}
    {la : Option (Nat × Nat × Nat)} (hw : SupportedWildcard op path) (s : Status) :
    nextForPath ctx op node path cur la ≠ .err s := by
  unfold nextForPath
  obtain ⟨hw, hop⟩ := hw
  have h1 : (op != .read && path.cluster.isNone) = false := by
    rcases hop with rfl | ⟨hc, _⟩
    · simp
    · cases hcc : path.cluster <;> simp_all
  have h2 : (op != .read && path.leaf.isNone) = false := by
    rcases hop with rfl | ⟨_, hl⟩
    · simp
    · cases hcc : path.leaf <;> simp_all
  simp only [h1, h2, Bool.false_eq_true, if_false]
  exact endpointLoop_no_err_wildcard hw _ _ _ s


/-- the element `(ep, cl, lf)` exists on the node, is reachable by the requester, passes the
caller's filter and passed the access check -/
def Authorised (ctx : Ctx) (op : Operation) (node : Node) (t : Nat × Nat × Nat) : Prop :=
  ∃ e ∈ node, e.id = t.1 ∧ ∃ c ∈ e.clusters, c.id = t.2.1 ∧ ∃ l ∈ c.leaves (op == .invoke), l.id = t.2.2 ∧
    isEndpointAccessible ctx.fabrics ctx.accessor t.1 = true ∧ ctx.filter t.1 t.2.1 t.2.2 = true ∧
    checkAccess ctx op e c t.2.2 = .ok ()

def PathMatches (p : Path) (ep cl lf : Nat) : Prop :=
  matchesOpt p.endpoint ep = true ∧ matchesOpt p.cluster cl = true ∧ matchesOpt p.leaf lf = true

theorem YieldOk.authorised {ctx : Ctx} {op : Operation} {node : Node} {path : Path}
    {la : Option (Nat × Nat × Nat)} {ep cl lf : Nat}
    (hla : ∀ t, la = some t → Authorised ctx op node t)
    (h : YieldOk ctx op node path la ep cl lf) :
    Authorised ctx op node (ep, cl, lf) ∧ PathMatches path ep cl lf := by
  obtain ⟨e, he, hi, c, hc, hci, l, hl, hli, m1, m2, m3, acc, fil, chk⟩ := h
  refine ⟨?_, m1, m2, m3⟩
  rcases chk with h | h
  · exact hla _ h
  · exact ⟨e, he, hi, c, hc, hci, l, hl, hli, acc, fil, h⟩

/-- invariant of the expander state during one request -/
structure Inv (ctx : Ctx) (op : Operation) (node : Node) (paths : List Path) (st : St) : Prop where
  cache : ∀ t, st.lastAuthorized = some t → Authorised ctx op node t
  item : ∀ p, st.item = some p → p ∈ paths
  items : ∀ p ∈ st.items, p ∈ paths

/-- what is guaranteed about one output of the expander -/
def OutOk (ctx : Ctx) (op : Operation) (node : Node) (paths : List Path) : Out → Prop
  | .item ep cl lf w _ =>
    Authorised ctx op node (ep, cl, lf) ∧ ∃ p ∈ paths, PathMatches p ep cl lf ∧ w = isWildcard p
  | .status p _ => p ∈ paths ∧ ¬ SupportedWildcard op p

theorem nextFrom_sound {ctx : Ctx} {op : Operation} {node : Node} {paths : List Path}
    (items : List Path) (path : Path) (cur : Cursor) (la : Option (Nat × Nat × Nat))
    {o : Out} {st' : St}
    (hla : ∀ t, la = some t → Authorised ctx op node t) (hp : path ∈ paths)
    (hi : ∀ p ∈ items, p ∈ paths)
    (h : nextFrom ctx op node path cur la items = some (o, st')) :
    Inv ctx op node paths st' ∧ OutOk ctx op node paths o := by
  induction items generalizing path cur with
  | nil =>
    unfold nextFrom at h
    cases hn : nextForPath ctx op node path cur la with
    | yield ep cl lf arr cur' =>
      simp only [hn, Option.some.injEq, Prod.mk.injEq] at h
      obtain ⟨rfl, rfl⟩ := h
      obtain ⟨ha, hm⟩ := (nextForPath_yield hn).authorised hla
      refine ⟨⟨?_, ?_, ?_⟩, ha, path, hp, hm, rfl⟩
      · intro t ht; simp only [Option.some.injEq] at ht; subst ht; exact ha
      · intro p hpp; simp only at hpp; split at hpp
        · cases hpp
        · injection hpp with hpp; subst hpp; exact hp
      · intro p hpp; cases hpp
    | done => simp [hn] at h
    | err s =>
      simp only [hn, Option.some.injEq, Prod.mk.injEq] at h
      obtain ⟨rfl, rfl⟩ := h
      refine ⟨⟨hla, ?_, ?_⟩, hp, ?_⟩
      · intro p hpp; cases hpp
      · intro p hpp; cases hpp
      · intro hw; exact nextForPath_wildcard_no_err hw s hn
  | cons q rest ih =>
    unfold nextFrom at h
    cases hn : nextForPath ctx op node path cur la with
    | yield ep cl lf arr cur' =>
      simp only [hn, Option.some.injEq, Prod.mk.injEq] at h
      obtain ⟨rfl, rfl⟩ := h
      obtain ⟨ha, hm⟩ := (nextForPath_yield hn).authorised hla
      refine ⟨⟨?_, ?_, ?_⟩, ha, path, hp, hm, rfl⟩
      · intro t ht; simp only [Option.some.injEq] at ht; subst ht; exact ha
      · intro p hpp; simp only at hpp; split at hpp
        · cases hpp
        · injection hpp with hpp; subst hpp; exact hp
      · exact hi
    | done =>
      simp only [hn] at h
      exact ih q {} (hi q (by simp)) (fun p hpp => hi p (List.mem_cons_of_mem _ hpp)) h
    | err s =>
      simp only [hn, Option.some.injEq, Prod.mk.injEq] at h
      obtain ⟨rfl, rfl⟩ := h
      refine ⟨⟨hla, ?_, hi⟩, hp, ?_⟩
      · intro p hpp; cases hpp
      · intro hw; exact nextForPath_wildcard_no_err hw s hn

theorem next_sound {ctx : Ctx} {op : Operation} {node : Node} {paths : List Path} {st st' : St} {o : Out}
    (hinv : Inv ctx op node paths st) (h : next ctx op node st = some (o, st')) :
    Inv ctx op node paths st' ∧ OutOk ctx op node paths o := by
  unfold next at h
  cases hi : st.item with
  | some path =>
    simp only [hi] at h
    exact nextFrom_sound st.items path st.cur st.lastAuthorized hinv.cache (hinv.item path hi) hinv.items h
  | none =>
    simp only [hi] at h
    cases hs : st.items with
    | nil => simp [hs] at h
    | cons p rest =>
      simp only [hs] at h
      exact nextFrom_sound rest p {} st.lastAuthorized hinv.cache (hinv.items p (by simp [hs]))
        (fun q hq => hinv.items q (by simp [hs, hq])) h

theorem run_sound {ctx : Ctx} {op : Operation} {node : Node} {paths : List Path} (fuel : Nat) (st : St)
    (hinv : Inv ctx op node paths st) : ∀ o ∈ run ctx op node fuel st, OutOk ctx op node paths o := by
  induction fuel generalizing st with
  | zero => intro o ho; simp [run] at ho
  | succ n ih =>
    intro o ho
    unfold run at ho
    cases hn : next ctx op node st with
    | none => simp [hn] at ho
    | some r =>
      obtain ⟨o', st'⟩ := r
      simp only [hn, List.mem_cons] at ho
      obtain ⟨hinv', hok⟩ := next_sound hinv hn
      rcases ho with rfl | ho
      · exact hok
      · exact ih st' hinv' o ho

theorem inv_init (ctx : Ctx) (op : Operation) (node : Node) (paths : List Path) :
    Inv ctx op node paths { items := paths } :=
  { cache := fun t h => by cases h
    item := fun p h => by cases h
    items := fun _ h => h }

/-! ## concrete paths: the loops are first-match lookups -/

/-- outcome of the innermost loop on a concrete path, cursor positions forgotten -/
inductive LeafOutcome | found (l : Leaf) | filtered | err (s : Status) | exhausted
deriving DecidableEq

def LeafRes.outcome : LeafRes → LeafOutcome
  | .found _ l => .found l
  | .filtered => .filtered
  | .err s => .err s
  | .exhausted => .exhausted

theorem matchesOpt_some (a b : Nat) : matchesOpt (some a) b = (a == b) := rfl

theorem leafLoop_concrete {ctx : Ctx} {op : Operation} {path : Path} {e : Endpoint} {c : Cluster}
    {la : Option (Nat × Nat × Nat)} (hw : isWildcard path = false) {lf : Nat} (hl : path.leaf = some lf)
    (ls : List Leaf) (li : Nat) :
    (leafLoop ctx op path e c la ls li).outcome =
      (match ls.find? (fun l => l.id == lf) with
       | none => .exhausted
       | some l => match leafCheck ctx op e c l.id la with
         | .ok true => .found l
         | .ok false => .filtered
         | .error s => .err s) := by
  induction ls generalizing li with
  | nil => simp [leafLoop, LeafRes.outcome]
  | cons x xs ih =>
    unfold leafLoop
    rw [matchesOpt_iff, hl, matchesOpt_some]
    by_cases hx : (lf == x.id) = true
    · have hx' : (x.id == lf) = true := by rw [beq_iff_eq] at hx ⊢; exact hx.symm
      rw [if_pos hx, List.find?_cons_of_pos (p := fun (l : Leaf) => l.id == lf) (l := xs) hx']
      simp only
      cases hc : leafCheck ctx op e c x.id la with
      | error s => simp [hw, LeafRes.outcome]
      | ok b => cases b <;> simp [hw, LeafRes.outcome]
    · have hx' : ¬ (x.id == lf) = true := by rw [beq_iff_eq] at hx ⊢; exact fun h => hx h.symm
      rw [if_neg hx, List.find?_cons_of_neg (p := fun (l : Leaf) => l.id == lf) (l := xs) hx']
      exact ih _

inductive ClusterOutcome | found (c : Cluster) (l : Leaf) | filtered | err (s : Status) | exhausted
deriving DecidableEq

def ClusterRes.outcome : ClusterRes → ClusterOutcome
  | .found _ _ c l => .found c l
  | .filtered => .filtered
  | .err s => .err s
  | .exhausted _ => .exhausted

/-- what a concrete path must produce inside one cluster -/
def leafOutcome (ctx : Ctx) (op : Operation) (e : Endpoint) (c : Cluster) (la : Option (Nat × Nat × Nat))
    (lf : Nat) : ClusterOutcome :=
  match (c.leaves (op == .invoke)).find? (fun l => l.id == lf) with
  | none => .err (if (op == .invoke) = true then .unsupportedCommand else .unsupportedAttribute)
  | some l => match leafCheck ctx op e c l.id la with
    | .ok true => .found c l
    | .ok false => .filtered
    | .error s => .err s

theorem clusterLoop_concrete {ctx : Ctx} {op : Operation} {path : Path} {e : Endpoint}
    {la : Option (Nat × Nat × Nat)} (hw : isWildcard path = false) {cl lf : Nat}
    (hcl : path.cluster = some cl) (hl : path.leaf = some lf) (cs : List Cluster) (ci : Nat) :
    (clusterLoop ctx op path e la cs ci 0).outcome =
      (match cs.find? (fun c => c.id == cl) with
       | none => .exhausted
       | some c => leafOutcome ctx op e c la lf) := by
  induction cs generalizing ci with
  | nil => simp [clusterLoop, ClusterRes.outcome]
  | cons x xs ih =>
    unfold clusterLoop
    rw [matchesOpt_iff, hcl, matchesOpt_some]
    by_cases hx : (cl == x.id) = true
    · have hx' : (x.id == cl) = true := by rw [beq_iff_eq] at hx ⊢; exact hx.symm
      rw [if_pos hx, List.find?_cons_of_pos (p := fun (c : Cluster) => c.id == cl) (l := xs) hx']
      simp only [List.drop_zero]
      have hlo := leafLoop_concrete (ctx := ctx) (op := op) (e := e) (c := x) (la := la) hw hl
        (x.leaves (op == .invoke)) 0
      unfold leafOutcome
      cases hr : leafLoop ctx op path e x la (x.leaves (op == .invoke)) 0 with
      | found l2 lf2 =>
        rw [hr] at hlo
        simp only [LeafRes.outcome] at hlo
        simp only [ClusterRes.outcome]
        cases hf : (x.leaves (op == .invoke)).find? (fun l => l.id == lf) with
        | none => rw [hf] at hlo; cases hlo
        | some l =>
          rw [hf] at hlo
          simp only at hlo ⊢
          cases hc : leafCheck ctx op e x l.id la with
          | error s => rw [hc] at hlo; cases hlo
          | ok b =>
            cases b with
            | true => rw [hc] at hlo; injection hlo with hlo; rw [hlo]
            | false => rw [hc] at hlo; cases hlo
      | filtered =>
        rw [hr] at hlo
        simp only [LeafRes.outcome] at hlo
        simp only [ClusterRes.outcome]
        cases hf : (x.leaves (op == .invoke)).find? (fun l => l.id == lf) with
        | none => rw [hf] at hlo; cases hlo
        | some l =>
          rw [hf] at hlo
          simp only at hlo ⊢
          cases hc : leafCheck ctx op e x l.id la with
          | error s => rw [hc] at hlo; cases hlo
          | ok b =>
            cases b with
            | true => rw [hc] at hlo; cases hlo
            | false => rfl
      | err s =>
        rw [hr] at hlo
        simp only [LeafRes.outcome] at hlo
        simp only [ClusterRes.outcome]
        cases hf : (x.leaves (op == .invoke)).find? (fun l => l.id == lf) with
        | none => rw [hf] at hlo; cases hlo
        | some l =>
          rw [hf] at hlo
          simp only at hlo ⊢
          cases hc : leafCheck ctx op e x l.id la with
          | error s' => rw [hc] at hlo; injection hlo with hlo; rw [hlo]
          | ok b =>
            cases b with
            | true => rw [hc] at hlo; cases hlo
            | false => rw [hc] at hlo; cases hlo
      | exhausted =>
        rw [hr] at hlo
        simp only [LeafRes.outcome] at hlo
        simp only [hw, Bool.not_false, if_true, ClusterRes.outcome]
        cases hf : (x.leaves (op == .invoke)).find? (fun l => l.id == lf) with
        | none => rfl
        | some l =>
          rw [hf] at hlo
          simp only at hlo
          cases hc : leafCheck ctx op e x l.id la with
          | error s' => rw [hc] at hlo; cases hlo
          | ok b => cases b <;> (rw [hc] at hlo; cases hlo)
    · have hx' : ¬ (x.id == cl) = true := by rw [beq_iff_eq] at hx ⊢; exact fun h => hx h.symm
      rw [if_neg hx, List.find?_cons_of_neg (p := fun (c : Cluster) => c.id == cl) (l := xs) hx']
      exact ih _

inductive PathOutcome | item (ep cl lf : Nat) (array : Bool) | done | err (s : Status)
deriving DecidableEq

def PathRes.outcome : PathRes → PathOutcome
  | .yield ep cl lf a _ => .item ep cl lf a
  | .done => .done
  | .err s => .err s

def arrayFlag (op : Operation) (c : Cluster) (l : Leaf) : Bool :=
  !(op == .invoke) && (((c.leaves false).find? (fun a => a.id == l.id)).map (·.array)).getD false

/-- what a concrete path `(ep, cl, lf)` must produce, by first-match lookup level by level -/
def concreteOutcome (ctx : Ctx) (op : Operation) (es : List Endpoint) (la : Option (Nat × Nat × Nat))
    (ep cl lf : Nat) : PathOutcome :=
  match es.find? (fun e => ep == e.id && isEndpointAccessible ctx.fabrics ctx.accessor e.id) with
  | none => .err .unsupportedEndpoint
  | some e =>
    match e.clusters.find? (fun c => c.id == cl) with
    | none => .err .unsupportedCluster
    | some c =>
      match leafOutcome ctx op e c la lf with
      | .found c l => .item e.id c.id l.id (arrayFlag op c l)
      | .filtered => .done
      | .err s => .err s
      | .exhausted => .err .unsupportedCluster

theorem endpointLoop_concrete {ctx : Ctx} {op : Operation} {path : Path}
    {la : Option (Nat × Nat × Nat)} (hw : isWildcard path = false) {ep cl lf : Nat}
    (hep : path.endpoint = some ep) (hcl : path.cluster = some cl) (hl : path.leaf = some lf)
    (es : List Endpoint) :
    (endpointLoop ctx op path la es 0 0).outcome = concreteOutcome ctx op es la ep cl lf := by
  induction es with
  | nil => simp [endpointLoop, hw, PathRes.outcome, concreteOutcome]
  | cons x xs ih =>
    unfold endpointLoop concreteOutcome
    rw [matchesOpt_iff, hep, matchesOpt_some]
    by_cases hx : (ep == x.id && isEndpointAccessible ctx.fabrics ctx.accessor x.id) = true
    · rw [if_pos hx, List.find?_cons_of_pos
        (p := fun (e : Endpoint) => ep == e.id && isEndpointAccessible ctx.fabrics ctx.accessor e.id) (l := xs) hx]
      simp only [List.drop_zero]
      have hco := clusterLoop_concrete (ctx := ctx) (op := op) (e := x) (la := la) hw hcl hl x.clusters 0
      cases hr : clusterLoop ctx op path x la x.clusters 0 0 with
      | found c2 l2 cc lf2 =>
        rw [hr] at hco
        simp only [ClusterRes.outcome] at hco
        simp only [PathRes.outcome]
        cases hf : x.clusters.find? (fun c => c.id == cl) with
        | none => rw [hf] at hco; cases hco
        | some c =>
          rw [hf] at hco
          simp only at hco ⊢
          rw [← hco]
          simp [arrayFlag]
      | filtered =>
        rw [hr] at hco
        simp only [ClusterRes.outcome] at hco
        simp only [PathRes.outcome]
        cases hf : x.clusters.find? (fun c => c.id == cl) with
        | none => rw [hf] at hco; cases hco
        | some c => rw [hf] at hco; simp only at hco ⊢; rw [← hco]
      | err s =>
        rw [hr] at hco
        simp only [ClusterRes.outcome] at hco
        simp only [PathRes.outcome]
        cases hf : x.clusters.find? (fun c => c.id == cl) with
        | none => rw [hf] at hco; cases hco
        | some c => rw [hf] at hco; simp only at hco ⊢; rw [← hco]
      | exhausted l2 =>
        rw [hr] at hco
        simp only [ClusterRes.outcome] at hco
        simp only [hw, Bool.not_false, if_true, PathRes.outcome]
        cases hf : x.clusters.find? (fun c => c.id == cl) with
        | none => rfl
        | some c => rw [hf] at hco; simp only at hco ⊢; rw [← hco]
    · rw [if_neg hx, List.find?_cons_of_neg
        (p := fun (e : Endpoint) => ep == e.id && isEndpointAccessible ctx.fabrics ctx.accessor e.id) (l := xs) hx]
      exact ih

/-- **A concrete path, expanded from a fresh cursor, produces exactly the first-match outcome**:
the element if every level exists, the filter admits it and the check passes; nothing if the filter
rejects it; otherwise the single status of the first failing level. -/
theorem nextForPath_concrete (ctx : Ctx) (op : Operation) (node : Node) (path : Path)
    (la : Option (Nat × Nat × Nat)) {ep cl lf : Nat}
    (hep : path.endpoint = some ep) (hcl : path.cluster = some cl) (hl : path.leaf = some lf) :
    (nextForPath ctx op node path {} la).outcome = concreteOutcome ctx op node la ep cl lf := by
  have hw : isWildcard path = false := by simp [isWildcard, hep, hcl, hl]
  unfold nextForPath
  simp only [hcl, hl, Option.isNone_some, Bool.and_false, Bool.false_eq_true, if_false,
    resumeEndpointIndex, List.drop_zero]
  exact endpointLoop_concrete hw hep hcl hl node

end Expand
