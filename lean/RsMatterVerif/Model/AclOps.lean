import RsMatterVerif.Model.Acl
/-!
# Model of the PRODUCTION mutators of the access-control configuration, and of `Accessor::for_session`

`Model/Acl.lean` models the decision (`AccessReq::allow`) and five API operations. This file adds,
branch by branch incl. the error returns and the compiled capacities, every function through which
the fabric table (`Fabrics.fabrics`: fabric index, ACL, group table) is changed by the running node:

* `fabric.rs`, `Fabric`: `acl_add`, `acl_add_init`, `acl_update`, `acl_update_init`, `acl_remove`,
  `acl_remove_all`, the ACL part of `Fabric::update` (the Administer entry created by AddNOC);
* `acl.rs`: `AclEntry::init_with` (the validation + conversion of a wire `AccessControlEntryStruct`),
  `is_node`;
* `dm/clusters/acl.rs`: `AclHandler::set_acl(fabric, value)` (Replace / Add / Update / Remove);
* `fabric.rs`, `Groups`: `add`, `remove` (one group / all groups), `groupcast_join`,
  `groupcast_remove`, `set_has_aux_acl`;
* `fabric.rs`, `Fabrics`: `add_with_post_init`, `remove`, `reset_persist`, `load_persist`, `add_load` (as used by
  the fail-safe roll-back: `remove` if present, then `add_load`), and `FabricPersist::{store, remove}`
  with the `Privilege` ↔ `AccessControlEntryPrivilegeEnum` conversion a stored entry goes through
  (`dm/types/privilege.rs`);
* `acl.rs`: `Accessor::for_session`.

The state is the `List Fabric` of `Model/Acl.lean` (whose `GroupMapping.managed` records
`mcast_policy.is_some()`, which `Groups::remove` consults) plus the fabric records of the key-value
store. `Model/Acl.lean` also has a first, coarser model of some of these mutators (`fabricsAclAddInit`,
`groupsRemove`, `fabricsReload`, … : errors collapsed to `none`, no store); the functions here carry the
error codes, the partial effects of failing operations and the store, and are what the driver runs
for the history cases.

Import-free apart from `Model/Acl.lean` (the driver links it).
-/
namespace Acl

/-- the `ErrorCode`s these functions return -/
inductive CfgErr | notFound | resourceExhausted | constraintError | bufferTooSmall
deriving DecidableEq, Repr, Inhabited

def CfgErr.name : CfgErr → String
  | .notFound => "NotFound"
  | .resourceExhausted => "ResourceExhausted"
  | .constraintError => "ConstraintError"
  | .bufferTooSmall => "BufferTooSmall"

/-! ## `Fabric`: the ACL mutators -/

/-- `Fabric::acl_add(entry)`: PASE entries rejected, index stamped, bounded push; answers the index -/
def Fabric.xAclAdd (f : Fabric) (e : Entry) : Except CfgErr (Fabric × Nat) :=
  if e.authMode == AuthMode.pase then .error .constraintError
  else if f.acl.length < Consts.maxAclEntriesPerFabric then
    .ok ({ f with acl := f.acl ++ [{ e with fabIdx := some f.fabIdx }] }, f.acl.length)
  else .error .resourceExhausted

/-- `Fabric::acl_add_init(init)`; `init` = the outcome of running the initializer. The PASE check is
commented out in the source; `Vec::push_init` checks the capacity first, then runs the initializer. -/
def Fabric.xAclAddInit (f : Fabric) (init : Except CfgErr Entry) : Except CfgErr (Fabric × Nat) :=
  if f.acl.length < Consts.maxAclEntriesPerFabric then
    match init with
    | .error err => .error err
    | .ok e => .ok ({ f with acl := f.acl ++ [{ e with fabIdx := some f.fabIdx }] }, f.acl.length)
  else .error .resourceExhausted

/-- `Fabric::acl_update(idx, entry)` (no PASE check) -/
def Fabric.xAclUpdate (f : Fabric) (idx : Nat) (e : Entry) : Except CfgErr Fabric :=
  if f.acl.length ≤ idx then .error .notFound
  else .ok { f with acl := f.acl.set idx { e with fabIdx := some f.fabIdx } }

/-- `Fabric::acl_update_init(idx, init)`: index check, then the initializer, then store + stamp -/
def Fabric.xAclUpdateInit (f : Fabric) (idx : Nat) (init : Except CfgErr Entry) : Except CfgErr Fabric :=
  if f.acl.length ≤ idx then .error .notFound
  else
    match init with
    | .error err => .error err
    | .ok e => .ok { f with acl := f.acl.set idx { e with fabIdx := some f.fabIdx } }

/-- `Fabric::acl_remove(idx)` -/
def Fabric.xAclRemove (f : Fabric) (idx : Nat) : Except CfgErr Fabric :=
  if f.acl.length ≤ idx then .error .notFound
  else .ok { f with acl := f.acl.eraseIdx idx }

/-! ## `AclEntry::init_with`: a wire `AccessControlEntryStruct` becomes an entry -/

/-- the decoded `AccessControlEntryStruct`: outer `none` = field absent; for the lists the inner
`none` = TLV null. Enumerations are the raw wire values. -/
structure EntryIn where
  privilege : Option Nat
  authMode : Option Nat
  subjects : Option (Option (List Nat))
  targets : Option (Option (List Target))
  auxiliaryType : Option Nat
deriving Repr, Inhabited

/-- `AccessControlEntryPrivilegeEnum::from_tlv` + `From<…PrivilegeEnum> for Privilege` -/
def privOfEnum (v : Nat) : Option Nat :=
  if v = 1 then some PRIV_VIEW else if v = 2 then some PRIV_PROXYVIEW else if v = 3 then some PRIV_OPERATE
  else if v = 4 then some PRIV_MANAGE else if v = 5 then some PRIV_ADMIN else none

/-- `AccessControlEntryAuthModeEnum::from_tlv` + `From<…AuthModeEnum> for AuthMode` -/
def authOfEnum (v : Nat) : Option AuthMode :=
  if v = 1 then some .pase else if v = 2 then some .case else if v = 3 then some .group else none

/-- `is_node`: `NODE_ID_RANGE.contains(&id)` -/
def isNode (id : Nat) : Bool := decide (Consts.nodeIdMin ≤ id) && decide (id ≤ Consts.nodeIdMax)

/-- the loop over the incoming subjects (`acc` = what has been pushed so far) -/
def initSubjects (mode : AuthMode) : List Nat → List Nat → Except CfgErr (List Nat)
  | acc, [] => .ok acc
  | acc, s :: rest =>
    if mode == AuthMode.case && !isNode s && !isNocCat s then .error .constraintError
    else if mode == AuthMode.group && (s == 0 || decide (s > 65535)) then .error .constraintError
    else if acc.length < Consts.maxSubjectsPerAclEntry then initSubjects mode (acc ++ [s]) rest
    else .error .bufferTooSmall

/-- the loop over the incoming targets -/
def initTargets : List Target → List Target → Except CfgErr (List Target)
  | acc, [] => .ok acc
  | acc, t :: rest =>
    let hasEndpoint := t.endpoint.isSome
    let hasCluster := t.cluster.isSome
    let hasDeviceType := t.deviceType.isSome
    if (!hasEndpoint && !hasCluster && !hasDeviceType) || (hasEndpoint && hasDeviceType) then
      .error .constraintError
    else if acc.length < Consts.maxTargetsPerAclEntry then initTargets (acc ++ [t]) rest
    else .error .bufferTooSmall

/-- lists stay null unless at least one element arrives -/
def nullIfEmpty {α : Type} (l : List α) : Option (List α) := if l.isEmpty then none else some l

/-- `AclEntry::init_with(fab_idx, entry)` -/
def initWith (fab : Nat) (s : EntryIn) : Except CfgErr Entry :=
  match s.authMode.bind authOfEnum, s.privilege.bind privOfEnum, s.subjects, s.targets with
  | some mode, some priv, some subjects, some targets =>
    if s.auxiliaryType.isSome then .error .constraintError
    else if mode == AuthMode.pase || (mode == AuthMode.group && s.privilege == some 5) then
      .error .constraintError
    else
      match initSubjects mode [] (subjects.getD []) with
      | .error err => .error err
      | .ok ss =>
        match initTargets [] (targets.getD []) with
        | .error err => .error err
        | .ok ts =>
          .ok { privilege := priv, authMode := mode, subjects := nullIfEmpty ss, targets := nullIfEmpty ts,
                fabIdx := some fab }
  | _, _, _, _ => .error .constraintError

/-- an initializer handed to `acl_add_init` / `acl_update_init`: one that produces a given entry
(`AclEntry::init(..)` chained with pushes, a moved `AclEntry`), one that fails, or
`AclEntry::init_with(fab, s)` -/
inductive EntryInit
  | raw (e : Entry)
  | fails (err : CfgErr)
  | wire (fab : Nat) (s : EntryIn)
deriving Repr, Inhabited

def EntryInit.run : EntryInit → Except CfgErr Entry
  | .raw e => .ok e
  | .fails err => .error err
  | .wire fab s => initWith fab s

/-! ## `AclHandler::set_acl(fabric, value)` -/

inductive AclWrite
  | replace (l : List EntryIn)
  | add (e : EntryIn)
  | update (idx : Nat) (e : EntryIn)
  | remove (idx : Nat)
deriving Repr, Inhabited

/-- the validation pass of `Replace` (`count` = entries seen so far) -/
def validateReplace (fab : Nat) : Nat → List EntryIn → Except CfgErr Unit
  | _, [] => .ok ()
  | count, e :: rest =>
    if count + 1 > Consts.maxAclEntriesPerFabric then .error .resourceExhausted
    else
      match initWith fab e with
      | .error err => .error err
      | .ok _ => validateReplace fab (count + 1) rest

/-- the second pass of `Replace`; `none` = an `unwrap!` fails (`replaceFill_validated`: it cannot) -/
def replaceFill (f : Fabric) : List EntryIn → Option Fabric
  | [] => some f
  | e :: rest =>
    match f.xAclAddInit (initWith f.fabIdx e) with
    | .ok (f', _) => replaceFill f' rest
    | .error _ => none

/-- `AclHandler::set_acl(fabric, value)`; outer `none` = panic -/
def handlerSetAcl (f : Fabric) : AclWrite → Option (Except CfgErr Fabric)
  | .replace l =>
    match validateReplace f.fabIdx 0 l with
    | .error err => some (.error err)
    | .ok () => (replaceFill f.aclRemoveAll l).map .ok
  | .add e =>
    match f.xAclAddInit (initWith f.fabIdx e) with
    | .error err => some (.error err)
    | .ok (f', _) => some (.ok f')
  | .update idx e => some (f.xAclUpdateInit idx (initWith f.fabIdx e))
  | .remove idx => some (f.xAclRemove idx)

/-! ## `Groups` -/

/-- the entry found by `iter_mut().find(|e| e.group_id == group_id)`, mutated in place -/
def xGroupsUpdFirst (gs : List GroupMapping) (gid : Nat) (u : GroupMapping → GroupMapping) : List GroupMapping :=
  match gs with
  | [] => []
  | x :: rest => if x.groupId == gid then u x :: rest else x :: xGroupsUpdFirst rest gid u

def xGroupsFind (gs : List GroupMapping) (gid : Nat) : Option GroupMapping := gs.find? (fun x => x.groupId == gid)

def GroupMapping.pushEndpoint (x : GroupMapping) (ep : Nat) : GroupMapping :=
  { x with endpoints := x.endpoints ++ [ep] }

/-- `Groups::add(endpoint_id, group_id, name)` (the name is not modelled). The table is returned
also on failure: a group that did not exist has then been pushed without endpoints. -/
def xGroupsAdd (gs : List GroupMapping) (ep gid : Nat) : List GroupMapping × Except CfgErr Bool :=
  match xGroupsFind gs gid with
  | some x =>
    if x.endpoints.contains ep then (gs, .ok true)
    else if x.endpoints.length < Consts.groupEndpointsPerFabric then
      (xGroupsUpdFirst gs gid (·.pushEndpoint ep), .ok false)
    else (gs, .error .resourceExhausted)
  | none =>
    if gs.length < Consts.maxGroupsPerFabric then
      let fresh : GroupMapping := { groupId := gid, endpoints := [], hasAuxAcl := none, managed := false }
      if 0 < Consts.groupEndpointsPerFabric then (gs ++ [fresh.pushEndpoint ep], .ok false)
      else (gs ++ [fresh], .error .resourceExhausted)
    else (gs, .error .resourceExhausted)

/-- `group_id.is_some_and(|id| id != entry.group_id)`: the entry is skipped -/
def removeSkips (gid : Option Nat) (x : GroupMapping) : Bool :=
  match gid with
  | some id => id != x.groupId
  | none => false

/-- `Groups::remove(endpoint_id, group_id)`; second component: an endpoint was removed -/
def xGroupsRemove (gs : List GroupMapping) (ep : Nat) (gid : Option Nat) : List GroupMapping × Bool :=
  let gs1 := gs.map (fun x =>
    if removeSkips gid x then x
    else { x with endpoints := x.endpoints.filter (fun e => e != ep) })
  let removed := gs.any (fun x =>
    !removeSkips gid x && decide ((x.endpoints.filter (fun e => e != ep)).length < x.endpoints.length))
  (gs1.filter (fun x => !x.endpoints.isEmpty || x.managed), removed)

/-- the loop over `endpoints` in `groupcast_join`; `true` = a push failed (the loop stops there) -/
def xJoinEndpoints : List Nat → List Nat → List Nat × Bool
  | cur, [] => (cur, false)
  | cur, e :: rest =>
    if cur.contains e then xJoinEndpoints cur rest
    else if cur.length < Consts.groupEndpointsPerFabric then xJoinEndpoints (cur ++ [e]) rest
    else (cur, true)

/-- what `groupcast_join` does to the entry once it has it -/
def joinEntry (x : GroupMapping) (eps : List Nat) (replace : Bool) : GroupMapping × Bool :=
  let cur := if replace then [] else x.endpoints
  let r := xJoinEndpoints cur eps
  ({ x with endpoints := r.1, managed := true }, r.2)

/-- `Groups::groupcast_join(group_id, endpoints, replace, mcast_policy)` (of the policy only
"is some" is kept: after the two `if`s it always is). The table is returned also on failure:
the entry has then been created / upgraded / cleared / partly filled. -/
def xGroupsJoin (gs : List GroupMapping) (gid : Nat) (eps : List Nat) (replace : Bool) : List GroupMapping × Except CfgErr Unit :=
  let pushed : Option (List GroupMapping) :=
    match xGroupsFind gs gid with
    | some _ => some gs
    | none =>
      if gs.length < Consts.maxGroupsPerFabric then
        some (gs ++ [{ groupId := gid, endpoints := [], hasAuxAcl := some false, managed := true }])
      else none
  match pushed with
  | none => (gs, .error .resourceExhausted)
  | some gs1 =>
    let overflow := match xGroupsFind gs1 gid with
      | some x => (joinEntry x eps replace).2
      | none => false
    (xGroupsUpdFirst gs1 gid (fun x => (joinEntry x eps replace).1),
      if overflow then .error .resourceExhausted else .ok ())

/-- `Groups::groupcast_remove(group_id)` -/
def xGroupsCastRemove (gs : List GroupMapping) (gid : Nat) : List GroupMapping × Bool :=
  let gs1 := gs.filter (fun x => x.groupId != gid)
  (gs1, gs.length != gs1.length)

/-- `Groups::set_has_aux_acl(group_id, v)`: `false` also when there is no such group -/
def xGroupsSetHasAux (gs : List GroupMapping) (gid : Nat) (v : Bool) : List GroupMapping × Bool :=
  match xGroupsFind gs gid with
  | none => (gs, false)
  | some x =>
    (xGroupsUpdFirst gs gid (fun y => { y with hasAuxAcl := some v }), x.hasAux != v)

/-! ## persistence of a fabric -/

/-- `From<Privilege> for AccessControlEntryPrivilegeEnum` (what `Privilege::to_tlv` writes);
`none` = `unreachable!()` -/
def privToEnum (b : Nat) : Option Nat :=
  if contains b Consts.privA then some 5
  else if contains b Consts.privM then some 4
  else if contains b Consts.privO then some 3
  else if contains b Consts.privV then some 1
  else if contains b Consts.privP then some 2
  else none

/-- an entry written to and read back from its TLV form: the privilege goes through the
enumeration, everything else is kept. `none` = the writer panics. -/
def Entry.persisted (e : Entry) : Option Entry :=
  match (privToEnum e.privilege).bind privOfEnum with
  | some p => some { e with privilege := p }
  | none => none

/-- a fabric written to and read back from its TLV form (`Fabric: ToTLV, FromTLV`) -/
def Fabric.persisted (f : Fabric) : Option Fabric :=
  if f.acl.all (fun e => e.persisted.isSome) then some { f with acl := f.acl.filterMap Entry.persisted }
  else none

/-- the key-value store restricted to the fabric keys: key (`FABRIC_KEYS_START + idx`) ↦ fabric -/
abbrev FabStore := List (Nat × Fabric)

def FabStore.get (s : FabStore) (k : Nat) : Option Fabric := (s.find? (fun kv => kv.1 == k)).map (·.2)
def FabStore.erase (s : FabStore) (k : Nat) : FabStore := s.filter (fun kv => kv.1 != k)
def FabStore.put (s : FabStore) (k : Nat) (f : Fabric) : FabStore := s.erase k ++ [(k, f)]

/-! ## `Fabrics` -/

def xGet (s : List Fabric) (i : Nat) : Option Fabric := s.find? (fun f => f.fabIdx == i)

/-- the fabric found by `fabric_mut(i)` replaced by its mutated value -/
def xSet (s : List Fabric) (i : Nat) (f' : Fabric) : List Fabric :=
  match s with
  | [] => []
  | f :: rest => if f.fabIdx == i then f' :: rest else f :: xSet rest i f'

/-- the ACL a fabric starts with: empty (`add_with_post_init(|_| Ok(()))`) or the single entry
`Fabric::update(.., Some(case_admin_subject))` creates: Administer, CASE, that subject, stamped -/
def initialAcl (idx : Nat) (admin : Option Nat) : List Entry :=
  match admin with
  | none => []
  | some s => [{ privilege := PRIV_ADMIN, authMode := .case, subjects := some [s], targets := none, fabIdx := some idx }]

/-- the whole configuration: the fabric table and the fabric records of the key-value store -/
structure Cfg where
  fabrics : List Fabric := []
  store : FabStore := []
deriving Repr, Inhabited

/-- what an operation answers -/
inductive Res
  | ok
  | idx (n : Nat)
  | flag (b : Bool)
  | err (e : CfgErr)
  | panic
deriving Repr, Inhabited

/-- `Fabrics::add_with_post_init` (`admin = some s`: `Fabrics::add(.., case_admin_subject = s)`) -/
def Cfg.fabAdd (c : Cfg) (admin : Option Nat) : Cfg × Res :=
  match nextFabIdx c.fabrics with
  | none => (c, .err .resourceExhausted)
  | some i =>
    if c.fabrics.length < Consts.maxFabrics then
      ({ c with fabrics := c.fabrics ++ [{ fabIdx := i, acl := initialAcl i admin, groups := [] }] }, .idx i)
    else (c, .err .resourceExhausted)

/-- `Fabrics::remove(fab_idx)` -/
def Cfg.fabRemove (c : Cfg) (i : Nat) : Cfg × Res :=
  match xGet c.fabrics i with
  | none => (c, .err .notFound)
  | some _ => ({ c with fabrics := c.fabrics.filter (fun f => f.fabIdx != i) }, .ok)

/-- `fabrics.fabric_mut(i)?` followed by a mutator of the fabric that leaves it unchanged on error -/
def Cfg.onFabric (c : Cfg) (i : Nat) (op : Fabric → Except CfgErr (Fabric × Res)) : Cfg × Res :=
  match xGet c.fabrics i with
  | none => (c, .err .notFound)
  | some f =>
    match op f with
    | .error e => (c, .err e)
    | .ok (f', r) => ({ c with fabrics := xSet c.fabrics i f' }, r)

/-- `fabrics.fabric_mut(i)?.groups_mut()` followed by a mutator of the group table (which may have
changed the table also when it fails) -/
def Cfg.onGroups (c : Cfg) (i : Nat) (op : List GroupMapping → List GroupMapping × Res) : Cfg × Res :=
  match xGet c.fabrics i with
  | none => (c, .err .notFound)
  | some f =>
    let r := op f.groups
    ({ c with fabrics := xSet c.fabrics i { f with groups := r.1 } }, r.2)

/-- `FabricPersist::store(fabrics.get(i)?)` -/
def Cfg.persistStore (c : Cfg) (i : Nat) : Cfg × Res :=
  match xGet c.fabrics i with
  | none => (c, .err .notFound)
  | some f =>
    match f.persisted with
    | none => (c, .panic)
    | some f' => ({ c with store := c.store.put f.fabIdx f' }, .ok)

/-- `FabricPersist::remove(i)` -/
def Cfg.persistRemove (c : Cfg) (i : Nat) : Cfg × Res := ({ c with store := c.store.erase i }, .ok)

/-- `Fabrics::add_load(k, store)`: a stored record is pushed (bounded), an absent one is skipped -/
def addLoad (fabrics : List Fabric) (store : FabStore) (k : Nat) : Except CfgErr (List Fabric) :=
  match store.get k with
  | none => .ok fabrics
  | some f =>
    if fabrics.length < Consts.maxFabrics then .ok (fabrics ++ [f]) else .error .resourceExhausted

/-- the loop `for fab_idx in 1..=255 { self.add_load(fab_idx, ..)?; }`; on failure the records
loaded so far stay -/
def loadLoop (store : FabStore) : List Nat → List Fabric → List Fabric × Res
  | [], acc => (acc, .ok)
  | k :: rest, acc =>
    match addLoad acc store k with
    | .error e => (acc, .err e)
    | .ok acc' => loadLoop store rest acc'

/-- `Fabrics::load_persist(store)`: `reset()`, then every key 1..=255 -/
def Cfg.loadPersist (c : Cfg) : Cfg × Res :=
  let r := loadLoop c.store (List.range' 1 255) []
  ({ c with fabrics := r.1 }, r.2)

/-- `if fabrics.get(i).is_some() { fabrics.remove(i)? }` -/
def dropFabric (fabrics : List Fabric) (i : Nat) : List Fabric :=
  match xGet fabrics i with
  | some _ => fabrics.filter (fun f => f.fabIdx != i)
  | none => fabrics

/-- the fabric part of the fail-safe roll-back (`failsafe.rs`): `if fabrics.get(i).is_some()
{ fabrics.remove(i)? }; fabrics.add_load(i, kv)?` -/
def Cfg.reload (c : Cfg) (i : Nat) : Cfg × Res :=
  let fabrics1 := dropFabric c.fabrics i
  match addLoad fabrics1 c.store i with
  | .error e => ({ c with fabrics := fabrics1 }, .err e)
  | .ok fs => ({ c with fabrics := fs }, .ok)

/-- `Fabrics::reset_persist(store)`: the table is cleared and every fabric key removed -/
def Cfg.resetPersist (_c : Cfg) : Cfg × Res := ({ fabrics := [], store := [] }, .ok)

/-! ## the operations, as data -/

inductive CfgOp
  /-- `Fabrics::add_with_post_init(|_| Ok(()))` / `Fabrics::add(.., case_admin_subject)` -/
  | fabAdd (admin : Option Nat)
  | fabRemove (i : Nat)
  | aclAdd (i : Nat) (e : Entry)
  | aclAddInit (i : Nat) (init : EntryInit)
  | aclUpdate (i idx : Nat) (e : Entry)
  | aclUpdateInit (i idx : Nat) (init : EntryInit)
  | aclRemove (i idx : Nat)
  | aclRemoveAll (i : Nat)
  /-- `AclHandler::set_acl(fabrics.fabric_mut(i)?, w)` -/
  | handlerWrite (i : Nat) (w : AclWrite)
  | grpAdd (i ep gid : Nat)
  | grpRemove (i ep : Nat) (gid : Option Nat)
  | grpJoin (i gid : Nat) (eps : List Nat) (replace : Bool)
  | grpCastRemove (i gid : Nat)
  | grpSetAux (i gid : Nat) (v : Bool)
  | persistStore (i : Nat)
  | persistRemove (i : Nat)
  | loadPersist
  | reload (i : Nat)
  | resetPersist
deriving Repr, Inhabited

def resOfExcept {α : Type} (f : α → Res) : Except CfgErr α → Res
  | .ok a => f a
  | .error e => .err e

def CfgOp.apply (c : Cfg) : CfgOp → Cfg × Res
  | .fabAdd admin => c.fabAdd admin
  | .fabRemove i => c.fabRemove i
  | .aclAdd i e => c.onFabric i (fun f => (f.xAclAdd e).map (fun r => (r.1, Res.idx r.2)))
  | .aclAddInit i init => c.onFabric i (fun f => (f.xAclAddInit init.run).map (fun r => (r.1, Res.idx r.2)))
  | .aclUpdate i idx e => c.onFabric i (fun f => (f.xAclUpdate idx e).map (fun f' => (f', Res.ok)))
  | .aclUpdateInit i idx init => c.onFabric i (fun f => (f.xAclUpdateInit idx init.run).map (fun f' => (f', Res.ok)))
  | .aclRemove i idx => c.onFabric i (fun f => (f.xAclRemove idx).map (fun f' => (f', Res.ok)))
  | .aclRemoveAll i => c.onFabric i (fun f => .ok (f.aclRemoveAll, Res.ok))
  | .handlerWrite i w =>
    match xGet c.fabrics i with
    | none => (c, .err .notFound)
    | some f =>
      match handlerSetAcl f w with
      | none => (c, .panic)
      | some (.error e) => (c, .err e)
      | some (.ok f') => ({ c with fabrics := xSet c.fabrics i f' }, .ok)
  | .grpAdd i ep gid => c.onGroups i (fun gs => let r := xGroupsAdd gs ep gid; (r.1, resOfExcept Res.flag r.2))
  | .grpRemove i ep gid => c.onGroups i (fun gs => let r := xGroupsRemove gs ep gid; (r.1, Res.flag r.2))
  | .grpJoin i gid eps replace =>
    c.onGroups i (fun gs => let r := xGroupsJoin gs gid eps replace; (r.1, resOfExcept (fun _ => Res.ok) r.2))
  | .grpCastRemove i gid => c.onGroups i (fun gs => let r := xGroupsCastRemove gs gid; (r.1, Res.flag r.2))
  | .grpSetAux i gid v => c.onGroups i (fun gs => let r := xGroupsSetHasAux gs gid v; (r.1, Res.flag r.2))
  | .persistStore i => c.persistStore i
  | .persistRemove i => c.persistRemove i
  | .loadPersist => c.loadPersist
  | .reload i => c.reload i
  | .resetPersist => c.resetPersist

/-- the configuration a history of operations leads to, from the empty table and the empty store -/
def runOps (ops : List CfgOp) : Cfg := ops.foldl (fun c o => (o.apply c).1) {}

/-! ## `Accessor::for_session` -/

/-- `SessionMode` (`fab_idx: NonZeroU8` of Case / Group: the value; `cat_ids`: the array) -/
inductive SessMode
  | case (fabIdx : Nat) (catIds : List Nat)
  | pase (fabIdx : Nat)
  | group (fabIdx groupId : Nat)
  | plainText
deriving Repr, Inhabited

/-- `SessionMode::fab_idx()` -/
def SessMode.fabIdx : SessMode → Nat
  | .case f _ => f
  | .pase f => f
  | .group f _ => f
  | .plainText => 0

/-- the loop `for i in *cat_ids { if i != 0 { let _ = subject.add_catid(i); } }` -/
def addCats (subjects : List Nat) (catIds : List Nat) : List Nat :=
  catIds.foldl (fun s c => if c != 0 then addCatid s c else s) subjects

/-- `Accessor::for_session(session, matter, aux_acl_enabled)`; `peer` = `session.get_peer_node_id()` -/
def accessorForSession (mode : SessMode) (peer : Option Nat) (aux : Bool) : Accessor :=
  match mode with
  | .case fabIdx catIds =>
    { fabIdx := fabIdx, auxAclEnabled := aux, subjects := addCats (subjectsNew (peer.getD 0)) catIds,
      authMode := some .case }
  | .pase fabIdx =>
    { fabIdx := fabIdx, auxAclEnabled := aux, subjects := subjectsNew 1, authMode := some .pase }
  | .group fabIdx groupId =>
    { fabIdx := fabIdx, auxAclEnabled := aux, subjects := subjectsNew groupId, authMode := some .group }
  | .plainText =>
    { fabIdx := 0, auxAclEnabled := aux, subjects := subjectsNew 1, authMode := none }

/-! ## specification additions (from the property text, not from the code) -/

/-- "group accessors reach only endpoints that are members of their group", with the accessor's
group id taken as it is (no narrowing): the statement of the property. `Acl.Reaches` has the code's
`as u16` in it; `Props/C05` proves the two equal for every accessor whose group id is a group id
(`< 65536`), which is what `for_session` produces. -/
def ReachesId (fabrics : List Fabric) (a : Accessor) (ep : Nat) : Prop :=
  a.authMode ≠ some AuthMode.group ∨
  ∃ f ∈ fabrics, f.fabIdx = a.fabIdx ∧ a.fabIdx ≠ 0 ∧
    ∃ g ∈ f.groups, g.groupId = a.subjects.headD 0 ∧ ep ∈ g.endpoints

/-- `ReachesId` as a `Bool` (what the driver evaluates; `Props/C05.reachesIdB_iff`) -/
def reachesIdB (fabrics : List Fabric) (a : Accessor) (ep : Nat) : Bool :=
  decide (a.authMode ≠ some AuthMode.group) ||
  fabrics.any (fun f => decide (f.fabIdx = a.fabIdx) && decide (a.fabIdx ≠ 0) &&
    f.groups.any (fun g => decide (g.groupId = a.subjects.headD 0) && g.endpoints.contains ep))

/-- an operational node id (Matter: 1 … 0xFFFF_FFEF_FFFF_FFFF) -/
def IsOperationalNodeId (id : Nat) : Prop := 1 ≤ id ∧ id ≤ 0xFFFFFFEFFFFFFFFF

/-- "one of its subjects (node id, or a tag with the same identifier and an equal or higher
version)" read strictly: the node id (slot 0) matches by equality only, the tags (the other slots)
by equality or by the tag rule. `Acl.SubjectMatch` applies the tag rule to every slot;
`Props/C05.subjectMatch_iff_strict` shows the two agree whenever slot 0 is not tag-shaped (an
operational node id, a group id, 0). -/
def SubjectMatchStrict (a : Accessor) (s : Nat) : Prop :=
  (a.subjects.headD 0 ≠ 0 ∧ a.subjects.headD 0 = s) ∨
  ∃ v ∈ a.subjects.tail, v ≠ 0 ∧
    (v = s ∨ (IsCat v ∧ IsCat s ∧ catId v = catId s ∧ catVersion s ≤ catVersion v))

end Acl
