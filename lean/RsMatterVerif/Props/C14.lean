/-! # C14 — property theorems (not built yet) -/
