//! C09: reliable messaging, unit level.
//!
//! Case kinds (interpreter in `transport_common.rs`):
//!  `mrp`  a bare real `ReliableMessage`: sender loops (`pre_send`, the entry's own delay, virtual
//!         time, `pre_send` again … until `TxTimeout`) interleaved with received messages carrying
//!         matching / stale / no acknowledgements, plus direct probes of `RetransEntry::backoff_ms`.
//!  `tab`  the same through a real `Session` in a real table: new messages, retransmissions past the
//!         budget, acknowledgements, duplicates and counters around the receive window.
use crate::proto::{parse_cases, Out};
use crate::rng::Rng;
use crate::Args;

#[path = "transport_common.rs"]
mod tc;
use tc::{parse_snap, result_of, run_tab_with};

const RULE: &str = "mrp cases: one history on a fresh real ReliableMessage - sender loops (pre_send of a reliable message with base interval absent/0/1/9/10/100/300/5000/random, then repeatedly: read the entry's delay with jitter 0/100/255/random, advance virtual time, pre_send again, up to 2 attempts past the budget) interleaved with post_recv of messages with matching / stale / no ack, reliable or not, and probes of backoff_ms(base, attempt 0..8, jitter); tab cases: the same through a real Session (secure or plain) with duplicates, counters around the 16-wide window, retransmissions past the budget. Every op line carries the implementation's result and the reliability state / table snapshot. Non-trivial = at least two distinct output lines; the #stat lines count give-ups, matching and stale acks, duplicates; distinct = by op list";

fn gen_mrp(r: &mut Rng, len: usize) -> Vec<String> {
    let mut ops = Vec::new();
    let mut ctr: u64 = r.range(1, 1 << 28);
    let mut peer: u64 = r.range(1, 1 << 28);
    let mut pending: Option<(u64, String)> = None; // (counter, sai token)
    while ops.len() < len {
        match r.below(100) {
            0..=24 => {
                // start or continue a sender loop
                let (c, sai) = match &pending {
                    Some(p) => p.clone(),
                    None => {
                        ctr += r.range(1, 3);
                        let sai = match r.below(10) {
                            0 => "-".to_string(),
                            1 => "0".to_string(),
                            2 => r.pick(&[1u64, 9, 10, 11, 99, 100]).to_string(),
                            3 => "300".to_string(),
                            4 => "5000".to_string(),
                            5 => r.range(1, 100000).to_string(),
                            6 => "4294967295".to_string(),
                            _ => r.range(100, 2000).to_string(),
                        };
                        (ctr, sai)
                    }
                };
                if pending.is_some() {
                    ops.push(format!("dl {}", *r.pick(&[0u64, 100, 100, 255, 17])));
                    ops.push(format!("t {}", *r.pick(&[1u64, 300, 330, 363, 600, 2000, 10000])));
                }
                ops.push(format!("ps {} r - {}", c, sai));
                pending = Some((c, sai));
            }
            25..=39 => {
                // the peer acknowledges (mostly the right counter)
                peer += 1;
                let ack = match &pending {
                    Some((c, _)) if r.chance(3, 5) => *c,
                    Some((c, _)) => c.wrapping_sub(r.range(1, 3)),
                    None => r.below(1 << 28),
                };
                let good = pending.as_ref().map(|p| p.0 == ack).unwrap_or(false);
                ops.push(format!("pr {} {} {}", peer, ack, if r.chance(1, 2) { "r" } else { "u" }));
                if good {
                    pending = None;
                }
            }
            40..=49 => {
                peer += 1;
                ops.push(format!("pr {} - {}", peer, if r.chance(2, 3) { "r" } else { "u" }));
            }
            50..=57 => {
                // an unreliable send (standalone ack)
                ops.push(format!("ps {} u - -", pending.as_ref().map(|p| p.0).unwrap_or(ctr + 1)));
                if pending.is_none() {
                    ctr += 1;
                }
            }
            58..=62 => ops.push(format!("dl {}", r.below(256))),
            63..=66 => ops.push(format!("to {}", *r.pick(&[0u64, 1, 999, 1000, 1001, 5000]))),
            67..=72 => ops.push(format!("t {}", *r.pick(&[1u64, 50, 999, 1000, 1001]))),
            73..=75 => {
                // a wrong counter on a pending entry: the code panics by design
                if let Some((c, sai)) = &pending {
                    ops.push(format!("ps {} r - {}", c + 1, sai));
                }
            }
            _ => {
                let base = match r.below(6) {
                    0 => *r.pick(&[0u64, 1, 9, 10, 11, 99, 100, 299, 300, 301, 5000, 65535, 4294967295]),
                    1 => r.range(1, 100),
                    _ => r.range(100, 10000),
                };
                let rj = r.below(256);
                let cnt = r.below(9);
                ops.push(format!("bo {} {} {}", base, cnt, *r.pick(&[0u64, 1, 100, 254, 255, rj])));
            }
        }
    }
    ops
}

fn gen_tab(r: &mut Rng, out: &mut Out, len: usize) {
    run_tab_with(out, &mut |exec| {
        exec(&format!("setxid {}", r.range(1, 65535)));
        let secure = r.chance(4, 5);
        let full = exec(&format!("add {} 0 5000", r.below(1 << 32)));
        let uid: u32 = result_of(&full).strip_prefix("id ").and_then(|t| t.parse().ok()).unwrap_or(0);
        if secure {
            exec(&format!("mode {} {}", uid, if r.chance(1, 2) { "c" } else { "p" }));
        }
        let mut g = parse_snap(&exec(&format!("init {} h1", uid)));
        let mut next_h = 1;
        let mut peer_max: u64 = r.range(20, 1 << 30);
        let mut dup_next: Option<u64> = None;
        let mut seen: Vec<u64> = vec![];
        let mut orig: Vec<(usize, String)> = Vec::new();
        for _ in 0..len {
            let live: Vec<(usize, u32, String, Option<(u32, u32)>)> = g.sessions.iter().filter(|s| s.uid == uid)
                .flat_map(|s| s.slots.iter().enumerate().filter_map(|(i, sl)| sl.as_ref().map(|sl| (i, sl.id, sl.role.clone(), sl.rt)))).collect();
            let op: String = match r.below(100) {
                0..=17 => {
                    let free: Vec<_> = live.iter().filter(|l| l.3.is_none()).collect();
                    if free.is_empty() { "t 100".into() } else {
                        let l = *r.pick(&free);
                        format!("tx {} {} r - n {}", uid, l.0, *r.pick(&["-", "300", "0", "1000"]))
                    }
                }
                18..=47 => {
                    if orig.is_empty() { "t 330".into() } else { r.pick(&orig).1.clone() }
                }
                48..=62 => {
                    // the peer's next message on one of the exchanges; acknowledges what is pending (or not)
                    if live.is_empty() { "t 10".into() } else {
                        let l = r.pick(&live).clone();
                        let c = if let Some(d) = dup_next.take() { d } else { match r.below(11) {
                            10 => {
                                // a jump of exactly the window length (or one off), and then - next
                                // message - the retransmission of what was the newest before the jump
                                let before = peer_max;
                                peer_max += *r.pick(&[15u64, 16, 16, 16, 17]);
                                if seen.contains(&before) && r.chance(3, 4) { dup_next = Some(before); }
                                peer_max
                            }
                            0..=5 => { peer_max += r.range(1, 3); peer_max }
                            6 => peer_max.saturating_sub(r.range(1, 18)),
                            7 => if seen.is_empty() { peer_max } else { *r.pick(&seen) },
                            8 => { peer_max += r.range(15, 40); peer_max }
                            _ => peer_max.saturating_sub(r.range(17, 200)),
                        } };
                        seen.push(c);
                        let ack = match l.3 {
                            Some((pc, _)) if r.chance(3, 4) => pc.to_string(),
                            Some((pc, _)) => (pc as u64 + r.range(1, 2)).to_string(),
                            None => if r.chance(1, 3) { r.below(1 << 28).to_string() } else { "-".into() },
                        };
                        format!("rx {} {} {} {} {} {} {}", uid, c, l.1, if l.2.starts_with('R') { "I" } else { "R" }, ack,
                            if r.chance(2, 3) { "r" } else { "u" }, if r.chance(1, 4) { "a" } else { "n" })
                    }
                }
                63..=72 => {
                    // a new exchange opened by the peer
                    peer_max += 1;
                    seen.push(peer_max);
                    format!("rx {} {} {} I - r n", uid, peer_max, r.range(1, 65535))
                }
                73..=77 => {
                    next_h += 1;
                    format!("init {} h{}", uid, next_h)
                }
                78..=81 => format!("xdrop h{}", r.range(1, next_h as u64)),
                82..=84 => format!("tx {} - u {} a", uid, peer_max),
                _ => format!("t {}", *r.pick(&[1u64, 330, 528, 1000, 5000])),
            };
            let full = exec(&op);
            let res = result_of(&full).to_string();
            g = parse_snap(&full);
            let w: Vec<&str> = op.split_whitespace().collect();
            if w[0] == "tx" && res.contains(" rt 0 ") && w[2] != "-" {
                let slot: usize = w[2].parse().unwrap_or(0);
                orig.retain(|o| o.0 != slot);
                orig.push((slot, op.clone()));
            }
            orig.retain(|o| g.sessions.iter().any(|s| s.uid == uid && s.slots.get(o.0).and_then(|x| x.as_ref()).map(|sl| sl.rt.is_some()).unwrap_or(false)));
        }
    });
}

/// Parse an unsecured datagram: (counter, exchange flags, opcode, ack counter, first payload byte).
fn parse_wire(b: &[u8]) -> Option<(u32, u8, u8, Option<u32>, Option<u8>)> {
    if b.len() < 8 {
        return None;
    }
    let flags = b[0];
    let ctr = u32::from_le_bytes([b[4], b[5], b[6], b[7]]);
    let mut o = 8;
    if flags & 0x04 != 0 {
        o += 8;
    }
    match flags & 0x03 {
        1 => o += 8,
        2 => o += 2,
        _ => {}
    }
    if b.len() < o + 6 {
        return None;
    }
    let xf = b[o];
    let opc = b[o + 1];
    let mut p = o + 6;
    if xf & 0x10 != 0 {
        p += 2;
    }
    let ack = if xf & 0x02 != 0 && b.len() >= p + 4 {
        let a = u32::from_le_bytes([b[p], b[p + 1], b[p + 2], b[p + 3]]);
        p += 4;
        Some(a)
    } else {
        None
    };
    Some((ctr, xf, opc, ack, b.get(p).copied()))
}


/// A socket that records, in execution order, what a node's stack hands to the network and takes
/// from it (the observable system-level events the two-node model is checked against).
struct Tap<'a> {
    inner: &'a crate::simnet::SimSocket,
    net: &'a crate::simnet::SimNet,
    node: usize,
    ev: &'a std::cell::RefCell<Vec<String>>,
    /// secure flows: the sender's (encryption, decryption) keys, to read the protected header
    keys: &'a std::cell::RefCell<Option<([u8; 16], [u8; 16])>>,
    /// events are recorded (off while the PASE handshake of a secure flow runs)
    on: &'a std::cell::Cell<bool>,
}

/// the cleartext view of a datagram of a secure session (real header parsers, real AEAD)
fn open_secure(b: &[u8], key: &[u8; 16]) -> Option<(u32, u8, u8, Option<u32>, Option<u8>)> {
    use rs_matter::crypto::{test_only_crypto, CanonAeadKeyRef};
    use rs_matter::transport::packet::PacketHdr;
    use rs_matter::utils::storage::ParseBuf;
    let mut copy = b.to_vec();
    let mut pb = ParseBuf::new(copy.as_mut_slice());
    let mut hdr = PacketHdr::new();
    hdr.decode_plain_hdr(&mut pb).ok()?;
    hdr.decode_remaining(test_only_crypto(), Some(CanonAeadKeyRef::new(key)), 0, &mut pb).ok()?;
    let xf = (hdr.proto.is_reliable() as u8) << 2 | (hdr.proto.get_ack().is_some() as u8) << 1;
    Some((hdr.plain.ctr, xf, hdr.proto.proto_opcode, hdr.proto.get_ack(), pb.as_slice().first().copied()))
}

fn describe_dg(b: &[u8], keys: &Option<([u8; 16], [u8; 16])>, from: usize) -> Option<(bool, u32, u32)> {
    // (is data, counter, message number | acknowledged counter)
    let secure = b.len() > 3 && (b[1] != 0 || b[2] != 0);
    let (ctr, xf, opc, ack, id) = if secure {
        let k = keys.as_ref()?;
        open_secure(b, if from == 1 { &k.0 } else { &k.1 })?
    } else {
        parse_wire(b)?
    };
    if opc == 0x10 {
        Some((false, ctr, ack?))
    } else if xf & 0x04 != 0 && opc == 0x20 {
        Some((true, ctr, id? as u32))
    } else {
        None
    }
}

impl rs_matter::transport::network::NetworkSend for &Tap<'_> {
    async fn send_to(&mut self, data: &[u8], addr: rs_matter::transport::network::Address) -> Result<(), rs_matter::error::Error> {
        let mut s = self.inner;
        let t = crate::simnet::now_ms();
        let r = rs_matter::transport::network::NetworkSend::send_to(&mut s, data, addr).await;
        let fate = match self.net.log().last().map(|l| l.verdict) {
            Some(crate::simnet::Verdict::Drop) => "x",
            Some(crate::simnet::Verdict::Dup) => "2",
            _ => "p",
        };
        if !self.on.get() || crate::simnet::node_of(&addr) == Some(2) {
            // (traffic with the third party is not part of the exchange under observation)
            return r;
        }
        let e = match describe_dg(data, &self.keys.borrow(), self.node) {
            Some((true, ctr, idx)) if self.node == 1 => format!("TA:{}:{}:{}:{}", t, ctr, idx, fate),
            Some((false, ctr, ack)) if self.node == 0 => format!("TB:{}:{}:{}", ctr, ack, fate),
            _ => format!("X:{}", self.node),
        };
        self.ev.borrow_mut().push(e);
        r
    }
}

impl rs_matter::transport::network::NetworkReceive for &Tap<'_> {
    async fn wait_available(&mut self) -> Result<(), rs_matter::error::Error> {
        let mut s = self.inner;
        rs_matter::transport::network::NetworkReceive::wait_available(&mut s).await
    }

    async fn recv_from(&mut self, buffer: &mut [u8]) -> Result<(usize, rs_matter::transport::network::Address), rs_matter::error::Error> {
        let mut s = self.inner;
        let (n, a) = rs_matter::transport::network::NetworkReceive::recv_from(&mut s, buffer).await?;
        if !self.on.get() || crate::simnet::node_of(&a) == Some(2) {
            return Ok((n, a));
        }
        let e = match describe_dg(&buffer[..n], &self.keys.borrow(), 1 - self.node) {
            Some((true, ctr, idx)) if self.node == 0 => format!("RB:{}:{}", ctr, idx),
            Some((false, ctr, ack)) if self.node == 1 => format!("RA:{}:{}", ctr, ack),
            _ => format!("X:{}", self.node),
        };
        self.ev.borrow_mut().push(e);
        Ok((n, a))
    }
}

/// the adversary leaves the third party's datagrams alone
struct Aside(Box<dyn crate::simnet::Policy>);
impl crate::simnet::Policy for Aside {
    fn decide(&mut self, from: usize, to: usize, bytes: &[u8], seq: u64) -> crate::simnet::Verdict {
        if from == 2 || to == 2 {
            crate::simnet::Verdict::Deliver
        } else {
            self.0.decide(from, to, bytes, seq)
        }
    }
}

/// holds one copy of the sender's FIRST data datagram back for `ms` (the original passes at once):
/// with 18+ messages on the session the copy arrives more than 16 counters behind the receiver's window
struct LateFirst {
    ms: u64,
    done: bool,
    inner: Box<dyn crate::simnet::Policy>,
}
impl crate::simnet::Policy for LateFirst {
    fn decide(&mut self, from: usize, to: usize, bytes: &[u8], seq: u64) -> crate::simnet::Verdict {
        if !self.done && from == 1 && to == 0 {
            self.done = true;
            return crate::simnet::Verdict::Delay(self.ms);
        }
        self.inner.decide(from, to, bytes, seq)
    }
}

/// `sys` cases: two real nodes on the simulated adversarial network. One op:
///  `flow <seed> <drop pm> <dup pm> <delay pm> <max delay ms> <messages> [<secure 0|1>] [rm=<ms>.<ms>…] [late=<ms>]`
/// `late=`: the first transmission of message 0 is delayed by `<ms>` (its retransmission gets through, up to 30
/// messages follow): the delayed copy reaches the receiver behind its window - the unsecured restart rule.
/// `rm=`: a third real node (node 2) has sessions of its own with the SENDER: at each of the given
/// times (ms after the flow's start) it opens an unsecured session + exchange to node 1 and closes that
/// session again with a `CloseSession` status report on the same exchange - node 1 removes a session
/// that has nothing to do with the exchange under observation while its reliable send may be waiting
/// for an acknowledgement.
/// Node 1 opens an unsecured exchange to node 0 and sends `<messages>` reliable messages one after the
/// other (payload byte = message number); node 0's application accepts the exchange, logs what it
/// receives and acknowledges. Result: `base=<ms> res=<per message ok|ErrCode|hang> app=<received numbers in order>
/// wire=<t>:<from>:<verdict>:<ctr>:<flags>:<ack|->:<number|->,...`
fn run_sys(out: &mut Out, ops: &[String]) {
    use crate::simnet::{addr_of, now_ms, run_sim, RandomPolicy, SimEnd, SimNet, Verdict};
    use embassy_futures::select::select;
    use rs_matter::crypto::test_only_crypto;
    use rs_matter::dm::devices::test::{TEST_DEV_ATT, TEST_DEV_COMM, TEST_DEV_DET};
    use rs_matter::error::Error;
    use rs_matter::sc::{OpCode, PROTO_ID_SECURE_CHANNEL};
    use rs_matter::transport::exchange::{Exchange, MessageMeta};
    use rs_matter::transport::network::NoNetwork;
    use rs_matter::Matter;
    use std::cell::RefCell;

    for op in ops {
        let w: Vec<u64> = op.split_whitespace().skip(1).filter_map(|t| t.parse().ok()).collect();
        if !op.starts_with("flow") || w.len() < 6 {
            out.op(op, "bad");
            continue;
        }
        embassy_time::MockDriver::get().reset();
        // `flow … <messages> 1`: on a PASE session established first over a perfect network
        let secure = w.get(6).copied().unwrap_or(0) != 0;
        let removals: Vec<u64> = op
            .split_whitespace()
            .find_map(|t| t.strip_prefix("rm="))
            .map(|l| l.split('.').filter_map(|t| t.parse().ok()).take(12).collect())
            .unwrap_or_default();
        let late: Option<u64> = op.split_whitespace().find_map(|t| t.strip_prefix("late=")).and_then(|t| t.parse().ok());
        let adversary = || -> Box<dyn crate::simnet::Policy> {
            let rnd: Box<dyn crate::simnet::Policy> = Box::new(RandomPolicy { rng: Rng::new(w[0]), drop_pm: w[1].min(1000), dup_pm: w[2].min(1000), delay_pm: w[3].min(1000), max_delay_ms: w[4].min(3000) });
            match late {
                Some(ms) => Box::new(Aside(Box::new(LateFirst { ms: ms.min(20_000), done: false, inner: rnd }))),
                None => Box::new(Aside(rnd)),
            }
        };
        let net = if secure { SimNet::new(3, Box::new(crate::simnet::Perfect)) } else { SimNet::new(3, adversary()) };
        let keys: RefCell<Option<([u8; 16], [u8; 16])>> = RefCell::new(None);
        let on = std::cell::Cell::new(!secure);
        let device = Box::new(Matter::new(&TEST_DEV_DET, TEST_DEV_COMM, &TEST_DEV_ATT, 0));
        let controller = Box::new(Matter::new(&TEST_DEV_DET, TEST_DEV_COMM, &TEST_DEV_ATT, 0));
        let other = Box::new(Matter::new(&TEST_DEV_DET, TEST_DEV_COMM, &TEST_DEV_ATT, 0));
        let crypto = test_only_crypto();
        let ds0 = net.socket(0);
        let cs0 = net.socket(1);
        let os0 = net.socket(2);
        let flow_start = std::cell::Cell::new(0u64);
        let third_removed = std::cell::Cell::new(0u32);
        let events: RefCell<Vec<String>> = RefCell::new(Vec::new());
        let ds = Tap { inner: &ds0, net: &net, node: 0, ev: &events, keys: &keys, on: &on };
        let cs = Tap { inner: &cs0, net: &net, node: 1, ev: &events, keys: &keys, on: &on };
        let pre: RefCell<Option<Exchange>> = RefCell::new(None);
        let n_msgs = w[5].clamp(1, if late.is_some() { 30 } else { 6 }) as u8;
        let results: RefCell<Vec<String>> = RefCell::new(Vec::new());
        let app: RefCell<Vec<u8>> = RefCell::new(Vec::new());
        let sender = async {
            let taken = pre.borrow_mut().take();
            let mut ex = match taken {
                Some(ex) => ex,
                None => Exchange::initiate_plaintext(&controller, &crypto, addr_of(0)).await?,
            };
            for i in 0..n_msgs {
                let r = ex
                    .send_with(|_, wb| {
                        wb.append(&[i, 0xaa, 0xbb, 0xcc])?;
                        Ok(Some(MessageMeta::new(PROTO_ID_SECURE_CHANNEL, OpCode::PBKDFParamRequest as u8, true)))
                    })
                    .await;
                match r {
                    Ok(()) => {
                        events.borrow_mut().push(format!("E:{}:ok", i));
                        results.borrow_mut().push("ok".into())
                    }
                    Err(e) => {
                        events.borrow_mut().push(format!("E:{}:{:?}", i, e.code()));
                        results.borrow_mut().push(format!("{:?}", e.code()));
                        break;
                    }
                }
            }
            Ok::<(), Error>(())
        };
        let receiver = async {
            loop {
                let mut ex = Exchange::accept(&device).await?;
                loop {
                    let id = match ex.recv().await {
                        Ok(rx) => rx.payload().first().copied().unwrap_or(0xff),
                        Err(_) => break,
                    };
                    app.borrow_mut().push(id);
                    events.borrow_mut().push(format!("AP:{}", id));
                    if ex.acknowledge().await.is_err() {
                        break;
                    }
                }
            }
            #[allow(unreachable_code)]
            Ok::<(), Error>(())
        };
        // the sender's node also serves the third party's exchanges (and nothing else)
        let sink = async {
            loop {
                if let Ok(mut ex) = Exchange::accept(&controller).await {
                    // take the message and keep the exchange for a while without waiting on it: the
                    // `session_removed` notification wakes one waiter only, and it is the reliable
                    // send under observation that shall see it, not this exchange
                    let _ = ex.recv().await;
                    embassy_time::Timer::after(embassy_time::Duration::from_millis(40)).await;
                }
            }
        };
        let third_party = async {
            for t in removals.iter() {
                embassy_time::Timer::at(embassy_time::Instant::from_millis(flow_start.get() + *t)).await;
                let Ok(mut ex) = Exchange::initiate_plaintext(&other, &crypto, addr_of(1)).await else { continue };
                let _ = ex
                    .send_with(|_, wb| {
                        wb.append(&[0xc0])?;
                        Ok(Some(MessageMeta::new(PROTO_ID_SECURE_CHANNEL, OpCode::PBKDFParamRequest as u8, false)))
                    })
                    .await;
                let _ = ex.send_with(|_, wb| rs_matter::sc::sc_write(wb, rs_matter::sc::SCStatusCodes::CloseSession, &[])).await;
                third_removed.set(third_removed.get() + 1);
            }
            core::future::pending::<()>().await
        };
        let dev_run = device.run(&crypto, &ds, &ds, NoNetwork);
        let ctl_run = controller.run(&crypto, &cs, &cs, NoNetwork);
        let other_run = other.run(&crypto, &os0, &os0, NoNetwork);
        let mut transports = core::pin::pin!(select(select(dev_run, ctl_run), other_run));
        let mut hs_failed = false;
        if secure {
            use rs_matter::respond::Responder;
            use rs_matter::sc::SecureChannel;
            use rs_matter::transport::session::SessionMode;
            let _ = device.open_basic_comm_window(300, &crypto, &());
            let sc = SecureChannel::new(&crypto, &());
            let responder = Responder::new("device", sc, &device, 0);
            let hs = async {
                let ex = Exchange::initiate_pase(&controller, &crypto, addr_of(0), 20202021).await?;
                // the responder still waits for the acknowledgement of its status report
                embassy_time::Timer::after(embassy_time::Duration::from_millis(1000)).await;
                Ok::<_, Error>(ex)
            };
            let all = select(transports.as_mut(), select(responder.run::<2>(), hs));
            match run_sim(&net, all, 60_000) {
                SimEnd::Done(embassy_futures::select::Either::Second(embassy_futures::select::Either::Second(Ok(ex)))) => {
                    *pre.borrow_mut() = Some(ex);
                }
                _ => hs_failed = true,
            }
            let k = controller.with_state(|st| {
                st.verif_sessions().iter().find(|s| matches!(s.get_session_mode(), SessionMode::Pase { .. })).map(|s| {
                    let (_, _, dec, enc) = s.verif_view();
                    (enc, dec)
                })
            });
            if k.is_none() {
                hs_failed = true;
            }
            *keys.borrow_mut() = k;
            net.set_policy(adversary());
            on.set(true);
        }
        if hs_failed {
            out.op(op, "handshake-failed");
            continue;
        }
        flow_start.set(now_ms());
        let mut nodes = core::pin::pin!(select(transports.as_mut(), select(receiver, select(sink, third_party))));
        let mut sender = core::pin::pin!(sender);
        let finished = {
            let both = select(nodes.as_mut(), sender.as_mut());
            matches!(run_sim(&net, both, 120_000), SimEnd::Done(embassy_futures::select::Either::Second(_)))
        };
        if !finished {
            events.borrow_mut().push(format!("E:{}:hang", results.borrow().len()));
            results.borrow_mut().push("hang".into());
        }
        // let delayed copies arrive and be acknowledged
        let _ = run_sim(&net, nodes.as_mut(), 4_000 + late.unwrap_or(0));
        let _ = now_ms();
        let mut wire = Vec::new();
        for l in net.log() {
            let v = match l.verdict {
                Verdict::Deliver => "d".to_string(),
                Verdict::Drop => "x".to_string(),
                Verdict::Dup => "2".to_string(),
                Verdict::Delay(ms) => format!("l{}", ms),
            };
            match parse_wire(&l.bytes) {
                Some((ctr, xf, _opc, ack, id)) => wire.push(format!(
                    "{}:{}:{}:{}:{}:{}:{}",
                    l.t_ms,
                    l.from,
                    v,
                    ctr,
                    xf,
                    ack.map(|a| a.to_string()).unwrap_or("-".into()),
                    if xf & 0x04 != 0 { id.map(|i| i.to_string()).unwrap_or("-".into()) } else { "-".into() }
                )),
                None => wire.push(format!("{}:{}:{}:?:0:-:-", l.t_ms, l.from, v)),
            }
        }
        let res = format!(
            "base={} enc={} rmd={} res={} app={} trace={} wire={}",
            TEST_DEV_DET.sai.unwrap_or(300),
            secure as u8,
            third_removed.get(),
            results.borrow().join(","),
            app.borrow().iter().map(|i| i.to_string()).collect::<Vec<_>>().join(","),
            events.borrow().join(","),
            wire.join(",")
        );
        for r in results.borrow().iter() {
            out.stat(&format!("sys_res_{}", r), 1);
        }
        out.stat("sys_datagrams", net.log_len() as u64);
        if late.is_some() {
            let a = app.borrow();
            let again = a.iter().enumerate().any(|(k, x)| a[..k].contains(x));
            out.stat(if secure { "sys_late_copy_secure" } else { "sys_late_copy_unsecured" }, 1);
            out.stat(if again { "sys_late_copy_shown_again" } else { "sys_late_copy_rejected" }, 1);
        }
        out.op(op, &res);
    }
}

pub fn gen(a: &Args) -> String {
    let mut r = Rng::new(a.seed);
    let mut out = Out::default();
    out.buf.push_str(&format!("#rule {}\n", RULE));
    let n_cases = if a.thorough { 100000 } else { 12000 };
    for id in 0..n_cases {
        let mut cr = r.fork();
        let len = if a.thorough { cr.range(5, 120) } else { cr.range(5, 50) } as usize;
        if cr.chance(3, 5) {
            let ops = gen_mrp(&mut cr, len);
            tc::run_case(&mut out, &crate::proto::Case { id, kind: "mrp".into(), ops });
        } else {
            out.case(id, "tab");
            gen_tab(&mut cr, &mut out, len);
        }
    }
    // system level: two real nodes, adversarial network, virtual time
    let n_sys = if a.thorough { 6000 } else { 600 };
    for id in 0..n_sys {
        let mut cr = r.fork();
        let (drop, dup, delay) = match cr.below(6) {
            0 => (0, 0, 0),
            1 => (1000, 0, 0), // nothing gets through: the give-up
            2 => (cr.range(100, 600), 0, 0),
            3 => (0, cr.range(100, 500), cr.range(0, 300)),
            _ => (cr.range(0, 500), cr.range(0, 300), cr.range(0, 300)),
        };
        // every third flow: a third node's sessions with the sender are removed while the send is under way
        // (single removals at arbitrary instants, or bursts of six within one back-off interval)
        let (drop, rm) = if id % 3 == 2 {
            let t0 = cr.range(5, 2500);
            let times: Vec<String> = if cr.chance(1, 2) {
                (0..cr.range(1, 4)).map(|_| cr.range(5, 4000).to_string()).collect()
            } else {
                let gap = cr.range(5, 45);
                (0..cr.range(6, 8)).map(|k| (t0 + k * gap).to_string()).collect()
            };
            out.stat("sys_flows_with_third_party", 1);
            (if cr.chance(2, 3) { cr.range(400, 1000) } else { drop }, format!(" rm={}", times.join(".")))
        } else {
            (drop, String::new())
        };
        // every tenth flow: 14-24 messages on one session (around the 16-wide window) while one copy of the first
        // is held back: beyond 17 newer counters an unsecured receiver takes it for a restarted peer
        let ops = if id % 10 == 7 {
            let (drop, dup, delay) = if cr.chance(1, 2) { (0, 0, 0) } else { (cr.range(0, 150), cr.range(0, 200), cr.range(0, 200)) };
            vec![format!("flow {} {} {} {} {} {} {} late={}", cr.below(1 << 32), drop, dup, delay, *cr.pick(&[50u64, 400]), cr.range(14, 30), (id % 20 == 17) as u8, cr.range(1_500, 9_000))]
        } else {
            vec![format!("flow {} {} {} {} {} {} {}{}", cr.below(1 << 32), drop, dup, delay, *cr.pick(&[50u64, 400, 800, 2500]), cr.range(1, 4), (id % 2 == 1) as u8, rm)]
        };
        out.case(n_cases + id, "sys");
        run_sys(&mut out, &ops);
    }
    out.finish()
}

pub fn replay(a: &Args) -> String {
    let text = std::fs::read_to_string(a.input.as_ref().expect("--in")).expect("read input");
    let mut out = Out::default();
    for c in parse_cases(&text) {
        if c.kind.starts_with("sys") {
            out.case(c.id, &c.kind);
            run_sys(&mut out, &c.ops);
        } else {
            tc::run_case(&mut out, &c);
        }
    }
    out.finish()
}
