import RsMatterVerif.Model.Tlv
/-! # Lemmas about the TLV model: monad plumbing, slice arithmetic, never-panic and progress lemmas -/
namespace Tlv

variable {α β : Type}

@[simp] theorem Res.ok_bind (a : α) (f : α → Res β) : (Res.ok a >>= f) = f a := rfl
@[simp] theorem Res.err_bind (e : Err) (f : α → Res β) : ((Res.err e : Res α) >>= f) = .err e := rfl
@[simp] theorem Res.panic_bind (p : PanicKind) (f : α → Res β) : ((Res.panic p : Res α) >>= f) = .panic p := rfl
@[simp] theorem Res.pure_eq (a : α) : (pure a : Res α) = .ok a := rfl

theorem Res.bind_eq_ok {r : Res α} {f : α → Res β} {b : β} :
    (r >>= f) = .ok b ↔ ∃ a, r = .ok a ∧ f a = .ok b := by
  cases r <;> simp

/-- never a panic (of any kind, including exhausted fuel) -/
def NP (r : Res α) : Prop := ∀ p, r ≠ .panic p

theorem NP.ok (a : α) : NP (Res.ok a) := by intro p h; cases h
theorem NP.err (e : Err) : NP (Res.err e : Res α) := by intro p h; cases h
theorem NP.bind {r : Res α} {f : α → Res β} (h1 : NP r) (h2 : ∀ a, r = .ok a → NP (f a)) : NP (r >>= f) := by
  cases r with
  | ok a => simpa using h2 a rfl
  | err e => simpa using NP.err e
  | panic p => exact absurd rfl (h1 p)

theorem okOr_np (o : Option α) (e : Err) : NP (okOr o e) := by
  cases o <;> simp [okOr, NP.ok, NP.err]

theorem getFrom_some {bs r : Bytes} {n : Nat} (h : getFrom bs n = some r) : n ≤ bs.length ∧ r = bs.drop n := by
  unfold getFrom at h; split at h <;> simp_all
theorem getTo_some {bs r : Bytes} {n : Nat} (h : getTo bs n = some r) : n ≤ bs.length ∧ r = bs.take n := by
  unfold getTo at h; split at h <;> simp_all

theorem okOr_eq_ok {o : Option α} {e : Err} {a : α} : okOr o e = .ok a ↔ o = some a := by
  cases o <;> simp [okOr]

theorem control_ok_ne_nil {bs : Bytes} {c : Control} (h : control bs = .ok c) : bs ≠ [] := by
  intro h'; subst h'; simp [control] at h


@[simp] theorem tagStart_cons (b : UInt8) (t : Bytes) : tagStart (b :: t) = .ok t := by
  simp [tagStart, getFrom, okOr]

@[simp] theorem valueLenStart_cons (b : UInt8) (t : Bytes) (tt : TagType) :
    valueLenStart (b :: t) tt = okOr (getFrom t tt.size) .mismatch := by
  simp [valueLenStart]

theorem valueStart_len {b : UInt8} {t s : Bytes} {c : Control} (h : valueStart (b :: t) c = .ok s) :
    s.length + c.tag.size + c.vt.varSizeLen = t.length ∧ s = (t.drop c.tag.size).drop c.vt.varSizeLen := by
  simp only [valueStart, valueLenStart_cons] at h
  rcases Res.bind_eq_ok.mp h with ⟨s1, h1, h2⟩
  have := getFrom_some (okOr_eq_ok.mp h1)
  have h3 := getFrom_some (okOr_eq_ok.mp h2)
  rcases this with ⟨a1, rfl⟩
  rcases h3 with ⟨a2, rfl⟩
  simp only [List.length_drop] at *
  constructor <;> first | omega | trivial

theorem nextStart_len {b : UInt8} {t r : Bytes} {c : Control} (h : nextStart (b :: t) c = .ok r) :
    r.length ≤ t.length := by
  simp only [nextStart] at h
  rcases Res.bind_eq_ok.mp h with ⟨n, _, h2⟩
  rcases Res.bind_eq_ok.mp h2 with ⟨s, h3, h4⟩
  have := valueStart_len h3
  rcases getFrom_some (okOr_eq_ok.mp h4) with ⟨_, rfl⟩
  simp only [List.length_drop]; omega

theorem nextEnter_lt {bs r : Bytes} (hne : bs ≠ []) (h : nextEnter bs = .ok r) : r.length < bs.length := by
  cases bs with
  | nil => exact absurd rfl hne
  | cons b t =>
    simp only [nextEnter, List.isEmpty_cons, Bool.false_eq_true, if_false] at h
    rcases Res.bind_eq_ok.mp h with ⟨c, _, h2⟩
    have := nextStart_len h2
    simp only [List.length_cons]; omega

theorem nextEnter_le {bs r : Bytes} (h : nextEnter bs = .ok r) : r.length ≤ bs.length := by
  cases bs with
  | nil => simp [nextEnter] at h; subst h; simp
  | cons b t => exact Nat.le_of_lt (nextEnter_lt (by simp) h)


/-! ### never-panic lemmas for the private helpers -/

theorem Width.bytes_cases (w : Width) : w.bytes = 1 ∨ w.bytes = 2 ∨ w.bytes = 4 ∨ w.bytes = 8 := by
  cases w <;> simp [Width.bytes]

theorem valueLen_np (b : UInt8) (t : Bytes) (c : Control) : NP (valueLen (b :: t) c) := by
  unfold valueLen
  cases hfs : c.vt.fixedSize with
  | some n => exact NP.ok _
  | none =>
    simp only [valueLenStart_cons]
    apply NP.bind (okOr_np _ _); intro s hs
    apply NP.bind (okOr_np _ _); intro sl hsl
    have hsl' := getTo_some (okOr_eq_ok.mp hsl)
    have hw : c.vt.varSizeLen = 1 ∨ c.vt.varSizeLen = 2 ∨ c.vt.varSizeLen = 4 ∨ c.vt.varSizeLen = 8 := by
      cases hv : c.vt <;> simp [hv, ValueType.fixedSize] at hfs <;> simp [ValueType.varSizeLen, Width.bytes_cases]
    rw [if_pos hw]
    have : sl.length = c.vt.varSizeLen := by
      rw [hsl'.2, List.length_take]; omega
    rw [if_pos this]; exact NP.ok _

theorem valueStart_np (b : UInt8) (t : Bytes) (c : Control) : NP (valueStart (b :: t) c) := by
  simp only [valueStart, valueLenStart_cons]
  exact NP.bind (okOr_np _ _) fun _ _ => okOr_np _ _

theorem nextStart_np (b : UInt8) (t : Bytes) (c : Control) : NP (nextStart (b :: t) c) := by
  unfold nextStart
  exact NP.bind (valueLen_np b t c) fun _ _ => NP.bind (valueStart_np b t c) fun _ _ => okOr_np _ _

theorem value_np (b : UInt8) (t : Bytes) (c : Control) : NP (value (b :: t) c) := by
  unfold value
  exact NP.bind (valueLen_np b t c) fun _ _ => NP.bind (valueStart_np b t c) fun _ _ => okOr_np _ _

theorem Control.parse_np (b : UInt8) : NP (Control.parse b) := by
  unfold Control.parse
  exact NP.bind (okOr_np _ _) fun _ _ => NP.bind (okOr_np _ _) fun _ _ => NP.ok _

theorem control_np (bs : Bytes) : NP (control bs) := by
  cases bs with
  | nil => exact NP.err _
  | cons b t => exact Control.parse_np b

theorem nextEnter_np (bs : Bytes) : NP (nextEnter bs) := by
  cases bs with
  | nil => exact NP.ok _
  | cons b t =>
    simp only [nextEnter, List.isEmpty_cons, Bool.false_eq_true, if_false]
    exact NP.bind (control_np _) fun c _ => nextStart_np b t c

theorem checkedAdd_np (a b : Nat) : NP (checkedAdd a b) := by
  unfold checkedAdd; split
  · exact NP.ok _
  · exact NP.err _

theorem elemLen_np (bs : Bytes) : NP (elemLen bs) := by
  cases bs with
  | nil => simp [elemLen, control]; exact NP.err _
  | cons b t =>
    unfold elemLen
    exact NP.bind (control_np _) fun c _ => NP.bind (valueLen_np b t c) fun _ _ => checkedAdd_np _ _

theorem confirm_np (c : Control) : NP c.confirmContainerEnd := by
  unfold Control.confirmContainerEnd; split
  · exact NP.ok _
  · exact NP.err _

/-- `i32::MAX + 1 < usize::MAX + 1` (64-bit targets) -/
theorem i32lim_lt_usize : I32LIM < USIZE := by unfold I32LIM USIZE; omega

/-- an input below 2 GiB is in particular a Rust slice (`len + 1 < 2^64`) -/
theorem usize_of_i32lim {n : Nat} (h : n < I32LIM) : n + 1 < USIZE := by
  have := i32lim_lt_usize; omega

/-- one step of the `i32` level counter does not panic while the counter is positive and below `i32::MAX` -/
theorem levelStep_np (c : Control) (l : Nat) (h1 : 1 ≤ l) (h2 : l + 1 < I32LIM) : NP (levelStep c l) := by
  unfold levelStep
  split
  · apply NP.bind (confirm_np c); intro _ _
    simp [subI32, h1]; exact NP.ok _
  · split
    · simp [addI32, h2]; exact NP.ok _
    · exact NP.ok _

/-- **the hypothesis is needed**: at `level = i32::MAX` a container start makes the `i32` counter overflow
(the overflow-checks build panics with `attempt to add with overflow`) -/
theorem levelStep_overflow (tt : TagType) (k : Kind) :
    levelStep ⟨tt, .cont k⟩ (I32LIM - 1) = .panic .overflow := by
  simp [levelStep, ValueType.isContainerEnd, ValueType.isContainer, ValueType.isContainerStart, addI32, I32LIM]

theorem levelStep_le {c : Control} {l l' : Nat} (h : levelStep c l = .ok l') : l' ≤ l + 1 := by
  unfold levelStep at h
  split at h
  · rcases Res.bind_eq_ok.mp h with ⟨_, _, h2⟩
    unfold subI32 at h2; split at h2 <;> simp at h2; omega
  · split at h
    · unfold addI32 at h; split at h <;> simp at h; omega
    · simp at h; omega

theorem skipLoop_le : ∀ (f : Nat) (next : Bytes) (level : Nat) (r : Bytes),
    skipLoop f next level = .ok r → r.length ≤ next.length := by
  intro f
  induction f with
  | zero => intro next level r h; cases level <;> simp [skipLoop] at h; subst h; exact Nat.le_refl _
  | succ f ih =>
    intro next level r h
    cases level with
    | zero => simp [skipLoop] at h; subst h; exact Nat.le_refl _
    | succ level =>
      simp only [skipLoop] at h
      rcases Res.bind_eq_ok.mp h with ⟨c, _, h2⟩
      rcases Res.bind_eq_ok.mp h2 with ⟨l', _, h3⟩
      rcases Res.bind_eq_ok.mp h3 with ⟨n', h4, h5⟩
      have := ih _ _ _ h5
      have := nextEnter_le h4
      omega

theorem skipLoop_np : ∀ (f : Nat) (next : Bytes) (level : Nat),
    next.length < f → level + next.length < I32LIM → NP (skipLoop f next level) := by
  intro f
  induction f with
  | zero => intro next level h; omega
  | succ f ih =>
    intro next level hf hl
    cases level with
    | zero => simp only [skipLoop]; exact NP.ok _
    | succ level =>
      simp only [skipLoop]
      apply NP.bind (control_np _); intro c hc
      have hne := control_ok_ne_nil hc
      have hpos : 0 < next.length := List.length_pos_iff.mpr hne
      apply NP.bind (levelStep_np c _ (by omega) (by omega)); intro l' hl'
      apply NP.bind (nextEnter_np _); intro n' hn'
      have h1 := nextEnter_lt hne hn'
      have h2 := levelStep_le hl'
      exact ih _ _ (by omega) (by omega)

theorem containerNext_np (bs : Bytes) (h : bs.length < I32LIM) : NP (containerNext bs) := by
  unfold containerNext
  split
  · exact NP.ok _
  · apply NP.bind (control_np _); intro c hc
    have hne := control_ok_ne_nil hc
    split
    · exact NP.bind (confirm_np c) fun _ _ => NP.ok _
    · apply NP.bind (nextEnter_np _); intro next hn
      have := nextEnter_lt hne hn
      split
      · exact skipLoop_np _ _ _ this (by omega)
      · exact NP.ok _

theorem containerNext_le {bs r : Bytes} (h : containerNext bs = .ok r) : r.length ≤ bs.length := by
  unfold containerNext at h
  split at h
  · simp at h; subst h; simp
  · rcases Res.bind_eq_ok.mp h with ⟨c, hc, h2⟩
    split at h2
    · rcases Res.bind_eq_ok.mp h2 with ⟨_, _, h3⟩; simp at h3; subst h3; exact Nat.le_refl _
    · rcases Res.bind_eq_ok.mp h2 with ⟨next, hn, h3⟩
      have := nextEnter_le hn
      split at h3
      · have := skipLoop_le _ _ _ _ h3; omega
      · simp at h3; subst h3; assumption

/-- a non-end element is really skipped: the sequence gets shorter -/
theorem containerNext_lt {bs r : Bytes} {c : Control} (hc : control bs = .ok c) (hend : c.vt.isContainerEnd = false)
    (h : containerNext bs = .ok r) : r.length < bs.length := by
  have hne := control_ok_ne_nil hc
  unfold containerNext at h
  have : bs.isEmpty = false := by cases bs <;> simp_all
  simp only [this, Bool.false_eq_true, if_false, hc, Res.ok_bind, hend] at h
  rcases Res.bind_eq_ok.mp h with ⟨next, hn, h3⟩
  have := nextEnter_lt hne hn
  split at h3
  · have := skipLoop_le _ _ _ _ h3; omega
  · simp at h3; subst h3; assumption


theorem cvlLoop_np : ∀ (f : Nat) (next : Bytes) (len level : Nat),
    next.length < f → level + next.length ≤ I32LIM → NP (cvlLoop f next len level) := by
  intro f
  induction f with
  | zero => intro next len level h; omega
  | succ f ih =>
    intro next len level hf hl
    cases level with
    | zero => simp only [cvlLoop]; exact NP.ok _
    | succ level =>
      simp only [cvlLoop]
      apply NP.bind (nextEnter_np _); intro n' hn'
      apply NP.bind (elemLen_np _); intro l _
      apply NP.bind (checkedAdd_np _ _); intro len' _
      apply NP.bind (control_np _); intro c hc
      have hne' := control_ok_ne_nil hc
      have hne : next ≠ [] := by
        intro h; subst h; simp [nextEnter] at hn'; exact hne' hn'
      have h1 := nextEnter_lt hne hn'
      have hpos : 0 < n'.length := List.length_pos_iff.mpr hne'
      apply NP.bind (levelStep_np c _ (by omega) (by omega)); intro l' hl'
      have h2 := levelStep_le hl'
      exact ih _ _ _ (by omega) (by omega)

theorem containerValueLen_np (b : UInt8) (t : Bytes) (c : Control) (h : (b :: t).length < I32LIM) :
    NP (containerValueLen (b :: t) c) := by
  unfold containerValueLen
  split
  · exact cvlLoop_np _ _ _ _ (by omega) (by omega)
  · exact valueLen_np b t c

theorem containerValue_np (b : UInt8) (t : Bytes) (c : Control) (h : (b :: t).length < I32LIM) :
    NP (containerValue (b :: t) c) := by
  unfold containerValue
  exact NP.bind (containerValueLen_np b t c h) fun _ _ => NP.bind (valueStart_np b t c) fun _ _ => okOr_np _ _

/-- `raw_value` never panics -/
theorem rawValue_np (bs : Bytes) (h : bs.length < I32LIM) : NP (rawValue bs) := by
  cases bs with
  | nil => simp [rawValue, control]; exact NP.err _
  | cons b t => unfold rawValue; exact NP.bind (control_np _) fun c _ => containerValue_np b t c h

/-- `container_len` never panics -/
theorem containerLen_np (bs : Bytes) (h : bs.length < I32LIM) : NP (containerLen bs) := by
  cases bs with
  | nil => simp [containerLen, control]; exact NP.err _
  | cons b t =>
    unfold containerLen
    apply NP.bind (control_np _); intro c _
    apply NP.bind (containerValueLen_np b t c h); intro _ _
    apply NP.bind (checkedAdd_np _ _); intro _ _
    split
    · exact NP.ok _
    · exact NP.err _

theorem getTo_len {s r : Bytes} {n : Nat} (h : okOr (getTo s n) Err.mismatch = .ok r) : r.length = n := by
  rcases getTo_some (okOr_eq_ok.mp h) with ⟨h1, rfl⟩
  rw [List.length_take]; omega

theorem containerValue_len_fixed {bs s : Bytes} {c : Control} {n : Nat}
    (hc : c.vt.isContainer = false) (hf : c.vt.fixedSize = some n)
    (h : containerValue bs c = .ok s) : s.length = n := by
  unfold containerValue containerValueLen at h
  simp only [hc, Bool.false_eq_true, if_false] at h
  unfold valueLen at h
  simp only [hf, Res.ok_bind] at h
  rcases Res.bind_eq_ok.mp h with ⟨_, _, h2⟩
  exact getTo_len h2

theorem arr_np_of_len {s : Bytes} {n : Nat} (h : s.length = n) : arr s n = .ok s := by
  simp [arr, h]

/-- `value()` never panics -/
theorem valueOf_np (bs : Bytes) (h : bs.length < I32LIM) : NP (valueOf bs) := by
  cases bs with
  | nil => simp [valueOf, control]; exact NP.err _
  | cons b t =>
    unfold valueOf
    apply NP.bind (control_np _); intro c _
    apply NP.bind (containerValue_np b t c h); intro s hs
    cases hv : c.vt with
    | sint w =>
      have := containerValue_len_fixed (n := w.bytes) (by simp [hv, ValueType.isContainer, ValueType.isContainerStart, ValueType.isContainerEnd]) (by simp [hv, ValueType.fixedSize]) hs
      simp only [arr_np_of_len this, Res.ok_bind]; exact NP.ok _
    | uint w =>
      have := containerValue_len_fixed (n := w.bytes) (by simp [hv, ValueType.isContainer, ValueType.isContainerStart, ValueType.isContainerEnd]) (by simp [hv, ValueType.fixedSize]) hs
      simp only [arr_np_of_len this, Res.ok_bind]; exact NP.ok _
    | f32 =>
      have := containerValue_len_fixed (n := 4) (by simp [hv, ValueType.isContainer, ValueType.isContainerStart, ValueType.isContainerEnd]) (by simp [hv, ValueType.fixedSize]) hs
      simp only [arr_np_of_len this, Res.ok_bind]; exact NP.ok _
    | f64 =>
      have := containerValue_len_fixed (n := 8) (by simp [hv, ValueType.isContainer, ValueType.isContainerStart, ValueType.isContainerEnd]) (by simp [hv, ValueType.fixedSize]) hs
      simp only [arr_np_of_len this, Res.ok_bind]; exact NP.ok _
    | utf8 w => simp only; split; exact NP.ok _; exact NP.err _
    | bfalse => exact NP.ok _
    | btrue => exact NP.ok _
    | str w => exact NP.ok _
    | null => exact NP.ok _
    | cont k => exact NP.ok _
    | endCnt => exact NP.ok _

/-- `tag()` never panics -/
theorem tagOf_np (bs : Bytes) : NP (tagOf bs) := by
  cases bs with
  | nil => simp [tagOf, control]; exact NP.err _
  | cons b t =>
    unfold tagOf
    apply NP.bind (control_np _); intro c _
    simp only [tagStart_cons, Res.ok_bind]
    apply NP.bind (okOr_np _ _); intro s hs
    have hl := getTo_len hs
    cases ht : c.tag <;> simp only [ht, TagType.size] at hl ⊢
    · exact NP.ok _
    · cases s with
      | nil => simp at hl
      | cons x r => exact NP.ok _
    all_goals first
      | (simp only [arr_np_of_len hl, Res.ok_bind]; exact NP.ok _)
      | (rw [if_pos (by omega)]; exact NP.ok _)


theorem NP.ite {c : Prop} [Decidable c] {a b : Res α} (ha : NP a) (hb : NP b) : NP (if c then a else b) := by
  split <;> assumption

theorem fixedVal_np (b : UInt8) (t : Bytes) (c : Control) (n : Nat) : NP (fixedVal (b :: t) c n) := by
  unfold fixedVal
  exact NP.bind (value_np b t c) fun _ _ => NP.ite (NP.ok _) (NP.err _)

/-- accessors on the empty slice fail at `control()` -/
theorem nil_bind_control (f : Control → Res α) : (control [] >>= f) = .err .mismatch := rfl

macro "np_nil" : tactic => `(tactic| (first | exact NP.err _ | exact NP.ok _))

theorem i8_np (bs : Bytes) : NP (i8 bs) := by
  cases bs with
  | nil => exact NP.err _
  | cons b t =>
    unfold i8
    exact NP.bind (control_np _) fun c _ => NP.ite (NP.bind (fixedVal_np b t c 1) fun _ _ => NP.ok _) (NP.err _)
theorem u8_np (bs : Bytes) : NP (u8 bs) := by
  cases bs with
  | nil => exact NP.err _
  | cons b t =>
    unfold u8
    exact NP.bind (control_np _) fun c _ => NP.ite (fixedVal_np b t c 1) (NP.err _)
theorem i16_np (bs : Bytes) : NP (i16 bs) := by
  cases bs with
  | nil => exact NP.err _
  | cons b t =>
    unfold i16
    exact NP.bind (control_np _) fun c _ => NP.ite (NP.bind (fixedVal_np b t c 2) fun _ _ => NP.ok _) (i8_np _)
theorem u16_np (bs : Bytes) : NP (u16 bs) := by
  cases bs with
  | nil => exact NP.err _
  | cons b t =>
    unfold u16
    exact NP.bind (control_np _) fun c _ => NP.ite (fixedVal_np b t c 2) (u8_np _)
theorem i32_np (bs : Bytes) : NP (i32 bs) := by
  cases bs with
  | nil => exact NP.err _
  | cons b t =>
    unfold i32
    exact NP.bind (control_np _) fun c _ => NP.ite (NP.bind (fixedVal_np b t c 4) fun _ _ => NP.ok _) (i16_np _)
theorem u32_np (bs : Bytes) : NP (u32 bs) := by
  cases bs with
  | nil => exact NP.err _
  | cons b t =>
    unfold u32
    exact NP.bind (control_np _) fun c _ => NP.ite (fixedVal_np b t c 4) (u16_np _)
theorem i64_np (bs : Bytes) : NP (i64 bs) := by
  cases bs with
  | nil => exact NP.err _
  | cons b t =>
    unfold i64
    exact NP.bind (control_np _) fun c _ => NP.ite (NP.bind (fixedVal_np b t c 8) fun _ _ => NP.ok _) (i32_np _)
theorem u64_np (bs : Bytes) : NP (u64 bs) := by
  cases bs with
  | nil => exact NP.err _
  | cons b t =>
    unfold u64
    exact NP.bind (control_np _) fun c _ => NP.ite (fixedVal_np b t c 8) (u32_np _)
theorem f32_np (bs : Bytes) : NP (f32 bs) := by
  cases bs with
  | nil => exact NP.err _
  | cons b t =>
    unfold f32
    exact NP.bind (control_np _) fun c _ => NP.ite (fixedVal_np b t c 4) (NP.err _)
theorem f64_np (bs : Bytes) : NP (f64 bs) := by
  cases bs with
  | nil => exact NP.err _
  | cons b t =>
    unfold f64
    exact NP.bind (control_np _) fun c _ => NP.ite (fixedVal_np b t c 8) (NP.err _)
theorem strOf_np (bs : Bytes) : NP (strOf bs) := by
  cases bs with
  | nil => exact NP.err _
  | cons b t =>
    unfold strOf
    exact NP.bind (control_np _) fun c _ => NP.ite (NP.err _) (value_np b t c)
theorem utf8Of_np (bs : Bytes) : NP (utf8Of bs) := by
  cases bs with
  | nil => exact NP.err _
  | cons b t =>
    unfold utf8Of
    exact NP.bind (control_np _) fun c _ => NP.ite (NP.err _) (NP.bind (value_np b t c) fun _ _ => NP.ite (NP.ok _) (NP.err _))
theorem octetsOf_np (bs : Bytes) : NP (octetsOf bs) := by
  cases bs with
  | nil => exact NP.err _
  | cons b t =>
    unfold octetsOf
    exact NP.bind (control_np _) fun c _ => NP.ite (NP.err _) (value_np b t c)
theorem boolOf_np (bs : Bytes) : NP (boolOf bs) := by
  unfold boolOf
  apply NP.bind (control_np _); intro c _
  cases c.vt <;> first | exact NP.ok _ | exact NP.err _
theorem isContainerOf_np (bs : Bytes) : NP (isContainerOf bs) :=
  NP.bind (control_np _) fun _ _ => NP.ok _
theorem nullOf_np (bs : Bytes) : NP (nullOf bs) :=
  NP.bind (control_np _) fun _ _ => NP.ite (NP.ok _) (NP.err _)
theorem structOf_np (bs : Bytes) : NP (structOf bs) :=
  NP.bind (control_np _) fun _ _ => NP.ite (nextEnter_np _) (NP.err _)
theorem arrayOf_np (bs : Bytes) : NP (arrayOf bs) :=
  NP.bind (control_np _) fun _ _ => NP.ite (nextEnter_np _) (NP.err _)
theorem listOf_np (bs : Bytes) : NP (listOf bs) :=
  NP.bind (control_np _) fun _ _ => NP.ite (nextEnter_np _) (NP.err _)
theorem containerOf_np (bs : Bytes) : NP (containerOf bs) :=
  NP.bind (control_np _) fun _ _ => NP.ite (nextEnter_np _) (NP.err _)
theorem confirmAnon_np (bs : Bytes) : NP (confirmAnon bs) :=
  NP.bind (control_np _) fun _ _ => NP.ite (NP.ok _) (NP.err _)
theorem tagSlice_np (bs : Bytes) (tt : TagType) : NP (tagSlice bs tt) := by
  unfold tagSlice tagStart
  exact NP.bind (okOr_np _ _) fun _ _ => okOr_np _ _
theorem tryCtx_np (bs : Bytes) : NP (tryCtx bs) := by
  unfold tryCtx
  apply NP.bind (control_np _); intro c _
  apply NP.ite _ (NP.ok _)
  apply NP.bind (tagSlice_np _ _); intro s _
  cases s <;> first | exact NP.ok _ | exact NP.err _
theorem ctxOf_np (bs : Bytes) : NP (ctxOf bs) :=
  NP.bind (tryCtx_np _) fun _ _ => okOr_np _ _

/-! ### the element iterator: finite, fused, shrinking -/

theorem current_np (bs : Bytes) : NP (current bs) := by
  unfold current
  apply NP.ite (NP.ok _)
  exact NP.bind (control_np _) fun c _ => NP.ite (NP.bind (confirm_np c) fun _ _ => NP.ok _) (NP.ok _)

/-- what one `next()` does, case by case -/
theorem iterNext_cases (seq : Bytes) (h : seq.length < I32LIM) :
    (iterNext seq).1 = none ∨
    (∃ e, (iterNext seq).1 = some (.err e) ∧ (iterNext seq).2 = []) ∨
    (∃ cur, (iterNext seq).1 = some (.ok cur) ∧ cur = seq ∧ (iterNext seq).2.length < seq.length) := by
  unfold iterNext
  cases hcur : current seq with
  | panic p => exact absurd hcur (current_np seq p)
  | err e => right; left; exact ⟨e, rfl, rfl⟩
  | ok cur =>
    cases hnext : containerNext seq with
    | panic p => exact absurd hnext (containerNext_np seq h p)
    | err e => right; left; exact ⟨e, rfl, rfl⟩
    | ok seq' =>
      by_cases hemp : cur.isEmpty
      · left; simp [hemp]
      · right; right
        simp only [hemp, Bool.false_eq_true, if_false]
        refine ⟨cur, rfl, ?_, ?_⟩
        · -- current returns the sequence itself when it is a real element
          unfold current at hcur
          split at hcur
          · simp at hcur; subst hcur; simp at hemp
          · rcases Res.bind_eq_ok.mp hcur with ⟨c, _, h2⟩
            split at h2
            · rcases Res.bind_eq_ok.mp h2 with ⟨_, _, h3⟩; simp at h3; subst h3; simp at hemp
            · simp at h2; exact h2.symm
        · unfold current at hcur
          split at hcur
          · simp at hcur; subst hcur; simp at hemp
          · rcases Res.bind_eq_ok.mp hcur with ⟨c, hc, h2⟩
            split at h2
            · rcases Res.bind_eq_ok.mp h2 with ⟨_, _, h3⟩; simp at h3; subst h3; simp at hemp
            · rename_i hend
              exact containerNext_lt hc (by simpa using hend) hnext

theorem iterNext_nil : iterNext [] = (none, []) := by decide

/-- the iteration as a list: every item but the last is an element, an error can only be the last
item, no item is a panic, and the fuel `len + 1` is never exhausted -/
theorem elementsF_spec : ∀ (f : Nat) (seq : Bytes), seq.length < f → seq.length < I32LIM →
    ∃ (oks : List Bytes) (tail : List (Res Bytes)),
      elementsF f seq = oks.map .ok ++ tail ∧
      (tail = [] ∨ ∃ e, tail = [.err e]) ∧
      oks.length ≤ seq.length ∧
      (∀ e ∈ oks, e.length ≤ seq.length) := by
  intro f
  induction f with
  | zero => intro seq h; omega
  | succ f ih =>
    intro seq hf hu
    simp only [elementsF]
    rcases iterNext_cases seq hu with h | ⟨e, h1, h2⟩ | ⟨cur, h1, h2, h3⟩
    · refine ⟨[], [], ?_, Or.inl rfl, by simp, by simp⟩
      generalize iterNext seq = x at h
      obtain ⟨a, b⟩ := x; simp at h; subst h; rfl
    · refine ⟨[], [.err e], ?_, Or.inr ⟨e, rfl⟩, by simp, by simp⟩
      have hpos : 0 < f := by
        cases seq with
        | nil => rw [iterNext_nil] at h1; simp at h1
        | cons b t => simp at hf; omega
      generalize iterNext seq = x at h1 h2
      obtain ⟨a, b⟩ := x; simp at h1 h2; subst h1; subst h2
      obtain ⟨f', rfl⟩ : ∃ f', f = f' + 1 := ⟨f - 1, by omega⟩
      simp [elementsF, iterNext_nil]
    · generalize hx : iterNext seq = x at h1 h3
      obtain ⟨a, seq'⟩ := x; simp at h1 h3; subst h1
      obtain ⟨oks, tail, e1, e2, e3, e4⟩ := ih seq' (by omega) (by omega)
      refine ⟨cur :: oks, tail, ?_, e2, ?_, ?_⟩
      · simp [e1]
      · simp; omega
      · intro e he
        rcases List.mem_cons.mp he with rfl | he
        · rw [h2]; exact Nat.le_refl _
        · have := e4 e he; omega


theorem elements_spec (seq : Bytes) (hu : seq.length < I32LIM) :
    ∃ (oks : List Bytes) (tail : List (Res Bytes)),
      elements seq = oks.map .ok ++ tail ∧ (tail = [] ∨ ∃ e, tail = [.err e]) ∧
      oks.length ≤ seq.length ∧ (∀ e ∈ oks, e.length ≤ seq.length) :=
  elementsF_spec (seq.length + 1) seq (Nat.lt_succ_self _) hu

theorem elements_item_np (seq : Bytes) (hu : seq.length < I32LIM) : ∀ r ∈ elements seq, NP r := by
  obtain ⟨oks, tail, e1, e2, _, _⟩ := elements_spec seq hu
  intro r hr
  rw [e1, List.mem_append] at hr
  rcases hr with hr | hr
  · rcases List.mem_map.mp hr with ⟨a, _, rfl⟩; exact NP.ok _
  · rcases e2 with rfl | ⟨e, rfl⟩
    · simp at hr
    · simp at hr; subst hr; exact NP.err _

theorem findCtxGo_np (ctx : Nat) : ∀ l : List (Res Bytes), (∀ r ∈ l, NP r) → NP (findCtxGo ctx l) := by
  intro l
  induction l with
  | nil => intro _; exact NP.ok _
  | cons r rest ih =>
    intro h
    simp only [findCtxGo]
    apply NP.bind (h r (by simp)); intro e _
    apply NP.bind (tryCtx_np e); intro o _
    exact NP.ite (NP.ok _) (ih fun r' hr' => h r' (by simp [hr']))

theorem findCtx_np (seq : Bytes) (ctx : Nat) (hu : seq.length < I32LIM) : NP (findCtx seq ctx) :=
  findCtxGo_np ctx _ (elements_item_np seq hu)

theorem seqCtx_np (seq : Bytes) (ctx : Nat) (hu : seq.length < I32LIM) : NP (seqCtx seq ctx) :=
  NP.bind (findCtx_np seq ctx hu) fun _ _ => NP.ite (NP.err _) (NP.ok _)

theorem current_ok_nonempty {seq e : Bytes} (h : current seq = .ok e) (hne : e.isEmpty = false) :
    e = seq ∧ ∃ c, control seq = .ok c ∧ c.vt.isContainerEnd = false := by
  unfold current at h
  split at h
  · simp at h; subst h; simp at hne
  · rcases Res.bind_eq_ok.mp h with ⟨c, hc, h2⟩
    split at h2
    · rcases Res.bind_eq_ok.mp h2 with ⟨_, _, h3⟩; simp at h3; subst h3; simp at hne
    · rename_i hend; simp at h2; exact ⟨h2.symm, c, hc, by simpa using hend⟩

theorem scanCtxF_np (ctx : Nat) : ∀ (f : Nat) (seq : Bytes), seq.length < f → seq.length < I32LIM →
    NP (scanCtxF f seq ctx) := by
  intro f
  induction f with
  | zero => intro seq h; omega
  | succ f ih =>
    intro seq hf hu
    simp only [scanCtxF]
    apply NP.bind (current_np _); intro e he
    by_cases hemp : e.isEmpty
    · simp only [hemp, if_true]; exact NP.ok _
    · simp only [hemp, Bool.false_eq_true, if_false]
      apply NP.bind (tryCtx_np _); intro o _
      split
      · exact NP.ok _
      · apply NP.bind (containerNext_np _ hu); intro seq' hs'
        obtain ⟨_, c, hc, hend⟩ := current_ok_nonempty he (by simpa using hemp)
        have := containerNext_lt hc hend hs'
        exact ih _ (by omega) (by omega)

theorem scanCtx_np (seq : Bytes) (ctx : Nat) (hu : seq.length < I32LIM) : NP (scanCtx seq ctx) :=
  scanCtxF_np ctx _ _ (Nat.lt_succ_self _) hu

/-! ### `tlv_iter` -/

/-- one `next()` of the TLV iterator: nothing, an error that empties it, or an item and a strictly
shorter sequence; never a panic while `nesting + len` stays below `usize::MAX` -/
theorem tlvIterNext_cases (seq : Bytes) (n : Nat) (hu : n + seq.length + 1 < USIZE) (hi : seq.length < I32LIM) :
    (tlvIterNext seq n).1 = none ∨
    (∃ e, tlvIterNext seq n = (some (.err e), [], 0)) ∨
    (∃ x s' n', tlvIterNext seq n = (some (.ok x), s', n') ∧ s'.length < seq.length ∧ n' ≤ n + 1) := by
  unfold tlvIterNext
  by_cases hemp : seq.isEmpty
  · left; simp [hemp]
  · simp only [hemp, Bool.false_eq_true, if_false]
    have hne : seq ≠ [] := by intro h; subst h; simp at hemp
    cases hc : control seq with
    | panic p => exact absurd hc (control_np seq p)
    | err e => right; left; exact ⟨e, by simp⟩
    | ok c =>
      simp only [Res.ok_bind]
      by_cases hend : c.vt.isContainerEnd
      · simp only [hend, if_true]
        cases hcf : c.confirmContainerEnd with
        | panic p => exact absurd hcf (confirm_np c p)
        | err e => right; left; exact ⟨e, by simp⟩
        | ok u =>
          simp only [Res.ok_bind]
          by_cases hn : n = 0
          · left; simp [hn]
          · simp only [hn, if_false]
            have : subUsize n 1 = .ok (n - 1) := by simp [subUsize]; omega
            simp only [this, Res.ok_bind]
            cases hne' : nextEnter seq with
            | panic p => exact absurd hne' (nextEnter_np seq p)
            | err e => right; left; exact ⟨e, by simp⟩
            | ok s' =>
              right; right
              exact ⟨(Tag.anon, TVal.endCnt), s', n - 1, by simp, nextEnter_lt hne hne', by omega⟩
      · simp only [hend, Bool.false_eq_true, if_false]
        cases ht : tagOf seq with
        | panic p => exact absurd ht (tagOf_np seq p)
        | err e => right; left; exact ⟨e, by simp⟩
        | ok t =>
          simp only [Res.ok_bind]
          cases hv : valueOf seq with
          | panic p => exact absurd hv (valueOf_np seq hi p)
          | err e => right; left; exact ⟨e, by simp⟩
          | ok v =>
            simp only [Res.ok_bind]
            cases hne' : nextEnter seq with
            | panic p => exact absurd hne' (nextEnter_np seq p)
            | err e => right; left; exact ⟨e, by simp⟩
            | ok s' =>
              simp only [Res.ok_bind]
              right; right
              have hlt := nextEnter_lt hne hne'
              by_cases hcs : c.vt.isContainerStart
              · have : addUsize n 1 = .ok (n + 1) := by simp [addUsize]; omega
                simp only [hcs, if_true, this, Res.ok_bind, Res.pure_eq]
                exact ⟨_, s', n + 1, rfl, hlt, by omega⟩
              · simp only [hcs, Bool.false_eq_true, if_false, Res.pure_eq, Res.ok_bind]
                exact ⟨_, s', n, rfl, hlt, by omega⟩

theorem tlvIterNext_nil (n : Nat) : tlvIterNext [] n = (none, [], n) := by
  simp [tlvIterNext]

theorem tlvElementsF_spec : ∀ (f : Nat) (seq : Bytes) (n : Nat), seq.length < f → n + seq.length + 1 < USIZE →
    seq.length < I32LIM →
    ∃ (oks : List (Tag × TVal)) (tail : List (Res (Tag × TVal))),
      tlvElementsF f seq n = oks.map .ok ++ tail ∧ (tail = [] ∨ ∃ e, tail = [.err e]) ∧ oks.length ≤ seq.length := by
  intro f
  induction f with
  | zero => intro seq n h; omega
  | succ f ih =>
    intro seq n hf hu hi
    simp only [tlvElementsF]
    rcases tlvIterNext_cases seq n hu hi with h | ⟨e, h⟩ | ⟨x, s', n', h, h1, h2⟩
    · refine ⟨[], [], ?_, Or.inl rfl, by simp⟩
      generalize tlvIterNext seq n = y at h
      obtain ⟨a, b, c⟩ := y; simp at h; subst h; rfl
    · refine ⟨[], [.err e], ?_, Or.inr ⟨e, rfl⟩, by simp⟩
      have hpos : 0 < f := by
        cases seq with
        | nil => rw [tlvIterNext_nil] at h; simp at h
        | cons b t => simp at hf; omega
      obtain ⟨f', rfl⟩ : ∃ f', f = f' + 1 := ⟨f - 1, by omega⟩
      rw [h]; simp [tlvElementsF, tlvIterNext_nil]
    · rw [h]
      obtain ⟨oks, tail, e1, e2, e3⟩ := ih s' n' (by omega) (by omega) (by omega)
      exact ⟨x :: oks, tail, by simp [e1], e2, by simp; omega⟩

theorem tlvElements_spec (seq : Bytes) (hu : seq.length < I32LIM) :
    ∃ (oks : List (Tag × TVal)) (tail : List (Res (Tag × TVal))),
      tlvElements seq = oks.map .ok ++ tail ∧ (tail = [] ∨ ∃ e, tail = [.err e]) ∧ oks.length ≤ seq.length :=
  tlvElementsF_spec _ seq 0 (Nat.lt_succ_self _) (by have := usize_of_i32lim hu; omega) hu


theorem reencode_np (bs : Bytes) (hu : bs.length < I32LIM) : NP (reencode bs) := by
  unfold reencode
  apply NP.ite (NP.ok _)
  apply NP.bind (tagOf_np _); intro t _
  apply NP.bind (control_np _); intro c _
  apply NP.bind (rawValue_np _ hu); intro p _
  exact NP.ite (NP.ok _) (NP.ok _)

theorem tlvConcat_np : ∀ l : List (Res (Tag × TVal)), (∀ r ∈ l, NP r) → NP (tlvConcat l) := by
  intro l
  induction l with
  | nil => intro _; exact NP.ok _
  | cons r rest ih =>
    intro h
    simp only [tlvConcat]
    apply NP.bind (h r (by simp)); intro x _
    apply NP.bind (ih fun r' hr' => h r' (by simp [hr'])); intro _ _
    exact NP.ok _

theorem tlvElements_item_np (seq : Bytes) (hu : seq.length < I32LIM) : ∀ r ∈ tlvElements seq, NP r := by
  obtain ⟨oks, tail, e1, e2, _⟩ := tlvElements_spec seq hu
  intro r hr
  rw [e1, List.mem_append] at hr
  rcases hr with hr | hr
  · rcases List.mem_map.mp hr with ⟨a, _, rfl⟩; exact NP.ok _
  · rcases e2 with rfl | ⟨e, rfl⟩
    · simp at hr
    · simp at hr; subst hr; exact NP.err _

theorem containerOf_le {bs seq : Bytes} (h : containerOf bs = .ok seq) : seq.length ≤ bs.length := by
  unfold containerOf at h
  rcases Res.bind_eq_ok.mp h with ⟨c, _, h2⟩
  split at h2
  · exact nextEnter_le h2
  · simp at h2

theorem reencodeIter_np (bs : Bytes) (hu : bs.length < I32LIM) : NP (reencodeIter bs) := by
  unfold reencodeIter
  apply NP.ite (NP.ok _)
  apply NP.bind (tagOf_np _); intro t _
  apply NP.bind (valueOf_np _ hu); intro v _
  cases hseq : containerOf bs with
  | ok seq =>
    have := containerOf_le hseq
    simp only
    apply NP.bind (tlvConcat_np _ (tlvElements_item_np seq (by omega))); intro _ _
    exact NP.ok _
  | err e => exact NP.ok _
  | panic p => exact NP.ok _

theorem decodeSeq_np (f : Bytes → Res Value) :
    ∀ l : List (Res Bytes), (∀ r ∈ l, NP r) → (∀ e, Res.ok e ∈ l → NP (f e)) → NP (decodeSeq f l) := by
  intro l
  induction l with
  | nil => intro _ _; exact NP.ok _
  | cons r rest ih =>
    intro h1 h2
    simp only [decodeSeq]
    apply NP.bind (h1 r (by simp)); intro e he
    apply NP.bind (h2 e (by simp [he])); intro _ _
    apply NP.bind (ih (fun r' hr' => h1 r' (by simp [hr'])) (fun e' he' => h2 e' (by simp [he']))); intro _ _
    exact NP.ok _

theorem decodeTree_np : ∀ (d : Nat) (bs : Bytes), bs.length < I32LIM → NP (decodeTree d bs) := by
  intro d
  induction d with
  | zero => intro bs _; exact NP.err _
  | succ d ih =>
    intro bs hu
    simp only [decodeTree]
    apply NP.bind (tagOf_np _); intro t _
    apply NP.bind (valueOf_np _ hu); intro v _
    cases v with
    | prim p => exact NP.ok _
    | endCnt => exact NP.err _
    | cont k =>
      simp only
      apply NP.bind (containerOf_np _); intro seq hseq
      have hle := containerOf_le hseq
      have hu' : seq.length < I32LIM := by omega
      apply NP.bind _ (fun _ _ => NP.ok _)
      apply decodeSeq_np _ _ (elements_item_np seq hu')
      intro e he
      obtain ⟨oks, tail, e1, e2, _, e4⟩ := elements_spec seq hu'
      rw [e1, List.mem_append] at he
      have hmem : e ∈ oks := by
        rcases he with he | he
        · rcases List.mem_map.mp he with ⟨a, ha, hh⟩; cases hh; exact ha
        · rcases e2 with rfl | ⟨e', rfl⟩ <;> simp at he
      have := e4 e hmem
      exact ih e (by omega)


/-! ### every slice handed out is a sub-slice of the input -/

theorem valueStart_suffix {b : UInt8} {t s : Bytes} {c : Control} (h : valueStart (b :: t) c = .ok s) :
    s <:+ (b :: t) := by
  rw [(valueStart_len h).2]
  exact ((List.drop_suffix _ _).trans (List.drop_suffix _ _)).trans (List.suffix_cons b t)

theorem nextEnter_suffix {bs r : Bytes} (h : nextEnter bs = .ok r) : r <:+ bs := by
  cases bs with
  | nil => simp [nextEnter] at h; subst h; exact List.suffix_refl _
  | cons b t =>
    simp only [nextEnter, List.isEmpty_cons, Bool.false_eq_true, if_false] at h
    rcases Res.bind_eq_ok.mp h with ⟨c, _, h2⟩
    simp only [nextStart] at h2
    rcases Res.bind_eq_ok.mp h2 with ⟨n, _, h3⟩
    rcases Res.bind_eq_ok.mp h3 with ⟨s, h4, h5⟩
    rcases getFrom_some (okOr_eq_ok.mp h5) with ⟨_, rfl⟩
    exact (List.drop_suffix _ _).trans (valueStart_suffix h4)

theorem skipLoop_suffix : ∀ (f : Nat) (next : Bytes) (level : Nat) (r : Bytes),
    skipLoop f next level = .ok r → r <:+ next := by
  intro f
  induction f with
  | zero => intro next level r h; cases level <;> simp [skipLoop] at h; subst h; exact List.suffix_refl _
  | succ f ih =>
    intro next level r h
    cases level with
    | zero => simp [skipLoop] at h; subst h; exact List.suffix_refl _
    | succ level =>
      simp only [skipLoop] at h
      rcases Res.bind_eq_ok.mp h with ⟨c, _, h2⟩
      rcases Res.bind_eq_ok.mp h2 with ⟨l', _, h3⟩
      rcases Res.bind_eq_ok.mp h3 with ⟨n', h4, h5⟩
      exact (ih _ _ _ h5).trans (nextEnter_suffix h4)

theorem containerNext_suffix {bs r : Bytes} (h : containerNext bs = .ok r) : r <:+ bs := by
  unfold containerNext at h
  split at h
  · simp at h; subst h; exact List.nil_suffix
  · rcases Res.bind_eq_ok.mp h with ⟨c, hc, h2⟩
    split at h2
    · rcases Res.bind_eq_ok.mp h2 with ⟨_, _, h3⟩; simp at h3; subst h3; exact List.suffix_refl _
    · rcases Res.bind_eq_ok.mp h2 with ⟨next, hn, h3⟩
      have := nextEnter_suffix hn
      split at h3
      · exact (skipLoop_suffix _ _ _ _ h3).trans this
      · simp at h3; subst h3; assumption

theorem containerValue_infix {bs v : Bytes} {c : Control} (h : containerValue bs c = .ok v) (hne : bs ≠ []) :
    v <:+: bs := by
  cases bs with
  | nil => exact absurd rfl hne
  | cons b t =>
    unfold containerValue at h
    rcases Res.bind_eq_ok.mp h with ⟨n, _, h2⟩
    rcases Res.bind_eq_ok.mp h2 with ⟨s, h3, h4⟩
    rcases getTo_some (okOr_eq_ok.mp h4) with ⟨_, rfl⟩
    exact (List.take_prefix _ _).isInfix.trans (valueStart_suffix h3).isInfix

theorem value_infix {bs v : Bytes} {c : Control} (h : value bs c = .ok v) (hne : bs ≠ []) : v <:+: bs := by
  cases bs with
  | nil => exact absurd rfl hne
  | cons b t =>
    unfold value at h
    rcases Res.bind_eq_ok.mp h with ⟨n, _, h2⟩
    rcases Res.bind_eq_ok.mp h2 with ⟨s, h3, h4⟩
    rcases getTo_some (okOr_eq_ok.mp h4) with ⟨_, rfl⟩
    exact (List.take_prefix _ _).isInfix.trans (valueStart_suffix h3).isInfix

/-- every element the iterator yields is a suffix of the sequence -/
theorem elementsF_suffix : ∀ (f : Nat) (seq e : Bytes), Res.ok e ∈ elementsF f seq → e <:+ seq := by
  intro f
  induction f with
  | zero => intro seq e h; simp [elementsF] at h
  | succ f ih =>
    intro seq e h
    simp only [elementsF] at h
    unfold iterNext at h
    cases hcur : current seq with
    | panic p => simp [hcur] at h; exact (ih _ _ h).trans (List.nil_suffix)
    | err e' => simp [hcur] at h; exact (ih _ _ h).trans (List.nil_suffix)
    | ok cur =>
      cases hnext : containerNext seq with
      | panic p => simp [hcur, hnext] at h; exact (ih _ _ h).trans (List.nil_suffix)
      | err e' => simp [hcur, hnext] at h; exact (ih _ _ h).trans (List.nil_suffix)
      | ok seq' =>
        simp only [hcur, hnext] at h
        by_cases hemp : cur.isEmpty
        · simp [hemp] at h
        · simp only [hemp, Bool.false_eq_true, if_false, List.mem_cons] at h
          rcases h with h | h
          · cases h
            rw [(current_ok_nonempty hcur (by simpa using hemp)).1]; exact List.suffix_refl _
          · exact (ih _ _ h).trans (containerNext_suffix hnext)

/-! ### the remaining public accessors: `tlv()`, `total_len()`, `Display` / `Debug` -/

theorem tlvOf_np (bs : Bytes) (h : bs.length < I32LIM) : NP (tlvOf bs) :=
  NP.bind (tagOf_np bs) fun _ _ => NP.bind (valueOf_np bs h) fun _ _ => NP.ok _

theorem totalLen_np (bs : Bytes) (h : bs.length < I32LIM) : NP (totalLen bs) := containerLen_np bs h

/-- an element that `container()` enters has a container-start value -/
theorem valueOf_of_containerOf {bs seq : Bytes} {v : TVal} (hv : valueOf bs = .ok v) (hs : containerOf bs = .ok seq) :
    ∃ k, v = .cont k := by
  unfold containerOf at hs
  rcases Res.bind_eq_ok.mp hs with ⟨c, hc, h2⟩
  split at h2
  · rename_i hst
    unfold valueOf at hv
    simp only [hc, Res.ok_bind] at hv
    rcases Res.bind_eq_ok.mp hv with ⟨s, _, h3⟩
    cases hvt : c.vt <;> simp [hvt, ValueType.isContainerStart] at hst
    rename_i k
    simp only [hvt, Res.pure_eq, Res.ok.injEq] at h3
    exact ⟨k, h3.symm⟩
  · simp at h2

theorem fmtSeq_np (f : Bytes → Res Unit) :
    ∀ l : List (Res Bytes), (∀ r ∈ l, NP r) → (∀ e, Res.ok e ∈ l → NP (f e)) → NP (fmtSeq f l) := by
  intro l
  induction l with
  | nil => intro _ _; exact NP.ok _
  | cons r rest ih =>
    intro h1 h2
    simp only [fmtSeq]
    apply NP.bind (h1 r (by simp)); intro e he
    apply NP.bind (h2 e (by simp [he])); intro _ _
    exact ih (fun r' hr' => h1 r' (by simp [hr'])) (fun e' he' => h2 e' (by simp [he']))

/-- an `Ok` item of the element iteration is not longer than the sequence -/
theorem elements_ok_le (seq e : Bytes) (hu : seq.length < I32LIM) (he : Res.ok e ∈ elements seq) :
    e.length ≤ seq.length := by
  obtain ⟨oks, tail, e1, e2, _, e4⟩ := elements_spec seq hu
  rw [e1, List.mem_append] at he
  have hmem : e ∈ oks := by
    rcases he with he | he
    · rcases List.mem_map.mp he with ⟨a, ha, hh⟩; cases hh; exact ha
    · rcases e2 with rfl | ⟨e', rfl⟩ <;> simp at he
  exact e4 e hmem

theorem fmtFirst_np : ∀ l : List (Res Bytes), (∀ r ∈ l, NP r) → NP (fmtFirst l)
  | [], _ => NP.ok _
  | r :: _, h => by
    simp only [fmtFirst]
    exact NP.bind (h r (by simp)) fun _ _ => NP.ok _

/-- one call of `fmt`: no panic (in particular the `unreachable!()` is unreachable) if handling the children
does not panic -/
theorem fmtBody_np (kids : List (Res Bytes) → Res Unit) (bs : Bytes) (hu : bs.length < I32LIM)
    (hk : ∀ seq, containerOf bs = .ok seq → seq.length < bs.length → NP (kids (elements seq))) :
    NP (fmtBody kids bs) := by
  unfold fmtBody
  apply NP.bind (tagOf_np _); intro t _
  apply NP.bind (valueOf_np _ hu); intro v hv
  split
  · apply NP.bind (containerOf_np _); intro seq hseq
    have hlt : seq.length < bs.length := by
      unfold containerOf at hseq
      rcases Res.bind_eq_ok.mp hseq with ⟨c, hc, h2⟩
      split at h2
      · exact nextEnter_lt (control_ok_ne_nil hc) h2
      · simp at h2
    obtain ⟨k, rfl⟩ := valueOf_of_containerOf hv hseq
    exact NP.bind (hk seq hseq hlt) (fun _ _ => by simp only [TVal.vt]; exact NP.ok _)
  · exact NP.ok _

/-- `TLVElement::fmt` at any remaining depth budget: value or `fmt::Error`, never a panic; no fuel — the
recursion is structural on the budget, hence at most `rem + 1` deep for every input -/
theorem fmtAt_np : ∀ (rem : Nat) (bs : Bytes), bs.length < I32LIM → NP (fmtAt rem bs) := by
  intro rem
  induction rem with
  | zero =>
    intro bs hu
    simp only [fmtAt]
    exact fmtBody_np _ bs hu fun seq _ hlt => fmtFirst_np _ (elements_item_np seq (by omega))
  | succ rem ih =>
    intro bs hu
    simp only [fmtAt]
    refine fmtBody_np _ bs hu fun seq _ hlt => ?_
    have hu' : seq.length < I32LIM := by omega
    apply fmtSeq_np _ _ (elements_item_np seq hu')
    intro e he
    have := elements_ok_le seq e hu' he
    exact ih e (by omega)

theorem fmtOf_np (bs : Bytes) (hu : bs.length < I32LIM) : NP (fmtOf bs) := fmtAt_np _ bs hu

theorem seqFmtOf_np (seq : Bytes) (hu : seq.length < I32LIM) : NP (seqFmtOf seq) := by
  unfold seqFmtOf
  apply fmtSeq_np _ _ (elements_item_np seq hu)
  intro e he
  have := elements_ok_le seq e hu he
  exact fmtAt_np _ e (by omega)

/-- the uncapped formatter (before the fix) never panics either **given enough fuel** — `len + 1`, i.e. a
recursion (and a stack) that grows with the input -/
theorem Old.fmtOf_np : ∀ (d : Nat) (bs : Bytes), bs.length < d → bs.length < I32LIM → NP (Old.fmtOf d bs) := by
  intro d
  induction d with
  | zero => intro bs h; omega
  | succ d ih =>
    intro bs hd hu
    have : Old.fmtOf (d + 1) bs = fmtBody (fmtSeq (Old.fmtOf d)) bs := rfl
    rw [this]
    refine fmtBody_np _ bs hu fun seq _ hlt => ?_
    have hu' : seq.length < I32LIM := by omega
    apply fmtSeq_np _ _ (elements_item_np seq hu')
    intro e he
    have := elements_ok_le seq e hu' he
    exact ih e (by omega) (by omega)

/-! ### the depth cap of `Display` / `Debug` is transparent on shallow inputs -/

theorem fmtBody_congr (k1 k2 : List (Res Bytes) → Res Unit) (bs : Bytes)
    (hk : ∀ l, k2 l ≠ .panic .fuel → k1 l = k2 l) (h : fmtBody k2 bs ≠ .panic .fuel) :
    fmtBody k1 bs = fmtBody k2 bs := by
  unfold fmtBody at h ⊢
  cases ht : tagOf bs with
  | err e => rfl
  | panic p => rfl
  | ok t =>
    simp only [ht, Res.ok_bind] at h ⊢
    cases hv : valueOf bs with
    | err e => rfl
    | panic p => rfl
    | ok v =>
      simp only [hv, Res.ok_bind] at h ⊢
      split
      · rename_i hc
        simp only [hc, if_true] at h
        cases hs : containerOf bs with
        | err e => rfl
        | panic p => rfl
        | ok seq =>
          simp only [hs, Res.ok_bind] at h ⊢
          have : k2 (elements seq) ≠ .panic .fuel := by
            intro hp; rw [hp] at h; exact h rfl
          rw [hk _ this]
      · rfl

theorem fmtSeq_first (f : Bytes → Res Unit) (hf : ∀ e, f e = .panic .fuel) :
    ∀ l, fmtSeq f l ≠ .panic .fuel → fmtFirst l = fmtSeq f l
  | [], _ => rfl
  | r :: rest, h => by
    simp only [fmtSeq, fmtFirst] at h ⊢
    cases r with
    | ok e => simp [hf e] at h
    | err x => rfl
    | panic p => rfl

theorem fmtSeq_congr (f1 f2 : Bytes → Res Unit) (hf : ∀ e, f2 e ≠ .panic .fuel → f1 e = f2 e) :
    ∀ l, fmtSeq f2 l ≠ .panic .fuel → fmtSeq f1 l = fmtSeq f2 l
  | [], _ => rfl
  | r :: rest, h => by
    simp only [fmtSeq] at h ⊢
    cases r with
    | err x => rfl
    | panic p => rfl
    | ok e =>
      simp only [Res.ok_bind] at h ⊢
      have h2 : f2 e ≠ .panic .fuel := by intro hp; rw [hp] at h; exact h rfl
      rw [hf e h2]
      cases hfe : f2 e with
      | err x => rfl
      | panic p => rfl
      | ok u =>
        rw [hfe] at h
        simp only [Res.ok_bind] at h ⊢
        exact fmtSeq_congr f1 f2 hf rest h

/-- **the cap changes nothing on inputs that nest at most `rem + 1` containers deep**: whenever the uncapped
formatter gets along with `rem + 1` levels of recursion, the capped one (budget `rem`) gives the same result -/
theorem fmtAt_eq_old : ∀ (rem : Nat) (bs : Bytes), Old.fmtOf (rem + 1) bs ≠ .panic .fuel →
    fmtAt rem bs = Old.fmtOf (rem + 1) bs := by
  intro rem
  induction rem with
  | zero =>
    intro bs h
    have e : Old.fmtOf 1 bs = fmtBody (fmtSeq (Old.fmtOf 0)) bs := rfl
    rw [e] at h ⊢
    exact fmtBody_congr _ _ bs (fmtSeq_first _ (fun _ => rfl)) h
  | succ rem ih =>
    intro bs h
    have e : Old.fmtOf (rem + 1 + 1) bs = fmtBody (fmtSeq (Old.fmtOf (rem + 1))) bs := rfl
    rw [e] at h ⊢
    exact fmtBody_congr _ _ bs (fmtSeq_congr _ _ ih) h

end Tlv
