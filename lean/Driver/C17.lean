import Driver.Util
/-! Driver for C17: not built yet. -/
namespace Driver.C17

def run : IO UInt32 := do
  IO.eprintln "C17: driver not built yet"
  return 2

end Driver.C17
