import RsMatterVerif.Lemmas.Btp
/-!
# Lemmas about `Model/BtpLink.lean`: one BTP end (`BtpInner`) under every operation of the outside
world, observed by a monitor that reassembles the accepted segments on the specification side.
-/
namespace Btp

/-- invariant of `BtpInner` -/
structure EInv (e : End) : Prop where
  s : SInv e.s
  off : e.off ≤ e.sdu.length
  len : e.sdu.length ≤ 1232

theorem ringRep_same {r r' : RecvWindow} {rs : Spec.Reasm} {n : Nat} (h : SameRing r r')
    (hr : RingRep r rs n) : RingRep r' rs n := by
  obtain ⟨h1, h2, h3⟩ := h
  exact ⟨hr.nLe, by rw [h2]; exact hr.cnt, by rw [h3]; exact hr.rem, by rw [h1]; exact hr.buf,
    hr.lens, hr.curLen, hr.curNil⟩

theorem SameRing.trans {a b c : RecvWindow} (h1 : SameRing a b) (h2 : SameRing b c) : SameRing a c :=
  ⟨h2.1.trans h1.1, h2.2.1.trans h1.2.1, h2.2.2.trans h1.2.2⟩

theorem endSend_clean (e : End) (he : EInv e) (m : List Nat) :
    Clean (e.send m) (fun r => EInv r.1 ∧ r.1.s = e.s) := by
  unfold End.send
  split
  · simp [Clean, Fail.isPanic]
  · rename_i hc
    split
    · simp only [Clean]
      refine ⟨⟨he.s, by simp, ?_⟩, by simp⟩
      simp at hc
      simpa using hc.2
    · simp only [Clean]; exact ⟨he, by simp⟩

/-- what the transmit steps preserve -/
def TxOk (e : End) (r : End × List Nat) : Prop :=
  EInv r.1 ∧ SameRing e.s.recv r.1.s.recv ∧ r.1.s.handshakePending = false

theorem dataStep_clean (e : End) (he : EInv e) (hnp : e.s.handshakePending = false) (now : Nat) :
    Clean (e.dataStep now) (TxOk e) := by
  unfold End.dataStep
  split
  · rename_i hd
    simp at hd
    have c2 := prepTxData_clean e.s he.s hnp e.sdu e.off now he.off (fun _ => hd.2)
    cases h2 : e.s.prepTxData e.sdu e.off now with
    | error f => rw [h2] at c2; exact c2
    | ok r2 =>
      rw [h2] at c2
      obtain ⟨s2, seg, off2⟩ := r2
      simp only [Clean] at c2
      obtain ⟨hs2, hnp2, _, hoff1, hoff2, hsame2⟩ := c2
      simp only
      split
      · split
        · simp only [Clean, TxOk]
          exact ⟨⟨hs2, by simp, by simp⟩, hsame2, hnp2⟩
        · simp only [Clean, TxOk]
          exact ⟨⟨hs2, hoff2, he.len⟩, hsame2, hnp2⟩
      · simp only [Clean, TxOk]
        exact ⟨⟨hs2, he.off, he.len⟩, hsame2, hnp2⟩
  · simp only [Clean, TxOk]
    exact ⟨he, SameRing.refl _, hnp⟩

theorem ackStep_clean (e : End) (he : EInv e) (hnp : e.s.handshakePending = false) (now : Nat) :
    Clean (e.ackStep now) (TxOk e) := by
  unfold End.ackStep
  split
  · have c3 := prepTxData_clean e.s he.s hnp [] 0 now (by simp) (fun h => absurd rfl h)
    cases h3 : e.s.prepTxData [] 0 now with
    | error f => rw [h3] at c3; exact c3
    | ok r3 =>
      rw [h3] at c3
      obtain ⟨s3, aseg, off3⟩ := r3
      simp only [Clean] at c3
      simp only [Clean, TxOk]
      exact ⟨⟨c3.1, he.off, he.len⟩, c3.2.2.2.2.2, c3.2.1⟩
  · simp only [Clean, TxOk]
    exact ⟨he, SameRing.refl _, hnp⟩

theorem endOutgoing_clean (e : End) (he : EInv e) (now : Nat) :
    Clean (e.processOutgoing now) (TxOk e) := by
  unfold End.processOutgoing
  have c1 := prepTxHandshake_clean e.s he.s e.gattMtu now
  cases h1 : e.s.prepTxHandshake e.gattMtu now with
  | error f => rw [h1] at c1; exact c1
  | ok r1 =>
    rw [h1] at c1
    obtain ⟨s1, hb⟩ := r1
    simp only [Clean] at c1
    obtain ⟨hs1, hnp1, hest1, _, hsame1⟩ := c1
    simp only
    split
    · simp only [Clean, TxOk]; exact ⟨⟨hs1, he.off, he.len⟩, hsame1, hnp1⟩
    · have he1 : EInv { e with s := s1 } := ⟨hs1, he.off, he.len⟩
      have c2 := dataStep_clean { e with s := s1 } he1 hnp1 now
      cases h2 : End.dataStep { e with s := s1 } now with
      | error f => rw [h2] at c2; exact c2
      | ok r2 =>
        rw [h2] at c2
        obtain ⟨e2, seg⟩ := r2
        simp only [Clean, TxOk] at c2
        obtain ⟨he2, hsame2, hnp2⟩ := c2
        simp only
        split
        · simp only [Clean, TxOk]; exact ⟨he2, hsame1.trans hsame2, hnp2⟩
        · have c3 := ackStep_clean e2 he2 hnp2 now
          cases h3 : e2.ackStep now with
          | error f => rw [h3] at c3; exact c3
          | ok r3 =>
            rw [h3] at c3
            simp only [Clean, TxOk] at c3 ⊢
            exact ⟨c3.1, (hsame1.trans hsame2).trans c3.2.1, c3.2.2⟩


theorem processRxData_recv {s : Session} {h : Hdr} {p : List Nat} {now : Nat} {s' : Session}
    (hok : s.processRxData h p now = .ok s') :
    s.recv.acceptIncoming h p s.mtu now = .ok s'.recv := by
  unfold Session.processRxData at hok
  split at hok
  · cases hok
  · split at hok
    · cases hok
    · rename_i r hr
      split at hok
      · cases hok
      · have := Except.ok.inj hok
        rw [← this]; exact hr

/-- ghost reassembly state after a segment has been accepted: a handshake starts a new session -/
def ghostRx (rs : Spec.Reasm) (n : Nat) (data : List Nat) : Spec.Reasm × Nat :=
  match decodeHdr data with
  | .ok (h, p) => if h.hs then ({}, 0) else (rs.feed h p, n)
  | .error _ => (rs, n)

theorem setup_ring (s : Session) (v m w now : Nat) : RingRep (s.setup v m w now).recv {} 0 := by
  constructor <;> simp only [Session.setup] <;> (try split) <;> simp [flat]

theorem handshakeReq_ring {s : Session} {g : Option Nat} {h : Hdr} {p : List Nat} {s' : Session}
    {now : Nat} (hok : s.processRxHandshakeReq g h p now = .ok s') : RingRep s'.recv {} 0 := by
  unfold Session.processRxHandshakeReq at hok
  split at hok
  · cases hok
  · split at hok
    · cases hok
    · simp only at hok
      split at hok
      · cases hok
      · split at hok
        · cases hok
        · split at hok
          · cases hok
          · have := Except.ok.inj hok
            rw [← this]; exact setup_ring _ _ _ _ _

theorem handshakeResp_ring {s : Session} {h : Hdr} {p : List Nat} {s' : Session}
    {now : Nat} (hok : s.processRxHandshakeResp h p now = .ok s') : RingRep s'.recv {} 0 := by
  unfold Session.processRxHandshakeResp at hok
  split at hok
  · cases hok
  · split at hok
    · cases hok
    · split at hok
      · cases hok
      · have := Except.ok.inj hok
        rw [← this]; exact setup_ring _ _ _ _ _

theorem processRx_ring {s : Session} (hs : SInv s) {rs : Spec.Reasm} {n : Nat} (hr : RingRep s.recv rs n)
    {g : Option Nat} {data : List Nat} (hd : Bytes data) {now : Nat} {s' : Session}
    (hok : s.processRx g data now = .ok s') :
    RingRep s'.recv (ghostRx rs n data).1 (ghostRx rs n data).2 := by
  unfold Session.processRx at hok
  unfold ghostRx
  have c := decodeHdr_clean data hd
  cases hdec : decodeHdr data with
  | error e => rw [hdec] at hok; cases hok
  | ok hp =>
    rw [hdec] at hok c
    obtain ⟨h, p⟩ := hp
    simp only [Clean] at c
    simp only at hok ⊢
    unfold Session.processRxSeg at hok
    cases hhs : h.hs
    · simp only [hhs, Bool.false_eq_true, if_false] at hok ⊢
      have hacc := processRxData_recv hok
      have hb : s.recv.buf.length ≤ 3166 := by have := hs.bufLe; simpa using this
      exact accept_refines hr hb c.1 hacc
    · simp only [hhs, if_true] at hok ⊢
      split at hok
      · exact handshakeResp_ring hok
      · exact handshakeReq_ring hok


/-- One BTP end observed by a monitor: `rs` is the specification-side reassembly
(`Spec.Reasm`) of the data segments the end has accepted in the current session, `fetched` the
messages it handed to the application, each with the capacity of the caller's buffer. -/
structure Mon where
  e : End
  rs : Spec.Reasm := {}
  fetched : List (List Nat × Nat) := []
  /-- sender-side ghosts: the specification-side reassembly of the data segments this end has put
  on the wire, and the messages the application has queued successfully -/
  tx : Spec.Reasm := {}
  submitted : List (List Nat) := []

/-- feed one wire segment into a reassembly (handshake segments and garbage carry no SDU data) -/
def feedSeg (rs : Spec.Reasm) (seg : List Nat) : Spec.Reasm :=
  match decodeHdr seg with
  | .ok (h, p) => if h.hs then rs else rs.feed h p
  | .error _ => rs

/-- everything the outside world can do to one end: the application (`send`, `fetch`), the GATT
glue (`poll`), and the peer — well-behaved or hostile — (`rx` of arbitrary bytes) -/
inductive EOp where
  | send (m : List Nat)
  | poll (now : Nat)
  | rx (data : List Nat) (now : Nat)
  | fetch (cap : Nat)

def Mon.step (m : Mon) : EOp → Except Fail (Mon × Out)
  | .send d =>
    match m.e.send d with
    | .error f => .error f
    | .ok (e, ok) => .ok ({ m with e := e, submitted := if ok then m.submitted ++ [d] else m.submitted }, .queued ok)
  | .poll now =>
    match m.e.processOutgoing now with
    | .error f => .error f
    | .ok (e, seg) =>
      .ok ({ m with e := e, tx := if seg.length > 0 then feedSeg m.tx seg else m.tx },
           if seg.length > 0 then .tx seg else .none)
  | .rx data now =>
    match m.e.processIncoming data now with
    | .error f => .error f
    | .ok e =>
      .ok ({ m with e := e, rs := (ghostRx m.rs m.fetched.length data).1,
                    fetched := m.fetched.take (ghostRx m.rs m.fetched.length data).2 }, .delivered)
  | .fetch cap =>
    match m.e.recv cap with
    | .error f => .error f
    | .ok (e, some b) => .ok ({ m with e := e, fetched := m.fetched ++ [(b, cap)] }, .msg b)
    | .ok (e, none) => .ok ({ m with e := e }, .none)

/-- every message handed out is the corresponding reassembled message (cut to the caller's buffer) -/
def Delivered (rs : Spec.Reasm) (fetched : List (List Nat × Nat)) : Prop :=
  ∀ (i : Nat) (b : List Nat) (c : Nat), fetched[i]? = some (b, c) →
    ∃ full : List Nat, rs.done[i]? = some full ∧ b = full.take c

structure MInv (m : Mon) : Prop where
  e : EInv m.e
  ring : RingRep m.e.s.recv m.rs m.fetched.length
  dlv : Delivered m.rs m.fetched

theorem feed_done (rs : Spec.Reasm) (h : Hdr) (p : List Nat) : ∃ l, (rs.feed h p).done = rs.done ++ l := by
  unfold Spec.Reasm.feed
  simp only
  by_cases hf : h.fin = true
  · simp only [hf, if_true]
    by_cases hc : (if h.beg = true then p else rs.cur ++ p).isEmpty = true
    · simp only [hc, if_true]; exact ⟨[], by simp⟩
    · simp only [hc]; exact ⟨_, rfl⟩
  · simp only [hf]; exact ⟨[], by simp⟩

theorem ghostRx_cases (rs : Spec.Reasm) (n : Nat) (data : List Nat) :
    (ghostRx rs n data = ({}, 0)) ∨ (∃ l, (ghostRx rs n data).1.done = rs.done ++ l ∧ (ghostRx rs n data).2 = n) := by
  unfold ghostRx
  split
  · split
    · exact .inl rfl
    · rename_i h p _ _
      obtain ⟨l, hl⟩ := feed_done rs h p
      exact .inr ⟨l, hl, rfl⟩
  · exact .inr ⟨[], by simp, rfl⟩

theorem endRecv_spec (e : End) (he : EInv e) (rs : Spec.Reasm) (n : Nat) (hr : RingRep e.s.recv rs n)
    (cap : Nat) :
    (e.recv cap = .ok (e, none)) ∨
    (∃ (full : List Nat) (e' : End), e.recv cap = .ok (e', some (full.take cap)) ∧ rs.done[n]? = some full ∧
      EInv e' ∧ RingRep e'.s.recv rs (n + 1)) := by
  unfold End.recv
  by_cases hav : e.s.messageAvailable = true
  · right
    simp only [hav, if_true]
    have hmc : e.s.recv.msgCt ≠ 0 := by
      simp [Session.messageAvailable] at hav; omega
    obtain ⟨full, r', hget, hfetch, hring', hl, hal, has, hrem, hmc', hrt, hbl⟩ := fetch_refines cap hr hmc
    unfold Session.fetchMessage
    rw [hfetch]
    refine ⟨full, _, rfl, hget, ⟨?_, he.off, he.len⟩, hring'⟩
    have hs := he.s
    constructor <;> simp only []
    · exact hs.sendWs
    · exact hs.sendLe
    · rw [hl, hal]; exact hs.recvSum
    · rw [hal]; have := hs.msgLe; omega
    · exact hs.wsLe
    · exact hs.lastLt
    · rw [has]; exact hs.ackSeqLt
    · rw [hrem]; exact hs.remLt
    · have := hs.bufLe; omega
    · exact hs.est
    · exact hs.notEst
    · exact hs.hsPend
  · left
    simp only [hav]
    simp

theorem mon_step (m : Mon) (hm : MInv m) (op : EOp) (hb : ∀ d now, op = .rx d now → Bytes d) :
    Clean (m.step op) (fun r => MInv r.1) := by
  cases op with
  | send d =>
    simp only [Mon.step]
    have c := endSend_clean m.e hm.e d
    cases h : m.e.send d with
    | error f => rw [h] at c; exact c
    | ok r =>
      rw [h] at c
      obtain ⟨e, ok⟩ := r
      simp only [Clean] at c ⊢
      refine ⟨c.1, ?_, hm.dlv⟩
      show RingRep e.s.recv m.rs m.fetched.length
      rw [c.2]; exact hm.ring
  | poll now =>
    simp only [Mon.step]
    have c := endOutgoing_clean m.e hm.e now
    cases h : m.e.processOutgoing now with
    | error f => rw [h] at c; exact c
    | ok r =>
      rw [h] at c
      obtain ⟨e, seg⟩ := r
      simp only [Clean, TxOk] at c ⊢
      exact ⟨c.1, ringRep_same c.2.1 hm.ring, hm.dlv⟩
  | rx data now =>
    simp only [Mon.step]
    have hd := hb data now rfl
    unfold End.processIncoming
    have c := processRx_clean m.e.s hm.e.s m.e.gattMtu data hd now
    cases h : m.e.s.processRx m.e.gattMtu data now with
    | error f => rw [h] at c; exact c
    | ok s' =>
      rw [h] at c
      simp only [Clean] at c ⊢
      have hring := processRx_ring hm.e.s hm.ring hd h
      refine ⟨⟨c, hm.e.off, hm.e.len⟩, ?_, ?_⟩
      · show RingRep s'.recv _ (m.fetched.take _).length
        rcases ghostRx_cases m.rs m.fetched.length data with h0 | ⟨l, _, h2⟩
        · rw [h0] at hring ⊢; simpa using hring
        · rw [h2] at hring ⊢; simpa using hring
      · show Delivered (ghostRx m.rs m.fetched.length data).1 (m.fetched.take (ghostRx m.rs m.fetched.length data).2)
        unfold Delivered
        intro i b c' hi
        rcases ghostRx_cases m.rs m.fetched.length data with h0 | ⟨l, h1, h2⟩
        · rw [h0] at hi; simp at hi
        · rw [h2, List.take_length] at hi
          obtain ⟨full, hf, hbf⟩ := hm.dlv i b c' hi
          refine ⟨full, ?_, hbf⟩
          rw [h1]
          have hlt : i < m.rs.done.length := (List.getElem?_eq_some_iff.mp hf).1
          rw [List.getElem?_append_left hlt]; exact hf
  | fetch cap =>
    simp only [Mon.step]
    rcases endRecv_spec m.e hm.e m.rs m.fetched.length hm.ring cap with h0 | ⟨full, e', h1, hget, he', hr'⟩
    · rw [h0]
      simp only [Clean]
      exact ⟨hm.e, hm.ring, hm.dlv⟩
    · rw [h1]
      simp only [Clean]
      refine ⟨he', ?_, ?_⟩
      · show RingRep e'.s.recv m.rs (m.fetched ++ [(List.take cap full, cap)]).length
        simpa using hr'
      · show Delivered m.rs (m.fetched ++ [(List.take cap full, cap)])
        unfold Delivered
        intro i b c' hi
        by_cases hlt : i < m.fetched.length
        · rw [List.getElem?_append_left hlt] at hi
          exact hm.dlv i b c' hi
        · have hge : m.fetched.length ≤ i := by omega
          rw [List.getElem?_append_right hge] at hi
          by_cases h0 : i - m.fetched.length = 0
          · rw [h0] at hi
            simp at hi
            obtain ⟨rfl, rfl⟩ := hi
            have : i = m.fetched.length := by omega
            subst this
            exact ⟨full, hget, rfl⟩
          · rw [List.getElem?_eq_none (by simp; omega)] at hi; cases hi


/-! ## Protocol violations, acknowledgement deadline, window slots -/

/-- the protocol-level view of a session state (what `Spec.mustReject` talks about) -/
def viewOf (s : Session) : Spec.View :=
  { lastSeq := s.recv.ackSeq, window := s.windowSize, unackedRx := s.recv.ackLevel,
    lastSent := s.send.lastSent, outstanding := s.windowSize - s.send.level,
    remaining := s.recv.remMsgLen, segSize := s.mtu }

theorem commit_err_panic {r : RecvWindow} {h : Hdr} {pfx p : List Nat} {rem now : Nat} {e : Fail}
    (he : r.commit h pfx p rem now = .error e) : e.isPanic = true := by
  unfold RecvWindow.commit csub cadd at he
  split at he
  · rename_i e1 h1
    split at h1
    · cases h1
    · cases h1; cases he; rfl
  · split at he
    · rename_i e2 h2
      split at h2
      · cases h2
      · cases h2; cases he; rfl
    · split at he
      · rename_i e3 h3
        split at h3
        · split at h3
          · cases h3
          · cases h3; cases he; rfl
        · cases h3
      · cases he

/-- the refusals of `RecvWindow::accept_incoming` (the code's tests, in the code's order) as one Boolean -/
def recvBad (r : RecvWindow) (h : Hdr) (payload : List Nat) (mtu : Nat) : Bool :=
  !r.checkDataIntegrity h payload.length mtu
  || r.level == 0
  || (h.getMsgLen.isSome && r.remMsgLen > 0)
  || fitsButNotFinal h mtu
  || orphanSegment r h
  || decide (r.startRem h.getMsgLen < payload.length)
  || (!h.fin && !payload.isEmpty && r.startRem h.getMsgLen - payload.length == 0)
  || (h.fin && r.startRem h.getMsgLen - payload.length > 0)
  || decide (ringFree r.buf < (sduPrefix h.getMsgLen).length + payload.length)

/-- `RecvWindow::accept_incoming` on a state satisfying the invariant: refused with `InvalidData`
exactly when one of its tests fires, accepted otherwise (the mutating tail cannot fail). -/
theorem acceptIncoming_cases {w : Nat} (hw : w ≤ 255) {r : RecvWindow} (hri : RInv w r) {h : Hdr} (hh : h.Wf)
    (p : List Nat) (mtu now : Nat) :
    (recvBad r h p mtu = true ∧ r.acceptIncoming h p mtu now = .error .invalidData) ∨
    (recvBad r h p mtu = false ∧ ∃ r', r.acceptIncoming h p mtu now = .ok r') := by
  cases hr : r.acceptIncoming h p mtu now with
  | ok r' =>
    right
    obtain ⟨h1, h2, h3, h4, h5, h6, h7, h8, _⟩ := acceptIncoming_inv hr
    refine ⟨?_, r', rfl⟩
    have h2' : (r.level == 0) = false := by simpa using h2
    have h3' : (h.getMsgLen.isSome && decide (r.remMsgLen > 0)) = false := by
      cases hb : (h.getMsgLen.isSome && decide (r.remMsgLen > 0)) with
      | false => rfl
      | true => exact absurd (by simpa using hb) h3
    have h5' : decide (r.startRem h.getMsgLen < p.length) = false := by simp; omega
    have h6' : (!h.fin && !p.isEmpty && r.startRem h.getMsgLen - p.length == 0) = false := by
      cases hb : (!h.fin && !p.isEmpty && r.startRem h.getMsgLen - p.length == 0) with
      | false => rfl
      | true =>
        exfalso; apply h6
        simp at hb
        exact ⟨hb.1.1, hb.1.2, by omega⟩
    have h7' : (h.fin && decide (r.startRem h.getMsgLen - p.length > 0)) = false := by
      cases hb : (h.fin && decide (r.startRem h.getMsgLen - p.length > 0)) with
      | false => rfl
      | true =>
        exfalso; apply h7
        simp at hb
        exact ⟨hb.1, by omega⟩
    have h8' : decide (ringFree r.buf < (sduPrefix h.getMsgLen).length + p.length) = false := by simp; omega
    unfold recvBad
    rw [h1, h2', h3', h4, acceptIncoming_not_orphan hr, h5', h6', h7', h8']; rfl
  | error e =>
    left
    have c := recvAccept_clean w hw r hri h hh p mtu now
    rw [hr] at c
    simp only [Clean] at c
    unfold RecvWindow.acceptIncoming at hr
    split at hr
    · rename_i hc; cases hr; exact ⟨by simp [recvBad, hc], rfl⟩
    split at hr
    · rename_i hc; cases hr; exact ⟨by simp [recvBad, hc], rfl⟩
    split at hr
    · rename_i hc; cases hr; exact ⟨by simp [recvBad, hc], rfl⟩
    split at hr
    · rename_i hc; cases hr; exact ⟨by simp [recvBad, hc], rfl⟩
    split at hr
    · rename_i hc; cases hr; exact ⟨by simp [recvBad, hc], rfl⟩
    split at hr
    · rename_i hc; cases hr; exact ⟨by simp [recvBad, hc], rfl⟩
    split at hr
    · rename_i hc; cases hr; exact ⟨by simp [recvBad, hc], rfl⟩
    split at hr
    · rename_i hc; cases hr; exact ⟨by simp [recvBad, hc], rfl⟩
    split at hr
    · rename_i hc; cases hr; exact ⟨by simp [recvBad, hc], rfl⟩
    have := commit_err_panic hr
    rw [c] at this; cases this

/-- a data segment passes the receive window only if all of this holds -/
theorem acceptIncoming_ok_only {w : Nat} (hw : w ≤ 255) {r : RecvWindow} (hri : RInv w r) {h : Hdr} (hh : h.Wf)
    {p : List Nat} {mtu now : Nat}
    (hbad : r.checkDataIntegrity h p.length mtu = false ∨ r.level = 0 ∨
      (h.getMsgLen.isSome = true ∧ r.remMsgLen > 0) ∨ r.startRem h.getMsgLen < p.length ∨
      (h.fin = false ∧ p ≠ [] ∧ r.startRem h.getMsgLen - p.length = 0) ∨
      (h.fin = true ∧ r.startRem h.getMsgLen - p.length > 0)) :
    r.acceptIncoming h p mtu now = .error .invalidData := by
  rcases acceptIncoming_cases hw hri hh p mtu now with ⟨_, h2⟩ | ⟨_, r', hr⟩
  · exact h2
  · obtain ⟨h1, h2, h3, _, h5, h6, h7, _, _⟩ := acceptIncoming_inv hr
    rcases hbad with hb | hb | hb | hb | hb | hb
    · rw [h1] at hb; cases hb
    · exact absurd hb h2
    · exact absurd hb h3
    · omega
    · exact absurd hb h6
    · exact absurd hb h7

theorem integrity_seq {r : RecvWindow} {h : Hdr} {n mtu : Nat} (hc : r.checkDataIntegrity h n mtu = true) :
    h.seqNum = (r.ackSeq + 1) % 256 := by
  unfold RecvWindow.checkDataIntegrity at hc
  repeat (split at hc; cases hc)
  rename_i s hs
  have : h.seqNum = s := by
    unfold Hdr.getSeq at hs
    split at hs
    · cases hs; rfl
    · cases hs
  rw [this]
  have := beq_iff_eq.mp hc
  omega

/-- the refusal of `SendWindow::check_incoming` as a Boolean (the code's test) -/
def ackBad (s : Session) (h : Hdr) : Bool :=
  h.ack && decide (wrapSub s.send.lastSent h.ackNum ≥ s.windowSize - s.send.level)

/-- `Session::process_rx_data` on a state satisfying the invariant: refused with `InvalidData`
exactly when one of the code's tests fires; otherwise accepted. No other outcome exists. -/
theorem processRxData_cases (s : Session) (hs : SInv s) (h : Hdr) (hh : h.Wf) (p : List Nat) (now : Nat) :
    ((ackBad s h || recvBad s.recv h p s.mtu) = true ∧ s.processRxData h p now = .error .invalidData) ∨
    ((ackBad s h || recvBad s.recv h p s.mtu) = false ∧ ∃ s', s.processRxData h p now = .ok s') := by
  unfold Session.processRxData
  have hle : s.send.level ≤ s.send.windowSize := by rw [hs.sendWs]; exact hs.sendLe
  by_cases hack : h.ack = true ∧ wrapSub s.send.lastSent h.ackNum ≥ s.windowSize - s.send.level
  · have : s.send.checkIncoming h = .error .invalidData := by
      unfold SendWindow.checkIncoming
      simp only [Hdr.getAck, hack.1, if_true]
      rw [csub_ok hle]
      simp only
      rw [hs.sendWs]
      simp [hack.2]
    rw [this]
    left
    refine ⟨?_, rfl⟩
    simp [ackBad, hack.1, hack.2]
  · have hab : ackBad s h = false := by
      cases hb : ackBad s h with
      | false => rfl
      | true =>
        exfalso; apply hack
        simp [ackBad] at hb
        exact ⟨hb.1, by have := hb.2; omega⟩
    have c1 := sendCheck_clean s.send hle h
    cases hc : s.send.checkIncoming h with
    | error e =>
      exfalso
      unfold SendWindow.checkIncoming at hc
      split at hc
      · cases hc
      · rename_i a ha
        rw [csub_ok hle] at hc
        simp only at hc
        split at hc
        · rename_i hge
          apply hack
          unfold Hdr.getAck at ha
          split at ha
          · rename_i hak
            cases ha
            exact ⟨hak, by rw [hs.sendWs] at hge; exact hge⟩
          · cases ha
        · cases hc
    | ok u =>
      rw [hc] at c1
      simp only [Clean] at c1
      simp only
      rw [hab, Bool.false_or]
      rcases acceptIncoming_cases hs.wsLe (rinv_of_sinv hs) hh p s.mtu now with ⟨hb, hr⟩ | ⟨hb, r', hr⟩
      · left; rw [hr]; exact ⟨hb, rfl⟩
      · right
        rw [hr]
        simp only
        obtain ⟨w', hw', _⟩ := sendAccept_ok s.send hle h now c1
        rw [hw']
        exact ⟨hb, _, rfl⟩

/-- **The acknowledgement clause of the specification, from its meaning, equals the code's
wrap-around test**: `a` is the sequence number of one of the `n` most recently sent segments
(`lastSent`, `lastSent − 1`, …, `lastSent − n + 1` modulo 256) iff `(lastSent − a) mod 256 < n`. -/
theorem mem_awaitingAck (v : Spec.View) (a : Nat) (hl : v.lastSent < 256) (ha : a < 256)
    (hn : v.outstanding ≤ 256) :
    a ∈ Spec.awaitingAck v ↔ wrapSub v.lastSent a < v.outstanding := by
  unfold Spec.awaitingAck wrapSub
  simp only [List.mem_map, List.mem_range]
  constructor
  · rintro ⟨i, hi, rfl⟩
    omega
  · intro h
    exact ⟨(v.lastSent + 256 - a) % 256, h, by omega⟩

/-- **Specification = code** for the refusal of a data segment: the disjunction of the code's
tests (`ackBad`: `SendWindow::check_incoming`; `recvBad`: `check_data_integrity` and the tests of
`RecvWindow::accept_incoming`) equals the specification `Spec.mustReject` on the protocol-level
view, or the resource limit `Spec.noRoom`. -/
theorem spec_matches_code (s : Session) (hs : SInv s) (h : Hdr) (hh : h.Wf) (hhs : h.hs = false)
    (p : List Nat) :
    (ackBad s h || recvBad s.recv h p s.mtu) =
      (Spec.mustReject (viewOf s) h p || Spec.noRoom (ringFree s.recv.buf) h p) := by
  have hmem := mem_awaitingAck (viewOf s) h.ackNum hs.lastLt hh.ack
    (by show s.windowSize - s.send.level ≤ 256; have := hs.wsLe; omega)
  have hack : ackBad s h = (h.ack && !(Spec.awaitingAck (viewOf s)).contains h.ackNum) := by
    unfold ackBad
    cases h.ack with
    | false => rfl
    | true =>
      simp only [Bool.true_and]
      by_cases hm : h.ackNum ∈ Spec.awaitingAck (viewOf s)
      · have h1 := hmem.mp hm
        have : (Spec.awaitingAck (viewOf s)).contains h.ackNum = true := by simpa using hm
        rw [this]
        simp
        simp only [viewOf] at h1
        omega
      · have h1 : ¬ wrapSub (viewOf s).lastSent h.ackNum < (viewOf s).outstanding := fun hc => hm (hmem.mpr hc)
        have : (Spec.awaitingAck (viewOf s)).contains h.ackNum = false := by simpa using hm
        rw [this]
        simp
        simp only [viewOf] at h1
        omega
  rw [hack]
  clear hack hmem
  unfold Spec.mustReject
  have hsum := hs.recvSum
  have hpe : p.isEmpty = decide (p.length = 0) := by cases p <;> simp
  generalize (Spec.awaitingAck (viewOf s)).contains h.ackNum = q
  generalize hn : p.length = n at *
  obtain ⟨hs_, mgmt, ack, fin, cont, beg, opcode, ackNum, seqNum, msgLen⟩ := h
  simp only at hhs
  subst hhs
  cases q <;> cases mgmt <;> cases ack <;> cases fin <;> cases cont <;> cases beg <;>
    (rw [Bool.eq_iff_iff]; by_cases hml : 0 < msgLen <;>
      simp [recvBad, Spec.noRoom, Spec.badFlags, Spec.badLength, Spec.expected, Spec.isAckOnly,
        viewOf, RecvWindow.checkDataIntegrity, Hdr.getOpcode, Hdr.isStandaloneAck, Hdr.getMsgLen, Hdr.getAck,
        Hdr.getSeq, Hdr.len, fitsButNotFinal, orphanSegment, RecvWindow.startRem, sduPrefix, hpe, hn, hml] <;> (constructor <;> intro hx <;> omega))

/-- **A data segment is refused with `InvalidData` exactly when it violates the protocol
(`Spec.mustReject` on the protocol-level view of the state) or does not fit the receive buffer
(`Spec.noRoom`)**; in every other case it is accepted - there is no third outcome. -/
theorem segment_refused_iff_aux (s : Session) (hs : SInv s) (h : Hdr) (hh : h.Wf) (hhs : h.hs = false)
    (p : List Nat) (now : Nat) :
    (s.processRxData h p now = .error .invalidData ↔
      (Spec.mustReject (viewOf s) h p = true ∨ Spec.noRoom (ringFree s.recv.buf) h p = true)) ∧
    ((∃ s', s.processRxData h p now = .ok s') ↔
      (Spec.mustReject (viewOf s) h p = false ∧ Spec.noRoom (ringFree s.recv.buf) h p = false)) := by
  have heq := spec_matches_code s hs h hh hhs p
  rcases processRxData_cases s hs h hh p now with ⟨hb, hr⟩ | ⟨hb, s', hr⟩
  · rw [heq] at hb
    have hb' : Spec.mustReject (viewOf s) h p = true ∨ Spec.noRoom (ringFree s.recv.buf) h p = true := by
      simpa using hb
    refine ⟨⟨fun _ => hb', fun _ => hr⟩, ⟨?_, ?_⟩⟩
    · rintro ⟨s', h1⟩; rw [hr] at h1; cases h1
    · rintro ⟨h1, h2⟩; rcases hb' with h3 | h3
      · rw [h1] at h3; cases h3
      · rw [h2] at h3; cases h3
  · rw [heq] at hb
    have hb' : Spec.mustReject (viewOf s) h p = false ∧ Spec.noRoom (ringFree s.recv.buf) h p = false := by
      simpa using hb
    refine ⟨⟨?_, ?_⟩, ⟨fun _ => hb', fun _ => ⟨s', hr⟩⟩⟩
    · intro h1; rw [hr] at h1; cases h1
    · rintro (h1 | h1)
      · rw [hb'.1] at h1; cases h1
      · rw [hb'.2] at h1; cases h1

/-- **Hostile peer, clause "refused with an error"**: a data segment that violates the protocol in
one of the ways named by the property (`Spec.mustReject` on the protocol-level view of the state:
wrong sequence number, window overrun, acknowledgement of something that is not awaiting one,
inconsistent length or flags) is refused with `InvalidData`; by `Except` the state is unchanged. -/
theorem mustReject_refused (s : Session) (hs : SInv s) (h : Hdr) (hh : h.Wf) (hhs : h.hs = false)
    (p : List Nat) (now : Nat) (hm : Spec.mustReject (viewOf s) h p = true) :
    s.processRxData h p now = .error .invalidData :=
  (segment_refused_iff_aux s hs h hh hhs p now).1.mpr (.inl hm)

/-- `is_ack_due` holds at the deadline whenever an acknowledgement is pending -/
theorem isAckDue_at_deadline (s : Session) (t now : Nat) (hp : s.recv.pendingAck.isSome = true)
    (ht : s.recv.receivedAt = some t) (hd : t + ackTimeoutSecs ≤ now) :
    s.isAckDue now ackTimeoutSecs = true := by
  unfold Session.isAckDue
  simp [hp, ht]
  right; exact decide_eq_true hd

/-- an accepted data segment stamps the receive window with the current instant and leaves an
acknowledgement to be sent -/
theorem accepted_stamps {s : Session} {h : Hdr} {p : List Nat} {now : Nat} {s' : Session}
    (hok : s.processRxData h p now = .ok s') :
    s'.recv.receivedAt = some now ∧ s'.recv.ackLevel = s.recv.ackLevel + 1 ∧ s'.recv.ackSeq = h.seqNum := by
  have hacc := processRxData_recv hok
  obtain ⟨_, _, _, _, _, _, _, _, hc⟩ := acceptIncoming_inv hacc
  obtain ⟨_, _, _, _, h5, h6, h7⟩ := commit_inv hc
  exact ⟨h7, h6, h5⟩

/-- a segment is emitted only while the send window has a free slot, and it takes exactly one;
the acknowledgement it carries (if any) re-opens the receive window completely -/
theorem prepTxData_emits {s : Session} {data : List Nat} {off now : Nat} {s' : Session} {seg : List Nat}
    {off' : Nat} (hok : s.prepTxData data off now = .ok (s', seg, off')) (hseg : seg ≠ []) :
    1 ≤ s.send.level ∧ s'.send.level + 1 = s.send.level ∧ s'.send.lastSent = (s.send.lastSent + 1) % 256 ∧
    s'.send.windowSize = s.send.windowSize ∧
    (s.recv.pendingAck.isSome = true → s'.recv.ackLevel = 0) := by
  unfold Session.prepTxData at hok
  by_cases hfull : s.send.isFull s.recv = true
  · simp only [hfull, if_true] at hok
    have := (Prod.mk.inj (Except.ok.inj hok)).2
    exact absurd (Prod.mk.inj this).1.symm hseg
  · simp only [hfull] at hok
    have hl : 1 ≤ s.send.level := by
      unfold SendWindow.isFull at hfull
      simp at hfull
      omega
    cases hb : s.buildSegment data off with
    | error e => rw [hb] at hok; cases hok
    | ok hp =>
      rw [hb] at hok
      obtain ⟨h, p⟩ := hp
      simp only at hok
      by_cases hsz : (h.encode ++ p).length > txBufLen
      · simp only [hsz, if_true] at hok; cases hok
      · simp only [hsz] at hok
        have hps : s.send.postSend now = .ok { windowSize := s.send.windowSize, level := s.send.level - 1, lastSent := (s.send.lastSent + 1) % 256, sentAt := some now } := by
          unfold SendWindow.postSend; rw [csub_ok hl]
        rw [hps] at hok
        simp only [if_false] at hok
        cases hr : s.recv.postSend with
        | error e => rw [hr] at hok; cases hok
        | ok r =>
          rw [hr] at hok
          have h3 := (Prod.mk.inj (Except.ok.inj hok)).1
          rw [← h3]
          refine ⟨hl, by simp only []; omega, rfl, rfl, ?_⟩
          intro hp
          unfold RecvWindow.postSend at hr
          simp only [hp, if_true] at hr
          unfold cadd at hr
          by_cases hlt : s.recv.level + s.recv.ackLevel < 256
          · simp only [hlt, if_true] at hr
            have := Except.ok.inj hr
            rw [← this]
          · simp only [hlt] at hr
            cases hr


theorem encode_length_le (h : Hdr) : h.encode.length ≤ 6 ∧ 0 < h.encode.length := by
  unfold Hdr.encode
  simp only [List.length_append, List.length_cons, List.length_nil]
  repeat' split
  all_goals simp

/-- when an acknowledgement is due and the send window has a free slot, the pump emits a segment
that carries it (and the receive window is fully re-opened) -/
theorem ack_emitted (e : End) (he : EInv e) (now : Nat)
    (hdue : e.s.isAckDue now ackTimeoutSecs = true) (hl : 1 ≤ e.s.send.level) :
    ∃ e' seg, e.ackStep now = .ok (e', seg) ∧ seg ≠ [] ∧ e'.s.recv.ackLevel = 0 ∧
      (decodeHdr seg).toOption.map (fun hp => hp.1.getAck) = some (some e.s.recv.ackSeq) := by
  have hp : e.s.recv.pendingAck.isSome = true := by
    unfold Session.isAckDue at hdue
    simp at hdue; simpa using hdue.1
  have hal : 0 < e.s.recv.ackLevel ∧ e.s.recv.msgCt = 0 := by
    unfold RecvWindow.pendingAck at hp
    split at hp
    · rename_i hc; simpa using hc
    · simp at hp
  have hpa : e.s.recv.pendingAck = some e.s.recv.ackSeq := by
    unfold RecvWindow.pendingAck; simp [hal.1, hal.2]
  have hnf : e.s.send.isFull e.s.recv = false := by
    unfold SendWindow.isFull
    have : e.s.send.level ≠ 0 := by omega
    have : e.s.recv.ackLevel ≠ 0 := by omega
    simp [*]
  have hs := he.s
  obtain ⟨r', hr', hri, _⟩ := recvPostSend_ok e.s.windowSize hs.wsLe e.s.recv (rinv_of_sinv hs)
  have hr0 : r'.ackLevel = 0 := by
    unfold RecvWindow.postSend at hr'
    simp only [hp, if_true] at hr'
    have h1 := hs.recvSum
    rw [cadd_ok (by have := hs.wsLe; omega)] at hr'
    have := Except.ok.inj hr'
    rw [← this]
  unfold End.ackStep
  simp only [hdue, if_true]
  unfold Session.prepTxData
  simp only [hnf, Bool.false_eq_true, if_false]
  unfold Session.buildSegment
  simp only [List.isEmpty_nil, Bool.not_true, Bool.false_eq_true, if_false, List.append_nil]
  have hlen := encode_length_le e.s.baseHdr
  have hsz : ¬ (e.s.baseHdr.encode.length > txBufLen) := by
    have : txBufLen = 512 := rfl
    omega
  simp only [hsz, if_false]
  unfold SendWindow.postSend
  rw [csub_ok hl]
  simp only
  rw [hr']
  refine ⟨_, _, rfl, ?_, hr0, ?_⟩
  · intro h0
    have := hlen.2
    rw [h0] at this; simp at this
  · simp [Session.baseHdr, hpa, Hdr.encode, Hdr.flagsByte, decodeHdr, bit, takeIf, Except.toOption, Hdr.getAck]


/-! ## What goes on the wire is a byte string; the link of two ends -/

theorem bytes_append {a b : List Nat} (ha : Bytes a) (hb : Bytes b) : Bytes (a ++ b) := by
  intro x hx
  rcases List.mem_append.mp hx with h | h
  · exact ha x h
  · exact hb x h

theorem bytes_take {a : List Nat} (n : Nat) (ha : Bytes a) : Bytes (a.take n) :=
  fun x hx => ha x (List.mem_of_mem_take hx)

theorem bytes_drop {a : List Nat} (n : Nat) (ha : Bytes a) : Bytes (a.drop n) :=
  fun x hx => ha x (List.mem_of_mem_drop hx)

theorem flagsByte_lt (h : Hdr) : h.flagsByte < 256 := by
  unfold Hdr.flagsByte
  repeat' split
  all_goals omega

theorem encode_bytes (h : Hdr) (ho : h.opcode < 256) (ha : h.ackNum < 256) (hs : h.seqNum < 256) :
    Bytes h.encode := by
  unfold Hdr.encode
  have := flagsByte_lt h
  intro x hx
  simp only [List.mem_append, List.mem_cons, List.not_mem_nil, or_false] at hx
  rcases hx with (((hx | hx) | hx) | hx) | hx
  · omega
  · split at hx
    · simp at hx; omega
    · cases hx
  · split at hx
    · simp at hx; omega
    · cases hx
  · split at hx
    · simp at hx; omega
    · cases hx
  · split at hx
    · simp at hx
      rcases hx with hx | hx <;> omega
    · cases hx


theorem baseHdr_fields (s : Session) (hs : SInv s) :
    s.baseHdr.opcode = 0 ∧ s.baseHdr.ackNum < 256 ∧ s.baseHdr.seqNum < 256 := by
  refine ⟨rfl, ?_, ?_⟩
  · show s.recv.pendingAck.getD 0 < 256
    unfold RecvWindow.pendingAck
    have := hs.ackSeqLt
    split <;> simp <;> omega
  · show s.send.nextSeq < 256
    unfold SendWindow.nextSeq; omega

theorem buildSegment_bytes {s : Session} (hs : SInv s) {data : List Nat} (hd : Bytes data) {off : Nat}
    {h : Hdr} {p : List Nat} (hok : s.buildSegment data off = .ok (h, p)) :
    Bytes (h.encode ++ p) := by
  obtain ⟨ho, ha, hq⟩ := baseHdr_fields s hs
  unfold Session.buildSegment at hok
  simp only at hok
  split at hok
  · split at hok
    · cases hok
    · split at hok
      · cases hok
      · have hh := (Prod.mk.inj (Except.ok.inj hok))
        rw [← hh.1, ← hh.2]
        apply bytes_append
        · apply encode_bytes
          all_goals (repeat' split) <;> simp only [] <;> omega
        · exact bytes_take _ (bytes_drop _ hd)
  · have hh := (Prod.mk.inj (Except.ok.inj hok))
    rw [← hh.1, ← hh.2]
    simp only [List.append_nil]
    exact encode_bytes _ (by omega) ha hq

theorem prepTxData_bytes {s : Session} (hs : SInv s) {data : List Nat} (hd : Bytes data) {off now : Nat}
    {s' : Session} {seg : List Nat} {off' : Nat} (hok : s.prepTxData data off now = .ok (s', seg, off')) :
    Bytes seg ∧ s'.version = s.version := by
  unfold Session.prepTxData at hok
  split at hok
  · have hh := Prod.mk.inj (Except.ok.inj hok)
    rw [← (Prod.mk.inj hh.2).1, ← hh.1]
    exact ⟨fun x hx => absurd hx (List.not_mem_nil), rfl⟩
  · cases hb : s.buildSegment data off with
    | error e => rw [hb] at hok; cases hok
    | ok hp =>
      rw [hb] at hok
      obtain ⟨h, p⟩ := hp
      simp only at hok
      split at hok
      · cases hok
      · split at hok
        · cases hok
        · split at hok
          · cases hok
          · have hh := Prod.mk.inj (Except.ok.inj hok)
            rw [← (Prod.mk.inj hh.2).1, ← hh.1]
            exact ⟨buildSegment_bytes hs hd hb, rfl⟩


theorem bytes_of_lt {l : List Nat} (h : ∀ x ∈ l, x < 256) : Bytes l := h

theorem prepTxHandshake_bytes {s : Session} (hs : SInv s) (hv : s.version < 256) {g : Option Nat} {now : Nat}
    {s' : Session} {hb : List Nat} (hok : s.prepTxHandshake g now = .ok (s', hb)) :
    Bytes hb ∧ s'.version = s.version := by
  unfold Session.prepTxHandshake at hok
  split at hok
  · split at hok
    · simp only at hok
      split at hok
      · cases hok
      · split at hok
        · cases hok
        · rename_i m _ ws hws
          have hh := Prod.mk.inj (Except.ok.inj hok)
          rw [← hh.1, ← hh.2]
          refine ⟨?_, rfl⟩
          have hws' : ws ≤ 255 := by
            unfold initialWindowSize at hws
            split at hws
            · cases hws
            · have := Except.ok.inj hws; omega
          intro x hx
          simp [handshakeHdr, Hdr.encode, Hdr.flagsByte] at hx
          rcases hx with hx | hx | hx | hx | hx | hx | hx | hx | hx <;> omega
    · split at hok
      · cases hok
      · have hh := Prod.mk.inj (Except.ok.inj hok)
        rw [← hh.1, ← hh.2]
        refine ⟨?_, rfl⟩
        have := hs.wsLe
        intro x hx
        simp [handshakeHdr, Hdr.encode, Hdr.flagsByte] at hx
        rcases hx with hx | hx | hx | hx | hx | hx <;> omega
  · have hh := Prod.mk.inj (Except.ok.inj hok)
    rw [← hh.1, ← hh.2]
    exact ⟨fun x hx => absurd hx (List.not_mem_nil), rfl⟩

theorem reqVersion_lt (v : Nat) : reqVersion v < 256 := by
  unfold reqVersion
  simp only
  split
  · omega
  · rename_i x r heq
    have hall : ∀ y ∈ (List.filter (fun x => decide (x > 0)) (List.map (fun i => v / 16 ^ i % 256) (List.range 7))), y < 256 := by
      intro y hy
      have := (List.mem_filter.mp hy).1
      obtain ⟨i, _, rfl⟩ := List.mem_map.mp this
      omega
    rw [heq] at hall
    have hx : x < 256 := hall x (by simp)
    have : ∀ (l : List Nat) (a : Nat), a < 256 → l.foldl min a < 256 := by
      intro l
      induction l with
      | nil => intro a ha; exact ha
      | cons b l ih => intro a ha; exact ih _ (by omega)
    exact this r x hx

theorem processRx_version {s : Session} (hv : s.version < 256) {g : Option Nat} {data : List Nat}
    (hd : Bytes data) {now : Nat} {s' : Session} (hok : s.processRx g data now = .ok s') :
    s'.version < 256 := by
  unfold Session.processRx at hok
  have c := decodeHdr_clean data hd
  cases hdec : decodeHdr data with
  | error e => rw [hdec] at hok; cases hok
  | ok hp =>
    rw [hdec] at hok c
    obtain ⟨h, p⟩ := hp
    simp only [Clean] at c
    simp only at hok
    unfold Session.processRxSeg at hok
    split at hok
    · split at hok
      · unfold Session.processRxHandshakeResp at hok
        split at hok
        · cases hok
        · cases hr : decodeResp p with
          | error e => rw [hr] at hok; cases hok
          | ok resp =>
            rw [hr] at hok
            simp only at hok
            split at hok
            · cases hok
            · have := Except.ok.inj hok
              rw [← this]
              show resp.version < 256
              unfold decodeResp at hr
              split at hr
              · have := Except.ok.inj hr
                rw [← this]
                exact c.2 _ (by simp)
              · cases hr
      · unfold Session.processRxHandshakeReq at hok
        split at hok
        · cases hok
        · split at hok
          · cases hok
          · simp only at hok
            split at hok
            · cases hok
            · split at hok
              · cases hok
              · split at hok
                · cases hok
                · have := Except.ok.inj hok
                  rw [← this]
                  exact reqVersion_lt _
    · unfold Session.processRxData at hok
      split at hok
      · cases hok
      · split at hok
        · cases hok
        · split at hok
          · cases hok
          · have := Except.ok.inj hok
            rw [← this]; exact hv


/-- side conditions that make everything an end puts on the wire a byte string -/
structure WInv (e : End) : Prop where
  ver : e.s.version < 256
  sdu : Bytes e.sdu

theorem bytes_nil : Bytes [] := fun _ hx => absurd hx (List.not_mem_nil)

theorem dataStep_bytes {e : End} (he : EInv e) (hw : WInv e) {now : Nat} {e' : End} {seg : List Nat}
    (hok : e.dataStep now = .ok (e', seg)) : Bytes seg ∧ WInv e' := by
  unfold End.dataStep at hok
  split at hok
  · cases h2 : e.s.prepTxData e.sdu e.off now with
    | error f => rw [h2] at hok; cases hok
    | ok r =>
      rw [h2] at hok
      obtain ⟨s2, sg, off2⟩ := r
      obtain ⟨hb, hv⟩ := prepTxData_bytes he.s hw.sdu h2
      simp only at hok
      split at hok
      · split at hok
        · have hh := Prod.mk.inj (Except.ok.inj hok)
          rw [← hh.1, ← hh.2]
          exact ⟨hb, ⟨by simp only []; rw [hv]; exact hw.ver, bytes_nil⟩⟩
        · have hh := Prod.mk.inj (Except.ok.inj hok)
          rw [← hh.1, ← hh.2]
          exact ⟨hb, ⟨by simp only []; rw [hv]; exact hw.ver, hw.sdu⟩⟩
      · have hh := Prod.mk.inj (Except.ok.inj hok)
        rw [← hh.1, ← hh.2]
        exact ⟨bytes_nil, ⟨by simp only []; rw [hv]; exact hw.ver, hw.sdu⟩⟩
  · have hh := Prod.mk.inj (Except.ok.inj hok)
    rw [← hh.1, ← hh.2]
    exact ⟨bytes_nil, hw⟩

theorem ackStep_bytes {e : End} (he : EInv e) (hw : WInv e) {now : Nat} {e' : End} {seg : List Nat}
    (hok : e.ackStep now = .ok (e', seg)) : Bytes seg ∧ WInv e' := by
  unfold End.ackStep at hok
  split at hok
  · cases h2 : e.s.prepTxData [] 0 now with
    | error f => rw [h2] at hok; cases hok
    | ok r =>
      rw [h2] at hok
      obtain ⟨s2, sg, off2⟩ := r
      obtain ⟨hb, hv⟩ := prepTxData_bytes he.s bytes_nil h2
      have hh := Prod.mk.inj (Except.ok.inj hok)
      rw [← hh.1, ← hh.2]
      exact ⟨hb, ⟨by simp only []; rw [hv]; exact hw.ver, hw.sdu⟩⟩
  · have hh := Prod.mk.inj (Except.ok.inj hok)
    rw [← hh.1, ← hh.2]
    exact ⟨bytes_nil, hw⟩

theorem endOutgoing_bytes {e : End} (he : EInv e) (hw : WInv e) {now : Nat} {e' : End} {seg : List Nat}
    (hok : e.processOutgoing now = .ok (e', seg)) : Bytes seg ∧ WInv e' := by
  unfold End.processOutgoing at hok
  have c1 := prepTxHandshake_clean e.s he.s e.gattMtu now
  cases h1 : e.s.prepTxHandshake e.gattMtu now with
  | error f => rw [h1] at hok; cases hok
  | ok r1 =>
    rw [h1] at hok c1
    obtain ⟨s1, hb⟩ := r1
    simp only [Clean] at c1
    obtain ⟨hs1, hnp1, _, _, _⟩ := c1
    obtain ⟨hbb, hv1⟩ := prepTxHandshake_bytes he.s hw.ver h1
    simp only at hok
    split at hok
    · have hh := Prod.mk.inj (Except.ok.inj hok)
      rw [← hh.1, ← hh.2]
      exact ⟨hbb, ⟨by simp only []; rw [hv1]; exact hw.ver, hw.sdu⟩⟩
    · have he1 : EInv { e with s := s1 } := ⟨hs1, he.off, he.len⟩
      have hw1 : WInv { e with s := s1 } := ⟨by simp only []; rw [hv1]; exact hw.ver, hw.sdu⟩
      have c2 := dataStep_clean { e with s := s1 } he1 hnp1 now
      cases h2 : End.dataStep { e with s := s1 } now with
      | error f => rw [h2] at hok; cases hok
      | ok r2 =>
        rw [h2] at hok c2
        obtain ⟨e2, sg⟩ := r2
        obtain ⟨hb2, hw2⟩ := dataStep_bytes he1 hw1 h2
        simp only [Clean, TxOk] at c2
        simp only at hok
        split at hok
        · have hh := Prod.mk.inj (Except.ok.inj hok)
          rw [← hh.1, ← hh.2]
          exact ⟨hb2, hw2⟩
        · exact ackStep_bytes c2.1 hw2 hok

theorem endIncoming_winv {e : End} (hw : WInv e) {data : List Nat} (hd : Bytes data) {now : Nat} {e' : End}
    (hok : e.processIncoming data now = .ok e') : WInv e' := by
  unfold End.processIncoming at hok
  cases h : e.s.processRx e.gattMtu data now with
  | error f => rw [h] at hok; cases hok
  | ok s' =>
    rw [h] at hok
    have := Except.ok.inj hok
    rw [← this]
    exact ⟨processRx_version hw.ver hd h, hw.sdu⟩

theorem endSend_winv {e : End} (hw : WInv e) {m : List Nat} (hm : Bytes m) {e' : End} {ok : Bool}
    (hok : e.send m = .ok (e', ok)) : WInv e' := by
  unfold End.send at hok
  split at hok
  · cases hok
  · split at hok
    · have hh := Prod.mk.inj (Except.ok.inj hok)
      rw [← hh.1]
      exact ⟨hw.ver, hm⟩
    · have hh := Prod.mk.inj (Except.ok.inj hok)
      rw [← hh.1]; exact hw

theorem endRecv_winv {e : End} (hw : WInv e) {cap : Nat} {e' : End} {m : Option (List Nat)}
    (hok : e.recv cap = .ok (e', m)) : WInv e' := by
  unfold End.recv at hok
  split at hok
  · unfold Session.fetchMessage at hok
    cases h : e.s.recv.fetchMessage cap with
    | error f => rw [h] at hok; cases hok
    | ok r =>
      rw [h] at hok
      have hh := Prod.mk.inj (Except.ok.inj hok)
      rw [← hh.1]
      exact ⟨hw.ver, hw.sdu⟩
  · have hh := Prod.mk.inj (Except.ok.inj hok)
    rw [← hh.1]; exact hw


/-! ## The link observed by two monitors -/

structure LMon where
  a : Mon
  b : Mon
  qab : List (List Nat) := []
  qba : List (List Nat) := []
  now : Nat := 0

def LMon.get (l : LMon) : Side → Mon
  | .a => l.a
  | .b => l.b

def LMon.set (l : LMon) (x : Side) (m : Mon) : LMon :=
  match x with
  | .a => { l with a := m }
  | .b => { l with b := m }

def LMon.inq (l : LMon) : Side → List (List Nat)
  | .a => l.qba
  | .b => l.qab

def LMon.setInq (l : LMon) (x : Side) (q : List (List Nat)) : LMon :=
  match x with
  | .a => { l with qba := q }
  | .b => { l with qab := q }

/-- forget the ghosts -/
def LMon.erase (l : LMon) : Link :=
  { a := l.a.e, b := l.b.e, qab := l.qab, qba := l.qba, now := l.now }

/-- `Link.step` on the monitored link -/
def LMon.step (l : LMon) : Op → Except Fail (LMon × Out)
  | .send x m =>
    match (l.get x).step (.send m) with
    | .error f => .error f
    | .ok (m', o) => .ok (l.set x m', o)
  | .poll x =>
    match (l.get x).step (.poll l.now) with
    | .error f => .error f
    | .ok (m', .tx seg) => .ok ((l.set x m').setInq x.other ((l.set x m').inq x.other ++ [seg]), .tx seg)
    | .ok (m', o) => .ok (l.set x m', o)
  | .deliver x =>
    match l.inq x with
    | [] => .ok (l, .none)
    | seg :: rest =>
      match (l.get x).step (.rx seg l.now) with
      | .error f => .error f
      | .ok (m', o) => .ok ((l.set x m').setInq x rest, o)
  | .tick n => .ok ({ l with now := l.now + n }, .none)
  | .fetch x cap =>
    match (l.get x).step (.fetch cap) with
    | .error f => .error f
    | .ok (m', o) => .ok (l.set x m', o)

structure LInv (l : LMon) : Prop where
  a : MInv l.a
  b : MInv l.b
  wa : WInv l.a.e
  wb : WInv l.b.e
  qab : ∀ seg ∈ l.qab, Bytes seg
  qba : ∀ seg ∈ l.qba, Bytes seg

/-- the application hands byte strings to `send` -/
def WfOp : Op → Prop
  | .send _ m => Bytes m
  | _ => True

theorem LInv.get {l : LMon} (h : LInv l) (x : Side) : MInv (l.get x) ∧ WInv (l.get x).e := by
  cases x
  · exact ⟨h.a, h.wa⟩
  · exact ⟨h.b, h.wb⟩

theorem LInv.inq {l : LMon} (h : LInv l) (x : Side) : ∀ seg ∈ l.inq x, Bytes seg := by
  cases x
  · exact h.qba
  · exact h.qab

theorem LInv.set {l : LMon} (h : LInv l) (x : Side) {m : Mon} (hm : MInv m) (hw : WInv m.e) :
    LInv (l.set x m) := by
  cases x
  · exact ⟨hm, h.b, hw, h.wb, h.qab, h.qba⟩
  · exact ⟨h.a, hm, h.wa, hw, h.qab, h.qba⟩

theorem LInv.setInq {l : LMon} (h : LInv l) (x : Side) {q : List (List Nat)} (hq : ∀ seg ∈ q, Bytes seg) :
    LInv (l.setInq x q) := by
  cases x
  · exact ⟨h.a, h.b, h.wa, h.wb, h.qab, hq⟩
  · exact ⟨h.a, h.b, h.wa, h.wb, hq, h.qba⟩


theorem mon_step_winv {m : Mon} (hm : MInv m) (hw : WInv m.e) {op : EOp}
    (hb : ∀ d now, op = .rx d now → Bytes d) (hs : ∀ d, op = .send d → Bytes d)
    {m' : Mon} {o : Out} (hok : m.step op = .ok (m', o)) :
    WInv m'.e ∧ (∀ seg, o = .tx seg → Bytes seg) := by
  cases op with
  | send d =>
    simp only [Mon.step] at hok
    cases h : m.e.send d with
    | error f => rw [h] at hok; cases hok
    | ok r =>
      rw [h] at hok
      obtain ⟨e, ok⟩ := r
      have hh := Prod.mk.inj (Except.ok.inj hok)
      rw [← hh.1, ← hh.2]
      exact ⟨endSend_winv hw (hs d rfl) h, fun seg hseg => by cases hseg⟩
  | poll now =>
    simp only [Mon.step] at hok
    cases h : m.e.processOutgoing now with
    | error f => rw [h] at hok; cases hok
    | ok r =>
      rw [h] at hok
      obtain ⟨e, seg⟩ := r
      obtain ⟨hbs, hwe⟩ := endOutgoing_bytes hm.e hw h
      have hh := Prod.mk.inj (Except.ok.inj hok)
      rw [← hh.1, ← hh.2]
      refine ⟨hwe, ?_⟩
      intro sg hsg
      split at hsg
      · cases hsg; exact hbs
      · cases hsg
  | rx data now =>
    simp only [Mon.step] at hok
    cases h : m.e.processIncoming data now with
    | error f => rw [h] at hok; cases hok
    | ok e =>
      rw [h] at hok
      have hh := Prod.mk.inj (Except.ok.inj hok)
      rw [← hh.1, ← hh.2]
      exact ⟨endIncoming_winv hw (hb data now rfl) h, fun seg hseg => by cases hseg⟩
  | fetch cap =>
    simp only [Mon.step] at hok
    cases h : m.e.recv cap with
    | error f => rw [h] at hok; cases hok
    | ok r =>
      rw [h] at hok
      obtain ⟨e, mo⟩ := r
      have hwe := endRecv_winv hw h
      cases mo with
      | none =>
        have hh := Prod.mk.inj (Except.ok.inj hok)
        rw [← hh.1, ← hh.2]
        exact ⟨hwe, fun seg hseg => by cases hseg⟩
      | some bb =>
        have hh := Prod.mk.inj (Except.ok.inj hok)
        rw [← hh.1, ← hh.2]
        exact ⟨hwe, fun seg hseg => by cases hseg⟩

/-- **Link invariant**: every scheduler operation on two ends joined by two FIFO queues either
fails cleanly (state unchanged) or leads to a state satisfying the invariant — never a panic — for
every negotiated MTU and window, every interleaving, including sequence-number wrap. -/
theorem link_step (l : LMon) (hl : LInv l) (op : Op) (hop : WfOp op) :
    Clean (l.step op) (fun r => LInv r.1) := by
  cases op with
  | send x m =>
    simp only [LMon.step]
    obtain ⟨hm, hw⟩ := hl.get x
    have c := mon_step (l.get x) hm (.send m) (fun d now h => by cases h)
    cases h : (l.get x).step (.send m) with
    | error f => rw [h] at c; exact c
    | ok r =>
      rw [h] at c
      obtain ⟨m', o⟩ := r
      simp only [Clean] at c ⊢
      obtain ⟨hw', _⟩ := mon_step_winv hm hw (fun d now h => by cases h) (fun d h => by cases h; exact hop) h
      exact hl.set x c hw'
  | poll x =>
    simp only [LMon.step]
    obtain ⟨hm, hw⟩ := hl.get x
    have c := mon_step (l.get x) hm (.poll l.now) (fun d now h => by cases h)
    cases h : (l.get x).step (.poll l.now) with
    | error f => rw [h] at c; exact c
    | ok r =>
      rw [h] at c
      obtain ⟨m', o⟩ := r
      simp only [Clean] at c
      obtain ⟨hw', hseg⟩ := mon_step_winv hm hw (fun d now h => by cases h) (fun d h => by cases h) h
      have hl' := hl.set x c hw'
      cases o with
      | tx seg =>
        simp only [Clean]
        apply hl'.setInq
        intro sg hsg
        rcases List.mem_append.mp hsg with h1 | h1
        · exact hl'.inq _ sg h1
        · have : sg = seg := by simpa using h1
          rw [this]; exact hseg seg rfl
      | none => simp only [Clean]; exact hl'
      | queued ok => simp only [Clean]; exact hl'
      | delivered => simp only [Clean]; exact hl'
      | msg mm => simp only [Clean]; exact hl'
  | deliver x =>
    simp only [LMon.step]
    cases hq : l.inq x with
    | nil => simp only [Clean]; exact hl
    | cons seg rest =>
      simp only
      obtain ⟨hm, hw⟩ := hl.get x
      have hqb := hl.inq x
      rw [hq] at hqb
      have hsb : Bytes seg := hqb seg (by simp)
      have c := mon_step (l.get x) hm (.rx seg l.now) (fun d now h => by cases h; exact hsb)
      cases h : (l.get x).step (.rx seg l.now) with
      | error f => rw [h] at c; exact c
      | ok r =>
        rw [h] at c
        obtain ⟨m', o⟩ := r
        simp only [Clean] at c ⊢
        obtain ⟨hw', _⟩ := mon_step_winv hm hw (fun d now h => by cases h; exact hsb) (fun d h => by cases h) h
        exact (hl.set x c hw').setInq x (fun sg hsg => hqb sg (by simp [hsg]))
  | tick n =>
    simp only [LMon.step, Clean]
    exact ⟨hl.a, hl.b, hl.wa, hl.wb, hl.qab, hl.qba⟩
  | fetch x cap =>
    simp only [LMon.step]
    obtain ⟨hm, hw⟩ := hl.get x
    have c := mon_step (l.get x) hm (.fetch cap) (fun d now h => by cases h)
    cases h : (l.get x).step (.fetch cap) with
    | error f => rw [h] at c; exact c
    | ok r =>
      rw [h] at c
      obtain ⟨m', o⟩ := r
      simp only [Clean] at c ⊢
      obtain ⟨hw', _⟩ := mon_step_winv hm hw (fun d now h => by cases h) (fun d h => by cases h) h
      exact hl.set x c hw'


/-- forgetting the ghosts commutes with a step -/
def eraseRes : Except Fail (LMon × Out) → Except Fail (Link × Out)
  | .ok (l, o) => .ok (l.erase, o)
  | .error f => .error f

theorem erase_get (l : LMon) (x : Side) : l.erase.get x = (l.get x).e := by cases x <;> rfl
theorem erase_set (l : LMon) (x : Side) (m : Mon) : (l.set x m).erase = l.erase.set x m.e := by cases x <;> rfl
theorem erase_inq (l : LMon) (x : Side) : l.erase.inq x = l.inq x := by cases x <;> rfl
theorem erase_setInq (l : LMon) (x : Side) (q : List (List Nat)) :
    (l.setInq x q).erase = l.erase.setInq x q := by cases x <;> rfl
theorem erase_now (l : LMon) : l.erase.now = l.now := rfl

/-- **The monitored link is the model's link**: `LMon.step` is `Link.step` plus ghost bookkeeping. -/
theorem step_erase (l : LMon) (op : Op) : eraseRes (l.step op) = l.erase.step op := by
  cases op with
  | send x m =>
    simp only [LMon.step, Link.step, Mon.step, erase_get]
    cases h : (l.get x).e.send m with
    | error f => rfl
    | ok r => obtain ⟨e, ok⟩ := r; simp only [eraseRes, erase_set]
  | poll x =>
    simp only [LMon.step, Link.step, Mon.step, erase_get, erase_now]
    cases h : (l.get x).e.processOutgoing l.now with
    | error f => rfl
    | ok r =>
      obtain ⟨e, seg⟩ := r
      simp only
      by_cases hs : seg.length > 0
      · simp only [hs, if_true, eraseRes, erase_setInq, erase_set]
        rw [← erase_inq, erase_set]
      · simp only [hs, if_false, eraseRes, erase_set]
  | deliver x =>
    simp only [LMon.step, Link.step, erase_inq]
    cases hq : l.inq x with
    | nil => rfl
    | cons seg rest =>
      simp only [Mon.step, erase_get, erase_now]
      cases h : (l.get x).e.processIncoming seg l.now with
      | error f => rfl
      | ok e => simp only [eraseRes, erase_setInq, erase_set]
  | tick n => rfl
  | fetch x cap =>
    simp only [LMon.step, Link.step, Mon.step, erase_get]
    cases h : (l.get x).e.recv cap with
    | error f => rfl
    | ok r =>
      obtain ⟨e, mo⟩ := r
      cases mo with
      | none => simp only [eraseRes, erase_set]
      | some b => simp only [eraseRes, erase_set]


/-! ## Sending side: what is on the wire reassembles to what was submitted -/

/-- headers as `prep_tx_data` builds them -/
structure Hdr.Canon (h : Hdr) : Prop where
  hs : h.hs = false
  mgmt : h.mgmt = false
  opcode : h.opcode = 0
  ackNum : if h.ack then h.ackNum < 256 else h.ackNum = 0
  seqNum : h.seqNum < 256
  msgLen : if h.beg then h.msgLen < 65536 else h.msgLen = 0

theorem decode_encode (h : Hdr) (hc : h.Canon) (p : List Nat) : decodeHdr (h.encode ++ p) = .ok (h, p) := by
  obtain ⟨hs, mgmt, ack, fin, cont, beg, opcode, ackNum, seqNum, msgLen⟩ := h
  obtain ⟨h1, h2, h3, h4, h5, h6⟩ := hc
  simp only at h1 h2 h3 h4 h5 h6
  subst h1 h2 h3
  cases ack <;> cases fin <;> cases cont <;> cases beg <;>
    simp [Hdr.encode, Hdr.flagsByte, decodeHdr, bit, takeIf] at h4 h6 ⊢ <;>
    (try subst h4) <;> (try subst h6) <;> (try simp) <;> omega


theorem baseHdr_canon (s : Session) (hs : SInv s) : s.baseHdr.Canon ∧ s.baseHdr.beg = false ∧
    s.baseHdr.fin = false ∧ s.baseHdr.cont = false := by
  obtain ⟨_, ha, hq⟩ := baseHdr_fields s hs
  refine ⟨⟨rfl, rfl, rfl, ?_, hq, by simp [Session.baseHdr]⟩, rfl, rfl, rfl⟩
  show if s.recv.pendingAck.isSome = true then s.recv.pendingAck.getD 0 < 256 else s.recv.pendingAck.getD 0 = 0
  cases h : s.recv.pendingAck with
  | none => simp
  | some a =>
    simp
    have : s.baseHdr.ackNum = a := by simp [Session.baseHdr, h]
    omega

/-- what `prep_tx_data` puts into a data segment -/
theorem buildSegment_spec {s : Session} (hs : SInv s) {data : List Nat} {off : Nat}
    (hne : data ≠ []) (hoff : off < data.length) (hlen : data.length ≤ 1232) (hmtu : 20 ≤ s.mtu)
    {h : Hdr} {p : List Nat} (hok : s.buildSegment data off = .ok (h, p)) :
    h.Canon ∧ h.beg = decide (off = 0) ∧ h.cont = decide (off ≠ 0) ∧ (off = 0 → h.msgLen = data.length) ∧
    0 < p.length ∧ p = (data.drop off).take p.length ∧ off + p.length ≤ data.length ∧
    h.fin = decide (off + p.length = data.length) := by
  obtain ⟨hcan, hb0, hf0, hc0⟩ := baseHdr_canon s hs
  unfold Session.buildSegment at hok
  have hne' : (!data.isEmpty) = true := by simp [hne]
  simp only [hne', if_true] at hok
  have hgt : ¬ off > data.length := by omega
  simp only [hgt, if_false] at hok
  have hm : data.length % 65536 = data.length := by omega
  -- the header before the ending flag is decided
  obtain ⟨H, hH⟩ : ∃ H : Hdr, H = (if off = 0 then { s.baseHdr with beg := true, msgLen := data.length % 65536 }
      else { s.baseHdr with cont := true }) := ⟨_, rfl⟩
  rw [← hH] at hok
  have hHl : H.len ≤ 6 := hdr_len_le _
  rw [csub_ok (Nat.le_trans hHl (by omega))] at hok
  simp only at hok
  have hh := Prod.mk.inj (Except.ok.inj hok)
  have hpl : p.length = min (data.drop off).length (s.mtu - H.len) := by
    rw [← hh.2]; simp
  have hdl : (data.drop off).length = data.length - off := by simp
  have hHc : H.Canon ∧ H.beg = decide (off = 0) ∧ H.cont = decide (off ≠ 0) ∧ (off = 0 → H.msgLen = data.length) ∧
      H.fin = false := by
    rw [hH]
    by_cases h0 : off = 0
    · simp only [h0, if_true]
      exact ⟨⟨hcan.hs, hcan.mgmt, hcan.opcode, hcan.ackNum, hcan.seqNum, by simp; omega⟩, by simp, by simp [hc0],
        fun _ => by simp [hm], hf0⟩
    · rw [if_neg h0]
      exact ⟨⟨hcan.hs, hcan.mgmt, hcan.opcode, hcan.ackNum, hcan.seqNum, by simpa [hb0] using hcan.msgLen⟩,
        by simp [hb0, h0], by simp [h0], fun h => absurd h h0, hf0⟩
  obtain ⟨hc1, hc2, hc3, hc4, hc5⟩ := hHc
  refine ⟨?_, ?_, ?_, ?_, by omega, ?_, by omega, ?_⟩
  · rw [← hh.1]
    split
    · exact ⟨hc1.hs, hc1.mgmt, hc1.opcode, hc1.ackNum, hc1.seqNum, hc1.msgLen⟩
    · exact hc1
  · rw [← hh.1]; split <;> simp [hc2]
  · rw [← hh.1]; split <;> simp [hc3]
  · intro h; rw [← hh.1]; split <;> simp [hc4 h]
  · rw [hpl, ← hh.2]
  · rw [← hh.1]
    split
    · rename_i hce; simp; omega
    · rename_i hce; simp [hc5]; omega


theorem prepTxData_inv {s : Session} {data : List Nat} {off now : Nat} {s' : Session} {seg : List Nat}
    {off' : Nat} (hok : s.prepTxData data off now = .ok (s', seg, off')) :
    (seg = [] ∧ off' = off ∧ s' = s) ∨
    (∃ h p, s.buildSegment data off = .ok (h, p) ∧ seg = h.encode ++ p ∧ off' = off + p.length) := by
  unfold Session.prepTxData at hok
  split at hok
  · left
    have hh := Prod.mk.inj (Except.ok.inj hok)
    have h2 := Prod.mk.inj hh.2
    exact ⟨h2.1.symm, h2.2.symm, hh.1.symm⟩
  · right
    cases hb : s.buildSegment data off with
    | error e => rw [hb] at hok; cases hok
    | ok hp =>
      rw [hb] at hok
      obtain ⟨h, p⟩ := hp
      simp only at hok
      split at hok
      · cases hok
      · split at hok
        · cases hok
        · split at hok
          · cases hok
          · have hh := Prod.mk.inj (Except.ok.inj hok)
            have h2 := Prod.mk.inj hh.2
            exact ⟨h, p, rfl, h2.1.symm, h2.2.symm⟩

/-- **Representation of the sending side**: `tx` is the specification-side reassembly of the data
segments emitted so far, `sub` the messages accepted by `send`: everything submitted is either
completely on the wire (`tx.done`) or is the SDU in progress, of which exactly the first `off`
bytes are on the wire. -/
structure TxRep (e : End) (tx : Spec.Reasm) (sub : List (List Nat)) : Prop where
  done : tx.done ++ (if e.sdu = [] then [] else [e.sdu]) = sub
  cur : tx.cur = e.sdu.take e.off
  rem : tx.remaining = (if e.off = 0 then 0 else e.sdu.length - e.off)
  offLt : e.sdu ≠ [] → e.off < e.sdu.length
  offZ : e.sdu = [] → e.off = 0

theorem feedSeg_encode (tx : Spec.Reasm) (h : Hdr) (hc : h.Canon) (p : List Nat) :
    feedSeg tx (h.encode ++ p) = tx.feed h p := by
  unfold feedSeg
  rw [decode_encode h hc p]
  simp [hc.hs]

theorem dataStep_tx {e : End} (he : EInv e) {tx : Spec.Reasm} {sub : List (List Nat)} (ht : TxRep e tx sub)
    {now : Nat} {e' : End} {seg : List Nat} (hok : e.dataStep now = .ok (e', seg)) :
    TxRep e' (if seg.length > 0 then feedSeg tx seg else tx) sub ∧
    (seg.length > 0 → ∃ h p, decodeHdr seg = .ok (h, p) ∧ h.hs = false) := by
  unfold End.dataStep at hok
  split at hok
  · rename_i hc
    simp at hc
    obtain ⟨hne, hest⟩ := hc
    cases h2 : e.s.prepTxData e.sdu e.off now with
    | error f => rw [h2] at hok; cases hok
    | ok r =>
      rw [h2] at hok
      obtain ⟨s2, sg, off2⟩ := r
      simp only at hok
      rcases prepTxData_inv h2 with ⟨h0, h1, _⟩ | ⟨h, p, hb, hsg, hoff2⟩
      · -- window full: nothing sent
        subst h0
        simp only [List.length_nil, Nat.lt_irrefl, if_false] at hok
        have hh := Prod.mk.inj (Except.ok.inj hok)
        rw [← hh.1, ← hh.2]
        simp only [List.length_nil, Nat.lt_irrefl, if_false]
        exact ⟨⟨ht.done, ht.cur, ht.rem, ht.offLt, ht.offZ⟩, fun h => by simp at h⟩
      · have hmtu := (he.s.est hest).1
        have hofflt := ht.offLt hne
        obtain ⟨hcan, hbeg, hcont, hml, hpl, hpe, hle, hfin⟩ :=
          buildSegment_spec he.s hne hofflt he.len hmtu hb
        have hsgl : sg.length > 0 := by
          rw [hsg]; simp; omega
        simp only [hsgl, if_true] at hok
        have hfs : feedSeg tx sg = tx.feed h p := by rw [hsg]; exact feedSeg_encode tx h hcan p
        have hdec : ∃ h' p', decodeHdr sg = .ok (h', p') ∧ h'.hs = false :=
          ⟨h, p, by rw [hsg]; exact decode_encode h hcan p, hcan.hs⟩
        have htk : e.sdu.take (e.off + p.length) = e.sdu.take e.off ++ p := by
          rw [List.take_add]; rw [← hpe]
        by_cases hend : off2 = e.sdu.length
        · -- last segment of the SDU
          simp only [hend, if_true] at hok
          have hh := Prod.mk.inj (Except.ok.inj hok)
          rw [← hh.1, ← hh.2]
          simp only [hsgl, if_true]
          refine ⟨?_, fun _ => hdec⟩
          rw [hfs]
          have hfin' : h.fin = true := by rw [hfin]; simp; omega
          have hfull : e.sdu.take e.off ++ p = e.sdu := by
            rw [← htk]; apply List.take_of_length_le; omega
          have hcur : (if h.beg = true then p else tx.cur ++ p) = e.sdu := by
            by_cases h0 : e.off = 0
            · have : h.beg = true := by rw [hbeg]; simp [h0]
              simp only [this, if_true]
              rw [h0] at hfull; simpa using hfull
            · have : h.beg = false := by rw [hbeg]; simp [h0]
              simp only [this, Bool.false_eq_true, if_false]
              rw [ht.cur]; exact hfull
          have hfeed : tx.feed h p = { cur := [], remaining := 0, done := tx.done ++ [e.sdu] } := by
            unfold Spec.Reasm.feed
            simp only [hfin', if_true, hcur]
            have : e.sdu.isEmpty = false := by simp [hne]
            simp [this]
          rw [hfeed]
          exact { done := by
                    have := ht.done; simp only [hne, if_false] at this
                    simpa using this
                  cur := by simp
                  rem := by simp
                  offLt := fun h => absurd rfl h
                  offZ := fun _ => rfl }
        · simp only [hend, if_false] at hok
          have hh := Prod.mk.inj (Except.ok.inj hok)
          rw [← hh.1, ← hh.2]
          simp only [hsgl, if_true]
          refine ⟨?_, fun _ => hdec⟩
          rw [hfs]
          have hfin' : h.fin = false := by rw [hfin]; simp; omega
          have hfeed : tx.feed h p = { cur := e.sdu.take off2, remaining := e.sdu.length - off2, done := tx.done } := by
            unfold Spec.Reasm.feed
            simp only [hfin', Bool.false_eq_true, if_false]
            by_cases h0 : e.off = 0
            · have hb1 : h.beg = true := by rw [hbeg]; simp [h0]
              simp only [hb1, if_true]
              have : h.msgLen = e.sdu.length := hml h0
              rw [hoff2, h0, this]
              rw [h0] at htk
              simp only [Nat.zero_add] at htk ⊢
              rw [htk]; simp
            · have hb1 : h.beg = false := by rw [hbeg]; simp [h0]
              simp only [hb1, Bool.false_eq_true, if_false]
              rw [ht.cur, ht.rem, hoff2, htk]
              simp only [h0, if_false]
              congr 1; omega
          rw [hfeed]
          have hoff2pos : off2 ≠ 0 := by omega
          exact { done := ht.done
                  cur := rfl
                  rem := by simp [hoff2pos]
                  offLt := fun _ => by show off2 < e.sdu.length; omega
                  offZ := fun h => absurd h hne }
  · have hh := Prod.mk.inj (Except.ok.inj hok)
    rw [← hh.1, ← hh.2]
    simp only [List.length_nil, Nat.lt_irrefl, if_false]
    exact ⟨ht, fun h => by simp at h⟩


theorem txRep_congr {e e' : End} {tx : Spec.Reasm} {sub : List (List Nat)} (h1 : e'.sdu = e.sdu)
    (h2 : e'.off = e.off) (ht : TxRep e tx sub) : TxRep e' tx sub := by
  constructor
  · rw [h1]; exact ht.done
  · rw [h1, h2]; exact ht.cur
  · rw [h1, h2]; exact ht.rem
  · rw [h1, h2]; exact ht.offLt
  · rw [h1, h2]; exact ht.offZ

theorem feed_ack_only (tx : Spec.Reasm) (h : Hdr) (hb : h.beg = false) (hf : h.fin = false) :
    tx.feed h [] = tx := by
  unfold Spec.Reasm.feed
  simp [hb, hf]

theorem ackStep_tx {e : End} (he : EInv e) {tx : Spec.Reasm} {sub : List (List Nat)} (ht : TxRep e tx sub)
    {now : Nat} {e' : End} {seg : List Nat} (hok : e.ackStep now = .ok (e', seg)) :
    TxRep e' (if seg.length > 0 then feedSeg tx seg else tx) sub ∧
    (seg.length > 0 → ∃ h p, decodeHdr seg = .ok (h, p) ∧ h.hs = false) := by
  unfold End.ackStep at hok
  split at hok
  · cases h2 : e.s.prepTxData [] 0 now with
    | error f => rw [h2] at hok; cases hok
    | ok r =>
      rw [h2] at hok
      obtain ⟨s2, sg, off2⟩ := r
      have hh := Prod.mk.inj (Except.ok.inj hok)
      rw [← hh.1, ← hh.2]
      rcases prepTxData_inv h2 with ⟨h0, _, _⟩ | ⟨h, p, hb, hsg, _⟩
      · subst h0
        simp only [List.length_nil, Nat.lt_irrefl, if_false]
        exact ⟨txRep_congr (e := e) rfl rfl ht, fun h => by simp at h⟩
      · obtain ⟨hcan, hb0, hf0, _⟩ := baseHdr_canon e.s he.s
        unfold Session.buildSegment at hb
        simp only [List.isEmpty_nil, Bool.not_true, Bool.false_eq_true, if_false] at hb
        have hh2 := Prod.mk.inj (Except.ok.inj hb)
        have hsg' : sg = e.s.baseHdr.encode ++ [] := by rw [hsg, ← hh2.1, ← hh2.2]
        have hfs : feedSeg tx sg = tx := by
          rw [hsg', feedSeg_encode tx _ hcan, feed_ack_only tx _ hb0 hf0]
        have hdec : ∃ h' p', decodeHdr sg = .ok (h', p') ∧ h'.hs = false :=
          ⟨_, _, by rw [hsg']; exact decode_encode _ hcan [], hcan.hs⟩
        refine ⟨?_, fun _ => hdec⟩
        split
        · rw [hfs]; exact txRep_congr (e := e) rfl rfl ht
        · exact txRep_congr (e := e) rfl rfl ht
  · have hh := Prod.mk.inj (Except.ok.inj hok)
    rw [← hh.1, ← hh.2]
    simp only [List.length_nil, Nat.lt_irrefl, if_false]
    exact ⟨ht, fun h => by simp at h⟩

/-- the pump of an end whose handshake is done: what it emits is a data / ack segment, and the
sender-side representation is maintained -/
theorem endOutgoing_tx {e : End} (he : EInv e) (hnp : e.s.handshakePending = false) {tx : Spec.Reasm}
    {sub : List (List Nat)} (ht : TxRep e tx sub) {now : Nat} {e' : End} {seg : List Nat}
    (hok : e.processOutgoing now = .ok (e', seg)) :
    TxRep e' (if seg.length > 0 then feedSeg tx seg else tx) sub ∧
    (seg.length > 0 → ∃ h p, decodeHdr seg = .ok (h, p) ∧ h.hs = false) ∧
    e'.s.handshakePending = false := by
  have c0 := endOutgoing_clean e he now
  rw [hok] at c0
  simp only [Clean, TxOk] at c0
  have key : TxRep e' (if seg.length > 0 then feedSeg tx seg else tx) sub ∧
      (seg.length > 0 → ∃ h p, decodeHdr seg = .ok (h, p) ∧ h.hs = false) := by
    unfold End.processOutgoing at hok
    have c1 := prepTxHandshake_clean e.s he.s e.gattMtu now
    cases h1 : e.s.prepTxHandshake e.gattMtu now with
    | error f => rw [h1] at hok; cases hok
    | ok r1 =>
      rw [h1] at hok c1
      simp only [Clean] at c1
      have hr1 := c1.2.2.2.1 hnp
      rw [hr1] at hok
      simp only [List.length_nil, Nat.lt_irrefl, if_false] at hok
      have he1 : ({ e with s := e.s } : End) = e := rfl
      rw [he1] at hok
      have c2 := dataStep_clean e he hnp now
      cases h2 : e.dataStep now with
      | error f => rw [h2] at hok; cases hok
      | ok r2 =>
        rw [h2] at hok c2
        obtain ⟨e2, sg⟩ := r2
        simp only [Clean, TxOk] at c2
        obtain ⟨ht2, hd2⟩ := dataStep_tx he ht h2
        simp only at hok
        by_cases hsl : sg.length > 0
        · simp only [hsl, if_true] at hok
          have hh := Prod.mk.inj (Except.ok.inj hok)
          rw [← hh.1, ← hh.2]
          exact ⟨ht2, hd2⟩
        · simp only [hsl, if_false] at hok
          simp only [hsl, if_false] at ht2
          exact ackStep_tx c2.1 ht2 hok
  exact ⟨key.1, key.2, c0.2.2⟩

theorem endSend_tx {e : End} {tx : Spec.Reasm} {sub : List (List Nat)} (ht : TxRep e tx sub)
    {m : List Nat} {e' : End} {ok : Bool} (hok : e.send m = .ok (e', ok)) :
    TxRep e' tx (if ok then sub ++ [m] else sub) := by
  unfold End.send at hok
  split at hok
  · cases hok
  · rename_i hc
    simp at hc
    split at hok
    · rename_i hemp
      have hh := Prod.mk.inj (Except.ok.inj hok)
      rw [← hh.1, ← hh.2]
      have hsdu : e.sdu = [] := by simpa using hemp
      have hmne : m ≠ [] := hc.1
      simp only [if_true]
      have hd := ht.done
      rw [hsdu] at hd
      simp only [if_true, List.append_nil] at hd
      have hc0 := ht.cur
      have hr0 := ht.rem
      rw [ht.offZ hsdu] at hc0 hr0
      exact { done := by simp only [hmne, if_false]; rw [hd]
              cur := by simpa using hc0
              rem := by simpa using hr0
              offLt := fun _ => by
                show 0 < m.length
                exact List.length_pos_iff.mpr hmne
              offZ := fun _ => rfl }
    · have hh := Prod.mk.inj (Except.ok.inj hok)
      rw [← hh.1, ← hh.2]
      simpa using ht


/-! ## One direction of an established link -/

def feedAll (rs : Spec.Reasm) (q : List (List Nat)) : Spec.Reasm := q.foldl feedSeg rs

/-- no handshake segment is travelling -/
def NoHs (q : List (List Nat)) : Prop := ∀ seg ∈ q, ∃ h p, decodeHdr seg = .ok (h, p) ∧ h.hs = false

theorem feedSeg_done (rs : Spec.Reasm) (seg : List Nat) : ∃ l, (feedSeg rs seg).done = rs.done ++ l := by
  unfold feedSeg
  split
  · split
    · exact ⟨[], by simp⟩
    · exact feed_done _ _ _
  · exact ⟨[], by simp⟩

theorem feedAll_done (q : List (List Nat)) : ∀ rs : Spec.Reasm, ∃ l, (feedAll rs q).done = rs.done ++ l := by
  induction q with
  | nil => intro rs; exact ⟨[], by simp [feedAll]⟩
  | cons seg q ih =>
    intro rs
    obtain ⟨l1, h1⟩ := feedSeg_done rs seg
    obtain ⟨l2, h2⟩ := ih (feedSeg rs seg)
    refine ⟨l1 ++ l2, ?_⟩
    show (feedAll (feedSeg rs seg) q).done = _
    rw [h2, h1]; simp

theorem feedAll_snoc (rs : Spec.Reasm) (q : List (List Nat)) (seg : List Nat) :
    feedAll rs (q ++ [seg]) = feedSeg (feedAll rs q) seg := by
  simp [feedAll]

theorem ghostRx_noHs (rs : Spec.Reasm) (n : Nat) (seg : List Nat)
    (h : ∃ h p, decodeHdr seg = .ok (h, p) ∧ h.hs = false) :
    ghostRx rs n seg = (feedSeg rs seg, n) := by
  obtain ⟨hd, p, hdec, hhs⟩ := h
  simp [ghostRx, feedSeg, hdec, hhs]

@[simp] theorem get_set_same (l : LMon) (x : Side) (m : Mon) : (l.set x m).get x = m := by cases x <;> rfl
@[simp] theorem get_set_other (l : LMon) (x : Side) (m : Mon) : (l.set x m).get x.other = l.get x.other := by
  cases x <;> rfl
@[simp] theorem inq_set (l : LMon) (x y : Side) (m : Mon) : (l.set x m).inq y = l.inq y := by
  cases x <;> cases y <;> rfl
@[simp] theorem get_setInq (l : LMon) (x y : Side) (q : List (List Nat)) : (l.setInq x q).get y = l.get y := by
  cases x <;> cases y <;> rfl
@[simp] theorem inq_setInq_same (l : LMon) (x : Side) (q : List (List Nat)) : (l.setInq x q).inq x = q := by
  cases x <;> rfl
@[simp] theorem inq_setInq_other (l : LMon) (x : Side) (q : List (List Nat)) :
    (l.setInq x.other q).inq x = l.inq x := by cases x <;> rfl
@[simp] theorem inq_setInq_otherSide (l : LMon) (x : Side) (q : List (List Nat)) :
    (l.setInq x q).inq x.other = l.inq x.other := by cases x <;> rfl
@[simp] theorem other_other (x : Side) : x.other.other = x := by cases x <;> rfl

/-- the part of the steady-state invariant that belongs to end `x` and the direction `x → x.other` -/
structure DirInv (l : LMon) (x : Side) : Prop where
  pend : (l.get x).e.s.handshakePending = false
  tx : TxRep (l.get x).e (l.get x).tx (l.get x).submitted
  noHs : NoHs (l.inq x.other)
  q : feedAll (l.get x.other).rs (l.inq x.other) = (l.get x).tx

/-- both handshakes are done and nothing but data / ack segments is travelling -/
def Steady (l : LMon) : Prop := ∀ x, DirInv l x


theorem processRx_data_pending {s : Session} {g : Option Nat} {data : List Nat} {now : Nat} {s' : Session}
    (hno : ∃ h p, decodeHdr data = .ok (h, p) ∧ h.hs = false)
    (hok : s.processRx g data now = .ok s') : s'.handshakePending = s.handshakePending := by
  obtain ⟨h, p, hdec, hhs⟩ := hno
  unfold Session.processRx at hok
  rw [hdec] at hok
  simp only at hok
  unfold Session.processRxSeg at hok
  simp only [hhs, Bool.false_eq_true, if_false] at hok
  unfold Session.processRxData at hok
  split at hok
  · cases hok
  · split at hok
    · cases hok
    · split at hok
      · cases hok
      · have := Except.ok.inj hok
        rw [← this]

theorem endIncoming_frame {e : End} {data : List Nat} {now : Nat} {e' : End}
    (hok : e.processIncoming data now = .ok e') : e'.sdu = e.sdu ∧ e'.off = e.off ∧
      ((∃ h p, decodeHdr data = .ok (h, p) ∧ h.hs = false) → e'.s.handshakePending = e.s.handshakePending) := by
  unfold End.processIncoming at hok
  cases h : e.s.processRx e.gattMtu data now with
  | error f => rw [h] at hok; cases hok
  | ok s' =>
    rw [h] at hok
    have := Except.ok.inj hok
    rw [← this]
    exact ⟨rfl, rfl, fun hno => processRx_data_pending hno h⟩

theorem endRecv_frame {e : End} {cap : Nat} {e' : End} {m : Option (List Nat)}
    (hok : e.recv cap = .ok (e', m)) : e'.sdu = e.sdu ∧ e'.off = e.off ∧
      e'.s.handshakePending = e.s.handshakePending := by
  unfold End.recv at hok
  split at hok
  · unfold Session.fetchMessage at hok
    cases h : e.s.recv.fetchMessage cap with
    | error f => rw [h] at hok; cases hok
    | ok r =>
      rw [h] at hok
      have hh := Prod.mk.inj (Except.ok.inj hok)
      rw [← hh.1]
      exact ⟨rfl, rfl, rfl⟩
  · have hh := Prod.mk.inj (Except.ok.inj hok)
    rw [← hh.1]; exact ⟨rfl, rfl, rfl⟩

theorem endSend_frame {e : End} {m : List Nat} {e' : End} {ok : Bool}
    (hok : e.send m = .ok (e', ok)) : e'.s = e.s := by
  unfold End.send at hok
  split at hok
  · cases hok
  · split at hok
    · have hh := Prod.mk.inj (Except.ok.inj hok); rw [← hh.1]
    · have hh := Prod.mk.inj (Except.ok.inj hok); rw [← hh.1]

/-- an operation of end `x` that touches neither queue and leaves `rs`, `tx`, `submitted`-vs-`sdu`
consistent preserves the steady state -/
theorem steady_set {l : LMon} (hst : Steady l) (x : Side) {m : Mon}
    (hp : m.e.s.handshakePending = false) (ht : TxRep m.e m.tx m.submitted)
    (hrs : m.rs = (l.get x).rs) (htx : m.tx = (l.get x).tx) : Steady (l.set x m) := by
  intro y
  by_cases hy : y = x
  · subst hy
    have d := hst y
    exact ⟨by simpa using hp, by simpa using ht, by simpa using d.noHs, by
      simp only [get_set_other, inq_set, get_set_same]; rw [htx]; exact d.q⟩
  · have hyo : y = x.other := by cases x <;> cases y <;> simp_all [Side.other]
    subst hyo
    have d := hst x.other
    refine ⟨by simpa using d.pend, by simpa using d.tx, by simpa using d.noHs, ?_⟩
    simp only [other_other, get_set_same, inq_set, get_set_other]
    rw [hrs]
    have := d.q
    simpa using this


theorem steady_step {l : LMon} (hl : LInv l) (hst : Steady l) {op : Op} {l' : LMon} {o : Out}
    (hok : l.step op = .ok (l', o)) : Steady l' := by
  cases op with
  | send x m =>
    simp only [LMon.step, Mon.step] at hok
    cases h : (l.get x).e.send m with
    | error f => rw [h] at hok; cases hok
    | ok r =>
      rw [h] at hok
      obtain ⟨e', ok⟩ := r
      have hh := Prod.mk.inj (Except.ok.inj hok)
      rw [← hh.1]
      have d := hst x
      apply steady_set hst x
      · show e'.s.handshakePending = false
        rw [endSend_frame h]; exact d.pend
      · exact endSend_tx d.tx h
      · rfl
      · rfl
  | poll x =>
    simp only [LMon.step, Mon.step] at hok
    cases h : (l.get x).e.processOutgoing l.now with
    | error f => rw [h] at hok; cases hok
    | ok r =>
      rw [h] at hok
      obtain ⟨e', seg⟩ := r
      have d := hst x
      obtain ⟨ht', hdec, hp'⟩ := endOutgoing_tx (hl.get x).1.e d.pend d.tx h
      simp only at hok
      by_cases hsl : seg.length > 0
      · simp only [hsl, if_true] at hok
        have hh := Prod.mk.inj (Except.ok.inj hok)
        rw [← hh.1]
        simp only [hsl, if_true] at ht'
        intro y
        by_cases hy : y = x
        · subst hy
          refine ⟨by simpa using hp', by simpa using ht', ?_, ?_⟩
          · simp only [inq_setInq_same]
            intro sg hsg
            rcases List.mem_append.mp hsg with h1 | h1
            · exact d.noHs sg (by simpa using h1)
            · have : sg = seg := by simpa using h1
              rw [this]; exact hdec hsl
          · simp only [inq_setInq_same, get_setInq, get_set_other, get_set_same, inq_set]
            rw [feedAll_snoc, d.q]
        · have hyo : y = x.other := by cases x <;> cases y <;> simp_all [Side.other]
          subst hyo
          have d2 := hst x.other
          refine ⟨by simpa using d2.pend, by simpa using d2.tx, ?_, ?_⟩
          · simp only [other_other, inq_setInq_other, inq_set]
            have := d2.noHs; simpa using this
          · simp only [other_other, inq_setInq_other, inq_set, get_setInq, get_set_same, get_set_other]
            have := d2.q; simpa using this
      · simp only [hsl, if_false] at hok
        have hh := Prod.mk.inj (Except.ok.inj hok)
        rw [← hh.1]
        simp only [hsl, if_false] at ht'
        exact steady_set hst x hp' ht' rfl rfl
  | deliver x =>
    simp only [LMon.step] at hok
    cases hq : l.inq x with
    | nil =>
      rw [hq] at hok
      have hh := Prod.mk.inj (Except.ok.inj hok)
      rw [← hh.1]; exact hst
    | cons seg rest =>
      rw [hq] at hok
      simp only [Mon.step] at hok
      cases h : (l.get x).e.processIncoming seg l.now with
      | error f => rw [h] at hok; cases hok
      | ok e' =>
        rw [h] at hok
        have hh := Prod.mk.inj (Except.ok.inj hok)
        rw [← hh.1]
        have d := hst x
        have d2 := hst x.other
        have hnoq : NoHs (seg :: rest) := by
          have := d2.noHs; simp only [other_other] at this; rw [hq] at this; exact this
        have hsegno := hnoq seg (by simp)
        obtain ⟨hf1, hf2, hf3⟩ := endIncoming_frame h
        rw [ghostRx_noHs _ _ _ hsegno]
        intro y
        by_cases hy : y = x
        · subst hy
          refine ⟨?_, ?_, ?_, ?_⟩
          · simp only [get_setInq, get_set_same]
            rw [hf3 hsegno]; exact d.pend
          · simp only [get_setInq, get_set_same]
            exact txRep_congr (e := (l.get y).e) hf1 hf2 d.tx
          · simp only [inq_setInq_otherSide, inq_set]; exact d.noHs
          · simp only [inq_setInq_otherSide, inq_set, get_setInq, get_set_other, get_set_same]
            exact d.q
        · have hyo : y = x.other := by cases x <;> cases y <;> simp_all [Side.other]
          subst hyo
          refine ⟨by simpa using d2.pend, by simpa using d2.tx, ?_, ?_⟩
          · simp only [other_other, inq_setInq_same]
            exact fun sg hsg => hnoq sg (by simp [hsg])
          · simp only [other_other, inq_setInq_same, get_setInq, get_set_same, get_set_other]
            have := d2.q
            simp only [other_other] at this
            rw [hq] at this
            exact this
  | tick n =>
    simp only [LMon.step] at hok
    have hh := Prod.mk.inj (Except.ok.inj hok)
    rw [← hh.1]
    intro y
    have d := hst y
    cases y <;> exact ⟨d.pend, d.tx, d.noHs, d.q⟩
  | fetch x cap =>
    simp only [LMon.step, Mon.step] at hok
    cases h : (l.get x).e.recv cap with
    | error f => rw [h] at hok; cases hok
    | ok r =>
      rw [h] at hok
      obtain ⟨e', mo⟩ := r
      have d := hst x
      obtain ⟨hf1, hf2, hf3⟩ := endRecv_frame h
      cases mo with
      | none =>
        have hh := Prod.mk.inj (Except.ok.inj hok)
        rw [← hh.1]
        exact steady_set hst x (by show e'.s.handshakePending = false; rw [hf3]; exact d.pend)
          (txRep_congr (e := (l.get x).e) hf1 hf2 d.tx) rfl rfl
      | some bb =>
        have hh := Prod.mk.inj (Except.ok.inj hok)
        rw [← hh.1]
        exact steady_set hst x (by show e'.s.handshakePending = false; rw [hf3]; exact d.pend)
          (txRep_congr (e := (l.get x).e) hf1 hf2 d.tx) rfl rfl

end Btp
