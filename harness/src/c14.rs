//! C14: a chunked answer carries the complete result exactly once.
//!
//! The REAL `InteractionModel` (device side: `Matter` transport + `Responder` + IM over a harness
//! cluster) answers read requests and subscribe requests (priming report) issued by a raw client
//! exchange over an in-process pipe.  The harness cluster lives on two endpoints (two data
//! versions), has 16 octet-string attributes, 6 list-of-octet-string attributes and two events; the
//! generator picks per request the value lengths (just fit / just do not fit / lists longer than a
//! message / values longer than a message), the events in the queue (priority, id, payload
//! length), data-version filters, event filters, the event paths (wildcard, one event, paths that
//! do not validate) and the length of the transmit buffer (hook `im::verif_tx`).  Every
//! `ReportData` chunk is captured raw, decoded with the real TLV reader (step capped), and
//! rendered as: total size, MoreChunks / SuppressResponse flags, well-formedness, subscription id,
//! and per attribute / event report its kind, id, encoded size, value length(s) and whether the
//! value bytes are the configured ones.
//!
//! op:   `rd|sp [b<cap>] <item>… [f<1|2><m|x>]… [q<W|1>] [z<n>] [e<c|i|d><1|2>:<len>]… [m<min>]… [p<k>:<c|i|d><1|2>:<len>]…`
//!       `p<k>:…` = LIVE QUEUE: after message `k` of the answer (MoreChunks set) was received and before it is
//!       acknowledged with the `StatusResponse` the device waits for, push that event (tokens in ascending `k`)
//!       item = `s<attr>:<len>` | `l<k>:<len>,<len>…` | `l<k>:-` (endpoint 1; `S` / `L`: endpoint 2) | `u`
//! out:  `<status> | <event queue: n,n,…@<ms>@<debug>,<info>,<critical>,<N>[@L<k>=n,n,…+L<k>=…] |-> | <chunk>;<chunk>…`
//!       (`L<k>=` the queue after the pushes that followed message `k`)
//!       chunk = `<size>/<more><suppress><wf>/<subscription id|->/<piece>,…|-/<event>,…|-`
//!       piece = `S<id>:<enc>:<len>:<ok>` | `W<id>:<enc>:<lens|->:<ok>` | `E<id>:<enc>` |
//!               `I<id>:<enc>:<len>:<ok>` | `X<id>:<enc>:<code>` | `?`
//!       event = `D<number>:<enc>:<len>:<ok>` | `T<endpoint>:<enc>:<code>` | `?`
#[path = "c14_e2e.rs"]
mod e2e;

use core::future::Future;
use core::pin::pin;
use core::task::{Context, Poll, RawWaker, RawWakerVTable, Waker};

use embassy_futures::select::{select, Either};

use crate::proto::{parse_cases, Case, Out};
use crate::rng::Rng;
use crate::Args;

use e2e::{ep_idx, ev_pattern, pattern, Runner, CLUSTER_ID, DATAVERS, ENDPOINT, ENDPOINT2, N_LIST, N_SCALAR, SIZES};
use rs_matter::crypto::Crypto;
use rs_matter::error::Error;
use rs_matter::im::{
    ClusterPath, DataVersionFilter, EventFilter, EventPath, EventPriority, IMStatusCode, OpCode, StatusResp,
};
use rs_matter::persist::{DummyKvBlobStore, SharedKvBlobStore};
use rs_matter::tlv::{TLVElement, TLVTag, TLVWrite, ToTLV};
use rs_matter::transport::exchange::MAX_EXCHANGE_TX_BUF_SIZE;
use rs_matter::utils::cell::RefCell;
use rs_matter::utils::sync::blocking::Mutex;

fn noop_waker() -> Waker {
    fn clone(_: *const ()) -> RawWaker {
        RawWaker::new(core::ptr::null(), &VTABLE)
    }
    fn noop(_: *const ()) {}
    static VTABLE: RawWakerVTable = RawWakerVTable::new(clone, noop, noop, noop);
    unsafe { Waker::from_raw(RawWaker::new(core::ptr::null(), &VTABLE)) }
}

/// poll a future at most `max` times (no wall clock involved: the mock time driver never advances)
fn run_bounded<F: Future>(f: F, max: u64) -> Option<F::Output> {
    let mut f = pin!(f);
    let w = noop_waker();
    let mut cx = Context::from_waker(&w);
    for _ in 0..max {
        if let Poll::Ready(v) = f.as_mut().poll(&mut cx) {
            return Some(v);
        }
    }
    None
}

#[derive(Clone, Debug)]
enum Item {
    Scalar(u16, u32, usize),
    List(u16, u32, Vec<usize>),
    /// a concrete path to an attribute the cluster does not have (answered with a status)
    Unknown,
}

#[derive(Clone, Debug, Default)]
struct Op {
    subscribe: bool,
    /// `sr`: subscribe (priming with empty values, not rendered), then change the marked
    /// attributes / push the events and render the subscription report the device sends
    report: bool,
    /// per item: did it change after the priming (`sr` only; `n` prefix = subscribed, unchanged)
    changed: Vec<bool>,
    cap: Option<usize>,
    items: Vec<Item>,
    /// data version filter for endpoint 1 / 2: `Some(true)` = the cluster's version
    filters: [Option<bool>; 2],
    /// event paths: `W` wildcard, `1` event 1 of the harness cluster
    query: Option<char>,
    /// number of concrete event paths that do not validate
    invalid: usize,
    /// events pushed before the request: priority, event id, payload length
    events: Vec<(u8, u32, usize)>,
    mins: Vec<u64>,
    /// live pushes: after message `k` (1-based) of the answer: priority, event id, payload length
    live: Vec<(usize, u8, u32, usize)>,
}

fn parse_op(op: &str) -> Op {
    let mut o = Op::default();
    for (i, w) in op.split_whitespace().enumerate() {
        if i == 0 {
            o.subscribe = w == "sp" || w == "sr";
            o.report = w == "sr";
            continue;
        }
        let (w, changed) = match w.strip_prefix('n') {
            Some(x) => (x, false),
            None => (w, true),
        };
        if w.is_empty() {
            continue;
        }
        let (kind, rest) = w.split_at(1);
        match kind {
            "b" => o.cap = rest.parse().ok(),
            "f" => {
                let e = if rest.starts_with('2') { 1 } else { 0 };
                o.filters[e] = Some(rest.ends_with('m'));
            }
            "q" => o.query = rest.chars().next(),
            "z" => o.invalid = rest.parse::<usize>().unwrap_or(0).min(8),
            "m" => o.mins.push(rest.parse().unwrap_or(0)),
            "e" => {
                let mut it = rest.splitn(2, ':');
                let head = it.next().unwrap_or("c1");
                let len: usize = it.next().and_then(|x| x.parse().ok()).unwrap_or(0);
                let prio = match head.chars().next() {
                    Some('d') => 0,
                    Some('i') => 1,
                    _ => 2,
                };
                let evid = if head.ends_with('2') { 2 } else { 1 };
                o.events.push((prio, evid, len));
            }
            "p" => {
                let f: Vec<&str> = rest.split(':').collect();
                if f.len() == 3 {
                    let prio = match f[1].chars().next() {
                        Some('d') => 0,
                        Some('i') => 1,
                        _ => 2,
                    };
                    let evid = if f[1].ends_with('2') { 2 } else { 1 };
                    o.live.push((f[0].parse().unwrap_or(0), prio, evid, f[2].parse().unwrap_or(0)));
                }
            }
            "u" => {
                o.items.push(Item::Unknown);
                o.changed.push(changed);
            }
            "s" | "S" | "l" | "L" => {
                let ep = if kind == "S" || kind == "L" { ENDPOINT2 } else { ENDPOINT };
                let mut it = rest.splitn(2, ':');
                let attr: u32 = it.next().and_then(|x| x.parse().ok()).unwrap_or(0);
                let val = it.next().unwrap_or("0");
                if kind == "s" || kind == "S" {
                    o.items.push(Item::Scalar(ep, attr % N_SCALAR, val.parse().unwrap_or(0)));
                } else {
                    let lens = if val == "-" { Vec::new() } else { val.split(',').filter_map(|x| x.parse().ok()).collect() };
                    o.items.push(Item::List(ep, N_SCALAR + attr % N_LIST, lens));
                }
                o.changed.push(changed);
            }
            _ => {}
        }
    }
    // the pushes happen in the order of the messages they follow
    o.live.sort_by_key(|l| l.0);
    o
}

fn configure(items: &[Item]) {
    let mut s = SIZES.lock().unwrap();
    for it in items {
        match it {
            Item::Scalar(ep, a, len) => s.scalars[ep_idx(*ep)][*a as usize] = *len,
            Item::List(ep, a, lens) => s.lists[ep_idx(*ep)][(*a - N_SCALAR) as usize] = lens.clone(),
            Item::Unknown => {}
        }
    }
}

type NextIdx = [[usize; N_LIST as usize]; 2];

/// decode one `AttributeReportIB` (an anonymous struct) with the real TLV reader
fn render_piece(e: &TLVElement<'_>, raw_len: usize, next_idx: &mut NextIdx) -> String {
    let mut inner = || -> Result<String, Error> {
        let s = e.structure()?;
        if let Some(data) = s.find_ctx(1).ok().filter(|e| !e.is_empty()) {
            let d = data.structure()?;
            let path = d.find_ctx(1)?.list()?;
            let attr = path.find_ctx(4)?.u32()?;
            let ep = path.find_ctx(2)?.u16()?;
            let cl = path.find_ctx(3)?.u32()?;
            if (ep != ENDPOINT && ep != ENDPOINT2) || cl != CLUSTER_ID {
                return Ok("?".into());
            }
            let e = ep_idx(ep);
            let off = 1000 * e as u32;
            let pid = attr + 40 * e as u32;
            let li = path.find_ctx(5).ok().filter(|e| !e.is_empty());
            let val = d.find_ctx(2)?;
            if attr < N_SCALAR {
                let v = val.str()?;
                let ok = v == pattern(pid, 0, v.len()).as_slice();
                Ok(format!("S{}:{}:{}:{}", off + attr, raw_len, v.len(), ok as u8))
            } else if attr >= N_SCALAR + N_LIST {
                Ok("?".into())
            } else if let Some(li) = li {
                // list index null = append one element
                if li.null().is_ok() {
                    let v = val.str()?;
                    let slot = &mut next_idx[e][(attr - N_SCALAR) as usize];
                    let ok = v == pattern(pid, *slot, v.len()).as_slice();
                    *slot += 1;
                    Ok(format!("I{}:{}:{}:{}", off + 100 + attr - N_SCALAR, raw_len, v.len(), ok as u8))
                } else {
                    Ok("?".into())
                }
            } else {
                let arr = val.array()?;
                let mut lens = Vec::new();
                let mut ok = true;
                let mut steps = 0usize;
                for (k, el) in arr.iter().enumerate() {
                    steps += 1;
                    if steps > 4096 {
                        return Ok("?".into());
                    }
                    let v = el?.str()?;
                    ok &= v == pattern(pid, k, v.len()).as_slice();
                    lens.push(v.len().to_string());
                }
                if lens.is_empty() {
                    next_idx[e][(attr - N_SCALAR) as usize] = 0;
                    Ok(format!("E{}:{}", off + 100 + attr - N_SCALAR, raw_len))
                } else {
                    Ok(format!("W{}:{}:{}:{}", off + 100 + attr - N_SCALAR, raw_len, lens.join("+"), ok as u8))
                }
            }
        } else if let Some(st) = s.find_ctx(0).ok().filter(|e| !e.is_empty()) {
            let d = st.structure()?;
            let path = d.find_ctx(0)?.list()?;
            let attr = path.find_ctx(4)?.u32()?;
            let ep = path.find_ctx(2)?.u16()?;
            let code = d.find_ctx(1)?.structure()?.find_ctx(0)?.u8()?;
            let off = 1000 * ep_idx(ep) as u32;
            let id = if attr >= N_SCALAR && attr < N_SCALAR + N_LIST { off + 100 + attr - N_SCALAR } else { off + attr };
            Ok(format!("X{}:{}:{}", id, raw_len, code))
        } else {
            Ok("?".into())
        }
    };
    inner().unwrap_or_else(|e| format!("?{:?}", e.code()))
}

/// decode one `EventReportIB`
fn render_event(e: &TLVElement<'_>, raw_len: usize) -> String {
    let inner = || -> Result<String, Error> {
        let s = e.structure()?;
        if let Some(data) = s.find_ctx(1).ok().filter(|e| !e.is_empty()) {
            let d = data.structure()?;
            let path = d.find_ctx(0)?.list()?;
            let ep = path.find_ctx(1)?.u16()?;
            let cl = path.find_ctx(2)?.u32()?;
            if ep != ENDPOINT || cl != CLUSTER_ID {
                return Ok("?".into());
            }
            let num = d.find_ctx(1)?.u64()?;
            let v = d.find_ctx(7)?.str()?;
            let ok = v == ev_pattern(num as usize, v.len()).as_slice();
            Ok(format!("D{}:{}:{}:{}", num, raw_len, v.len(), ok as u8))
        } else if let Some(st) = s.find_ctx(0).ok().filter(|e| !e.is_empty()) {
            let d = st.structure()?;
            let path = d.find_ctx(0)?.list()?;
            let ep = path.find_ctx(1)?.u16()?;
            let code = d.find_ctx(1)?.structure()?.find_ctx(0)?.u8()?;
            Ok(format!("T{}:{}:{}", ep, raw_len, code))
        } else {
            Ok("?".into())
        }
    };
    inner().unwrap_or_else(|e| format!("?{:?}", e.code()))
}

struct ChunkInfo {
    more: bool,
    text: String,
}

fn render_chunk(payload: &[u8], next_idx: &mut NextIdx) -> ChunkInfo {
    let mut more = false;
    let mut suppress = false;
    let mut wf = true;
    let mut sub: Option<u32> = None;
    let mut pieces: Vec<String> = Vec::new();
    let mut events: Vec<String> = Vec::new();
    let root = TLVElement::new(payload);
    let parsed = (|| -> Result<(), Error> {
        let s = root.structure()?;
        // top-level fields, in order (step capped: the iterator repeats errors on malformed input)
        let mut fields: Vec<TLVElement<'_>> = Vec::new();
        for (n, el) in s.iter().enumerate() {
            if n > payload.len() + 2 {
                wf = false;
                break;
            }
            fields.push(el?);
        }
        // the struct must span the whole payload: after the last field only its end-of-container
        let mut seen_rev = false;
        let mut last_tag = -1i32;
        for (i, f) in fields.iter().enumerate() {
            // what follows this field: the next field, or the closing byte of the message
            let after = fields.get(i + 1).map(|n| n.raw_data().len()).unwrap_or(1);
            let tag = f.ctx()?;
            // fields in tag order, none twice
            if tag as i32 <= last_tag {
                wf = false;
            }
            last_tag = tag as i32;
            match tag {
                0 => sub = Some(f.u32()?),
                3 => more = f.bool()?,
                4 => suppress = f.bool()?,
                0xff => {
                    seen_rev = true;
                    if i + 1 != fields.len() || f.raw_data().len() != 3 + 1 {
                        wf = false;
                    }
                }
                1 | 2 => {
                    let arr = f.array()?;
                    let mut items: Vec<TLVElement<'_>> = Vec::new();
                    for (n, el) in arr.iter().enumerate() {
                        if n > payload.len() + 2 {
                            wf = false;
                            break;
                        }
                        items.push(el?);
                    }
                    for (j, it) in items.iter().enumerate() {
                        let start = it.raw_data().len();
                        // the last report is followed by the array's end-of-container
                        let end = items.get(j + 1).map(|n| n.raw_data().len()).unwrap_or(after + 1);
                        let len = start.saturating_sub(end);
                        if tag == 1 {
                            pieces.push(render_piece(it, len, next_idx));
                        } else {
                            events.push(render_event(it, len));
                        }
                    }
                }
                _ => wf = false,
            }
        }
        if !seen_rev {
            wf = false;
        }
        Ok(())
    })();
    if parsed.is_err() {
        wf = false;
    }
    let join = |v: &Vec<String>| if v.is_empty() { "-".to_string() } else { v.join(",") };
    ChunkInfo {
        more,
        text: format!(
            "{}/{}{}{}/{}/{}/{}",
            payload.len(),
            more as u8,
            suppress as u8,
            wf as u8,
            sub.map(|s| s.to_string()).unwrap_or_else(|| "-".into()),
            join(&pieces),
            join(&events)
        ),
    }
}

/// more chunks than any request of the generator can need: the interaction does not end
const MAX_CHUNKS: usize = 1500;

/// what the client has seen of an interaction (kept outside the future: a hang drops the future)
#[derive(Default)]
struct Seen {
    queue: String,
    chunks: Vec<String>,
    /// live pushes: `L<k>=<queue after them>`
    live: Vec<String>,
    /// live pushes done / events they evicted
    live_pushed: usize,
    live_evicted: usize,
}

/// value sizes of the op (or empty values), transmit buffer length, an empty event queue
fn prepare<C: Crypto>(runner: &Runner<C>, op: &Op, empty_values: bool) {
    if empty_values {
        let zero: Vec<Item> = op
            .items
            .iter()
            .map(|it| match it {
                Item::Scalar(ep, a, _) => Item::Scalar(*ep, *a, 0),
                Item::List(ep, a, _) => Item::List(*ep, *a, Vec::new()),
                Item::Unknown => Item::Unknown,
            })
            .collect();
        configure(&zero);
    } else {
        configure(&op.items);
    }
    rs_matter::im::verif_tx::set_tx_buf_size(op.cap.unwrap_or(usize::MAX));
    runner.state.events().verif_reset();
}

/// push one event: the n-th pushed event (0-based) gets number n + 1 whether or not it fits the queue
fn push_one<C: Crypto>(runner: &Runner<C>, n: usize, prio: u8, evid: u32, len: usize) {
    let events = runner.state.events();
    let kv_buf = Mutex::new(RefCell::new([0u8; 0]));
    let kv = SharedKvBlobStore::new(DummyKvBlobStore, &kv_buf);
    let prio = match prio {
        0 => EventPriority::Debug,
        1 => EventPriority::Info,
        _ => EventPriority::Critical,
    };
    let _ = events.push(ENDPOINT, CLUSTER_ID, evid, prio, &kv, |mut tw| tw.str(&TLVTag::Context(7), &ev_pattern(n + 1, len)));
}

/// LIVE QUEUE: message `k` of the answer has just been received and is not yet acknowledged (the
/// device waits in `recv_status_success`, its next `events.fetch` comes after the acknowledgement):
/// push the events the op schedules for this moment
fn push_live<C: Crypto>(runner: &Runner<C>, op: &Op, k: usize, seen: &core::cell::RefCell<Seen>) {
    let mut pushed = 0usize;
    let mut before = 0usize;
    runner.state.events().verif_visit(|_, _| before += 1);
    for (idx, (at, prio, evid, len)) in op.live.iter().enumerate() {
        if *at == k {
            push_one(runner, op.events.len() + idx, *prio, *evid, *len);
            pushed += 1;
        }
    }
    if pushed > 0 {
        let mut q: Vec<String> = Vec::new();
        runner.state.events().verif_visit(|n, _| q.push(n.to_string()));
        let mut s = seen.borrow_mut();
        s.live_pushed += pushed;
        s.live_evicted += (before + pushed).saturating_sub(q.len());
        s.live.push(format!("L{}={}", k, q.join(",")));
    }
}

/// push the events of the op; returns the event numbers in the queue in iteration order
fn push_events<C: Crypto>(runner: &Runner<C>, op: &Op) -> String {
    let events = runner.state.events();
    for (n, (prio, evid, len)) in op.events.iter().enumerate() {
        push_one(runner, n, *prio, *evid, *len);
    }
    let mut q: Vec<String> = Vec::new();
    events.verif_visit(|n, _| q.push(n.to_string()));
    if q.is_empty() && op.events.is_empty() && op.live.is_empty() {
        "-".into()
    } else {
        // the events carry the time of the push (a varying-width field of their reports);
        // third part: bytes in use in the debug / info / critical buffer and the size of each
        let (hd, hi, hc, n) = events.verif_heads();
        format!("{}@{}@{},{},{},{}", q.join(","), embassy_time::Instant::now().as_millis(), hd, hi, hc, n)
    }
}

fn write_request(op: &Op, wb: &mut rs_matter::utils::storage::WriteBuf<'_>) -> Result<(), Error> {
    let sub = op.subscribe;
    wb.start_struct(&TLVTag::Anonymous)?;
    if sub {
        wb.bool(&TLVTag::Context(0), false)?;
        wb.u16(&TLVTag::Context(1), 0)?;
        wb.u16(&TLVTag::Context(2), 100)?;
    }
    if !op.items.is_empty() {
        wb.start_array(&TLVTag::Context(if sub { 3 } else { 0 }))?;
        for it in &op.items {
            let (ep, attr) = match it {
                Item::Scalar(ep, a, _) => (*ep, *a),
                Item::List(ep, a, _) => (*ep, *a),
                Item::Unknown => (ENDPOINT, 0x63),
            };
            wb.start_list(&TLVTag::Anonymous)?;
            wb.u16(&TLVTag::Context(2), ep)?;
            wb.u32(&TLVTag::Context(3), CLUSTER_ID)?;
            wb.u32(&TLVTag::Context(4), attr)?;
            wb.end_container()?;
        }
        wb.end_container()?;
    }
    if op.query.is_some() || op.invalid > 0 {
        wb.start_array(&TLVTag::Context(if sub { 4 } else { 1 }))?;
        for i in 0..op.invalid {
            EventPath { endpoint: Some(9 + i as u16), cluster: Some(CLUSTER_ID), event: Some(1), ..Default::default() }
                .to_tlv(&TLVTag::Anonymous, &mut *wb)?;
        }
        match op.query {
            Some('1') => EventPath { endpoint: Some(ENDPOINT), cluster: Some(CLUSTER_ID), event: Some(1), ..Default::default() }
                .to_tlv(&TLVTag::Anonymous, &mut *wb)?,
            Some(_) => EventPath::default().to_tlv(&TLVTag::Anonymous, &mut *wb)?,
            None => {}
        }
        wb.end_container()?;
    }
    if !op.mins.is_empty() {
        wb.start_array(&TLVTag::Context(if sub { 5 } else { 2 }))?;
        for m in &op.mins {
            EventFilter { node: None, event_min: Some(*m) }.to_tlv(&TLVTag::Anonymous, &mut *wb)?;
        }
        wb.end_container()?;
    }
    wb.bool(&TLVTag::Context(if sub { 7 } else { 3 }), false)?;
    if op.filters.iter().any(|f| f.is_some()) {
        wb.start_array(&TLVTag::Context(if sub { 8 } else { 4 }))?;
        for (e, f) in op.filters.iter().enumerate() {
            if let Some(matching) = f {
                let ver = if *matching { DATAVERS[e] } else { DATAVERS[e] + 1 };
                DataVersionFilter {
                    path: ClusterPath { node: None, endpoint: if e == 0 { ENDPOINT } else { ENDPOINT2 }, cluster: CLUSTER_ID },
                    data_ver: ver,
                }
                .to_tlv(&TLVTag::Anonymous, &mut *wb)?;
            }
        }
        wb.end_container()?;
    }
    wb.u8(&TLVTag::Context(0xff), 13)?;
    wb.end_container()
}

/// let the device side run for a while
async fn yield_for(n: usize) {
    for _ in 0..n {
        embassy_futures::yield_now().await;
    }
}

/// one read / subscribe (/ report) interaction against the real IM; returns the status
async fn interact<C: Crypto>(runner: &Runner<C>, op: &Op, seen: &core::cell::RefCell<Seen>) -> String {
    let mut next_idx: NextIdx = [[0usize; N_LIST as usize]; 2];
    prepare(runner, op, op.report);
    if !op.report {
        seen.borrow_mut().queue = push_events(runner, op);
    }
    let status = async {
        let mut ex = runner.initiate_exchange().await?;
        ex.send_with(|_, wb| {
            write_request(op, wb)?;
            Ok(Some(if op.subscribe { OpCode::SubscribeRequest.into() } else { OpCode::ReadRequest.into() }))
        })
        .await?;
        let mut n = 0usize;
        let sub_id = loop {
            ex.recv_fetch().await?;
            let (opcode, info) = {
                let rx = ex.rx()?;
                (rx.meta().proto_opcode, render_chunk(rx.payload(), &mut next_idx))
            };
            if opcode != OpCode::ReportData as u8 {
                let rx = ex.rx()?;
                let st = status_of(rx.payload());
                ex.rx_done()?;
                let _ = ex.acknowledge().await;
                return Ok::<String, Error>(format!("status:{}", st));
            }
            ex.rx_done()?;
            let more = info.more;
            if !op.report {
                seen.borrow_mut().chunks.push(info.text);
            }
            n += 1;
            if n > MAX_CHUNKS {
                return Ok("toomany".into());
            }
            if more && !op.report {
                push_live(runner, op, n, seen);
            }
            if more || op.subscribe {
                ex.send_with(|_, wb| {
                    StatusResp::write(wb, IMStatusCode::Success)?;
                    Ok(Some(OpCode::StatusResponse.into()))
                })
                .await?;
            }
            if !more {
                if op.subscribe {
                    // the priming report is followed by the SubscribeResponse
                    ex.recv_fetch().await?;
                    let (opcode, id) = {
                        let rx = ex.rx()?;
                        let e = TLVElement::new(rx.payload());
                        (rx.meta().proto_opcode, e.structure().and_then(|s| s.find_ctx(0)).and_then(|c| c.u32()))
                    };
                    ex.rx_done()?;
                    let _ = ex.acknowledge().await;
                    if opcode != OpCode::SubscribeResponse as u8 {
                        return Ok(format!("noresp:{}", opcode));
                    }
                    break id.ok();
                }
                // reads are sent with SuppressResponse; acknowledge and finish
                let _ = ex.acknowledge().await;
                return Ok("ok".into());
            }
        };
        let id = sub_id.map(|i| i.to_string()).unwrap_or_else(|| "?".into());
        if !op.report {
            return Ok(format!("ok:{}", id));
        }
        drop(ex);
        // let the device commit the subscription, then change the data and wake the reporter
        yield_for(200).await;
        configure(&op.items);
        seen.borrow_mut().queue = push_events(runner, op);
        let subs = runner.state.subscriptions();
        for (it, changed) in op.items.iter().zip(op.changed.iter()) {
            if *changed {
                match it {
                    Item::Scalar(ep, a, _) | Item::List(ep, a, _) => subs.verif_notify_attr_changed(*ep, CLUSTER_ID, *a),
                    Item::Unknown => {}
                }
            }
        }
        for (_, evid, _) in &op.events {
            subs.notify_event_emitted(ENDPOINT, CLUSTER_ID, *evid);
        }
        let mut next_idx: NextIdx = [[0usize; N_LIST as usize]; 2];
        // the device reports on an exchange of its own; nothing to report = no exchange
        let Some(rep) = (Budget { f: Box::pin(rs_matter::transport::exchange::Exchange::accept(&runner.matter_client)), left: 8_000 }).await else {
            return Ok(format!("none:{}", id));
        };
        let mut rep = rep?;
        let mut n = 0usize;
        loop {
            rep.recv_fetch().await?;
            let (opcode, info) = {
                let rx = rep.rx()?;
                (rx.meta().proto_opcode, render_chunk(rx.payload(), &mut next_idx))
            };
            rep.rx_done()?;
            if opcode != OpCode::ReportData as u8 {
                return Ok(format!("noreport:{}", opcode));
            }
            let more = info.more;
            seen.borrow_mut().chunks.push(info.text);
            n += 1;
            if n > MAX_CHUNKS {
                return Ok("toomany".into());
            }
            if more {
                push_live(runner, op, n, seen);
            }
            rep.send_with(|_, wb| {
                StatusResp::write(wb, IMStatusCode::Success)?;
                Ok(Some(OpCode::StatusResponse.into()))
            })
            .await?;
            if !more {
                return Ok(format!("ok:{}", id));
            }
        }
    }
    .await;
    let st = match status {
        Ok(s) => s,
        Err(e) => format!("err:{:?}", e.code()),
    };
    if op.subscribe {
        // a subscription must not outlive its op: let it expire and the reporter drop it
        embassy_time::MockDriver::get().advance(embassy_time::Duration::from_secs(1_000));
        yield_for(300).await;
    }
    st
}

fn status_of(p: &[u8]) -> String {
    let e = TLVElement::new(p);
    match e.structure().and_then(|s| s.find_ctx(0)).and_then(|c| c.u8()) {
        Ok(v) => v.to_string(),
        Err(_) => "?".into(),
    }
}

/// a future that gives up (`None`) after `left` polls
struct Budget<F> {
    f: core::pin::Pin<Box<F>>,
    left: u64,
}

impl<F> Unpin for Budget<F> {}

impl<F: Future> Future for Budget<F> {
    type Output = Option<F::Output>;
    fn poll(mut self: core::pin::Pin<&mut Self>, cx: &mut Context<'_>) -> Poll<Self::Output> {
        if self.left == 0 {
            return Poll::Ready(None);
        }
        self.left -= 1;
        match self.f.as_mut().poll(cx) {
            Poll::Ready(v) => Poll::Ready(Some(v)),
            Poll::Pending => Poll::Pending,
        }
    }
}

const OP_POLLS: u64 = 60_000;

/// run the ops of all cases against the real device; a request that gets no (complete) answer
/// within the poll budget is reported as `hang` and the remaining ops continue on a fresh device
fn drive(cases: &[Case], out: &mut Out) {
    let flat: Vec<(usize, usize)> = cases.iter().enumerate().flat_map(|(ci, c)| (0..c.ops.len()).map(move |oi| (ci, oi))).collect();
    let mut pos = 0usize;
    let mut k = String::new();
    let mut started: Vec<bool> = vec![false; cases.len()];
    let mut multi: Vec<bool> = vec![false; cases.len()];
    let mut devices = 0;
    while pos < flat.len() || (flat.is_empty() && devices == 0) {
        devices += 1;
        let runner = e2e::new_runner();
        runner.add_default_acl();
        let res = run_bounded(
            async {
                let device = runner.run();
                let client = async {
                    if k.is_empty() {
                        // calibration of the encoded-size constants on the real encoder
                        k = calibrate(&runner).await;
                    }
                    while pos < flat.len() {
                        let (ci, oi) = flat[pos];
                        let c = &cases[ci];
                        if !started[ci] {
                            started[ci] = true;
                            out.case(c.id, &format!("rd {} {}", MAX_EXCHANGE_TX_BUF_SIZE, k));
                        }
                        let optext = &c.ops[oi];
                        let op = parse_op(optext);
                        let seen = core::cell::RefCell::new(Seen::default());
                        let mut budget = Budget { f: Box::pin(interact(&runner, &op, &seen)), left: OP_POLLS };
                        let o = (&mut budget).await;
                        pos += 1;
                        if o.is_some() {
                            // how much of the poll budget answered requests need (power-of-two buckets)
                            let used = OP_POLLS - budget.left;
                            out.stat(&format!("polls_below_2^{}", 64 - used.leading_zeros()), 1);
                        }
                        let got = seen.borrow();
                        let mut queue = if got.queue.is_empty() { "-".to_string() } else { got.queue.clone() };
                        if !got.live.is_empty() && queue != "-" {
                            queue.push_str(&format!("@{}", got.live.join("+")));
                        }
                        if !op.live.is_empty() {
                            out.stat("live_requests", 1);
                            out.stat("live_pushes_done", got.live_pushed as u64);
                            out.stat("live_pushes_evicting", (got.live_evicted > 0) as u64);
                            out.stat("live_events_evicted", got.live_evicted as u64);
                        }
                        let ch = if got.chunks.is_empty() { "-".to_string() } else { got.chunks.join(";") };
                        match o {
                            Some(st) => {
                                tally(&op, &st, &ch, out);
                                out.op(optext, &format!("{} | {} | {}", st, queue, ch));
                                if ch.contains(';') && !multi[ci] {
                                    multi[ci] = true;
                                    out.buf.push_str("#nt\n");
                                }
                                if op.subscribe && !op.live.is_empty() {
                                    // the subscription has seen events pushed behind its back and would
                                    // report them on an exchange nobody accepts: go on with a fresh device
                                    return;
                                }
                                if st.starts_with("none") {
                                    // no report: nothing to report, or the report failed on the device
                                    // (which then drops the session): go on with a fresh device
                                    return;
                                }
                            }
                            None => {
                                out.stat("requests_without_answer", 1);
                                out.op(optext, &format!("hang | {} | {}", queue, ch));
                                return;
                            }
                        }
                    }
                };
                match select(device, client).await {
                    Either::First(r) => Some(format!("device ended: {:?}", r.map_err(|e| e.code()))),
                    Either::Second(()) => None,
                }
            },
            u64::MAX,
        );
        if let Some(Some(why)) = res {
            out.buf.push_str(&format!("# {}\n", why));
            if pos < flat.len() {
                let (ci, oi) = flat[pos];
                out.op(&cases[ci].ops[oi], "devend | - | -");
                pos += 1;
            }
        }
        if flat.is_empty() {
            break;
        }
    }
    rs_matter::im::verif_tx::set_tx_buf_size(usize::MAX);
    out.stat("devices", devices);
}

fn tally(op: &Op, o: &str, ch: &str, out: &mut Out) {
    let n = if ch == "-" { 0 } else { ch.split(';').count() };
    out.stat(&format!("chunks_{}", if n >= 6 { "6plus".to_string() } else { n.to_string() }), 1);
    if ch.contains("/E") || ch.contains(",E") {
        out.stat("answers_with_split_list", 1);
    }
    if ch.contains("/D") || ch.contains(",D") {
        out.stat("answers_with_events", 1);
    }
    if ch.split(';').filter(|c| c.contains("/D") || c.contains(",D")).count() > 1 {
        out.stat("answers_with_events_in_several_chunks", 1);
    }
    if ch.contains("/X") || ch.contains(",X") {
        out.stat("answers_with_error_status", 1);
    }
    if op.report {
        out.stat("subscription_reports", 1);
    } else if op.subscribe {
        out.stat("subscribe_primings", 1);
    }
    if op.cap.is_some() {
        out.stat("requests_with_cut_tx_buffer", 1);
    }
    if op.filters.iter().any(|f| *f == Some(true)) {
        out.stat("requests_with_matching_dataver_filter", 1);
    }
    if !op.mins.is_empty() {
        out.stat("requests_with_event_filter", 1);
    }
    if !o.starts_with("ok") {
        out.stat("requests_not_ok", 1);
    }
}

/// measure the constant parts of the encodings: `KS KW KE KI KX KV KT`
async fn calibrate<C: Crypto>(runner: &Runner<C>) -> String {
    let enc_of = |o: &str, field: usize, kind: char| -> Option<usize> {
        o.split(';').flat_map(|c| c.split('/').nth(field).unwrap_or("").split(',').collect::<Vec<_>>()).find_map(|p| {
            if p.starts_with(kind) {
                p.split(':').nth(1)?.parse().ok()
            } else {
                None
            }
        })
    };
    let run = |text: &str| {
        let op = parse_op(text);
        async move {
            let seen = core::cell::RefCell::new(Seen::default());
            interact(runner, &op, &seen).await;
            let got = seen.borrow();
            got.chunks.join(";")
        }
    };
    let o1 = run("rd s0:0").await;
    let ks = enc_of(&o1, 3, 'S').map(|e| e as i64 - 1).unwrap_or(-1);
    let o2 = run("rd l0:3,3").await;
    let kw = enc_of(&o2, 3, 'W').map(|e| e as i64 - 2 * (1 + 1 + 3)).unwrap_or(-1);
    let o3 = run(&format!("rd l0:{}", vec!["100"; 40].join(","))).await;
    let ke = enc_of(&o3, 3, 'E').map(|e| e as i64).unwrap_or(-1);
    let ki = enc_of(&o3, 3, 'I').map(|e| e as i64 - 1 - 100).unwrap_or(-1);
    let o4 = run("rd u").await;
    let kx = enc_of(&o4, 3, 'X').map(|e| e as i64).unwrap_or(-1);
    let o5 = run("rd qW z1 ec1:10").await;
    let kv = enc_of(&o5, 4, 'D').map(|e| e as i64 - 1 - 10).unwrap_or(-1);
    let kt = enc_of(&o5, 4, 'T').map(|e| e as i64).unwrap_or(-1);
    // KR: what the report of an event is longer than the event in the queue (the queue still holds
    // exactly the event of `o5`, in its debug buffer)
    let kr = enc_of(&o5, 4, 'D').map(|e| e as i64 - runner.state.events().verif_heads().0 as i64).unwrap_or(-1);
    format!("{} {} {} {} {} {} {} {}", ks, kw, ke, ki, kx, kv, kt, kr)
}

// ---------------------------------------------------------------- generator

#[derive(Clone, Copy)]
struct K {
    ks: usize,
    ki: usize,
    kv: usize,
}

fn enc(k0: usize, len: usize) -> usize {
    k0 + if len < 256 { 1 } else { 2 } + len
}

/// a value length whose report of constant part `k0` ends `delta` bytes past the space left
fn aim(room: usize, k0: usize, delta: i64, max: usize) -> usize {
    let target = room as i64 + delta;
    let lb = if target - k0 as i64 - 1 < 256 { 1 } else { 2 };
    (target - k0 as i64 - lb).clamp(0, max as i64) as usize
}

/// `r.range` that tolerates an empty interval
fn rg(r: &mut Rng, lo: u64, hi: u64) -> u64 {
    if hi <= lo {
        lo
    } else {
        r.range(lo, hi)
    }
}

fn gen_op(r: &mut Rng, k: K, force_multi: bool, thorough: bool, out: &mut Out) -> String {
    let mut toks: Vec<String> = Vec::new();
    let kind = match r.below(14) {
        0 | 1 => "sp",
        2 | 3 => "sr",
        _ => "rd",
    };
    let subscribe = kind != "rd";
    let report = kind == "sr";
    toks.push(kind.into());
    // transmit buffer
    let cap = match r.below(20) {
        0..=12 => MAX_EXCHANGE_TX_BUF_SIZE,
        13..=16 => rg(r, 150, MAX_EXCHANGE_TX_BUF_SIZE as u64) as usize,
        17 | 18 => rg(r, 100, 150) as usize,
        _ => {
            if thorough {
                rg(r, 48, 100) as usize
            } else {
                rg(r, 90, 120) as usize
            }
        }
    };
    if cap != MAX_EXCHANGE_TX_BUF_SIZE {
        toks.push(format!("b{}", cap));
    }
    let hdr = if subscribe { 4 } else { 1 };
    let limit = cap - 28;
    let small = cap < 400;
    let mut used = hdr + 2; // struct start (+ subscription id) + attribute array start
    let place = |used: &mut usize, e: usize| *used = if *used + e > limit { hdr + 2 + e } else { *used + e };
    // attribute paths
    let events_only = r.chance(1, 8) && !force_multi;
    let mut slots: Vec<(char, u32)> = Vec::new();
    for a in 0..N_SCALAR {
        slots.push(('s', a));
        slots.push(('S', a));
    }
    let mut lslots: Vec<(char, u32)> = Vec::new();
    for a in 0..N_LIST {
        lslots.push(('l', a));
        lslots.push(('L', a));
    }
    let maxv = limit.saturating_sub(40).max(8);
    if !events_only {
        let n = if small { rg(r, 1, 6) } else { rg(r, 1, 14) } as usize;
        if force_multi {
            // two values that cannot share a message: the answer has at least two chunks
            for _ in 0..2 {
                let (c, a) = slots.remove(r.below(slots.len() as u64) as usize);
                let len = rg(r, (maxv as u64 * 6 / 10).max(1), (maxv as u64 * 8 / 10).max(2)) as usize;
                place(&mut used, enc(k.ks, len));
                toks.push(format!("{}{}:{}", c, a, len));
            }
        }
        for _ in 0..n {
            // in a subscription report: subscribed but not changed
            let unchanged = report && r.chance(1, 4);
            let pfx = if unchanged { "n" } else { "" };
            let want_list = r.chance(1, 4) && !lslots.is_empty();
            if want_list {
                let (c, a) = lslots.remove(r.below(lslots.len() as u64) as usize);
                let cnt = match r.below(6) {
                    0 => 0,
                    1 => rg(r, 1, 3),
                    2 | 3 => rg(r, 3, 12),
                    _ => {
                        if small {
                            rg(r, 5, 20)
                        } else {
                            rg(r, 10, 60)
                        }
                    }
                } as usize;
                let mut lens = Vec::new();
                for _ in 0..cnt {
                    let len = match r.below(40) {
                        0..=4 => 0,
                        5..=24 => rg(r, 1, 40.min(maxv as u64)) as usize,
                        25..=34 => rg(r, 40.min(maxv as u64), 300.min(maxv as u64).max(41)) as usize,
                        35..=38 => {
                            // element that exactly fills what is left of the current chunk
                            out.stat("gen_elem_boundary", 1);
                            aim(limit.saturating_sub(used), k.ki, [-2i64, -1, 0, 1, 2][r.below(5) as usize], 900.min(maxv))
                        }
                        _ => {
                            if r.chance(1, 6) {
                                // an element that fits no message
                                out.stat("gen_oversize_elem", 1);
                                (limit + r.below(4) as usize).saturating_sub(hdr + 2 + k.ki)
                            } else {
                                rg(r, 1, 40.min(maxv as u64)) as usize
                            }
                        }
                    };
                    lens.push(len);
                }
                // generator's rough idea of the fill level (exact boundaries are the model's business)
                if !unchanged {
                    for l in &lens {
                        place(&mut used, enc(k.ki, *l));
                    }
                }
                toks.push(format!("{}{}{}:{}", pfx, c, a, if lens.is_empty() { "-".to_string() } else { lens.iter().map(|x| x.to_string()).collect::<Vec<_>>().join(",") }));
            } else {
                if slots.is_empty() {
                    break;
                }
                let (c, a) = slots.remove(r.below(slots.len() as u64) as usize);
                let len = match r.below(40) {
                    0..=3 => 0,
                    4..=15 => rg(r, 1, 60.min(maxv as u64)) as usize,
                    16..=23 => rg(r, 60.min(maxv as u64), 500.min(maxv as u64).max(61)) as usize,
                    24..=27 => rg(r, 1, maxv as u64) as usize,
                    28..=38 => {
                        // a value that just fits / exactly fills / just does not fit the current chunk
                        out.stat("gen_scalar_boundary", 1);
                        aim(limit.saturating_sub(used), k.ks, [-3i64, -2, -1, 0, 0, 1, 2][r.below(7) as usize], maxv)
                    }
                    _ => {
                        // around the largest value that fits an empty message (just fits / fits no message)
                        out.stat("gen_scalar_oversize_boundary", 1);
                        aim(limit.saturating_sub(hdr + 2), k.ks, [-1i64, 0, 1, 2, 30][r.below(5) as usize], usize::MAX / 4)
                    }
                };
                if !unchanged {
                    place(&mut used, enc(k.ks, len));
                }
                toks.push(format!("{}{}{}:{}", pfx, c, a, len));
            }
        }
        // data version filters
        if r.chance(1, 4) {
            for e in 1..=2 {
                if r.chance(1, 2) {
                    toks.push(format!("f{}{}", e, if r.chance(2, 3) { 'm' } else { 'x' }));
                }
            }
        }
    }
    // events
    if events_only || r.chance(1, 3) {
        toks.push(if r.chance(2, 3) { "qW".into() } else { "q1".into() });
        if !subscribe && r.chance(1, 6) {
            toks.push(format!("z{}", rg(r, 1, 3)));
        }
        // what precedes the events in the message that closes the attribute array
        let mut eused = if events_only { hdr + 2 } else { used + 1 + 2 };
        let elimit = |first: bool| if first { limit + 3 - if events_only { 1 } else { 0 } } else { limit };
        let mut first = true;
        let cnt = match r.below(8) {
            0 => 0,
            1 | 2 => rg(r, 1, 3),
            3..=5 => rg(r, 2, 8),
            _ => rg(r, 6, 16),
        } as usize;
        for _ in 0..cnt {
            let prio = ['c', 'c', 'c', 'i', 'i', 'd'][r.below(6) as usize];
            let evid = if r.chance(3, 4) { 1 } else { 2 };
            let len = match r.below(20) {
                0 | 1 => 0,
                2..=8 => rg(r, 1, 60.min(maxv as u64)) as usize,
                9..=12 => rg(r, 60.min(maxv as u64), 400.min(maxv as u64)) as usize,
                13 | 14 => rg(r, 1, maxv as u64) as usize,
                15..=18 => {
                    out.stat("gen_event_boundary", 1);
                    aim(elimit(first).saturating_sub(eused), k.kv, [-2i64, -1, 0, 0, 1, 2][r.below(6) as usize], maxv)
                }
                _ => {
                    if r.chance(1, 5) {
                        // around the largest event that fits an empty message
                        out.stat("gen_event_oversize_boundary", 1);
                        aim(limit.saturating_sub(hdr + 2), k.kv, [-1i64, 0, 1, 3][r.below(4) as usize], 2000)
                    } else {
                        rg(r, 1, 60.min(maxv as u64)) as usize
                    }
                }
            };
            let e = enc(k.kv, len);
            if eused + e > elimit(first) {
                first = false;
                eused = hdr + 2 + e;
            } else {
                eused += e;
            }
            toks.push(format!("e{}{}:{}", prio, evid, len));
        }
        if r.chance(1, 3) {
            toks.push(format!("m{}", rg(r, 0, cnt as u64 + 2)));
            if r.chance(1, 5) {
                toks.push(format!("m{}", rg(r, 0, cnt as u64 + 2)));
            }
        }
    }
    toks.join(" ")
}

/// LIVE QUEUE op: a read (sometimes a subscribe priming / a subscription report) of the events whose
/// answer takes several messages, with events pushed between the messages: the rings (4096 bytes each) are
/// nearly full of debug / info events so that the pushes evict events the reader has not reached yet (or
/// promote them), the new events are in the range of a read and out of the range of a subscription
fn gen_live_op(r: &mut Rng, k: K, out: &mut Out) -> String {
    let mut toks: Vec<String> = Vec::new();
    let kind = match r.below(10) {
        0 => "sp",
        1 => "sr",
        _ => "rd",
    };
    toks.push(kind.into());
    let cap = if r.chance(1, 4) { rg(r, 300, 900) as usize } else { MAX_EXCHANGE_TX_BUF_SIZE };
    if cap != MAX_EXCHANGE_TX_BUF_SIZE {
        toks.push(format!("b{}", cap));
    }
    let limit = cap - 28;
    let maxv = limit.saturating_sub(40 + k.kv).max(8);
    if r.chance(1, 3) {
        let len = rg(r, 0, (maxv as u64) / 2) as usize;
        toks.push(format!("s{}:{}", r.below(N_SCALAR as u64), len));
    }
    toks.push(if r.chance(4, 5) { "qW".into() } else { "q1".into() });
    // how full the debug ring gets: 60 % .. 110 % of its 4096 bytes
    let fill = rg(r, 2400, 4500) as usize;
    let mut total = 0usize;
    let mut cnt = 0usize;
    while total < fill && cnt < 30 {
        let prio = ['d', 'd', 'd', 'd', 'i', 'c'][r.below(6) as usize];
        let evid = if r.chance(5, 6) { 1 } else { 2 };
        let len = match r.below(4) {
            0 => rg(r, 1, 80.min(maxv as u64)) as usize,
            1 | 2 => rg(r, (maxv as u64 / 5).max(2), (maxv as u64 / 2).max(3)) as usize,
            _ => rg(r, (maxv as u64 / 2).max(2), maxv as u64) as usize,
        };
        total += len + 40;
        cnt += 1;
        toks.push(format!("e{}{}:{}", prio, evid, len));
    }
    if r.chance(1, 5) {
        toks.push(format!("m{}", rg(r, 0, cnt as u64 + 3)));
    }
    // the pushes: after message 1..5 (a finite schedule), one to three events each
    let mut at = 1u64;
    let batches = rg(r, 1, 4);
    for _ in 0..batches {
        for _ in 0..rg(r, 1, 4) {
            let prio = ['d', 'd', 'd', 'i', 'c'][r.below(5) as usize];
            let evid = if r.chance(5, 6) { 1 } else { 2 };
            let len = match r.below(3) {
                0 => rg(r, 1, 80.min(maxv as u64)) as usize,
                1 => rg(r, (maxv as u64 / 5).max(2), (maxv as u64 / 2).max(3)) as usize,
                _ => rg(r, (maxv as u64 / 2).max(2), maxv as u64) as usize,
            };
            toks.push(format!("p{}:{}{}:{}", at, prio, evid, len));
        }
        at += rg(r, 0, 3);
    }
    out.stat("gen_live_ops", 1);
    toks.join(" ")
}

pub fn gen(a: &Args) -> String {
    let mut r = Rng::new(a.seed);
    let mut out = Out::default();
    out.buf.push_str("#rule a case is a sequence of read requests and subscribe requests (priming report) against the real InteractionModel over a harness cluster on two endpoints (16 octet-string attributes, 6 list attributes, 2 events) with generator-chosen value lengths (empty, small, hundreds of bytes, nearly a whole message, computed to end 3..0 bytes before / exactly at / 1..2 bytes past the space left in the current chunk, around the largest value that fits an empty message, values and list elements that fit no message), lists from empty to 60 elements, 0..16 queued events of three priorities and two ids with payloads chosen the same way, wildcard / single-event / invalid event paths, event filters, data-version filters that match or do not match, a transmit buffer cut to 48..1178 bytes in a third of the requests, and (1 of 7 ops after the first) live-queue requests during whose answer further events are pushed into the real queue between two messages (evicting / promoting events the reader has not reached, new events in range of a read); non-trivial = at least one request of the case was answered in more than one chunk (the first request of every generated case is built that way); distinct = by operation list\n");
    // constants first (one throw-away device), so that the generator can aim at the boundaries
    let k = {
        let runner = e2e::new_runner();
        runner.add_default_acl();
        run_bounded(
            async {
                match select(runner.run(), calibrate(&runner)).await {
                    Either::First(_) => "0 0 0 0 0 0 0".to_string(),
                    Either::Second(k) => k,
                }
            },
            50_000_000,
        )
        .unwrap_or_else(|| "0 0 0 0 0 0 0".to_string())
    };
    let kv: Vec<usize> = k.split_whitespace().map(|x| x.parse::<i64>().unwrap_or(0).max(0) as usize).collect();
    let kt = K { ks: kv[0], ki: kv[3], kv: kv[5] };
    let n_cases = if a.thorough { 25000 } else { 2000 };
    let mut cases = Vec::new();
    for id in 0..n_cases {
        let mut cr = r.fork();
        let n_ops = cr.range(3, 10);
        let ops = (0..n_ops)
            .map(|i| if i > 0 && cr.chance(1, 7) { gen_live_op(&mut cr, kt, &mut out) } else { gen_op(&mut cr, kt, i == 0, a.thorough, &mut out) })
            .collect();
        cases.push(Case { id, kind: "rd".into(), ops });
    }
    drive(&cases, &mut out);
    out.finish()
}

struct StderrLog;
impl log::Log for StderrLog {
    fn enabled(&self, _: &log::Metadata) -> bool {
        true
    }
    fn log(&self, r: &log::Record) {
        eprintln!("[{}] {}", r.level(), r.args());
    }
    fn flush(&self) {}
}

pub fn replay(a: &Args) -> String {
    if std::env::var("VERIF_C14_LOG").is_ok() {
        static L: StderrLog = StderrLog;
        let _ = log::set_logger(&L);
        log::set_max_level(log::LevelFilter::Debug);
    }
    let text = std::fs::read_to_string(a.input.as_ref().expect("--in")).expect("read input");
    let mut out = Out::default();
    let cases = parse_cases(&text);
    drive(&cases, &mut out);
    out.finish()
}
