//! C10: a message reaches only its own exchange; unclaimed messages are discarded — unit level on
//! the real session table, real `Session::post_recv` / `get_exch_for_rx`, real `Exchange` drop, and
//! the real sweep steps of the transport (`handle_accept_timeout_rx_packet`,
//! `handle_orphaned_rx_packet`, `handle_dropped_exchange`) under virtual time.
use crate::proto::{parse_cases, Out};
use crate::rng::Rng;
use crate::Args;

#[path = "transport_common.rs"]
mod tc;
use tc::{parse_snap, result_of, run_tab_with, GSnap};

#[path = "c20_sys.rs"]
mod sys;
#[path = "c10_sys.rs"]
mod sys2;
#[path = "c10_node.rs"]
mod node;

const RULE: &str = "a case is one op history on a fresh real session table: 1-4 sessions (secure with installed local ids and plain, distinct peer ports, some expired later), then a state-aware random mix of received messages with every combination of exchange id (live id, live id+-1, allocator position, random) x initiator flag x opcode class (request / standalone ack / status report) x ack (matching, stale, none) x reliability, owner look-ups, accepts (prompt, late, never), Exchange::initiate_for_session, exchange drops at any point (with pending ack / pending retransmission / clean), sends and retransmissions, session removal while exchanges are open, virtual time steps around the 1000 ms accept deadline, accept-timeout / orphan sweeps addressed to live, dropped, unknown exchanges and vanished sessions, and the dropped-exchange closer. Every op line carries the implementation's result and the table snapshot. Non-trivial = at least two distinct output lines; #stat lines give the outcome distribution; distinct = by op list";

struct SInfo {
    uid: u32,
    port: u64,
}

fn gen_case(r: &mut Rng, out: &mut Out, len: usize) {
    run_tab_with(out, &mut |exec| {
        let mut g: GSnap = parse_snap(&exec(&format!("setxid {}", r.range(1, 65535))));
        let mut infos: Vec<SInfo> = Vec::new();
        let mut next_h = 0u32;
        let mut handles: Vec<u32> = Vec::new();
        let mut peer_ctr: u64 = r.range(100, 1 << 30);
        let mut orig_tx: Vec<(u32, usize, String)> = Vec::new();
        let nsess = r.range(1, 4);
        for i in 0..nsess {
            let port = 5000 + i;
            let full = exec(&format!("add {} 0 {}", r.below(1 << 32), port));
            if let Some(id) = result_of(&full).strip_prefix("id ").and_then(|t| t.parse::<u32>().ok()) {
                if r.chance(3, 4) {
                    exec(&format!("mode {} {}", id, if r.chance(1, 2) { "c" } else { "p" }));
                    let sid = result_of(&exec("sid")).to_string();
                    g = parse_snap(&exec(&format!("lsid {} {}", id, sid)));
                }
                infos.push(SInfo { uid: id, port });
            }
        }
        for _ in 0..len {
            let sess: Vec<u32> = g.sessions.iter().map(|s| s.uid).collect();
            let pick_sess = |r: &mut Rng| -> u32 { if sess.is_empty() { 0 } else { *r.pick(&sess) } };
            // (uid, slot, exch id, role, rt, ak)
            let live: Vec<(u32, usize, u32, String, Option<(u32, u32)>, Option<(u32, bool)>)> = g.sessions.iter()
                .flat_map(|s| s.slots.iter().enumerate().filter_map(move |(i, sl)| sl.as_ref().map(|sl| (s.uid, i, sl.id, sl.role.clone(), sl.rt, sl.ak)))).collect();
            let coords = |g: &GSnap, infos: &Vec<SInfo>, uid: u32| -> (u64, u32) {
                let port = infos.iter().find(|i| i.uid == uid).map(|i| i.port).unwrap_or(1);
                let lsid = g.sessions.iter().find(|s| s.uid == uid).map(|s| s.lsid).unwrap_or(60000);
                (port, lsid)
            };
            let op: String = match r.below(100) {
                0..=27 => {
                    // a received message
                    let uid = pick_sess(r);
                    let mine: Vec<_> = live.iter().filter(|l| l.0 == uid).collect();
                    let (exch, flag): (u64, &str) = match r.below(6) {
                        0 | 1 if !mine.is_empty() => {
                            let l = *r.pick(&mine);
                            // mostly the flag that addresses this exchange, sometimes the other role
                            let right = if l.3.starts_with('R') { "I" } else { "R" };
                            let wrong = if right == "I" { "R" } else { "I" };
                            (l.2 as u64, if r.chance(4, 5) { right } else { wrong })
                        }
                        2 if !mine.is_empty() => ((r.pick(&mine).2 as u64 + 65535 + r.below(3)) % 65536, if r.chance(1, 2) { "I" } else { "R" }),
                        3 => (g.next_xid as u64, if r.chance(1, 2) { "I" } else { "R" }),
                        _ => (r.range(0, 65535), if r.chance(2, 3) { "I" } else { "R" }),
                    };
                    peer_ctr += r.range(1, 2);
                    let ctr = if r.chance(1, 12) { peer_ctr.saturating_sub(r.range(1, 30)) } else { peer_ctr };
                    let owner = mine.iter().find(|l| l.2 as u64 == exch && (l.3.starts_with('R') == (flag == "I")));
                    let ack = match owner.and_then(|l| l.4) {
                        Some((pc, _)) if r.chance(3, 4) => pc.to_string(),
                        Some((pc, _)) => (pc as u64 + 1).to_string(),
                        None => if r.chance(1, 5) { r.below(1 << 28).to_string() } else { "-".into() },
                    };
                    format!("rx {} {} {} {} {} {} {}", uid, ctr, exch, flag, ack, if r.chance(2, 3) { "r" } else { "u" },
                        match r.below(10) { 0 => "a", 1 => "s", _ => "n" })
                }
                28..=33 => {
                    let uid = pick_sess(r);
                    let mine: Vec<_> = live.iter().filter(|l| l.0 == uid).collect();
                    let exch = if !mine.is_empty() && r.chance(3, 4) { r.pick(&mine).2 as u64 } else { r.range(0, 65535) };
                    format!("own {} {} {}", uid, exch, if r.chance(1, 2) { "I" } else { "R" })
                }
                34..=40 => {
                    let pend: Vec<_> = live.iter().filter(|l| l.3 == "RP").collect();
                    if pend.is_empty() || r.chance(1, 8) {
                        next_h += 1;
                        format!("acc {} {} h{}", pick_sess(r), r.below(5), next_h)
                    } else {
                        let l = *r.pick(&pend);
                        next_h += 1;
                        format!("acc {} {} h{}", l.0, l.1, next_h)
                    }
                }
                41..=46 => {
                    next_h += 1;
                    format!("init {} h{}", pick_sess(r), next_h)
                }
                47..=55 => {
                    if handles.is_empty() { "t 20".into() } else { format!("xdrop h{}", *r.pick(&handles)) }
                }
                56..=62 => {
                    let owned: Vec<_> = live.iter().filter(|l| (l.3 == "RO" || l.3 == "IO") && l.4.is_none()).collect();
                    if owned.is_empty() { "t 5".into() } else {
                        let l = *r.pick(&owned);
                        format!("tx {} {} {} - n", l.0, l.1, if r.chance(3, 4) { "r" } else { "u" })
                    }
                }
                63..=66 => if orig_tx.is_empty() { "t 330".into() } else { r.pick(&orig_tx).2.clone() },
                67..=74 => {
                    // accept-timeout sweep: mostly on an accept-pending exchange
                    let pend: Vec<_> = live.iter().filter(|l| l.3 == "RP").collect();
                    if !pend.is_empty() && r.chance(3, 4) {
                        let l = *r.pick(&pend);
                        let (p, ls) = coords(&g, &infos, l.0);
                        format!("swa {} {} {} I", p, ls, l.2)
                    } else if !live.is_empty() {
                        let l = r.pick(&live);
                        let (p, ls) = coords(&g, &infos, l.0);
                        format!("swa {} {} {} {}", p, ls, l.2, if l.3.starts_with('R') { "I" } else { "R" })
                    } else {
                        format!("swa {} {} {} I", 5000 + r.below(5), r.below(4), r.range(0, 65535))
                    }
                }
                75..=83 => {
                    // orphan sweep: live / dropped / unknown exchange / vanished session
                    match r.below(4) {
                        0 | 1 if !live.is_empty() => {
                            let dropped: Vec<_> = live.iter().filter(|l| l.3.ends_with('D')).collect();
                            let l = if !dropped.is_empty() && r.chance(2, 3) { *r.pick(&dropped) } else { r.pick(&live) };
                            let (p, ls) = coords(&g, &infos, l.0);
                            format!("swo {} {} {} {}", p, ls, l.2, if l.3.starts_with('R') { "I" } else { "R" })
                        }
                        2 if !infos.is_empty() => {
                            let i = r.pick(&infos);
                            let (p, ls) = coords(&g, &infos, i.uid);
                            format!("swo {} {} {} {}", p, ls, r.range(0, 65535), if r.chance(1, 2) { "I" } else { "R" })
                        }
                        _ => format!("swo {} {} {} I", 5000 + r.below(6), r.range(0, 65535), r.range(0, 65535)),
                    }
                }
                84..=90 => "swd".into(),
                91..=92 => format!("exp {}", pick_sess(r)),
                93 => format!("rm {}", pick_sess(r)),
                _ => format!("t {}", *r.pick(&[1u64, 100, 500, 999, 1000, 1001, 2000])),
            };
            let full = exec(&op);
            let res = result_of(&full).to_string();
            g = parse_snap(&full);
            let w: Vec<&str> = op.split_whitespace().collect();
            match w[0] {
                "init" if res.starts_with("x ") => handles.push(next_h),
                "acc" if res == "ok" => handles.push(next_h),
                "xdrop" => {
                    let h: u32 = w[1][1..].parse().unwrap_or(0);
                    handles.retain(|x| *x != h);
                }
                "tx" if res.contains(" rt 0 ") && w[2] != "-" => {
                    let (uid, slot): (u32, usize) = (w[1].parse().unwrap_or(0), w[2].parse().unwrap_or(0));
                    orig_tx.retain(|o| !(o.0 == uid && o.1 == slot));
                    orig_tx.push((uid, slot, op.clone()));
                }
                _ => {}
            }
            orig_tx.retain(|o| g.sessions.iter().any(|s| s.uid == o.0 && s.slots.get(o.1).and_then(|x| x.as_ref()).map(|sl| sl.rt.is_some()).unwrap_or(false)));
        }
    });
}

/// Policy that lets the first `max` datagrams through and drops the rest: a reply storm between the
/// nodes (which needs no timer and would never let the simulated clock advance) ends after `max`.
struct Capped {
    max: u64,
}
impl crate::simnet::Policy for Capped {
    fn decide(&mut self, _: usize, _: usize, _: &[u8], seq: u64) -> crate::simnet::Verdict {
        if seq < self.max {
            crate::simnet::Verdict::Deliver
        } else {
            crate::simnet::Verdict::Drop
        }
    }
}

/// `sys` cases: two real `Matter` nodes (transport only, nobody accepts exchanges) on the simulated
/// network; unsolicited datagrams are injected and the wire is watched.
///  `inj <from> <to> <hex>`  datagram appears at node `to` as if sent by node `from`  => ok
///  `run <ms>`               both transports run for `ms` virtual ms  => `sent <by node 0> <by node 1>` (totals so far)
fn run_sys(out: &mut Out, ops: &[String]) {
    use crate::simnet::{run_sim, SimNet};
    use embassy_futures::select::select;
    use rs_matter::crypto::test_only_crypto;
    use rs_matter::dm::devices::test::{TEST_DEV_ATT, TEST_DEV_COMM, TEST_DEV_DET};
    use rs_matter::transport::network::NoNetwork;
    use rs_matter::Matter;

    embassy_time::MockDriver::get().reset();
    let net = SimNet::new(2, Box::new(Capped { max: 60 }));
    let n0 = Box::new(Matter::new(&TEST_DEV_DET, TEST_DEV_COMM, &TEST_DEV_ATT, 0));
    let n1 = Box::new(Matter::new(&TEST_DEV_DET, TEST_DEV_COMM, &TEST_DEV_ATT, 0));
    let crypto = test_only_crypto();
    let s0 = net.socket(0);
    let s1 = net.socket(1);
    let mut fut = core::pin::pin!(select(n0.run(&crypto, &s0, &s0, NoNetwork), n1.run(&crypto, &s1, &s1, NoNetwork)));
    for op in ops {
        let w: Vec<&str> = op.split_whitespace().collect();
        let r: String = match w.first().copied().unwrap_or("") {
            "inj" => {
                let from: usize = w.get(1).and_then(|t| t.parse().ok()).unwrap_or(1).min(1);
                let to: usize = w.get(2).and_then(|t| t.parse().ok()).unwrap_or(0).min(1);
                net.inject(from, to, &crate::proto::unhex(w.get(3).copied().unwrap_or("-")));
                "ok".into()
            }
            "run" => {
                let ms: u64 = w.get(1).and_then(|t| t.parse().ok()).unwrap_or(100).min(60_000);
                let _ = run_sim(&net, fut.as_mut(), ms);
                let log = net.log();
                format!("sent {} {}", log.iter().filter(|l| l.from == 0).count(), log.iter().filter(|l| l.from == 1).count())
            }
            _ => "bad".into(),
        };
        out.stat(&format!("sys_{}", w.first().copied().unwrap_or("?")), 1);
        out.op(op, &r);
    }
}

/// an unsolicited datagram: plain header (flags, session id, counter, optional node ids), protocol
/// header (exchange flags, opcode, exchange id, protocol id), 8 bytes of status-report-like payload
fn gen_datagram(r: &mut Rng) -> String {
    let mut b: Vec<u8> = Vec::new();
    let dsiz = *r.pick(&[0u8, 1, 1, 2]);
    let src = r.chance(1, 3);
    b.push(dsiz | if src { 0x04 } else { 0 });
    let sess: u16 = if r.chance(2, 3) { 0 } else { r.range(1, 65535) as u16 };
    b.extend_from_slice(&sess.to_le_bytes());
    b.push(0);
    b.extend_from_slice(&(r.below(1 << 32) as u32).to_le_bytes());
    if src {
        b.extend_from_slice(&r.next().to_le_bytes());
    }
    match dsiz {
        1 => b.extend_from_slice(&r.next().to_le_bytes()),
        2 => b.extend_from_slice(&(r.below(65536) as u16).to_le_bytes()),
        _ => {}
    }
    // exchange flags: I=1, A=2, R=4; never a new-session request (opcodes 0x20 / 0x30 excluded)
    let xf = *r.pick(&[0u8, 0, 1, 2, 4, 5, 6]);
    b.push(xf);
    b.push(*r.pick(&[0x40u8, 0x40, 0x10, 0x21, 0x22, 0x31, 0x02, 0x05]));
    b.extend_from_slice(&(r.below(65536) as u16).to_le_bytes());
    b.extend_from_slice(&(*r.pick(&[0u16, 0, 1])).to_le_bytes());
    if xf & 2 != 0 {
        b.extend_from_slice(&(r.below(1 << 32) as u32).to_le_bytes());
    }
    b.extend_from_slice(&[1, 0, 0, 0, 0, 0, 4, 0]);
    crate::proto::hex(&b)
}


const SYS2_RULE: &str = "sys2 cases (system level): a REAL device Matter whose exchanges are served by 0-3 harness application handlers plus the watchdog's own, and two real controller nodes, on the simulated network (0-20 ms latency) under virtual time, after a real PASE handshake; 2-7 client exchanges tagged k run concurrently on the PASE session and on fresh unsecured sessions from both controllers (pairs of unsecured exchanges from different peers carry the SAME exchange id and interleave their messages): n pings each answered by an echo; the handler that accepts tag k echoes, answers late, never answers, or is dropped by the executor n ms after it received message j; with fewer handlers than exchanges some are accepted late or never (accept time-out); client tasks are cancelled mid-send (their node then closes the session under the other exchanges), 'flood' opens more exchanges than a session has slots (the device closes the session while messages are in flight); a watchdog exchange on its own session is pinged every 100-400 ms throughout; then 60-130 s of virtual time, the REAL tables and the longest stay of one message in the RX slot are read and a fresh exchange is probed";

fn gen_sys2(id: u64, r: &mut Rng) -> (String, Vec<String>) {
    let h = r.range(0, 3);
    let kind = format!("sys2 H={} lat={}", h, *r.pick(&[0u64, 2, 5, 5, 20]));
    let mut ops: Vec<String> = vec![format!("w gap={}", *r.pick(&[100u64, 200, 300, 400]))];
    let n_x = r.range(2, (h + 4).min(7));
    let mut t = r.range(60, 200);
    let mut k = 0u64;
    // a pair of unsecured exchanges from different peers with the same exchange id, interleaved
    let twin = id % 2 == 0;
    let twin_xid = r.range(1, 65000);
    let mut xs: Vec<String> = Vec::new();
    for i in 0..n_x {
        k += 1;
        let beh = match r.below(10) {
            0 | 1 => format!("stall:{}", *r.pick(&[50u64, 400, 1200, 3000])),
            2 | 3 => format!("dropat:{}:{}", r.below(3), *r.pick(&[0u64, 1, 3, 7, 12, 30])),
            4 => "mute".to_string(),
            _ => "echo".to_string(),
        };
        ops.push(format!("b {} {}", k, beh));
        let (sess, extra) = if twin && i < 2 {
            ("u", format!(" c={} xid={}", i + 1, twin_xid))
        } else if r.chance(3, 5) {
            ("p", String::new())
        } else {
            ("u", format!(" c={}", r.range(1, 2)))
        };
        let cancel = if !(twin && i < 2) && r.chance(1, 7) { format!(" cancel={}", r.range(0, 60)) } else { String::new() };
        let at = if twin && i == 1 { t + r.below(3) } else { t };
        xs.push(format!("x {} s={} at={} n={} gap={}{}{}", k, sess, at, r.range(1, 6), *r.pick(&[0u64, 10, 50, 200]), cancel, extra));
        t += *r.pick(&[0u64, 0, 5, 20, 100, 600]);
    }
    ops.extend(xs);
    if r.chance(1, 6) {
        ops.push(format!("flood at={} n={}", t + r.range(0, 500), r.range(5, 7)));
    }
    ops.push(format!("quiesce {}", *r.pick(&[70_000u64, 100_000, 130_000])));
    ops.push("probe".into());
    (kind, ops)
}

pub fn gen(a: &Args) -> String {
    let mut r = Rng::new(a.seed);
    let mut out = Out::default();
    out.buf.push_str(&format!("#rule {} || {} || {}\n", RULE, SYS2_RULE, node::NODE_RULE));
    let n_cases = if a.thorough { 60000 } else { 8000 };
    for id in 0..n_cases {
        let mut cr = r.fork();
        let len = if a.thorough { cr.range(5, 150) } else { cr.range(5, 60) } as usize;
        out.case(id, "tab");
        gen_case(&mut cr, &mut out, len);
    }
    // node level: the receive path step by step on the real RX slot (tie of Model/RxPath)
    let n_node = if a.thorough { 20000 } else { 2500 };
    for id in 0..n_node {
        let mut cr = r.fork();
        let len = if a.thorough { cr.range(5, 120) } else { cr.range(5, 50) } as usize;
        out.case(1_000_000 + id, "node");
        node::gen_node(&mut cr, &mut out, len);
    }
    // system level: unsolicited datagrams between two real nodes
    let n_sys = if a.thorough { 400 } else { 40 };
    for id in 0..n_sys {
        let mut cr = r.fork();
        let mut ops = Vec::new();
        for _ in 0..cr.range(1, 3) {
            ops.push(format!("inj {} {} {}", cr.below(2), cr.below(2), gen_datagram(&mut cr)));
            ops.push(format!("run {}", *cr.pick(&[10u64, 100, 1000])));
        }
        ops.push("run 2000".into());
        out.case(n_cases + id, "sys");
        run_sys(&mut out, &ops);
    }
    // system level: real handlers, concurrent exchanges, cancellations
    let n_sys2 = if a.thorough { 3000 } else { 300 };
    for id in 0..n_sys2 {
        let mut cr = r.fork();
        let (kind, ops) = gen_sys2(id, &mut cr);
        out.case(n_cases + n_sys + id, &kind);
        sys2::run_sys2(&mut out, &kind, &ops);
    }
    out.finish()
}

pub fn replay(a: &Args) -> String {
    let text = std::fs::read_to_string(a.input.as_ref().expect("--in")).expect("read input");
    let mut out = Out::default();
    for c in parse_cases(&text) {
        if c.kind.starts_with("node") {
            out.case(c.id, &c.kind);
            node::run_node(&mut out, &c);
        } else if c.kind.starts_with("sys2") {
            out.case(c.id, &c.kind);
            sys2::run_sys2(&mut out, &c.kind, &c.ops);
        } else if c.kind.starts_with("sys") {
            out.case(c.id, &c.kind);
            run_sys(&mut out, &c.ops);
        } else {
            tc::run_case(&mut out, &c);
        }
    }
    out.finish()
}
