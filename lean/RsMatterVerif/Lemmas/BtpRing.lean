import RsMatterVerif.Model.BtpRing
/-!
# The index arithmetic of `RingBuf` refines a bounded FIFO of bytes

`contents r` reads the occupied part of the storage from `start`, wrapping at `N`; `RingInv` is the
representation invariant (`start, end < N` once allocated, `start = end` when empty). Every
operation of `ringbuf.rs` (`push` incl. the overflow that drops the oldest bytes, `pop`,
`push_byte`, `pop_byte`, `clear`, `len`, `free`, `is_full`, `is_empty`) is proved to act on
`contents` as the corresponding operation of the byte queue (`qPush`, `qPop`).
-/
namespace Btp
namespace Ring

/-- physical index of the `i`-th byte of the contents -/
def idx (r : Ring) (i : Nat) : Nat := if r.start + i < r.n then r.start + i else r.start + i - r.n

/-- the bytes in the buffer, oldest first -/
def contents (r : Ring) : List Nat := (List.range r.len).map (fun i => r.mem (r.idx i))

structure RingInv (r : Ring) : Prop where
  pos : 0 < r.n
  alloc : r.alloc = true → r.start < r.n ∧ r.end_ < r.n
  fresh : r.alloc = false → r.start = 0 ∧ r.end_ = 0 ∧ r.nonEmpty = false
  empty : r.nonEmpty = false → r.start = r.end_

theorem inv_new (n : Nat) (h : 0 < n) : RingInv (Ring.new n) :=
  { pos := h, alloc := (fun h => by cases h), fresh := (fun _ => ⟨rfl, rfl, rfl⟩), empty := (fun _ => rfl) }

@[simp] theorem contents_length (r : Ring) : r.contents.length = r.len := by simp [contents]

theorem len_le {r : Ring} (h : RingInv r) : r.len ≤ r.n := by
  unfold len bufLen
  cases ha : r.alloc
  · have := h.fresh ha; simp [this.2.2]
  · have := h.alloc ha
    split
    · omega
    · split <;> simp <;> omega

theorem getElem_contents (r : Ring) (i : Nat) (h : i < r.contents.length) :
    r.contents[i] = r.mem (r.idx i) := by
  simp [contents]

theorem wrap_fields (r : Ring) :
    r.wrap.n = r.n ∧ r.wrap.alloc = r.alloc ∧ r.wrap.mem = r.mem ∧ r.wrap.nonEmpty = r.nonEmpty ∧
    r.wrap.start = (if r.start = r.bufLen then 0 else r.start) ∧
    r.wrap.end_ = (if r.end_ = r.bufLen then 0 else r.end_) := by
  exact ⟨rfl, rfl, rfl, rfl, rfl, rfl⟩

/-- fields of the ring after one chunk has been copied in -/
theorem pushChunk_fields (r : Ring) (ch : List Nat) (ha : r.alloc = true) :
    (r.pushChunk ch).n = r.n ∧ (r.pushChunk ch).alloc = true ∧ (r.pushChunk ch).nonEmpty = true ∧
    (r.pushChunk ch).mem = (fun i => if r.end_ ≤ i ∧ i < r.end_ + ch.length then ch.getD (i - r.end_) 0 else r.mem i) ∧
    (r.pushChunk ch).end_ = (if r.end_ + ch.length = r.n then 0 else r.end_ + ch.length) ∧
    (r.pushChunk ch).start =
      (if (if (r.nonEmpty && decide (r.start ≥ r.end_) && decide (r.start < r.end_ + ch.length)) = true
            then r.end_ + ch.length else r.start) = r.n then 0
       else (if (r.nonEmpty && decide (r.start ≥ r.end_) && decide (r.start < r.end_ + ch.length)) = true
            then r.end_ + ch.length else r.start)) := by
  refine ⟨rfl, ha, rfl, rfl, ?_, ?_⟩ <;> simp only [pushChunk, wrap, bufLen, ha, if_true]

theorem chunk_key (n s e k S E L L' : Nat) (ne : Bool)
    (hs : s < n) (he : e < n) (h1 : 1 ≤ k) (h2 : k ≤ n - e) (hemp : ne = false → s = e)
    (f5 : E = if e + k = n then 0 else e + k)
    (f6 : S = if ne = true ∧ e ≤ s ∧ s < e + k then (if e + k = n then 0 else e + k) else s)
    (hlen : L = if ne = false then 0 else if s < e then e - s else n + e - s)
    (hlen' : L' = if S < E then E - S else n + E - S) :
    S < n ∧ E < n ∧ L' = min n (L + k) := by
  cases ne
  · have := hemp rfl
    simp only [Bool.false_eq_true, false_and, if_false, if_true] at f6 hlen
    split at f5 <;> split at hlen' <;> omega
  · simp only [Bool.true_eq_false, if_false, true_and] at f6 hlen
    split at f5 <;> split at f6 <;> split at hlen' <;> split at hlen <;> omega

theorem chunk_arith (n s e k S L i p : Nat) (ne : Bool)
    (hs : s < n) (he : e < n) (h1 : 1 ≤ k) (h2 : k ≤ n - e) (hemp : ne = false → s = e)
    (f6 : S = if ne = true ∧ e ≤ s ∧ s < e + k then (if e + k = n then 0 else e + k) else s)
    (hlen : L = if ne = false then 0 else if s < e then e - s else n + e - s)
    (hi : i < min n (L + k))
    (hpc : (S + i < n ∧ p = S + i) ∨ (n ≤ S + i ∧ p = S + i - n)) :
    (e ≤ p ∧ p < e + k → ¬ (L + k - n + i < L) ∧ p - e = L + k - n + i - L ∧ L + k - n + i - L < k) ∧
    (¬ (e ≤ p ∧ p < e + k) → L + k - n + i < L ∧
      ((s + (L + k - n + i) < n ∧ s + (L + k - n + i) = p) ∨
       (n ≤ s + (L + k - n + i) ∧ s + (L + k - n + i) - n = p))) := by
  cases ne
  · have := hemp rfl
    simp only [Bool.false_eq_true, false_and, if_false, if_true] at f6 hlen
    omega
  · simp only [Bool.true_eq_false, if_false, true_and] at f6 hlen
    split at f6 <;> (try split at f6) <;> split at hlen <;> omega

theorem len_eq {r : Ring} (ha : r.alloc = true) :
    r.len = if r.nonEmpty = false then 0 else if r.start < r.end_ then r.end_ - r.start else r.n + r.end_ - r.start := by
  unfold len bufLen
  cases r.nonEmpty <;> simp [ha]

theorem idx_cases (r : Ring) (i : Nat) :
    (r.start + i < r.n ∧ r.idx i = r.start + i) ∨ (r.n ≤ r.start + i ∧ r.idx i = r.start + i - r.n) := by
  unfold idx; split
  · left; exact ⟨by assumption, rfl⟩
  · right; exact ⟨by omega, rfl⟩

/-- the new `start` / `end` after a chunk, in closed form -/
theorem pushChunk_pos {r : Ring} (ha : r.alloc = true) (hs : r.start < r.n) (ch : List Nat) :
    (r.pushChunk ch).end_ = (if r.end_ + ch.length = r.n then 0 else r.end_ + ch.length) ∧
    (r.pushChunk ch).start =
      (if r.nonEmpty = true ∧ r.end_ ≤ r.start ∧ r.start < r.end_ + ch.length then
        (if r.end_ + ch.length = r.n then 0 else r.end_ + ch.length) else r.start) := by
  obtain ⟨_, _, _, _, f5, f6⟩ := pushChunk_fields r ch ha
  refine ⟨f5, ?_⟩
  rw [f6]
  by_cases hd : r.nonEmpty = true ∧ r.end_ ≤ r.start ∧ r.start < r.end_ + ch.length
  · have : (r.nonEmpty && decide (r.start ≥ r.end_) && decide (r.start < r.end_ + ch.length)) = true := by
      simp [hd.1, hd.2.1, hd.2.2]
    rw [if_pos hd]
    simp only [this, if_true]
  · have : (r.nonEmpty && decide (r.start ≥ r.end_) && decide (r.start < r.end_ + ch.length)) = false := by
      cases hne : r.nonEmpty
      · simp
      · simp only [hne, true_and] at hd
        simp only [Bool.true_and, Bool.and_eq_false_iff, decide_eq_false_iff_not]
        omega
    rw [if_neg hd]
    have h3 : r.start ≠ r.n := by omega
    simp only [this, Bool.false_eq_true, if_false, h3]

theorem pushChunk_spec {r : Ring} (hi : RingInv r) (ha : r.alloc = true) {ch : List Nat}
    (h1 : 1 ≤ ch.length) (h2 : ch.length ≤ r.n - r.end_) :
    RingInv (r.pushChunk ch) ∧ (r.pushChunk ch).alloc = true ∧ (r.pushChunk ch).n = r.n ∧
    (r.pushChunk ch).contents = qPush r.n r.contents ch := by
  obtain ⟨f1, f2, f3, f4, _, _⟩ := pushChunk_fields r ch ha
  obtain ⟨hs, he⟩ := hi.alloc ha
  obtain ⟨f5, f6⟩ := pushChunk_pos ha hs ch
  have hlen := len_eq ha
  have hlen' := len_eq (r := r.pushChunk ch) f2
  rw [f1, f3] at hlen'
  simp only [Bool.true_eq_false, if_false] at hlen'
  have key := chunk_key r.n r.start r.end_ ch.length _ _ _ _ r.nonEmpty hs he h1 h2 hi.empty f5 f6 hlen hlen'
  obtain ⟨kS, kE, kL⟩ := key
  have hinv : RingInv (r.pushChunk ch) :=
    { pos := (by rw [f1]; exact hi.pos), alloc := (fun _ => by rw [f1]; exact ⟨kS, kE⟩),
      fresh := (fun h => by rw [f2] at h; cases h), empty := (fun h => by rw [f3] at h; cases h) }
  refine ⟨hinv, f2, f1, ?_⟩
  apply List.ext_getElem
  · simp only [contents_length, qPush, List.length_drop, List.length_append]; omega
  · intro i hi1 hi2
    simp only [contents_length] at hi1
    rw [getElem_contents]
    simp only [qPush, List.getElem_drop, List.getElem_append, contents_length, List.length_append]
    rw [f4]
    simp only []
    have hpc := idx_cases (r.pushChunk ch) i
    rw [f1] at hpc
    have arith := chunk_arith r.n r.start r.end_ ch.length _ _ i _ r.nonEmpty hs he h1 h2 hi.empty f6 hlen
      (by omega) hpc
    split
    · rename_i hin
      obtain ⟨a1, a2, a3⟩ := arith.1 hin
      rw [dif_neg a1, List.getD_eq_getElem?_getD, List.getElem?_eq_getElem (by omega)]
      simp only [Option.getD_some, a2]
    · rename_i hout
      obtain ⟨a1, a2⟩ := arith.2 hout
      rw [dif_pos a1, getElem_contents]
      congr 1
      rcases idx_cases r (r.len + ch.length - r.n + i) with ⟨b1, b2⟩ | ⟨b1, b2⟩ <;> rw [b2] <;> omega


theorem qPush_nil {n : Nat} {q : List Nat} (h : q.length ≤ n) : qPush n q [] = q := by
  have : q.length - n = 0 := by omega
  simp [qPush, this]

theorem qPush_qPush (n : Nat) (c a b : List Nat) : qPush n (qPush n c a) b = qPush n c (a ++ b) := by
  unfold qPush
  have hx : (c ++ a).length - n ≤ (c ++ a).length := Nat.sub_le _ _
  rw [← List.drop_append_of_le_length hx, List.drop_drop]
  congr 1
  · simp only [List.length_append, List.length_drop]; omega
  · simp

/-- **`push` (the whole chunked loop, overflow included) is `qPush`** -/
theorem pushLoop_spec : ∀ (fuel : Nat) {r : Ring} {d : List Nat}, RingInv r → r.alloc = true → d.length ≤ fuel →
    RingInv (pushLoop fuel r d) ∧ (pushLoop fuel r d).alloc = true ∧ (pushLoop fuel r d).n = r.n ∧
    (pushLoop fuel r d).contents = qPush r.n r.contents d := by
  intro fuel
  induction fuel with
  | zero =>
    intro r d hi ha hd
    have : d = [] := List.eq_nil_of_length_eq_zero (by omega)
    subst this
    simp only [pushLoop]
    exact ⟨hi, ha, trivial, (qPush_nil (by rw [contents_length]; exact len_le hi)).symm⟩
  | succ fuel ih =>
    intro r d hi ha hd
    simp only [pushLoop]
    by_cases h0 : d.length = 0
    · have : d = [] := List.eq_nil_of_length_eq_zero h0
      subst this
      simp only [List.length_nil, if_true]
      exact ⟨hi, ha, trivial, (qPush_nil (by rw [contents_length]; exact len_le hi)).symm⟩
    · simp only [h0, if_false]
      obtain ⟨hs, he⟩ := hi.alloc ha
      have hb : r.bufLen = r.n := by simp [bufLen, ha]
      rw [hb]
      have hl : (d.take (min (r.n - r.end_) d.length)).length = min (r.n - r.end_) d.length := by
        simp only [List.length_take]; omega
      obtain ⟨c1, c2, c3, c4⟩ := pushChunk_spec hi ha (ch := d.take (min (r.n - r.end_) d.length))
        (by rw [hl]; omega) (by rw [hl]; omega)
      obtain ⟨i1, i2, i3, i4⟩ := ih c1 c2 (d := d.drop (min (r.n - r.end_) d.length))
        (by simp only [List.length_drop]; omega)
      refine ⟨i1, i2, i3.trans c3, ?_⟩
      rw [i4, c3, c4, qPush_qPush, List.take_append_drop]

theorem push_spec {r : Ring} (hi : RingInv r) (d : List Nat) :
    RingInv (r.push d) ∧ (r.push d).n = r.n ∧ (r.push d).contents = qPush r.n r.contents d := by
  have hi0 : RingInv { r with alloc := true } := by
    refine { pos := hi.pos, alloc := (fun _ => ?_), fresh := (fun h => by cases h), empty := hi.empty }
    cases ha : r.alloc
    · obtain ⟨a, b, _⟩ := hi.fresh ha
      show r.start < r.n ∧ r.end_ < r.n
      rw [a, b]; exact ⟨hi.pos, hi.pos⟩
    · exact hi.alloc ha
  have hc : ({ r with alloc := true } : Ring).contents = r.contents := by
    unfold contents idx len bufLen
    cases ha : r.alloc
    · obtain ⟨a, b, c⟩ := hi.fresh ha
      simp [c]
    · rfl
  obtain ⟨p1, _, p3, p4⟩ := pushLoop_spec d.length hi0 rfl (Nat.le_refl _)
  exact ⟨p1, p3, by rw [← hc]; exact p4⟩

theorem pop_key (n s e want K S' L L' : Nat) (ne' : Bool) (hs : s < n) (he : e < n) (hw : 1 ≤ want)
    (hL : L = if s < e then e - s else n + e - s)
    (hK : K = min ((if s < e then e else n) - s) want)
    (hS : S' = if s + K = n then 0 else s + K)
    (hne : ne' = if S' = e then false else true)
    (hL' : L' = if ne' = false then 0 else if S' < e then e - S' else n + e - S') :
    1 ≤ K ∧ K ≤ want ∧ K ≤ L ∧ S' < n ∧ L' = L - K ∧ (ne' = false → S' = e) ∧ s + K ≤ n := by
  by_cases hse : s < e
  · simp only [hse, if_true] at hL hK
    by_cases hw : s + K = n
    · omega
    · simp only [hw, if_false] at hS
      by_cases hSe : S' = e
      · simp only [hSe, if_true] at hne
        simp only [hne, if_true] at hL'
        refine ⟨by omega, by omega, by omega, by omega, by omega, fun _ => hSe, by omega⟩
      · simp only [hSe, if_false] at hne
        simp only [hne, Bool.true_eq_false, if_false] at hL'
        refine ⟨by omega, by omega, by omega, by omega, ?_, (fun h => by rw [hne] at h; cases h), by omega⟩
        split at hL' <;> omega
  · simp only [hse, if_false] at hL hK
    by_cases hw : s + K = n
    · simp only [hw, if_true] at hS
      by_cases hSe : S' = e
      · simp only [hSe, if_true] at hne
        simp only [hne, if_true] at hL'
        refine ⟨by omega, by omega, by omega, by omega, by omega, fun _ => hSe, by omega⟩
      · simp only [hSe, if_false] at hne
        simp only [hne, Bool.true_eq_false, if_false] at hL'
        refine ⟨by omega, by omega, by omega, by omega, ?_, (fun h => by rw [hne] at h; cases h), by omega⟩
        split at hL' <;> omega
    · simp only [hw, if_false] at hS
      by_cases hSe : S' = e
      · omega
      · simp only [hSe, if_false] at hne
        simp only [hne, Bool.true_eq_false, if_false] at hL'
        refine ⟨by omega, by omega, by omega, by omega, ?_, (fun h => by rw [hne] at h; cases h), by omega⟩
        split at hL' <;> omega

theorem pop_idx (n s e want K S' L i : Nat) (hs : s < n) (he : e < n) (hw : 1 ≤ want)
    (hL : L = if s < e then e - s else n + e - s)
    (hK : K = min ((if s < e then e else n) - s) want)
    (hS : S' = if s + K = n then 0 else s + K) (hi : i < L - K) :
    (if S' + i < n then S' + i else S' + i - n) = (if s + (K + i) < n then s + (K + i) else s + (K + i) - n) := by
  by_cases hse : s < e
  · simp only [hse, if_true] at hL hK
    split at hS <;> split <;> split <;> omega
  · simp only [hse, if_false] at hL hK
    split at hS <;> split <;> split <;> omega


theorem len_empty {r : Ring} (h : r.nonEmpty = false) : r.len = 0 := by
  unfold len; simp [h]

/-- one iteration of the `pop` loop takes the first `K ≥ 1` bytes of the contents -/
theorem popChunk_spec {r : Ring} (hi : RingInv r) (ha : r.alloc = true) (hne : r.nonEmpty = true)
    {want : Nat} (hw : 1 ≤ want) :
    RingInv (r.popChunk want).1 ∧ (r.popChunk want).1.alloc = true ∧ (r.popChunk want).1.n = r.n ∧
    1 ≤ (r.popChunk want).2.length ∧ (r.popChunk want).2.length ≤ want ∧
    (r.popChunk want).2 = r.contents.take (r.popChunk want).2.length ∧
    (r.popChunk want).1.contents = r.contents.drop (r.popChunk want).2.length := by
  obtain ⟨hs, he⟩ := hi.alloc ha
  have hb : r.bufLen = r.n := by simp [bufLen, ha]
  have hlen := len_eq ha
  simp only [hne, Bool.true_eq_false, if_false] at hlen
  -- name the pieces
  obtain ⟨K, hK⟩ : ∃ K, K = min ((if r.start < r.end_ then r.end_ else r.n) - r.start) want := ⟨_, rfl⟩
  obtain ⟨S', hS⟩ : ∃ S', S' = if r.start + K = r.n then 0 else r.start + K := ⟨_, rfl⟩
  obtain ⟨ne', hne'⟩ : ∃ ne' : Bool, ne' = if S' = r.end_ then false else true := ⟨_, rfl⟩
  have hout : (r.popChunk want).2 = (List.range K).map (fun i => r.mem (r.start + i)) := by
    simp only [popChunk, bufLen, ha, if_true, hK]
  have hr' : (r.popChunk want).1 = { r with start := S', nonEmpty := ne' } := by
    have e1 : (if r.end_ = r.n then 0 else r.end_) = r.end_ := by
      have : r.end_ ≠ r.n := by omega
      simp only [this, if_false]
    simp only [popChunk, wrap, bufLen, ha, if_true, ← hK, ← hS, e1, hne, hne']
  have hl' : ({ r with start := S', nonEmpty := ne' } : Ring).len =
      if ne' = false then 0 else if S' < r.end_ then r.end_ - S' else r.n + r.end_ - S' := by
    rw [len_eq (by exact ha)]
  obtain ⟨k1, k2, k3, k4, k5, k6, k7⟩ := pop_key r.n r.start r.end_ want K S' r.len _ ne' hs he hw hlen hK hS hne' hl'
  have hlo : (r.popChunk want).2.length = K := by rw [hout]; simp
  rw [hlo, hr']
  refine ⟨?_, ha, rfl, k1, k2, ?_, ?_⟩
  · exact { pos := hi.pos, alloc := (fun _ => ⟨k4, he⟩), fresh := (fun h => by rw [ha] at h; cases h),
            empty := k6 }
  · rw [hout]
    apply List.ext_getElem
    · simp only [List.length_map, List.length_range, List.length_take, contents_length]; omega
    · intro i h1 h2
      simp only [List.length_map, List.length_range] at h1
      simp only [List.getElem_map, List.getElem_range, List.getElem_take, getElem_contents]
      congr 1
      rcases idx_cases r i with ⟨_, b⟩ | ⟨b1, _⟩
      · exact b.symm
      · omega
  · apply List.ext_getElem
    · simp only [contents_length, List.length_drop]; omega
    · intro i h1 h2
      simp only [contents_length] at h1
      simp only [List.getElem_drop, getElem_contents]
      congr 1
      exact pop_idx r.n r.start r.end_ want K S' r.len i hs he hw hlen hK hS (by omega)

/-- **`pop` (the whole loop) hands out the first `want` bytes (or all of them)** -/
theorem popLoop_spec : ∀ (fuel : Nat) {r : Ring} {want : Nat} {acc : List Nat}, RingInv r → want ≤ fuel →
    RingInv (popLoop fuel r want acc).1 ∧ (popLoop fuel r want acc).1.n = r.n ∧
    (popLoop fuel r want acc).2 = acc ++ r.contents.take want ∧
    (popLoop fuel r want acc).1.contents = r.contents.drop want := by
  intro fuel
  induction fuel with
  | zero =>
    intro r want acc hi hw
    have : want = 0 := by omega
    subst this
    simp [popLoop, hi]
  | succ fuel ih =>
    intro r want acc hi hw
    simp only [popLoop]
    by_cases hc : (want = 0 || !r.nonEmpty) = true
    · simp only [hc, if_true]
      simp only [Bool.or_eq_true, decide_eq_true_eq, Bool.not_eq_true'] at hc
      rcases hc with h0 | h0
      · subst h0; simp [hi]
      · have : r.contents = [] := by
          apply List.eq_nil_of_length_eq_zero; rw [contents_length]; exact len_empty h0
        simp [hi, this]
    · simp only [hc, Bool.false_eq_true, if_false]
      simp only [Bool.or_eq_true, decide_eq_true_eq, Bool.not_eq_true', not_or, Bool.not_eq_false] at hc
      obtain ⟨hw0, hne⟩ := hc
      have ha : r.alloc = true := by
        cases h : r.alloc
        · have := (hi.fresh h).2.2; rw [hne] at this; cases this
        · rfl
      obtain ⟨c1, c2, c3, c4, c5, c6, c7⟩ := popChunk_spec hi ha hne (want := want) (by omega)
      obtain ⟨i1, i2, i3, i4⟩ := ih (r := (r.popChunk want).1) (want := want - (r.popChunk want).2.length)
        (acc := acc ++ (r.popChunk want).2) c1 (by omega)
      refine ⟨i1, i2.trans c3, ?_, ?_⟩
      · rw [i3, c7, List.append_assoc]
        congr 1
        have e : want = (r.popChunk want).2.length + (want - (r.popChunk want).2.length) := by omega
        conv => rhs; rw [e, List.take_add]
        congr 1
      · rw [i4, c7, List.drop_drop]; congr 1; omega

theorem pop_spec {r : Ring} (hi : RingInv r) (k : Nat) :
    RingInv (r.pop k).1 ∧ (r.pop k).1.n = r.n ∧ (r.pop k).2 = r.contents.take k ∧
    (r.pop k).1.contents = r.contents.drop k := by
  obtain ⟨a, b, c, d⟩ := popLoop_spec k (r := r) (want := k) (acc := []) hi (Nat.le_refl _)
  exact ⟨a, b, by simpa [pop] using c, d⟩

theorem pushByte_eq (r : Ring) (b : Nat) : r.pushByte b = ({ r with alloc := true } : Ring).pushChunk [b] := by
  have hm : (fun i => if i = r.end_ then b else r.mem i) =
      (fun i => if r.end_ ≤ i ∧ i < r.end_ + [b].length then [b].getD (i - r.end_) 0 else r.mem i) := by
    funext i
    by_cases h : i = r.end_
    · subst h; simp
    · have : ¬ (r.end_ ≤ i ∧ i < r.end_ + [b].length) := by simp; omega
      simp only [h, if_false, this]
  have hc : (r.nonEmpty && r.start == r.end_) =
      (r.nonEmpty && decide (r.start ≥ r.end_) && decide (r.start < r.end_ + [b].length)) := by
    cases r.nonEmpty
    · simp
    · simp only [Bool.true_and, List.length_singleton]
      by_cases h : r.start = r.end_
      · rw [h]; simp
      · have : (r.start == r.end_) = false := by simpa using h
        rw [this]
        by_cases h2 : r.start ≥ r.end_
        · have : ¬ (r.start < r.end_ + 1) := by omega
          simp [this]
        · simp [h2]
  unfold pushByte pushChunk
  simp only [hm, hc, List.length_singleton]


theorem inv_alloc {r : Ring} (hi : RingInv r) : RingInv { r with alloc := true } ∧
    ({ r with alloc := true } : Ring).contents = r.contents := by
  constructor
  · refine { pos := hi.pos, alloc := (fun _ => ?_), fresh := (fun h => by cases h), empty := hi.empty }
    cases ha : r.alloc
    · obtain ⟨a, b, _⟩ := hi.fresh ha
      show r.start < r.n ∧ r.end_ < r.n
      rw [a, b]; exact ⟨hi.pos, hi.pos⟩
    · exact hi.alloc ha
  · unfold contents idx len bufLen
    cases ha : r.alloc
    · obtain ⟨a, b, c⟩ := hi.fresh ha
      simp [c]
    · rfl

theorem pushByte_spec {r : Ring} (hi : RingInv r) (b : Nat) :
    RingInv (r.pushByte b) ∧ (r.pushByte b).n = r.n ∧ (r.pushByte b).contents = qPush r.n r.contents [b] := by
  obtain ⟨hi0, hc⟩ := inv_alloc hi
  obtain ⟨_, he⟩ := hi0.alloc rfl
  have he' : r.end_ < r.n := he
  obtain ⟨c1, _, c3, c4⟩ := pushChunk_spec hi0 rfl (ch := [b]) (by simp) (by simp; show 1 ≤ r.n - r.end_; omega)
  rw [pushByte_eq]
  exact ⟨c1, c3, by rw [c4, hc]⟩

theorem clear_spec {r : Ring} (hi : RingInv r) : RingInv r.clear ∧ r.clear.n = r.n ∧ r.clear.contents = [] := by
  refine ⟨{ pos := hi.pos, alloc := (fun _ => ⟨hi.pos, hi.pos⟩), fresh := (fun _ => ⟨rfl, rfl, rfl⟩),
            empty := (fun _ => rfl) }, rfl, ?_⟩
  apply List.eq_nil_of_length_eq_zero
  rw [contents_length]; exact len_empty rfl

/-- `is_full` / `is_empty` / `len` / `free` say what the contents say -/
theorem obs_spec {r : Ring} (hi : RingInv r) (out : List Nat) : r.obs out = qObs r.n r.contents out := by
  have hle := len_le hi
  unfold obs qObs free
  simp only [contents_length]
  congr 1
  · -- is_full
    unfold isFull
    cases ha : r.alloc
    · obtain ⟨_, _, c⟩ := hi.fresh ha
      have : r.len = 0 := len_empty c
      have hp := hi.pos
      simp only [c, Bool.and_false, this]
      have : (0 == r.n) = false := by simp; omega
      simp [this]
    · obtain ⟨hs, he⟩ := hi.alloc ha
      have hl := len_eq ha
      have hp := hi.pos
      cases hne : r.nonEmpty
      · simp only [hne, if_true] at hl
        have : (0 == r.n) = false := by simp; omega
        simp [hl, this]
      · simp only [hne, Bool.true_eq_false, if_false] at hl
        simp only [Bool.and_true, hp, decide_true]
        by_cases h : r.start = r.end_
        · have : r.len = r.n := by rw [hl, h]; simp
          simp [h, this]
        · have h1 : (r.start == r.end_) = false := by simpa using h
          have h2 : (r.len == r.n) = false := by
            simp only [beq_eq_false_iff_ne, ne_eq]
            split at hl <;> omega
          simp [h1, h2]
  · -- is_empty
    unfold isEmpty
    cases hne : r.nonEmpty
    · have : r.contents = [] := by
        apply List.eq_nil_of_length_eq_zero; rw [contents_length]; exact len_empty hne
      simp [this]
    · have ha : r.alloc = true := by
        cases h : r.alloc
        · have := (hi.fresh h).2.2; rw [hne] at this; cases this
        · rfl
      obtain ⟨hs, he⟩ := hi.alloc ha
      have hl := len_eq ha
      simp only [hne, Bool.true_eq_false, if_false] at hl
      have : r.contents ≠ [] := by
        intro h0
        have : r.contents.length = 0 := by rw [h0]; rfl
        rw [contents_length] at this
        split at hl <;> omega
      simp [this]

/-- the representation relation between the ring buffer and the byte queue -/
def Rep (n : Nat) (r : Ring) (q : List Nat) : Prop := RingInv r ∧ r.n = n ∧ r.contents = q

theorem rep_new (n : Nat) (h : 0 < n) : Rep n (Ring.new n) [] := by
  refine ⟨inv_new n h, rfl, ?_⟩
  apply List.eq_nil_of_length_eq_zero
  rw [contents_length]; exact len_empty rfl

/-- **Refinement, one operation**: if the ring represents the queue `q`, then after any operation
of `ringbuf.rs` it represents the queue after the corresponding queue operation, and the user
observes the same bytes / `len` / `free` / `is_full` / `is_empty`. -/
theorem step_refines {n : Nat} {r : Ring} {q : List Nat} (h : Rep n r q) (op : RingOp) :
    Rep n (r.step op).1 (qStep n q op).1 ∧ (r.step op).2 = (qStep n q op).2 := by
  obtain ⟨hi, hn, hq⟩ := h
  subst hn hq
  cases op with
  | push d =>
    obtain ⟨a, b, c⟩ := push_spec hi d
    exact ⟨⟨a, b, c⟩, by simp only [step, qStep]; rw [obs_spec a, b, c]⟩
  | pop k =>
    obtain ⟨a, b, c, d⟩ := pop_spec hi k
    refine ⟨⟨a, b, ?_⟩, ?_⟩
    · simp only [step, qStep, qPop]; exact d
    · simp only [step, qStep, qPop]; rw [obs_spec a, b, c, d]
  | pushByte x =>
    obtain ⟨a, b, c⟩ := pushByte_spec hi x
    exact ⟨⟨a, b, c⟩, by simp only [step, qStep]; rw [obs_spec a, b, c]⟩
  | popByte =>
    obtain ⟨a, b, c, d⟩ := pop_spec hi 1
    have hlen : (r.pop 1).2.length ≤ 1 := by rw [c]; simp; omega
    simp only [step, qStep, qPop, popByte]
    -- `pop_byte` = `pop` into a one-byte buffer
    match hm : r.pop 1 with
    | (r', [x]) =>
      rw [hm] at a b c d
      simp only at a b c d ⊢
      exact ⟨⟨a, b, d⟩, by rw [obs_spec a, b, d, c]⟩
    | (r', []) =>
      rw [hm] at a b c d
      simp only at a b c d ⊢
      exact ⟨⟨a, b, d⟩, by rw [obs_spec a, b, d, c]⟩
    | (r', x :: y :: t) =>
      rw [hm] at hlen; simp at hlen
  | clear =>
    obtain ⟨a, b, c⟩ := clear_spec hi
    exact ⟨⟨a, b, c⟩, by simp only [step, qStep]; rw [obs_spec a, b, c]⟩

/-- run a list of operations, collecting what the user observes -/
def run (r : Ring) : List RingOp → List RingObs
  | [] => []
  | op :: ops => (r.step op).2 :: run (r.step op).1 ops

def qRun (n : Nat) (q : List Nat) : List RingOp → List RingObs
  | [] => []
  | op :: ops => (qStep n q op).2 :: qRun n (qStep n q op).1 ops

/-- **`RingBuf<N>` refines the bounded byte FIFO**: for every capacity `N > 0` and every sequence
of `push` (any length, overflow included) / `pop` / `push_byte` / `pop_byte` / `clear`, a ring
buffer that starts empty hands out exactly the bytes, and reports exactly the `len`, `free`,
`is_full`, `is_empty`, of the byte queue — whatever the positions of `start` / `end` and however
often they wrap. -/
theorem ring_refines_queue (n : Nat) (hn : 0 < n) (ops : List RingOp) :
    run (Ring.new n) ops = qRun n [] ops := by
  suffices h : ∀ (ops : List RingOp) (r : Ring) (q : List Nat), Rep n r q → run r ops = qRun n q ops from
    h ops _ _ (rep_new n hn)
  intro ops
  induction ops with
  | nil => intro r q _; rfl
  | cons op ops ih =>
    intro r q h
    obtain ⟨h1, h2⟩ := step_refines h op
    simp only [run, qRun]
    rw [h2, ih _ _ h1]

end Ring
end Btp
