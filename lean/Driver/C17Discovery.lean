import RsMatterVerif.Model.Codec.BleRecovery
import RsMatterVerif.Model.Codec.Mdns
import RsMatterVerif.Model.Codec.MdnsService
import Driver.C17More
import Driver.Util
/-!
C17 driver, discovery records: the BLE network-recovery advertisement (`RecoveryAdvData`, sub-stream
`adv`, ops `rrt` and the 3rd/4th answer of `dec`) and the mDNS records (sub-stream `mdns2`).
The commissionable advertisement part of `adv` stays with `Driver.C17More.stepAdv`.
-/
namespace Driver.C17Discovery
open Codec Driver.C17U

/-! ### BLE recovery advertisement -/

def recShow (r : Except Err (Option BleRecovery.Rec)) : String :=
  match r with
  | .ok (some a) => s!"ok {hex a.id} {if a.additional then 1 else 0}"
  | .ok none => "none"
  | .error e => exErr e

/-- `adv` sub-stream: `rt` and the `AdvData` half of `dec` are answered by `C17More.stepAdv`; `rrt`
and the `RecoveryAdvData` half of `dec` are recomputed with `Model/Codec/BleRecovery.lean` -/
def stepAdv (op : List String) (out : String) : String :=
  if isPanic out then "ORA decoder panicked" else
  match op with
  | ["rrt", id] =>
    match unhex id with
    | none => "BAD hex"
    | some idb =>
      -- the harness copies the first 8 bytes into a zeroed `[u8; 8]`
      let idb := idb.take 8 ++ List.replicate (8 - min 8 idb.length) 0
      let r : BleRecovery.Rec := { id := idb, additional := false }
      let full := BleRecovery.encode r
      let svc := BleRecovery.servicePayload r
      let model := s!"{hex full} {recShow (BleRecovery.parseAdv full)} | {hex svc} {recShow (BleRecovery.parseServiceData svc)}"
      -- oracle (independent of the model): both parsers return the id that was encoded, flag clear
      let want := s!"ok {hex idb} 0"
      let ora : Option String := match out.splitOn " | " with
        | [a, b] =>
          if (splitFirst a).2 = want ∧ (splitFirst b).2 = want then none
          else some s!"recovery advertisement round trip: want [{want}] got [{out}]"
        | _ => some s!"recovery advertisement round trip failed: {out}"
      verdict model out ora
  | ["dec", h] =>
    match unhex h, out.splitOn " | " with
    | some bs, [_, _, c, d] =>
      let first := Driver.C17More.stepAdv op out
      if first ≠ "ok" then first
      else
        let model := s!"{recShow (BleRecovery.parseAdv bs)} | {recShow (BleRecovery.parseServiceData bs)}"
        -- oracle: a payload shorter than 11 bytes or with an opcode other than 1 is never a recovery record
        let ora : Option String :=
          if (bs.length < 11 ∨ bs.head? ≠ some 1) ∧ d ≠ "none" then some s!"short / foreign-opcode payload accepted as recovery data: {d}"
          else none
        verdict model s!"{c} | {d}" ora
    | _, _ => "BAD dec"
  | _ => Driver.C17More.stepAdv op out

/-! ### mDNS (`mdns2`) -/

open Codec.Mdns in
def labelsShow (ls : List (List Nat)) : String :=
  if ls.isEmpty then "." else ".".intercalate (ls.map hex)

def mErr (e : Mdns.PErr) : String :=
  match e with
  | .panic => "panic"
  | .fuel => "fuel"
  | .shortMessage => "err MdnsError"
  | .bufferTooSmall => "err BufferTooSmall"
  | e => s!"err {e.name}"

def kvShow (kvs : List (List Nat × List Nat)) : String :=
  "[" ++ ",".intercalate (kvs.map fun (k, v) => s!"{hex k}={hex v}") ++ "]"

def answerShow (r : Mdns.R (Option Mdns.Answer)) : String :=
  match r with
  | .ok (some a) =>
    let port := match a.port with | some p => toString p | none => "-"
    s!"ok {labelsShow a.inst.labels} {port} {kvShow a.txt} [{",".intercalate (a.addrs.map hex)}] {a.scope}"
  | .ok none => "none"
  | .error e => mErr e

/-- `a,b,c` / `-` -/
def listField (s : String) : List String := (s.splitOn ",").filter (fun x => x ≠ "-" ∧ x ≠ "")

def kvField (s : String) : Option (List (List Nat × List Nat)) :=
  (listField s).mapM fun kv =>
    match kv.splitOn "=" with
    | [k, v] => do let k ← unhex k; let v ← unhex v; pure (k, v)
    | _ => none

def labelsField (s : String) : Option (List (List Nat)) :=
  if s = "." then some [] else (s.splitOn ".").mapM unhex

/-- specification side: is this a legal structure (DNS label / name limits, TXT string limit, keys without `=`)? -/
def legalName (ls : List (List Nat)) : Bool :=
  ls.all (fun l => 1 ≤ l.length && l.length ≤ 63) && (ls.foldl (fun a l => a + l.length + 1) 1 ≤ 255)

def mdnsLegal (h : Mdns.HostCfg) (s : Mdns.Svc) : Bool :=
  legalName (Mdns.hostFqdn h) && legalName (Mdns.serviceFqdn s) && s.subtypes.all (fun sub => legalName (Mdns.subtypeFqdn s sub)) &&
  s.txt.all (fun (k, v) => k.length + v.length + 1 ≤ 255 && !(k.contains 0x3D)) && s.port < 65536

def optField (s : String) : Option Nat := if s = "-" then none else s.toNat?

def strBytes (s : String) : List Nat := s.toUTF8.toList.map (·.toNat)

def svcShow (r : Mdns.R Mdns.Svc) : String :=
  match r with
  | .ok s => s!"ok {hex s.name} {hex s.service} {hex s.protocol} {s.port} [{",".intercalate (s.subtypes.map hex)}] {kvShow s.txt}"
  | .error e => mErr e

/-- `svc` ops: what a Matter node publishes. Oracle (from the Matter mDNS TXT / subtype definitions, with Lean's own
`toString` for decimals): a commissionable node publishes `D=<discriminator>`, `VP=<vid>+<pid>`, `CM=1|2` and the
subtypes `_L<discriminator>`, `_S<discriminator >> 8>`, `_V<vid>`, `_CM`; an operational node the subtype `_I<fabric>` -/
def stepSvc (op : List String) (out : String) : String :=
  let np : Option String := if isPanic out then some "panicked or did not terminate" else none
  let icdOf := fun (s : String) => if s = "0" then some false else if s = "1" then some true else none
  match op with
  | ["c", id, disc, enh, vid, pid, sai, sii, dn, pi, ph, dt, tcp, icd, port, cap] =>
    match nats [id, disc, enh, vid, pid, ph, tcp, port, cap], unhex dn, unhex pi with
    | some [id, disc, enh, vid, pid, ph, tcp, port, cap], some dn, some pi =>
      if !(Mdns.validUtf8 dn && Mdns.validUtf8 pi) then verdict "badutf8" out none else
      let dd : Mdns.DevDet := { vid, pid, sai := optField sai, sii := optField sii, deviceName := dn, pairingInstruction := pi,
                                pairingHint := ph, deviceType := optField dt, tcp := tcp ≠ 0 }
      let model := svcShow (Mdns.matterServiceIn (.commissionable id disc (enh ≠ 0)) dd port (icdOf icd) (min cap 4096))
      let ora : Option String := np <|> (match words out with
        | ["ok", _, _, _, p, subs, txt] =>
          let has := fun (hay : String) (needle : String) => (hay.splitOn needle).length > 1
          let kv := fun (k v : String) => s!"{hex (strBytes k)}={hex (strBytes v)}"
          let cm := if enh ≠ 0 then "2" else "1"
          if p ≠ toString port then some s!"port {p}"
          else if !(has txt (kv "D" (toString disc)) && has txt (kv "VP" s!"{vid}+{pid}") && has txt (kv "CM" cm)) then
            some s!"TXT pairs D / VP / CM missing or wrong: {txt}"
          else if !(has subs (hex (strBytes s!"_L{disc}")) && has subs (hex (strBytes s!"_S{disc / 256 % 16}")) &&
              has subs (hex (strBytes s!"_V{vid}")) && has subs (hex (strBytes "_CM"))) then some s!"subtypes: {subs}"
          else none
        | _ => if out = "err BufferTooSmall" ∧ cap < 700 then none else some s!"no service description: {out}")
      verdict model out ora
    | _, _, _ => "BAD args"
  | ["o", cfid, node, sai, sii, tcp, icd, port, cap] =>
    match nats [cfid, node, tcp, port, cap] with
    | some [cfid, node, tcp, port, cap] =>
      let dd : Mdns.DevDet := { vid := 0, pid := 0, sai := optField sai, sii := optField sii, deviceName := [], pairingInstruction := [],
                                pairingHint := 0, deviceType := none, tcp := tcp ≠ 0 }
      let model := svcShow (Mdns.matterServiceIn (.commissioned cfid node) dd port (icdOf icd) (min cap 4096))
      let ora : Option String := np <|> (match words out with
        | ["ok", name, _, _, p, subs, _] =>
          if p ≠ toString port then some s!"port {p}"
          else if name.length ≠ 66 then some s!"instance name is not <16 hex>-<16 hex>: {name}"
          else if !(subs.startsWith "[5f49" && subs.length = 38) then some s!"subtype _I<fabric>: {subs}"
          else none
        | _ => if out = "err BufferTooSmall" ∧ cap < 80 then none else some s!"no service description: {out}")
      verdict model out ora
    | _ => "BAD args"
  | _ => "BAD op"

def stepMdns (op : List String) (out : String) : String :=
  let np : Option String := if isPanic out then some "panicked or did not terminate" else none
  match op with
  | ["rt", name, service, protocol, port, host, ip4, ip6s, txt, subs, hostTtl, svcTtl, cap] =>
    match unhex name, unhex service, unhex protocol, unhex host, unhex ip4, (listField ip6s).mapM unhex, kvField txt,
        (listField subs).mapM unhex, nats [port, hostTtl, svcTtl, cap] with
    | some name, some service, some protocol, some host, some ip4, some ip6s, some txt, some subs, some [port, hostTtl, svcTtl, cap] =>
      let strs := [name, service, protocol, host] ++ subs ++ txt.flatMap (fun (k, v) => [k, v])
      if !(strs.all Mdns.validUtf8) then verdict "badutf8" out none
      else if ip4.length ≠ 4 ∨ ip6s.any (·.length ≠ 16) then verdict "badop" out none
      else
        let h : Mdns.HostCfg := { hostname := host, ip := ip4, ipv6 := ip6s }
        let s : Mdns.Svc := { name, service, protocol, port, subtypes := subs, txt }
        let model := match Mdns.broadcast h s hostTtl svcTtl (min cap 70000) with
          | .ok bytes => s!"{hex bytes} {answerShow (Mdns.parseIntoAnswer bytes (some 3))}"
          | .error e => mErr e
        -- oracle, written from the structure alone: a legal structure that fits is decoded to its own fields
        let ora : Option String :=
          if !(mdnsLegal h s) then none
          else if isPanic out then some "legal service description: encoder / parser panicked or did not terminate"
          else if out = "err BufferTooSmall" then (if cap ≥ 9000 then some "legal service description did not fit 9000 bytes" else none)
          else
            let addrs := (if Mdns.isUnspecified ip4 then [] else [ip4]) ++ ip6s.filter (fun a => !Mdns.isUnspecified a)
            let want := s!"ok {labelsShow [name, service, protocol, Mdns.LOCAL]} {port} {kvShow txt} [{",".intercalate (addrs.map hex)}] 3"
            let got := (splitFirst out).2
            if got = want then none else some s!"round trip: want [{want}] got [{got}]"
        verdict model out ora
    | _, _, _, _, _, _, _, _, _ => "BAD args"
  | "dec" :: h :: rest =>
    match unhex h with
    | none => "BAD hex"
    | some bs =>
      let scope := match rest with | [s] => s.toNat? | _ => none
      verdict (answerShow (Mdns.parseIntoAnswer bs scope)) out np
  | ["name", h, pos, stop] =>
    match unhex h, pos.toNat?, stop.toNat? with
    | some bs, some pos, some stop =>
      -- the hook refuses a range outside the octets (`Parser::try_with_range`) as a short input
      let model :=
        if pos > bs.length ∨ stop > bs.length ∨ stop < pos then "err short"
        else match Mdns.parseName bs { pos := pos, len := stop } with
          | .ok (n, p) => s!"ok {labelsShow n.labels} {p.pos} {n.nameLen} {if n.compressed then 1 else 0}"
          | .error e => mErr e
      -- specification: an accepted name has labels of 1..63 octets and at most 255 octets in all
      let ora : Option String := np <|> (match words out with
        | ["ok", ls, _, len, _] =>
          match labelsField ls, len.toNat? with
          | some ls, some len =>
            if ls.all (fun l => 1 ≤ l.length && l.length ≤ 63) && len ≤ 255 && len = ls.foldl (fun a l => a + l.length + 1) 1 then none
            else some s!"accepted name violates the DNS limits: {out}"
          | _, _ => some s!"unreadable answer {out}"
        | _ => none)
      verdict model out ora
    | _, _, _ => "BAD args"
  | ["skip", h, pos, stop] =>
    match unhex h, pos.toNat?, stop.toNat? with
    | some bs, some pos, some stop =>
      let model :=
        if pos > bs.length ∨ stop > bs.length ∨ stop < pos then "err short"
        else match Mdns.skipName bs { pos := pos, len := stop } with
          | .ok p => s!"ok {p.pos}"
          | .error e => mErr e
      verdict model out np
    | _, _, _ => "BAD args"
  | ["txt", h] =>
    match unhex h with
    | none => "BAD hex"
    | some bs =>
      let model := match Mdns.txtPairs bs with
        | .ok kvs => kvShow kvs
        | .error e => mErr e
      verdict model out np
  | ["q", ls, rtype] =>
    match labelsField ls, rtype.toNat? with
    | some ls, some rtype =>
      let bytes := Mdns.queryBytes ls rtype
      let model := if !(Mdns.nameSliceOk ls) then "panic" else s!"{hex bytes} {answerShow (Mdns.parseIntoAnswer bytes none)}"
      -- a query is never an answer
      let ora : Option String := np <|> (if (splitFirst out).2 = "none" then none else some s!"a query was parsed into an answer: {out}")
      verdict model out ora
    | _, _ => "BAD args"
  | "svc" :: rest => stepSvc rest out
  | _ => "BAD op"

end Driver.C17Discovery
