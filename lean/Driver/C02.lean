import Driver.Util
/-! Driver for C02: not built yet. -/
namespace Driver.C02

def run : IO UInt32 := do
  IO.eprintln "C02: driver not built yet"
  return 2

end Driver.C02
